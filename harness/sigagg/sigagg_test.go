// Correspondence harness for C09: drives the real core/sigagg Aggregator (sigagg.New +
// sigagg.NewVerifier over a beaconmock) with real tbls key shares and records, per call, the
// abstract description of the batch (symbolic signature terms) and what was observed (error class,
// sets handed to subscribers, and -- checked here with tbls.Verify against the group public key
// and a signing root computed independently of core/eth2signeddata.go -- whether each published
// signature verifies).
package sigagg

import (
	"context"
	"encoding/hex"
	"errors"
	"fmt"
	"math/big"
	"math/rand"
	"sort"
	"strings"
	"testing"

	eth2p0 "github.com/attestantio/go-eth2-client/spec/phase0"

	"github.com/obolnetwork/charon/core"
	"github.com/obolnetwork/charon/core/sigagg"
	"github.com/obolnetwork/charon/tbls"
	"github.com/obolnetwork/charon/testutil/beaconmock"

	"verif/harness/hx"
	"verif/harness/sigagg/dutygen"
)

// PartSpec describes one partial signed object of a batch abstractly.
type PartSpec struct {
	Idx       int    `json:"idx"`        // ShareIdx field
	Signer    int    `json:"signer"`     // share whose key signs (genuine)
	SignerVal int    `json:"signer_val"` // validator whose share signs (genuine)
	Content   int    `json:"content"`    // content class of the data the partial carries
	SignOver  int    `json:"sign_over"`  // content class the signature is made over
	Variant   int    `json:"variant"`    // dutygen.Variant of the signing root the signature is made over
	SigKind   string `json:"sig_kind"`   // genuine | zero | truncpad | random | inf | otherkey | badlen95 | badlen0 | badlen97
	Tag       int    `json:"tag"`        // attestation ValidatorIndex (0 = nil)
	Raw       bool   `json:"raw"`        // the object is a bare core.Signature
	// ForkEpoch > 0: the signature is made over the object root wrapped with the domain of the fork
	// active at this epoch (whatever epoch the object itself names; no genesis rule for the builder domain).
	ForkEpoch uint64 `json:"fork_epoch"`
	// ForkVersion (8 hex digits): the signature is made over the object root wrapped with
	// compute_domain(type, this fork version, genesis validators root), evaluated in the harness.
	ForkVersion string `json:"fork_version"`
}

// ValSpec is one validator's entry of the batch.
type ValSpec struct {
	V     int        `json:"v"`
	Parts []PartSpec `json:"parts"`
}

// CaseSpec is one call of Aggregate.
type CaseSpec struct {
	ID      int       `json:"id"`
	Kind    string    `json:"kind"`
	Type    string    `json:"type"` // dutygen generator name
	T       int       `json:"t"`
	N       int       `json:"n"`
	Vals    []ValSpec `json:"vals"`
	Subs    []bool    `json:"subs"`   // per subscriber: returns nil?
	Mutate  bool      `json:"mutate"` // first subscriber mutates what it received
	Corrupt []string  `json:"corrupt"`
	// Cancel: the context passed to Aggregate is cancelled -- 0 never, 1 before the call,
	// k+1 right after the k-th invocation of the (wrapped) verifier.
	Cancel int `json:"cancel"`
	// Epoch of the objects (0: the default epoch 3, unless EpochZero).
	Epoch     uint64 `json:"epoch"`
	EpochZero bool   `json:"epoch_zero"`
	// Straddle: the object's slot lies in epoch Epoch (its last slot if OtherEpoch > Epoch, else its
	// first slot) while the other epoch-bearing field of the object (attestation target epoch; inner
	// target epoch of an aggregate-and-proof) is OtherEpoch. The signing epoch is the one the consensus
	// spec names for the type (dutygen.Parts), whichever side that is.
	Straddle   bool   `json:"straddle"`
	OtherEpoch uint64 `json:"other_epoch"`
	// Seq > 0: the call belongs to sequence Seq: ONE aggregator with ONE verifier (sigagg.NewVerifier)
	// lives through all calls of the sequence, in order, as in production.
	Seq int `json:"seq"`
}

// PubObs is one object observed at a subscriber.
type PubObs struct {
	V        int    `json:"v"`
	Kind     string `json:"kind"`
	Tag      int    `json:"tag"`
	Content  int    `json:"content"`
	Verifies bool   `json:"verifies"`
}

// Case is a spec plus the observation.
type Case struct {
	CaseSpec
	Err        string     `json:"err"` // error class, "" = nil
	ErrText    string     `json:"err_text"`
	Calls      [][]PubObs `json:"calls"`
	Pos        int        `json:"pos"`   // position of the call in its sequence
	Prev       []string   `json:"prev"`  // the previous calls of the sequence: "type@epoch"
	Label      string     `json:"label"` // Coq term of type label N
	NonTrivial bool       `json:"nontrivial"`
}

const maxVals = 4

type keyset struct {
	group  tbls.PublicKey
	shares map[int]tbls.PrivateKey
}

type env struct {
	t        *testing.T
	ctx      context.Context
	bmock    beaconmock.Mock
	spe      uint64
	gens     map[string]dutygen.Gen
	names    []string
	keys     map[[3]int]keyset // (v, n, t)
	other    tbls.PrivateKey
	otherNeg tbls.PrivateKey
	versions []eth2p0.Version // fork versions of the beacon mock's schedule
	r        *rand.Rand
	// long-lived aggregator of the current sequence; its subscribers and verifier dispatch to the hooks
	seqID     int
	seqT      int
	seqAgg    *sigagg.Aggregator
	seqHist   [][2]uint64 // (type id, epoch) of the calls made so far
	seqPrev   []string
	seqVerify func(context.Context, core.PubKey, core.SignedData) error
	onSub     func(si int, out core.SignedDataSet) error
	onVerify  func(ctx context.Context, pk core.PubKey, sd core.SignedData) error
}

func (e *env) typeID(name string) uint64 {
	for i, n := range e.names {
		if n == name {
			return uint64(i + 1)
		}
	}

	return 0
}

func newEnv(t *testing.T) *env {
	t.Helper()
	ctx := context.Background()
	bmock, err := beaconmock.New(t.Context())
	if err != nil {
		t.Fatal(err)
	}
	spe, err := bmock.SlotsPerEpoch(ctx)
	if err != nil {
		t.Fatal(err)
	}
	e := &env{t: t, ctx: ctx, bmock: bmock, spe: spe, gens: map[string]dutygen.Gen{}, keys: map[[3]int]keyset{}, r: hx.Rand()}
	for _, g := range dutygen.Gens(true) {
		e.gens[g.Name] = g
		e.names = append(e.names, g.Name)
	}
	if e.versions, err = dutygen.ForkVersions(ctx, bmock); err != nil {
		t.Fatal(err)
	}
	e.other, err = tbls.GenerateInsecureKey(t, e.r)
	if err != nil {
		t.Fatal(err)
	}
	// the negated foreign key: signatures under it are the inverses of signatures under e.other
	order, _ := new(big.Int).SetString("73eda753299d7d483339d80809a1d80553bda402fffe5bfeffffffff00000001", 16)
	neg := new(big.Int).Sub(order, new(big.Int).SetBytes(e.other[:]))
	neg.FillBytes(e.otherNeg[:])
	d1, err1 := tbls.Sign(e.other, []byte("probe"))
	d2, err2 := tbls.Sign(e.otherNeg, []byte("probe"))
	if err1 != nil || err2 != nil {
		t.Fatal(err1, err2)
	}
	if sum, err := tbls.Aggregate([]tbls.Signature{d1, d2}); err != nil || sum[0] != 0xc0 {
		t.Fatalf("negated key does not cancel: %v %x", err, sum[:4])
	}

	return e
}

func (e *env) keyset(v, n, th int) keyset {
	k := [3]int{v, n, th}
	if ks, ok := e.keys[k]; ok {
		return ks
	}
	kr := rand.New(rand.NewSource(int64(1000003*v + 1009*n + th))) //nolint:gosec
	sk, err := tbls.GenerateInsecureKey(e.t, kr)
	if err != nil {
		e.t.Fatal(err)
	}
	pk, err := tbls.SecretToPublicKey(sk)
	if err != nil {
		e.t.Fatal(err)
	}
	var shares map[int]tbls.PrivateKey
	if th == 1 { // tbls refuses to split with threshold 1; the degree-0 polynomial gives every share the secret
		shares = map[int]tbls.PrivateKey{}
		for i := 1; i <= n; i++ {
			shares[i] = sk
		}
	} else if shares, err = tbls.ThresholdSplitInsecure(e.t, sk, uint(n), uint(th), kr); err != nil {
		e.t.Fatal(err)
	}
	ks := keyset{group: pk, shares: shares}
	e.keys[k] = ks

	return ks
}

type content struct {
	raw   any
	roots [3][32]byte // per dutygen.Variant
	msg   [32]byte    // core MessageRoot of the wrapped object (to recognise published objects)
}

func errClass(err error) string {
	if err == nil {
		return ""
	}
	s := err.Error()
	switch {
	case strings.Contains(s, "verif-sub-error"):
		return "ESub"
	case strings.Contains(s, "empty partial signed data set"):
		return "EEmpty"
	case strings.Contains(s, "require threshold signatures"):
		return "ELen"
	case strings.Contains(s, "signature from core"):
		return "ESigConv"
	case strings.Contains(s, "number of partial signatures less than threshold"):
		return "EDistinct"
	case strings.Contains(s, "verify aggregate signature"):
		return "EVerify"
	case strings.Contains(s, "invalid eth2 signed data"):
		return "ENotEth2"
	case strings.Contains(s, "unmarshal signature into Herumi signature"), strings.Contains(s, "combine signatures"), strings.Contains(s, "signature id isn't a number"):
		return "ETbls"
	}

	return "EUnknown"
}

func coqZ(i int) string {
	if i < 0 {
		return fmt.Sprintf("(%d)%%Z", i)
	}

	return fmt.Sprintf("%d%%Z", i)
}

func coqBool(b bool) string {
	if b {
		return "true"
	}

	return "false"
}

// run builds the concrete batch of a spec, calls Aggregate and fills the observation.
func (e *env) run(spec CaseSpec) Case {
	c := Case{CaseSpec: spec}
	g, ok := e.gens[spec.Type]
	if !ok {
		e.t.Fatalf("unknown type %q", spec.Type)
	}
	epoch := spec.Epoch
	if epoch == 0 && !spec.EpochZero {
		epoch = 3
	}
	slot := epoch*e.spe + 5
	if spec.Straddle {
		slot = epoch * e.spe
		if spec.OtherEpoch > epoch {
			slot += e.spe - 1
		}
	}

	// contents used by the case
	contents := map[int]*content{}
	getContent := func(cl int) *content {
		if ct, ok := contents[cl]; ok {
			return ct
		}
		raw := g.New(e.t, slot+uint64(cl)*e.spe, e.spe) // other class: other epoch as well
		if spec.Straddle && !dutygen.Straddle(raw, slot+uint64(cl)*e.spe, spec.OtherEpoch) {
			e.t.Fatalf("%s has no slot/epoch pair to straddle", spec.Type)
		}
		dom, ep, root, err := g.Parts(raw, e.spe)
		if cl == 0 {
			epoch = uint64(ep) // the label carries the signing epoch the spec names for the object
		}
		if err != nil {
			e.t.Fatal(err)
		}
		ct := &content{raw: raw}
		for v := 0; v < 3; v++ {
			ct.roots[v], err = dutygen.SigningRoot(e.ctx, e.bmock, dom, ep, root, dutygen.Variant(v))
			if err != nil {
				e.t.Fatal(err)
			}
		}
		w, err := g.Wrap(raw)
		if err != nil {
			e.t.Fatal(err)
		}
		ct.msg, err = w.MessageRoot()
		if err != nil {
			e.t.Fatal(err)
		}
		contents[cl] = ct

		return ct
	}
	rootID := func(cl, variant int) int { return 100*variant + cl + 1 }
	versionRoot := func(cl int, hexv string) [32]byte { // content cl wrapped with the domain of an explicit fork version
		dom, _, oroot, err := g.Parts(getContent(cl).raw, e.spe)
		if err != nil {
			e.t.Fatal(err)
		}
		b, err := hex.DecodeString(hexv)
		if err != nil || len(b) != 4 {
			e.t.Fatalf("bad fork version %q", hexv)
		}
		r, err := dutygen.SigningRootForkVersion(e.ctx, e.bmock, dom, oroot, eth2p0.Version(b))
		if err != nil {
			e.t.Fatal(err)
		}

		return r
	}
	forkRoots := map[[2]uint64][32]byte{}
	forkRoot := func(cl int, fe uint64) [32]byte { // content cl wrapped with the domain of the fork active at epoch fe
		k := [2]uint64{uint64(cl), fe}
		if r, ok := forkRoots[k]; ok {
			return r
		}
		dom, _, oroot, err := g.Parts(getContent(cl).raw, e.spe)
		if err != nil {
			e.t.Fatal(err)
		}
		r, err := dutygen.SigningRootForkAt(e.ctx, e.bmock, dom, oroot, eth2p0.Epoch(fe))
		if err != nil {
			e.t.Fatal(err)
		}
		forkRoots[k] = r

		return r
	}

	set := map[core.PubKey][]core.ParSignedData{}
	pkOf := map[core.PubKey]int{}
	var valTerms []string
	for _, vs := range spec.Vals {
		ks := e.keyset(vs.V, spec.N, spec.T)
		pk := core.PubKeyFrom48Bytes(ks.group)
		pkOf[pk] = vs.V
		var parts []core.ParSignedData
		var terms []string
		for pi, ps := range vs.Parts {
			// signature bytes and term
			var sig []byte
			var term string
			genuine := func() tbls.Signature {
				sk, ok := e.keyset(ps.SignerVal, spec.N, spec.T).shares[ps.Signer]
				if !ok {
					e.t.Fatalf("no share %d", ps.Signer)
				}
				root := getContent(ps.SignOver).roots[ps.Variant]
				if ps.ForkEpoch > 0 {
					root = forkRoot(ps.SignOver, ps.ForkEpoch)
				}
				if ps.ForkVersion != "" {
					root = versionRoot(ps.SignOver, ps.ForkVersion)
				}
				s, err := tbls.Sign(sk, root[:])
				if err != nil {
					e.t.Fatal(err)
				}

				return s
			}
			uniq := 1000*spec.ID + 10*vs.V + pi
			switch ps.SigKind {
			case "genuine":
				s := genuine()
				sig = s[:]
				rid := rootID(ps.SignOver, ps.Variant)
				if ps.ForkEpoch > 0 {
					rid = rootID(ps.SignOver, 0)
					if forkRoot(ps.SignOver, ps.ForkEpoch) != getContent(ps.SignOver).roots[0] {
						rid = 1000 + 10*int(ps.ForkEpoch) + ps.SignOver // another root: other fork's domain
					}
				}
				if ps.ForkVersion != "" {
					rid = rootID(ps.SignOver, 0)
					if vr := versionRoot(ps.SignOver, ps.ForkVersion); vr != getContent(ps.SignOver).roots[0] {
						rid = 5000 + 10*int(vr[0]) + ps.SignOver // another root: another fork version's domain
						for i, v := range e.versions {
							if hex.EncodeToString(v[:]) == ps.ForkVersion {
								rid = 5000 + 10*i + ps.SignOver
							}
						}
					}
				}
				term = fmt.Sprintf("PSig %d %s %d", ps.SignerVal, coqZ(ps.Signer), rid)
			case "otherkey":
				root := getContent(ps.SignOver).roots[0]
				s, err := tbls.Sign(e.other, root[:])
				if err != nil {
					e.t.Fatal(err)
				}
				sig = s[:]
				term = fmt.Sprintf("SOther %d", uniq)
			case "plusD", "minusD": // the genuine partial plus / minus a fixed foreign point D over the same root
				root := getContent(ps.SignOver).roots[0]
				key := e.other
				if ps.SigKind == "minusD" {
					key = e.otherNeg
				}
				d, err := tbls.Sign(key, root[:])
				if err != nil {
					e.t.Fatal(err)
				}
				s, err := tbls.Aggregate([]tbls.Signature{genuine(), d})
				if err != nil {
					e.t.Fatal(err)
				}
				sig = s[:]
				term = fmt.Sprintf("SOther %d", uniq)
			case "inf":
				s := tbls.Signature{}
				s[0] = 0xc0
				sig = s[:]
				term = fmt.Sprintf("SOther %d", uniq)
			case "zero":
				sig = make([]byte, 96)
				term = fmt.Sprintf("SBadPoint %d", uniq)
			case "truncpad":
				s := genuine()
				for i := 48; i < 96; i++ {
					s[i] = 0
				}
				sig = s[:]
				term = fmt.Sprintf("SBadPoint %d", uniq)
			case "random":
				sig = make([]byte, 96)
				for {
					_, _ = e.r.Read(sig)
					// classify by an oracle on the input alone: undecodable iff tbls.Verify says so
					err := tbls.Verify(ks.group, []byte("x"), tbls.Signature(sig))
					if err != nil && strings.Contains(err.Error(), "unmarshal signature") {
						break
					}
				}
				term = fmt.Sprintf("SBadPoint %d", uniq)
			case "badlen95", "badlen0", "badlen97":
				n := map[string]int{"badlen95": 95, "badlen0": 0, "badlen97": 97}[ps.SigKind]
				sig = make([]byte, n)
				_, _ = e.r.Read(sig)
				term = fmt.Sprintf("SBadLen %d", uniq)
			default:
				e.t.Fatalf("unknown sig kind %q", ps.SigKind)
			}
			// object
			var data core.SignedData
			kind := "KTyped"
			if ps.Raw {
				data = core.Signature(sig)
				kind = "KRaw"
			} else {
				if len(sig) != 96 {
					e.t.Fatalf("bad length needs raw")
				}
				w, err := g.Wrap(getContent(ps.Content).raw)
				if err != nil {
					e.t.Fatal(err)
				}
				if g.IsAtt {
					kind = "KAtt"
					att := w.(core.VersionedAttestation)
					if ps.Tag != 0 {
						vi := eth2p0.ValidatorIndex(ps.Tag)
						att.ValidatorIndex = &vi
					} else {
						att.ValidatorIndex = nil
					}
					w = att
				}
				data, err = w.SetSignature(core.Signature(sig))
				if err != nil {
					e.t.Fatal(err)
				}
			}
			tag := 0
			if kind == "KAtt" {
				tag = ps.Tag
			}
			parts = append(parts, core.ParSignedData{SignedData: data, ShareIdx: ps.Idx})
			terms = append(terms, fmt.Sprintf("mkps %s (mkobj %s %d %d) (%s)", coqZ(ps.Idx), kind, tag, ps.Content+1, term))
		}
		set[pk] = parts
		valTerms = append(valTerms, fmt.Sprintf("(%d, [%s])", vs.V, strings.Join(terms, "; ")))
	}

	// The verifier is the real one; the wrapper only counts invocations, cancels the caller's
	// context at the scripted moment and shields the beacon-mock HTTP client from that cancellation
	// (Aggregate itself never consults ctx: the outcome must not depend on it).
	actx, cancel := context.WithCancel(e.ctx)
	defer cancel()
	verifyCalls := 0
	var agg *sigagg.Aggregator
	var realVerify func(context.Context, core.PubKey, core.SignedData) error
	nsubs := len(spec.Subs)
	fresh := spec.Seq == 0 || spec.Seq != e.seqID || spec.T != e.seqT
	if fresh {
		realVerify = sigagg.NewVerifier(e.bmock)
		var err error
		agg, err = sigagg.New(spec.T, func(ctx context.Context, pk core.PubKey, sd core.SignedData) error {
			return e.onVerify(ctx, pk, sd)
		})
		if err != nil {
			e.t.Fatal(err)
		}
		for si := 0; si < nsubs; si++ {
			agg.Subscribe(func(_ context.Context, _ core.Duty, out core.SignedDataSet) error { return e.onSub(si, out) })
		}
		e.seqID, e.seqT, e.seqAgg, e.seqHist, e.seqPrev = 0, 0, nil, nil, nil
		if spec.Seq != 0 {
			e.seqID, e.seqT, e.seqAgg = spec.Seq, spec.T, agg
			rv := realVerify
			e.seqVerify = rv
		}
	} else {
		agg, realVerify = e.seqAgg, e.seqVerify
	}
	c.Pos = len(e.seqHist)
	c.Prev = append([]string(nil), e.seqPrev...)
	var hist []string
	for _, h := range e.seqHist {
		hist = append(hist, fmt.Sprintf("(%d, %d)", h[0], h[1]))
	}
	if spec.Seq != 0 {
		e.seqHist = append(e.seqHist, [2]uint64{e.typeID(spec.Type), epoch})
		e.seqPrev = append(e.seqPrev, fmt.Sprintf("%s@%d", spec.Type, epoch))
	}
	e.onVerify = func(ctx context.Context, pk core.PubKey, sd core.SignedData) error {
		verr := realVerify(context.WithoutCancel(ctx), pk, sd)
		verifyCalls++
		if spec.Cancel >= 2 && verifyCalls == spec.Cancel-1 {
			cancel()
		}

		return verr
	}
	if spec.Cancel == 1 {
		cancel()
	}
	{
		e.onSub = func(si int, out core.SignedDataSet) error {

			var call []PubObs
			for pk, sd := range out {
				po := PubObs{V: -1, Kind: "KTyped", Content: 998}
				if v, ok := pkOf[pk]; ok {
					po.V = v
				}
				switch x := sd.(type) {
				case core.VersionedAttestation:
					po.Kind = "KAtt"
					if x.ValidatorIndex != nil {
						po.Tag = int(*x.ValidatorIndex)
					}
				case core.Signature:
					po.Kind = "KRaw"
				}
				if mr, err := sd.MessageRoot(); err == nil {
					for cl, ct := range contents {
						if ct.msg == mr {
							po.Content = cl
						}
					}
				}
				if ct, ok := contents[po.Content]; ok && po.V >= 0 && len(sd.Signature()) == 96 {
					ks := e.keyset(po.V, spec.N, spec.T)
					root := ct.roots[0] // copy: cgo must not see a pointer into a struct that holds Go pointers
					po.Verifies = tbls.Verify(ks.group, root[:], tbls.Signature(sd.Signature())) == nil
				}
				call = append(call, po)
			}
			sort.Slice(call, func(i, j int) bool { return call[i].V < call[j].V })
			c.Calls = append(c.Calls, call)
			if spec.Mutate && si == 0 {
				// a subscriber that scribbles over what it was given must not affect the next one
				for pk, sd := range out {
					switch x := sd.(type) {
					case core.VersionedAttestation:
						if d, err := x.Data(); err == nil {
							d.Slot++
							d.BeaconBlockRoot[0] ^= 0xff
						}
					case core.SignedVoluntaryExit:
						x.Message.Epoch++
					case core.SignedSyncMessage:
						x.BeaconBlockRoot[0] ^= 0xff // value copy: no effect expected either way
					}
					delete(out, pk)
				}
			}
			if !spec.Subs[si] {
				return errors.New("verif-sub-error")
			}

			return nil
		}
	}

	aerr := agg.Aggregate(actx, core.Duty{Slot: slot, Type: g.Duty}, set)
	c.Err = errClass(aerr)
	if aerr != nil {
		c.ErrText = aerr.Error()
		if len(c.ErrText) > 200 {
			c.ErrText = c.ErrText[:200]
		}
	}

	var subs []string
	for _, s := range spec.Subs {
		subs = append(subs, coqBool(s))
	}
	errTerm := "None"
	if c.Err != "" {
		errTerm = "(Some " + c.Err + ")"
	}
	var calls []string
	for _, call := range c.Calls {
		var objs []string
		for _, po := range call {
			v := po.V
			if v < 0 {
				v = 999
			}
			objs = append(objs, fmt.Sprintf("(%d, mkpo %s %d %d %s)", v, po.Kind, po.Tag, po.Content+1, coqBool(po.Verifies)))
		}
		calls = append(calls, "["+strings.Join(objs, "; ")+"]")
	}
	c.Label = fmt.Sprintf("mkl %d%%nat [%s] [%s] %d (%d, %d) [%s] %s [%s]", spec.T, strings.Join(valTerms, "; "), strings.Join(subs, "; "), spec.Cancel,
		e.typeID(spec.Type), epoch, strings.Join(hist, "; "), errTerm, strings.Join(calls, "; "))
	c.NonTrivial = len(spec.Corrupt) > 0 || spec.Cancel > 0 || spec.Seq > 0

	return c
}

// ---- generation

// validParts returns genuine partials of validator v for the given share indices over content 0.
func validParts(v int, idxs []int) []PartSpec {
	var ps []PartSpec
	for _, i := range idxs {
		ps = append(ps, PartSpec{Idx: i, Signer: i, SignerVal: v, SigKind: "genuine"})
	}

	return ps
}

func subset(r *rand.Rand, n, k int) []int {
	p := r.Perm(n)
	out := make([]int, 0, k)
	for _, x := range p[:k] {
		out = append(out, x+1)
	}

	return out
}

var corruptions = []string{
	"wrongshare", "wrongidx_inrange", "wrongidx_out", "wrongidx_zero", "wrongidx_neg", "othermsg", "otherdomain", "otherfork",
	"otherval", "zero", "truncpad", "random", "inf", "otherkey", "toofew", "repeat_nosurplus", "repeat_surplus",
	"payload_mismatch", "dup_bad_then_good", "dup_good_then_bad", "raw_badlen", "raw_all", "raw_first", "raw_later",
	"all_othermsg", "att_tags", "att_tag_mismatch",
}

// corrupt applies one named corruption to a valid part list (of validator v, n shares, threshold th).
// It returns false when the corruption is not applicable.
func corrupt(r *rand.Rand, name string, parts []PartSpec, v, n, th int, isAtt bool) ([]PartSpec, bool) {
	ps := append([]PartSpec(nil), parts...)
	k := r.Intn(len(ps))
	used := map[int]bool{}
	for _, p := range ps {
		used[p.Idx] = true
	}
	switch name {
	case "wrongshare": // share k's slot carries the signature of another share
		o := ps[k].Idx%n + 1
		ps[k].Signer = o
	case "wrongidx_inrange":
		for i := 1; i <= n; i++ {
			if !used[i] {
				ps[k].Idx = i
				return ps, true
			}
		}

		return nil, false
	case "wrongidx_out":
		ps[k].Idx = n + 1 + r.Intn(3)
	case "wrongidx_zero":
		ps[k].Idx = 0
	case "wrongidx_neg":
		ps[k].Idx = -1 - r.Intn(3)
	case "othermsg": // signature and data both of another content
		ps[k].Content, ps[k].SignOver = 1, 1
	case "otherdomain":
		ps[k].Variant = int(dutygen.OtherDomain)
	case "otherfork":
		ps[k].Variant = int(dutygen.OtherFork)
	case "otherval":
		ps[k].SignerVal = (v + 1) % maxVals
	case "zero", "truncpad", "random", "inf", "otherkey":
		ps[k].SigKind = name
	case "toofew":
		if th < 2 {
			return nil, false
		}
		ps = ps[:th-1]
	case "repeat_nosurplus": // exactly th partials, two with the same share index
		if th < 2 || len(ps) < th {
			return nil, false
		}
		ps = ps[:th]
		ps[th-1] = ps[0]
	case "repeat_surplus": // a repeat on top of th distinct ones (N1): still valid
		ps = append(ps, ps[k])
		r.Shuffle(len(ps), func(i, j int) { ps[i], ps[j] = ps[j], ps[i] })
	case "payload_mismatch": // first partial carries other data than it signed
		ps[0].Content = 1
	case "dup_bad_then_good": // an earlier garbage partial is overwritten by the genuine one: valid
		bad := ps[k]
		bad.SigKind = []string{"zero", "otherkey", "inf"}[r.Intn(3)]
		ps = append([]PartSpec{bad}, ps...)
	case "dup_good_then_bad":
		bad := ps[k]
		bad.SigKind = []string{"zero", "otherkey", "inf"}[r.Intn(3)]
		ps = append(ps, bad)
	case "raw_badlen":
		ps[k].Raw = true
		ps[k].SigKind = []string{"badlen95", "badlen0", "badlen97"}[r.Intn(3)]
	case "raw_all":
		for i := range ps {
			ps[i].Raw = true
		}
	case "raw_first":
		ps[0].Raw = true
	case "raw_later":
		if len(ps) < 2 {
			return nil, false
		}
		ps[1+r.Intn(len(ps)-1)].Raw = true
	case "all_othermsg": // everybody signs content 1 but attaches content 0
		for i := range ps {
			ps[i].SignOver = 1
		}
	case "att_tags": // validator index set on some later partial: that one becomes the payload (valid)
		if !isAtt {
			return nil, false
		}
		ps[k].Tag = 7000 + k
		if r.Intn(2) == 0 {
			ps[r.Intn(len(ps))].Tag = 8000
		}
	case "att_tag_mismatch": // the partial with the validator index carries other content
		if !isAtt || len(ps) < 2 {
			return nil, false
		}
		j := 1 + r.Intn(len(ps)-1)
		ps[j].Tag = 9000
		ps[j].Content = 1
	default:
		return nil, false
	}

	return ps, true
}

func (e *env) genCases(total int) []CaseSpec {
	r := e.r
	var out []CaseSpec
	add := func(c CaseSpec) {
		c.ID = len(out)
		if len(c.Subs) == 0 {
			c.Subs = []bool{true, true}
		}
		out = append(out, c)
	}
	nt := func() (int, int) {
		n := 3 + r.Intn(5)
		th := n - (n-1)/3
		if r.Intn(4) == 0 {
			th = 2 + r.Intn(n-1) // th = 1 only in the corpus: with one share key all "shares" coincide, which the symbolic terms do not express
		}

		return n, th
	}
	// corpus
	add(CaseSpec{Kind: "corpus", Type: "randao", T: 2, N: 3, Vals: []ValSpec{{V: 0, Parts: validParts(0, []int{1, 1, 2})}}, Corrupt: []string{"repeat_surplus"}})
	add(CaseSpec{Kind: "corpus", Type: "randao", T: 2, N: 3, Vals: nil, Corrupt: []string{"empty"}})
	add(CaseSpec{Kind: "corpus", Type: "randao", T: 2, N: 3, Vals: []ValSpec{{V: 0, Parts: nil}}, Corrupt: []string{"nil_parts"}})
	add(CaseSpec{Kind: "corpus", Type: "attestation/deneb", T: 1, N: 3, Vals: []ValSpec{{V: 1, Parts: validParts(1, []int{2})}}})

	// every type: valid with exactly t, valid with more, each corruption once
	for _, name := range e.names {
		g := e.gens[name]
		n, th := nt()
		add(CaseSpec{Kind: "valid", Type: name, T: th, N: n, Vals: []ValSpec{{V: 0, Parts: validParts(0, subset(r, n, th))}}})
		n, th = nt()
		add(CaseSpec{Kind: "valid", Type: name, T: th, N: n, Vals: []ValSpec{{V: 1, Parts: validParts(1, subset(r, n, n))}, {V: 2, Parts: validParts(2, subset(r, n, th))}}})
		for _, cn := range corruptions {
			if len(out) >= total && total < 400 {
				break
			}
			n, th := nt()
			if ps, ok := corrupt(r, cn, validParts(0, subset(r, n, th+r.Intn(n-th+1))), 0, n, th, g.IsAtt); ok {
				add(CaseSpec{Kind: "corrupt1", Type: name, T: th, N: n, Vals: []ValSpec{{V: 0, Parts: ps}}, Corrupt: []string{cn}})
			}
		}
	}
	// context cancelled before the call / right after the k-th verifier invocation, in batches of
	// 2..3 validators with 0, 1 or 2 deficient or corrupted validators at every placement; the map
	// order is Go's (random), so every such call is repeated
	reps := 3
	if total > 3000 {
		reps = 8
	}
	for nv := 2; nv <= 3; nv++ {
		for mask := 0; mask < 1<<nv; mask++ {
			nbad := 0
			for v := 0; v < nv; v++ {
				nbad += mask >> v & 1
			}
			if nbad > 2 {
				continue
			}
			for cancelAt := 1; cancelAt <= nv+1; cancelAt++ {
				for rep := 0; rep < reps; rep++ {
					name := e.names[r.Intn(len(e.names))]
					n, th := nt()
					c := CaseSpec{Kind: "ctx-cancel", Type: name, T: th, N: n, Cancel: cancelAt}
					for v := 0; v < nv; v++ {
						ps := validParts(v, subset(r, n, th+r.Intn(n-th+1)))
						if mask>>v&1 == 1 {
							cn := []string{"toofew", "repeat_nosurplus", "wrongshare", "zero", "othermsg"}[r.Intn(5)]
							if q, ok := corrupt(r, cn, ps, v, n, th, e.gens[name].IsAtt); ok && len(q) > 0 {
								ps = q
								c.Corrupt = append(c.Corrupt, cn)
							}
						}
						c.Vals = append(c.Vals, ValSpec{V: v, Parts: ps})
					}
					add(c)
				}
			}
		}
	}
	// shared signing root: 2..3 validators sign the SAME object (same attestation data, same sync block
	// root, same epoch ...) with the SAME share indices, and partials are exchanged across validators so
	// that the errors cancel in any sum over validators; each validator's own aggregate is invalid.
	// (+D and -D are never given to the SAME validator: Lagrange coefficients of two share indices can
	// coincide, e.g. for indices symmetric in 1..n, and then the validator's own aggregate is valid --
	// an algebraic coincidence the symbolic terms do not express.)
	for _, name := range e.names {
		for _, variant := range []string{"swap_same_index", "swap_two_indices", "swap_different_indices", "one_sided", "cyclic3", "cyclic3_two_indices", "delta_pair", "delta_pair_in_three"} {
			n, th := nt()
			nv := 2
			if strings.Contains(variant, "3") || strings.Contains(variant, "three") {
				nv = 3
			}
			idxs := subset(r, n, th+r.Intn(n-th+1))
			c := CaseSpec{Kind: "shared-root", Type: name, T: th, N: n, Corrupt: []string{variant}}
			for v := 0; v < nv; v++ {
				c.Vals = append(c.Vals, ValSpec{V: v, Parts: validParts(v, idxs)})
			}
			k := r.Intn(len(idxs))
			k2 := (k + 1) % len(idxs)
			P := func(v, i int) *PartSpec { return &c.Vals[v].Parts[i] }
			switch variant {
			case "swap_same_index":
				P(0, k).SignerVal, P(1, k).SignerVal = 1, 0
			case "swap_two_indices":
				if k2 == k {
					continue
				}
				P(0, k).SignerVal, P(1, k).SignerVal = 1, 0
				P(0, k2).SignerVal, P(1, k2).SignerVal = 1, 0
			case "swap_different_indices":
				if k2 == k {
					continue
				}
				P(0, k).SignerVal, P(1, k2).SignerVal = 1, 0
			case "one_sided":
				P(0, k).SignerVal = 1
			case "cyclic3":
				P(0, k).SignerVal, P(1, k).SignerVal, P(2, k).SignerVal = 1, 2, 0
			case "cyclic3_two_indices":
				if k2 == k {
					continue
				}
				P(0, k).SignerVal, P(1, k).SignerVal, P(2, k).SignerVal = 1, 2, 0
				P(0, k2).SignerVal, P(1, k2).SignerVal, P(2, k2).SignerVal = 2, 0, 1
			case "delta_pair", "delta_pair_in_three":
				P(0, k).SigKind, P(nv-1, k).SigKind = "plusD", "minusD"
			}
			add(c)
		}
	}
	seq := 0
	// objects straddling a fork activation: slot on one side, the other epoch-bearing field on the other
	// side (attestations sign with the TARGET epoch, aggregate-and-proofs with the SLOT's epoch), both
	// directions, every fork the mock activates after genesis: signed under the fork version of the
	// epoch the spec names (must publish) and under the fork version of the other side (must fail)
	for _, name := range e.names {
		g := e.gens[name]
		if !(g.IsAtt || strings.Contains(name, "aggregate_and_proof")) {
			continue
		}
		seq++
		for _, b := range []uint64{2048, 50688} {
			for _, dir := range [][2]uint64{{b - 1, b}, {b, b - 1}} { // (slot epoch, other epoch)
				signEpoch, wrongEpoch := dir[1], dir[0] // attestation: target epoch signs
				if !g.IsAtt {
					signEpoch, wrongEpoch = dir[0], dir[1] // aggregate-and-proof: the slot's epoch signs
				}
				_ = signEpoch
				wv, err := dutygen.VersionAt(e.ctx, e.bmock, eth2p0.Epoch(wrongEpoch))
				if err != nil {
					e.t.Fatal(err)
				}
				for _, fv := range []string{"", hex.EncodeToString(wv[:])} {
					ps := validParts(0, subset(r, 4, 3+r.Intn(2)))
					for i := range ps {
						ps[i].ForkVersion = fv
					}
					c := CaseSpec{Kind: "fork-straddle", Type: name, T: 3, N: 4, Epoch: dir[0], Straddle: true, OtherEpoch: dir[1], Seq: seq, Vals: []ValSpec{{V: 0, Parts: ps}}}
					if fv != "" {
						c.Corrupt = []string{"fork_version_of_the_other_side"}
					}
					add(c)
				}
			}
		}
	}
	// epochs 0 and 1 and the edges of every fork of the mock's schedule: signed under the fork version
	// the spec prescribes for the object's own epoch (must publish) and under other fork versions of the
	// schedule, the genesis version first (must fail); one long-lived aggregator per type
	for ti, name := range e.names {
		seq++
		for ei, ep := range []uint64{0, 1, 2047, 2048, 50687, 50688} {
			own := e.versions[0] // builder registrations sign with the genesis fork version
			if e.gens[name].Duty != core.DutyBuilderRegistration {
				v, err := dutygen.VersionAt(e.ctx, e.bmock, eth2p0.Epoch(ep))
				if err != nil {
					e.t.Fatal(err)
				}
				own = v
			}
			var others []string
			for _, v := range e.versions {
				if v != own {
					others = append(others, hex.EncodeToString(v[:]))
				}
			}
			pick := []string{"", others[0], others[1+(ti+ei)%(len(others)-1)]}
			if total > 3000 {
				pick = append([]string{""}, others...)
			}
			for _, fv := range pick {
				ps := validParts(0, subset(r, 4, 3+r.Intn(2)))
				for i := range ps {
					ps[i].ForkVersion = fv
				}
				c := CaseSpec{Kind: "epoch-edge", Type: name, T: 3, N: 4, Epoch: ep, EpochZero: ep == 0, Seq: seq, Vals: []ValSpec{{V: 0, Parts: ps}}}
				if fv != "" {
					c.Corrupt = []string{"other_fork_version"}
				}
				add(c)
			}
		}
	}
	// long-lived aggregator + verifier over a sequence of calls of one duty type at epochs in
	// different forks of the beacon mock (Electra at 2048, Fulu at 50688), both orders: objects signed
	// for their own epoch's domain (must publish) and with the other fork's domain (must fail)
	for _, name := range e.names {
		for _, pair := range [][2]uint64{{100, 3000}, {3000, 100}, {3000, 60000}, {60000, 3000}} {
			if total < 3000 && pair[0]+pair[1] > 60000 && r.Intn(4) != 0 {
				continue
			}
			seq++
			n, th := 4, 3
			call := func(ep, forkEp uint64, what string) {
				ps := validParts(0, subset(r, n, th+r.Intn(n-th+1)))
				for i := range ps {
					ps[i].ForkEpoch = forkEp
				}
				c := CaseSpec{Kind: "sequence", Type: name, T: th, N: n, Epoch: ep, Seq: seq, Vals: []ValSpec{{V: 0, Parts: ps}}}
				if forkEp != 0 {
					c.Corrupt = []string{what}
				}
				add(c)
			}
			call(pair[0], 0, "")
			call(pair[1], pair[0], "other_fork_domain_of_previous_call")
			call(pair[1], 0, "")
			call(pair[0], pair[1], "other_fork_domain_of_previous_call")
			call(pair[0], 0, "")
		}
	}
	// random: multi-validator, several corruptions, subscriber behaviours
	for len(out) < total {
		name := e.names[r.Intn(len(e.names))]
		g := e.gens[name]
		n, th := nt()
		nv := 1 + r.Intn(3)
		c := CaseSpec{Kind: "random", Type: name, T: th, N: n}
		vperm := r.Perm(maxVals)
		for i := 0; i < nv; i++ {
			v := vperm[i]
			ps := validParts(v, subset(r, n, th+r.Intn(n-th+1)))
			if r.Intn(3) == 0 { // corrupt this validator
				for k := 0; k < 1+r.Intn(2); k++ {
					cn := corruptions[r.Intn(len(corruptions))]
					if q, ok := corrupt(r, cn, ps, v, n, th, g.IsAtt); ok && len(q) > 0 {
						ps = q
						c.Corrupt = append(c.Corrupt, cn)
					}
				}
			}
			c.Vals = append(c.Vals, ValSpec{V: v, Parts: ps})
		}
		sort.Slice(c.Vals, func(i, j int) bool { return c.Vals[i].V < c.Vals[j].V })
		switch r.Intn(6) {
		case 0:
			c.Subs = []bool{false, true}
		case 1:
			c.Subs = []bool{true, false, true}
		case 2:
			c.Subs = []bool{true, true}
			c.Mutate = true
		case 3:
			c.Subs = []bool{}
			c.Subs = append(c.Subs, true)
		}
		if len(c.Corrupt) == 0 && c.Mutate {
			c.Kind = "random-mutating-subscriber"
		}
		add(c)
	}

	return out
}

func TestGen(t *testing.T) {
	e := newEnv(t)
	var replay struct {
		CaseSpec
		SeqSpecs []CaseSpec `json:"seq_specs"` // the whole sequence up to and including the failing call
		// the calls that preceded the case in the run that found it are re-run first (same seed and
		// size): package-level state of core/sigagg, if any, is then the same
		HistSeed int64 `json:"hist_seed"`
		HistN    int   `json:"hist_n"`
	}
	if ok, err := hx.ReadReplay(&replay); ok {
		if err != nil {
			t.Fatal(err)
		}
		specs := replay.SeqSpecs
		if len(specs) == 0 {
			specs = []CaseSpec{replay.CaseSpec}
		}
		var cs []Case
		if replay.HistN > 0 {
			e.r = rand.New(rand.NewSource(replay.HistSeed)) //nolint:gosec
			for _, s := range e.genCases(replay.HistN) {
				if s.ID >= specs[0].ID {
					break
				}
				cs = append(cs, e.run(s)) // judged as well: state that leaks between calls may surface one call earlier or later
			}
		}
		for _, s := range specs {
			cs = append(cs, e.run(s))
		}
		if err := hx.WriteJSON("sigagg_cases.json", cs); err != nil {
			t.Fatal(err)
		}

		return
	}
	specs := e.genCases(hx.IntEnv("VERIF_N", 600))
	cases := make([]Case, 0, len(specs))
	for _, s := range specs {
		cases = append(cases, e.run(s))
	}
	if err := hx.WriteJSON("sigagg_cases.json", cases); err != nil {
		t.Fatal(err)
	}
}
