// Package dutygen builds, for every signed duty-data type and fork version the repo's test
// utilities can generate, an unsigned object together with the inputs of its signing root
// (domain name, epoch, object root) computed HERE from the raw eth2 structures -- independently of
// core/eth2signeddata.go -- so that the harnesses of C09 and C10 judge signatures against the
// consensus-spec signing root and not against the code under test.
package dutygen

import (
	"context"
	"encoding/binary"
	"errors"
	"testing"

	eth2api "github.com/attestantio/go-eth2-client/api"
	eth2v1 "github.com/attestantio/go-eth2-client/api/v1"
	eth2spec "github.com/attestantio/go-eth2-client/spec"
	"github.com/attestantio/go-eth2-client/spec/altair"
	"github.com/attestantio/go-eth2-client/spec/electra"
	eth2p0 "github.com/attestantio/go-eth2-client/spec/phase0"

	"github.com/obolnetwork/charon/app/eth2wrap"
	"github.com/obolnetwork/charon/core"
	"github.com/obolnetwork/charon/eth2util"
	"github.com/obolnetwork/charon/eth2util/signing"
	"github.com/obolnetwork/charon/testutil"
)

// Gen describes one (type, fork) combination.
type Gen struct {
	Name  string        // e.g. "attestation/deneb"
	Duty  core.DutyType // duty type the signed object belongs to
	IsAtt bool          // core.VersionedAttestation (sigagg payload choice looks at ValidatorIndex)
	// New returns a fresh random raw eth2 object (pointer) whose slot/epoch fields are set from slot.
	New func(t *testing.T, slot uint64, spe uint64) any
	// Wrap returns the core.SignedData the production constructors build from the raw object.
	Wrap func(raw any) (core.SignedData, error)
	// Parts returns the signing-root inputs read from the raw object.
	Parts func(raw any, spe uint64) (signing.DomainName, eth2p0.Epoch, eth2p0.Root, error)
	// SetSig writes the signature field of the raw object.
	SetSig func(raw any, sig eth2p0.BLSSignature)
	// Unwrap returns the raw eth2 object inside a core.SignedData of this family (nil if it is another type).
	Unwrap func(sd core.SignedData) any
	// VIdx returns a pointer to the validator index field the validator API resolves the validator by (nil: none).
	VIdx func(raw any) *eth2p0.ValidatorIndex
}

func u64root(v uint64) eth2p0.Root {
	var r eth2p0.Root
	binary.LittleEndian.PutUint64(r[:8], v)

	return r
}

var attVersions = []eth2spec.DataVersion{
	eth2spec.DataVersionPhase0, eth2spec.DataVersionAltair, eth2spec.DataVersionBellatrix, eth2spec.DataVersionCapella,
	eth2spec.DataVersionDeneb, eth2spec.DataVersionElectra, eth2spec.DataVersionFulu,
}

func p0att(a *eth2spec.VersionedAttestation) **eth2p0.Attestation {
	switch a.Version {
	case eth2spec.DataVersionPhase0:
		return &a.Phase0
	case eth2spec.DataVersionAltair:
		return &a.Altair
	case eth2spec.DataVersionBellatrix:
		return &a.Bellatrix
	case eth2spec.DataVersionCapella:
		return &a.Capella
	case eth2spec.DataVersionDeneb:
		return &a.Deneb
	}

	return nil
}

func elatt(a *eth2spec.VersionedAttestation) **electra.Attestation {
	switch a.Version {
	case eth2spec.DataVersionElectra:
		return &a.Electra
	case eth2spec.DataVersionFulu:
		return &a.Fulu
	}

	return nil
}

func attData(a *eth2spec.VersionedAttestation) *eth2p0.AttestationData {
	if p := p0att(a); p != nil {
		return (*p).Data
	}

	return (*elatt(a)).Data
}

func attGen(v eth2spec.DataVersion) Gen {
	return Gen{
		Name: "attestation/" + v.String(), Duty: core.DutyAttester, IsAtt: true,
		New: func(_ *testing.T, slot, spe uint64) any {
			a := &eth2spec.VersionedAttestation{Version: v}
			if p := p0att(a); p != nil {
				*p = testutil.RandomPhase0Attestation()
				(*p).Signature = eth2p0.BLSSignature{}
			} else {
				p := elatt(a)
				*p = testutil.RandomElectraAttestation()
				(*p).Signature = eth2p0.BLSSignature{}
			}
			d := attData(a)
			d.Slot = eth2p0.Slot(slot)
			d.Target.Epoch = eth2p0.Epoch(slot / spe)
			d.Source.Epoch = 0
			if d.Target.Epoch > 0 {
				d.Source.Epoch = d.Target.Epoch - 1
			}

			return a
		},
		Wrap: func(raw any) (core.SignedData, error) {
			cp := *raw.(*eth2spec.VersionedAttestation)
			return core.NewVersionedAttestation(&cp)
		},
		Parts: func(raw any, _ uint64) (signing.DomainName, eth2p0.Epoch, eth2p0.Root, error) {
			d := attData(raw.(*eth2spec.VersionedAttestation))
			r, err := d.HashTreeRoot()

			return signing.DomainBeaconAttester, d.Target.Epoch, r, err
		},
		SetSig: func(raw any, sig eth2p0.BLSSignature) {
			a := raw.(*eth2spec.VersionedAttestation)
			if p := p0att(a); p != nil {
				(*p).Signature = sig
			} else {
				(*elatt(a)).Signature = sig
			}
		},
		Unwrap: func(sd core.SignedData) any {
			if x, ok := sd.(core.VersionedAttestation); ok {
				return &x.VersionedAttestation
			}
			return nil
		},
	}
}

// ---- aggregate and proof

func p0agg(a *eth2spec.VersionedSignedAggregateAndProof) **eth2p0.SignedAggregateAndProof {
	switch a.Version {
	case eth2spec.DataVersionPhase0:
		return &a.Phase0
	case eth2spec.DataVersionAltair:
		return &a.Altair
	case eth2spec.DataVersionBellatrix:
		return &a.Bellatrix
	case eth2spec.DataVersionCapella:
		return &a.Capella
	case eth2spec.DataVersionDeneb:
		return &a.Deneb
	}

	return nil
}

func elagg(a *eth2spec.VersionedSignedAggregateAndProof) **electra.SignedAggregateAndProof {
	switch a.Version {
	case eth2spec.DataVersionElectra:
		return &a.Electra
	case eth2spec.DataVersionFulu:
		return &a.Fulu
	}

	return nil
}

func aggGen(v eth2spec.DataVersion) Gen {
	return Gen{
		Name: "aggregate_and_proof/" + v.String(), Duty: core.DutyAggregator,
		New: func(_ *testing.T, slot, _ uint64) any {
			a := &eth2spec.VersionedSignedAggregateAndProof{Version: v}
			if p := p0agg(a); p != nil {
				*p = testutil.RandomSignedAggregateAndProof()
				(*p).Signature = eth2p0.BLSSignature{}
				(*p).Message.Aggregate.Data.Slot = eth2p0.Slot(slot)
			} else {
				p := elagg(a)
				*p = &electra.SignedAggregateAndProof{
					Message: &electra.AggregateAndProof{
						AggregatorIndex: testutil.RandomVIdx(),
						Aggregate:       testutil.RandomElectraAttestation(),
						SelectionProof:  testutil.RandomEth2Signature(),
					},
				}
				(*p).Message.Aggregate.Data.Slot = eth2p0.Slot(slot)
			}

			return a
		},
		Wrap: func(raw any) (core.SignedData, error) {
			cp := *raw.(*eth2spec.VersionedSignedAggregateAndProof)
			return core.NewVersionedSignedAggregateAndProof(&cp), nil
		},
		Parts: func(raw any, spe uint64) (signing.DomainName, eth2p0.Epoch, eth2p0.Root, error) {
			a := raw.(*eth2spec.VersionedSignedAggregateAndProof)
			if p := p0agg(a); p != nil {
				r, err := (*p).Message.HashTreeRoot()
				return signing.DomainAggregateAndProof, eth2p0.Epoch(uint64((*p).Message.Aggregate.Data.Slot) / spe), r, err
			}
			p := elagg(a)
			r, err := (*p).Message.HashTreeRoot()

			return signing.DomainAggregateAndProof, eth2p0.Epoch(uint64((*p).Message.Aggregate.Data.Slot) / spe), r, err
		},
		SetSig: func(raw any, sig eth2p0.BLSSignature) {
			a := raw.(*eth2spec.VersionedSignedAggregateAndProof)
			if p := p0agg(a); p != nil {
				(*p).Signature = sig
			} else {
				(*elagg(a)).Signature = sig
			}
		},
		Unwrap: func(sd core.SignedData) any {
			if x, ok := sd.(core.VersionedSignedAggregateAndProof); ok {
				return &x.VersionedSignedAggregateAndProof
			}
			return nil
		},
		VIdx: func(raw any) *eth2p0.ValidatorIndex {
			a := raw.(*eth2spec.VersionedSignedAggregateAndProof)
			if p := p0agg(a); p != nil {
				return &(*p).Message.AggregatorIndex
			}
			return &(*elagg(a)).Message.AggregatorIndex
		},
	}
}

// ---- proposals

type propAccess struct {
	slot    *eth2p0.Slot
	propIdx *eth2p0.ValidatorIndex
	sig     *eth2p0.BLSSignature
	root    func() ([32]byte, error)
}

// propFields gives access to the slot, proposer index, signature and message root of any version.
func propFields(p *eth2api.VersionedSignedProposal) propAccess {
	switch p.Version {
	case eth2spec.DataVersionPhase0:
		return propAccess{&p.Phase0.Message.Slot, &p.Phase0.Message.ProposerIndex, &p.Phase0.Signature, p.Phase0.Message.HashTreeRoot}
	case eth2spec.DataVersionAltair:
		return propAccess{&p.Altair.Message.Slot, &p.Altair.Message.ProposerIndex, &p.Altair.Signature, p.Altair.Message.HashTreeRoot}
	case eth2spec.DataVersionBellatrix:
		if p.Blinded {
			return propAccess{&p.BellatrixBlinded.Message.Slot, &p.BellatrixBlinded.Message.ProposerIndex, &p.BellatrixBlinded.Signature, p.BellatrixBlinded.Message.HashTreeRoot}
		}

		return propAccess{&p.Bellatrix.Message.Slot, &p.Bellatrix.Message.ProposerIndex, &p.Bellatrix.Signature, p.Bellatrix.Message.HashTreeRoot}
	case eth2spec.DataVersionCapella:
		if p.Blinded {
			return propAccess{&p.CapellaBlinded.Message.Slot, &p.CapellaBlinded.Message.ProposerIndex, &p.CapellaBlinded.Signature, p.CapellaBlinded.Message.HashTreeRoot}
		}

		return propAccess{&p.Capella.Message.Slot, &p.Capella.Message.ProposerIndex, &p.Capella.Signature, p.Capella.Message.HashTreeRoot}
	case eth2spec.DataVersionDeneb:
		if p.Blinded {
			return propAccess{&p.DenebBlinded.Message.Slot, &p.DenebBlinded.Message.ProposerIndex, &p.DenebBlinded.Signature, p.DenebBlinded.Message.HashTreeRoot}
		}

		return propAccess{&p.Deneb.SignedBlock.Message.Slot, &p.Deneb.SignedBlock.Message.ProposerIndex, &p.Deneb.SignedBlock.Signature, p.Deneb.SignedBlock.Message.HashTreeRoot}
	case eth2spec.DataVersionElectra:
		if p.Blinded {
			return propAccess{&p.ElectraBlinded.Message.Slot, &p.ElectraBlinded.Message.ProposerIndex, &p.ElectraBlinded.Signature, p.ElectraBlinded.Message.HashTreeRoot}
		}

		return propAccess{&p.Electra.SignedBlock.Message.Slot, &p.Electra.SignedBlock.Message.ProposerIndex, &p.Electra.SignedBlock.Signature, p.Electra.SignedBlock.Message.HashTreeRoot}
	case eth2spec.DataVersionFulu:
		if p.Blinded {
			return propAccess{&p.FuluBlinded.Message.Slot, &p.FuluBlinded.Message.ProposerIndex, &p.FuluBlinded.Signature, p.FuluBlinded.Message.HashTreeRoot}
		}

		return propAccess{&p.Fulu.SignedBlock.Message.Slot, &p.Fulu.SignedBlock.Message.ProposerIndex, &p.Fulu.SignedBlock.Signature, p.Fulu.SignedBlock.Message.HashTreeRoot}
	}
	panic("unknown proposal version")
}

// PropRoot returns the hash tree root of the block message of a raw proposal.
func PropRoot(p *eth2api.VersionedSignedProposal) ([32]byte, error) {
	return propFields(p).root()
}

// PropProposerIndex returns a pointer to the proposer index of a raw proposal.
func PropProposerIndex(p *eth2api.VersionedSignedProposal) *eth2p0.ValidatorIndex {
	return propFields(p).propIdx
}

func propGen(name string, blinded bool, mk func() core.VersionedSignedProposal) Gen {
	duty := core.DutyProposer
	n := "proposal/" + name
	if blinded {
		n = "blinded_proposal/" + name
	}

	return Gen{
		Name: n, Duty: duty,
		New: func(_ *testing.T, slot, _ uint64) any {
			p := mk().VersionedSignedProposal
			f := propFields(&p)
			*f.slot = eth2p0.Slot(slot)
			*f.sig = eth2p0.BLSSignature{}

			return &p
		},
		Wrap: func(raw any) (core.SignedData, error) {
			cp := *raw.(*eth2api.VersionedSignedProposal)
			return core.NewVersionedSignedProposal(&cp)
		},
		Parts: func(raw any, spe uint64) (signing.DomainName, eth2p0.Epoch, eth2p0.Root, error) {
			f := propFields(raw.(*eth2api.VersionedSignedProposal))
			r, err := f.root()

			return signing.DomainBeaconProposer, eth2p0.Epoch(uint64(*f.slot) / spe), r, err
		},
		SetSig: func(raw any, sig eth2p0.BLSSignature) {
			*propFields(raw.(*eth2api.VersionedSignedProposal)).sig = sig
		},
		Unwrap: func(sd core.SignedData) any {
			if x, ok := sd.(core.VersionedSignedProposal); ok {
				return &x.VersionedSignedProposal
			}
			return nil
		},
	}
}

// ---- the rest

// Randao is the raw form of a randao reveal.
type Randao = eth2util.SignedEpoch

// Gens returns all generators. legacy=true adds the types that only the aggregator can meet
// (non-versioned aggregate-and-proof).
func Gens(legacy bool) []Gen {
	var gs []Gen
	for _, v := range attVersions {
		gs = append(gs, attGen(v))
	}
	gs = append(gs,
		// phase0/altair proposals: core.VersionedSignedProposal.Slot() answers "unsupported version", so the
		// verifier refuses them (fail-closed); they are not generated.
		propGen("bellatrix", false, testutil.RandomBellatrixCoreVersionedSignedProposal),
		propGen("capella", false, testutil.RandomCapellaCoreVersionedSignedProposal),
		propGen("deneb", false, testutil.RandomDenebCoreVersionedSignedProposal),
		propGen("electra", false, testutil.RandomElectraCoreVersionedSignedProposal),
		propGen("fulu", false, testutil.RandomFuluCoreVersionedSignedProposal),
		propGen("bellatrix", true, testutil.RandomBellatrixVersionedSignedBlindedProposal),
		propGen("capella", true, testutil.RandomCapellaVersionedSignedBlindedProposal),
		propGen("deneb", true, testutil.RandomDenebVersionedSignedBlindedProposal),
		propGen("electra", true, testutil.RandomElectraVersionedSignedBlindedProposal),
		propGen("fulu", true, testutil.RandomFuluVersionedSignedBlindedProposal),
	)
	gs = append(gs, Gen{
		Name: "voluntary_exit", Duty: core.DutyExit,
		New: func(_ *testing.T, slot, spe uint64) any {
			e := testutil.RandomExit()
			e.Signature = eth2p0.BLSSignature{}
			e.Message.Epoch = eth2p0.Epoch(slot / spe)

			return e
		},
		Wrap: func(raw any) (core.SignedData, error) {
			cp := *raw.(*eth2p0.SignedVoluntaryExit)
			return core.NewSignedVoluntaryExit(&cp), nil
		},
		Parts: func(raw any, _ uint64) (signing.DomainName, eth2p0.Epoch, eth2p0.Root, error) {
			e := raw.(*eth2p0.SignedVoluntaryExit)
			r, err := e.Message.HashTreeRoot()

			return signing.DomainExit, e.Message.Epoch, r, err
		},
		SetSig: func(raw any, sig eth2p0.BLSSignature) { raw.(*eth2p0.SignedVoluntaryExit).Signature = sig },
		Unwrap: func(sd core.SignedData) any {
			if x, ok := sd.(core.SignedVoluntaryExit); ok {
				return &x.SignedVoluntaryExit
			}
			return nil
		},
		VIdx: func(raw any) *eth2p0.ValidatorIndex { return &raw.(*eth2p0.SignedVoluntaryExit).Message.ValidatorIndex },
	})
	gs = append(gs, Gen{
		Name: "builder_registration/v1", Duty: core.DutyBuilderRegistration,
		New: func(t *testing.T, _, _ uint64) any {
			return &eth2api.VersionedSignedValidatorRegistration{
				Version: eth2spec.BuilderVersionV1,
				V1:      &eth2v1.SignedValidatorRegistration{Message: testutil.RandomValidatorRegistration(t)},
			}
		},
		Wrap: func(raw any) (core.SignedData, error) {
			cp := *raw.(*eth2api.VersionedSignedValidatorRegistration)
			return core.NewVersionedSignedValidatorRegistration(&cp)
		},
		Parts: func(raw any, _ uint64) (signing.DomainName, eth2p0.Epoch, eth2p0.Root, error) {
			r, err := raw.(*eth2api.VersionedSignedValidatorRegistration).V1.Message.HashTreeRoot()
			return signing.DomainApplicationBuilder, 0, r, err
		},
		SetSig: func(raw any, sig eth2p0.BLSSignature) {
			raw.(*eth2api.VersionedSignedValidatorRegistration).V1.Signature = sig
		},
		Unwrap: func(sd core.SignedData) any {
			if x, ok := sd.(core.VersionedSignedValidatorRegistration); ok {
				return &x.VersionedSignedValidatorRegistration
			}
			return nil
		},
	})
	gs = append(gs, Gen{
		Name: "randao", Duty: core.DutyRandao,
		New: func(_ *testing.T, slot, spe uint64) any { return &Randao{Epoch: eth2p0.Epoch(slot / spe)} },
		Wrap: func(raw any) (core.SignedData, error) {
			r := raw.(*Randao)
			return core.NewSignedRandao(r.Epoch, r.Signature), nil
		},
		Parts: func(raw any, _ uint64) (signing.DomainName, eth2p0.Epoch, eth2p0.Root, error) {
			r := raw.(*Randao)
			return signing.DomainRandao, r.Epoch, u64root(uint64(r.Epoch)), nil
		},
		SetSig: func(raw any, sig eth2p0.BLSSignature) { raw.(*Randao).Signature = sig },
		Unwrap: func(sd core.SignedData) any {
			if x, ok := sd.(core.SignedRandao); ok {
				return &x.SignedEpoch
			}
			return nil
		},
	})
	gs = append(gs, Gen{
		Name: "beacon_committee_selection", Duty: core.DutyPrepareAggregator,
		New: func(_ *testing.T, slot, _ uint64) any {
			s := testutil.RandomBeaconCommitteeSelection()
			s.Slot = eth2p0.Slot(slot)
			s.SelectionProof = eth2p0.BLSSignature{}

			return s
		},
		Wrap: func(raw any) (core.SignedData, error) {
			cp := *raw.(*eth2v1.BeaconCommitteeSelection)
			return core.NewBeaconCommitteeSelection(&cp), nil
		},
		Parts: func(raw any, spe uint64) (signing.DomainName, eth2p0.Epoch, eth2p0.Root, error) {
			s := raw.(*eth2v1.BeaconCommitteeSelection)
			return signing.DomainSelectionProof, eth2p0.Epoch(uint64(s.Slot) / spe), u64root(uint64(s.Slot)), nil
		},
		SetSig: func(raw any, sig eth2p0.BLSSignature) { raw.(*eth2v1.BeaconCommitteeSelection).SelectionProof = sig },
		Unwrap: func(sd core.SignedData) any {
			if x, ok := sd.(core.BeaconCommitteeSelection); ok {
				return &x.BeaconCommitteeSelection
			}
			return nil
		},
		VIdx: func(raw any) *eth2p0.ValidatorIndex { return &raw.(*eth2v1.BeaconCommitteeSelection).ValidatorIndex },
	})
	gs = append(gs, Gen{
		Name: "sync_committee_selection", Duty: core.DutyPrepareSyncContribution,
		New: func(_ *testing.T, slot, _ uint64) any {
			s := testutil.RandomSyncCommitteeSelection()
			s.Slot = eth2p0.Slot(slot)
			s.SelectionProof = eth2p0.BLSSignature{}

			return s
		},
		Wrap: func(raw any) (core.SignedData, error) {
			cp := *raw.(*eth2v1.SyncCommitteeSelection)
			return core.NewSyncCommitteeSelection(&cp), nil
		},
		Parts: func(raw any, spe uint64) (signing.DomainName, eth2p0.Epoch, eth2p0.Root, error) {
			s := raw.(*eth2v1.SyncCommitteeSelection)
			r, err := (&altair.SyncAggregatorSelectionData{Slot: s.Slot, SubcommitteeIndex: uint64(s.SubcommitteeIndex)}).HashTreeRoot()

			return signing.DomainSyncCommitteeSelectionProof, eth2p0.Epoch(uint64(s.Slot) / spe), r, err
		},
		SetSig: func(raw any, sig eth2p0.BLSSignature) { raw.(*eth2v1.SyncCommitteeSelection).SelectionProof = sig },
		Unwrap: func(sd core.SignedData) any {
			if x, ok := sd.(core.SyncCommitteeSelection); ok {
				return &x.SyncCommitteeSelection
			}
			return nil
		},
		VIdx: func(raw any) *eth2p0.ValidatorIndex { return &raw.(*eth2v1.SyncCommitteeSelection).ValidatorIndex },
	})
	for _, v := range attVersions {
		gs = append(gs, aggGen(v))
	}
	gs = append(gs, Gen{
		Name: "sync_message", Duty: core.DutySyncMessage,
		New: func(_ *testing.T, slot, _ uint64) any {
			m := testutil.RandomSyncCommitteeMessage()
			m.Slot = eth2p0.Slot(slot)
			m.Signature = eth2p0.BLSSignature{}

			return m
		},
		Wrap: func(raw any) (core.SignedData, error) {
			cp := *raw.(*altair.SyncCommitteeMessage)
			return core.NewSignedSyncMessage(&cp), nil
		},
		Parts: func(raw any, spe uint64) (signing.DomainName, eth2p0.Epoch, eth2p0.Root, error) {
			m := raw.(*altair.SyncCommitteeMessage)
			return signing.DomainSyncCommittee, eth2p0.Epoch(uint64(m.Slot) / spe), m.BeaconBlockRoot, nil
		},
		SetSig: func(raw any, sig eth2p0.BLSSignature) { raw.(*altair.SyncCommitteeMessage).Signature = sig },
		Unwrap: func(sd core.SignedData) any {
			if x, ok := sd.(core.SignedSyncMessage); ok {
				return &x.SyncCommitteeMessage
			}
			return nil
		},
		VIdx: func(raw any) *eth2p0.ValidatorIndex { return &raw.(*altair.SyncCommitteeMessage).ValidatorIndex },
	})
	gs = append(gs, Gen{
		Name: "sync_contribution", Duty: core.DutySyncContribution,
		New: func(_ *testing.T, slot, _ uint64) any {
			c := testutil.RandomSignedSyncContributionAndProof()
			c.Message.Contribution.Slot = eth2p0.Slot(slot)
			c.Signature = eth2p0.BLSSignature{}

			return c
		},
		Wrap: func(raw any) (core.SignedData, error) {
			cp := *raw.(*altair.SignedContributionAndProof)
			return core.NewSignedSyncContributionAndProof(&cp), nil
		},
		Parts: func(raw any, spe uint64) (signing.DomainName, eth2p0.Epoch, eth2p0.Root, error) {
			c := raw.(*altair.SignedContributionAndProof)
			r, err := c.Message.HashTreeRoot()

			return signing.DomainContributionAndProof, eth2p0.Epoch(uint64(c.Message.Contribution.Slot) / spe), r, err
		},
		SetSig: func(raw any, sig eth2p0.BLSSignature) { raw.(*altair.SignedContributionAndProof).Signature = sig },
		Unwrap: func(sd core.SignedData) any {
			if x, ok := sd.(core.SignedSyncContributionAndProof); ok {
				return &x.SignedContributionAndProof
			}
			return nil
		},
		VIdx: func(raw any) *eth2p0.ValidatorIndex {
			return &raw.(*altair.SignedContributionAndProof).Message.AggregatorIndex
		},
	})
	if legacy {
		gs = append(gs, Gen{
			Name: "legacy_aggregate_and_proof", Duty: core.DutyAggregator,
			New: func(_ *testing.T, slot, _ uint64) any {
				a := testutil.RandomSignedAggregateAndProof()
				a.Message.Aggregate.Data.Slot = eth2p0.Slot(slot)
				a.Signature = eth2p0.BLSSignature{}

				return a
			},
			Wrap: func(raw any) (core.SignedData, error) {
				cp := *raw.(*eth2p0.SignedAggregateAndProof)
				return core.NewSignedAggregateAndProof(&cp), nil
			},
			Parts: func(raw any, spe uint64) (signing.DomainName, eth2p0.Epoch, eth2p0.Root, error) {
				a := raw.(*eth2p0.SignedAggregateAndProof)
				r, err := a.Message.HashTreeRoot()

				return signing.DomainAggregateAndProof, eth2p0.Epoch(uint64(a.Message.Aggregate.Data.Slot) / spe), r, err
			},
			SetSig: func(raw any, sig eth2p0.BLSSignature) { raw.(*eth2p0.SignedAggregateAndProof).Signature = sig },
			Unwrap: func(sd core.SignedData) any {
				if x, ok := sd.(core.SignedAggregateAndProof); ok {
					return &x.SignedAggregateAndProof
				}
				return nil
			},
		})
	}

	return gs
}

// Variant names a signing root: the object's own, or one made with another domain type, or one
// made with the right domain type under another fork version.
type Variant int

const (
	Own Variant = iota
	OtherDomain
	OtherFork
)

// domainFor resolves the domain for a name and epoch from the beacon API (spec constants, fork
// schedule, genesis) without going through eth2util/signing.
func domainFor(ctx context.Context, cl eth2wrap.Client, name signing.DomainName, epoch eth2p0.Epoch) (eth2p0.Domain, error) {
	resp, err := cl.Spec(ctx, &eth2api.SpecOpts{})
	if err != nil {
		return eth2p0.Domain{}, err
	}
	dt, ok := resp.Data[string(name)].(eth2p0.DomainType)
	if !ok {
		return eth2p0.Domain{}, errors.New("domain type not in spec: " + string(name))
	}
	if name == signing.DomainApplicationBuilder {
		return cl.GenesisDomain(ctx, dt)
	}

	return cl.Domain(ctx, dt, epoch)
}

// SigningRootForkAt wraps the object root with the domain of the given name computed for the fork
// that is active at forkEpoch -- whatever epoch the object itself names, and without the
// genesis-domain rule of the builder domain.  Used to make signatures "for the neighbouring fork".
func SigningRootForkAt(ctx context.Context, cl eth2wrap.Client, name signing.DomainName, root eth2p0.Root, forkEpoch eth2p0.Epoch) ([32]byte, error) {
	resp, err := cl.Spec(ctx, &eth2api.SpecOpts{})
	if err != nil {
		return [32]byte{}, err
	}
	dt, ok := resp.Data[string(name)].(eth2p0.DomainType)
	if !ok {
		return [32]byte{}, errors.New("domain type not in spec: " + string(name))
	}
	d, err := cl.Domain(ctx, dt, forkEpoch)
	if err != nil {
		return [32]byte{}, err
	}

	return (&eth2p0.SigningData{ObjectRoot: root, Domain: d}).HashTreeRoot()
}

// Straddle rewrites an object that carries BOTH a slot and a separate epoch-bearing field so that
// the two lie in different epochs: attestations (data.slot vs data.target.epoch -- the spec signs with
// the TARGET epoch) and aggregate-and-proofs (aggregate.data.slot -- the spec signs with the SLOT's
// epoch -- vs the inner aggregate.data.target.epoch). It reports whether the type has such a pair.
func Straddle(raw any, slot uint64, otherEpoch uint64) bool {
	var d *eth2p0.AttestationData
	switch x := raw.(type) {
	case *eth2spec.VersionedAttestation:
		d = attData(x)
	case *eth2spec.VersionedSignedAggregateAndProof:
		if p := p0agg(x); p != nil {
			d = (*p).Message.Aggregate.Data
		} else if p := elagg(x); p != nil {
			d = (*p).Message.Aggregate.Data
		}
	case *eth2p0.SignedAggregateAndProof:
		d = x.Message.Aggregate.Data
	}
	if d == nil {
		return false
	}
	d.Slot = eth2p0.Slot(slot)
	d.Target.Epoch = eth2p0.Epoch(otherEpoch)
	d.Source.Epoch = 0
	if otherEpoch > 0 {
		d.Source.Epoch = eth2p0.Epoch(otherEpoch - 1)
	}

	return true
}

// ForkVersions returns every fork version of the beacon node's fork schedule, in schedule order.
func ForkVersions(ctx context.Context, cl eth2wrap.Client) ([]eth2p0.Version, error) {
	resp, err := cl.ForkSchedule(ctx, &eth2api.ForkScheduleOpts{})
	if err != nil {
		return nil, err
	}
	var out []eth2p0.Version
	seen := map[eth2p0.Version]bool{}
	for _, f := range resp.Data {
		for _, v := range []eth2p0.Version{f.PreviousVersion, f.CurrentVersion} {
			if !seen[v] {
				seen[v] = true
				out = append(out, v)
			}
		}
	}

	return out, nil
}

// VersionAt is the consensus-spec fork version active at an epoch: the current_version of the last
// fork of the schedule whose activation epoch is <= epoch (the genesis version if there is none).
func VersionAt(ctx context.Context, cl eth2wrap.Client, epoch eth2p0.Epoch) (eth2p0.Version, error) {
	resp, err := cl.ForkSchedule(ctx, &eth2api.ForkScheduleOpts{})
	if err != nil {
		return eth2p0.Version{}, err
	}
	var v eth2p0.Version
	for i, f := range resp.Data {
		if i == 0 {
			v = f.PreviousVersion
		}
		if f.Epoch <= epoch {
			v = f.CurrentVersion
		}
	}

	return v, nil
}

// SigningRootForkVersion wraps the object root with compute_domain(domain_type, version,
// genesis_validators_root) computed here from the spec constants -- no Domain/GenesisDomain call.
func SigningRootForkVersion(ctx context.Context, cl eth2wrap.Client, name signing.DomainName, root eth2p0.Root, version eth2p0.Version) ([32]byte, error) {
	resp, err := cl.Spec(ctx, &eth2api.SpecOpts{})
	if err != nil {
		return [32]byte{}, err
	}
	dt, ok := resp.Data[string(name)].(eth2p0.DomainType)
	if !ok {
		return [32]byte{}, errors.New("domain type not in spec: " + string(name))
	}
	gen, err := cl.Genesis(ctx, &eth2api.GenesisOpts{})
	if err != nil {
		return [32]byte{}, err
	}
	gvr := gen.Data.GenesisValidatorsRoot
	if name == signing.DomainApplicationBuilder {
		gvr = eth2p0.Root{} // builder domain: compute_domain(DOMAIN_APPLICATION_BUILDER) with a zero validators root
	}
	fdr, err := (&eth2p0.ForkData{CurrentVersion: version, GenesisValidatorsRoot: gvr}).HashTreeRoot()
	if err != nil {
		return [32]byte{}, err
	}
	var d eth2p0.Domain
	copy(d[:4], dt[:])
	copy(d[4:], fdr[:28])

	return (&eth2p0.SigningData{ObjectRoot: root, Domain: d}).HashTreeRoot()
}

// SigningRoot computes hash_tree_root(SigningData{object_root, domain}) for the variant.
func SigningRoot(ctx context.Context, cl eth2wrap.Client, name signing.DomainName, epoch eth2p0.Epoch, root eth2p0.Root, v Variant) ([32]byte, error) {
	switch v {
	case OtherDomain:
		name2 := signing.DomainRandao
		if name == signing.DomainRandao {
			name2 = signing.DomainExit
		}
		name = name2
	}
	d, err := domainFor(ctx, cl, name, epoch)
	if err != nil {
		return [32]byte{}, err
	}
	if v == OtherFork {
		d[5] ^= 0x01 // a byte of the fork-data-root part: another fork version / genesis validators root
	}

	return (&eth2p0.SigningData{ObjectRoot: root, Domain: d}).HashTreeRoot()
}
