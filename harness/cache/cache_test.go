// Correspondence harness for C20: drives the real eth2wrap.DutiesCache with a scripted beacon client
// (answers computed from a harness-owned duty assignment that changes at every "reorg", completion
// of every beacon call controlled by the script) inside a synctest bubble, and records the observed
// label sequence of every history, rendered as Coq terms of Flow/Cache.v.
package cache

import (
	"context"
	"errors"
	"fmt"
	"math/rand"
	"slices"
	"sort"
	"strings"
	"sync"
	"testing"
	"testing/synctest"

	eth2api "github.com/attestantio/go-eth2-client/api"
	eth2v1 "github.com/attestantio/go-eth2-client/api/v1"
	eth2p0 "github.com/attestantio/go-eth2-client/spec/phase0"
	"go.uber.org/zap"
	"go.uber.org/zap/zaptest/observer"

	"github.com/obolnetwork/charon/app/eth2wrap"
	"github.com/obolnetwork/charon/app/log"
	"github.com/obolnetwork/charon/core"
	"github.com/obolnetwork/charon/core/validatorapi"
	"github.com/obolnetwork/charon/tbls"
	"github.com/obolnetwork/charon/testutil/beaconmock"

	"verif/harness/hx"
)

// Op is one scripted operation.
//
//	call       start call C of kind K (0 proposer, 1 attester, 2 sync) for epoch Ep and indices Idxs.
//	           Mode "seq": the beacon call completes at once. Mode "entry": the beacon node fixes its
//	           answer when the request arrives, then the call is held until "release". Mode "release":
//	           held, the answer is fixed when released. Fail: the beacon call returns an error.
//	release    let the held beacon call of C complete
//	reorg      the chain reorganises back to epoch Ep (duties of epochs > Ep change)
//	invalidate DutiesCache.InvalidateCache(Ep)
//	trim       DutiesCache.Trim(Ep)
//	active     DutiesCache.UpdateActiveValIndices(Idxs)
//	mutate     overwrite every slice element / map entry / pointed-to struct of the answer call C received
//	probe      call (seq), mutate its answer, same call again: the second answer must equal the first
//	bufset     the owner of index buffer B rewrites it in place to Idxs (no call)
//	bufprobe   on an epoch nothing else uses: the owner of buffer B requests Idxs through it, then reuses the
//	           buffer. Mode "overwrite": rewrites it to Idxs2 (never requested), another caller requests
//	           Idxs2. Mode "append": another caller requests Idxs2[0], the owner appends Idxs2[1] in place
//	           and calls again. The beacon node must be asked for the never-requested indices and the
//	           answers must be the beacon node's.
type Op struct {
	Op   string   `json:"op"`
	C    int      `json:"c,omitempty"`
	K    int      `json:"k,omitempty"`
	Ep   uint64   `json:"ep,omitempty"`
	Idxs []uint64 `json:"idxs,omitempty"`
	Mode string   `json:"mode,omitempty"`
	Fail bool     `json:"fail,omitempty"`
	// B > 0: the caller passes ITS index buffer number B (one backing array with spare capacity kept across
	// calls); the harness writes Idxs into it in place (overwriting elements, growing within capacity,
	// re-slicing) right before the call. B == 0: a fresh slice per call.
	B     int      `json:"b,omitempty"`
	Idxs2 []uint64 `json:"idxs2,omitempty"`
	// Via "vapi": the call is made by a validator client through validatorapi.Component
	// (ProposerDuties / AttesterDuties / SyncCommitteeDuties), which consults the same duties cache.
	Via string `json:"via,omitempty"`
}

// History is a script and what was observed when it ran.
type History struct {
	ID      int      `json:"id"`
	Kind    string   `json:"kind"`
	Seed    uint64   `json:"seed"`
	NV      uint64   `json:"nv"`
	Active0 []uint64 `json:"active0"`
	Script  []Op     `json:"script"`
	Labels  []string `json:"labels"`
	// Alias: direct aliasing probes that failed ("<kind>: ...").
	Alias []string `json:"alias,omitempty"`
	// Outsider: validator NV-1 is not a validator of the cluster (the validator API knows no public share for it).
	Outsider bool `json:"outsider,omitempty"`
	// Consumer: answers of the validator API that differ from what the duties cache handed to it ("<kind>: ...").
	Consumer  []string `json:"consumer,omitempty"`
	VapiCalls int      `json:"vapi_calls"`
	// Errors: harness-level anomalies (unexpected error from a call, beacon asked for another epoch, ...).
	Errors     []string `json:"errors,omitempty"`
	Hits       int      `json:"hits"`
	Partials   int      `json:"partials"`
	Misses     int      `json:"misses"`
	Refused    int      `json:"refused"` // storeOrAmend returned false
	Overlap    bool     `json:"overlap"` // some call was held while another operation ran
	NonTrivial bool     `json:"nontrivial"`
}

var kindName = []string{"KProp", "KAtt", "KSync"}
var kindKey = []string{"proposer", "attester", "sync"}

// ---- the duty assignment: the same function as Flow/Cache.v hasg / hmeta ----

func mix(seed, k, ep, g, v uint64) uint64 {
	t := ((((seed*31+k)*37+ep)*41+g)*43 + v) & 0xffffffff
	return (t*2654435761 + 974711) & 0xffffffff
}

var cntTab = [3][8]uint64{
	{0, 1, 1, 2, 1, 0, 3, 1},
	{0, 1, 1, 1, 1, 0, 2, 1},
	{0, 1, 0, 1, 2, 0, 1, 0},
}

type duty struct{ V, P uint64 }

func hasg(seed, nv uint64, k int, ep, g uint64) []duty {
	var out []duty
	for j := uint64(0); j < 3; j++ {
		for v := uint64(0); v < nv; v++ {
			h := mix(seed, uint64(k), ep, g, v)
			if j < cntTab[k][(h>>16)&7] {
				out = append(out, duty{v, ep*32 + ((h>>8)&31+7*j)&31})
			}
		}
	}
	return out
}

func hmeta(seed uint64, k int, ep, g uint64) uint64 {
	return 1 + (mix(seed, uint64(k), ep, g, 99)>>16)&1023
}

// ---- rendering ----

func natList(l []uint64) string {
	s := make([]string, len(l))
	for i, x := range l {
		s[i] = fmt.Sprint(x)
	}
	return "[" + strings.Join(s, "; ") + "]"
}

func dutyList(l []duty) string {
	s := make([]string, len(l))
	for i, d := range l {
		s[i] = fmt.Sprintf("(%d, %d)", d.V, d.P)
	}
	return "[" + strings.Join(s, "; ") + "]"
}

func toIdx(l []uint64) []eth2p0.ValidatorIndex {
	if l == nil {
		return nil
	}
	out := make([]eth2p0.ValidatorIndex, len(l))
	for i, x := range l {
		out[i] = eth2p0.ValidatorIndex(x)
	}
	return out
}

func fromIdx(l []eth2p0.ValidatorIndex) []uint64 {
	out := make([]uint64, len(l))
	for i, x := range l {
		out[i] = uint64(x)
	}
	return out
}

func pubkey(v uint64) (pk eth2p0.BLSPubKey) {
	pk[0], pk[1], pk[47] = byte(v), byte(v>>8), 0xc2
	return pk
}

// share is the public key share the validator API substitutes for the root key of validator v.
func share(v uint64) (pk eth2p0.BLSPubKey) {
	pk = pubkey(v)
	pk[2] = 0x5a
	return pk
}

const bad = 9000000 // payload of a returned object whose fields are not those of one beacon duty

func mkAtt(d duty) *eth2v1.AttesterDuty {
	return &eth2v1.AttesterDuty{PubKey: pubkey(d.V), Slot: eth2p0.Slot(d.P), ValidatorIndex: eth2p0.ValidatorIndex(d.V),
		CommitteeIndex: eth2p0.CommitteeIndex(d.P % 7), CommitteeLength: 16 + d.P%5, CommitteesAtSlot: 4, ValidatorCommitteeIndex: d.V % 16}
}

func unAtt(x *eth2v1.AttesterDuty) duty {
	if x == nil {
		return duty{bad, bad}
	}
	d := duty{uint64(x.ValidatorIndex), uint64(x.Slot)}
	if *x != *mkAtt(d) {
		d.P = bad + d.P%1000
	}
	return d
}

func mkProp(d duty) *eth2v1.ProposerDuty {
	return &eth2v1.ProposerDuty{PubKey: pubkey(d.V), Slot: eth2p0.Slot(d.P), ValidatorIndex: eth2p0.ValidatorIndex(d.V)}
}

func unProp(x *eth2v1.ProposerDuty) duty {
	if x == nil {
		return duty{bad, bad}
	}
	d := duty{uint64(x.ValidatorIndex), uint64(x.Slot)}
	if *x != *mkProp(d) {
		d.P = bad + d.P%1000
	}
	return d
}

func mkSync(d duty) *eth2v1.SyncCommitteeDuty {
	return &eth2v1.SyncCommitteeDuty{PubKey: pubkey(d.V), ValidatorIndex: eth2p0.ValidatorIndex(d.V),
		ValidatorSyncCommitteeIndices: []eth2p0.CommitteeIndex{eth2p0.CommitteeIndex(d.P), eth2p0.CommitteeIndex(d.P + 1), eth2p0.CommitteeIndex(d.P + 2)}}
}

func unSync(x *eth2v1.SyncCommitteeDuty) duty {
	if x == nil {
		return duty{bad, bad}
	}
	if len(x.ValidatorSyncCommitteeIndices) == 0 {
		return duty{uint64(x.ValidatorIndex), bad}
	}
	d := duty{uint64(x.ValidatorIndex), uint64(x.ValidatorSyncCommitteeIndices[0])}
	w := mkSync(d)
	if x.PubKey != w.PubKey || !slices.Equal(x.ValidatorSyncCommitteeIndices, w.ValidatorSyncCommitteeIndices) {
		d.P = bad + d.P%1000
	}
	return d
}

func mkMeta(m uint64) map[string]any { return map[string]any{"m": m} }

func unMeta(m map[string]any) uint64 {
	if len(m) != 1 {
		return bad
	}
	v, ok := m["m"].(uint64)
	if !ok {
		return bad
	}
	return v
}

// ---- the scripted beacon client ----

type cidKey struct{}

type callSt struct {
	k       int
	ep      uint64
	mode    string
	fail    bool
	release chan struct{}

	entered  bool
	reqK     int
	reqEp    uint64
	req      []uint64
	answered bool
	ans      []duty
	ameta    uint64

	done   bool
	err    error
	res    []duty
	rmeta  uint64
	mutate func() // overwrites everything reachable from the answer the caller received

	via       string
	cacheHit  bool // the validator API consulted the duties cache: its answer is in cacheRes/cacheMeta/cacheErr
	cacheRes  []duty
	cacheMeta uint64
	cacheErr  error
}

type world struct {
	mu     sync.Mutex
	seed   uint64
	nv     uint64
	reorgs []uint64
	calls  map[int]*callSt
	errs   []string

	outsider bool
	consumer []string
}

func (w *world) egen(ep uint64) uint64 {
	var n uint64
	for _, r := range w.reorgs {
		if r < ep {
			n++
		}
	}
	return n
}

// answer is the beacon node: the epoch's assignment at the current epoch generation, filtered by
// membership in the requested indices.
func (w *world) answer(k int, ep uint64, req []uint64) ([]duty, uint64) {
	g := w.egen(ep)
	var out []duty
	for _, d := range hasg(w.seed, w.nv, k, ep, g) {
		if slices.Contains(req, d.V) {
			out = append(out, d)
		}
	}
	return out, hmeta(w.seed, k, ep, g)
}

func (w *world) bnCall(ctx context.Context, k int, ep uint64, idxs []eth2p0.ValidatorIndex) ([]duty, uint64, error) {
	cid, _ := ctx.Value(cidKey{}).(int)
	w.mu.Lock()
	cs := w.calls[cid]
	if cs == nil || cs.entered {
		w.errs = append(w.errs, fmt.Sprintf("beacon node called outside a scripted call or twice (cid %d)", cid))
		w.mu.Unlock()
		return nil, 0, errors.New("unscripted")
	}
	cs.entered, cs.reqK, cs.reqEp, cs.req = true, k, ep, fromIdx(idxs)
	if cs.mode != "release" {
		cs.ans, cs.ameta = w.answer(k, ep, cs.req)
		cs.answered = true
	}
	w.mu.Unlock()
	if cs.mode != "seq" {
		<-cs.release
	}
	w.mu.Lock()
	defer w.mu.Unlock()
	if !cs.answered {
		cs.ans, cs.ameta = w.answer(k, ep, cs.req)
		cs.answered = true
	}
	if cs.fail {
		return nil, 0, errors.New("beacon node unavailable")
	}
	return cs.ans, cs.ameta, nil
}

type client struct {
	beaconmock.Mock
	w *world
}

func (c client) AttesterDuties(ctx context.Context, opts *eth2api.AttesterDutiesOpts) (*eth2api.Response[[]*eth2v1.AttesterDuty], error) {
	ds, m, err := c.w.bnCall(ctx, 1, uint64(opts.Epoch), opts.Indices)
	if err != nil {
		return nil, err
	}
	out := make([]*eth2v1.AttesterDuty, 0, len(ds))
	for _, d := range ds {
		out = append(out, mkAtt(d))
	}
	return &eth2api.Response[[]*eth2v1.AttesterDuty]{Data: out, Metadata: mkMeta(m)}, nil
}

func (c client) ProposerDuties(ctx context.Context, opts *eth2api.ProposerDutiesOpts) (*eth2api.Response[[]*eth2v1.ProposerDuty], error) {
	ds, m, err := c.w.bnCall(ctx, 0, uint64(opts.Epoch), opts.Indices)
	if err != nil {
		return nil, err
	}
	out := make([]*eth2v1.ProposerDuty, 0, len(ds))
	for _, d := range ds {
		out = append(out, mkProp(d))
	}
	return &eth2api.Response[[]*eth2v1.ProposerDuty]{Data: out, Metadata: mkMeta(m)}, nil
}

func (c client) SyncCommitteeDuties(ctx context.Context, opts *eth2api.SyncCommitteeDutiesOpts) (*eth2api.Response[[]*eth2v1.SyncCommitteeDuty], error) {
	ds, m, err := c.w.bnCall(ctx, 2, uint64(opts.Epoch), opts.Indices)
	if err != nil {
		return nil, err
	}
	out := make([]*eth2v1.SyncCommitteeDuty, 0, len(ds))
	for _, d := range ds {
		out = append(out, mkSync(d))
	}
	return &eth2api.Response[[]*eth2v1.SyncCommitteeDuty]{Data: out, Metadata: mkMeta(m)}, nil
}

var _ eth2wrap.Client = client{}

// doCall performs the cache call of cs and records its outcome in cs.
// inCluster reports whether the validator API knows a public share for validator v.
func (w *world) inCluster(v uint64) bool { return !(w.outsider && v == w.nv-1) }

// unshare undoes the validator API's documented substitution (root public key -> this node's public
// share): a cluster validator's duty must carry exactly its share; an unknown validator's key is left as is.
func (w *world) unshare(v uint64, pk eth2p0.BLSPubKey) eth2p0.BLSPubKey {
	if !w.inCluster(v) {
		return pk
	}
	if pk == share(v) {
		return pubkey(v)
	}
	pk[5] ^= 0x77 // not substituted, or another validator's share: shows up as a malformed duty

	return pk
}

// record keeps what the duties cache handed to the validator API for the scripted call of ctx.
func (w *world) record(ctx context.Context, ds []duty, meta uint64, err error) {
	cid, _ := ctx.Value(cidKey{}).(int)
	w.mu.Lock()
	defer w.mu.Unlock()
	if cs := w.calls[cid]; cs != nil {
		cs.cacheHit, cs.cacheRes, cs.cacheMeta, cs.cacheErr = true, ds, meta, err
	}
}

func sameDuties(a, b []duty) bool {
	less := func(p, q duty) int {
		if p.V != q.V {
			if p.V < q.V {
				return -1
			}
			return 1
		}
		if p.P < q.P {
			return -1
		} else if p.P > q.P {
			return 1
		}
		return 0
	}
	x, y := slices.Clone(a), slices.Clone(b)
	slices.SortFunc(x, less)
	slices.SortFunc(y, less)

	return slices.Equal(x, y)
}

func mutMeta(md map[string]any) {
	for key := range md {
		md[key] = uint64(424242)
	}
	if md != nil {
		md["x"] = "y"
	}
}

// doCall performs the call of cs (directly on the duties cache, or as a validator client through the
// validator API component in front of it) and records its outcome in cs.
func doCall(ctx context.Context, c *eth2wrap.DutiesCache, comp *validatorapi.Component, w *world, cs *callSt, vidxs []eth2p0.ValidatorIndex, own bool) {
	keep := slices.Clone(vidxs)
	var (
		res   []duty
		rmeta uint64
		err   error
		mut   func()
	)
	vapi := cs.via == "vapi"
	switch cs.k {
	case 0:
		var (
			ds []*eth2v1.ProposerDuty
			md map[string]any
		)
		if vapi {
			resp, e := comp.ProposerDuties(ctx, &eth2api.ProposerDutiesOpts{Epoch: eth2p0.Epoch(cs.ep), Indices: vidxs})
			err = e
			if resp != nil {
				ds, md = resp.Data, resp.Metadata
			}
		} else {
			r, e := c.ProposerDutiesCache(ctx, eth2p0.Epoch(cs.ep), vidxs)
			err, ds, md = e, r.Duties, r.Metadata
		}
		for _, x := range ds {
			if vapi && x != nil {
				cp := *x
				cp.PubKey = w.unshare(uint64(x.ValidatorIndex), x.PubKey)
				x = &cp
			}
			res = append(res, unProp(x))
		}
		rmeta = unMeta(md)
		mut = func() {
			for i, x := range ds {
				x.Slot += 5000
				x.ValidatorIndex += 5000
				x.PubKey[3] ^= 0xff
				ds[i] = &eth2v1.ProposerDuty{}
			}
			mutMeta(md)
		}
	case 1:
		var (
			ds []*eth2v1.AttesterDuty
			md map[string]any
		)
		if vapi {
			resp, e := comp.AttesterDuties(ctx, &eth2api.AttesterDutiesOpts{Epoch: eth2p0.Epoch(cs.ep), Indices: vidxs})
			err = e
			if resp != nil {
				ds, md = resp.Data, resp.Metadata
			}
		} else {
			r, e := c.AttesterDutiesCache(ctx, eth2p0.Epoch(cs.ep), vidxs)
			err, ds, md = e, r.Duties, r.Metadata
		}
		for _, x := range ds {
			if vapi && x != nil {
				cp := *x
				cp.PubKey = w.unshare(uint64(x.ValidatorIndex), x.PubKey)
				x = &cp
			}
			res = append(res, unAtt(x))
		}
		rmeta = unMeta(md)
		mut = func() {
			for i, x := range ds {
				x.Slot += 5000
				x.ValidatorIndex += 5000
				x.CommitteeIndex += 3
				x.PubKey[3] ^= 0xff
				ds[i] = &eth2v1.AttesterDuty{}
			}
			mutMeta(md)
		}
	case 2:
		var (
			ds []*eth2v1.SyncCommitteeDuty
			md map[string]any
		)
		if vapi {
			resp, e := comp.SyncCommitteeDuties(ctx, &eth2api.SyncCommitteeDutiesOpts{Epoch: eth2p0.Epoch(cs.ep), Indices: vidxs})
			err = e
			if resp != nil {
				ds, md = resp.Data, resp.Metadata
			}
		} else {
			r, e := c.SyncCommDutiesCache(ctx, eth2p0.Epoch(cs.ep), vidxs)
			err, ds, md = e, r.Duties, r.Metadata
		}
		for _, x := range ds {
			if vapi && x != nil {
				cp := *x
				cp.PubKey = w.unshare(uint64(x.ValidatorIndex), x.PubKey)
				x = &cp
			}
			res = append(res, unSync(x))
		}
		rmeta = unMeta(md)
		mut = func() {
			for i, x := range ds {
				for j := range x.ValidatorSyncCommitteeIndices {
					x.ValidatorSyncCommitteeIndices[j] += 5000
				}
				x.ValidatorIndex += 5000
				x.PubKey[3] ^= 0xff
				ds[i] = &eth2v1.SyncCommitteeDuty{}
			}
			mutMeta(md)
		}
	}
	w.mu.Lock()
	defer w.mu.Unlock()
	if own && !slices.Equal(keep, vidxs) {
		w.errs = append(w.errs, "the caller's index slice was modified")
	}
	if vapi {
		// The consumer layer: what the validator client receives must be what the duties cache handed to the
		// validator API (which the model and the monitors compare with the beacon node), after the documented
		// share substitution. Unchanged code: proposer duties of unknown validators are passed through with
		// their root key; attester / sync duties of an unknown validator make the request fail; sync metadata
		// is not forwarded.
		vres, vmeta, verr := res, rmeta, err
		say := func(f string, a ...any) {
			w.consumer = append(w.consumer, fmt.Sprintf("%s: epoch %d indices %v: ", kindKey[cs.k], cs.ep, fromIdx(keep))+fmt.Sprintf(f, a...))
		}
		if !cs.cacheHit {
			say("the validator API answered %v (err %v) without consulting the duties cache", vres, verr)
		} else {
			res, rmeta, err = cs.cacheRes, cs.cacheMeta, cs.cacheErr // the model is told the cache-level answer
			expectErr := cs.cacheErr != nil
			if cs.k != 0 {
				for _, d := range cs.cacheRes {
					if !w.inCluster(d.V) {
						expectErr = true
					}
				}
			}
			switch {
			case expectErr && verr == nil:
				say("the validator API answered %v although the request must fail (cache error %v / duty of a validator outside the cluster)", vres, cs.cacheErr)
			case !expectErr && verr != nil:
				say("the validator API failed (%v) although the duties cache answered %v", verr, cs.cacheRes)
			case !expectErr && !sameDuties(vres, cs.cacheRes):
				say("the validator API answered %v, the duties cache (= the beacon node, see the answer monitor) answered %v", vres, cs.cacheRes)
			case !expectErr && cs.k != 2 && vmeta != cs.cacheMeta:
				say("the validator API answered metadata %d, the duties cache %d", vmeta, cs.cacheMeta)
			}
		}
	}
	cs.done, cs.err, cs.res, cs.rmeta, cs.mutate = true, err, res, rmeta, mut
}

// newComponent builds the validator API component of one cluster node in front of the duties cache c, the way
// app.go wires them: the component's beacon client serves *DutiesCache calls from the real cache (here through a
// recorder that keeps what the cache handed out), everything else is the scripted beacon client.
func newComponent(t *testing.T, c *eth2wrap.DutiesCache, w *world) *validatorapi.Component {
	t.Helper()
	vcl := client{w: w}
	vcl.Mock.CachedProposerDutiesFunc = func(ctx context.Context, ep eth2p0.Epoch, idxs []eth2p0.ValidatorIndex) (eth2wrap.ProposerDutyWithMeta, error) {
		r, err := c.ProposerDutiesCache(ctx, ep, idxs)
		var ds []duty
		for _, x := range r.Duties {
			ds = append(ds, unProp(x))
		}
		w.record(ctx, ds, unMeta(r.Metadata), err)

		return r, err
	}
	vcl.Mock.CachedAttesterDutiesFunc = func(ctx context.Context, ep eth2p0.Epoch, idxs []eth2p0.ValidatorIndex) (eth2wrap.AttesterDutyWithMeta, error) {
		r, err := c.AttesterDutiesCache(ctx, ep, idxs)
		var ds []duty
		for _, x := range r.Duties {
			ds = append(ds, unAtt(x))
		}
		w.record(ctx, ds, unMeta(r.Metadata), err)

		return r, err
	}
	vcl.Mock.CachedSyncCommDutiesFunc = func(ctx context.Context, ep eth2p0.Epoch, idxs []eth2p0.ValidatorIndex) (eth2wrap.SyncDutyWithMeta, error) {
		r, err := c.SyncCommDutiesCache(ctx, ep, idxs)
		var ds []duty
		for _, x := range r.Duties {
			ds = append(ds, unSync(x))
		}
		w.record(ctx, ds, unMeta(r.Metadata), err)

		return r, err
	}
	shares := make(map[core.PubKey]map[int]tbls.PublicKey)
	for v := uint64(0); v < w.nv; v++ {
		if !w.inCluster(v) {
			continue
		}
		pk, sh := pubkey(v), share(v)
		ck, err := core.PubKeyFromBytes(pk[:])
		if err != nil {
			t.Fatal(err)
		}
		shares[ck] = map[int]tbls.PublicKey{1: tbls.PublicKey(sh)}
	}
	comp, err := validatorapi.NewComponent(vcl, shares, 1, nil, false, 30000000)
	if err != nil {
		t.Fatal(err)
	}

	return comp
}

// runScript executes one script against a fresh cache and fills in the observations.
func runScript(t *testing.T, h *History) {
	t.Helper()
	h.Labels, h.Alias, h.Errors, h.Consumer, h.VapiCalls = nil, nil, nil, nil, 0
	h.Hits, h.Partials, h.Misses, h.Refused, h.Overlap = 0, 0, 0, 0, false
	synctest.Test(t, func(t *testing.T) {
		obsCore, logs := observer.New(zap.DebugLevel)
		base := log.WithLogger(context.Background(), zap.New(obsCore))
		w := &world{seed: h.Seed, nv: h.NV, calls: map[int]*callSt{}, outsider: h.Outsider}
		c := eth2wrap.NewDutiesCache(client{w: w}, toIdx(slices.Clone(h.Active0)))
		comp := newComponent(t, c, w)
		active := slices.Clone(h.Active0)
		seenLogs := 0
		held := 0
		nextProbe := 500
		emit := func(s string) { h.Labels = append(h.Labels, s) }
		// the callers' own index buffers: one backing array each (spare capacity), rewritten in place
		const bufCap = 32
		bufs := map[int][]eth2p0.ValidatorIndex{}
		setBuf := func(b int, idxs []uint64) []eth2p0.ValidatorIndex {
			buf := bufs[b]
			if buf == nil {
				buf = make([]eth2p0.ValidatorIndex, 0, bufCap)
			}
			buf = buf[:0]
			for _, x := range idxs {
				if len(buf) < bufCap {
					buf = append(buf, eth2p0.ValidatorIndex(x)) // within capacity: same backing array
				}
			}
			bufs[b] = buf
			return buf
		}

		refused := func() bool { // did storeOrAmend report false since the last look at the log?
			r := false
			for _, e := range logs.All()[seenLogs:] {
				seenLogs++
				if strings.HasPrefix(e.Message, "Failed to cache") {
					r = true
				}
			}
			return r
		}
		// finish emits the labels of the part of call cid that ran after its beacon call completed.
		finish := func(cid int, cs *callSt, fetchLabel bool) {
			if !cs.done {
				h.Errors = append(h.Errors, fmt.Sprintf("call %d did not complete after its beacon call was released", cid))
				return
			}
			ref := refused()
			if cs.fail {
				emit(fmt.Sprintf("LFetchErr %d%%nat", cid))
				if cs.err == nil {
					h.Errors = append(h.Errors, fmt.Sprintf("call %d returned no error although the beacon call failed", cid))
				}
				return
			}
			if cs.err != nil {
				h.Errors = append(h.Errors, fmt.Sprintf("call %d returned an unexpected error: %v", cid, cs.err))
				return
			}
			if fetchLabel {
				emit(fmt.Sprintf("LFetch %d%%nat %s %d", cid, dutyList(cs.ans), cs.ameta))
			}
			if ref {
				h.Refused++
			}
			emit(fmt.Sprintf("LStore %d%%nat %v", cid, !ref))
			emit(fmt.Sprintf("LReturn %d%%nat %s %d", cid, dutyList(cs.res), cs.rmeta))
		}
		start := func(cid int, op Op) *callSt {
			cs := &callSt{k: op.K, ep: op.Ep, mode: op.Mode, fail: op.Fail, release: make(chan struct{}), via: op.Via}
			if op.Via == "vapi" {
				h.VapiCalls++
			}
			if cs.mode == "" {
				cs.mode = "seq"
			}
			w.mu.Lock()
			w.calls[cid] = cs
			w.mu.Unlock()
			if held > 0 {
				h.Overlap = true
			}
			ctx := context.WithValue(base, cidKey{}, cid)
			if op.B > 0 {
				go doCall(ctx, c, comp, w, cs, setBuf(op.B, op.Idxs), false)
			} else {
				go doCall(ctx, c, comp, w, cs, toIdx(op.Idxs), true)
			}
			synctest.Wait()
			idxs := natList(op.Idxs)
			resolved := op.Idxs
			if len(resolved) == 0 {
				resolved = active
			}
			switch {
			case !cs.entered && cs.done:
				h.Hits++
				emit(fmt.Sprintf("LLookup %d%%nat %s %d %s None", cid, kindName[op.K], op.Ep, idxs))
				if cs.err != nil {
					h.Errors = append(h.Errors, fmt.Sprintf("call %d (cache hit) returned an error: %v", cid, cs.err))
				}
				emit(fmt.Sprintf("LReturn %d%%nat %s %d", cid, dutyList(cs.res), cs.rmeta))
			case cs.entered:
				if cs.reqK != op.K || cs.reqEp != op.Ep {
					h.Errors = append(h.Errors, fmt.Sprintf("call %d (%s, epoch %d) asked the beacon node for %s, epoch %d", cid, kindKey[op.K], op.Ep, kindKey[cs.reqK], cs.reqEp))
				}
				if len(cs.req) < len(resolved) {
					h.Partials++
				} else {
					h.Misses++
				}
				emit(fmt.Sprintf("LLookup %d%%nat %s %d %s (Some %s)", cid, kindName[op.K], op.Ep, idxs, natList(cs.req)))
				switch cs.mode {
				case "seq":
					finish(cid, cs, true)
				case "entry":
					held++
					if !cs.fail {
						emit(fmt.Sprintf("LFetch %d%%nat %s %d", cid, dutyList(cs.ans), cs.ameta))
					}
				default:
					held++
				}
			default:
				h.Errors = append(h.Errors, fmt.Sprintf("call %d neither completed nor reached the beacon node", cid))
			}
			return cs
		}

		for _, op := range h.Script {
			if held > 0 && op.Op != "release" {
				h.Overlap = true
			}
			switch op.Op {
			case "call":
				start(op.C, op)
			case "release":
				w.mu.Lock()
				cs := w.calls[op.C]
				w.mu.Unlock()
				if cs == nil || !cs.entered || cs.done || cs.mode == "seq" {
					continue // nothing held under this id (e.g. the call was a cache hit)
				}
				close(cs.release)
				synctest.Wait()
				held--
				finish(op.C, cs, cs.mode == "release")
			case "reorg":
				w.mu.Lock()
				w.reorgs = append(w.reorgs, op.Ep)
				w.mu.Unlock()
				emit(fmt.Sprintf("LReorg %d", op.Ep))
			case "invalidate":
				c.InvalidateCache(base, eth2p0.Epoch(op.Ep))
				for _, k := range kindName {
					emit(fmt.Sprintf("LInvalidate %s %d", k, op.Ep))
				}
				refused()
			case "trim":
				c.Trim(eth2p0.Epoch(op.Ep))
				for _, k := range kindName {
					emit(fmt.Sprintf("LTrim %s %d", k, op.Ep))
				}
			case "active":
				active = slices.Clone(op.Idxs)
				c.UpdateActiveValIndices(toIdx(slices.Clone(op.Idxs)))
				emit(fmt.Sprintf("LUpdateActive %s", natList(op.Idxs)))
			case "mutate":
				w.mu.Lock()
				cs := w.calls[op.C]
				w.mu.Unlock()
				if cs != nil && cs.done && cs.mutate != nil {
					cs.mutate()
				}
			case "bufset":
				setBuf(op.B, op.Idxs)
			case "bufprobe":
				if len(op.Idxs2) < 2 {
					continue
				}
				sameSet := func(a, b []uint64) bool {
					x, y := slices.Clone(a), slices.Clone(b)
					slices.Sort(x)
					slices.Sort(y)
					return slices.Equal(x, y)
				}
				sameDuties := func(a, b []duty) bool {
					less := func(p, q duty) int {
						if p.V != q.V {
							return int(p.V) - int(q.V)
						}
						return int(p.P) - int(q.P)
					}
					x, y := slices.Clone(a), slices.Clone(b)
					slices.SortFunc(x, less)
					slices.SortFunc(y, less)
					return slices.Equal(x, y)
				}
				verdict := func(cs *callSt, content, mustAsk []uint64, what string) {
					if !cs.done || cs.err != nil {
						return
					}
					w.mu.Lock()
					want, _ := w.answer(op.K, op.Ep, content)
					w.mu.Unlock()
					if !cs.entered || !sameSet(cs.req, mustAsk) {
						h.Alias = append(h.Alias, fmt.Sprintf("request-slice/%s: %s: epoch %d request %v: the beacon node was asked for %v (asked at all: %v) instead of the never-requested %v; answer %v, beacon node's %v",
							kindKey[op.K], what, op.Ep, content, cs.req, cs.entered, mustAsk, cs.res, want))
					} else if !sameDuties(cs.res, want) {
						h.Alias = append(h.Alias, fmt.Sprintf("request-slice/%s: %s: epoch %d request %v answered %v, the beacon node answers %v",
							kindKey[op.K], what, op.Ep, content, cs.res, want))
					}
				}
				own := Op{Op: "call", K: op.K, Ep: op.Ep, Idxs: op.Idxs, Mode: "seq", B: op.B}
				start(nextProbe, own)
				nextProbe++
				if op.Mode == "append" {
					start(nextProbe, Op{Op: "call", K: op.K, Ep: op.Ep, Idxs: op.Idxs2[:1], Mode: "seq"})
					nextProbe++
					own.Idxs = append(slices.Clone(op.Idxs), op.Idxs2[1])
					d := start(nextProbe, own)
					nextProbe++
					verdict(d, own.Idxs, op.Idxs2[1:2], "after the caller appended an index to its own buffer (another caller had requested one more index in between)")
				} else {
					setBuf(op.B, op.Idxs2)
					d := start(nextProbe, Op{Op: "call", K: op.K, Ep: op.Ep, Idxs: op.Idxs2, Mode: "seq"})
					nextProbe++
					verdict(d, op.Idxs2, op.Idxs2, "after an earlier caller overwrote its own index buffer")
				}
			case "probe":
				o := op
				o.Op, o.Mode, o.Fail = "call", "seq", false
				a := start(nextProbe, o)
				b := start(nextProbe+1, o) // warm: after this one the same request is certainly a hit if anything was stored
				nextProbe += 2
				if !a.done || !b.done || a.err != nil || b.err != nil {
					continue
				}
				want, wantMeta := slices.Clone(b.res), b.rmeta
				a.mutate()
				b.mutate()
				d := start(nextProbe, o)
				nextProbe++
				if d.done && d.err == nil && (!slices.Equal(want, d.res) || wantMeta != d.rmeta) {
					what := "duties"
					if slices.Equal(want, d.res) {
						what = "metadata"
					}
					h.Alias = append(h.Alias, fmt.Sprintf("%s: after a caller overwrote the %s it had received for epoch %d indices %v, the next caller received %v meta %d instead of %v meta %d",
						kindKey[op.K], what, op.Ep, op.Idxs, d.res, d.rmeta, want, wantMeta))
				}
			}
		}
		// let every held call finish so the bubble can end
		var ids []int
		w.mu.Lock()
		for cid, cs := range w.calls {
			if cs.entered && !cs.done && cs.mode != "seq" {
				ids = append(ids, cid)
			}
		}
		w.mu.Unlock()
		sort.Ints(ids)
		for _, cid := range ids {
			cs := w.calls[cid]
			close(cs.release)
			synctest.Wait()
			held--
			finish(cid, cs, cs.mode == "release")
		}
		h.Errors = append(h.Errors, w.errs...)
		h.Consumer = append(h.Consumer, w.consumer...)
	})
	h.NonTrivial = h.Hits > 0 && h.Partials > 0 && hasOp(h.Script, "invalidate", "trim")
}

func hasOp(s []Op, names ...string) bool {
	for _, o := range s {
		if slices.Contains(names, o.Op) {
			return true
		}
	}
	return false
}

// ---- generators ----

func subset(r *rand.Rand, nv uint64) []uint64 {
	var out []uint64
	switch r.Intn(6) {
	case 0: // one validator (a validator client asking per validator)
		out = []uint64{uint64(r.Intn(int(nv)))}
	case 1: // all, explicitly
		for v := uint64(0); v < nv; v++ {
			out = append(out, v)
		}
	default:
		for v := uint64(0); v < nv; v++ {
			if r.Intn(3) == 0 {
				out = append(out, v)
			}
		}
		if len(out) == 0 {
			out = []uint64{uint64(r.Intn(int(nv)))}
		}
	}
	r.Shuffle(len(out), func(i, j int) { out[i], out[j] = out[j], out[i] })
	return out
}

func sweep(h *History, next *int, epochs []uint64, kinds []int) {
	var all []uint64
	for v := uint64(0); v < h.NV; v++ {
		all = append(all, v)
	}
	for _, k := range kinds {
		for _, ep := range epochs {
			h.Script = append(h.Script, Op{Op: "call", C: *next, K: k, Ep: ep, Idxs: all, Mode: "seq"})
			*next++
		}
	}
}

func gen(r *rand.Rand, kind string) History {
	h := History{Kind: kind, Seed: uint64(r.Intn(1 << 20)), NV: 8}
	if r.Intn(3) > 0 {
		for v := uint64(0); v < h.NV; v++ {
			if r.Intn(4) > 0 {
				h.Active0 = append(h.Active0, v)
			}
		}
	}
	if h.Active0 == nil {
		h.Active0 = []uint64{}
	}
	h.Outsider = r.Intn(4) == 0
	nEp := 2 + r.Intn(3)
	baseEp := uint64(r.Intn(6))
	var epochs []uint64
	for i := 0; i < nEp; i++ {
		epochs = append(epochs, baseEp+uint64(i))
	}
	nk := 1 + r.Intn(3)
	k0 := r.Intn(3)
	pickK := func() int { return (k0 + r.Intn(nk)) % 3 }
	pickEp := func() uint64 { return epochs[r.Intn(len(epochs))] }
	next := 0
	var held []int
	n := 10 + r.Intn(30)
	reorgPending := []uint64{}
	probeEp := uint64(0)
	for i := 0; i < n; i++ {
		x := r.Intn(100)
		switch {
		case x < 55:
			op := Op{Op: "call", C: next, K: pickK(), Ep: pickEp(), Idxs: subset(r, h.NV), Mode: "seq"}
			next++
			if r.Intn(12) == 0 {
				op.Idxs = nil // all active validators
			}
			if kind == "dup" && r.Intn(2) == 0 && len(op.Idxs) > 0 {
				op.Idxs = append(op.Idxs, op.Idxs[r.Intn(len(op.Idxs))])
			}
			if kind == "conc" && r.Intn(2) == 0 {
				op.Mode = []string{"entry", "release"}[r.Intn(2)]
				held = append(held, op.C)
			}
			if r.Intn(3) == 0 {
				op.B = 1 + r.Intn(2) // this caller reuses its own index buffer
			}
			if r.Intn(3) == 0 {
				op.Via = "vapi" // a validator client asking through the validator API
			}
			op.Fail = r.Intn(25) == 0
			h.Script = append(h.Script, op)
		case x < 65 && len(held) > 0:
			j := r.Intn(len(held))
			h.Script = append(h.Script, Op{Op: "release", C: held[j]})
			held = append(held[:j], held[j+1:]...)
		case x < 75:
			e := epochs[0] + uint64(r.Intn(len(epochs))) - uint64(r.Intn(2))
			if epochs[0] == 0 && e > 1<<60 {
				e = 0
			}
			h.Script = append(h.Script, Op{Op: "reorg", Ep: e})
			if kind == "conc" && r.Intn(3) == 0 {
				reorgPending = append(reorgPending, e) // the invalidation arrives later
			} else {
				h.Script = append(h.Script, Op{Op: "invalidate", Ep: e})
			}
		case x < 79 && len(reorgPending) > 0:
			h.Script = append(h.Script, Op{Op: "invalidate", Ep: reorgPending[0]})
			reorgPending = reorgPending[1:]
		case x < 82:
			h.Script = append(h.Script, Op{Op: "invalidate", Ep: pickEp()}) // reorg event without changed duties
		case x < 88:
			h.Script = append(h.Script, Op{Op: "trim", Ep: epochs[0] + uint64(r.Intn(len(epochs)+5))})
		case x < 92:
			h.Script = append(h.Script, Op{Op: "active", Idxs: subset(r, h.NV)})
		case x < 96 && next > 0:
			h.Script = append(h.Script, Op{Op: "mutate", C: r.Intn(next)})
		default:
			switch y := r.Intn(4); {
			case y == 0:
				h.Script = append(h.Script, Op{Op: "bufset", B: 1 + r.Intn(2), Idxs: subset(r, h.NV)})
			case y == 1 && kind != "dup":
				// S1 and two further distinct indices, on an epoch nothing else touches
				perm := r.Perm(int(h.NV))
				n1 := 1 + r.Intn(int(h.NV)-2)
				var s1 []uint64
				for _, v := range perm[:n1] {
					s1 = append(s1, uint64(v))
				}
				probeEp++
				h.Script = append(h.Script, Op{Op: "bufprobe", K: pickK(), Ep: epochs[len(epochs)-1] + 1 + probeEp, Idxs: s1,
					Idxs2: []uint64{uint64(perm[n1]), uint64(perm[n1+1])}, Mode: []string{"overwrite", "append"}[r.Intn(2)], B: 1 + r.Intn(2)})
			case kind != "dup":
				h.Script = append(h.Script, Op{Op: "probe", K: pickK(), Ep: pickEp(), Idxs: subset(r, h.NV)})
			}
		}
	}
	for _, e := range reorgPending {
		h.Script = append(h.Script, Op{Op: "invalidate", Ep: e})
	}
	for _, cid := range held {
		h.Script = append(h.Script, Op{Op: "release", C: cid})
	}
	var kinds []int
	for i := 0; i < nk; i++ {
		kinds = append(kinds, (k0+i)%3)
	}
	sweep(&h, &next, epochs, kinds)
	return h
}

// corpus: minimised shapes of the defects found so far and of the paths the unit tests of the cache do not reach.
func corpus() []History {
	all := []uint64{0, 1, 2, 3, 4, 5, 6, 7}
	var hs []History
	for k := 0; k < 3; k++ {
		// F10: a fetch that straddles an invalidation must not be stored; the next caller asks the beacon node again.
		hs = append(hs, History{Kind: "corpus-f10", Seed: 7, NV: 8, Active0: all, Script: []Op{
			{Op: "call", C: 0, K: k, Ep: 5, Idxs: all, Mode: "entry"},
			{Op: "reorg", Ep: 3}, {Op: "invalidate", Ep: 3},
			{Op: "release", C: 0},
			{Op: "call", C: 1, K: k, Ep: 5, Idxs: all, Mode: "seq"},
			{Op: "call", C: 2, K: k, Ep: 5, Idxs: []uint64{1, 2}, Mode: "seq"},
		}})
		// the same on the amend path
		hs = append(hs, History{Kind: "corpus-f10", Seed: 11, NV: 8, Active0: all, Script: []Op{
			{Op: "call", C: 0, K: k, Ep: 5, Idxs: []uint64{0, 1}, Mode: "seq"},
			{Op: "call", C: 1, K: k, Ep: 5, Idxs: []uint64{1, 2, 3}, Mode: "release"},
			{Op: "reorg", Ep: 4}, {Op: "invalidate", Ep: 4},
			{Op: "call", C: 2, K: k, Ep: 5, Idxs: []uint64{4}, Mode: "seq"},
			{Op: "release", C: 1},
			{Op: "call", C: 3, K: k, Ep: 5, Idxs: all, Mode: "seq"},
		}})
		// F9: private copies on the fetch path and on the hit path
		hs = append(hs, History{Kind: "corpus-f9", Seed: 3, NV: 8, Active0: all, Script: []Op{
			{Op: "probe", K: k, Ep: 2, Idxs: all},
			{Op: "probe", K: k, Ep: 2, Idxs: []uint64{0, 3, 5}},
			{Op: "probe", K: k, Ep: 3, Idxs: []uint64{1, 2, 4, 6, 7}},
			{Op: "call", C: 0, K: k, Ep: 2, Idxs: all, Mode: "seq"},
		}})
		// single, single, overlapping, all: amend path; validators without duty are hits afterwards
		hs = append(hs, History{Kind: "corpus-amend", Seed: 5, NV: 8, Active0: all, Script: []Op{
			{Op: "call", C: 0, K: k, Ep: 1, Idxs: []uint64{0}, Mode: "seq"},
			{Op: "call", C: 1, K: k, Ep: 1, Idxs: []uint64{5}, Mode: "seq"},
			{Op: "call", C: 2, K: k, Ep: 1, Idxs: []uint64{5, 0, 2}, Mode: "seq"},
			{Op: "call", C: 3, K: k, Ep: 1, Idxs: []uint64{0}, Mode: "seq"},
			{Op: "call", C: 4, K: k, Ep: 1, Idxs: nil, Mode: "seq"},
			{Op: "call", C: 5, K: k, Ep: 1, Idxs: all, Mode: "seq"},
			{Op: "trim", Ep: 4}, {Op: "call", C: 6, K: k, Ep: 1, Idxs: all, Mode: "seq"},
			{Op: "trim", Ep: 5}, {Op: "call", C: 7, K: k, Ep: 1, Idxs: []uint64{3}, Mode: "seq"},
			{Op: "invalidate", Ep: 1}, {Op: "call", C: 8, K: k, Ep: 1, Idxs: []uint64{3}, Mode: "seq"},
			{Op: "invalidate", Ep: 0}, {Op: "call", C: 9, K: k, Ep: 1, Idxs: []uint64{3}, Mode: "seq"},
		}})
		// two callers miss concurrently, both store: the second amends
		hs = append(hs, History{Kind: "corpus-conc", Seed: 9, NV: 8, Active0: all, Script: []Op{
			{Op: "call", C: 0, K: k, Ep: 6, Idxs: []uint64{0, 1, 2}, Mode: "release"},
			{Op: "call", C: 1, K: k, Ep: 6, Idxs: []uint64{2, 3}, Mode: "entry"},
			{Op: "trim", Ep: 12},
			{Op: "release", C: 1}, {Op: "release", C: 0},
			{Op: "call", C: 2, K: k, Ep: 6, Idxs: all, Mode: "seq"},
		}})
	}
	for k := 0; k < 3; k++ {
		// a caller that reuses its index buffer: the cache's record of requested indices must not live in it
		hs = append(hs, History{Kind: "corpus-reqbuf", Seed: 13, NV: 8, Active0: all, Script: []Op{
			{Op: "call", C: 0, K: k, Ep: 2, Idxs: []uint64{1}, Mode: "seq", B: 1},
			{Op: "bufset", B: 1, Idxs: []uint64{2}},
			{Op: "call", C: 1, K: k, Ep: 2, Idxs: []uint64{2}, Mode: "seq"},
			{Op: "call", C: 2, K: k, Ep: 3, Idxs: []uint64{0, 4}, Mode: "seq", B: 2},
			{Op: "call", C: 3, K: k, Ep: 3, Idxs: []uint64{5}, Mode: "seq"},
			{Op: "call", C: 4, K: k, Ep: 3, Idxs: []uint64{0, 4, 6}, Mode: "seq", B: 2},
			{Op: "call", C: 5, K: k, Ep: 3, Idxs: []uint64{4, 0}, Mode: "seq", B: 2},
			{Op: "call", C: 6, K: k, Ep: 3, Idxs: all, Mode: "seq"},
			{Op: "bufprobe", K: k, Ep: 6, Idxs: []uint64{1, 3}, Idxs2: []uint64{2, 7}, Mode: "overwrite", B: 1},
			{Op: "bufprobe", K: k, Ep: 7, Idxs: []uint64{1, 3}, Idxs2: []uint64{2, 7}, Mode: "append", B: 2},
			{Op: "bufprobe", K: k, Ep: 8, Idxs: []uint64{0, 1, 2, 3, 4, 5}, Idxs2: []uint64{6, 7}, Mode: "append", B: 1},
		}})
	}
	for k := 0; k < 3; k++ {
		// a validator client behind the validator API: cold, no duty, several duties (amend), repeated, superset,
		// reordered -- mixed with the scheduler asking the cache directly (seeds with several duties per validator)
		for _, seed := range []uint64{5, 17, 21} {
			hs = append(hs, History{Kind: "corpus-vapi", Seed: seed, NV: 8, Active0: all, Script: []Op{
				{Op: "call", C: 0, K: k, Ep: 1, Idxs: []uint64{2}, Mode: "seq", Via: "vapi"},
				{Op: "call", C: 1, K: k, Ep: 1, Idxs: []uint64{3}, Mode: "seq", Via: "vapi"},
				{Op: "call", C: 2, K: k, Ep: 1, Idxs: []uint64{0, 6}, Mode: "seq", Via: "vapi"},
				{Op: "call", C: 3, K: k, Ep: 1, Idxs: []uint64{0, 6}, Mode: "seq", Via: "vapi"},
				{Op: "call", C: 4, K: k, Ep: 1, Idxs: all, Mode: "seq"},
				{Op: "call", C: 5, K: k, Ep: 1, Idxs: all, Mode: "seq", Via: "vapi"},
				{Op: "call", C: 6, K: k, Ep: 1, Idxs: []uint64{6, 2, 0}, Mode: "seq", Via: "vapi"},
				{Op: "call", C: 7, K: k, Ep: 1, Idxs: nil, Mode: "seq", Via: "vapi"},
				{Op: "call", C: 8, K: k, Ep: 2, Idxs: all, Mode: "seq", Via: "vapi"},
				{Op: "call", C: 9, K: k, Ep: 2, Idxs: []uint64{7, 1}, Mode: "seq", Via: "vapi"},
			}})
		}
	}
	// N3 (outside the property: not an index set): a request naming an index twice on the amend path
	hs = append(hs, History{Kind: "dup", Seed: 5, NV: 8, Active0: all, Script: []Op{
		{Op: "call", C: 0, K: 0, Ep: 1, Idxs: []uint64{3}, Mode: "seq"},
		{Op: "call", C: 1, K: 0, Ep: 1, Idxs: []uint64{0, 0}, Mode: "seq"},
		{Op: "call", C: 2, K: 0, Ep: 1, Idxs: []uint64{0}, Mode: "seq"},
	}})
	return hs
}

func TestGen(t *testing.T) {
	var replay History
	if ok, err := hx.ReadReplay(&replay); ok {
		if err != nil {
			t.Fatal(err)
		}
		if replay.NV == 0 {
			replay.NV = 8
		}
		replay.ID, replay.Kind = 0, "replay"
		runScript(t, &replay)
		if err := hx.WriteJSON("cache_traces.json", []History{replay}); err != nil {
			t.Fatal(err)
		}
		return
	}

	r := hx.Rand()
	n := hx.IntEnv("VERIF_N", 300)
	hs := corpus()
	for len(hs) < n {
		kind := "seq"
		switch x := r.Intn(10); {
		case x < 4:
			kind = "conc"
		case x == 9:
			kind = "dup"
		}
		hs = append(hs, gen(r, kind))
	}
	for i := range hs {
		hs[i].ID = i
		runScript(t, &hs[i])
	}
	if err := hx.WriteJSON("cache_traces.json", hs); err != nil {
		t.Fatal(err)
	}
}
