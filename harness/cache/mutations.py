"""Mutation self-test of the C20 check (not part of the check). Usage:
  git -C /repo worktree add --detach /tmp/wt_c20m HEAD; python3 harness/cache/mutations.py [M1 M2 ...]; git -C /repo worktree remove --force /tmp/wt_c20m
Applies each semantic mutation of app/eth2wrap/cache.go to the scratch worktree, runs `VERIF_REPO=/tmp/wt_c20m ./check C20` and the
repo's own cache tests, appends one line per mutation to evidence/C20.mutations.txt."""
import subprocess, sys, os, re, json, time
WT='/tmp/wt_c20m'
F=WT+'/app/eth2wrap/cache.go'
orig=subprocess.run(['git','-C',WT,'show','HEAD:app/eth2wrap/cache.go'],capture_output=True,text=True).stdout
def rep(s, old, new, count=1, nth=None):
    assert old in s, old
    if nth is None:
        return s.replace(old,new,count)
    parts=s.split(old)
    return old.join(parts[:nth+1])+new+old.join(parts[nth+1:])
muts={}
# M1: hit/miss decided from the duties list instead of requestedIdxs (attester)
def m1(s):
    old='''		previouslyRequested := make(map[eth2p0.ValidatorIndex]struct{}, len(dutiesForEpoch.requestedIdxs))
		for _, idx := range dutiesForEpoch.requestedIdxs {
			previouslyRequested[idx] = struct{}{}
		}
'''
    new='''		previouslyRequested := make(map[eth2p0.ValidatorIndex]struct{}, len(dutiesForEpoch.requestedIdxs))
		for _, d := range dutiesForEpoch.duties {
			previouslyRequested[d.ValidatorIndex] = struct{}{}
		}
'''
    return rep(s,old,new,nth=1)
muts['M1 attester hit/miss from duties list (not requestedIdxs)']=m1
# M2: amend appends all fetched duties (proposer)
def m2(s):
    old='''	c.proposerDuties.duties[epoch] = append(c.proposerDuties.duties[epoch], newlyFetchedDuties...)'''
    new='''	_ = newlyFetchedDuties
	c.proposerDuties.duties[epoch] = append(c.proposerDuties.duties[epoch], dutiesForEpoch.duties...)'''
    return rep(s,old,new)
muts['M2 proposer amend appends all fetched duties']=m2
# M3: trimAfter uses >= (sync)
def m3(s):
    i=s.index('func (c *DutiesCache) trimAfterSyncDuties')
    return s[:i]+s[i:].replace('if k > epoch {','if k >= epoch {')
muts['M3 sync trimAfter uses >= instead of >']=m3
# M3b: trimAfter misses the first epoch after (attester)
def m3b(s):
    i=s.index('func (c *DutiesCache) trimAfterAttesterDuties'); j=s.index('func (c *DutiesCache) trimAfterSyncDuties')
    return s[:i]+s[i:j].replace('if k > epoch {','if k > epoch+1 {')+s[j:]
muts['M3b attester trimAfter keeps epoch+1']=m3b
# M4: generation not bumped (sync)
def m4(s):
    return rep(s,'	c.syncDuties.generation++\n','')
muts['M4 sync generation not bumped by invalidation']=m4
# M5: trimBefore off by one (proposer)
def m5(s):
    i=s.index('func (c *DutiesCache) trimBeforeProposerDuties'); j=s.index('func (c *DutiesCache) trimBeforeAttesterDuties')
    return s[:i]+s[i:j].replace('if k < epoch {','if k <= epoch {')+s[j:]
muts['M5 proposer trimBefore uses <=']=m5
# M6: partial hit drops the cached part (attester)
def m6(s):
    return rep(s,'	dutiesResult = append(dutiesResult, eth2Resp.Data...)\n\n	return AttesterDutyWithMeta','	dutiesResult = eth2Resp.Data\n\n	return AttesterDutyWithMeta')
muts['M6 attester partial hit returns only the fetched part']=m6
# M7: hit path returns the cached metadata map itself (proposer)
def m7(s):
    return rep(s,'return ProposerDutyWithMeta{Duties: dutiesResult, Metadata: maps.Clone(dutiesForEpoch.metadata)}, nil','return ProposerDutyWithMeta{Duties: dutiesResult, Metadata: dutiesForEpoch.metadata}, nil')
muts['M7 proposer hit path returns the cached metadata map (F9 partly back)']=m7
# M8: Trim threshold check dropped / wrong threshold
def m8(s):
    return rep(s,'	c.trimBeforeAttesterDuties(epoch - dutiesCacheTrimThreshold)','	c.trimBeforeAttesterDuties(epoch - dutiesCacheTrimThreshold + 1)')
muts['M8 attester Trim keeps only 2 epochs']=m8
# M9: generation check compares with > (store allowed when the cache generation is newer) (attester)
def m9(s):
    return rep(s,'	if dutiesForEpoch.generation != c.attesterDuties.generation {','	if dutiesForEpoch.generation > c.attesterDuties.generation {')
muts['M9 attester generation check uses > instead of !=']=m9
# M10: sync: fetch path stores the beacon slice (F9 back for sync)
def m10(s):
    return rep(s,'		d.ValidatorSyncCommitteeIndices = slices.Clone(duty.ValidatorSyncCommitteeIndices)\n','')
muts['M10 sync cache shares committee indices with the first caller (F9 back)']=m10
# M11: empty idxs does not resolve to active (proposer): request passed through
def m11(s):
    old='''	requestVidxs := slices.Clone(vidxs)
	if len(requestVidxs) == 0 {
		requestVidxs = slices.Clone(allActive)
	}
'''
    new='''	requestVidxs := slices.Clone(vidxs)
	_ = allActive
'''
    return rep(s,old,new)
muts['M11 proposer: empty index list not resolved to the active set']=m11

sel=sys.argv[1:] 
out=open('/verif/evidence/C20.mutations.txt','a')
for name,f in muts.items():
    if sel and not any(name.startswith(x+' ') for x in sel): continue
    open(F,'w').write(f(orig))
    t=time.time()
    p=subprocess.run('VERIF_REPO=%s ./check C20'%WT,shell=True,cwd='/verif',capture_output=True,text=True)
    lines=[l for l in p.stdout.splitlines() if l.startswith('VIOLATION') or l.startswith('check ')]
    keys=[]
    for l in lines:
        m=re.search(r'replay=(\S+)',l)
        if m:
            r=json.load(open('/verif/'+m.group(1)))
            keys.append(r.get('key') or ('broken:'+'; '.join(b['name'][:90] for b in r.get('broken',[])[:2])))
    q=subprocess.run("GOFLAGS=-mod=mod GOPROXY=off go test -count=1 ./app/eth2wrap/ -run 'Cache|Duties' 2>&1 | tail -3",shell=True,cwd=WT,capture_output=True,text=True)
    repo_tests='PASS' if re.search(r'^ok\s',q.stdout,re.M) else 'FAIL'
    msg="%s | check exit=%d keys=%s | repo tests: %s | %.0fs"%(name,p.returncode,keys,repo_tests,time.time()-t)
    print(msg); out.write(msg+"\n"); out.flush()
open(F,'w').write(orig)
