package cache

import (
	"context"
	"testing"

	eth2api "github.com/attestantio/go-eth2-client/api"
	eth2v1 "github.com/attestantio/go-eth2-client/api/v1"
	eth2p0 "github.com/attestantio/go-eth2-client/spec/phase0"

	"github.com/obolnetwork/charon/app/eth2wrap"
	"github.com/obolnetwork/charon/testutil/beaconmock"
)

// allClient answers proposer duties like a real beacon node: an empty index list means ALL proposers.
type allClient struct {
	beaconmock.Mock
	calls *[][]eth2p0.ValidatorIndex
}

func (c allClient) ProposerDuties(_ context.Context, opts *eth2api.ProposerDutiesOpts) (*eth2api.Response[[]*eth2v1.ProposerDuty], error) {
	*c.calls = append(*c.calls, opts.Indices)
	var out []*eth2v1.ProposerDuty
	for v := uint64(0); v < 4; v++ {
		if len(opts.Indices) == 0 || contains(opts.Indices, eth2p0.ValidatorIndex(v)) {
			out = append(out, mkProp(duty{v, 32 + v}))
		}
	}
	return &eth2api.Response[[]*eth2v1.ProposerDuty]{Data: out, Metadata: mkMeta(1)}, nil
}

func contains(l []eth2p0.ValidatorIndex, x eth2p0.ValidatorIndex) bool {
	for _, y := range l {
		if x == y {
			return true
		}
	}
	return false
}

// TestProbeEmptyActive documents reading note N4 (outside C20: no explicit index set): cache created
// with an empty active set (as app.go does), request with an empty index list, then an explicit request.
// Not part of the check; run with -run TestProbeEmptyActive -v.
func TestProbeEmptyActive(t *testing.T) {
	var calls [][]eth2p0.ValidatorIndex
	c := eth2wrap.NewDutiesCache(allClient{calls: &calls}, []eth2p0.ValidatorIndex{})
	r1, _ := c.ProposerDutiesCache(context.Background(), 1, nil)
	r2, _ := c.ProposerDutiesCache(context.Background(), 1, []eth2p0.ValidatorIndex{2})
	r3, _ := c.ProposerDutiesCache(context.Background(), 1, []eth2p0.ValidatorIndex{2})
	t.Logf("empty list -> %d duties; [2] -> %d duties; [2] again -> %d duties; beacon calls %v", len(r1.Duties), len(r2.Duties), len(r3.Duties), calls)
}
