// Correspondence harness for C10: drives every handler that takes in partial signatures of the real
// validatorapi.Component (secure mode) and the real parsigex handler (parsigex.NewParSigEx with
// parsigex.NewEth2Verifier and core.NewDutyGater, reached through the stream handler it registers
// on a stub host) with a real lock-like set of public shares and real key shares.  For every call
// it records the abstract description of what was submitted (derived from the final concrete
// request by oracles that are independent of the code under test: own signing-root computation,
// the table of signatures the harness made, the validator tables) and what was observed (error
// class, what each subscriber received and whether that verifies under the lock's public share).
package gate

import (
	"bytes"
	"context"
	"encoding/hex"
	"encoding/json"
	"errors"
	"fmt"
	"math/rand"
	"os"
	"path/filepath"
	"reflect"
	"sort"
	"strconv"
	"strings"
	"testing"
	"time"

	"github.com/OffchainLabs/go-bitfield"
	eth2api "github.com/attestantio/go-eth2-client/api"
	eth2v1 "github.com/attestantio/go-eth2-client/api/v1"
	eth2deneb "github.com/attestantio/go-eth2-client/api/v1/deneb"
	eth2electra "github.com/attestantio/go-eth2-client/api/v1/electra"
	eth2fulu "github.com/attestantio/go-eth2-client/api/v1/fulu"
	eth2spec "github.com/attestantio/go-eth2-client/spec"
	"github.com/attestantio/go-eth2-client/spec/altair"
	eth2p0 "github.com/attestantio/go-eth2-client/spec/phase0"
	"github.com/libp2p/go-libp2p/core/host"
	"github.com/libp2p/go-libp2p/core/network"
	"github.com/libp2p/go-libp2p/core/peer"
	"github.com/libp2p/go-libp2p/core/protocol"
	"github.com/libp2p/go-msgio/pbio"

	"github.com/obolnetwork/charon/core"
	pbv1 "github.com/obolnetwork/charon/core/corepb/v1"
	"github.com/obolnetwork/charon/core/parsigex"
	"github.com/obolnetwork/charon/core/validatorapi"
	"github.com/obolnetwork/charon/eth2util/signing"
	"github.com/obolnetwork/charon/p2p"
	"github.com/obolnetwork/charon/tbls"
	"github.com/obolnetwork/charon/testutil"
	"github.com/obolnetwork/charon/testutil/beaconmock"

	"verif/harness/hx"
	"verif/harness/sigagg/dutygen"
)

const (
	nShares   = 4
	threshold = 3
	selfIdx   = 2
	outsider  = 3     // validator known to the beacon node but not part of the cluster lock
	unknownV  = 99999 // label id for a public key / validator nobody knows
	collA     = 4     // two validators of the lock whose abbreviated public keys (PubKey.String()) collide
	collB     = 5
	crowd0    = 6 // first of crowdN further validators of the lock
	crowdN    = 200
)

type valInfo struct {
	id        int
	vidx      eth2p0.ValidatorIndex
	sk        tbls.PrivateKey
	group     tbls.PublicKey
	shares    map[int]tbls.PrivateKey
	pubshares map[int]tbls.PublicKey
	pk        core.PubKey
}

// ItemSpec describes how one submitted partial is built.
type ItemSpec struct {
	Val     int    `json:"val"`      // validator the object is built for
	SigKind string `json:"sig_kind"` // genuine | zero | random | inf | foreign
	SigVal  int    `json:"sig_val"`  // validator whose share signs
	SigIdx  int    `json:"sig_idx"`  // share that signs
	Variant int    `json:"variant"`  // dutygen.Variant of the signing root
	Mut     string `json:"mut"`      // leaf path altered after (or, with Resign, before) signing
	Resign  bool   `json:"resign"`
	Idx     int    `json:"idx"`     // peer: claimed share index
	KeyOf   int    `json:"key_of"`  // peer: validator whose public key the entry is filed under (-1: random key)
	VIdxTo  int    `json:"vidx_to"` // validator API: overwrite the validator index field with this (0: keep)
	// ForkVersion (8 hex digits), when set: the signature is made over the object root wrapped with
	// compute_domain(type, this fork version, genesis validators root), whatever epoch the object names.
	ForkVersion string `json:"fork_version"`
	// DupOf > 0: the very same object as item DupOf (1-based, earlier in the request) is submitted again.
	DupOf int `json:"dup_of"`
}

// CaseSpec is one call.
type CaseSpec struct {
	ID       int        `json:"id"`
	Entrance string     `json:"entrance"` // vapi | peer
	Endpoint string     `json:"endpoint"`
	Gen      string     `json:"gen"`
	Class    string     `json:"class"` // alteration class
	Items    []ItemSpec `json:"items"`
	// peer
	DutyType int `json:"duty_type"` // 0: the generator's
	SlotAdd  int `json:"slot_add"`  // epochs added to the duty slot of the message (gater)
	// DutySlot, when set, is the absolute slot (decimal, up to 2^64-1) of the peer message's duty;
	// the object inside stays valid for its own epoch.
	DutySlot string `json:"duty_slot"`
	// Boundary, when > 0, is the first epoch of a fork: the object is placed so that its own signing
	// epoch is Boundary (attestations: slot in the last slot of epoch Boundary-1, target epoch Boundary);
	// item variant 3 then signs with the domain of the fork active at Boundary-1 (builder
	// registrations, which sign with the genesis domain: with the fork active at Boundary).
	Boundary uint64 `json:"boundary"`
	// EpochSet: the objects are made for epoch AtEpoch (also 0), no fork straddling.
	EpochSet bool   `json:"epoch_set"`
	AtEpoch  uint64 `json:"at_epoch"`
	// Fault injection: the FaultAt-th beacon-node lookup (spec, domain, genesis domain, fork schedule)
	// the component makes while handling this call fails with FaultKind: deadline | canceled |
	// generic | block (hangs until the caller's context ends; the harness cancels the request).
	FaultAt   int    `json:"fault_at"`
	FaultKind string `json:"fault_kind"`
	// Prime: the unaltered, validly signed object is submitted first through the same entrance (and
	// let in); the case proper then re-submits it altered with the very same signature bytes.
	Prime bool `json:"prime"`
	// Replay only: the components are long-lived, so a case is replayed after re-running the history
	// that preceded it in the run that found it (same seed and enumeration parameters).
	HistSeed   int64 `json:"hist_seed"`
	HistLeaves int   `json:"hist_leaves"`
	HistElems  int   `json:"hist_elems"`
}

// Deliv is one partial observed at a subscriber.
type Deliv struct {
	V     int  `json:"v"`
	Idx   int  `json:"idx"`
	Root  int  `json:"root"`
	Valid bool `json:"valid"`
}

// Case = spec + observation.
type Case struct {
	CaseSpec
	Err        string    `json:"err"`
	ErrText    string    `json:"err_text"`
	Calls      [][]Deliv `json:"calls"`
	Items2     []string  `json:"abstract_items"`
	Label      string    `json:"label"`
	Expect     string    `json:"expect"` // in | reject, as the alteration class intends (documentation only)
	NonTrivial bool      `json:"nontrivial"`
	Fault      bool      `json:"fault"` // the scripted lookup fault fired during the call
	Skipped    string    `json:"skipped,omitempty"`
}

type env struct {
	t        *testing.T
	ctx      context.Context
	bmock    beaconmock.Mock
	spe      uint64
	vals     []*valInfo
	byPK     map[core.PubKey]int
	byVIdx   map[eth2p0.ValidatorIndex]int
	foreign  tbls.PrivateKey
	gens     map[string]dutygen.Gen
	allGens  []dutygen.Gen
	r        *rand.Rand
	lockCoq  string
	versions []eth2p0.Version // fork versions of the beacon mock's schedule
	baseSlot uint64
	// per case
	roots        map[[32]byte]int
	sigs         map[tbls.Signature]string
	others       map[tbls.Signature]int
	proposer     map[uint64]int
	agreed       map[uint64]*eth2api.VersionedProposal
	agreedSigned map[uint64]*eth2api.VersionedSignedProposal
	attSlots     map[uint64]bool
	whoLog       []int // validator ids the environment callbacks resolved, in call order (-1: refused)
	subs         [][]Deliv
	curGen       dutygen.Gen
	boundary     uint64
	genesis      time.Time
	slotDur      time.Duration
	// fault injection
	faultArmed bool
	faultFired bool
	faultAt    int
	faultKind  string
	lookups    int
	cancelReq  context.CancelFunc
	reqCtx     context.Context
	deferMut   bool
	fhBlock    *fakeHost // a second parsigex with a short receive timeout, for lookups that hang
	// components
	vapi    *validatorapi.Component
	fh      *fakeHost
	gateT   time.Time
	gater   core.DutyGaterFunc
	gateLog []bool
	verLog  []error
	psx     *parsigex.ParSigEx
}

// ---- stub libp2p host: only captures the stream handler parsigex registers

type fakeHost struct {
	host.Host
	handler network.StreamHandler
}

func (h *fakeHost) SetStreamHandler(_ protocol.ID, f network.StreamHandler) { h.handler = f }
func (h *fakeHost) SetStreamHandlerMatch(_ protocol.ID, _ func(protocol.ID) bool, f network.StreamHandler) {
	h.handler = f
}

type fakeConn struct {
	network.Conn
	remote peer.ID
}

func (c fakeConn) RemotePeer() peer.ID { return c.remote }

type fakeStream struct {
	network.Stream
	r    *bytes.Reader
	w    bytes.Buffer
	conn fakeConn
	pid  protocol.ID
}

func (s *fakeStream) Read(p []byte) (int, error)       { return s.r.Read(p) }
func (s *fakeStream) Write(p []byte) (int, error)      { return s.w.Write(p) }
func (s *fakeStream) Close() error                     { return nil }
func (s *fakeStream) Reset() error                     { return nil }
func (s *fakeStream) SetReadDeadline(time.Time) error  { return nil }
func (s *fakeStream) SetWriteDeadline(time.Time) error { return nil }
func (s *fakeStream) SetDeadline(time.Time) error      { return nil }
func (s *fakeStream) Protocol() protocol.ID            { return s.pid }
func (s *fakeStream) Conn() network.Conn               { return s.conn }

// ---- fault injection at the beacon-node lookups the components verify with

// faultClient is the eth2 client handed to validatorapi.NewComponent and parsigex.NewEth2Verifier:
// the beacon mock, except that the lookups signature verification depends on can be made to fail.
type faultClient struct {
	beaconmock.Mock
	e *env
}

func (f faultClient) Spec(ctx context.Context, opts *eth2api.SpecOpts) (*eth2api.Response[map[string]any], error) {
	if err := f.e.lookup(ctx); err != nil {
		return nil, err
	}

	return f.Mock.Spec(ctx, opts)
}

func (f faultClient) Domain(ctx context.Context, dt eth2p0.DomainType, epoch eth2p0.Epoch) (eth2p0.Domain, error) {
	if err := f.e.lookup(ctx); err != nil {
		return eth2p0.Domain{}, err
	}

	return f.Mock.Domain(ctx, dt, epoch)
}

func (f faultClient) GenesisDomain(ctx context.Context, dt eth2p0.DomainType) (eth2p0.Domain, error) {
	if err := f.e.lookup(ctx); err != nil {
		return eth2p0.Domain{}, err
	}

	return f.Mock.GenesisDomain(ctx, dt)
}

func (f faultClient) ForkSchedule(ctx context.Context, opts *eth2api.ForkScheduleOpts) (*eth2api.Response[[]*eth2p0.Fork], error) {
	if err := f.e.lookup(ctx); err != nil {
		return nil, err
	}

	return f.Mock.ForkSchedule(ctx, opts)
}

// lookup is called at every such lookup a component makes; the faultAt-th one of the armed call fails.
func (e *env) lookup(ctx context.Context) error {
	if !e.faultArmed {
		return nil
	}
	e.lookups++
	if e.lookups != e.faultAt {
		return nil
	}
	e.faultFired = true
	switch e.faultKind {
	case "deadline":
		return context.DeadlineExceeded
	case "canceled":
		return context.Canceled
	case "block": // the lookup hangs until the caller gives up
		if e.cancelReq != nil {
			e.cancelReq()
		}
		select {
		case <-ctx.Done():
			return ctx.Err()
		case <-time.After(3 * time.Second):
			return context.DeadlineExceeded
		}
	}

	return errors.New("verif-env-fault: beacon node unavailable")
}

// collidingKeys returns two validator secret keys whose public keys share core.PubKey.String().
// The search is seeded from VERIF_SEED, bounded, and its result cached under VERIF_CACHE.
func collidingKeys(t *testing.T) (tbls.PrivateKey, tbls.PrivateKey) {
	t.Helper()
	dir := os.Getenv("VERIF_CACHE")
	if dir == "" {
		dir = os.TempDir()
	}
	path := filepath.Join(dir, fmt.Sprintf("gate_collision_seed%d.json", hx.Seed()))
	var cached [2]string
	if b, err := os.ReadFile(path); err == nil && json.Unmarshal(b, &cached) == nil {
		ba, erra := hex.DecodeString(cached[0])
		bb, errb := hex.DecodeString(cached[1])
		if erra == nil && errb == nil && len(ba) == 32 && len(bb) == 32 {
			return tbls.PrivateKey(ba), tbls.PrivateKey(bb)
		}
	}
	r := rand.New(rand.NewSource(hx.Seed()*7919 + 17)) //nolint:gosec
	seen := map[string]tbls.PrivateKey{}
	for i := 0; i < 1<<19; i++ {
		sk, err := tbls.GenerateInsecureKey(t, r)
		must(t, err)
		pub, err := tbls.SecretToPublicKey(sk)
		must(t, err)
		abbr := core.PubKeyFrom48Bytes(pub).String()
		if prev, ok := seen[abbr]; ok && prev != sk {
			b, _ := json.Marshal([2]string{hex.EncodeToString(prev[:]), hex.EncodeToString(sk[:])})
			_ = os.WriteFile(path, b, 0o644)

			return prev, sk
		}
		seen[abbr] = sk
	}
	t.Fatal("no pair of validator keys with colliding abbreviations found within the bound")

	return tbls.PrivateKey{}, tbls.PrivateKey{}
}

// ---- environment

func newEnv(t *testing.T) *env {
	t.Helper()
	e := &env{t: t, ctx: context.Background(), r: hx.Rand(), gens: map[string]dutygen.Gen{}, byPK: map[core.PubKey]int{}, byVIdx: map[eth2p0.ValidatorIndex]int{}}
	kr := rand.New(rand.NewSource(4242)) //nolint:gosec
	valset := beaconmock.ValidatorSet{}
	pubshares := map[core.PubKey]map[int]tbls.PublicKey{}
	var lock []string
	addVal := func(id int, sk tbls.PrivateKey, inLock bool) {
		pk, err := tbls.SecretToPublicKey(sk)
		must(t, err)
		shares, err := tbls.ThresholdSplitInsecure(t, sk, nShares, threshold, kr)
		must(t, err)
		v := &valInfo{id: id, vidx: eth2p0.ValidatorIndex(100 + id), sk: sk, group: pk, shares: shares, pubshares: map[int]tbls.PublicKey{}, pk: core.PubKeyFrom48Bytes(pk)}
		var idxs []string
		for i := 1; i <= nShares; i++ {
			v.pubshares[i], err = tbls.SecretToPublicKey(shares[i])
			must(t, err)
			idxs = append(idxs, fmt.Sprintf("%d%%Z", i))
		}
		e.vals = append(e.vals, v)
		e.byPK[v.pk] = id
		e.byVIdx[v.vidx] = id
		bv := testutil.RandomValidator(t)
		bv.Index = v.vidx
		bv.Validator.PublicKey = eth2p0.BLSPubKey(pk)
		bv.Status = eth2v1.ValidatorStateActiveOngoing
		valset[v.vidx] = bv
		if inLock {
			pubshares[v.pk] = v.pubshares
			lock = append(lock, fmt.Sprintf("(%d, [%s])", id, strings.Join(idxs, "; ")))
		}
	}
	for id := 0; id <= outsider; id++ {
		sk, err := tbls.GenerateInsecureKey(t, kr)
		must(t, err)
		addVal(id, sk, id != outsider)
	}
	// validators collA and collB: two validators of the lock whose public keys have the same log
	// abbreviation (core.PubKey.String(): 3 leading and 3 trailing hex digits)
	ska, skb := collidingKeys(t)
	addVal(collA, ska, true)
	addVal(collB, skb, true)
	if e.vals[collA].pk.String() != e.vals[collB].pk.String() || e.vals[collA].pk == e.vals[collB].pk {
		t.Fatalf("collision pair does not collide: %s %s", e.vals[collA].pk, e.vals[collB].pk)
	}
	// ... and a crowd of further validators of the lock, so that the components' tables are built for a large cluster
	for id := crowd0; id < crowd0+crowdN; id++ {
		sk, err := tbls.GenerateInsecureKey(t, kr)
		must(t, err)
		addVal(id, sk, true)
	}
	e.lockCoq = "[" + strings.Join(lock, "; ") + "]"
	var err error
	e.foreign, err = tbls.GenerateInsecureKey(t, kr)
	must(t, err)
	e.bmock, err = beaconmock.New(t.Context(), beaconmock.WithValidatorSet(valset))
	must(t, err)
	e.spe, err = e.bmock.SlotsPerEpoch(e.ctx)
	must(t, err)
	e.baseSlot = 7*e.spe + 3
	e.versions, err = dutygen.ForkVersions(e.ctx, e.bmock)
	must(t, err)
	for _, g := range dutygen.Gens(true) {
		e.gens[g.Name] = g
		e.allGens = append(e.allGens, g)
	}

	// validator API, secure mode
	fc := faultClient{Mock: e.bmock, e: e}
	e.reqCtx = e.ctx
	e.vapi, err = validatorapi.NewComponent(fc, pubshares, selfIdx, nil, true, 30000000)
	must(t, err)
	refuse := errors.New("verif-env-notfound")
	e.vapi.RegisterPubKeyByAttestation(func(_ context.Context, slot, commIdx, valIdx uint64) (core.PubKey, error) {
		id, ok := e.byVIdx[eth2p0.ValidatorIndex(valIdx)]
		if !ok || !e.attSlots[slot] || commIdx != uint64(10+id) {
			e.whoLog = append(e.whoLog, -1)
			return "", refuse
		}
		e.whoLog = append(e.whoLog, id)

		return e.vals[id].pk, nil
	})
	e.vapi.RegisterGetDutyDefinition(func(_ context.Context, duty core.Duty) (core.DutyDefinitionSet, error) {
		switch duty.Type {
		case core.DutyProposer:
			id, ok := e.proposer[duty.Slot]
			if !ok {
				e.whoLog = append(e.whoLog, -1)
				return nil, refuse
			}
			e.whoLog = append(e.whoLog, id)

			return core.DutyDefinitionSet{e.vals[id].pk: core.NewProposerDefinition(&eth2v1.ProposerDuty{PubKey: eth2p0.BLSPubKey(e.vals[id].group), Slot: eth2p0.Slot(duty.Slot), ValidatorIndex: e.vals[id].vidx})}, nil
		case core.DutyAttester:
			if !e.attSlots[duty.Slot] {
				return nil, refuse
			}
			set := core.DutyDefinitionSet{}
			for _, v := range e.vals {
				if v.id >= crowd0 {
					continue // the crowd has no place in an 8-member committee
				}
				set[v.pk] = core.NewAttesterDefinition(&eth2v1.AttesterDuty{
					PubKey: eth2p0.BLSPubKey(v.group), Slot: eth2p0.Slot(duty.Slot), ValidatorIndex: v.vidx,
					CommitteeIndex: eth2p0.CommitteeIndex(10 + v.id), CommitteeLength: 8, CommitteesAtSlot: 16, ValidatorCommitteeIndex: uint64(v.id),
				})
			}

			return set, nil
		}

		return nil, refuse
	})
	e.vapi.RegisterAwaitProposal(func(_ context.Context, slot uint64) (*eth2api.VersionedProposal, error) {
		p, ok := e.agreed[slot]
		if !ok {
			return nil, refuse
		}
		cp := *p

		return &cp, nil
	})
	e.vapi.RegisterAwaitAggSigDB(func(_ context.Context, duty core.Duty, _ core.PubKey, _ core.SubcommitteeIndex) (core.SignedData, error) {
		if duty.Type == core.DutyPrepareSyncContribution {
			return core.NewSyncCommitteeSelection(testutil.RandomSyncCommitteeSelection()), nil
		}

		return core.NewBeaconCommitteeSelection(testutil.RandomBeaconCommitteeSelection()), nil
	})
	for si := 0; si < 2; si++ {
		e.vapi.Subscribe(func(_ context.Context, _ core.Duty, set core.ParSignedDataSet) error {
			e.subs[si] = append(e.subs[si], e.observe(set)...)
			return nil
		})
	}

	// parsigex with the real verifier and the real gater
	genesis, err := e.bmock.Genesis(e.ctx, &eth2api.GenesisOpts{})
	must(t, err)
	sd, err := e.bmock.SlotDuration(e.ctx)
	must(t, err)
	e.gater, err = core.NewDutyGater(e.ctx, e.bmock, core.WithDutyGaterForT(t, func() time.Time { return e.gateT }, 2))
	must(t, err)
	e.genesis, e.slotDur = genesis.Data.GenesisTime, sd
	e.gateT = e.genesis.Add(time.Duration(e.baseSlot) * sd)
	verify, err := parsigex.NewEth2Verifier(fc, pubshares)
	must(t, err)
	peers := []peer.ID{"peer-a", "peer-b", "peer-c", "peer-d"}
	mkPsx := func(fh *fakeHost, opts ...p2p.SendRecvOption) *parsigex.ParSigEx {
		px := parsigex.NewParSigEx(fh, p2p.Send, selfIdx-1, peers,
			func(ctx context.Context, p peer.ID, d core.Duty, pk core.PubKey, data core.ParSignedData) error {
				err := verify(ctx, p, d, pk, data)
				e.verLog = append(e.verLog, err)
				return err
			},
			func(d core.Duty) bool {
				ok := e.gater(d)
				e.gateLog = append(e.gateLog, ok)
				return ok
			}, opts...)
		for si := 0; si < 2; si++ {
			px.Subscribe(func(_ context.Context, _ core.Duty, set core.ParSignedDataSet) error {
				e.subs[si] = append(e.subs[si], e.observe(set)...)
				return nil
			})
		}

		return px
	}
	e.fh, e.fhBlock = &fakeHost{}, &fakeHost{}
	e.psx = mkPsx(e.fh)
	_ = mkPsx(e.fhBlock, p2p.WithReceiveTimeout(50*time.Millisecond)) // same verifier and gater; its handler context expires quickly
	if e.fh.handler == nil {
		t.Fatal("parsigex did not register a stream handler")
	}

	return e
}

func must(t *testing.T, err error) {
	t.Helper()
	if err != nil {
		t.Fatal(err)
	}
}

func (e *env) resetCase() {
	e.roots = map[[32]byte]int{}
	e.sigs = map[tbls.Signature]string{}
	e.others = map[tbls.Signature]int{}
	e.proposer = map[uint64]int{}
	e.agreed = map[uint64]*eth2api.VersionedProposal{}
	e.agreedSigned = map[uint64]*eth2api.VersionedSignedProposal{}
	e.attSlots = map[uint64]bool{}
	e.whoLog = nil
	e.subs = [][]Deliv{nil, nil}
	e.gateLog, e.verLog = nil, nil
}

func (e *env) rootID(r [32]byte) int {
	if id, ok := e.roots[r]; ok {
		return id
	}
	id := len(e.roots) + 1
	e.roots[r] = id

	return id
}

// ownRoot computes the signing root of a raw object (nil on failure: unreadable object).
func (e *env) ownRoot(g dutygen.Gen, raw any, variant int) (root [32]byte, ok bool) {
	defer func() {
		if r := recover(); r != nil {
			ok = false
		}
	}()
	dom, ep, oroot, err := g.Parts(raw, e.spe)
	if err != nil {
		return root, false
	}
	if variant == 3 || variant == 4 { // 3: neighbouring fork; 4: a far-away fork (the latest one, or an early one when the object is late)
		fe := ep - 1
		if dom == signing.DomainApplicationBuilder {
			fe = eth2p0.Epoch(e.boundary)
		}
		if variant == 4 {
			fe = 60000
			if ep >= 50688 {
				fe = 100
			}
		}
		root, err = dutygen.SigningRootForkAt(e.ctx, e.bmock, dom, oroot, fe)

		return root, err == nil
	}
	root, err = dutygen.SigningRoot(e.ctx, e.bmock, dom, ep, oroot, dutygen.Variant(variant))

	return root, err == nil
}

// versionRoot wraps the object root of raw with the domain of an explicit fork version.
func (e *env) versionRoot(g dutygen.Gen, raw any, hexv string) (root [32]byte, ok bool) {
	defer func() {
		if r := recover(); r != nil {
			ok = false
		}
	}()
	dom, _, oroot, err := g.Parts(raw, e.spe)
	if err != nil {
		return root, false
	}
	b, err := hex.DecodeString(hexv)
	if err != nil || len(b) != 4 {
		return root, false
	}
	root, err = dutygen.SigningRootForkVersion(e.ctx, e.bmock, dom, oroot, eth2p0.Version(b))

	return root, err == nil
}

// ownVersion is the fork version the consensus spec signs an object of generator g at an epoch with.
func (e *env) ownVersion(g dutygen.Gen, epoch uint64) string {
	if g.Duty == core.DutyBuilderRegistration {
		return hex.EncodeToString(e.versions[0][:]) // genesis fork version
	}
	v, err := dutygen.VersionAt(e.ctx, e.bmock, eth2p0.Epoch(epoch))
	must(e.t, err)

	return hex.EncodeToString(v[:])
}

// edgeEpochs: epochs 0 and 1, and the last epoch before / the first epoch of every fork of the schedule.
func (e *env) edgeEpochs() []uint64 {
	out := []uint64{0, 1}
	for _, b := range forkBoundaries {
		out = append(out, b-1, b)
	}

	return out
}

// caseSlot is the slot the objects of a case are made for.
func (e *env) caseSlot(spec CaseSpec) uint64 {
	e.boundary = spec.Boundary
	if spec.Boundary > 0 {
		return spec.Boundary * e.spe
	}
	if spec.EpochSet {
		return spec.AtEpoch*e.spe + 3
	}

	return e.baseSlot
}

func (e *env) sigTerm(sig tbls.Signature) string {
	if t, ok := e.sigs[sig]; ok {
		return t
	}
	if sig == (tbls.Signature{}) {
		return "GZero"
	}
	k, ok := e.others[sig]
	if !ok {
		k = len(e.others) + 1
		e.others[sig] = k
	}

	return fmt.Sprintf("(GOther %d)", k)
}

func coqZ(i int) string {
	if i < 0 {
		return fmt.Sprintf("(%d)%%Z", i)
	}

	return fmt.Sprintf("%d%%Z", i)
}

// makeSig produces the signature bytes for an item spec over the given root and registers its term.
func (e *env) makeSig(it ItemSpec, root [32]byte) tbls.Signature {
	switch it.SigKind {
	case "zero":
		return tbls.Signature{}
	case "inf":
		s := tbls.Signature{}
		s[0] = 0xc0

		return s
	case "random":
		var s tbls.Signature
		_, _ = e.r.Read(s[:])

		return s
	case "foreign":
		s, err := tbls.Sign(e.foreign, root[:])
		must(e.t, err)

		return s
	}
	sk, ok := e.vals[it.SigVal].shares[it.SigIdx]
	if !ok {
		e.t.Fatalf("no share %d", it.SigIdx)
	}
	s, err := tbls.Sign(sk, root[:])
	must(e.t, err)
	e.sigs[s] = fmt.Sprintf("(GSig %d %s %d)", it.SigVal, coqZ(it.SigIdx), e.rootID(root))

	return s
}

// observe turns a set handed to a subscriber into observations.
func (e *env) observe(set core.ParSignedDataSet) []Deliv {
	var out []Deliv
	for pk, psd := range set {
		d := Deliv{V: unknownV, Idx: psd.ShareIdx}
		if id, ok := e.byPK[pk]; ok {
			d.V = id
		}
		var root [32]byte
		found := false
		for _, g := range append([]dutygen.Gen{e.curGen}, e.allGens...) {
			if g.Unwrap == nil {
				continue
			}
			if raw := g.Unwrap(psd.SignedData); raw != nil {
				if r, ok := e.ownRoot(g, raw, 0); ok {
					root, found = r, true
				}

				break
			}
		}
		if found {
			d.Root = e.rootID(root)
			if d.V != unknownV {
				if ps, ok := e.vals[d.V].pubshares[d.Idx]; ok && len(psd.Signature()) == 96 {
					d.Valid = tbls.Verify(ps, root[:], tbls.Signature(psd.Signature())) == nil
				}
			}
		}
		out = append(out, d)
	}
	sort.Slice(out, func(i, j int) bool { return out[i].V < out[j].V })

	return out
}

// ---- leaf fields by reflection

// listElems bounds how many elements of each list are walked (VERIF_ELEMS; 2 in the quick tier).
var listElems = hx.IntEnv("VERIF_ELEMS", 2)

type leaf struct {
	path string
	v    reflect.Value
}

func leaves(v reflect.Value, path string, out *[]leaf) {
	switch v.Kind() {
	case reflect.Ptr:
		if v.IsNil() || v.Type().String() == "*big.Int" {
			return
		}
		leaves(v.Elem(), path, out)
	case reflect.Struct:
		for i := 0; i < v.NumField(); i++ {
			f := v.Type().Field(i)
			if !f.IsExported() {
				continue
			}
			leaves(v.Field(i), path+"."+f.Name, out)
		}
	case reflect.Slice, reflect.Array:
		if v.Type().Elem().Kind() == reflect.Uint8 {
			if v.Len() > 0 {
				*out = append(*out, leaf{path, v})
			}

			return
		}
		for i := 0; i < v.Len() && i < listElems; i++ { // the first listElems elements of every list
			leaves(v.Index(i), fmt.Sprintf("%s[%d]", path, i), out)
		}
	case reflect.Uint8, reflect.Uint16, reflect.Uint32, reflect.Uint64, reflect.Uint, reflect.Int, reflect.Int32, reflect.Int64, reflect.Bool, reflect.String:
		*out = append(*out, leaf{path, v})
	}
}

func leafPaths(raw any) []string {
	var ls []leaf
	leaves(reflect.ValueOf(raw), "", &ls)
	var out []string
	for _, l := range ls {
		if l.v.CanSet() || (l.v.Kind() == reflect.Slice) {
			out = append(out, l.path)
		}
	}

	return out
}

func mutateLeaf(raw any, path string) bool {
	var ls []leaf
	leaves(reflect.ValueOf(raw), "", &ls)
	for _, l := range ls {
		if l.path != path {
			continue
		}
		v := l.v
		switch v.Kind() {
		case reflect.Slice, reflect.Array:
			b := v.Index(0)
			b.SetUint(b.Uint() ^ 0x01)
		case reflect.Bool:
			v.SetBool(!v.Bool())
		case reflect.String:
			v.SetString(v.String() + "x")
		case reflect.Int, reflect.Int32, reflect.Int64:
			v.SetInt(v.Int() + 1)
		default:
			v.SetUint(v.Uint() + 1)
		}

		return true
	}

	return false
}

// ---- validator API endpoints

type endpoint struct {
	name   string
	gens   []string
	family string // att | proposer | index | randao
	multi  bool
	submit func(e *env, raws []any) error
}

func prefixGens(e *env, prefix string) []string {
	var out []string
	for _, g := range e.allGens {
		if strings.HasPrefix(g.Name, prefix) {
			out = append(out, g.Name)
		}
	}

	return out
}

func (e *env) endpoints() []endpoint {
	return []endpoint{
		{name: "SubmitAttestations", gens: prefixGens(e, "attestation/"), family: "att", multi: true, submit: func(e *env, raws []any) error {
			var atts []*eth2spec.VersionedAttestation
			for _, r := range raws {
				atts = append(atts, r.(*eth2spec.VersionedAttestation))
			}

			return e.vapi.SubmitAttestations(e.reqCtx, &eth2api.SubmitAttestationsOpts{Attestations: atts})
		}},
		{name: "Proposal(randao)", gens: []string{"randao"}, family: "randao", submit: func(e *env, raws []any) error {
			r := raws[0].(*dutygen.Randao)
			_, err := e.vapi.Proposal(e.reqCtx, &eth2api.ProposalOpts{Slot: eth2p0.Slot(uint64(r.Epoch)*e.spe + e.baseSlot%e.spe), RandaoReveal: r.Signature})

			return err
		}},
		{name: "SubmitProposal", gens: prefixGens(e, "proposal/"), family: "proposer", submit: func(e *env, raws []any) error {
			return e.vapi.SubmitProposal(e.reqCtx, &eth2api.SubmitProposalOpts{Proposal: raws[0].(*eth2api.VersionedSignedProposal)})
		}},
		{name: "SubmitBlindedProposal", gens: prefixGens(e, "blinded_proposal/"), family: "proposer", submit: func(e *env, raws []any) error {
			p := raws[0].(*eth2api.VersionedSignedProposal)
			return e.vapi.SubmitBlindedProposal(e.reqCtx, &eth2api.SubmitBlindedProposalOpts{Proposal: &eth2api.VersionedSignedBlindedProposal{
				Version: p.Version, Bellatrix: p.BellatrixBlinded, Capella: p.CapellaBlinded, Deneb: p.DenebBlinded, Electra: p.ElectraBlinded, Fulu: p.FuluBlinded,
			}})
		}},
		{name: "SubmitVoluntaryExit", gens: []string{"voluntary_exit"}, family: "index", submit: func(e *env, raws []any) error {
			return e.vapi.SubmitVoluntaryExit(e.reqCtx, raws[0].(*eth2p0.SignedVoluntaryExit))
		}},
		{name: "BeaconCommitteeSelections", gens: []string{"beacon_committee_selection"}, family: "index", multi: true, submit: func(e *env, raws []any) error {
			var xs []*eth2v1.BeaconCommitteeSelection
			for _, r := range raws {
				xs = append(xs, r.(*eth2v1.BeaconCommitteeSelection))
			}
			_, err := e.vapi.BeaconCommitteeSelections(e.reqCtx, &eth2api.BeaconCommitteeSelectionsOpts{Selections: xs})

			return err
		}},
		{name: "SubmitAggregateAttestations", gens: prefixGens(e, "aggregate_and_proof/"), family: "index", multi: true, submit: func(e *env, raws []any) error {
			var xs []*eth2spec.VersionedSignedAggregateAndProof
			for _, r := range raws {
				xs = append(xs, r.(*eth2spec.VersionedSignedAggregateAndProof))
			}

			return e.vapi.SubmitAggregateAttestations(e.reqCtx, &eth2api.SubmitAggregateAttestationsOpts{SignedAggregateAndProofs: xs})
		}},
		{name: "SubmitSyncCommitteeMessages", gens: []string{"sync_message"}, family: "index", multi: true, submit: func(e *env, raws []any) error {
			var xs []*altair.SyncCommitteeMessage
			for _, r := range raws {
				xs = append(xs, r.(*altair.SyncCommitteeMessage))
			}

			return e.vapi.SubmitSyncCommitteeMessages(e.reqCtx, xs)
		}},
		{name: "SubmitSyncCommitteeContributions", gens: []string{"sync_contribution"}, family: "index", multi: true, submit: func(e *env, raws []any) error {
			var xs []*altair.SignedContributionAndProof
			for _, r := range raws {
				xs = append(xs, r.(*altair.SignedContributionAndProof))
			}

			return e.vapi.SubmitSyncCommitteeContributions(e.reqCtx, xs)
		}},
		{name: "SyncCommitteeSelections", gens: []string{"sync_committee_selection"}, family: "index", multi: true, submit: func(e *env, raws []any) error {
			var xs []*eth2v1.SyncCommitteeSelection
			for _, r := range raws {
				xs = append(xs, r.(*eth2v1.SyncCommitteeSelection))
			}
			_, err := e.vapi.SyncCommitteeSelections(e.reqCtx, &eth2api.SyncCommitteeSelectionsOpts{Selections: xs})

			return err
		}},
	}
}

// innerSelection returns pointers to the inner selection proof of aggregates/contributions and
// the signing-root inputs of that proof (nil if the type has none).
func innerSelection(raw any, spe uint64) (proof *eth2p0.BLSSignature, dom signing.DomainName, ep eth2p0.Epoch, root eth2p0.Root, ok bool) {
	defer func() {
		if r := recover(); r != nil {
			ok = false
		}
	}()
	switch x := raw.(type) {
	case *eth2spec.VersionedSignedAggregateAndProof:
		slot, err := x.Slot()
		if err != nil {
			return nil, "", 0, root, false
		}
		var r eth2p0.Root
		r[0], r[1], r[2], r[3], r[4], r[5], r[6], r[7] = byte(slot), byte(slot>>8), byte(slot>>16), byte(slot>>24), byte(slot>>32), byte(slot>>40), byte(slot>>48), byte(slot>>56)
		var p *eth2p0.BLSSignature
		switch {
		case x.Phase0 != nil:
			p = &x.Phase0.Message.SelectionProof
		case x.Altair != nil:
			p = &x.Altair.Message.SelectionProof
		case x.Bellatrix != nil:
			p = &x.Bellatrix.Message.SelectionProof
		case x.Capella != nil:
			p = &x.Capella.Message.SelectionProof
		case x.Deneb != nil:
			p = &x.Deneb.Message.SelectionProof
		case x.Electra != nil:
			p = &x.Electra.Message.SelectionProof
		case x.Fulu != nil:
			p = &x.Fulu.Message.SelectionProof
		}

		return p, signing.DomainSelectionProof, eth2p0.Epoch(uint64(slot) / spe), r, p != nil
	case *altair.SignedContributionAndProof:
		c := x.Message.Contribution
		r, err := (&altair.SyncAggregatorSelectionData{Slot: c.Slot, SubcommitteeIndex: c.SubcommitteeIndex}).HashTreeRoot()

		return &x.Message.SelectionProof, signing.DomainSyncCommitteeSelectionProof, eth2p0.Epoch(uint64(c.Slot) / spe), r, err == nil
	}

	return nil, "", 0, root, false
}

// unsignedOf returns the unsigned proposal the cluster "agreed on", deep-copied from a signed one.
func unsignedOf(t *testing.T, p *eth2api.VersionedSignedProposal) (*eth2api.VersionedProposal, *eth2api.VersionedSignedProposal) {
	t.Helper()
	w, err := core.NewVersionedSignedProposal(p)
	must(t, err)
	cl, err := w.Clone()
	must(t, err)
	c := cl.(core.VersionedSignedProposal).VersionedSignedProposal
	u := &eth2api.VersionedProposal{Version: c.Version, Blinded: c.Blinded}
	switch {
	case c.Bellatrix != nil:
		u.Bellatrix = c.Bellatrix.Message
	case c.BellatrixBlinded != nil:
		u.BellatrixBlinded = c.BellatrixBlinded.Message
	case c.Capella != nil:
		u.Capella = c.Capella.Message
	case c.CapellaBlinded != nil:
		u.CapellaBlinded = c.CapellaBlinded.Message
	case c.Deneb != nil:
		u.Deneb = &eth2deneb.BlockContents{Block: c.Deneb.SignedBlock.Message, KZGProofs: c.Deneb.KZGProofs, Blobs: c.Deneb.Blobs}
	case c.DenebBlinded != nil:
		u.DenebBlinded = c.DenebBlinded.Message
	case c.Electra != nil:
		u.Electra = &eth2electra.BlockContents{Block: c.Electra.SignedBlock.Message, KZGProofs: c.Electra.KZGProofs, Blobs: c.Electra.Blobs}
	case c.ElectraBlinded != nil:
		u.ElectraBlinded = c.ElectraBlinded.Message
	case c.Fulu != nil:
		u.Fulu = &eth2fulu.BlockContents{Block: c.Fulu.SignedBlock.Message, KZGProofs: c.Fulu.KZGProofs, Blobs: c.Fulu.Blobs}
	case c.FuluBlinded != nil:
		u.FuluBlinded = c.FuluBlinded.Message
	default:
		t.Fatal("unsupported proposal version")
	}
	cl2, err := w.Clone()
	must(t, err)
	c2 := cl2.(core.VersionedSignedProposal).VersionedSignedProposal

	return u, &c2
}

// propMatches is the harness's own reading of "the submitted block is the agreed block":
// same proposer index, blinded flag, version and block root.
func propMatches(sub, agreed *eth2api.VersionedSignedProposal) (ok bool) {
	defer func() {
		if r := recover(); r != nil {
			ok = false
		}
	}()
	if sub.Version != agreed.Version || sub.Blinded != agreed.Blinded {
		return false
	}
	if *dutygen.PropProposerIndex(sub) != *dutygen.PropProposerIndex(agreed) {
		return false
	}
	sr, err := dutygen.PropRoot(sub)
	if err != nil {
		return false
	}
	ar, err := dutygen.PropRoot(agreed)

	return err == nil && sr == ar
}

// prepare makes a fresh raw object of generator g for validator v at the case's slot, registers
// it with the environment tables and returns it unsigned.
func (e *env) prepare(g dutygen.Gen, family string, v int, slot uint64) any {
	if g.IsAtt && e.boundary > 0 {
		slot = e.boundary*e.spe - 1 // last slot of the previous fork ...
	}
	raw := g.New(e.t, slot, e.spe)
	if g.IsAtt && e.boundary > 0 { // ... voting for a target in the new fork: the signing epoch is the target epoch
		a := raw.(*eth2spec.VersionedAttestation)
		d, err := a.Data()
		must(e.t, err)
		d.Target.Epoch = eth2p0.Epoch(e.boundary)
		d.Source.Epoch = eth2p0.Epoch(e.boundary - 1)
	}
	val := e.vals[v]
	switch family {
	case "att":
		a := raw.(*eth2spec.VersionedAttestation)
		bits := bitfield.NewBitlist(8)
		bits.SetBitAt(uint64(v), true)
		e.attSlots[slot] = true
		switch a.Version {
		case eth2spec.DataVersionElectra, eth2spec.DataVersionFulu:
			el := a.Electra
			if a.Version == eth2spec.DataVersionFulu {
				el = a.Fulu
			}
			el.AggregationBits = bits
			el.Data.Index = 0
			cb := bitfield.NewBitvector64()
			cb.SetBitAt(uint64(10+v), true)
			el.CommitteeBits = cb
			vi := val.vidx
			a.ValidatorIndex = &vi
		default:
			for _, p := range []*eth2p0.Attestation{a.Phase0, a.Altair, a.Bellatrix, a.Capella, a.Deneb} {
				if p != nil {
					p.AggregationBits = bits
					p.Data.Index = eth2p0.CommitteeIndex(10 + v)
				}
			}
		}
	case "proposer":
		p := raw.(*eth2api.VersionedSignedProposal)
		*dutygen.PropProposerIndex(p) = val.vidx
		e.proposer[slot] = v
		e.agreed[slot], e.agreedSigned[slot] = unsignedOf(e.t, p)
	case "randao":
		slot = slot/e.spe*e.spe + e.baseSlot%e.spe // the slot the Proposal request will name for this epoch
		e.proposer[slot] = v
		// the handler also awaits the proposal before returning
		p := e.gens["proposal/deneb"].New(e.t, slot, e.spe).(*eth2api.VersionedSignedProposal)
		e.agreed[slot], e.agreedSigned[slot] = unsignedOf(e.t, p)
	case "index":
		*g.VIdx(raw) = val.vidx
		if proof, dom, ep, root, ok := innerSelection(raw, e.spe); ok { // inner selection proof: the group signature
			sr, err := dutygen.SigningRoot(e.ctx, e.bmock, dom, ep, root, dutygen.Own)
			must(e.t, err)
			s, err := tbls.Sign(val.sk, sr[:])
			must(e.t, err)
			*proof = eth2p0.BLSSignature(s)
		}
	}

	return raw
}

// getSig reads the signature bytes out of a raw object through its core wrapper.
func getSig(g dutygen.Gen, raw any) (sig tbls.Signature, ok bool) {
	defer func() {
		if r := recover(); r != nil {
			ok = false
		}
	}()
	w, err := g.Wrap(raw)
	if err != nil {
		return sig, false
	}
	b := w.Signature()
	if len(b) != 96 {
		return sig, false
	}

	return tbls.Signature(b), true
}

// build makes the final raw object of an item spec.
func (e *env) build(g dutygen.Gen, family string, it ItemSpec, slot uint64) any {
	if e.deferMut {
		it.Mut = "" // applied by the caller after the unaltered object was submitted once
	}
	raw := e.prepare(g, family, it.Val, slot)
	sign := func() {
		root, ok := e.ownRoot(g, raw, it.Variant)
		if ok && it.ForkVersion != "" {
			root, ok = e.versionRoot(g, raw, it.ForkVersion)
		}
		if !ok {
			return // unreadable after mutation: leave unsigned
		}
		s := e.makeSig(it, root)
		g.SetSig(raw, eth2p0.BLSSignature(s))
	}
	if it.VIdxTo != 0 && g.VIdx != nil {
		*g.VIdx(raw) = eth2p0.ValidatorIndex(it.VIdxTo)
	}
	if !it.Resign {
		sign()
	}
	if it.Mut != "" && !mutateLeaf(raw, it.Mut) {
		e.t.Logf("leaf %s not found in %s", it.Mut, g.Name)
	}
	if it.Resign {
		sign()
	}

	return raw
}

func coqBool(b bool) string {
	if b {
		return "true"
	}

	return "false"
}

func errClassVapi(err error) string {
	if err == nil {
		return ""
	}
	s := err.Error()
	switch {
	case strings.Contains(s, "consensus proposal and VC-submitted one do not match"):
		return "EProp"
	case strings.Contains(s, "unknown public key"):
		return "EUnknownKey"
	case strings.Contains(s, "invalid eth2 signed data"):
		return "ENotEth2"
	case strings.Contains(s, "no signature found"):
		return "ENoSig"
	case strings.Contains(s, "signature not verified"), strings.Contains(s, "unmarshal signature into Herumi"):
		return "EBadSig"
	case strings.Contains(s, "verif-panic"):
		return "EPanic"
	}

	return "EPre" // lookups and well-formedness checks ahead of any signature check
}

func errClassPeer(err error) string {
	s := err.Error()
	switch {
	case strings.Contains(s, "unknown pubkey, not part of cluster lock"):
		return "EUnknownKey"
	case strings.Contains(s, "invalid shareIdx"):
		return "EShareIdx"
	case strings.Contains(s, "invalid eth2 signed data"):
		return "ENotEth2"
	case strings.Contains(s, "no signature found"):
		return "ENoSig"
	case strings.Contains(s, "signature not verified"), strings.Contains(s, "unmarshal signature into Herumi"):
		return "EBadSig"
	}

	return "EUnknown"
}

func (e *env) renderCalls(c *Case) string {
	var calls []string
	for _, sub := range e.subs {
		var ds []string
		for _, d := range sub {
			ds = append(ds, fmt.Sprintf("mkd %d %s %d %s", d.V, coqZ(d.Idx), d.Root, coqBool(d.Valid)))
		}
		calls = append(calls, "["+strings.Join(ds, "; ")+"]")
		c.Calls = append(c.Calls, sub)
	}

	return "[" + strings.Join(calls, "; ") + "]"
}

// runVapi executes one validator-API case.
func (e *env) runVapi(spec CaseSpec, ep endpoint) Case {
	c := Case{CaseSpec: spec}
	e.resetCase()
	g := e.gens[spec.Gen]
	e.curGen = g
	slot := e.caseSlot(spec)
	var raws []any
	e.deferMut = spec.Prime
	for _, it := range spec.Items {
		if it.DupOf > 0 && it.DupOf <= len(raws) {
			raws = append(raws, raws[it.DupOf-1])
			continue
		}
		raws = append(raws, e.build(g, ep.family, it, slot))
	}
	e.deferMut = false
	if spec.Prime {
		func() {
			defer func() { _ = recover() }()
			_ = ep.submit(e, raws)
		}()
		e.whoLog, e.subs = nil, [][]Deliv{nil, nil}
		for i, it := range spec.Items {
			if it.Mut != "" {
				mutateLeaf(raws[i], it.Mut)
			}
		}
	}
	// abstract items from the final request
	type absItem struct {
		who         int // -2: to be filled from the environment log
		root        int
		sig         string
		prop, inner bool
	}
	abs := make([]absItem, len(raws))
	for i, raw := range raws {
		a := absItem{who: -1, prop: true, inner: true, sig: "GZero"}
		if root, ok := e.ownRoot(g, raw, 0); ok {
			a.root = e.rootID(root)
		}
		if s, ok := getSig(g, raw); ok {
			a.sig = e.sigTerm(s)
		}
		switch ep.family {
		case "att", "proposer", "randao":
			a.who = -2
		case "index":
			func() {
				defer func() { _ = recover() }()
				if id, ok := e.byVIdx[*g.VIdx(raw)]; ok {
					a.who = id
				}
			}()
			if proof, dom, epo, root, ok := innerSelection(raw, e.spe); ok && a.who >= 0 {
				sr, err := dutygen.SigningRoot(e.ctx, e.bmock, dom, epo, root, dutygen.Own)
				a.inner = err == nil && *proof != (eth2p0.BLSSignature{}) && tbls.Verify(e.vals[a.who].group, sr[:], tbls.Signature(*proof)) == nil
			} else if proof != nil || strings.HasPrefix(g.Name, "aggregate_and_proof") || g.Name == "sync_contribution" {
				if a.who >= 0 && !ok {
					a.who = -1 // unreadable object
				}
			}
		}
		if ep.family == "proposer" {
			p := raw.(*eth2api.VersionedSignedProposal)
			func() {
				defer func() {
					if r := recover(); r != nil {
						a.prop = false
					}
				}()
				sl, err := p.Slot()
				if err != nil {
					return
				}
				if ag, ok := e.agreedSigned[uint64(sl)]; ok {
					a.prop = propMatches(p, ag)
				}
			}()
		}
		abs[i] = a
	}

	var err error
	func() {
		defer func() {
			if r := recover(); r != nil {
				err = fmt.Errorf("verif-panic: %v", r)
			}
		}()
		rctx, cancel := context.WithCancel(e.ctx)
		defer cancel()
		e.reqCtx, e.cancelReq = rctx, cancel
		e.faultArmed, e.faultFired, e.lookups, e.faultAt, e.faultKind = spec.FaultAt > 0, false, 0, spec.FaultAt, spec.FaultKind
		defer func() { e.faultArmed, e.reqCtx, e.cancelReq = false, e.ctx, nil }()
		err = ep.submit(e, raws)
	}()
	c.Fault = e.faultFired
	c.Err = errClassVapi(err)
	if err != nil {
		c.ErrText = err.Error()
		if len(c.ErrText) > 160 {
			c.ErrText = c.ErrText[:160]
		}
	}
	// resolve "who" of callback families from the environment log (k-th resolution = k-th item)
	k := 0
	for i := range abs {
		if abs[i].who != -2 {
			continue
		}
		abs[i].who = -1
		if k < len(e.whoLog) {
			abs[i].who = e.whoLog[k]
			k++
		}
		if ep.family == "proposer" && abs[i].who >= 0 {
			// the agreed proposal must be available for the submitted slot as well
			p := raws[i].(*eth2api.VersionedSignedProposal)
			if sl, err := p.Slot(); err != nil {
				abs[i].who = -1
			} else if _, ok := e.agreed[uint64(sl)]; !ok {
				abs[i].who = -1
			}
		}
	}
	var items []string
	for _, a := range abs {
		who := "None"
		if a.who >= 0 {
			who = fmt.Sprintf("(Some %d)", a.who)
		}
		items = append(items, fmt.Sprintf("mki %s %s false %d %s %s %s", who, coqZ(selfIdx), a.root, a.sig, coqBool(a.prop), coqBool(a.inner)))
	}
	c.Items2 = items
	errTerm := "None"
	if c.Err != "" {
		errTerm = "(Some " + c.Err + ")"
	}
	c.Label = fmt.Sprintf("mkl lock (VApi %s) [%s] 2 %s %s %s", coqZ(selfIdx), strings.Join(items, "; "), coqBool(c.Fault), errTerm, e.renderCalls(&c))
	c.NonTrivial = spec.Class != "valid"

	return c
}

// runPeer executes one peer-message case.
func (e *env) runPeer(spec CaseSpec) Case {
	c := Case{CaseSpec: spec}
	e.resetCase()
	g := e.gens[spec.Gen]
	e.curGen = g
	slot := e.caseSlot(spec)
	e.gateT = e.genesis.Add(time.Duration(slot) * e.slotDur) // "now" is the slot the objects are made for
	fam := ""
	if g.VIdx != nil {
		fam = "index"
	}
	var raws []any
	e.deferMut = spec.Prime
	for _, it := range spec.Items {
		raws = append(raws, e.build(g, fam, it, slot))
	}
	e.deferMut = false
	mkSet := func() (core.ParSignedDataSet, string) {
		set := core.ParSignedDataSet{}
		for i, it := range spec.Items {
			raw := raws[i]
			var sd core.SignedData
			if spec.DutyType == int(core.DutySignature) {
				s, _ := getSig(g, raw)
				sd = core.Signature(s[:])
			} else {
				w, err := g.Wrap(raw)
				if err != nil {
					return nil, "cannot wrap: " + err.Error()
				}
				sd = w
			}
			pk := core.PubKey("")
			if it.KeyOf >= 0 {
				pk = e.vals[it.KeyOf].pk
			} else {
				pk = testutil.RandomCorePubKey(e.t)
			}
			set[pk] = core.ParSignedData{SignedData: sd, ShareIdx: it.Idx}
		}

		return set, ""
	}
	dutyType := g.Duty
	if spec.DutyType != 0 {
		dutyType = core.DutyType(spec.DutyType)
	}
	if spec.DutyType == -1 {
		dutyType = core.DutyUnknown
	}
	duty := core.Duty{Slot: slot + uint64(spec.SlotAdd)*e.spe, Type: dutyType}
	if spec.DutySlot != "" {
		ds, err := strconv.ParseUint(spec.DutySlot, 10, 64)
		must(e.t, err)
		duty.Slot = ds
	}
	if spec.Prime { // the unaltered object goes through first
		if set0, sk := mkSet(); sk == "" {
			func() {
				defer func() { _ = recover() }()
				if pb, err := core.ParSignedDataSetToProto(set0); err == nil {
					var buf bytes.Buffer
					must(e.t, pbio.NewDelimitedWriter(&buf).WriteMsg(&pbv1.ParSigExMsg{Duty: core.DutyToProto(duty), DataSet: pb}))
					e.fh.handler(&fakeStream{r: bytes.NewReader(buf.Bytes()), conn: fakeConn{remote: "peer-a"}, pid: parsigex.Protocols()[0]})
				}
			}()
		}
		e.subs, e.gateLog, e.verLog = [][]Deliv{nil, nil}, nil, nil
		for i, it := range spec.Items {
			if it.Mut != "" {
				mutateLeaf(raws[i], it.Mut)
			}
		}
	}
	set, sk := mkSet()
	if sk != "" {
		c.Skipped = sk
		return c
	}
	msg := &pbv1.ParSigExMsg{Duty: core.DutyToProto(duty)}
	var skip string
	func() {
		defer func() {
			if r := recover(); r != nil {
				skip = fmt.Sprintf("cannot encode: %v", r)
			}
		}()
		pb, err := core.ParSignedDataSetToProto(set)
		if err != nil {
			skip = "cannot encode: " + err.Error()
			return
		}
		msg.DataSet = pb
	}()
	if skip != "" {
		c.Skipped = skip
		return c
	}
	// decode oracle and abstract items from the decoded set
	typeValid := dutyType > core.DutyUnknown && int(dutyType) < 14
	decoded, derr := core.ParSignedDataSetFromProto(dutyType, msg.GetDataSet())
	var items []string
	if derr == nil {
		var pks []core.PubKey
		for pk := range decoded {
			pks = append(pks, pk)
		}
		sort.Slice(pks, func(i, j int) bool { return pks[i] < pks[j] })
		for _, pk := range pks {
			psd := decoded[pk]
			who := unknownV
			if id, ok := e.byPK[pk]; ok {
				who = id
			}
			rootID, raw, sig := 0, false, "GZero"
			if _, ok := psd.SignedData.(core.Signature); ok {
				raw = true
			}
			for _, gg := range append([]dutygen.Gen{g}, e.allGens...) {
				if rw := gg.Unwrap(psd.SignedData); rw != nil {
					if r, ok := e.ownRoot(gg, rw, 0); ok {
						rootID = e.rootID(r)
					}

					break
				}
			}
			if b := psd.Signature(); len(b) == 96 {
				sig = e.sigTerm(tbls.Signature(b))
			} else if len(b) > 0 {
				sig = "(GOther 0)"
			}
			items = append(items, fmt.Sprintf("mki (Some %d) %s %s %d %s true true", who, coqZ(psd.ShareIdx), coqBool(raw), rootID, sig))
		}
	}
	c.Items2 = items

	// deliver through the stream handler parsigex registered
	var buf bytes.Buffer
	must(e.t, pbio.NewDelimitedWriter(&buf).WriteMsg(msg))
	pid := parsigex.Protocols()[0]
	e.faultArmed, e.faultFired, e.lookups, e.faultAt, e.faultKind = spec.FaultAt > 0, false, 0, spec.FaultAt, spec.FaultKind
	h := e.fh
	if spec.FaultKind == "block" {
		h = e.fhBlock // the handler's own context (receive timeout) is what ends a hanging lookup here
	}
	h.handler(&fakeStream{r: bytes.NewReader(buf.Bytes()), conn: fakeConn{remote: "peer-a"}, pid: pid})
	e.faultArmed = false
	c.Fault = e.faultFired

	switch {
	case len(e.gateLog) == 1 && !e.gateLog[0]:
		c.Err = "EGate"
	default: // (a handler that does not consult the gater at all is judged on what it delivered)
		for _, ve := range e.verLog {
			if ve != nil {
				c.Err = errClassPeer(ve)
				if c.Fault && c.Err == "EUnknown" {
					c.Err = "EPre" // the lookup fault surfaced as the verifier's error
				}
				c.ErrText = ve.Error()
				if len(c.ErrText) > 160 {
					c.ErrText = c.ErrText[:160]
				}
			}
		}
		if c.Err == "" && len(e.verLog) == 0 && len(e.subs[0]) == 0 && (derr != nil || len(set) > 0) {
			c.Err = "EDecode"
		}
	}
	errTerm := "None"
	if c.Err != "" {
		errTerm = "(Some " + c.Err + ")"
	}
	c.Label = fmt.Sprintf("mkl lock (Peer (mkg %s %d %d %d 2) %s) [%s] 2 %s %s %s",
		coqBool(typeValid), duty.Slot, slot, e.spe, coqBool(derr == nil), strings.Join(items, "; "), coqBool(c.Fault), errTerm, e.renderCalls(&c))
	c.NonTrivial = spec.Class != "valid"

	return c
}

// ---- generation

func genuine(v, idx int) ItemSpec {
	return ItemSpec{Val: v, SigKind: "genuine", SigVal: v, SigIdx: idx, Idx: idx, KeyOf: v}
}

// sigAlterations lists the alteration classes that do not depend on the object's fields.
// peer=true adds the ones that only exist for peer messages.
func sigAlterations(self int, peer bool) map[string]func(it *ItemSpec) {
	m := map[string]func(it *ItemSpec){
		"wrong_share":     func(it *ItemSpec) { it.SigIdx = self%nShares + 1 },
		"wrong_validator": func(it *ItemSpec) { it.SigVal = (it.Val + 1) % outsider },
		"other_domain":    func(it *ItemSpec) { it.Variant = int(dutygen.OtherDomain) },
		"other_fork":      func(it *ItemSpec) { it.Variant = int(dutygen.OtherFork) },
		"zero_sig":        func(it *ItemSpec) { it.SigKind = "zero" },
		"random_sig":      func(it *ItemSpec) { it.SigKind = "random" },
		"infinity_sig":    func(it *ItemSpec) { it.SigKind = "inf" },
		"foreign_key":     func(it *ItemSpec) { it.SigKind = "foreign" },
	}
	if peer {
		m["idx_out_of_range"] = func(it *ItemSpec) { it.Idx = nShares + 1 }
		m["idx_zero"] = func(it *ItemSpec) { it.Idx = 0 }
		m["idx_negative"] = func(it *ItemSpec) { it.Idx = -1 }
		m["idx_other_in_range"] = func(it *ItemSpec) { it.Idx = it.Idx%nShares + 1 }
		m["key_of_other_validator"] = func(it *ItemSpec) { it.KeyOf = (it.Val + 1) % outsider }
		m["key_not_in_lock"] = func(it *ItemSpec) { it.KeyOf = outsider }
		m["key_random"] = func(it *ItemSpec) { it.KeyOf = -1 }
	} else {
		m["validator_not_in_lock"] = func(it *ItemSpec) { it.Val, it.SigVal = outsider, outsider }
		m["validator_unknown_to_beacon"] = func(it *ItemSpec) { it.VIdxTo = 999 }
		m["validator_index_of_other"] = func(it *ItemSpec) { it.VIdxTo = 100 + (it.Val+1)%outsider }
	}

	return m
}

func sortedKeys(m map[string]func(it *ItemSpec)) []string {
	var ks []string
	for k := range m {
		ks = append(ks, k)
	}
	sort.Strings(ks)

	return ks
}

func (e *env) templatePaths(g dutygen.Gen, family string) []string {
	e.resetCase()
	e.boundary = 0
	raw := e.build(g, family, genuine(0, selfIdx), e.baseSlot)

	return leafPaths(raw)
}

// vapiPaths are the leaf fields of the submission type of a validator-API endpoint.
func (e *env) vapiPaths(ep endpoint, g dutygen.Gen) []string {
	paths := e.templatePaths(g, ep.family)
	if ep.name != "SubmitBlindedProposal" {
		return paths
	}
	var keep []string // VersionedSignedBlindedProposal has no Blinded field
	for _, p := range paths {
		if p != ".Blinded" {
			keep = append(keep, p)
		}
	}

	return keep
}

func (e *env) pick(paths []string, k int) []string {
	if k <= 0 || k >= len(paths) {
		return paths
	}
	p := e.r.Perm(len(paths))
	out := make([]string, 0, k)
	for _, i := range p[:k] {
		out = append(out, paths[i])
	}
	sort.Strings(out)

	return out
}

// forkBoundaries are the first epochs of the forks the beacon mock schedules after genesis.
var forkBoundaries = []uint64{2048, 50688}

var faultKinds = []string{"deadline", "canceled", "generic", "block"}

// faultPlan lists (position, kind, submission) triples: everything in the thorough tier, a rotating
// selection plus every position with a wrong-share submission in the quick tier.
func faultPlan(thorough, peer bool) [][3]string {
	subsm := []string{"valid", "wrong_share", "other_fork", "field"}
	maxK := 3
	if thorough {
		maxK = 6
	}
	var out [][3]string
	for k := 1; k <= maxK; k++ {
		for ki, kind := range faultKinds {
			if peer && kind == "block" && !thorough && k != 2 {
				continue // a hanging lookup costs the handler's receive timeout
			}
			for si, sm := range subsm {
				if thorough || (si == (k+ki)%4 && (k+ki)%2 == 0) || (sm == "wrong_share" && (kind == "deadline" || kind == "canceled" || (kind == "block" && !peer))) {
					out = append(out, [3]string{strconv.Itoa(k), kind, sm})
				}
			}
		}
	}

	return out
}

// edgePlan lists (epoch, fork version or "" for the object's own) pairs: at epochs 0 and 1 and around
// every fork of the schedule, the correctly forked signature and signatures under the other fork
// versions of the schedule (all of them in the thorough tier; in the quick tier the genesis version
// and two rotating others at epochs 0/1, the neighbouring version elsewhere).
func (e *env) edgePlan(g dutygen.Gen, thorough bool, salt int) [][2]string {
	var out [][2]string
	for ei, ep := range e.edgeEpochs() {
		own := e.ownVersion(g, ep)
		eps := strconv.FormatUint(ep, 10)
		out = append(out, [2]string{eps, ""})
		var others []string
		for _, v := range e.versions {
			if hv := hex.EncodeToString(v[:]); hv != own {
				others = append(others, hv)
			}
		}
		switch {
		case thorough:
		case ep <= 1:
			others = []string{others[0], others[1+(salt+ei)%(len(others)-1)], others[1+(salt+ei+2)%(len(others)-1)]}
		default:
			others = []string{others[len(others)-1-(salt+ei)%2]}
		}
		for _, o := range others {
			out = append(out, [2]string{eps, o})
		}
	}

	return out
}

type genOut struct {
	specs  []CaseSpec
	leaves map[string]int // endpoint|gen -> number of leaf fields enumerated
}

func (e *env) genCases(perGenLeaves int) genOut {
	out := genOut{leaves: map[string]int{}}
	add := func(c CaseSpec) {
		c.ID = len(out.specs)
		out.specs = append(out.specs, c)
	}
	// validator API
	for _, ep := range e.endpoints() {
		alts := sigAlterations(selfIdx, false)
		for _, gn := range ep.gens {
			g := e.gens[gn]
			base := CaseSpec{Entrance: "vapi", Endpoint: ep.name, Gen: gn}
			one := func(class string, f func(it *ItemSpec)) {
				c := base
				c.Class = class
				it := genuine(e.r.Intn(outsider), selfIdx)
				if f != nil {
					f(&it)
				}
				c.Items = []ItemSpec{it}
				add(c)
			}
			one("valid", nil)
			for _, k := range sortedKeys(alts) {
				if strings.HasPrefix(k, "validator_index") || k == "validator_unknown_to_beacon" {
					if ep.family != "index" {
						continue
					}
				}
				one(k, alts[k])
			}
			// objects whose own signing epoch is the first epoch of a fork (attestations: slot still in
			// the previous fork): signed for the own epoch (valid) / with the neighbouring fork's domain
			for _, b := range forkBoundaries {
				c := base
				c.Boundary = b
				c.Class = "fork_boundary_valid"
				c.Items = []ItemSpec{genuine(e.r.Intn(outsider), selfIdx)}
				add(c)
				c.Class = "fork_boundary_neighbour_fork"
				it := genuine(e.r.Intn(outsider), selfIdx)
				it.Variant = 3
				c.Items = []ItemSpec{it}
				add(c)
			}
			// two validators of the lock whose abbreviated public keys collide, and validators of the crowd:
			// genuine submissions (must be let in) and submissions for one validator signed with this node's
			// share of the other (must be refused), both directions
			if gn == ep.gens[0] || gn == ep.gens[len(ep.gens)-1] {
				cross := func(a, b int) ItemSpec { it := genuine(a, selfIdx); it.SigVal = b; return it }
				x, y := crowd0+e.r.Intn(crowdN), crowd0+e.r.Intn(crowdN-1)
				if y >= x {
					y++
				}
				type cc struct {
					name  string
					items []ItemSpec
				}
				ccs := []cc{
					{"collision:genuine_A", []ItemSpec{genuine(collA, selfIdx)}},
					{"collision:genuine_B", []ItemSpec{genuine(collB, selfIdx)}},
					{"collision:A_signed_with_share_of_B", []ItemSpec{cross(collA, collB)}},
					{"collision:B_signed_with_share_of_A", []ItemSpec{cross(collB, collA)}},
				}
				if ep.family != "att" {
					ccs = append(ccs, cc{"crowd:genuine", []ItemSpec{genuine(x, selfIdx)}}, cc{"crowd:signed_with_share_of_another", []ItemSpec{cross(x, y)}})
				}
				if ep.multi {
					ccs = append(ccs, cc{"collision:both_genuine", []ItemSpec{genuine(collA, selfIdx), genuine(collB, selfIdx)}},
						cc{"collision:genuine_A_then_B_signed_with_share_of_A", []ItemSpec{genuine(collA, selfIdx), cross(collB, collA)}})
				}
				for _, x := range ccs {
					c := base
					c.Class = x.name
					c.Items = x.items
					add(c)
				}
			}
			// epochs 0 and 1 and the edges of every fork: signed under the fork version the spec prescribes
			// for the object's own epoch, and under the other fork versions of the schedule
			for _, pl := range e.edgePlan(g, perGenLeaves > 100, len(out.specs)) {
				c := base
				c.EpochSet = true
				c.AtEpoch, _ = strconv.ParseUint(pl[0], 10, 64)
				it := genuine(e.r.Intn(outsider), selfIdx)
				c.Class = "epoch_edge_valid"
				if pl[1] != "" {
					c.Class = "epoch_edge_other_fork_version"
					it.ForkVersion = pl[1]
				}
				c.Items = []ItemSpec{it}
				add(c)
			}
			// beacon-node lookup faults during the call, around valid and invalid submissions
			tpaths := e.vapiPaths(ep, g)
			for _, fp := range faultPlan(perGenLeaves > 100, false) {
				k, _ := strconv.Atoi(fp[0])
				c := base
				c.Class = "fault:" + fp[1] + ":" + fp[2]
				c.FaultAt, c.FaultKind = k, fp[1]
				it := genuine(e.r.Intn(outsider), selfIdx)
				switch fp[2] {
				case "wrong_share":
					alts["wrong_share"](&it)
				case "other_fork":
					alts["other_fork"](&it)
				case "field":
					it.Mut = tpaths[e.r.Intn(len(tpaths))]
				}
				c.Items = []ItemSpec{it}
				add(c)
			}
			// a signature that was let in once, presented again over altered content
			for _, p := range e.pick(tpaths, (perGenLeaves+1)/2) {
				c := base
				c.Class = "replayed_signature_altered:" + p
				c.Prime = true
				it := genuine(e.r.Intn(outsider), selfIdx)
				it.Mut = p
				c.Items = []ItemSpec{it}
				add(c)
			}
			// the same long-lived component has by now served epochs in all three forks: an object of the
			// default epoch signed with the latest fork's domain, and a correctly signed one, once more
			one("far_fork_domain", func(it *ItemSpec) { it.Variant = 4 })
			one("valid_after_other_forks", nil)
			paths := tpaths
			out.leaves[ep.name+"|"+gn] = len(paths)
			for _, p := range e.pick(paths, perGenLeaves) {
				one("field:"+p, func(it *ItemSpec) { it.Mut = p })
			}
			// altered and signed again with the right share: valid unless a check beyond the
			// signature (agreed proposal, inner selection proof, validator resolution) refuses it
			for _, p := range e.pick(paths, (perGenLeaves+1)/2) {
				one("field+resign:"+p, func(it *ItemSpec) { it.Mut = p; it.Resign = true })
			}
			if ep.multi {
				// several validators in one request: all good; one bad among good ones (each position)
				c := base
				c.Class = "multi_valid"
				for v := 0; v < outsider; v++ {
					c.Items = append(c.Items, genuine(v, selfIdx))
				}
				add(c)
				// repeated (validator, slot) entries in one request, valid and invalid in every order
				V := func(v int) ItemSpec { return genuine(v, selfIdx) }
				bad := func(v int, k string) ItemSpec {
					it := genuine(v, selfIdx)
					if k == "field" {
						it.Mut = tpaths[e.r.Intn(len(tpaths))]
					} else {
						alts[k](&it)
					}

					return it
				}
				dup := func(i int) ItemSpec { it := genuine(0, selfIdx); it.DupOf = i; return it }
				for _, rp := range []struct {
					name  string
					items []ItemSpec
				}{
					{"valid_then_wrong_share", []ItemSpec{V(0), bad(0, "wrong_share")}},
					{"valid_then_zero_sig", []ItemSpec{V(0), bad(0, "zero_sig")}},
					{"valid_then_altered_field", []ItemSpec{V(0), bad(0, "field")}},
					{"valid_then_other_fork", []ItemSpec{V(1), bad(1, "other_fork")}},
					{"wrong_share_then_valid", []ItemSpec{bad(0, "wrong_share"), V(0)}},
					{"zero_sig_then_valid", []ItemSpec{bad(2, "zero_sig"), V(2)}},
					{"valid_then_valid_other_content", []ItemSpec{V(0), V(0)}},
					{"duplicate", []ItemSpec{V(0), dup(1)}},
					{"duplicate_among_others", []ItemSpec{V(0), V(1), dup(1), V(2)}},
					{"valid_valid_then_altered_field", []ItemSpec{V(0), V(0), bad(0, "field")}},
					{"two_validators_valid_then_wrong_share", []ItemSpec{V(0), V(1), bad(0, "wrong_share")}},
					{"two_validators_interleaved_then_zero_sig", []ItemSpec{V(1), V(0), V(1), bad(0, "zero_sig")}},
					{"other_validator_invalid_in_the_middle", []ItemSpec{V(0), bad(1, "wrong_share"), V(0)}},
					{"three_validators_last_repeats_invalid", []ItemSpec{V(0), V(1), V(2), bad(2, "foreign_key")}},
				} {
					c := base
					c.Class = "repeated_entry:" + rp.name
					c.Items = rp.items
					add(c)
				}
				for pos := 0; pos < outsider; pos++ {
					for _, k := range []string{"wrong_share", "other_fork", "zero_sig"} {
						c := base
						c.Class = "multi_one_bad:" + k
						for v := 0; v < outsider; v++ {
							it := genuine(v, selfIdx)
							if v == pos {
								alts[k](&it)
							}
							c.Items = append(c.Items, it)
						}
						add(c)
					}
				}
			}
		}
	}
	// peer messages
	palts := sigAlterations(selfIdx, true)
	for gi, g := range e.allGens {
		base := CaseSpec{Entrance: "peer", Endpoint: "parsigex.handle", Gen: g.Name}
		sender := func() int { return []int{1, 3, 4}[e.r.Intn(3)] }
		one := func(class string, f func(c *CaseSpec, it *ItemSpec)) {
			c := base
			c.Class = class
			it := genuine(e.r.Intn(outsider), sender())
			if f != nil {
				f(&c, &it)
			}
			c.Items = []ItemSpec{it}
			add(c)
		}
		one("valid", nil)
		for _, k := range sortedKeys(palts) {
			one(k, func(_ *CaseSpec, it *ItemSpec) { palts[k](it) })
		}
		one("own_share_index_from_peer", func(_ *CaseSpec, it *ItemSpec) { it.Idx, it.SigIdx = selfIdx, selfIdx })
		one("gate_future_epoch_3", func(c *CaseSpec, _ *ItemSpec) { c.SlotAdd = 3 })
		one("gate_future_epoch_2_allowed", func(c *CaseSpec, _ *ItemSpec) { c.SlotAdd = 2 })
		one("gate_far_future", func(c *CaseSpec, _ *ItemSpec) { c.SlotAdd = 1000 })
		one("gate_duty_type_unknown", func(c *CaseSpec, _ *ItemSpec) { c.DutyType = -1 })
		one("gate_duty_type_sentinel", func(c *CaseSpec, _ *ItemSpec) { c.DutyType = 14 })
		for _, b := range forkBoundaries {
			one("fork_boundary_valid", func(c *CaseSpec, _ *ItemSpec) { c.Boundary = b })
			one("fork_boundary_neighbour_fork", func(c *CaseSpec, it *ItemSpec) { c.Boundary = b; it.Variant = 3 })
		}
		if gi%4 == 0 || g.Duty == core.DutyExit || g.Duty == core.DutyBuilderRegistration {
			sd := sender()
			crossP := func(a, b, key int) func(*CaseSpec, *ItemSpec) {
				return func(_ *CaseSpec, it *ItemSpec) { *it = genuine(a, sd); it.SigVal = b; it.KeyOf = key }
			}
			x, y := crowd0+e.r.Intn(crowdN), crowd0+e.r.Intn(crowdN-1)
			if y >= x {
				y++
			}
			one("collision:genuine_A", crossP(collA, collA, collA))
			one("collision:genuine_B", crossP(collB, collB, collB))
			one("collision:A_signed_with_share_of_B", crossP(collA, collB, collA))
			one("collision:B_signed_with_share_of_A", crossP(collB, collA, collB))
			one("collision:A_filed_under_key_of_B", crossP(collA, collA, collB))
			one("crowd:genuine", crossP(x, x, x))
			one("crowd:signed_with_share_of_another", crossP(x, y, x))
		}
		for _, pl := range e.edgePlan(g, perGenLeaves > 100, len(out.specs)) {
			cls := "epoch_edge_valid"
			if pl[1] != "" {
				cls = "epoch_edge_other_fork_version"
			}
			one(cls, func(c *CaseSpec, it *ItemSpec) {
				c.EpochSet = true
				c.AtEpoch, _ = strconv.ParseUint(pl[0], 10, 64)
				it.ForkVersion = pl[1]
			})
		}
		ppaths := e.templatePaths(g, map[bool]string{true: "index", false: ""}[g.VIdx != nil])
		for _, fp := range faultPlan(perGenLeaves > 100, true) {
			k, _ := strconv.Atoi(fp[0])
			one("fault:"+fp[1]+":"+fp[2], func(c *CaseSpec, it *ItemSpec) {
				c.FaultAt, c.FaultKind = k, fp[1]
				switch fp[2] {
				case "wrong_share":
					palts["wrong_share"](it)
				case "other_fork":
					palts["other_fork"](it)
				case "field":
					it.Mut = ppaths[e.r.Intn(len(ppaths))]
				}
			})
		}
		for _, p := range e.pick(ppaths, (perGenLeaves+1)/2) {
			one("replayed_signature_altered:"+p, func(c *CaseSpec, it *ItemSpec) { c.Prime = true; it.Mut = p })
		}
		one("far_fork_domain", func(_ *CaseSpec, it *ItemSpec) { it.Variant = 4 })
		one("valid_after_other_forks", nil)
		one("fork_boundary_far_fork", func(c *CaseSpec, it *ItemSpec) { c.Boundary = 50688; it.Variant = 4 })
		// the gater window on absolute slots, validly signed objects inside: the edges of the window
		// and slots so large that any time arithmetic on them wraps
		now := e.baseSlot / e.spe
		slots := []uint64{0, (now+2)*e.spe + e.spe - 1, (now + 3) * e.spe, 1 << 53, 1 << 60, 1<<63 - 1, 1 << 63, 1<<64 - 1}
		if perGenLeaves > 100 {
			slots = append(slots, (now+3)*e.spe+1, 1<<31, 1<<63+12345)
		}
		for _, ds := range slots {
			one("gate_slot:"+strconv.FormatUint(ds, 10), func(c *CaseSpec, _ *ItemSpec) { c.DutySlot = strconv.FormatUint(ds, 10) })
		}
		one("duty_type_signature_raw", func(c *CaseSpec, _ *ItemSpec) { c.DutyType = int(core.DutySignature) })
		one("duty_type_confusion", func(c *CaseSpec, _ *ItemSpec) {
			c.DutyType = int(core.DutyRandao)
			if g.Duty == core.DutyRandao {
				c.DutyType = int(core.DutyExit)
			}
		})
		paths := e.templatePaths(g, map[bool]string{true: "index", false: ""}[g.VIdx != nil])
		out.leaves["parsigex.handle|"+g.Name] = len(paths)
		for _, p := range e.pick(paths, perGenLeaves) {
			one("field:"+p, func(_ *CaseSpec, it *ItemSpec) { it.Mut = p })
		}
		for _, p := range e.pick(paths, (perGenLeaves+3)/4) {
			one("field+resign:"+p, func(_ *CaseSpec, it *ItemSpec) { it.Mut = p; it.Resign = true })
		}
		// sets: all good; one bad among good ones
		c := base
		c.Class = "multi_valid"
		s := sender()
		for v := 0; v < outsider; v++ {
			c.Items = append(c.Items, genuine(v, s))
		}
		add(c)
		for pos := 0; pos < outsider; pos++ {
			for _, k := range []string{"wrong_share", "other_domain", "zero_sig", "idx_out_of_range"} {
				c := base
				c.Class = "multi_one_bad:" + k
				for v := 0; v < outsider; v++ {
					it := genuine(v, s)
					if v == pos {
						palts[k](&it)
					}
					c.Items = append(c.Items, it)
				}
				add(c)
			}
		}
	}

	return out
}

func (e *env) runSpec(spec CaseSpec) Case {
	if spec.Entrance == "peer" {
		return e.runPeer(spec)
	}
	for _, ep := range e.endpoints() {
		if ep.name == spec.Endpoint {
			return e.runVapi(spec, ep)
		}
	}
	e.t.Fatalf("unknown endpoint %q", spec.Endpoint)

	return Case{}
}

func TestGen(t *testing.T) {
	e := newEnv(t)
	var replay CaseSpec
	if ok, err := hx.ReadReplay(&replay); ok {
		must(t, err)
		if replay.HistLeaves > 0 { // re-run what the long-lived components had served before this case
			listElems = replay.HistElems
			e.r = rand.New(rand.NewSource(replay.HistSeed)) //nolint:gosec
			for _, s := range e.genCases(replay.HistLeaves).specs {
				if s.ID >= replay.ID {
					break
				}
				e.runSpec(s)
			}
		}
		cases := []Case{e.runSpec(replay)}
		if strings.HasPrefix(replay.Class, "collision:") {
			// which of two colliding validators a table keyed by the abbreviation ends up holding depends on
			// Go's map iteration order in the process at hand: the mirrored submission is judged as well
			m := replay
			m.ID += 1000000
			m.Items = append([]ItemSpec(nil), replay.Items...)
			sw := func(v int) int {
				switch v {
				case collA:
					return collB
				case collB:
					return collA
				}

				return v
			}
			for i := range m.Items {
				m.Items[i].Val, m.Items[i].SigVal, m.Items[i].KeyOf = sw(m.Items[i].Val), sw(m.Items[i].SigVal), sw(m.Items[i].KeyOf)
			}
			cases = append(cases, e.runSpec(m))
		}
		must(t, hx.WriteJSON("gate_cases.json", map[string]any{"lock": e.lockCoq, "cases": cases, "leaves": map[string]int{}}))

		return
	}
	gen := e.genCases(hx.IntEnv("VERIF_LEAVES", 6))
	cases := make([]Case, 0, len(gen.specs))
	for _, s := range gen.specs {
		cases = append(cases, e.runSpec(s))
	}
	// SubmitValidatorRegistrations takes no partial signature in: it must never reach a subscriber
	e.resetCase()
	reg := e.gens["builder_registration/v1"].New(t, e.baseSlot, e.spe).(*eth2api.VersionedSignedValidatorRegistration)
	err := e.vapi.SubmitValidatorRegistrations(e.ctx, []*eth2api.VersionedSignedValidatorRegistration{reg})
	regOK := err == nil && len(e.subs[0]) == 0 && len(e.subs[1]) == 0
	must(t, hx.WriteJSON("gate_cases.json", map[string]any{"lock": e.lockCoq, "cases": cases, "leaves": gen.leaves, "registrations_swallowed": regOK}))
}
