// Correspondence + exploration harness for C14 (duty data encoding is lossless, deterministic, total).
//
//	(a) envelope correspondence: real SSZ bytes of every enveloped core type and mutated headers, with
//	    what Go did (decoded header fields / error / panic) and the inner-codec oracle, for Codec/EnvelopeCorr.v
//	(b) round trips through SSZ, JSON, protobuf and Clone; cross-type decoding under every duty type;
//	    determinism of set marshalling under shuffled insertion orders
//	(c) crash-freedom exploration: structural JSON mutation, SSZ truncation / splices, arbitrary bytes,
//	    each followed by every operation the receive / verify / store / re-encode paths apply.
package codec

import (
	"bytes"
	"context"
	"crypto/sha256"
	"encoding/binary"
	"encoding/hex"
	"encoding/json"
	"fmt"
	"math/rand"
	"os"
	"reflect"
	"runtime/debug"
	"sort"
	"strings"
	"testing"
	"time"

	eth2p0 "github.com/attestantio/go-eth2-client/spec/phase0"
	ssz "github.com/ferranbt/fastssz"
	"go.uber.org/zap"
	"google.golang.org/protobuf/encoding/protowire"
	"google.golang.org/protobuf/proto"

	"github.com/obolnetwork/charon/app/eth2wrap"
	"github.com/obolnetwork/charon/app/log"
	"github.com/obolnetwork/charon/core"
	pbv1 "github.com/obolnetwork/charon/core/corepb/v1"
	"github.com/obolnetwork/charon/core/dutydb"
	"github.com/obolnetwork/charon/core/parsigdb"
	"github.com/obolnetwork/charon/core/parsigex"
	"github.com/obolnetwork/charon/eth2util"
	"github.com/obolnetwork/charon/tbls"
	"github.com/libp2p/go-libp2p/core/peer"
	"github.com/obolnetwork/charon/testutil/beaconmock"

	"verif/harness/hx"
)

// ------------------------------------------------------------------------------------------------
// output records

type Finding struct {
	Key    string `json:"key"`
	Class  string `json:"class"` // panic | roundtrip | decode-panic
	Type   string `json:"type"`
	Kind   string `json:"kind,omitempty"` // mutation kind
	Path   string `json:"path,omitempty"`
	Op     string `json:"op,omitempty"`
	Duty   int    `json:"duty"`
	Signed bool   `json:"signed"`
	Format string `json:"format"` // json | ssz | bytes
	Input  string `json:"input"`  // JSON text or hex
	Msg    string `json:"msg"`
	Count  int    `json:"count"`
	Entry  string `json:"entry,omitempty"`
}

type Expect struct {
	Kind        string    `json:"kind"` // err | ok | okA | panic
	Ver         uint64    `json:"ver"`
	Flag        bool      `json:"flag"`
	Idx         *uint64   `json:"idx"`
	PStart      uint64    `json:"pstart"`
	PStartKnown bool      `json:"pstart_known"`
	O0          uint64    `json:"o0"`
	O1          uint64    `json:"o1"`
	PK          string    `json:"pk"`
	DutyNums    [6]uint64 `json:"duty_nums"`
}

type ECase struct {
	ID     int         `json:"id"`
	Shape  string      `json:"shape"`
	Label  string      `json:"label"`
	Hex    string      `json:"hex"`
	Oracle [][4]uint64 `json:"oracle"`
	Expect Expect      `json:"expect"`
	Inner  string      `json:"inner"`
	Reenc  string      `json:"reenc"`
	// InnerIsSuffix: Go's re-marshalled inner value equals input[pstart:] (resp. input[o0:o1] for shape A);
	// ReencIsInput: Go's re-marshalled whole value equals the input. Checked here so that the bytes need not be shipped twice.
	InnerIsSuffix bool `json:"inner_is_suffix"`
	ReencIsInput  bool `json:"reenc_is_input"`
}

// verifyClass: what the real parsigex verifier does with a decoded partial signature:
// "not-eth2" (refused because the value is not a core.Eth2SignedData), "ran" (any other return), "panic".
func (e *env) verifyClass(duty core.DutyType, psd core.ParSignedData) string {
	var err error
	if p, _ := safe(func() { err = e.verify(e.ctx, peer.ID("sender"), core.Duty{Slot: 1, Type: duty}, testPK, psd) }); p {
		return "panic"
	}
	if err != nil && strings.Contains(err.Error(), "invalid eth2 signed data") {
		return "not-eth2"
	}
	return "ran"
}

type DCase struct {
	Verify string `json:"verify"` // signed cases with a decoded value: verifyClass
	ID     int               `json:"id"`
	Signed bool              `json:"signed"`
	Duty   int               `json:"duty"`
	Prefix string            `json:"prefix"`
	Oracle map[string][5]bool `json:"oracle"` // Go type -> {pointer is an ssz.Unmarshaler, ssz accepts, json accepts, ssz-decoded value usable, json-decoded value usable}
	Expect string            `json:"expect"` // Go type or "" for error
	Label  string            `json:"label"`
}

type SetCase struct {
	ID       int      `json:"id"`
	Inserted []string `json:"inserted"`
	Wire     []string `json:"wire"`
}

// Deviation: an observation on the real code that is documented, not reported as a violation.
type Deviation struct {
	What  string `json:"what"`
	Input string `json:"input"`
}

// FirstBytes: per Go type with an SSZ encoding, which interesting leading bytes a value's own encoding can have.
type FirstBytes struct {
	Reachable   []string `json:"reachable"`
	Unreachable []string `json:"unreachable"`
}

type Out struct {
	FirstBytes map[string]*FirstBytes `json:"first_bytes"`
	Deviations []Deviation `json:"deviations"`
	ECases   []ECase        `json:"ecases"`
	DCases   []DCase        `json:"dcases"`
	SetCases []SetCase      `json:"setcases"`
	Findings []*Finding     `json:"findings"`
	Stats    map[string]int `json:"stats"`
	Samples  []string       `json:"samples"`
}

type recorder struct {
	ev       *env
	out      Out
	byKey    map[string]*Finding
	nextID   int
	maxECHex int
}

func (rc *recorder) id() int { rc.nextID++; return rc.nextID }

func (rc *recorder) stat(k string, n int) { rc.out.Stats[k] += n }

func (rc *recorder) find(f Finding) {
	if old, ok := rc.byKey[f.Key]; ok {
		old.Count++
		return
	}
	f.Count = 1
	if len(f.Msg) > 300 {
		f.Msg = f.Msg[:300]
	}
	cp := f
	rc.byKey[f.Key] = &cp
	rc.out.Findings = append(rc.out.Findings, &cp)
}

// safe runs fn and reports a panic (with the top of its stack) instead of propagating it.
func safe(fn func()) (panicked bool, msg string) {
	defer func() {
		if r := recover(); r != nil {
			panicked = true
			st := string(debug.Stack())
			// keep the frames below the panic
			if i := strings.Index(st, "panic("); i >= 0 {
				st = st[i:]
			}
			lines := strings.Split(st, "\n")
			if len(lines) > 8 {
				lines = lines[:8]
			}
			msg = fmt.Sprint(r) + " @ " + strings.Join(lines, " | ")
		}
	}()
	fn()
	return false, ""
}

// ------------------------------------------------------------------------------------------------
// environment: the real stores and a beacon mock

type nopDeadliner struct{ ch chan core.Duty }

func (nopDeadliner) Add(core.Duty) core.DeadlineStatus { return core.DeadlineScheduled }
func (d nopDeadliner) C() <-chan core.Duty              { return d.ch }

type env struct {
	ctx    context.Context
	eth2Cl eth2wrap.Client
	pubkey tbls.PublicKey
	// verify is the real partial signature verifier of the parsigex receive path (parsigex.NewEth2Verifier),
	// for a cluster lock that knows testPK with public shares for the share indices the harness uses.
	verify func(context.Context, peer.ID, core.Duty, core.PubKey, core.ParSignedData) error
	// pending: accepted values waiting for the JSON-wire leg of the accept => re-encode round trip
	pending []pendingRT
	seenRT  map[string]bool
}

type pendingRT struct {
	duty   core.DutyType
	signed bool
	val    any
	input  []byte
	format string
	entry  string
	key    string
	kind   string
	path   string
}

func newEnv(t *testing.T) *env {
	t.Helper()
	ctx := log.WithLogger(context.Background(), zap.NewNop())
	bmock, err := beaconmock.New(ctx)
	if err != nil {
		t.Fatalf("beaconmock: %v", err)
	}
	t.Cleanup(func() { _ = bmock.Close() })
	var pk tbls.PublicKey
	pk[0] = 0xa0
	verify, err := parsigex.NewEth2Verifier(bmock, map[core.PubKey]map[int]tbls.PublicKey{testPK: {1: pk, 3: pk, 7: pk}})
	if err != nil {
		t.Fatalf("eth2 verifier: %v", err)
	}
	return &env{ctx: ctx, eth2Cl: bmock, pubkey: pk, verify: verify, seenRT: map[string]bool{}}
}

type opRes struct {
	Op  string
	Msg string
}

const testPK = core.PubKey("0x8d1d1d1d1d1d1d1d1d1d1d1d1d1d1d1d1d1d1d1d1d1d1d1d1d1d1d1d1d1d1d1d1d1d1d1d1d1d1d1d1d1d1d1d1d1d1d1d")

// signedOps applies every operation the receive (parsigex.handle), verify (VerifyEth2SignedData),
// store (parsigdb.StoreExternal), aggregate (SetSignature) and re-encode paths apply to a decoded
// partially signed value; each one separately under recover. Returns the operations that panicked.
func (e *env) signedOps(duty core.DutyType, psd core.ParSignedData) []opRes {
	var res []opRes
	try := func(op string, fn func()) {
		if p, msg := safe(fn); p {
			res = append(res, opRes{op, msg})
		}
	}
	sd := psd.SignedData
	try("MessageRoot", func() { _, _ = sd.MessageRoot() })
	try("Signature", func() { _ = sd.Signature() })
	try("Clone", func() { _, _ = psd.Clone() })
	try("MarshalJSON", func() { _, _ = sd.MarshalJSON() })
	if m, ok := sd.(ssz.Marshaler); ok {
		try("MarshalSSZ", func() { _, _ = m.MarshalSSZ() })
	}
	try("ToProto", func() { _, _ = core.ParSignedDataToProto(psd) })
	try("SetSignature", func() { _, _ = sd.SetSignature(make(core.Signature, 96)) })
	if es, ok := sd.(core.Eth2SignedData); ok {
		try("Epoch", func() { _, _ = es.Epoch(e.ctx, e.eth2Cl); _ = es.DomainName() })
		try("Verify", func() { _ = core.VerifyEth2SignedData(e.ctx, e.eth2Cl, es, e.pubkey) })
	}
	// parsigex.handle: verifyFunc(ctx, sender, duty, pubkey, data) for every entry of the decoded set, on the
	// libp2p stream handler goroutine (no recover)
	try("ParSigExVerify", func() { _ = e.verify(e.ctx, peer.ID("sender"), core.Duty{Slot: 1, Type: duty}, testPK, psd) })
	try("ParSigDBStore", func() {
		db := parsigdb.NewMemDB(2, nopDeadliner{make(chan core.Duty)}, parsigdb.NewMemDBMetadata(12, time.Unix(0, 0)))
		_ = db.StoreExternal(e.ctx, core.Duty{Slot: 1, Type: duty}, core.ParSignedDataSet{testPK: psd})
	})
	switch v := sd.(type) {
	case core.VersionedAttestation:
		try("Accessors", func() { _, _ = v.AggregationBits(); _, _ = v.Data() })
	case core.VersionedSignedAggregateAndProof:
		try("Accessors", func() { _ = v.Data(); _ = v.AggregationBits(); _, _ = v.Slot() })
	case core.VersionedSignedProposal:
		try("Accessors", func() { _, _ = v.Slot(); _, _ = v.ProposerIndex(); _, _ = v.ToBlinded() })
	}
	return res
}

// unsignedOps: consensus-decide subscriber path (Clone, dutydb.Store), compare, re-encode.
func (e *env) unsignedOps(duty core.DutyType, ud core.UnsignedData) []opRes {
	var res []opRes
	try := func(op string, fn func()) {
		if p, msg := safe(fn); p {
			res = append(res, opRes{op, msg})
		}
	}
	try("Clone", func() { _, _ = ud.Clone() })
	try("MarshalJSON", func() { _, _ = ud.MarshalJSON() })
	if m, ok := ud.(ssz.Marshaler); ok {
		try("MarshalSSZ", func() { _, _ = m.MarshalSSZ() })
	}
	try("ToProto", func() { _, _ = core.UnsignedDataSetToProto(core.UnsignedDataSet{testPK: ud}) })
	if h, ok := ud.(interface{ HashTreeRoot() ([32]byte, error) }); ok {
		try("HashTreeRoot", func() { _, _ = h.HashTreeRoot() })
	}
	try("DutyDBStore", func() {
		db := dutydb.NewMemDB(nopDeadliner{make(chan core.Duty)})
		_ = db.Store(e.ctx, core.Duty{Slot: 1, Type: duty}, core.UnsignedDataSet{testPK: ud})
	})
	switch v := ud.(type) {
	case core.AttestationData:
		try("Accessors", func() { _ = v.Data.Source.Epoch; _ = v.Data.Target.Root }) // consensus attestationChecker
	case core.VersionedProposal:
		try("Accessors", func() { _, _ = v.Slot(); _, _ = v.Root(); _, _ = v.ProposerIndex() })
	case core.VersionedAggregatedAttestation:
		try("Accessors", func() { _, _ = v.Data(); _, _ = v.AggregationBits() })
	}
	return res
}

var dutyTypes = []core.DutyType{0, 1, 2, 3, 4, 5, 6, 7, 8, 9, 10, 11, 12, 13, 99}

// ------------------------------------------------------------------------------------------------
// decode entry points as a peer reaches them

func decodeSigned(duty core.DutyType, data []byte) (core.ParSignedData, error) {
	return core.ParSignedDataFromProto(duty, &pbv1.ParSignedData{Data: data, Signature: make([]byte, 96), ShareIdx: 1})
}

func decodeUnsigned(duty core.DutyType, data []byte) (core.UnsignedData, error) {
	set, err := core.UnsignedDataSetFromProto(duty, &pbv1.UnsignedDataSet{Set: map[string][]byte{string(testPK): data}})
	if err != nil {
		return nil, err
	}
	return set[testPK], nil
}

func goTypeName(v any) string {
	return strings.TrimPrefix(fmt.Sprintf("%T", v), "core.")
}

// explore feeds one byte string to the signed decoder (for the given duty types) and the unsigned one,
// and applies the post-decode operations. keyf builds the stable key of a panic.
func (e *env) explore(rc *recorder, duties []core.DutyType, data []byte, format, entryName string, keyf func(signed bool, typ, op string) (key, kind, path string)) {
	for _, d := range duties {
		var psd core.ParSignedData
		var err error
		if p, msg := safe(func() { psd, err = decodeSigned(d, data) }); p {
			k, kind, path := keyf(true, "decode", "ParSignedDataFromProto")
			rc.find(Finding{Key: k, Class: "decode-panic", Type: "decode", Kind: kind, Path: path, Op: "ParSignedDataFromProto", Duty: int(d), Signed: true, Format: format, Input: render(format, data), Msg: msg, Entry: entryName})
		} else if err == nil {
			rc.stat("post_decode_signed_values", 1)
			for _, r := range e.signedOps(d, psd) {
				k, kind, path := keyf(true, goTypeName(psd.SignedData), r.Op)
				rc.find(Finding{Key: k, Class: "panic", Type: goTypeName(psd.SignedData), Kind: kind, Path: path, Op: r.Op, Duty: int(d), Signed: true, Format: format, Input: render(format, data), Msg: r.Msg, Entry: entryName})
			}
			k, kind, path := keyf(true, goTypeName(psd.SignedData), "reencode")
			e.acceptRT(rc, pendingRT{duty: d, signed: true, val: psd, input: data, format: format, entry: entryName, key: k, kind: kind, path: path})
		}
		rc.stat("decode_attempts", 1)

		var ud core.UnsignedData
		if p, msg := safe(func() { ud, err = decodeUnsigned(d, data) }); p {
			k, kind, path := keyf(false, "decode", "UnsignedDataSetFromProto")
			rc.find(Finding{Key: k, Class: "decode-panic", Type: "decode", Kind: kind, Path: path, Op: "UnsignedDataSetFromProto", Duty: int(d), Signed: false, Format: format, Input: render(format, data), Msg: msg, Entry: entryName})
		} else if err == nil {
			rc.stat("post_decode_unsigned_values", 1)
			for _, r := range e.unsignedOps(d, ud) {
				k, kind, path := keyf(false, goTypeName(ud), r.Op)
				rc.find(Finding{Key: k, Class: "panic", Type: goTypeName(ud), Kind: kind, Path: path, Op: r.Op, Duty: int(d), Signed: false, Format: format, Input: render(format, data), Msg: r.Msg, Entry: entryName})
			}
			k, kind, path := keyf(false, goTypeName(ud), "reencode")
			e.acceptRT(rc, pendingRT{duty: d, signed: false, val: ud, input: data, format: format, entry: entryName, key: k, kind: kind, path: path})
		}
		rc.stat("decode_attempts", 1)
	}
}

// acceptRT: whatever the decoder accepted from a peer must re-encode (ToProto) and decode again (FromProto) to
// the same value, in the wire format in force (SSZ where the type has it) now, and in the JSON wire format
// later (pending, see TestGen/accept-json-leg): the node re-broadcasts and stores what it accepted.
func (e *env) acceptRT(rc *recorder, p pendingRT) {
	h := fmt.Sprintf("%d/%v/%x", p.duty, p.signed, sha256.Sum256(p.input))
	if e.seenRT[h] {
		return
	}
	e.seenRT[h] = true
	e.checkRT(rc, p, "ssz-wire")
	e.pending = append(e.pending, p)
}

func (e *env) checkRT(rc *recorder, p pendingRT, leg string) {
	rc.stat("accept_reencode_"+leg, 1)
	why := ""
	typ := ""
	if pn, msg := safe(func() {
		if p.signed {
			psd := p.val.(core.ParSignedData)
			typ = goTypeName(psd.SignedData)
			pb, err := core.ParSignedDataToProto(psd)
			if err != nil {
				why = "accepted value does not re-encode: " + err.Error()
				return
			}
			back, err := core.ParSignedDataFromProto(p.duty, pb)
			if err != nil {
				why = "the re-encoding of an accepted value is refused by the decoder: " + err.Error()
				return
			}
			if back.ShareIdx != psd.ShareIdx {
				why = "share index changed"
				return
			}
			why = sameLoose(psd.SignedData, back.SignedData)
		} else {
			ud := p.val.(core.UnsignedData)
			typ = goTypeName(ud)
			pb, err := core.UnsignedDataSetToProto(core.UnsignedDataSet{testPK: ud})
			if err != nil {
				why = "accepted value does not re-encode: " + err.Error()
				return
			}
			back, err := core.UnsignedDataSetFromProto(p.duty, pb)
			if err != nil {
				why = "the re-encoding of an accepted value is refused by the decoder: " + err.Error()
				return
			}
			why = sameLoose(ud, back[testPK])
		}
	}); pn {
		why = "panic: " + msg
	}
	if why == "" {
		return
	}
	key := strings.Replace(p.key, "C14:panic:", "C14:accept-roundtrip:", 1) + ":" + leg
	rc.find(Finding{Key: key, Class: "accept-roundtrip", Type: typ, Kind: p.kind, Path: p.path, Op: "reencode-" + leg, Duty: int(p.duty), Signed: p.signed,
		Format: p.format, Input: render(p.format, p.input), Msg: why, Entry: p.entry})
}

func render(format string, data []byte) string {
	if format == "json" {
		return string(data)
	}
	return hex.EncodeToString(data)
}

// ------------------------------------------------------------------------------------------------
// (b) round trips

type encoded struct {
	e    entry
	val  any
	ssz  []byte // nil when the type has no SSZ form
	json []byte
}

func canonical(v any) (jsonB, sszB []byte, root string, err error) {
	jm, ok := v.(json.Marshaler)
	if !ok {
		return nil, nil, "", fmt.Errorf("%T is not a json.Marshaler", v)
	}
	if jsonB, err = jm.MarshalJSON(); err != nil {
		return nil, nil, "", fmt.Errorf("json: %w", err)
	}
	if m, ok := v.(ssz.Marshaler); ok {
		if sszB, err = m.MarshalSSZ(); err != nil {
			return nil, nil, "", fmt.Errorf("ssz: %w", err)
		}
	}
	if sd, ok := v.(core.SignedData); ok {
		if _, isSig := v.(core.Signature); !isSig {
			r, err := sd.MessageRoot()
			if err != nil {
				return nil, nil, "", fmt.Errorf("message root: %w", err)
			}
			root = hex.EncodeToString(r[:]) + "/" + hex.EncodeToString(sd.Signature())
		} else {
			root = hex.EncodeToString(sd.Signature())
		}
	} else if h, ok := v.(interface{ HashTreeRoot() ([32]byte, error) }); ok {
		r, err := h.HashTreeRoot()
		if err != nil {
			return nil, nil, "", fmt.Errorf("hash tree root: %w", err)
		}
		root = hex.EncodeToString(r[:])
	}
	return jsonB, sszB, root, nil
}

// same reports the first difference between a value and what came back from a round trip.
func same(orig, back any) string {
	if reflect.TypeOf(orig) != reflect.TypeOf(back) {
		return fmt.Sprintf("type %T != %T", orig, back)
	}
	var j1, s1, j2, s2 []byte
	var r1, r2 string
	var e1, e2 error
	if p, msg := safe(func() { j1, s1, r1, e1 = canonical(orig) }); p {
		return "panic canonicalising the original: " + msg
	}
	if p, msg := safe(func() { j2, s2, r2, e2 = canonical(back) }); p {
		return "panic canonicalising the result: " + msg
	}
	if e1 != nil || e2 != nil {
		return fmt.Sprintf("canonicalise: %v / %v", e1, e2)
	}
	if !bytes.Equal(j1, j2) {
		return "JSON re-encoding differs: " + firstDiff(j1, j2)
	}
	if !bytes.Equal(s1, s2) {
		return "SSZ re-encoding differs: " + firstDiff([]byte(hex.EncodeToString(s1)), []byte(hex.EncodeToString(s2)))
	}
	if r1 != r2 {
		return "signing root / signature differs: " + r1 + " vs " + r2
	}
	return ""
}

// normJSON: JSON tree with null and the empty list identified (a nil and an empty Go slice encode differently
// in JSON but identically in SSZ and in the hash tree root), and without the keys in drop at the top level.
func normJSON(b []byte, drop ...string) any {
	dec := json.NewDecoder(bytes.NewReader(b))
	dec.UseNumber()
	var tree any
	if err := dec.Decode(&tree); err != nil {
		return string(b)
	}
	var norm func(n any) any
	norm = func(n any) any {
		switch x := n.(type) {
		case nil:
			return []any{}
		case map[string]any:
			for k, v := range x {
				x[k] = norm(v)
			}
			return x
		case []any:
			for i, v := range x {
				x[i] = norm(v)
			}
			return x
		}
		return n
	}
	tree = norm(tree)
	if m, ok := tree.(map[string]any); ok {
		for _, k := range drop {
			delete(m, k)
		}
	}
	return tree
}

// sameLoose is [same] for values that came from a peer: JSON re-encodings are compared as trees modulo
// null / empty list; for VersionedAggregatedAttestation the validator index (carried by its JSON form only,
// documented deviation) is ignored.
func sameLoose(orig, back any) string {
	if reflect.TypeOf(orig) != reflect.TypeOf(back) {
		return fmt.Sprintf("type %T != %T", orig, back)
	}
	var j1, s1, j2, s2 []byte
	var r1, r2 string
	var e1, e2 error
	if p, msg := safe(func() { j1, s1, r1, e1 = canonical(orig) }); p {
		return "panic canonicalising the accepted value: " + msg
	}
	if p, msg := safe(func() { j2, s2, r2, e2 = canonical(back) }); p {
		return "panic canonicalising the result: " + msg
	}
	if e1 != nil || e2 != nil {
		return fmt.Sprintf("canonicalise: %v / %v", e1, e2)
	}
	var drop []string
	if _, ok := orig.(core.VersionedAggregatedAttestation); ok {
		drop = []string{"validator_index"}
	}
	if !reflect.DeepEqual(normJSON(j1, drop...), normJSON(j2, drop...)) {
		return "JSON re-encoding differs: " + firstDiff(j1, j2)
	}
	if !bytes.Equal(s1, s2) {
		return "SSZ re-encoding differs: " + firstDiff([]byte(hex.EncodeToString(s1)), []byte(hex.EncodeToString(s2)))
	}
	if r1 != r2 {
		return "signing root / signature differs: " + r1 + " vs " + r2
	}
	return ""
}

func firstDiff(a, b []byte) string {
	n := min(len(a), len(b))
	i := 0
	for i < n && a[i] == b[i] {
		i++
	}
	lo := max(0, i-30)
	return fmt.Sprintf("at %d: …%s… vs …%s… (len %d vs %d)", i, a[lo:min(len(a), i+30)], b[lo:min(len(b), i+30)], len(a), len(b))
}

func deref(ptr any) any { return reflect.ValueOf(ptr).Elem().Interface() }

func (rc *recorder) rtFail(e entry, path, why string, input []byte, format string) {
	kn := e.Name
	if e.KeyName != "" {
		kn = e.KeyName
	}
	rc.find(Finding{Key: "C14:roundtrip:" + kn + ":" + path, Class: "roundtrip", Type: e.GoType, Op: path, Duty: int(e.Duty), Signed: e.Signed,
		Format: format, Input: render(format, input), Msg: why, Entry: e.Name})
}

func (rc *recorder) roundTrips(t *testing.T, enc encoded, sszWire bool) {
	e, v := enc.e, enc.val
	mode := "ssz-wire"
	if !sszWire {
		mode = "json-wire"
	}
	if sszWire {
		// SSZ
		if enc.ssz != nil {
			rc.stat("roundtrip_ssz", 1)
			ptr := e.New()
			var err error
			if p, msg := safe(func() { err = ptr.(ssz.Unmarshaler).UnmarshalSSZ(enc.ssz) }); p {
				rc.rtFail(e, "ssz", "panic: "+msg, enc.json, "json")
			} else if err != nil {
				rc.rtFail(e, "ssz", "decode of own encoding failed: "+err.Error(), enc.json, "json")
			} else if d := same(v, deref(ptr)); d != "" {
				rc.rtFail(e, "ssz", d, enc.json, "json")
			}
		}
		// JSON
		rc.stat("roundtrip_json", 1)
		ptr := e.New()
		if err := json.Unmarshal(enc.json, ptr); err != nil {
			rc.rtFail(e, "json", "decode of own encoding failed: "+err.Error(), enc.json, "json")
		} else if d := same(v, deref(ptr)); d != "" {
			rc.rtFail(e, "json", d, enc.json, "json")
		}
		// Clone
		rc.stat("roundtrip_clone", 1)
		switch x := v.(type) {
		case core.SignedData:
			c, err := x.Clone()
			if err != nil {
				rc.rtFail(e, "clone", "clone failed: "+err.Error(), enc.json, "json")
			} else if d := same(v, c); d != "" {
				rc.rtFail(e, "clone", d, enc.json, "json")
			}
			psd := core.ParSignedData{SignedData: x, ShareIdx: 7}
			pc, err := psd.Clone()
			if err != nil || pc.ShareIdx != 7 {
				rc.rtFail(e, "clone-parsigned", fmt.Sprintf("ParSignedData.Clone: err=%v shareIdx=%d", err, pc.ShareIdx), enc.json, "json")
			} else if d := same(v, pc.SignedData); d != "" {
				rc.rtFail(e, "clone-parsigned", d, enc.json, "json")
			}
			if _, isSig := v.(core.Signature); !isSig {
				sig := make(core.Signature, 96)
				sig[0], sig[95] = 0xab, 0xcd
				ns, err := x.SetSignature(sig)
				if err != nil {
					rc.rtFail(e, "setsignature", "SetSignature failed: "+err.Error(), enc.json, "json")
				} else {
					r0, _ := x.MessageRoot()
					r1, _ := ns.MessageRoot()
					if r0 != r1 || !bytes.Equal(ns.Signature(), sig) {
						rc.rtFail(e, "setsignature", "SetSignature changed the message root or did not set the signature", enc.json, "json")
					}
					if same(v, x) != "" {
						rc.rtFail(e, "setsignature", "SetSignature modified its receiver", enc.json, "json")
					}
				}
			}
		case core.UnsignedData:
			c, err := x.Clone()
			if err != nil {
				rc.rtFail(e, "clone", "clone failed: "+err.Error(), enc.json, "json")
			} else if d := same(v, c); d != "" {
				rc.rtFail(e, "clone", d, enc.json, "json")
			}
		}
	}

	// protobuf (through the wire bytes), in the set form the components exchange
	if e.Duty == core.DutyUnknown {
		return
	}
	rc.stat("roundtrip_proto_"+mode, 1)
	if e.Signed {
		psd := core.ParSignedData{SignedData: v.(core.SignedData), ShareIdx: 3}
		set := core.ParSignedDataSet{testPK: psd, core.PubKey("0x" + strings.Repeat("ab", 48)): psd}
		pb, err := core.ParSignedDataSetToProto(set)
		if err != nil {
			rc.rtFail(e, "proto-"+mode, "ToProto failed: "+err.Error(), enc.json, "json")
			return
		}
		wire, err := proto.Marshal(pb)
		if err != nil {
			rc.rtFail(e, "proto-"+mode, "proto.Marshal failed: "+err.Error(), enc.json, "json")
			return
		}
		pb2 := new(pbv1.ParSignedDataSet)
		if err := proto.Unmarshal(wire, pb2); err != nil {
			rc.rtFail(e, "proto-"+mode, "proto.Unmarshal failed: "+err.Error(), enc.json, "json")
			return
		}
		back, err := core.ParSignedDataSetFromProto(e.Duty, pb2)
		if err != nil {
			rc.rtFail(e, "proto-"+mode, "FromProto of own encoding failed: "+err.Error(), enc.json, "json")
			return
		}
		if len(back) != 2 {
			rc.rtFail(e, "proto-"+mode, fmt.Sprintf("set size %d != 2", len(back)), enc.json, "json")
		}
		for k, b := range back {
			if _, ok := set[k]; !ok {
				rc.rtFail(e, "proto-"+mode, "unknown key came back", enc.json, "json")
			}
			if b.ShareIdx != 3 {
				rc.rtFail(e, "proto-"+mode, fmt.Sprintf("share index %d != 3", b.ShareIdx), enc.json, "json")
			}
			if d := same(v, b.SignedData); d != "" {
				rc.rtFail(e, "proto-"+mode, d, enc.json, "json")
			}
		}
		if !bytes.Equal(pb.GetSet()[string(testPK)].GetSignature(), psd.Signature()) {
			rc.rtFail(e, "proto-"+mode, "proto signature field differs from Signature()", enc.json, "json")
		}
	} else {
		set := core.UnsignedDataSet{testPK: v.(core.UnsignedData), core.PubKey("0x" + strings.Repeat("ab", 48)): v.(core.UnsignedData)}
		pb, err := core.UnsignedDataSetToProto(set)
		if err != nil {
			rc.rtFail(e, "proto-"+mode, "ToProto failed: "+err.Error(), enc.json, "json")
			return
		}
		wire, err := proto.Marshal(pb)
		if err != nil {
			rc.rtFail(e, "proto-"+mode, "proto.Marshal failed: "+err.Error(), enc.json, "json")
			return
		}
		pb2 := new(pbv1.UnsignedDataSet)
		if err := proto.Unmarshal(wire, pb2); err != nil {
			rc.rtFail(e, "proto-"+mode, "proto.Unmarshal failed: "+err.Error(), enc.json, "json")
			return
		}
		back, err := core.UnsignedDataSetFromProto(e.Duty, pb2)
		if err != nil {
			rc.rtFail(e, "proto-"+mode, "FromProto of own encoding failed: "+err.Error(), enc.json, "json")
			return
		}
		if len(back) != 2 {
			rc.rtFail(e, "proto-"+mode, fmt.Sprintf("set size %d != 2", len(back)), enc.json, "json")
		}
		for _, b := range back {
			if d := same(v, b); d != "" {
				rc.rtFail(e, "proto-"+mode, d, enc.json, "json")
			}
		}
	}
}

// ------------------------------------------------------------------------------------------------
// (a) envelope correspondence

func le64(b []byte) uint64 { return binary.LittleEndian.Uint64(b) }
func le32(b []byte) uint64 { return uint64(binary.LittleEndian.Uint32(b)) }

// header fields of a decoded enveloped value
func headerOf(ptr any) (ver uint64, flag bool, idx *uint64, v eth2util.DataVersion, err error) {
	switch p := ptr.(type) {
	case *core.VersionedSignedProposal:
		v, err = eth2util.DataVersionFromETH2(p.Version)
		flag = p.Blinded
	case *core.VersionedProposal:
		v, err = eth2util.DataVersionFromETH2(p.Version)
		flag = p.Blinded
	case *core.VersionedAttestation:
		v, err = eth2util.DataVersionFromETH2(p.Version)
		if p.ValidatorIndex != nil {
			i := uint64(*p.ValidatorIndex)
			idx = &i
		}
	case *core.VersionedSignedAggregateAndProof:
		v, err = eth2util.DataVersionFromETH2(p.Version)
	case *core.VersionedAggregatedAttestation:
		v, err = eth2util.DataVersionFromETH2(p.Version)
	default:
		err = fmt.Errorf("not an enveloped type %T", ptr)
	}
	if err == nil {
		ver = v.ToUint64()
	}
	return ver, flag, idx, v, err
}

func innerOf(t *testing.T, shape string, ptr any, v eth2util.DataVersion, blinded bool) sszCodec {
	if shape == "B" {
		return core.VersionedBlindedSSZValueForT(t, ptr, v, blinded)
	}
	return core.VersionedSSZValueForT(t, ptr, v)
}

func classOf(err error) uint64 {
	switch {
	case err == nil:
		return 0
	case errorsIs(err, ssz.ErrOffset):
		return 1
	default:
		return 2
	}
}

func (rc *recorder) envelopeCase(t *testing.T, e entry, b []byte, label string) {
	c := ECase{ID: rc.id(), Shape: e.Shape, Label: e.Name + ":" + label, Hex: hex.EncodeToString(b)}
	rc.stat("envelope_cases", 1)
	rc.stat("envelope_"+e.Shape, 1)

	// Go's outcome
	ptr := e.New()
	var err error
	if p, msg := safe(func() { err = ptr.(ssz.Unmarshaler).UnmarshalSSZ(b) }); p {
		c.Expect.Kind = "panic"
		rc.find(Finding{Key: "C14:panic:" + e.GoType + ":ssz-decode", Class: "decode-panic", Type: e.GoType, Op: "UnmarshalSSZ", Duty: int(e.Duty), Signed: e.Signed,
			Format: "ssz", Input: c.Hex, Msg: msg, Entry: e.Name})
	} else if err != nil {
		c.Expect.Kind = "err"
		rc.stat("envelope_go_err", 1)
	} else {
		rc.stat("envelope_go_ok", 1)
		var reenc, inner []byte
		if e.Shape == "A" {
			a := ptr.(*core.AttestationData)
			c.Expect.Kind = "okA"
			if len(b) >= 8 {
				c.Expect.O0, c.Expect.O1 = le32(b[0:4]), le32(b[4:8])
			}
			c.Expect.PK = hex.EncodeToString(a.Duty.PubKey[:])
			c.Expect.DutyNums = [6]uint64{uint64(a.Duty.Slot), uint64(a.Duty.ValidatorIndex), uint64(a.Duty.CommitteeIndex),
				a.Duty.CommitteeLength, a.Duty.CommitteesAtSlot, a.Duty.ValidatorCommitteeIndex}
			inner, _ = a.Data.MarshalSSZ()
			reenc, _ = a.MarshalSSZ()
			if o0, o1 := c.Expect.O0, c.Expect.O1; o0 <= o1 && o1 <= uint64(len(b)) && bytes.Equal(b[o0:o1], inner) {
				c.InnerIsSuffix = true
			}
		} else {
			ver, flag, idx, v, herr := headerOf(ptr)
			if herr != nil {
				t.Fatalf("header of decoded %s: %v", e.Name, herr)
			}
			c.Expect.Kind, c.Expect.Ver, c.Expect.Flag, c.Expect.Idx = "ok", ver, flag, idx
			inner, _ = innerOf(t, e.Shape, ptr, v, flag).MarshalSSZ()
			reenc, _ = deref(ptr).(ssz.Marshaler).MarshalSSZ()
			if bytes.HasSuffix(b, inner) {
				c.Expect.PStart, c.Expect.PStartKnown = uint64(len(b)-len(inner)), true
				c.InnerIsSuffix = true
			}
		}
		c.ReencIsInput = bytes.Equal(reenc, b)
		c.Inner, c.Reenc = hex.EncodeToString(inner), hex.EncodeToString(reenc)
		if c.InnerIsSuffix {
			c.Inner = ""
		}
		if c.ReencIsInput {
			c.Reenc = ""
		}
	}

	// inner-codec oracle
	switch e.Shape {
	case "A":
		if len(b) >= 8 {
			o0, o1 := le32(b[0:4]), le32(b[4:8])
			if 8 <= o0 && o0 <= o1 && o1 <= uint64(len(b)) {
				var d eth2p0.AttestationData
				var derr error
				if p, _ := safe(func() { derr = d.UnmarshalSSZ(b[o0:o1]) }); p {
					derr = fmt.Errorf("panic")
				}
				c.Oracle = append(c.Oracle, [4]uint64{o0, 0, o1, classOf(derr)})
			}
		}
	default:
		if len(b) >= 8 {
			ver := le64(b[0:8])
			if ver <= 6 {
				v := allVersions[ver]
				flag := false
				ok := true
				if e.Shape == "B" {
					if len(b) >= 9 {
						flag = b[8] == 1
					} else {
						ok = false
					}
				}
				if ok {
					starts := map[uint64]bool{uint64(len(b)): true}
					for o := 0; o <= min(len(b), 40); o++ {
						starts[uint64(o)] = true
					}
					for _, at := range []int{8, 9, 16} {
						if len(b) >= at+4 {
							if o := le32(b[at : at+4]); o <= uint64(len(b)) {
								starts[o] = true
							}
						}
					}
					keys := make([]uint64, 0, len(starts))
					for s := range starts {
						keys = append(keys, s)
					}
					sort.Slice(keys, func(i, j int) bool { return keys[i] < keys[j] })
					for _, s := range keys {
						fresh := e.New()
						in := innerOf(t, e.Shape, fresh, v, flag)
						var derr error
						if p, _ := safe(func() { derr = in.UnmarshalSSZ(b[s:]) }); p {
							derr = fmt.Errorf("panic")
						}
						fl := uint64(0)
						if flag {
							fl = 1
						}
						c.Oracle = append(c.Oracle, [4]uint64{ver, fl, s, classOf(derr)})
					}
				}
			}
		}
	}
	rc.out.ECases = append(rc.out.ECases, c)
}

func put32(b []byte, at int, v uint32) []byte {
	c := append([]byte(nil), b...)
	if len(c) >= at+4 {
		binary.LittleEndian.PutUint32(c[at:], v)
	}
	return c
}

func put64(b []byte, at int, v uint64) []byte {
	c := append([]byte(nil), b...)
	if len(c) >= at+8 {
		binary.LittleEndian.PutUint64(c[at:], v)
	}
	return c
}

type mutant struct {
	label string
	b     []byte
}

// envMutants: truncations around the fixed part, offset / version / flag / index edits, gap insertion,
// trailing bytes, splices with another encoding.
func envMutants(shape string, b, other []byte, r *rand.Rand) []mutant {
	var ms []mutant
	add := func(l string, x []byte) { ms = append(ms, mutant{l, x}) }
	fixed, offAt := 12, 8
	switch shape {
	case "B":
		fixed, offAt = 13, 9
	case "Att":
		fixed, offAt = 20, 16
	case "A":
		fixed, offAt = 8, 0
	}
	for n := 0; n <= fixed+9 && n <= len(b); n++ {
		add(fmt.Sprintf("trunc%d", n), b[:n])
	}
	for _, n := range []int{len(b) - 1, len(b) - 2, len(b) / 2, len(b) - 96, len(b) - 97} {
		if n > 0 && n < len(b) {
			add(fmt.Sprintf("trunc%d", n), b[:n])
		}
	}
	L := uint32(len(b))
	offs := []uint32{0, 1, uint32(fixed) - 1, uint32(fixed), uint32(fixed) + 1, uint32(fixed) + 4, L - 1, L, L + 1, 0xffffffff, 0x80000000, uint32(r.Intn(len(b) + 2))}
	for _, o := range offs {
		add(fmt.Sprintf("off@%d=%d", offAt, o), put32(b, offAt, o))
	}
	if shape == "Att" { // the legacy reading has its offset at 8
		for _, o := range offs {
			add(fmt.Sprintf("off@8=%d", o), put32(b, 8, o))
		}
		add("idx=max", put64(b, 8, ^uint64(0)))
	}
	if shape == "A" {
		for _, o := range []uint32{0, 7, 8, 9, 135, 136, 137, L - 96, L - 95, L, L + 1, 0xffffffff} {
			add(fmt.Sprintf("off@4=%d", o), put32(b, 4, o))
		}
		add("o0=9,gap", append(append(append([]byte(nil), put32(put32(b, 0, 9), 4, 137)[:8]...), 0xee), b[8:]...))
		add("o0>o1", put32(put32(b, 0, 140), 4, 136))
		add("o0=0,o1=128", put32(put32(b, 0, 0), 4, 128))
		add("o0=4,o1=132", put32(put32(b, 0, 4), 4, 132))
		add("o0=o1=8", put32(put32(b, 0, 8), 4, 8))
	} else {
		for _, v := range []uint64{0, 1, 2, 3, 4, 5, 6, 7, 8, 255, 256, 1 << 32, 1 << 63, ^uint64(0)} {
			add(fmt.Sprintf("ver=%d", v), put64(b, 0, v))
		}
		// gap bytes between header and payload with a matching offset
		for _, k := range []int{1, 3} {
			g := append([]byte(nil), b[:fixed]...)
			g = append(g, bytes.Repeat([]byte{0xee}, k)...)
			g = append(g, b[fixed:]...)
			add(fmt.Sprintf("gap%d", k), put32(g, offAt, uint32(fixed+k)))
		}
	}
	if shape == "B" {
		for _, f := range []byte{0, 1, 2, 255} {
			c := append([]byte(nil), b...)
			c[8] = f
			add(fmt.Sprintf("flag=%d", f), c)
		}
	}
	add("trail1", append(append([]byte(nil), b...), 0x00))
	add("trail5", append(append([]byte(nil), b...), 1, 2, 3, 4, 5))
	if len(other) > fixed && len(b) > fixed {
		add("splice-head", append(append([]byte(nil), other[:fixed]...), b[fixed:]...))
		cut := fixed + r.Intn(len(b)-fixed)
		if cut < len(other) {
			add("splice-mid", append(append([]byte(nil), b[:cut]...), other[cut:]...))
		}
	}
	for i := 0; i < 3; i++ {
		c := append([]byte(nil), b...)
		at := r.Intn(min(len(c), fixed+12))
		c[at] ^= byte(1 << uint(r.Intn(8)))
		add(fmt.Sprintf("flip@%d", at), c)
	}
	return ms
}

// ------------------------------------------------------------------------------------------------
// dispatch correspondence

var signedTypes = map[string]func() any{
	"VersionedAttestation":                 func() any { return new(core.VersionedAttestation) },
	"VersionedSignedProposal":              func() any { return new(core.VersionedSignedProposal) },
	"VersionedSignedValidatorRegistration": func() any { return new(core.VersionedSignedValidatorRegistration) },
	"SignedVoluntaryExit":                  func() any { return new(core.SignedVoluntaryExit) },
	"SignedRandao":                         func() any { return new(core.SignedRandao) },
	"Signature":                            func() any { return new(core.Signature) },
	"BeaconCommitteeSelection":             func() any { return new(core.BeaconCommitteeSelection) },
	"SignedAggregateAndProof":              func() any { return new(core.SignedAggregateAndProof) },
	"VersionedSignedAggregateAndProof":     func() any { return new(core.VersionedSignedAggregateAndProof) },
	"SignedSyncMessage":                    func() any { return new(core.SignedSyncMessage) },
	"SyncCommitteeSelection":               func() any { return new(core.SyncCommitteeSelection) },
	"SignedSyncContributionAndProof":       func() any { return new(core.SignedSyncContributionAndProof) },
}

var unsignedTypes = map[string]func() any{
	"AttestationData":                func() any { return new(core.AttestationData) },
	"VersionedProposal":              func() any { return new(core.VersionedProposal) },
	"VersionedAggregatedAttestation": func() any { return new(core.VersionedAggregatedAttestation) },
	"AggregatedAttestation":          func() any { return new(core.AggregatedAttestation) },
	"SyncContributions":              func() any { return new(core.SyncContributions) },
	"SyncContribution":               func() any { return new(core.SyncContribution) },
}

// usable: the accessors a validating decoder would exercise succeed on the value.
func usable(v any) bool {
	ok := false
	safe(func() {
		switch x := v.(type) {
		case core.SignedData:
			if _, isSig := v.(core.Signature); !isSig {
				if _, err := x.MessageRoot(); err != nil {
					return
				}
			}
			_ = x.Signature()
			if _, err := x.Clone(); err != nil {
				return
			}
			ok = true
		case core.UnsignedData:
			if _, err := x.MarshalJSON(); err != nil {
				return
			}
			if _, err := x.Clone(); err != nil {
				return
			}
			ok = true
		}
	})
	return ok
}

func typeOracle(types map[string]func() any, data []byte) map[string][5]bool {
	res := make(map[string][5]bool, len(types))
	for name, newf := range types {
		var hasSSZ, sszOK, jsonOK, sszUsable, jsonUsable bool
		ptr := newf()
		if u, ok := ptr.(ssz.Unmarshaler); ok {
			hasSSZ = true
			var err error
			if p, _ := safe(func() { err = u.UnmarshalSSZ(data) }); !p && err == nil {
				sszOK = true
				sszUsable = usable(deref(ptr))
			}
		}
		ptr = newf()
		var err error
		if p, _ := safe(func() { err = json.Unmarshal(data, ptr) }); !p && err == nil {
			jsonOK = true
			jsonUsable = usable(deref(ptr))
		}
		res[name] = [5]bool{hasSSZ, sszOK, jsonOK, sszUsable, jsonUsable}
	}
	return res
}

func (rc *recorder) dispatchCases(data []byte, label string) { rc.dispatchCasesFor(dutyTypes, data, label) }

func (rc *recorder) dispatchCasesFor(duties []core.DutyType, data []byte, label string) {
	so := typeOracle(signedTypes, data)
	uo := typeOracle(unsignedTypes, data)
	prefix := hex.EncodeToString(data[:min(len(data), 24)])
	for _, d := range duties {
		exp, vc := "", ""
		if p, _ := safe(func() {
			psd, err := decodeSigned(d, data)
			if err == nil {
				exp = goTypeName(psd.SignedData)
				vc = rc.ev.verifyClass(d, psd)
			}
		}); p {
			exp = "PANIC"
		}
		rc.out.DCases = append(rc.out.DCases, DCase{ID: rc.id(), Signed: true, Duty: int(d), Prefix: prefix, Oracle: so, Expect: exp, Label: label, Verify: vc})
		exp = ""
		if p, _ := safe(func() {
			ud, err := decodeUnsigned(d, data)
			if err == nil {
				exp = goTypeName(ud)
			}
		}); p {
			exp = "PANIC"
		}
		rc.out.DCases = append(rc.out.DCases, DCase{ID: rc.id(), Signed: false, Duty: int(d), Prefix: prefix, Oracle: uo, Expect: exp, Label: label})
		rc.stat("dispatch_cases", 2)
	}
}

// ------------------------------------------------------------------------------------------------
// structural JSON mutation

type jpath []any // string keys and int indices

func (p jpath) String() string {
	var sb strings.Builder
	for _, s := range p {
		switch x := s.(type) {
		case string:
			sb.WriteString("." + x)
		case int:
			sb.WriteString("[]")
		}
	}
	if sb.Len() == 0 {
		return "."
	}
	return sb.String()
}

func walk(node any, p jpath, visit func(p jpath, node any)) {
	visit(p, node)
	switch x := node.(type) {
	case map[string]any:
		keys := make([]string, 0, len(x))
		for k := range x {
			keys = append(keys, k)
		}
		sort.Strings(keys)
		for _, k := range keys {
			walk(x[k], append(append(jpath(nil), p...), k), visit)
		}
	case []any:
		for i, c := range x {
			walk(c, append(append(jpath(nil), p...), i), visit)
		}
	}
}

type removed struct{}

// rewrite returns a copy of node with the value at path p replaced by repl (removed{} deletes it).
func rewrite(node any, p jpath, repl any) any {
	if len(p) == 0 {
		return repl
	}
	switch x := node.(type) {
	case map[string]any:
		c := make(map[string]any, len(x))
		for k, v := range x {
			c[k] = v
		}
		k := p[0].(string)
		nv := rewrite(x[k], p[1:], repl)
		if _, del := nv.(removed); del {
			delete(c, k)
		} else {
			c[k] = nv
		}
		return c
	case []any:
		i := p[0].(int)
		c := make([]any, 0, len(x))
		for j, v := range x {
			if j == i {
				nv := rewrite(v, p[1:], repl)
				if _, del := nv.(removed); del {
					continue
				}
				c = append(c, nv)
			} else {
				c = append(c, v)
			}
		}
		return c
	}
	return node
}

func wrongTyped(node any) any {
	switch node.(type) {
	case string:
		return json.Number("7")
	case json.Number:
		return "x"
	case bool:
		return "x"
	case map[string]any:
		return []any{}
	case []any:
		return map[string]any{}
	default:
		return json.Number("7")
	}
}

var mutationKinds = []string{"null", "wrongtype", "emptylist", "listnull", "removed", "emptyobj"}

func mutationValue(kind string, node any) any {
	switch kind {
	case "null":
		return nil
	case "wrongtype":
		return wrongTyped(node)
	case "emptylist":
		return []any{}
	case "listnull":
		return []any{nil}
	case "removed":
		return removed{}
	case "emptyobj":
		return map[string]any{}
	}
	return nil
}

// jsonMutations explores every (node, kind) of one valid JSON encoding. budget < 0: everything.
func (e *env) jsonMutations(rc *recorder, en entry, js []byte, r *rand.Rand, kinds []string, sampleNonNull int) {
	dec := json.NewDecoder(bytes.NewReader(js))
	dec.UseNumber()
	var tree any
	if err := dec.Decode(&tree); err != nil {
		return
	}
	var paths []jpath
	var nodes []any
	walk(tree, nil, func(p jpath, n any) { paths = append(paths, p); nodes = append(nodes, n) })
	rc.stat("json_nodes", len(paths))
	duties := []core.DutyType{en.Duty}
	// bitlists / bitvectors (aggregation_bits, committee_bits, sync_committee_bits, ...): encodings that a
	// JSON decoder may take but that are not SSZ bitlists (no sentinel bit, trailing zero byte, empty), or have
	// another length
	for i, p := range paths {
		str, isStr := nodes[i].(string)
		if !isStr || len(p) == 0 {
			continue
		}
		if k, ok := p[len(p)-1].(string); !ok || !strings.Contains(k, "bits") {
			continue
		}
		body := strings.TrimPrefix(str, "0x")
		variants := [][2]string{{"bits-empty", "0x"}, {"bits-00", "0x00"}, {"bits-ff00", "0xff00"}, {"bits-0100", "0x0100"}, {"bits-01", "0x01"},
			{"bits-trailing00", "0x" + body + "00"}, {"bits-extra-byte", "0x" + body + "01"}, {"bits-0000", "0x0000"}, {"bits-nohex", body}}
		if len(body) >= 2 {
			variants = append(variants, [2]string{"bits-short", "0x" + body[:len(body)-2]})
			variants = append(variants, [2]string{"bits-last00", "0x" + body[:len(body)-2] + "00"})
		}
		for _, v := range variants {
			mj, err := json.Marshal(rewrite(tree, p, v[1]))
			if err != nil {
				continue
			}
			rc.stat("json_mutants", 1)
			rc.stat("json_mutants_bits", 1)
			kind, ps := v[0], p.String()
			e.explore(rc, duties, mj, "json", en.Name, func(signed bool, typ, op string) (string, string, string) {
				return "C14:panic:" + typ + ":" + kind + ":" + ps + ":" + op, kind, ps
			})
		}
	}
	for i, p := range paths {
		for _, kind := range kinds {
			if kind != "null" && sampleNonNull > 0 && r.Intn(sampleNonNull) != 0 {
				continue
			}
			if len(p) == 0 && kind == "removed" {
				continue
			}
			mt := rewrite(tree, p, mutationValue(kind, nodes[i]))
			if _, del := mt.(removed); del {
				continue
			}
			mj, err := json.Marshal(mt)
			if err != nil {
				continue
			}
			rc.stat("json_mutants", 1)
			rc.stat("json_mutants_"+kind, 1)
			ps := p.String()
			e.explore(rc, duties, mj, "json", en.Name, func(signed bool, typ, op string) (string, string, string) {
				return "C14:panic:" + typ + ":" + kind + ":" + ps + ":" + op, kind, ps
			})
		}
	}
}

// ------------------------------------------------------------------------------------------------
// set determinism: map entry order on the wire under Deterministic marshalling

func wireKeys(t *testing.T, b []byte) []string {
	var keys []string
	for len(b) > 0 {
		num, typ, n := protowire.ConsumeTag(b)
		if n < 0 {
			t.Fatalf("bad tag")
		}
		b = b[n:]
		if typ != protowire.BytesType {
			t.Fatalf("unexpected wire type")
		}
		ent, n := protowire.ConsumeBytes(b)
		if n < 0 {
			t.Fatalf("bad entry")
		}
		b = b[n:]
		if num != 1 {
			continue
		}
		for len(ent) > 0 {
			fn, ft, m := protowire.ConsumeTag(ent)
			ent = ent[m:]
			if ft != protowire.BytesType {
				t.Fatalf("unexpected entry field type")
			}
			val, m := protowire.ConsumeBytes(ent)
			ent = ent[m:]
			if fn == 1 {
				keys = append(keys, hex.EncodeToString(val))
			}
		}
	}
	return keys
}

func contains(l []string, x string) bool {
	for _, y := range l {
		if x == y {
			return true
		}
	}
	return false
}

func remove(l []string, x string) []string {
	var out []string
	for _, y := range l {
		if y != x {
			out = append(out, y)
		}
	}
	return out
}

func errorsIs(err, target error) bool {
	for err != nil {
		if err == target { //nolint:errorlint
			return true
		}
		u, ok := err.(interface{ Unwrap() error })
		if !ok {
			return false
		}
		err = u.Unwrap()
	}
	return false
}

// ------------------------------------------------------------------------------------------------

type Replay struct {
	Case   string `json:"case"`
	Key    string `json:"key"`
	Class  string `json:"class"`
	Type   string `json:"type"`
	Format string `json:"format"`
	Input  string `json:"input"`
	Duty   int    `json:"duty"`
	Signed bool   `json:"signed"`
}

func TestGen(t *testing.T) {
	seed := hx.Seed()
	thorough := hx.Thorough()
	r := rand.New(rand.NewSource(seed)) //nolint:gosec
	rc := &recorder{byKey: map[string]*Finding{}}
	rc.out.Stats = map[string]int{}
	ev := newEnv(t)
	rc.ev = ev

	// replay of one recorded input
	var rp Replay
	if ok, err := hx.ReadReplay(&rp); ok {
		if err != nil {
			t.Fatalf("replay: %v", err)
		}
		var data []byte
		if rp.Format == "json" {
			data = []byte(rp.Input)
		} else {
			data, _ = hex.DecodeString(rp.Input)
		}
		if rp.Class == "bigvalue" {
			rc.bigValues(t, seed, true, rp.Input)
			data = nil
		}
		if rp.Class == "roundtrip" {
			// the input is the JSON encoding of a value: rebuild the value and run the round trips on it
			for _, e := range catalogue() {
				if e.GoType != rp.Type {
					continue
				}
				ptr := e.New()
				if err := json.Unmarshal(data, ptr); err != nil {
					t.Fatalf("replay: the JSON of the value does not decode as %s: %v", rp.Type, err)
				}
				v := deref(ptr)
				jb, sb, _, err := canonical(v)
				if err != nil {
					t.Fatalf("replay: value does not encode: %v", err)
				}
				e.Name, e.KeyName = "replay:"+rp.Type, "replay:"+rp.Type
				rc.roundTrips(t, encoded{e: e, val: v, ssz: sb, json: jb}, true)
				break
			}
		}
		ev.explore(rc, dutyTypes, data, rp.Format, "replay", func(signed bool, typ, op string) (string, string, string) {
			return "replay:" + typ + ":" + op, "", ""
		})
		t.Run("accept-json-leg", func(t *testing.T) {
			core.DisableSSZMarshallingForT(t)
			for _, p := range ev.pending {
				ev.checkRT(rc, p, "json-wire")
			}
		})
		for _, f := range rc.out.Findings {
			fmt.Printf("REPLAY %s duty=%d signed=%v: %s\n", f.Key, f.Duty, f.Signed, f.Msg)
		}
		if err := hx.WriteJSON("codec_out.json", rc.out); err != nil {
			t.Fatal(err)
		}
		return
	}

	cat := catalogue()
	seedsPerEntry := 1
	if thorough {
		seedsPerEntry = 4
	}

	// ---- generate values
	var encs []encoded
	for si := 0; si < seedsPerEntry; si++ {
		for ei, e := range cat {
			g := newGen(t, seed*1000+int64(si)*131+int64(ei), 1+si%2, (si/2)%2)
			v := e.Gen(t, g)
			jb, sb, _, err := canonical(v)
			if err != nil {
				t.Fatalf("generator of %s produced a value that does not encode: %v", e.Name, err)
			}
			encs = append(encs, encoded{e: e, val: v, ssz: sb, json: jb})
		}
	}
	rc.stat("values", len(encs))

	// ---- (b) round trips, SSZ wire then JSON wire
	for _, enc := range encs {
		rc.roundTrips(t, enc, true)
	}
	t.Run("jsonwire", func(t *testing.T) {
		core.DisableSSZMarshallingForT(t)
		for _, enc := range encs {
			rc.roundTrips(t, enc, false)
		}
	})

	// edge templates: legacy attestations (no validator index) whose slot makes the first (indexed)
	// reading pass its offset check
	for _, e := range cat {
		if e.GoType != "VersionedAttestation" || !strings.HasSuffix(e.Name, "/noidx") {
			continue
		}
		for _, slot := range []uint64{20, 20 + 1<<32, 12, 0} {
			g := newGen(t, seed+int64(slot), 1, 0)
			a := e.Gen(t, g).(core.VersionedAttestation)
			d, _ := a.Data()
			d.Slot = eth2p0.Slot(slot)
			jb, sb, _, err := canonical(a)
			if err != nil {
				t.Fatalf("edge attestation: %v", err)
			}
			ee := e
			ee.Name = fmt.Sprintf("%s/slot=%d", e.Name, slot)
			if slot == 20 || slot == 20+1<<32 {
				ee.Name = fmt.Sprintf("%s/slot=20mod2^32", e.Name)
				ee.KeyName = "VersionedAttestation:noidx-slot=20mod2^32"
			}
			enc := encoded{e: ee, val: a, ssz: sb, json: jb}
			rc.roundTrips(t, enc, true)
			encs = append(encs, enc)
		}
	}

	// ---- leading byte of own SSZ encodings: unmarshal decides between SSZ and JSON by looking at the first
	// non-space byte, so values whose SSZ encoding starts like JSON ('{', '[', '"'), with white space (followed
	// by '{'), 0x00 or 0xff are generated for every type that has an SSZ encoding.  The leading field (slot,
	// index, version, offset) is steered through the encoding itself: the first byte(s) of a valid encoding are
	// overwritten and the result is kept when it decodes to a value that re-encodes to exactly those bytes
	// (then it IS the own encoding of that value); otherwise that first byte is unreachable for the type.
	rc.out.FirstBytes = map[string]*FirstBytes{}
	leads := [][]byte{{'{'}, {'['}, {'"'}, {' '}, {'\t'}, {'\r'}, {'\n'}, {0x00}, {0xff},
		{' ', '{'}, {'\t', '{'}, {'\n', '{'}, {'\r', '{'}, {0x0b, '{'}, {0x0c, '{'}, {' ', '\n', '{'}, {'{', '}'}}
	doneLead := map[string]bool{}
	for _, enc := range encs {
		if enc.ssz == nil {
			continue
		}
		if _, isM := enc.val.(ssz.Marshaler); !isM {
			continue
		}
		if doneLead[enc.e.Name] && !thorough {
			continue
		}
		doneLead[enc.e.Name] = true
		fb := rc.out.FirstBytes[enc.e.GoType]
		if fb == nil {
			fb = &FirstBytes{}
			rc.out.FirstBytes[enc.e.GoType] = fb
		}
		for _, lead := range leads {
			name := hex.EncodeToString(lead)
			if len(enc.ssz) < len(lead) {
				continue
			}
			b := append([]byte(nil), enc.ssz...)
			copy(b, lead)
			ptr := enc.e.New()
			var err error
			ok := false
			if p, _ := safe(func() { err = ptr.(ssz.Unmarshaler).UnmarshalSSZ(b) }); !p && err == nil {
				if m, isM := deref(ptr).(ssz.Marshaler); isM {
					if re, err := m.MarshalSSZ(); err == nil && bytes.Equal(re, b) {
						ok = true
					}
				}
			}
			rc.stat("first_byte_attempts", 1)
			if !ok {
				if !contains(fb.Reachable, name) && !contains(fb.Unreachable, name) {
					fb.Unreachable = append(fb.Unreachable, name)
				}
				continue
			}
			if !contains(fb.Reachable, name) {
				fb.Reachable = append(fb.Reachable, name)
				fb.Unreachable = remove(fb.Unreachable, name)
			}
			v := deref(ptr)
			jb, sb, _, err := canonical(v)
			if err != nil {
				continue // e.g. a version switch that leaves the value without message root
			}
			ee := enc.e
			ee.Name = enc.e.Name + "/first-bytes=" + name
			ee.KeyName = enc.e.GoType + ":first-bytes=" + name
			rc.stat("first_byte_values", 1)
			rc.roundTrips(t, encoded{e: ee, val: v, ssz: sb, json: jb}, true)
			rc.dispatchCasesFor([]core.DutyType{enc.e.Duty, core.DutyAttester, core.DutyUnknown}, sb, ee.Name+":ssz")
		}
	}

	// wire-format ambiguity witness (see C14_envelope_roundtrip_Att_legacy_refuted_ambiguous): a legacy attestation
	// whose slot is F*2^32+20 (F = fixed size of the attestation) and whose aggregation bits have >= 9 bytes
	for _, e := range cat {
		if e.GoType != "VersionedAttestation" || !strings.HasSuffix(e.Name, "/noidx") {
			continue
		}
		a := e.Gen(t, newGen(t, seed+77, 1, 0)).(core.VersionedAttestation)
		fixedPart := uint64(228)
		if a.Electra != nil || a.Fulu != nil {
			fixedPart = 236
		}
		d, _ := a.Data()
		d.Slot = eth2p0.Slot(fixedPart<<32 | 20)
		bits := make([]byte, 12)
		bits[11] = 1
		switch {
		case a.Electra != nil:
			a.Electra.AggregationBits = bits
		case a.Fulu != nil:
			a.Fulu.AggregationBits = bits
		default:
			for _, p := range []*eth2p0.Attestation{a.Phase0, a.Altair, a.Bellatrix, a.Capella, a.Deneb} {
				if p != nil {
					p.AggregationBits = bits
				}
			}
		}
		b, err := a.MarshalSSZ()
		if err != nil {
			t.Fatalf("ambiguity witness does not encode: %v", err)
		}
		var back core.VersionedAttestation
		rc.stat("ambiguity_templates", 1)
		if err := back.UnmarshalSSZ(b); err == nil && back.ValidatorIndex != nil {
			bd, _ := back.Data()
			rc.out.Deviations = append(rc.out.Deviations, Deviation{
				What: fmt.Sprintf("%s with data.slot=%d and 12 bytes of aggregation bits decodes from its own SSZ encoding as an attestation with validator index %d and data.slot=%d",
					e.Name, uint64(d.Slot), uint64(*back.ValidatorIndex), uint64(bd.Slot)),
				Input: hex.EncodeToString(b)})
		} else if err != nil || same(a, back) != "" {
			rc.find(Finding{Key: "C14:roundtrip:VersionedAttestation:noidx-ambiguous-slot:ssz", Class: "roundtrip", Type: "VersionedAttestation", Op: "ssz",
				Duty: int(core.DutyAttester), Signed: true, Format: "ssz", Input: hex.EncodeToString(b), Msg: fmt.Sprintf("unexpected outcome on the ambiguity witness: err=%v", err), Entry: e.Name})
		}
		rc.envelopeCase(t, e, b, "ambiguous-slot")
	}

	// ---- (a) envelope correspondence
	// every generated value of an enveloped type: its own encoding
	bySh := map[string][]encoded{}
	maxHex := 60000
	for _, enc := range encs {
		if enc.e.Shape == "" || enc.ssz == nil {
			continue
		}
		bySh[enc.e.Shape] = append(bySh[enc.e.Shape], enc)
		if len(enc.ssz)*2 <= maxHex {
			rc.envelopeCase(t, enc.e, enc.ssz, "valid")
		} else {
			rc.stat("envelope_skipped_too_large", 1)
		}
	}
	// mutation bases: one small value per (type, version, variant) of each shape; the quick tier mutates
	// a seed-dependent selection of them, the thorough tier all
	bases := map[string][]encoded{}
	for ei, e := range cat {
		if e.Shape == "" {
			continue
		}
		ml := 1
		if e.Shape == "B" {
			ml = 0
		}
		v := e.Gen(t, newGen(t, seed*7919+int64(ei), ml, 0))
		_, sb, _, err := canonical(v)
		if err != nil {
			t.Fatalf("base value of %s does not encode: %v", e.Name, err)
		}
		bases[e.Shape] = append(bases[e.Shape], encoded{e: e, val: v, ssz: sb})
	}
	for _, enc := range encs { // the edge attestations too
		if strings.Contains(enc.e.Name, "/slot=") {
			bases["Att"] = append(bases["Att"], enc)
		}
	}
	quickBases := map[string]int{"B": 4, "V": 4, "Att": 7, "A": 1}
	for _, sh := range []string{"B", "V", "Att", "A"} {
		list := bases[sh]
		n := len(list)
		if !thorough {
			n = min(n, quickBases[sh])
		}
		start := int(seed) % len(list)
		stride := max(1, len(list)/n)
		for k := 0; k < n; k++ {
			i := (start + k*stride) % len(list)
			enc := list[i]
			other := list[(i+1)%len(list)].ssz
			rc.stat("envelope_mutation_bases", 1)
			for _, m := range envMutants(sh, enc.ssz, other, r) {
				rc.envelopeCase(t, enc.e, m.b, m.label)
			}
		}
	}
	// arbitrary short byte strings under every shape
	for i := 0; i < 40; i++ {
		b := make([]byte, r.Intn(40))
		_, _ = r.Read(b)
		if len(b) > 0 && i%2 == 0 {
			b[0] = byte(r.Intn(7))
			for j := 1; j < min(8, len(b)); j++ {
				b[j] = 0
			}
		}
		for _, sh := range []string{"B", "V", "Att", "A"} {
			rc.envelopeCase(t, bySh[sh][0].e, b, fmt.Sprintf("random%d", i))
		}
	}

	// ---- dispatch correspondence + cross-type decoding with post-decode operations
	noKey := func(tag string) func(bool, string, string) (string, string, string) {
		return func(signed bool, typ, op string) (string, string, string) {
			return "C14:panic:" + typ + ":" + tag + ":" + op, tag, ""
		}
	}
	seenType := map[string]int{}
	lastOfType := map[string]string{}
	for _, enc := range encs {
		lastOfType[enc.e.GoType] = enc.e.Name
	}
	firstSeen := map[string]bool{}
	for _, enc := range encs {
		limit := 1
		if thorough {
			limit = 3
		}
		if seenType[enc.e.Name] >= limit {
			continue
		}
		seenType[enc.e.Name]++
		if !thorough { // quick: the first and the last variant of each Go type
			if firstSeen[enc.e.GoType] && lastOfType[enc.e.GoType] != enc.e.Name {
				continue
			}
			firstSeen[enc.e.GoType] = true
		}
		if enc.ssz != nil {
			rc.dispatchCases(enc.ssz, enc.e.Name+":ssz")
			ev.explore(rc, dutyTypes, enc.ssz, "ssz", enc.e.Name, noKey("valid-ssz-crosstype"))
		}
		rc.dispatchCases(enc.json, enc.e.Name+":json")
		ev.explore(rc, dutyTypes, enc.json, "json", enc.e.Name, noKey("valid-json-crosstype"))
		ws := append([]byte(" \n\t"), enc.json...)
		rc.dispatchCases(ws, enc.e.Name+":json-ws")
	}
	// JSON objects carrying the keys of two sibling types at once are accepted by both decoders of a duty
	// type with a fallback (Go ignores unknown keys): they make the order of the two attempts observable
	mergeJSON := func(a, b []byte) []byte {
		var ma, mb map[string]json.RawMessage
		if json.Unmarshal(a, &ma) != nil || json.Unmarshal(b, &mb) != nil {
			return nil
		}
		for k, v := range mb {
			if _, dup := ma[k]; !dup {
				ma[k] = v
			}
		}
		out, _ := json.Marshal(ma)
		return out
	}
	firstOf := func(goType string) []byte {
		for _, enc := range encs {
			if enc.e.GoType == goType {
				return enc.json
			}
		}
		return nil
	}
	for _, pair := range [][2]string{{"VersionedAggregatedAttestation", "AggregatedAttestation"}, {"SignedAggregateAndProof", "VersionedSignedAggregateAndProof"},
		{"VersionedSignedProposal", "VersionedAttestation"}} {
		if m := mergeJSON(firstOf(pair[0]), firstOf(pair[1])); m != nil {
			rc.dispatchCases(m, "merged-json:"+pair[0]+"+"+pair[1])
			ev.explore(rc, dutyTypes, m, "json", "merged:"+pair[0]+"+"+pair[1], noKey("merged-json"))
		}
	}
	for _, s := range []string{"", "{", "{}", "[]", "[{}]", "null", "[null]", "\"\"", "0", " {", "\x00{", "{\"version\":0}", " {}", "\x0b{}"} {
		rc.dispatchCases([]byte(s), "literal:"+s)
		ev.explore(rc, dutyTypes, []byte(s), "json", "literal", noKey("literal:"+s))
	}

	// ---- (c) JSON structural mutation
	kinds := mutationKinds
	sample := 4
	if thorough {
		sample = 0
	}
	seenJSON := map[string]int{}
	for _, enc := range encs {
		if enc.e.Duty == core.DutyUnknown {
			continue
		}
		lim := 1
		if thorough {
			lim = 2
		}
		if seenJSON[enc.e.Name] >= lim {
			continue
		}
		seenJSON[enc.e.Name]++
		ev.jsonMutations(rc, enc.e, enc.json, r, kinds, sample)
	}

	// ---- (c) SSZ truncations / splices / arbitrary bytes, every duty type
	nTrunc := 12
	if thorough {
		nTrunc = 60
	}
	seenSSZ := map[string]bool{}
	for i, enc := range encs {
		if enc.ssz == nil || seenSSZ[enc.e.Name] && !thorough {
			continue
		}
		seenSSZ[enc.e.Name] = true
		b := enc.ssz
		duties := []core.DutyType{enc.e.Duty}
		cuts := map[int]bool{}
		for k := 0; k < nTrunc; k++ {
			cuts[r.Intn(len(b))] = true
		}
		for n := 0; n < min(len(b), 24); n++ {
			cuts[n] = true
		}
		for n := range cuts {
			ev.explore(rc, duties, b[:n], "ssz", enc.e.Name, noKey("ssz-trunc"))
			rc.stat("ssz_mutants", 1)
		}
		other := encs[(i+7)%len(encs)].ssz
		if other != nil {
			for k := 0; k < nTrunc/2; k++ {
				cut := r.Intn(len(b))
				if cut < len(other) {
					sp := append(append([]byte(nil), b[:cut]...), other[cut:]...)
					ev.explore(rc, duties, sp, "ssz", enc.e.Name, noKey("ssz-splice"))
					rc.stat("ssz_mutants", 1)
				}
			}
		}
		// edits of 4-byte little-endian words in the first 256 bytes (offsets, lengths)
		for k := 0; k < nTrunc; k++ {
			c := append([]byte(nil), b...)
			at := r.Intn(min(len(c), 256))
			vals := []uint32{0, 1, 4, uint32(len(c)), uint32(len(c)) + 1, 0xffffffff, uint32(r.Intn(len(c) + 1))}
			if at+4 <= len(c) {
				binary.LittleEndian.PutUint32(c[at:], vals[r.Intn(len(vals))])
			} else {
				c[at] ^= 0xff
			}
			ev.explore(rc, duties, c, "ssz", enc.e.Name, noKey("ssz-word"))
			rc.stat("ssz_mutants", 1)
		}
	}
	// random strings of exactly the fixed SSZ size of every type whose pointer is an ssz.Unmarshaler
	fixedSizes := map[int]bool{}
	for _, m := range []map[string]func() any{signedTypes, unsignedTypes} {
		names := make([]string, 0, len(m))
		for n := range m {
			names = append(names, n)
		}
		sort.Strings(names)
		for _, n := range names {
			sz, ok := m[n]().(interface{ SizeSSZ() int })
			if _, isU := m[n]().(ssz.Unmarshaler); !ok || !isU {
				continue
			}
			size := 0
			safe(func() { size = sz.SizeSSZ() })
			if size <= 0 {
				continue
			}
			fixedSizes[size] = true
			for k := 0; k < 6; k++ {
				b := make([]byte, size)
				switch k {
				case 0: // all zero
				case 1:
					for i := range b {
						b[i] = 0xff
					}
				default:
					_, _ = r.Read(b)
				}
				rc.dispatchCases(b, fmt.Sprintf("fixed-size:%s:%d", n, k))
				ev.explore(rc, dutyTypes, b, "bytes", "fixed-size:"+n, noKey("fixed-size-ssz-bytes"))
				rc.stat("fixed_size_inputs", 1)
			}
		}
	}

	nArb := 300
	if thorough {
		nArb = 3000
	}
	for i := 0; i < nArb; i++ {
		n := r.Intn(300)
		for fixedSizes[n] { // strings of exactly a fixed SSZ size are a template of their own (above)
			n++
		}
		b := make([]byte, n)
		_, _ = r.Read(b)
		switch i % 4 {
		case 1:
			if len(b) > 0 {
				b[0] = '{'
			}
		case 2:
			if len(b) >= 13 {
				copy(b, []byte{byte(r.Intn(7)), 0, 0, 0, 0, 0, 0, 0})
				binary.LittleEndian.PutUint32(b[8:], uint32(12+r.Intn(3)))
			}
		}
		ev.explore(rc, dutyTypes, b, "bytes", "arbitrary", noKey("arbitrary"))
		rc.stat("arbitrary_inputs", 1)
	}

	// ---- determinism of set marshalling under shuffled insertion orders
	nSets := 30
	if thorough {
		nSets = 200
	}
	var attEnc *encoded
	for i := range encs {
		if encs[i].e.Name == "VersionedAttestation/deneb" {
			attEnc = &encs[i]
		}
	}
	for i := 0; i < nSets; i++ {
		n := 2 + r.Intn(9)
		keys := make([]core.PubKey, n)
		for k := range keys {
			raw := make([]byte, 48)
			_, _ = r.Read(raw)
			keys[k] = core.PubKey("0x" + hex.EncodeToString(raw))
		}
		var first []byte
		var firstKeys []string
		for rep := 0; rep < 4; rep++ {
			perm := r.Perm(n)
			set := make(core.ParSignedDataSet)
			for _, pi := range perm {
				set[keys[pi]] = core.ParSignedData{SignedData: attEnc.val.(core.SignedData), ShareIdx: 1 + pi}
			}
			pb, err := core.ParSignedDataSetToProto(set)
			if err != nil {
				t.Fatalf("set to proto: %v", err)
			}
			wire, err := proto.MarshalOptions{Deterministic: true}.Marshal(pb)
			if err != nil {
				t.Fatalf("marshal: %v", err)
			}
			if rep == 0 {
				first = wire
				firstKeys = wireKeys(t, wire)
				ins := make([]string, n)
				for k, pi := range perm {
					ins[k] = hex.EncodeToString([]byte(keys[pi]))
				}
				rc.out.SetCases = append(rc.out.SetCases, SetCase{ID: rc.id(), Inserted: ins, Wire: firstKeys})
			} else if !bytes.Equal(first, wire) {
				rc.find(Finding{Key: "C14:determinism:ParSignedDataSet", Class: "roundtrip", Type: "ParSignedDataSet", Op: "deterministic-marshal",
					Format: "bytes", Input: hex.EncodeToString(wire), Msg: "equal sets built in different insertion orders marshal differently"})
			}
			rc.stat("set_marshal", 1)
		}
	}

	// ---- the largest values through the real parsigex / p2p framing with default options
	rc.bigValues(t, seed, thorough, "")

	// ---- JSON-wire leg of accept => re-encode round trip, for everything any decode above accepted
	t.Run("accept-json-leg", func(t *testing.T) {
		core.DisableSSZMarshallingForT(t)
		for _, p := range ev.pending {
			ev.checkRT(rc, p, "json-wire")
		}
	})

	rc.out.Samples = []string{}
	for i, c := range rc.out.ECases {
		if i%97 == 0 && len(rc.out.Samples) < 3 {
			rc.out.Samples = append(rc.out.Samples, fmt.Sprintf("%s %s -> %s", c.Shape, c.Label, c.Expect.Kind))
		}
	}
	if err := hx.WriteJSON("codec_out.json", rc.out); err != nil {
		t.Fatal(err)
	}
	fmt.Fprintf(os.Stderr, "codec: %d values, %d envelope cases, %d dispatch cases, %d findings\n", len(encs), len(rc.out.ECases), len(rc.out.DCases), len(rc.out.Findings))
}
