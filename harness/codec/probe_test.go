package codec

import (
	"fmt"
	"testing"

	eth2spec "github.com/attestantio/go-eth2-client/spec"
	eth2p0 "github.com/attestantio/go-eth2-client/spec/phase0"

	"github.com/obolnetwork/charon/core"
	"github.com/obolnetwork/charon/eth2util"
	"github.com/obolnetwork/charon/testutil"
)

func TestProbe(t *testing.T) {
	att := testutil.RandomPhase0Attestation()
	att.Data.Slot = 20
	va := core.VersionedAttestation{VersionedAttestation: eth2spec.VersionedAttestation{Version: eth2spec.DataVersionDeneb, Deneb: att}}
	b, err := va.MarshalSSZ()
	fmt.Println("len", len(b), err)
	var out core.VersionedAttestation
	err = out.UnmarshalSSZ(b)
	fmt.Println("decode slot20 no validx:", err)
	att.Data.Slot = 21
	b, _ = va.MarshalSSZ()
	var out2 core.VersionedAttestation
	fmt.Println("decode slot21 no validx:", out2.UnmarshalSSZ(b), out2.ValidatorIndex)
	// crafted: slot 20, index 228
	att.Data.Slot = 20
	att.Data.Index = 228
	att.AggregationBits = make([]byte, 16)
	att.AggregationBits[15] = 1
	b, _ = va.MarshalSSZ()
	var out3 core.VersionedAttestation
	err = out3.UnmarshalSSZ(b)
	fmt.Println("decode crafted:", err)
	if err == nil {
		fmt.Println(out3.ValidatorIndex != nil, out3.Deneb.Data.Slot, att.Data.Slot)
	}
	f := testutil.NewEth2Fuzzer(t, 1)
	for _, v := range []eth2util.DataVersion{eth2util.DataVersionPhase0, eth2util.DataVersionDeneb, eth2util.DataVersionFulu} {
		for _, bl := range []bool{false, true} {
			var p core.VersionedSignedProposal
			p.Version = v.ToETH2()
			p.Blinded = bl
			val := core.VersionedBlindedSSZValueForT(t, &p, v, bl)
			f.Fuzz(val)
			b, err := p.MarshalSSZ()
			fmt.Println(v, bl, len(b), err)
		}
	}
	_ = eth2p0.Slot(0)
}
