// Catalogue of every core duty data type x fork version (blinded / full) and seeded generators.
package codec

import (
	"fmt"
	"math/rand"
	"reflect"
	"testing"

	eth2spec "github.com/attestantio/go-eth2-client/spec"
	eth2p0 "github.com/attestantio/go-eth2-client/spec/phase0"
	fuzz "github.com/google/gofuzz"

	"github.com/obolnetwork/charon/core"
	"github.com/obolnetwork/charon/eth2util"
	"github.com/obolnetwork/charon/testutil"
)

var allVersions = []eth2util.DataVersion{
	eth2util.DataVersionPhase0, eth2util.DataVersionAltair, eth2util.DataVersionBellatrix,
	eth2util.DataVersionCapella, eth2util.DataVersionDeneb, eth2util.DataVersionElectra, eth2util.DataVersionFulu,
}

func blindable(v eth2util.DataVersion) bool {
	return v != eth2util.DataVersionPhase0 && v != eth2util.DataVersionAltair
}

// sszCodec is what core.Versioned*SSZValueForT returns (core.sszType is unexported).
type sszCodec interface {
	MarshalSSZ() ([]byte, error)
	UnmarshalSSZ([]byte) error
}

// entry is one (type, version, variant) of duty data.
type entry struct {
	Name    string // e.g. VersionedSignedProposal/deneb/blinded
	KeyName string // name used in finding keys when it differs from Name
	GoType  string // e.g. VersionedSignedProposal
	Signed  bool
	Duty    core.DutyType
	Shape   string // envelope shape of core/ssz.go: B, V, Att, A or ""
	Version eth2util.DataVersion
	Blinded bool
	New     func() any                  // pointer to a zero value of the Go type
	Gen     func(t *testing.T, g *gen) any // value (not pointer)
}

type gen struct {
	f       *fuzz.Fuzzer
	r       *rand.Rand
	maxList int  // every non-byte slice is truncated to this length
	blobs   int  // max number of blobs kept
	t       *testing.T
}

func newGen(t *testing.T, seed int64, maxList, blobs int) *gen {
	return &gen{f: testutil.NewEth2Fuzzer(t, seed), r: rand.New(rand.NewSource(seed)), maxList: maxList, blobs: blobs, t: t} //nolint:gosec
}

// trim walks a fuzzed eth2 value and truncates lists so that SSZ max-lengths hold and sizes stay small.
func (g *gen) trim(v reflect.Value) {
	switch v.Kind() {
	case reflect.Pointer, reflect.Interface:
		if !v.IsNil() {
			g.trim(v.Elem())
		}
	case reflect.Struct:
		for i := range v.NumField() {
			if v.Field(i).CanSet() {
				g.trim(v.Field(i))
			}
		}
	case reflect.Slice:
		et := v.Type().Elem()
		if et.Kind() == reflect.Uint8 {
			return
		}
		limit := g.maxList
		if et.Kind() == reflect.Array && et.Len() > 4096 { // blobs
			limit = g.blobs
		}
		if v.Len() > limit {
			v.Set(v.Slice(0, limit))
		}
		for i := range v.Len() {
			g.trim(v.Index(i))
		}
	case reflect.Array:
		if v.Type().Elem().Kind() == reflect.Uint8 {
			return
		}
		for i := range v.Len() {
			g.trim(v.Index(i))
		}
	}
}

func (g *gen) fuzzInner(inner any) {
	g.f.Fuzz(inner)
	g.trim(reflect.ValueOf(inner))
}

func (g *gen) fuzzPlain(ptr any) {
	g.f.Fuzz(ptr)
	g.trim(reflect.ValueOf(ptr))
}

func catalogue() []entry {
	var es []entry

	for _, v := range allVersions {
		for _, bl := range []bool{false, true} {
			if bl && !blindable(v) {
				continue
			}
			v, bl := v, bl
			suffix := string(v)
			if bl {
				suffix += "/blinded"
			}
			es = append(es, entry{
				Name: "VersionedSignedProposal/" + suffix, GoType: "VersionedSignedProposal", Signed: true, Duty: core.DutyProposer,
				Shape: "B", Version: v, Blinded: bl,
				New: func() any { return new(core.VersionedSignedProposal) },
				Gen: func(t *testing.T, g *gen) any {
					var p core.VersionedSignedProposal
					p.Version, p.Blinded = v.ToETH2(), bl
					g.fuzzInner(core.VersionedBlindedSSZValueForT(t, &p, v, bl))
					return p
				},
			})
			es = append(es, entry{
				Name: "VersionedProposal/" + suffix, GoType: "VersionedProposal", Signed: false, Duty: core.DutyProposer,
				Shape: "B", Version: v, Blinded: bl,
				New: func() any { return new(core.VersionedProposal) },
				Gen: func(t *testing.T, g *gen) any {
					var p core.VersionedProposal
					p.Version, p.Blinded = v.ToETH2(), bl
					g.fuzzInner(core.VersionedBlindedSSZValueForT(t, &p, v, bl))
					return p
				},
			})
		}
	}

	for _, v := range allVersions {
		v := v
		for _, withIdx := range []bool{true, false} {
			withIdx := withIdx
			name := "VersionedAttestation/" + string(v)
			if !withIdx {
				name += "/noidx"
			}
			es = append(es, entry{
				Name: name, GoType: "VersionedAttestation", Signed: true, Duty: core.DutyAttester, Shape: "Att", Version: v,
				New: func() any { return new(core.VersionedAttestation) },
				Gen: func(t *testing.T, g *gen) any {
					var a core.VersionedAttestation
					a.Version = v.ToETH2()
					if withIdx {
						idx := eth2p0.ValidatorIndex(g.r.Uint64())
						if g.r.Intn(2) == 0 {
							idx = eth2p0.ValidatorIndex(g.r.Intn(1 << 20))
						}
						a.ValidatorIndex = &idx
					}
					g.fuzzInner(core.VersionedSSZValueForT(t, &a, v))
					return a
				},
			})
		}
		es = append(es, entry{
			Name: "VersionedSignedAggregateAndProof/" + string(v), GoType: "VersionedSignedAggregateAndProof", Signed: true,
			Duty: core.DutyAggregator, Shape: "V", Version: v,
			New: func() any { return new(core.VersionedSignedAggregateAndProof) },
			Gen: func(t *testing.T, g *gen) any {
				var a core.VersionedSignedAggregateAndProof
				a.Version = v.ToETH2()
				g.fuzzInner(core.VersionedSSZValueForT(t, &a, v))
				return a
			},
		})
		es = append(es, entry{
			Name: "VersionedAggregatedAttestation/" + string(v), GoType: "VersionedAggregatedAttestation", Signed: false,
			Duty: core.DutyAggregator, Shape: "V", Version: v,
			New: func() any { return new(core.VersionedAggregatedAttestation) },
			Gen: func(t *testing.T, g *gen) any {
				var a core.VersionedAggregatedAttestation
				a.Version = v.ToETH2()
				g.fuzzInner(core.VersionedSSZValueForT(t, &a, v))
				return a
			},
		})
	}

	plain := func(name string, signed bool, duty core.DutyType, shape string, newf func() any, genf func(t *testing.T, g *gen) any) {
		es = append(es, entry{Name: name, GoType: name, Signed: signed, Duty: duty, Shape: shape, New: newf, Gen: genf})
	}

	plain("VersionedSignedValidatorRegistration", true, core.DutyBuilderRegistration, "",
		func() any { return new(core.VersionedSignedValidatorRegistration) },
		func(t *testing.T, g *gen) any {
			var r core.VersionedSignedValidatorRegistration
			r.Version = eth2spec.BuilderVersionV1
			g.fuzzPlain(&r.V1)
			return r
		})
	plain("SignedVoluntaryExit", true, core.DutyExit, "",
		func() any { return new(core.SignedVoluntaryExit) },
		func(t *testing.T, g *gen) any { var e core.SignedVoluntaryExit; g.fuzzPlain(&e); return e })
	plain("SignedRandao", true, core.DutyRandao, "",
		func() any { return new(core.SignedRandao) },
		func(t *testing.T, g *gen) any { var e core.SignedRandao; g.fuzzPlain(&e); return e })
	plain("Signature", true, core.DutySignature, "",
		func() any { return new(core.Signature) },
		func(t *testing.T, g *gen) any {
			s := make(core.Signature, 96)
			_, _ = g.r.Read(s)
			return s
		})
	plain("BeaconCommitteeSelection", true, core.DutyPrepareAggregator, "",
		func() any { return new(core.BeaconCommitteeSelection) },
		func(t *testing.T, g *gen) any { var e core.BeaconCommitteeSelection; g.fuzzPlain(&e); return e })
	plain("SignedAggregateAndProof", true, core.DutyAggregator, "",
		func() any { return new(core.SignedAggregateAndProof) },
		func(t *testing.T, g *gen) any { var e core.SignedAggregateAndProof; g.fuzzPlain(&e); return e })
	plain("SignedSyncMessage", true, core.DutySyncMessage, "",
		func() any { return new(core.SignedSyncMessage) },
		func(t *testing.T, g *gen) any { var e core.SignedSyncMessage; g.fuzzPlain(&e); return e })
	plain("SyncCommitteeSelection", true, core.DutyPrepareSyncContribution, "",
		func() any { return new(core.SyncCommitteeSelection) },
		func(t *testing.T, g *gen) any { var e core.SyncCommitteeSelection; g.fuzzPlain(&e); return e })
	plain("SignedSyncContributionAndProof", true, core.DutySyncContribution, "",
		func() any { return new(core.SignedSyncContributionAndProof) },
		func(t *testing.T, g *gen) any { var e core.SignedSyncContributionAndProof; g.fuzzPlain(&e); return e })
	// SyncContributionAndProof is a SignedData (selection proof) that no duty type decodes from the wire.
	plain("SyncContributionAndProof", true, core.DutyUnknown, "",
		func() any { return new(core.SyncContributionAndProof) },
		func(t *testing.T, g *gen) any { var e core.SyncContributionAndProof; g.fuzzPlain(&e); return e })

	plain("AttestationData", false, core.DutyAttester, "A",
		func() any { return new(core.AttestationData) },
		func(t *testing.T, g *gen) any { var e core.AttestationData; g.fuzzPlain(&e); return e })
	plain("AggregatedAttestation", false, core.DutyAggregator, "",
		func() any { return new(core.AggregatedAttestation) },
		func(t *testing.T, g *gen) any { var e core.AggregatedAttestation; g.fuzzPlain(&e); return e })
	plain("SyncContribution", false, core.DutySyncContribution, "",
		func() any { return new(core.SyncContribution) },
		func(t *testing.T, g *gen) any { var e core.SyncContribution; g.fuzzPlain(&e); return e })
	for _, n := range []int{0, 1, 3} {
		n := n
		es = append(es, entry{
			Name: fmt.Sprintf("SyncContributions/%d", n), GoType: "SyncContributions", Signed: false, Duty: core.DutySyncContribution,
			New: func() any { return new(core.SyncContributions) },
			Gen: func(t *testing.T, g *gen) any {
				s := make(core.SyncContributions, n)
				for i := range s {
					g.fuzzPlain(&s[i])
				}
				return s
			},
		})
	}

	return es
}
