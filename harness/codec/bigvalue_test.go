// 'bigvalue' family of C14: the largest valid values of each kind, sent as a ParSignedDataSet through the real
// parsigex component over the real p2p framing with its DEFAULT options (two in-process libp2p hosts,
// p2p.RegisterHandler on the receiver, p2p.Send on the sender): the receiver must deliver a set equal to what
// was sent (same Go type, same re-encodings, same signing root and signature, same share index).
package codec

import (
	"context"
	"fmt"
	"math/rand"
	"testing"
	"time"

	"github.com/attestantio/go-eth2-client/spec/bellatrix"
	"github.com/attestantio/go-eth2-client/spec/deneb"
	"github.com/libp2p/go-libp2p/core/host"
	"github.com/libp2p/go-libp2p/core/peer"
	"github.com/libp2p/go-libp2p/core/peerstore"

	"github.com/obolnetwork/charon/core"
	"github.com/obolnetwork/charon/core/parsigex"
	"github.com/obolnetwork/charon/eth2util"
	"github.com/obolnetwork/charon/p2p"
	"github.com/obolnetwork/charon/testutil"
)

type bigCase struct {
	Name string
	Duty core.Duty
	Make func(t *testing.T, r *rand.Rand) core.ParSignedDataSet
}

func randPK(r *rand.Rand) core.PubKey {
	raw := make([]byte, 48)
	_, _ = r.Read(raw)
	return core.PubKey(fmt.Sprintf("0x%x", raw))
}

func bigProposal(v eth2util.DataVersion, blobs, txs, txSize int) func(t *testing.T, r *rand.Rand) core.ParSignedDataSet {
	return func(t *testing.T, r *rand.Rand) core.ParSignedDataSet {
		var p core.VersionedSignedProposal
		p.Version = v.ToETH2()
		newGen(t, r.Int63(), 2, 0).fuzzInner(core.VersionedBlindedSSZValueForT(t, &p, v, false))
		mkBlobs := func() ([]deneb.Blob, []deneb.KZGProof) {
			bs, ps := make([]deneb.Blob, blobs), make([]deneb.KZGProof, blobs)
			for i := range bs {
				_, _ = r.Read(bs[i][:])
				_, _ = r.Read(ps[i][:])
			}
			return bs, ps
		}
		mkTxs := func() []bellatrix.Transaction {
			out := make([]bellatrix.Transaction, txs)
			for i := range out {
				out[i] = make([]byte, txSize)
				_, _ = r.Read(out[i])
			}
			return out
		}
		switch {
		case p.Capella != nil:
			p.Capella.Message.Body.ExecutionPayload.Transactions = mkTxs()
		case p.Deneb != nil:
			p.Deneb.Blobs, p.Deneb.KZGProofs = mkBlobs()
		case p.Electra != nil:
			p.Electra.Blobs, p.Electra.KZGProofs = mkBlobs()
		case p.Fulu != nil:
			p.Fulu.Blobs, p.Fulu.KZGProofs = mkBlobs()
		}
		return core.ParSignedDataSet{randPK(r): {SignedData: p, ShareIdx: 1}}
	}
}

func bigCases(thorough bool) []bigCase {
	cs := []bigCase{
		{Name: "electra-full-9-blobs", Duty: core.NewProposerDuty(101), Make: bigProposal(eth2util.DataVersionElectra, 9, 0, 0)},
		{Name: "deneb-full-6-blobs", Duty: core.NewProposerDuty(102), Make: bigProposal(eth2util.DataVersionDeneb, 6, 0, 0)},
		{Name: "fulu-full-9-blobs", Duty: core.NewProposerDuty(103), Make: bigProposal(eth2util.DataVersionFulu, 9, 0, 0)},
		{Name: "capella-1.5MB-transactions", Duty: core.NewProposerDuty(104), Make: bigProposal(eth2util.DataVersionCapella, 0, 192, 8192)},
		{Name: "attester-set-3000-validators", Duty: core.NewAttesterDuty(105), Make: func(t *testing.T, r *rand.Rand) core.ParSignedDataSet {
			set := make(core.ParSignedDataSet)
			g := newGen(t, r.Int63(), 1, 0)
			for i := 0; i < 3000; i++ {
				var a core.VersionedAttestation
				a.Version = eth2util.DataVersionElectra.ToETH2()
				g.fuzzInner(core.VersionedSSZValueForT(t, &a, eth2util.DataVersionElectra))
				set[randPK(r)] = core.ParSignedData{SignedData: a, ShareIdx: 1}
			}
			return set
		}},
	}
	if thorough {
		cs = append(cs,
			bigCase{Name: "electra-full-9-blobs-plus-2MB-transactions", Duty: core.NewProposerDuty(106), Make: func(t *testing.T, r *rand.Rand) core.ParSignedDataSet {
				set := bigProposal(eth2util.DataVersionElectra, 9, 0, 0)(t, r)
				for k, v := range set {
					p := v.SignedData.(core.VersionedSignedProposal)
					txs := make([]bellatrix.Transaction, 256)
					for i := range txs {
						txs[i] = make([]byte, 8192)
						_, _ = r.Read(txs[i])
					}
					p.Electra.SignedBlock.Message.Body.ExecutionPayload.Transactions = txs
					set[k] = core.ParSignedData{SignedData: p, ShareIdx: 1}
				}
				return set
			}},
			bigCase{Name: "sync-contribution-set-3000-validators", Duty: core.NewSyncContributionDuty(107), Make: func(t *testing.T, r *rand.Rand) core.ParSignedDataSet {
				set := make(core.ParSignedDataSet)
				g := newGen(t, r.Int63(), 1, 0)
				for i := 0; i < 3000; i++ {
					var s core.SignedSyncContributionAndProof
					g.fuzzPlain(&s)
					set[randPK(r)] = core.ParSignedData{SignedData: s, ShareIdx: 1}
				}
				return set
			}})
	}
	return cs
}

// bigValues runs the cases (only the one named [only] when non-empty).
func (rc *recorder) bigValues(t *testing.T, seed int64, thorough bool, only string) {
	var hosts []host.Host
	var peers []peer.ID
	for i := 0; i < 2; i++ {
		h := testutil.CreateHost(t, testutil.AvailableAddr(t))
		hosts = append(hosts, h)
		peers = append(peers, h.ID())
	}
	hosts[0].Peerstore().AddAddrs(hosts[1].ID(), hosts[1].Addrs(), peerstore.PermanentAddrTTL)
	hosts[1].Peerstore().AddAddrs(hosts[0].ID(), hosts[0].Addrs(), peerstore.PermanentAddrTTL)

	type recv struct {
		duty core.Duty
		set  core.ParSignedDataSet
	}
	received := make(chan recv, 8)
	verify := func(context.Context, peer.ID, core.Duty, core.PubKey, core.ParSignedData) error { return nil }
	gater := func(core.Duty) bool { return true }
	sender := parsigex.NewParSigEx(hosts[0], p2p.Send, 0, peers, verify, gater) // default p2p options, as wired in app
	receiver := parsigex.NewParSigEx(hosts[1], p2p.Send, 1, peers, verify, gater)
	receiver.Subscribe(func(_ context.Context, d core.Duty, set core.ParSignedDataSet) error {
		received <- recv{d, set}
		return nil
	})

	for ci, c := range bigCases(thorough) {
		if only != "" && only != c.Name {
			continue
		}
		r := rand.New(rand.NewSource(seed*31 + int64(ci))) //nolint:gosec
		set := c.Make(t, r)
		size := 0
		if pb, err := core.ParSignedDataSetToProto(set); err == nil {
			for _, d := range pb.GetSet() {
				size += len(d.GetData())
			}
		}
		rc.stat("bigvalue_cases", 1)
		rc.stat("bigvalue_bytes_max", 0)
		if size > rc.out.Stats["bigvalue_bytes_max"] {
			rc.out.Stats["bigvalue_bytes_max"] = size
		}
		fail := func(why string) {
			rc.find(Finding{Key: "C14:bigvalue:" + c.Name, Class: "bigvalue", Type: "ParSignedDataSet", Op: "parsigex-wire", Duty: int(c.Duty.Type), Signed: true,
				Format: "case", Input: c.Name, Msg: fmt.Sprintf("%s (encoded size %d bytes, %d entries)", why, size, len(set)), Entry: c.Name})
		}
		ctx, cancel := context.WithTimeout(context.Background(), 10*time.Second)
		err := sender.Broadcast(ctx, c.Duty, set)
		cancel()
		select {
		case got := <-received:
			if got.duty != c.Duty {
				fail(fmt.Sprintf("delivered under duty %v instead of %v", got.duty, c.Duty))
				continue
			}
			if len(got.set) != len(set) {
				fail(fmt.Sprintf("delivered %d entries instead of %d", len(got.set), len(set)))
				continue
			}
			for k, want := range set {
				g, ok := got.set[k]
				if !ok {
					fail("an entry is missing at the receiver")
					break
				}
				if g.ShareIdx != want.ShareIdx {
					fail("share index differs at the receiver")
					break
				}
				if d := same(want.SignedData, g.SignedData); d != "" {
					fail("delivered value differs: " + d)
					break
				}
			}
		case <-time.After(4 * time.Second):
			fail(fmt.Sprintf("a valid value did not survive the parsigex wire with the default p2p options: never delivered to the peer (Broadcast returned %v)", err))
		}
	}
}
