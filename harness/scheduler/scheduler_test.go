// Correspondence harness for C15: drives the real core/scheduler (scheduler.NewForT) with a scripted
// beacon node, a clockwork fake clock and a capturing delay function inside a synctest bubble, and
// records the label sequence (LAdv / LTick / LReorg / LQuiet, rendered as Coq terms of
// coq/Flow/Scheduler.v) of every history.
//
// The beacon node is an in-process eth2wrap.Client (the embedded interface is nil: any method the
// scheduler is not expected to call panics loudly); testutil/beaconmock is not used because it
// starts an HTTP server, whose goroutines never become durably blocked inside a bubble.
package scheduler

import (
	"context"
	"encoding/binary"
	"encoding/hex"
	"errors"
	"fmt"
	"math/rand"
	"sort"
	"strings"
	"sync"
	"testing"
	"testing/synctest"
	"time"

	eth2api "github.com/attestantio/go-eth2-client/api"
	eth2v1 "github.com/attestantio/go-eth2-client/api/v1"
	eth2p0 "github.com/attestantio/go-eth2-client/spec/phase0"
	"github.com/jonboulle/clockwork"

	"github.com/obolnetwork/charon/app/eth2wrap"
	"github.com/obolnetwork/charon/app/featureset"
	"github.com/obolnetwork/charon/core"
	"github.com/obolnetwork/charon/core/scheduler"

	"verif/harness/hx"
)

// VSpec is one cluster validator as the beacon node sees it (epochs).
type VSpec struct {
	Idx       uint64 `json:"idx"`
	PK        uint64 `json:"pk"`
	Act       int    `json:"act"`        // activation epoch
	Exit      int    `json:"exit"`       // exit epoch (exclusive end of activity)
	KnownFrom int    `json:"known_from"` // the beacon node does not return it before this epoch
}

// Op is one scripted operation: "adv" (Dt nanoseconds), "reorg" (Ep) or "head" (HandleHeadEvent for Slot).
type Op struct {
	Op   string `json:"op"`
	Dt   int64  `json:"dt,omitempty"`
	Ep   int    `json:"ep,omitempty"`
	Slot int    `json:"slot,omitempty"`
}

// Script fixes everything a history depends on.
type Script struct {
	SPE      int      `json:"spe"`
	SlotNs   int64    `json:"slot_ns"`
	StartNs  int64    `json:"start_ns"` // clock at start, nanoseconds after genesis
	Vals     []VSpec  `json:"vals"`
	Extra    []uint64 `json:"extra"` // validator indices outside the cluster that the beacon node may name in duties
	Seed     int64    `json:"seed"`  // the beacon node's assignments are a function of (Seed, version, epoch, kind)
	Ops      []Op     `json:"ops"`
	Fail     []int    `json:"fail"`      // beacon call numbers (all kinds, 0-based) that return an error
	BadPK    []int    `json:"bad_pk"`    // call numbers whose answer carries one entry with a wrong public key
	Flip     []int    `json:"flip"`      // call numbers before which the beacon node changes its mind (version++)
	OffEpoch bool     `json:"off_epoch"` // answers may contain slots outside the requested epoch (outside the input domain of the theorems)
	DupSync  bool     `json:"dup_sync"`  // sync answers may repeat a validator with different data
	// FM: feature flags: "" (none), "on" (fetch_att_on_block), "delay" (fetch_att_on_block_with_delay), "both".
	FM string `json:"fm,omitempty"`
	// FF: a fetch-only function is registered (RegisterFetcherFetchOnly).
	FF bool `json:"ff,omitempty"`
	// HookHeads: slots S for which HandleHeadEvent(S) is called after the ticker delivered S and before
	// scheduleSlot(S) dispatches its duties (late tick / block right at the slot start).
	HookHeads []int `json:"hook_heads,omitempty"`
	// VC: the real eth2wrap.ValidatorCache sits between the beacon node and the scheduler, wired as app/app.go
	// does (NewValidatorCache(eth2Cl, clusterPubkeys); CompleteValidators = valCache.GetByHead; the
	// "Refreshing validator cache" slot subscriber). The beacon node's validators endpoint then also knows
	// the Extra (non-cluster) validators and honours the id filters.
	VC bool `json:"vc,omitempty"`
	// VCAfter: the refresh subscriber of a slot runs after scheduleSlot handled the slot (default: before).
	VCAfter bool `json:"vc_after,omitempty"`
	// ValBySlotFail / ValAllFail: validators-endpoint call numbers (0-based) at which a non-head state
	// query fails / every query fails.
	ValBySlotFail []int `json:"val_by_slot_fail,omitempty"`
	ValAllFail    []int `json:"val_all_fail,omitempty"`
}

// fmCoq renders the flag mode as the model's fmode.
func (sc Script) fmCoq() string {
	switch sc.FM {
	case "on":
		return "FOn"
	case "delay", "both":
		return "FOnDelay"
	default:
		return "FOff"
	}
}

// History is a script and the labels observed when it ran.
type History struct {
	ID         int      `json:"id"`
	Kind       string   `json:"kind"`
	FM         string   `json:"fm"` // fmode of the model
	FF         bool     `json:"ff"`
	Script     Script   `json:"script"`
	Labels     []string `json:"labels"`
	NonTrivial bool     `json:"nontrivial"`
	Stats      Stats    `json:"stats"`
}

// Stats summarises what a history exercised.
type Stats struct {
	Ticks, Skipped, Triggers, Resolutions, Failed, Aborted, EmptyActive, Reorgs, LastSlotResolves, Unknown, Inactive, Heads, HookedHeads, Fetches, Fires, ValQueries, ValBySlotFailed, ValAllFailed, ValFallbacks int
}


func pkBytes(pk uint64) (b eth2p0.BLSPubKey) {
	binary.BigEndian.PutUint64(b[40:], pk)
	return b
}

func pkOfCore(pk core.PubKey) uint64 {
	raw, err := hex.DecodeString(strings.TrimPrefix(string(pk), "0x"))
	if err != nil || len(raw) != 48 {
		return 999999
	}

	return binary.BigEndian.Uint64(raw[40:])
}

type entry struct{ vidx, pk, slot, data uint64 }

func (e entry) coq() string { return fmt.Sprintf("E %d %d %d %d", e.vidx, e.pk, e.slot, e.data) }

type dcall struct {
	ep   uint64
	idxs []uint64
	ok   bool
	ents []entry
}

func (c *dcall) coq() string {
	if c == nil {
		return "None"
	}
	idx := make([]string, len(c.idxs))
	for i, x := range c.idxs {
		idx[i] = fmt.Sprint(x)
	}
	res := "None"
	if c.ok {
		es := make([]string, len(c.ents))
		for i, e := range c.ents {
			es[i] = e.coq()
		}
		res = "(Some [" + strings.Join(es, "; ") + "])"
	}

	return fmt.Sprintf("(Some (C %d [%s] %s))", c.ep, strings.Join(idx, "; "), res)
}

type vrec struct {
	idx, pk uint64
	active  bool
	actep   uint64
}

type resn struct {
	valsOK         bool
	vals           []vrec
	att, pro, sync *dcall
}

func (r *resn) coq() string {
	v := "None"
	if r.valsOK {
		vs := make([]string, len(r.vals))
		for i, x := range r.vals {
			vs[i] = fmt.Sprintf("V %d %d %v %d", x.idx, x.pk, x.active, x.actep)
		}
		v = "(Some [" + strings.Join(vs, "; ") + "])"
	}

	return fmt.Sprintf("R %s %s %s %s", v, r.att.coq(), r.pro.coq(), r.sync.coq())
}

type trig struct {
	ty       string
	slot     uint64
	defs     []string // "(pk, E ...)" sorted
	deadline string
}

func (t trig) coq() string {
	return fmt.Sprintf("T %s %d [%s] %s", t.ty, t.slot, strings.Join(t.defs, "; "), t.deadline)
}

type tick struct {
	slot  uint64
	resns []*resn
	trigs []trig
}

func (t *tick) coq() string {
	rs := make([]string, len(t.resns))
	for i, r := range t.resns {
		rs[i] = r.coq()
	}
	sort.Slice(t.trigs, func(i, j int) bool { return t.trigs[i].coq() < t.trigs[j].coq() })
	ts := make([]string, len(t.trigs))
	for i, x := range t.trigs {
		ts[i] = x.coq()
	}

	return fmt.Sprintf("LTick %d [%s] [%s]", t.slot, strings.Join(rs, "; "), strings.Join(ts, "; "))
}

// bn is the scripted beacon node and the recorder of everything observed.
type bn struct {
	eth2wrap.Client // nil: unexpected calls panic

	sc      Script
	clock   clockwork.Clock
	genesis time.Time
	flagsOn bool
	valCache   *eth2wrap.ValidatorCache
	valCalls   int
	bySlotFail map[int]bool
	allFail    map[int]bool
	firstRefresh, refreshedBySlot bool
	fires   []string // LFire labels not yet emitted
	fetches []string // definition sets handed to the fetch-only function, not yet consumed

	mu       sync.Mutex
	calls    int
	version  int64
	cur      *tick
	stray    []string // observations outside any tick (must stay empty)
	pending  map[core.Duty][]time.Time
	failSet  map[int]bool
	badSet   map[int]bool
	flipSet  map[int]bool
	st       Stats
	lastTick int64
}

func newBN(sc Script, clock clockwork.Clock, genesis time.Time) *bn {
	b := &bn{sc: sc, clock: clock, genesis: genesis, flagsOn: sc.FM != "", pending: map[core.Duty][]time.Time{}, failSet: map[int]bool{}, badSet: map[int]bool{}, flipSet: map[int]bool{}, lastTick: -1}
	for _, x := range sc.Fail {
		b.failSet[x] = true
	}
	for _, x := range sc.BadPK {
		b.badSet[x] = true
	}
	for _, x := range sc.Flip {
		b.flipSet[x] = true
	}
	b.bySlotFail, b.allFail = map[int]bool{}, map[int]bool{}
	for _, x := range sc.ValBySlotFail {
		b.bySlotFail[x] = true
	}
	for _, x := range sc.ValAllFail {
		b.allFail[x] = true
	}
	b.firstRefresh, b.refreshedBySlot = true, true
	if sc.VC {
		var pks []eth2p0.BLSPubKey
		for _, v := range sc.Vals {
			pks = append(pks, pkBytes(v.PK))
		}
		b.valCache = eth2wrap.NewValidatorCache(b, pks)
	}

	return b
}

func (b *bn) Genesis(context.Context, *eth2api.GenesisOpts) (*eth2api.Response[*eth2v1.Genesis], error) {
	return &eth2api.Response[*eth2v1.Genesis]{Data: &eth2v1.Genesis{GenesisTime: b.genesis}}, nil
}

func (b *bn) NodeSyncing(context.Context, *eth2api.NodeSyncingOpts) (*eth2api.Response[*eth2v1.SyncState], error) {
	return &eth2api.Response[*eth2v1.SyncState]{Data: &eth2v1.SyncState{IsSyncing: false}}, nil
}

func (b *bn) Spec(context.Context, *eth2api.SpecOpts) (*eth2api.Response[map[string]any], error) {
	return &eth2api.Response[map[string]any]{Data: map[string]any{
		"SECONDS_PER_SLOT": time.Duration(b.sc.SlotNs),
		"SLOTS_PER_EPOCH":  uint64(b.sc.SPE),
	}}, nil
}

// begin counts the call and decides failure / bad key / flip. Caller holds mu.
func (b *bn) begin() (fail, bad bool) {
	n := b.calls
	b.calls++
	if b.flipSet[n] {
		b.version++
	}

	return b.failSet[n], b.badSet[n]
}

func (b *bn) curResn() *resn {
	if b.cur == nil || len(b.cur.resns) == 0 {
		return nil
	}

	return b.cur.resns[len(b.cur.resns)-1]
}

func (b *bn) headEpoch() int {
	ns := b.clock.Now().Sub(b.genesis).Nanoseconds()
	return int(ns / b.sc.SlotNs / int64(b.sc.SPE))
}

// validatorAt is the beacon node's view of one validator in the state of the given epoch.
func validatorAt(idx, pk uint64, act, exit, epoch int) *eth2v1.Validator {
	status := eth2v1.ValidatorStateActiveOngoing
	switch {
	case epoch < act:
		status = eth2v1.ValidatorStatePendingQueued
	case epoch >= exit:
		status = eth2v1.ValidatorStateExitedUnslashed
	}

	return &eth2v1.Validator{
		Index:  eth2p0.ValidatorIndex(idx),
		Status: status,
		Validator: &eth2p0.Validator{
			PublicKey:       pkBytes(pk),
			ActivationEpoch: eth2p0.Epoch(act),
			ExitEpoch:       eth2p0.Epoch(exit),
		},
	}
}

// Validators is the beacon node's validators endpoint (used only through the ValidatorCache): it knows
// the cluster validators and the Extra ones, honours the pubkey / index filters (none: everything),
// and fails as scripted.
func (b *bn) Validators(_ context.Context, opts *eth2api.ValidatorsOpts) (*eth2api.Response[map[eth2p0.ValidatorIndex]*eth2v1.Validator], error) {
	b.mu.Lock()
	defer b.mu.Unlock()

	n := b.valCalls
	b.valCalls++
	b.st.ValQueries++
	if b.allFail[n] {
		b.st.ValAllFailed++
		return nil, errors.New("scripted validators endpoint error")
	}
	epoch := b.headEpoch()
	if opts.State != "head" {
		if b.bySlotFail[n] {
			b.st.ValBySlotFailed++
			return nil, errors.New("scripted: state not found")
		}
		var slot int
		if _, err := fmt.Sscan(opts.State, &slot); err != nil {
			return nil, errors.New("unsupported state id " + opts.State)
		}
		epoch = slot / b.sc.SPE
	} else {
		b.st.ValFallbacks++ // head queries: cache miss in GetByHead or the fall-back of GetBySlot
	}

	want := func(idx uint64, pk eth2p0.BLSPubKey) bool {
		if len(opts.PubKeys) == 0 && len(opts.Indices) == 0 {
			return true
		}
		for _, p := range opts.PubKeys {
			if p == pk {
				return true
			}
		}
		for _, i := range opts.Indices {
			if uint64(i) == idx {
				return true
			}
		}

		return false
	}
	resp := make(map[eth2p0.ValidatorIndex]*eth2v1.Validator)
	for _, v := range b.sc.Vals {
		if epoch >= v.KnownFrom && want(v.Idx, pkBytes(v.PK)) {
			resp[eth2p0.ValidatorIndex(v.Idx)] = validatorAt(v.Idx, v.PK, v.Act, v.Exit, epoch)
		}
	}
	for _, idx := range b.sc.Extra {
		if want(idx, pkBytes(9000+idx)) {
			resp[eth2p0.ValidatorIndex(idx)] = validatorAt(idx, 9000+idx, 0, 1<<30, epoch)
		}
	}

	return &eth2api.Response[map[eth2p0.ValidatorIndex]*eth2v1.Validator]{Data: resp}, nil
}

// refreshValCache is the "Refreshing validator cache" slot subscriber of app/app.go.
func (b *bn) refreshValCache(ctx context.Context, slot core.Slot) {
	if !slot.FirstInEpoch() && !b.firstRefresh && b.refreshedBySlot {
		return
	}
	slotToFetch := slot.Slot
	if !b.refreshedBySlot {
		slotToFetch = slot.Epoch() * slot.SlotsPerEpoch
	}
	b.valCache.Trim()
	_, _, refresh, err := b.valCache.GetBySlot(ctx, slotToFetch)
	if err != nil {
		return
	}
	b.refreshedBySlot = refresh
	b.firstRefresh = false
}

// completeValidatorsVC is CompleteValidators through the real ValidatorCache (eth2Cl.SetValidatorCache(valCache.GetByHead)).
func (b *bn) completeValidatorsVC(ctx context.Context) (eth2wrap.CompleteValidators, error) {
	b.mu.Lock()
	b.begin()
	r := &resn{}
	if b.cur == nil {
		b.stray = append(b.stray, "CompleteValidators outside a tick")
		b.mu.Unlock()
		return nil, errors.New("stray")
	}
	b.cur.resns = append(b.cur.resns, r)
	b.st.Resolutions++
	b.mu.Unlock()

	_, complete, err := b.valCache.GetByHead(ctx)

	b.mu.Lock()
	defer b.mu.Unlock()
	if err != nil {
		b.st.Failed++
		return nil, err
	}
	r.valsOK = true
	for idx, v := range complete {
		r.vals = append(r.vals, vrec{idx: uint64(idx), pk: binary.BigEndian.Uint64(v.Validator.PublicKey[40:]), active: v.Status.IsActive(), actep: uint64(v.Validator.ActivationEpoch)})
	}
	sort.Slice(r.vals, func(i, j int) bool { return r.vals[i].idx < r.vals[j].idx })

	return complete, nil
}

func (b *bn) CompleteValidators(ctx context.Context) (eth2wrap.CompleteValidators, error) {
	if b.valCache != nil {
		return b.completeValidatorsVC(ctx)
	}

	b.mu.Lock()
	defer b.mu.Unlock()

	fail, _ := b.begin()
	r := &resn{}
	if b.cur == nil {
		b.stray = append(b.stray, "CompleteValidators outside a tick")
		return nil, errors.New("stray")
	}
	b.cur.resns = append(b.cur.resns, r)
	b.st.Resolutions++
	if fail {
		b.st.Failed++
		return nil, errors.New("scripted validators error")
	}

	r.valsOK = true
	cur := b.headEpoch()
	resp := make(eth2wrap.CompleteValidators)
	for _, v := range b.sc.Vals {
		if cur < v.KnownFrom {
			continue
		}
		status := eth2v1.ValidatorStateActiveOngoing
		switch {
		case cur < v.Act:
			status = eth2v1.ValidatorStatePendingQueued
		case cur >= v.Exit:
			status = eth2v1.ValidatorStateExitedUnslashed
		}
		resp[eth2p0.ValidatorIndex(v.Idx)] = &eth2v1.Validator{
			Index:  eth2p0.ValidatorIndex(v.Idx),
			Status: status,
			Validator: &eth2p0.Validator{
				PublicKey:       pkBytes(v.PK),
				ActivationEpoch: eth2p0.Epoch(v.Act),
				ExitEpoch:       eth2p0.Epoch(v.Exit),
			},
		}
		r.vals = append(r.vals, vrec{idx: v.Idx, pk: v.PK, active: status.IsActive(), actep: uint64(v.Act)})
	}

	return resp, nil
}

func (b *bn) rng(ep uint64, kind int64) *rand.Rand {
	return rand.New(rand.NewSource(b.sc.Seed*1000003 + b.version*7919 + int64(ep)*31 + kind)) //nolint:gosec
}

func (b *bn) pkOf(idx uint64) uint64 {
	for _, v := range b.sc.Vals {
		if v.Idx == idx {
			return v.PK
		}
	}

	return 9000 + idx
}

func sortedIdx(in []eth2p0.ValidatorIndex) []uint64 {
	out := make([]uint64, len(in))
	for i, x := range in {
		out[i] = uint64(x)
	}
	sort.Slice(out, func(i, j int) bool { return out[i] < out[j] })

	return out
}

func (b *bn) shiftEpoch(r *rand.Rand, slot uint64) uint64 {
	if !b.sc.OffEpoch || r.Intn(4) != 0 {
		return slot
	}
	k := uint64(1 + r.Intn(3))
	spe := uint64(b.sc.SPE)
	if r.Intn(2) == 0 || slot < k*spe {
		return slot + k*spe
	}

	return slot - k*spe
}

func (b *bn) AttesterDutiesCache(_ context.Context, epoch eth2p0.Epoch, vidxs []eth2p0.ValidatorIndex) (eth2wrap.AttesterDutyWithMeta, error) {
	b.mu.Lock()
	defer b.mu.Unlock()

	fail, bad := b.begin()
	c := &dcall{ep: uint64(epoch), idxs: sortedIdx(vidxs)}
	if r := b.curResn(); r != nil && r.att == nil {
		r.att = c
	} else {
		b.stray = append(b.stray, "AttesterDutiesCache unexpected")
	}
	if fail {
		b.st.Failed++
		return eth2wrap.AttesterDutyWithMeta{}, errors.New("scripted attester duties error")
	}

	rng := b.rng(uint64(epoch), 1)
	spe := uint64(b.sc.SPE)
	var ents []entry
	for _, idx := range append(append([]uint64{}, c.idxs...), b.sc.Extra...) {
		if rng.Intn(8) == 0 {
			continue
		}
		slot := b.shiftEpoch(rng, uint64(epoch)*spe+uint64(rng.Intn(int(spe))))
		ents = append(ents, entry{vidx: idx, pk: b.pkOf(idx), slot: slot, data: uint64(1 + rng.Intn(1000))})
	}
	if bad && len(ents) > 0 {
		// The wrong-key entry must be alone in its slot: slices.SortFunc is not stable, so which
		// same-slot entries precede the failing one is not determined by the code.
		j := rng.Intn(len(ents))
		var keep []entry
		for i, e := range ents {
			if i == j {
				e.pk += 500
				keep = append(keep, e)
			} else if e.slot != ents[j].slot {
				keep = append(keep, e)
			}
		}
		ents = keep
	}
	rng.Shuffle(len(ents), func(i, j int) { ents[i], ents[j] = ents[j], ents[i] })

	var resp []*eth2v1.AttesterDuty
	for _, e := range ents {
		resp = append(resp, &eth2v1.AttesterDuty{
			PubKey: pkBytes(e.pk), Slot: eth2p0.Slot(e.slot), ValidatorIndex: eth2p0.ValidatorIndex(e.vidx),
			CommitteeIndex: eth2p0.CommitteeIndex(e.data), CommitteeLength: 8, CommitteesAtSlot: 4, ValidatorCommitteeIndex: 1,
		})
	}
	// The label lists the entries in processing order: sorted by slot (ties as returned).
	sort.SliceStable(ents, func(i, j int) bool { return ents[i].slot < ents[j].slot })
	c.ok, c.ents = true, ents
	b.noteAbort(c, false)

	return eth2wrap.AttesterDutyWithMeta{Duties: resp}, nil
}

func (b *bn) ProposerDutiesCache(_ context.Context, epoch eth2p0.Epoch, vidxs []eth2p0.ValidatorIndex) (eth2wrap.ProposerDutyWithMeta, error) {
	b.mu.Lock()
	defer b.mu.Unlock()

	fail, bad := b.begin()
	c := &dcall{ep: uint64(epoch), idxs: sortedIdx(vidxs)}
	if r := b.curResn(); r != nil && r.att != nil && r.pro == nil {
		r.pro = c
	} else {
		b.stray = append(b.stray, "ProposerDutiesCache unexpected")
	}
	if fail {
		b.st.Failed++
		return eth2wrap.ProposerDutyWithMeta{}, errors.New("scripted proposer duties error")
	}

	rng := b.rng(uint64(epoch), 2)
	spe := uint64(b.sc.SPE)
	pool := append(append([]uint64{}, c.idxs...), b.sc.Extra...)
	var ents []entry
	for s := uint64(0); s < spe && len(pool) > 0; s++ {
		if rng.Intn(2) == 0 {
			continue
		}
		idx := pool[rng.Intn(len(pool))]
		slot := b.shiftEpoch(rng, uint64(epoch)*spe+s)
		ents = append(ents, entry{vidx: idx, pk: b.pkOf(idx), slot: slot})
		if rng.Intn(8) == 0 {
			idx2 := pool[rng.Intn(len(pool))]
			ents = append(ents, entry{vidx: idx2, pk: b.pkOf(idx2), slot: slot})
		}
	}
	if bad && len(ents) > 0 {
		ents[rng.Intn(len(ents))].pk += 500
	}

	var resp []*eth2v1.ProposerDuty
	for _, e := range ents {
		resp = append(resp, &eth2v1.ProposerDuty{PubKey: pkBytes(e.pk), Slot: eth2p0.Slot(e.slot), ValidatorIndex: eth2p0.ValidatorIndex(e.vidx)})
	}
	c.ok, c.ents = true, ents
	b.noteAbort(c, false)

	return eth2wrap.ProposerDutyWithMeta{Duties: resp}, nil
}

func (b *bn) SyncCommDutiesCache(_ context.Context, epoch eth2p0.Epoch, vidxs []eth2p0.ValidatorIndex) (eth2wrap.SyncDutyWithMeta, error) {
	b.mu.Lock()
	defer b.mu.Unlock()

	fail, bad := b.begin()
	c := &dcall{ep: uint64(epoch), idxs: sortedIdx(vidxs)}
	if r := b.curResn(); r != nil && r.pro != nil && r.sync == nil {
		r.sync = c
	} else {
		b.stray = append(b.stray, "SyncCommDutiesCache unexpected")
	}
	if fail {
		b.st.Failed++
		return eth2wrap.SyncDutyWithMeta{}, errors.New("scripted sync duties error")
	}

	rng := b.rng(uint64(epoch), 3)
	var ents []entry
	for _, idx := range append(append([]uint64{}, c.idxs...), b.sc.Extra...) {
		if rng.Intn(3) != 0 {
			continue
		}
		ents = append(ents, entry{vidx: idx, pk: b.pkOf(idx), data: uint64(1 + rng.Intn(1000))})
		if b.sc.DupSync && rng.Intn(3) == 0 {
			ents = append(ents, entry{vidx: idx, pk: b.pkOf(idx), data: uint64(2000 + rng.Intn(1000))})
		}
	}
	if bad && len(ents) > 0 {
		ents[rng.Intn(len(ents))].pk += 500
	}

	var resp []*eth2v1.SyncCommitteeDuty
	for _, e := range ents {
		resp = append(resp, &eth2v1.SyncCommitteeDuty{PubKey: pkBytes(e.pk), ValidatorIndex: eth2p0.ValidatorIndex(e.vidx),
			ValidatorSyncCommitteeIndices: []eth2p0.CommitteeIndex{eth2p0.CommitteeIndex(e.data)}})
	}
	c.ok, c.ents = true, ents
	b.noteAbort(c, true)

	return eth2wrap.SyncDutyWithMeta{Duties: resp}, nil
}

// noteAbort only feeds the statistics (entries naming unknown validators / wrong keys).
func (b *bn) noteAbort(c *dcall, _ bool) {
	r := b.curResn()
	if r == nil {
		return
	}
	known := map[uint64]uint64{}
	for _, v := range r.vals {
		known[v.idx] = v.pk
	}
	for _, e := range c.ents {
		pk, ok := known[e.vidx]
		if !ok {
			b.st.Unknown++
		} else if pk != e.pk {
			b.st.Aborted++
		}
	}
}

func tyName(t core.DutyType) string {
	switch t {
	case core.DutyProposer:
		return "Proposer"
	case core.DutyAttester:
		return "Attester"
	case core.DutyAggregator:
		return "Aggregator"
	case core.DutySyncContribution:
		return "SyncContribution"
	default:
		return "OtherType"
	}
}

func defCoq(pk core.PubKey, def core.DutyDefinition) string {
	var e entry
	switch d := def.(type) {
	case core.AttesterDefinition:
		if d.CommitteeLength != 8 || d.CommitteesAtSlot != 4 || d.ValidatorCommitteeIndex != 1 {
			return "(0, E 0 0 0 0) (* attester definition altered *)"
		}
		e = entry{vidx: uint64(d.ValidatorIndex), pk: binary.BigEndian.Uint64(d.PubKey[40:]), slot: uint64(d.Slot), data: uint64(d.CommitteeIndex)}
	case core.ProposerDefinition:
		e = entry{vidx: uint64(d.ValidatorIndex), pk: binary.BigEndian.Uint64(d.PubKey[40:]), slot: uint64(d.Slot)}
	case core.SyncCommitteeDefinition:
		var data uint64
		if len(d.ValidatorSyncCommitteeIndices) == 1 {
			data = uint64(d.ValidatorSyncCommitteeIndices[0])
		}
		e = entry{vidx: uint64(d.ValidatorIndex), pk: binary.BigEndian.Uint64(d.PubKey[40:]), data: data}
	default:
		return "(0, E 0 0 0 0) (* unknown definition type *)"
	}

	return fmt.Sprintf("(%d, %s)", pkOfCore(pk), e.coq())
}

func (b *bn) delay(duty core.Duty, deadline time.Time) <-chan time.Time {
	b.mu.Lock()
	b.pending[duty] = append(b.pending[duty], deadline)
	b.mu.Unlock()

	ch := make(chan time.Time, 1)
	ch <- deadline

	return ch
}

func (b *bn) subscriber(_ context.Context, duty core.Duty, set core.DutyDefinitionSet) error {
	b.mu.Lock()
	defer b.mu.Unlock()

	t := trig{ty: tyName(duty.Type), slot: duty.Slot, deadline: "None"}
	viaDelay := false
	if q := b.pending[duty]; len(q) > 0 {
		t.deadline = fmt.Sprintf("(Some %d)", q[0].Sub(b.genesis).Nanoseconds())
		b.pending[duty] = q[1:]
		viaDelay = true
	}
	for pk, def := range set {
		t.defs = append(t.defs, defCoq(pk, def))
	}
	sort.Strings(t.defs)
	if b.flagsOn && duty.Type == core.DutyAttester && !viaDelay {
		// With a flag on the attester goroutine waits on the clock itself and then calls the
		// subscribers: observed at the current clock (fake clock = bubble time).
		b.fires = append(b.fires, fmt.Sprintf("LFire %d [%s]", duty.Slot, strings.Join(t.defs, "; ")))
		b.st.Fires++

		return nil
	}
	if b.cur == nil {
		b.stray = append(b.stray, "trigger outside a tick: "+t.coq())
		return nil
	}
	b.cur.trigs = append(b.cur.trigs, t)
	b.st.Triggers++

	return nil
}

// fetchOnly is the registered fetch-only function (early attestation-data fetch).
func (b *bn) fetchOnly(_ context.Context, duty core.Duty, set core.DutyDefinitionSet, _ string, _ eth2p0.Root) error {
	b.mu.Lock()
	defer b.mu.Unlock()

	var defs []string
	for pk, def := range set {
		defs = append(defs, defCoq(pk, def))
	}
	sort.Strings(defs)
	if duty.Type != core.DutyAttester {
		b.stray = append(b.stray, "fetch-only for a non-attester duty")
	}
	b.fetches = append(b.fetches, fmt.Sprintf("%d|(Some [%s])", duty.Slot, strings.Join(defs, "; ")))
	b.st.Fetches++

	return nil
}

// runScript executes one script against a fresh scheduler and returns the observed labels.
func runScript(t *testing.T, sc Script) ([]string, Stats) {
	t.Helper()
	var (
		labels []string
		st     Stats
	)
	synctest.Test(t, func(t *testing.T) {
		switch sc.FM {
		case "on":
			featureset.EnableForT(t, featureset.FetchAttOnBlock)
		case "delay":
			featureset.EnableForT(t, featureset.FetchAttOnBlockWithDelay)
		case "both":
			featureset.EnableForT(t, featureset.FetchAttOnBlock)
			featureset.EnableForT(t, featureset.FetchAttOnBlockWithDelay)
		}
		// The fake clock is kept equal to the bubble's time (waitForEarlyFetchOrTimeout mixes both:
		// s.clock.After(time.Until(deadline))): every advance sleeps first, then advances the fake clock.
		genesis := time.Now().Add(-time.Duration(sc.StartNs))
		clock := clockwork.NewFakeClockAt(time.Now())
		b := newBN(sc, clock, genesis)
		hookHeads := map[uint64]bool{}
		for _, x := range sc.HookHeads {
			hookHeads[uint64(x)] = true
		}
		tickCh := make(chan core.Slot)
		ackCh := make(chan struct{})
		var lastSlot core.Slot
		schedSlot := func(ctx context.Context, slot core.Slot) {
			if b.valCache != nil {
				if !sc.VCAfter {
					b.refreshValCache(ctx, slot) // the slot subscriber completes before the slot is scheduled
				}
				lastSlot = slot
			}
			tickCh <- slot
			<-ackCh
		}
		sched := scheduler.NewForT(t, clock, b.delay, nil, b, schedSlot, false)
		sched.SubscribeDuties(b.subscriber)
		if sc.FF {
			sched.RegisterFetcherFetchOnly(b.fetchOnly)
		}
		done := make(chan error, 1)
		go func() { done <- sched.Run() }()

		closeTick := func() {
			b.mu.Lock()
			defer b.mu.Unlock()
			if b.cur != nil {
				labels = append(labels, b.cur.coq())
				for _, r := range b.cur.resns {
					if r.valsOK {
						act := 0
						for _, v := range r.vals {
							if v.active {
								act++
							} else {
								b.st.Inactive++
							}
						}
						if act == 0 && r.att == nil {
							b.st.EmptyActive++
						}
					}
				}
				if len(b.cur.resns) > 1 {
					b.st.LastSlotResolves += len(b.cur.resns) - 1
				}
				b.cur = nil
				if b.valCache != nil && sc.VCAfter {
					b.mu.Unlock()
					b.refreshValCache(context.Background(), lastSlot) // ... or after scheduleSlot handled it
					b.mu.Lock()
				}
			}
		}
		flushFires := func() {
			b.mu.Lock()
			defer b.mu.Unlock()
			sort.Strings(b.fires)
			labels = append(labels, b.fires...)
			b.fires = nil
		}
		head := func(slot int, hooked bool) {
			sched.HandleHeadEvent(context.Background(), eth2p0.Slot(slot), eth2p0.Root{0xaa}, "http://bn")
			synctest.Wait()
			b.mu.Lock()
			defer b.mu.Unlock()
			b.st.Heads++
			if hooked {
				b.st.HookedHeads++
			}
			res := "None"
			for _, f := range b.fetches {
				parts := strings.SplitN(f, "|", 2)
				if parts[0] == fmt.Sprint(slot) && res == "None" {
					res = parts[1]
				} else {
					b.stray = append(b.stray, "unexpected fetch-only call "+f)
				}
			}
			b.fetches = nil
			labels = append(labels, fmt.Sprintf("LHead %d %s", slot, res))
		}
		observe := func() {
			for {
				synctest.Wait()
				select {
				case slot := <-tickCh:
					closeTick()
					flushFires()
					if hookHeads[slot.Slot] {
						// the ticker delivered the slot, scheduleSlot has not dispatched it yet
						head(int(slot.Slot), true)
					}
					b.mu.Lock()
					b.cur = &tick{slot: slot.Slot}
					b.st.Ticks++
					if b.lastTick >= 0 && int64(slot.Slot) > b.lastTick+1 {
						b.st.Skipped++
					}
					b.lastTick = int64(slot.Slot)
					b.mu.Unlock()
					ackCh <- struct{}{}
				default:
					closeTick()
					flushFires()
					labels = append(labels, "LQuiet")
					return
				}
			}
		}

		observe()
		for _, op := range sc.Ops {
			switch op.Op {
			case "head":
				head(op.Slot, false)
				observe()
			case "adv":
				time.Sleep(time.Duration(op.Dt))
				clock.Advance(time.Duration(op.Dt))
				labels = append(labels, fmt.Sprintf("LAdv %d", op.Dt))
				observe()
			case "reorg":
				sched.HandleChainReorgEvent(context.Background(), eth2p0.Epoch(op.Ep))
				labels = append(labels, fmt.Sprintf("LReorg %d", op.Ep))
				b.mu.Lock()
				b.st.Reorgs++
				b.mu.Unlock()
				observe()
			}
		}
		sched.Stop()
		synctest.Wait()
		select {
		case err := <-done:
			if err != nil {
				labels = append(labels, "LQuiet (* Run returned "+err.Error()+" *)")
			}
		default:
			b.stray = append(b.stray, "Run did not return after Stop")
		}
		for _, s := range b.stray {
			labels = append(labels, "LTick 0 [] [] (* STRAY: "+s+" *)")
		}
		st = b.st
	})

	return labels, st
}

// ---- generation ----

func pick64(r *rand.Rand, xs ...int64) int64 { return xs[r.Intn(len(xs))] }

func genScript(r *rand.Rand, kind string) Script {
	sc := Script{
		SPE:    []int{1, 2, 3, 4, 4, 8}[r.Intn(6)],
		SlotNs: pick64(r, 1_000_000_000, 12_000_000_000, 1_000_000_007, 4_000_000_000, 10),
		Seed:   r.Int63n(1 << 40),
	}
	spe := int64(sc.SPE)
	// start slot: genesis, mid-epoch, epoch boundary, last slot of an epoch
	startEpoch := int64(r.Intn(6))
	var startSlot int64
	switch r.Intn(4) {
	case 0:
		startSlot = startEpoch * spe
	case 1:
		startSlot = startEpoch*spe + spe - 1
	case 2:
		startSlot = startEpoch*spe + int64(r.Intn(int(spe)))
	default:
		startSlot = 0
	}
	sc.StartNs = startSlot * sc.SlotNs
	switch r.Intn(3) {
	case 0: // exactly at the slot start
	case 1:
		sc.StartNs += r.Int63n(sc.SlotNs)
	default:
		sc.StartNs += sc.SlotNs - 1
	}
	e0 := int(startSlot / spe)

	nv := 1 + r.Intn(5)
	if r.Intn(12) == 0 {
		nv = 0
	}
	for i := 0; i < nv; i++ {
		v := VSpec{Idx: uint64(10 + 3*i + r.Intn(3)), PK: uint64(100 + i), Act: 0, Exit: 1 << 30}
		switch r.Intn(6) {
		case 0: // activates during the history
			v.Act = e0 + r.Intn(4)
		case 1: // exits during the history
			v.Exit = e0 + r.Intn(4)
		case 2: // unknown to the beacon node at first
			v.KnownFrom = e0 + 1 + r.Intn(3)
			v.Act = v.KnownFrom + r.Intn(2)
		case 3: // active for a window
			v.Act = e0 + r.Intn(3)
			v.Exit = v.Act + 1 + r.Intn(3)
		}
		sc.Vals = append(sc.Vals, v)
	}
	if r.Intn(2) == 0 {
		sc.Extra = append(sc.Extra, uint64(70+r.Intn(5)))
	}
	sc.DupSync = r.Intn(4) == 0
	sc.OffEpoch = kind == "offepoch"

	if kind == "valcache" {
		if len(sc.Vals) == 0 { // a cluster has at least one validator (an empty pubkey filter means "all validators")
			sc.Vals = append(sc.Vals, VSpec{Idx: 10, PK: 100, Exit: 1 << 30})
		}
		sc.VC = true
		sc.VCAfter = r.Intn(4) == 0
		sc.OffEpoch = false
		if len(sc.Extra) == 0 {
			sc.Extra = append(sc.Extra, uint64(70+r.Intn(3)))
		}
		if r.Intn(2) == 0 {
			sc.Extra = append(sc.Extra, uint64(75+r.Intn(3)))
		}
		if r.Intn(4) == 0 {
			sc.FM = []string{"on", "delay", "both"}[r.Intn(3)]
			sc.FF = true
		}
	}
	if kind == "flags" {
		sc.FM = []string{"on", "delay", "both"}[r.Intn(3)]
		sc.FF = r.Intn(6) != 0
	} else if kind != "valcache" && r.Intn(10) == 0 {
		sc.FF = true // a fetch-only function without flags: head events must do nothing
	}
	nops := 8 + r.Intn(40)
	quietBN := r.Intn(4) == 0 // no failures at all
	cur := sc.StartNs
	for i := 0; i < nops; i++ {
		if (kind == "flags" && r.Intn(3) == 0) || (kind != "flags" && r.Intn(30) == 0) {
			// head event for the previous / current / next slot, at the current instant
			sl := cur/sc.SlotNs + int64([]int{-1, 0, 0, 0, 1}[r.Intn(5)])
			if sl < 0 {
				sl = 0
			}
			sc.Ops = append(sc.Ops, Op{Op: "head", Slot: int(sl)})
			if r.Intn(4) == 0 { // a repeated head event
				sc.Ops = append(sc.Ops, Op{Op: "head", Slot: int(sl)})
			}
		}
		switch x := r.Intn(20); {
		case x < 10: // next slot
			sc.Ops = append(sc.Ops, Op{Op: "adv", Dt: sc.SlotNs})
		case x < 12: // part of a slot
			sc.Ops = append(sc.Ops, Op{Op: "adv", Dt: 1 + r.Int63n(sc.SlotNs)})
		case x < 14: // several slots: missed ticks
			sc.Ops = append(sc.Ops, Op{Op: "adv", Dt: sc.SlotNs*int64(2+r.Intn(int(2*spe+2))) + r.Int63n(sc.SlotNs)})
		case x < 15: // exactly k slots (the ticker's strict comparison)
			sc.Ops = append(sc.Ops, Op{Op: "adv", Dt: sc.SlotNs * int64(2+r.Intn(3))})
		case x < 16:
			sc.Ops = append(sc.Ops, Op{Op: "adv", Dt: 0})
		case x < 18:
			sc.Ops = append(sc.Ops, Op{Op: "reorg", Ep: e0 + r.Intn(5) - 1 + i/int(spe+1)})
		default:
			sc.Ops = append(sc.Ops, Op{Op: "adv", Dt: sc.SlotNs + 1})
		}
		cur = sc.StartNs
		for _, op := range sc.Ops {
			cur += op.Dt
		}
	}
	cur = sc.StartNs
	for _, op := range sc.Ops {
		cur += op.Dt
	}
	if kind == "flags" {
		for sl := startSlot; sl <= cur/sc.SlotNs; sl++ {
			if r.Intn(3) == 0 {
				sc.HookHeads = append(sc.HookHeads, int(sl))
			}
		}
	}
	if sc.VC {
		dens := 1 + r.Intn(3)
		for i := 0; i < 3*nops; i++ {
			switch x := r.Intn(10); {
			case x < dens:
				sc.ValBySlotFail = append(sc.ValBySlotFail, i)
			case x == 9 && r.Intn(2) == 0:
				sc.ValAllFail = append(sc.ValAllFail, i)
			}
		}
	}
	if !quietBN {
		ncalls := 4 * nops
		dens := r.Intn(4)
		for i := 0; i < ncalls; i++ {
			if r.Intn(12) < dens {
				sc.Fail = append(sc.Fail, i)
			} else if r.Intn(25) == 0 {
				sc.BadPK = append(sc.BadPK, i)
			}
			if r.Intn(10) == 0 {
				sc.Flip = append(sc.Flip, i)
			}
		}
	}
	for i := range sc.Ops {
		if sc.Ops[i].Ep < 0 {
			sc.Ops[i].Ep = 0
		}
	}

	return sc
}

func slots(n int, d int64) []Op {
	var o []Op
	for i := 0; i < n; i++ {
		o = append(o, Op{Op: "adv", Dt: d})
	}

	return o
}

// corpus: hand-written histories run first.
func corpus() []Script {
	v2 := []VSpec{{Idx: 10, PK: 100, Exit: 1 << 30}, {Idx: 11, PK: 101, Exit: 1 << 30}}
	s := int64(12_000_000_000)

	return []Script{
		// attester answer accepted, proposer call fails, retry next slot after the beacon node changed its mind: first definitions win
		{SPE: 4, SlotNs: s, StartNs: 0, Vals: v2, Seed: 7, Ops: slots(9, s), Fail: []int{2}, Flip: []int{3}},
		// every call of the first three ticks fails
		{SPE: 4, SlotNs: s, StartNs: s, Vals: v2, Seed: 8, Ops: slots(8, s), Fail: []int{0, 1, 3, 6}},
		// start on the last slot of an epoch; resolution of the next epoch fails there and is retried on its first slot
		{SPE: 4, SlotNs: s, StartNs: 3 * s, Vals: v2, Seed: 9, Ops: slots(6, s), Fail: []int{4, 5, 9}},
		// clock jumps: several slots, exactly two slots, across an epoch
		{SPE: 4, SlotNs: s, StartNs: s / 2, Vals: v2, Seed: 10, Ops: []Op{{Op: "adv", Dt: 5 * s}, {Op: "adv", Dt: 2 * s}, {Op: "adv", Dt: s / 2}, {Op: "adv", Dt: 3*s + 1}, {Op: "adv", Dt: s}}},
		// reorg in the middle of an epoch and right after the next epoch was resolved on the last slot
		{SPE: 4, SlotNs: s, StartNs: 0, Vals: v2, Seed: 11, Ops: append(append(slots(2, s), Op{Op: "reorg", Ep: 0}, Op{Op: "adv", Dt: s}, Op{Op: "adv", Dt: s}, Op{Op: "reorg", Ep: 0}), slots(5, s)...), Flip: []int{4, 8}},
		// wrong public key in an answer
		{SPE: 2, SlotNs: s, StartNs: 0, Vals: v2, Seed: 12, Ops: slots(6, s), BadPK: []int{1, 6, 11}},
		// one slot per epoch (every slot is first and last)
		{SPE: 1, SlotNs: 1_000_000_007, StartNs: 5, Vals: v2, Extra: []uint64{70}, Seed: 13, Ops: slots(7, 1_000_000_007), Fail: []int{5}},
		// flags: head event between the tick's delivery and its dispatch (slots 1, 2, 5), before the slot (6), after the release (2), repeated
		{SPE: 4, SlotNs: s, StartNs: 0, Vals: v2, Seed: 15, FM: "on", FF: true, HookHeads: []int{1, 2, 5},
			Ops: []Op{{Op: "adv", Dt: s}, {Op: "adv", Dt: s}, {Op: "adv", Dt: s / 3}, {Op: "head", Slot: 2}, {Op: "adv", Dt: s - s/3}, {Op: "head", Slot: 3}, {Op: "head", Slot: 3},
				{Op: "adv", Dt: s / 2}, {Op: "adv", Dt: s / 2}, {Op: "adv", Dt: s}, {Op: "head", Slot: 6}, {Op: "adv", Dt: s}, {Op: "adv", Dt: s}, {Op: "adv", Dt: s}}},
		// with_delay flag: release at 1/3 slot + 300ms; clock steps just before and at the release instant
		{SPE: 4, SlotNs: s, StartNs: 0, Vals: v2, Seed: 16, FM: "delay", FF: true, HookHeads: []int{1, 3},
			Ops: []Op{{Op: "adv", Dt: s}, {Op: "adv", Dt: s / 3}, {Op: "adv", Dt: 299_999_999}, {Op: "adv", Dt: 1}, {Op: "adv", Dt: s - s/3 - 300_000_000}, {Op: "adv", Dt: s}, {Op: "adv", Dt: s/3 + 300_000_000}, {Op: "adv", Dt: s}}},
		// both flags, no fetch-only function registered; reorg while an attester duty waits
		{SPE: 4, SlotNs: s, StartNs: 0, Vals: v2, Seed: 17, FM: "both", FF: false, HookHeads: []int{1, 2},
			Ops: []Op{{Op: "adv", Dt: s}, {Op: "head", Slot: 1}, {Op: "reorg", Ep: 0}, {Op: "adv", Dt: s}, {Op: "adv", Dt: s}, {Op: "adv", Dt: 3 * s}, {Op: "adv", Dt: s}}},
		// real ValidatorCache in front of the scheduler; the beacon node also knows validators 70 and 71 (not in the
		// cluster, with duties); the very first by-slot validators query fails (head works), later ones too
		{SPE: 4, SlotNs: s, StartNs: 0, Vals: v2, Extra: []uint64{70, 71}, Seed: 18, VC: true, ValBySlotFail: []int{0, 3, 4}, Ops: slots(10, s), Fail: []int{9, 11, 13, 15}},
		// both validators queries fail at start, recovery later; refresh subscriber after scheduleSlot
		{SPE: 2, SlotNs: s, StartNs: s, Vals: v2, Extra: []uint64{70}, Seed: 19, VC: true, VCAfter: true, ValAllFail: []int{0, 1, 2}, ValBySlotFail: []int{5, 6}, Ops: slots(9, s)},
		// validator pending -> active -> exited, another unknown at first
		{SPE: 2, SlotNs: s, StartNs: 0, Vals: []VSpec{{Idx: 10, PK: 100, Act: 1, Exit: 3}, {Idx: 11, PK: 101, Act: 2, Exit: 1 << 30, KnownFrom: 2}}, Seed: 14, Ops: slots(10, s)},
	}
}

func nonTrivial(st Stats) bool { return st.Failed+st.Aborted > 0 || st.Skipped > 0 }

func TestGen(t *testing.T) {
	featureset.EnableForT(t, featureset.SSEReorgDuties)

	var replay struct {
		Script Script `json:"script"`
	}
	if ok, err := hx.ReadReplay(&replay); ok {
		if err != nil {
			t.Fatal(err)
		}
		h := History{ID: 0, Kind: "replay", Script: replay.Script}
		h.Labels, h.Stats = runScript(t, h.Script)
		h.NonTrivial = nonTrivial(h.Stats)
		h.FM, h.FF = h.Script.fmCoq(), h.Script.FF
		if err := hx.WriteJSON("scheduler_traces.json", []History{h}); err != nil {
			t.Fatal(err)
		}

		return
	}

	r := hx.Rand()
	n := hx.IntEnv("VERIF_N", 300)
	var hs []History
	for _, c := range corpus() {
		hs = append(hs, History{ID: len(hs), Kind: "corpus", Script: c})
	}
	for len(hs) < n {
		kind := "random"
		switch x := r.Intn(16); {
		case x < 2:
			kind = "offepoch"
		case x < 7:
			kind = "flags"
		case x < 10:
			kind = "valcache"
		}
		hs = append(hs, History{ID: len(hs), Kind: kind, Script: genScript(r, kind)})
	}
	for i := range hs {
		hs[i].Labels, hs[i].Stats = runScript(t, hs[i].Script)
		hs[i].NonTrivial = nonTrivial(hs[i].Stats)
		hs[i].FM, hs[i].FF = hs[i].Script.fmCoq(), hs[i].Script.FF
	}
	if err := hx.WriteJSON("scheduler_traces.json", hs); err != nil {
		t.Fatal(err)
	}
}
