// Correspondence harness for C19: drives the real eth2wrap multi client (provide / submit /
// forkjoin) against scripted beacon nodes inside a testing/synctest bubble (virtual time) and
// records, for every call, the label the Coq model Flow/Multi.v is evaluated on: configured
// outcomes and latencies, completion orders, instant of cancellation, observed result, observed
// instant of return and observed per-node status (not called / completed at t / cancelled at t).
package multi

import (
	"context"
	"errors"
	"fmt"
	"io"
	"math/rand"
	"net"
	"net/http"
	"os"
	"sort"
	"strconv"
	"strings"
	"sync"
	"syscall"
	"testing"
	"testing/synctest"
	"time"

	eth2api "github.com/attestantio/go-eth2-client/api"
	eth2v1 "github.com/attestantio/go-eth2-client/api/v1"
	eth2p0 "github.com/attestantio/go-eth2-client/spec/phase0"
	"go.uber.org/zap"

	"github.com/obolnetwork/charon/app/eth2wrap"
	"github.com/obolnetwork/charon/app/log"

	"verif/harness/hx"
)

// NodeSpec scripts one beacon node.
type NodeSpec struct {
	Out   string `json:"out"`             // ok | soft | err | hang
	Class string `json:"class,omitempty"` // Timeout | Syncing | Gateway | Other   (out = err)
	Rep   int    `json:"rep,omitempty"`   // which constructed error of that class
	Delay int64  `json:"delay"`           // ns of virtual time until the node answers
	Ans   uint64 `json:"ans,omitempty"`   // the answer (identifies the node)
	Deaf  bool   `json:"deaf,omitempty"`  // the call ignores cancellation of its context (stuck dial / DNS / TLS ...)
	Prov  *ProvSpec `json:"prov,omitempty"` // the node is wrapped in the real lazy client
}

// ProvSpec scripts the provider of a lazily created node client.
type ProvSpec struct {
	Kind  string `json:"kind"`            // created (client exists already) | delay (returns the client after Delay, 0 = at once) | fail
	Delay int64  `json:"delay,omitempty"` // ns
	Class string `json:"class,omitempty"` // kind = fail: class and representative of the error
	Rep   int    `json:"rep,omitempty"`
}

// effective: the node as the multi client sees it (used to place cancellations; the verdict uses Multi.lazy_node).
func effective(n NodeSpec) NodeSpec {
	if n.Prov == nil || n.Prov.Kind == "created" {
		return n
	}
	if n.Prov.Kind == "fail" {
		return NodeSpec{Out: "err", Class: n.Prov.Class, Delay: n.Prov.Delay}
	}
	n.Delay += n.Prov.Delay

	return n
}

func effectiveAll(ns []NodeSpec) []NodeSpec {
	out := make([]NodeSpec, len(ns))
	for i, n := range ns {
		out[i] = effective(n)
	}

	return out
}

func provTerm(n NodeSpec) string {
	switch {
	case n.Prov == nil:
		return "PNone"
	case n.Prov.Kind == "created":
		return "PCreated"
	case n.Prov.Kind == "fail":
		return fmt.Sprintf("(PFail %s %d)", n.Prov.Class, n.Prov.Delay)
	}

	return fmt.Sprintf("(PDelay %d)", n.Prov.Delay)
}

// provider is the lazy client's provider for node n: it honours its context while it runs.
func (n *scripted) provider(ctx context.Context) (eth2wrap.Client, error) {
	p := n.spec.Prov
	n.set("Pending")
	if p.Delay > 0 {
		tm := time.NewTimer(time.Duration(p.Delay))
		defer tm.Stop()
		select {
		case <-tm.C:
		case <-ctx.Done():
			n.set(fmt.Sprintf("Cancelled %d", time.Since(n.start).Nanoseconds()))
			return nil, ctx.Err()
		}
	}
	if p.Kind == "fail" {
		n.set(fmt.Sprintf("Done %d", time.Since(n.start).Nanoseconds()))
		return nil, reps[p.Class][p.Rep].mk(n.tag)
	}

	return n, nil
}

// CancelSpec cancels the caller's context At ns after the call started.
type CancelSpec struct {
	At       int64 `json:"at"`
	Deadline bool  `json:"deadline"` // context.WithTimeout instead of an explicit cancel()
}

// CaseSpec is one scripted call.
type CaseSpec struct {
	ID     int         `json:"id"`
	Kind   string      `json:"kind"`
	Style  string      `json:"style"` // Plain (SlotsPerEpoch) | Pred (NodeSyncing) | Submit (SubmitAttestations) | Proxy (POST with a body)
	Prim   []NodeSpec  `json:"prim"`
	Fb     []NodeSpec  `json:"fb"`
	Cancel *CancelSpec `json:"cancel,omitempty"`
	Scoped *ScopeSpec  `json:"scoped,omitempty"`
}

// ScopeSpec: the configured clients are lazy wrappers (as NewMultiHTTP builds them) and the call is
// made through multi.ClientForAddress(Addr).
type ScopeSpec struct {
	InitP []bool `json:"init_p"` // the primary's underlying client exists from the start
	InitF []bool `json:"init_f"`
	Warm  string `json:"warm,omitempty"` // "" | Plain | Submit: a call made through the multi client before scoping
	Addr  string `json:"addr"`           // "" | P<i> | F<j> | unknown
}

// Case is a script together with what was observed.
type Case struct {
	CaseSpec
	Coq        string   `json:"coq"`     // the label as a Gallina term of type Multi.case
	Res        string   `json:"res"`     // observed result (Gallina)
	Time       int64    `json:"time"`    // observed instant of return, -1 = did not return
	SP         []string `json:"sp"`      // observed status of the primaries
	SF         []string `json:"sf"`      // observed status of the fallbacks
	ObsInitP   []bool   `json:"obs_init_p,omitempty"` // scoped: which lazy clients existed when ClientForAddress was called
	ObsInitF   []bool   `json:"obs_init_f,omitempty"`
	WarmRes    string   `json:"warm_res,omitempty"`
	SCoq       string   `json:"scoq,omitempty"` // scoped: the label as a Gallina term of type Multi.scase
	LCoq       string   `json:"lcoq,omitempty"` // lazy: the label as a Gallina term of type Multi.lcase
	Bodies     []string `json:"bodies"`  // Proxy style, primaries then fallbacks: "" not read | ok | bad:<what the node read>
	Problems   []string `json:"problems,omitempty"`
	AfterBlock string   `json:"after_block,omitempty"` // what a blocked call returned once the harness cancelled it
	Nontrivial bool     `json:"nontrivial"`
}

// ---- constructed errors -------------------------------------------------------------------

type tagErr struct {
	tag  string
	base error
}

func (e tagErr) Error() string { return "node " + e.tag + " says " + e.base.Error() }
func (e tagErr) Unwrap() error { return e.base }

type netTimeout struct{}

func (netTimeout) Error() string   { return "i/o timeout" }
func (netTimeout) Timeout() bool   { return true }
func (netTimeout) Temporary() bool { return true }

var _ net.Error = netTimeout{}

type repDef struct {
	kind string // Gallina term of type Multi.ekind
	mk   func(tag string) error
}

func apiErr(code int, body string) func(string) error {
	return func(tag string) error {
		return tagErr{tag, &eth2api.Error{Method: http.MethodGet, Endpoint: "/eth/v1/x", StatusCode: code, Data: []byte(body)}}
	}
}

func leaf(base error) func(string) error {
	return func(tag string) error { return tagErr{tag, base} }
}

var reps = map[string][]repDef{
	"Timeout": {
		{"KDeadline", leaf(context.DeadlineExceeded)},
		{"KHttpTimeoutMsg", leaf(errors.New("http request timeout"))},
		{"KNotActiveMsg", leaf(errors.New("client is not active"))},
	},
	"Syncing": {
		{"KSyncingMsg", leaf(errors.New("beacon node is syncing"))},
		{"KHeadNotVerified", leaf(errors.New("HeadBlockNotFullyVerified"))},
		{"KApiSyncingBody", apiErr(500, "node is syncing")},
	},
	"Gateway": {
		{"(KApi 503)", apiErr(503, "")},
		{"(KApi 502)", apiErr(502, "")},
		{"(KApi 504)", apiErr(504, "")},
		{"KConnRefused", func(tag string) error {
			return &net.OpError{Op: "dial", Net: "tcp", Err: tagErr{tag, os.NewSyscallError("connect", syscall.ECONNREFUSED)}}
		}},
		{"(KErrno true)", leaf(syscall.ECONNRESET)},
		{"(KErrno false)", leaf(syscall.EPIPE)},
		{"KNetTimeout", leaf(netTimeout{})},
		{"KAbortHandler", leaf(http.ErrAbortHandler)},
	},
	"Other": {
		{"(KApi 404)", apiErr(404, "")},
		{"(KApi 400)", apiErr(400, "bad request")},
		{"(KApi 500)", apiErr(500, "internal")},
		{"KPlain", leaf(errors.New("boom"))},
		{"KCanceled", leaf(context.Canceled)},
		{"KRefusedText", leaf(errors.New("dial tcp 10.0.0.1:5052 connection refused"))},
	},
}

var classes = []string{"Timeout", "Syncing", "Gateway", "Other"}

// ---- scripted node ------------------------------------------------------------------------

type scripted struct {
	eth2wrap.Client // nil: every method the multi client is not expected to call panics

	tag    string
	spec   NodeSpec
	start  time.Time
	readAt time.Duration // Proxy style: when, after being called, the node reads the request body

	mu     sync.Mutex
	called int
	stat   string
	body   string // "" | ok | bad:...
}

const proxyBody = `{"validator_index":"1","slot":"42"}`

func (n *scripted) Address() string { return "http://" + n.tag }

func (n *scripted) set(stat string) {
	n.mu.Lock()
	n.stat = stat
	n.mu.Unlock()
}

func (n *scripted) get() (string, string, int) {
	n.mu.Lock()
	defer n.mu.Unlock()

	return n.stat, n.body, n.called
}

// sleep waits d of virtual time; false when the context was cancelled first (never for a deaf node).
func (n *scripted) sleep(ctx context.Context, d time.Duration) bool {
	tm := time.NewTimer(d)
	defer tm.Stop()
	if n.spec.Deaf {
		<-tm.C
		return true
	}
	select {
	case <-tm.C:
		return true
	case <-ctx.Done():
		return false
	}
}

// do is the node's behaviour for any endpoint: answer after Delay, honouring the context unless
// deaf. With a request body (Proxy) the node reads it shortly after being called, like an HTTP
// backend, and rejects a request whose body is not the one the caller sent.
func (n *scripted) do(ctx context.Context, body io.Reader, hasBody bool) error {
	n.mu.Lock()
	n.called++
	n.stat = "Pending"
	n.mu.Unlock()

	cancelled := func() error {
		n.set(fmt.Sprintf("Cancelled %d", time.Since(n.start).Nanoseconds()))
		return ctx.Err()
	}
	rest := time.Duration(n.spec.Delay)
	bad := false
	if hasBody {
		if !n.sleep(ctx, n.readAt) {
			return cancelled()
		}
		rest -= n.readAt
		var got []byte
		if body != nil {
			got, _ = io.ReadAll(body)
		}
		n.mu.Lock()
		if string(got) == proxyBody {
			n.body = "ok"
		} else {
			n.body = "bad:" + string(got)
			bad = true
		}
		n.mu.Unlock()
	}
	if n.spec.Out == "hang" {
		<-ctx.Done()
		return cancelled()
	}
	if !n.sleep(ctx, rest) {
		return cancelled()
	}
	n.set(fmt.Sprintf("Done %d", time.Since(n.start).Nanoseconds()))
	if bad {
		return tagErr{n.tag, &eth2api.Error{Method: http.MethodPost, Endpoint: "/eth/v1/x", StatusCode: http.StatusBadRequest, Data: []byte("malformed body")}}
	}
	if n.spec.Out == "err" {
		return reps[n.spec.Class][n.spec.Rep].mk(n.tag)
	}

	return nil
}

func (n *scripted) SlotsPerEpoch(ctx context.Context) (uint64, error) {
	if err := n.do(ctx, nil, false); err != nil {
		return 0, err
	}

	return n.spec.Ans, nil
}

func (n *scripted) NodeSyncing(ctx context.Context, _ *eth2api.NodeSyncingOpts) (*eth2api.Response[*eth2v1.SyncState], error) {
	if err := n.do(ctx, nil, false); err != nil {
		return nil, err
	}

	return &eth2api.Response[*eth2v1.SyncState]{Data: &eth2v1.SyncState{
		HeadSlot: eth2p0.Slot(n.spec.Ans), IsSyncing: n.spec.Out == "soft",
	}}, nil
}

func (n *scripted) SubmitAttestations(ctx context.Context, _ *eth2api.SubmitAttestationsOpts) error {
	return n.do(ctx, nil, false)
}

func (n *scripted) Proxy(ctx context.Context, req *http.Request) (*http.Response, error) {
	var body io.Reader
	if req.Body != nil {
		body = req.Body
	}
	if err := n.do(ctx, body, true); err != nil {
		return nil, err
	}

	return &http.Response{StatusCode: http.StatusOK, Header: http.Header{"X-Ans": {fmt.Sprint(n.spec.Ans)}}, Body: http.NoBody}, nil
}

// ---- running one case ---------------------------------------------------------------------

func nodeRef(tag string) string {
	return fmt.Sprintf("(%s %s)", tag[:1], tag[1:])
}

func outcomeTerm(s NodeSpec) string {
	switch s.Out {
	case "ok":
		return fmt.Sprintf("(Success %d)", s.Ans)
	case "soft":
		return fmt.Sprintf("(Soft %d)", s.Ans)
	case "err":
		return fmt.Sprintf("(Err %s)", s.Class)
	}

	return "Hang"
}

// scriptedOrder: the completing nodes by (latency, index).
func scriptedOrder(ns []NodeSpec) []int {
	var o []int
	for i, n := range ns {
		if n.Out != "hang" {
			o = append(o, i)
		}
	}
	sort.SliceStable(o, func(a, b int) bool { return ns[o[a]].Delay < ns[o[b]].Delay })

	return o
}

func natList(xs []int) string {
	ss := make([]string, len(xs))
	for i, x := range xs {
		ss[i] = fmt.Sprint(x)
	}

	return "[" + strings.Join(ss, "; ") + "]%nat"
}

func runCase(t *testing.T, spec CaseSpec) Case {
	t.Helper()
	c := Case{CaseSpec: spec, Time: -1}
	synctest.Test(t, func(t *testing.T) {
		start := time.Now()
		mk := func(prefix string, specs []NodeSpec) ([]*scripted, []eth2wrap.Client) {
			var ns []*scripted
			var cls []eth2wrap.Client
			rank := map[int]int{}
			for k, i := range scriptedOrder(specs) {
				rank[i] = k
			}
			for i, s := range specs {
				n := &scripted{tag: fmt.Sprintf("%s%d", prefix, i), spec: s, start: start, stat: "NotCalled"}
				if r, ok := rank[i]; ok { // the earlier a node completes the earlier it reads the request
					n.readAt = time.Duration(r+1) * time.Microsecond
				} else {
					n.readAt = time.Duration(len(specs)+i+1) * time.Microsecond
				}
				ns = append(ns, n)
				cls = append(cls, n)
			}

			return ns, cls
		}
		prim, primCl := mk("P", spec.Prim)
		fb, fbCl := mk("F", spec.Fb)
		all := append(append([]*scripted{}, prim...), fb...)
		if sc := spec.Scoped; sc != nil {
			wrap := func(ns []*scripted, init []bool) []eth2wrap.Client {
				var cls []eth2wrap.Client
				for i, n := range ns {
					if i < len(init) && init[i] {
						cls = append(cls, eth2wrap.NewLazyForT(n))
					} else {
						cls = append(cls, eth2wrap.NewLazyUninitForT(func(context.Context) (eth2wrap.Client, error) { return n, nil }))
					}
				}

				return cls
			}
			primCl, fbCl = wrap(prim, sc.InitP), wrap(fb, sc.InitF)
		} else {
			lazify := func(ns []*scripted, cls []eth2wrap.Client) {
				for i, n := range ns {
					switch {
					case n.spec.Prov == nil:
					case n.spec.Prov.Kind == "created":
						cls[i] = eth2wrap.NewLazyForT(n)
					default:
						cls[i] = eth2wrap.NewLazyUninitForT(n.provider)
					}
				}
			}
			lazify(prim, primCl)
			lazify(fb, fbCl)
		}

		var cl eth2wrap.Client
		if len(primCl) == 0 {
			cl = eth2wrap.NewMultiForT(primCl, fbCl) // Instrument refuses an empty primary list
		} else {
			var err error
			cl, err = eth2wrap.Instrument(primCl, fbCl)
			if err != nil {
				t.Fatalf("Instrument: %v", err)
			}
		}

		root, cancelRoot := context.WithCancel(log.WithLogger(context.Background(), zap.NewNop()))
		defer cancelRoot()
		if sc := spec.Scoped; sc != nil {
			if sc.Warm != "" { // earlier operation through the multi client itself; a hung node is given up after a day
				wctx, wc := context.WithTimeout(root, 24*time.Hour)
				var werr error
				if sc.Warm == "Submit" {
					werr = cl.SubmitAttestations(wctx, &eth2api.SubmitAttestationsOpts{})
				} else {
					_, werr = cl.SlotsPerEpoch(wctx)
				}
				wc()
				synctest.Wait()
				c.WarmRes = fmt.Sprint(werr)
				start = time.Now()
				for _, n := range all {
					n.mu.Lock()
					n.called, n.stat, n.body, n.start = 0, "NotCalled", "", start
					n.mu.Unlock()
				}
			}
			for _, l := range primCl {
				c.ObsInitP = append(c.ObsInitP, l.Address() != "")
			}
			for _, l := range fbCl {
				c.ObsInitF = append(c.ObsInitF, l.Address() != "")
			}
			addr := sc.Addr
			switch {
			case addr == "unknown":
				addr = "http://nowhere:5052"
			case addr != "":
				addr = "http://" + addr
			}
			cl = cl.ClientForAddress(addr)
		}
		ctx := root
		if spec.Cancel != nil {
			if spec.Cancel.Deadline {
				var c2 context.CancelFunc
				ctx, c2 = context.WithTimeout(root, time.Duration(spec.Cancel.At))
				defer c2()
			} else {
				var c2 context.CancelFunc
				ctx, c2 = context.WithCancel(root)
				if spec.Cancel.At <= 0 {
					c2()
				} else {
					tm := time.AfterFunc(time.Duration(spec.Cancel.At), c2)
					defer tm.Stop()
				}
				defer c2()
			}
		}

		var (
			err     error
			ans     uint64
			soft    bool
			elapsed time.Duration
		)
		done := make(chan struct{})
		go func() {
			defer close(done)
			switch spec.Style {
			case "Plain":
				ans, err = cl.SlotsPerEpoch(ctx)
			case "Pred":
				var resp *eth2api.Response[*eth2v1.SyncState]
				resp, err = cl.NodeSyncing(ctx, &eth2api.NodeSyncingOpts{})
				if err == nil {
					if resp == nil || resp.Data == nil {
						c.Problems = append(c.Problems, "nil response with nil error")
					} else {
						ans, soft = uint64(resp.Data.HeadSlot), resp.Data.IsSyncing
					}
				}
			case "Submit":
				err = cl.SubmitAttestations(ctx, &eth2api.SubmitAttestationsOpts{})
			case "Proxy":
				req, rerr := http.NewRequest(http.MethodPost, "http://vc/eth/v1/x", strings.NewReader(proxyBody))
				if rerr != nil {
					t.Fatal(rerr)
				}
				var resp *http.Response
				resp, err = cl.Proxy(ctx, req)
				if err == nil {
					if resp == nil {
						c.Problems = append(c.Problems, "nil response with nil error")
					} else {
						ans, _ = strconv.ParseUint(resp.Header.Get("X-Ans"), 10, 64)
					}
				}
			}
			elapsed = time.Since(start)
		}()

		var horizon time.Duration = time.Hour
		for _, n := range all {
			horizon += time.Duration(n.spec.Delay)
			if n.spec.Prov != nil {
				horizon += time.Duration(n.spec.Prov.Delay)
			}
		}
		if spec.Cancel != nil {
			horizon += time.Duration(spec.Cancel.At)
		}
		wait := time.NewTimer(horizon)
		defer wait.Stop()

		blocked := false
		select {
		case <-done:
		case <-wait.C:
			blocked = true
		}
		synctest.Wait() // let cancelled node calls record what they saw
		anyDeaf := false
		for _, n := range all {
			st, body, called := n.get()
			if strings.HasPrefix(n.tag, "P") {
				c.SP = append(c.SP, st)
			} else {
				c.SF = append(c.SF, st)
			}
			c.Bodies = append(c.Bodies, body)
			if called > 1 {
				c.Problems = append(c.Problems, fmt.Sprintf("node %s called %d times", n.tag, called))
			}
			anyDeaf = anyDeaf || n.spec.Deaf
		}

		if blocked {
			c.Res = "RBlocked"
			cancelRoot()
			<-done
			c.AfterBlock = fmt.Sprintf("returned %v at +%d after cancel", err, (time.Since(start) - horizon).Nanoseconds())
			if time.Since(start) != horizon || !errors.Is(err, context.Canceled) {
				c.Problems = append(c.Problems, "blocked call did not return ctx.Canceled at the instant of cancellation: "+c.AfterBlock)
			}
		} else {
			c.Time = elapsed.Nanoseconds()
			c.Res = render(&c, cl, all, err, ans, soft)
		}
		cancelRoot()
		synctest.Wait()
		if anyDeaf || isLazy(spec) {
			// let abandoned calls (and a provider that does not react to cancellation) drain before
			// leaving the bubble: its clock stops when the root goroutine exits
			time.Sleep(2 * horizon)
		}
	})

	tm := "None"
	if c.Time >= 0 {
		tm = fmt.Sprintf("(Some %d)", c.Time)
	}
	tc := "None"
	if spec.Cancel != nil {
		tc = fmt.Sprintf("(Some %d)", spec.Cancel.At)
	}
	nodes := func(ns []NodeSpec) string {
		ss := make([]string, len(ns))
		for i, n := range ns {
			ss[i] = fmt.Sprintf("mkn %s %d %v", outcomeTerm(n), n.Delay, n.Deaf)
		}

		return "[" + strings.Join(ss, "; ") + "]"
	}
	stats := func(ss []string) string { return "[" + strings.Join(ss, "; ") + "]" }
	c.Coq = fmt.Sprintf("mkc %s %s %s %s %s %s %s %s %s %s", spec.Style, nodes(spec.Prim), nodes(spec.Fb),
		natList(scriptedOrder(spec.Prim)), natList(scriptedOrder(spec.Fb)), tc, c.Res, tm, stats(c.SP), stats(c.SF))
	if sc := spec.Scoped; sc != nil {
		a := "ANone"
		switch {
		case sc.Addr == "unknown":
			a = "AUnknown"
		case strings.HasPrefix(sc.Addr, "P"):
			a = "(AP " + sc.Addr[1:] + ")"
		case strings.HasPrefix(sc.Addr, "F"):
			a = "(AF " + sc.Addr[1:] + ")"
		}
		bl := func(bs []bool) string {
			ss := make([]string, len(bs))
			for i, b := range bs {
				ss[i] = fmt.Sprint(b)
			}

			return "[" + strings.Join(ss, "; ") + "]"
		}
		c.SCoq = fmt.Sprintf("mks %s %s %s (%s)", a, bl(c.ObsInitP), bl(c.ObsInitF), c.Coq)
	}
	if isLazy(spec) {
		pl := func(ns []NodeSpec) string {
			ss := make([]string, len(ns))
			for i, n := range ns {
				ss[i] = provTerm(n)
			}

			return "[" + strings.Join(ss, "; ") + "]"
		}
		c.LCoq = fmt.Sprintf("mkl %s %s (%s)", pl(spec.Prim), pl(spec.Fb), c.Coq)
	}
	c.Nontrivial = len(spec.Prim) >= 2 && (strings.HasPrefix(c.Res, "(ROk (F") || strings.HasPrefix(c.Res, "(RErr") ||
		(strings.HasPrefix(c.Res, "(ROk (P") && anyOut(spec.Prim, "err", "hang")))

	return c
}

func isLazy(c CaseSpec) bool {
	for _, n := range append(append([]NodeSpec{}, c.Prim...), c.Fb...) {
		if n.Prov != nil {
			return true
		}
	}

	return false
}

func anyOut(ns []NodeSpec, outs ...string) bool {
	for _, n := range ns {
		for _, o := range outs {
			if n.Out == o {
				return true
			}
		}
	}

	return false
}

// render maps what the call returned to a Gallina term of type Multi.result.
func render(c *Case, cl eth2wrap.Client, all []*scripted, err error, ans uint64, soft bool) string {
	byTag := func(tag string) *scripted {
		for _, n := range all {
			if n.tag == tag {
				return n
			}
		}

		return nil
	}
	if err == nil {
		var winner *scripted
		switch c.Style {
		case "Submit":
			winner = byTag(strings.TrimPrefix(cl.Address(), "http://"))
			if winner == nil || winner.spec.Out != "ok" {
				// the best-node selector was not incremented: no node can be named; say so
				c.Problems = append(c.Problems, "submit succeeded but the selector names no successful node: "+cl.Address())
				return "(ROk (P 99) 0)"
			}

			return fmt.Sprintf("(ROk %s 0)", nodeRef(winner.tag))
		default:
			for _, n := range all {
				if (n.spec.Out == "ok" || n.spec.Out == "soft") && n.spec.Ans == ans {
					winner = n
				}
			}
			if winner == nil {
				c.Problems = append(c.Problems, fmt.Sprintf("answer %d is no configured node's answer", ans))
				return fmt.Sprintf("(ROk (P 99) %d)", ans)
			}
			if soft {
				return fmt.Sprintf("(RSoft %s %d)", nodeRef(winner.tag), ans)
			}
			if a := strings.TrimPrefix(cl.Address(), "http://"); c.Style != "Proxy" && (c.Scoped == nil || c.Scoped.Warm == "") && a != winner.tag {
				c.Problems = append(c.Problems, "selector names "+a+" but the answer is "+winner.tag+"'s")
			}

			return fmt.Sprintf("(ROk %s %d)", nodeRef(winner.tag), ans)
		}
	}
	var te tagErr
	if errors.As(err, &te) {
		n := byTag(te.tag)
		if n != nil && strings.HasPrefix(n.body, "bad:") { // the node rejected a request it did not receive intact
			return fmt.Sprintf("(RErr %s Other)", nodeRef(n.tag))
		}
		if n != nil && n.spec.Prov != nil && n.spec.Prov.Kind == "fail" { // the node's client could not be created
			return fmt.Sprintf("(RErr %s %s)", nodeRef(n.tag), n.spec.Prov.Class)
		}
		if n == nil || n.spec.Out != "err" {
			c.Problems = append(c.Problems, "error of an unknown node: "+err.Error())
			return "(RErr (P 99) Other)"
		}

		return fmt.Sprintf("(RErr %s %s)", nodeRef(n.tag), n.spec.Class)
	}
	if errors.Is(err, context.Canceled) || errors.Is(err, context.DeadlineExceeded) {
		want := context.Canceled
		if c.Cancel != nil && c.Cancel.Deadline {
			want = context.DeadlineExceeded
		}
		if c.Cancel == nil || !errors.Is(err, want) {
			c.Problems = append(c.Problems, "context error without a matching cancellation: "+err.Error())
		}

		return "RCtx"
	}
	if strings.Contains(err.Error(), "bug: no forkjoin results") {
		return "RBug"
	}
	c.Problems = append(c.Problems, "unclassifiable error: "+err.Error())

	return "RBug"
}

// ---- generation ---------------------------------------------------------------------------

var gaps = []int64{int64(time.Millisecond), int64(7 * time.Millisecond), int64(250 * time.Millisecond),
	int64(time.Second), int64(13 * time.Second), int64(90 * time.Second), int64(time.Hour)}

type gen struct {
	r     *rand.Rand
	cases []CaseSpec
}

func (g *gen) add(c CaseSpec) {
	c.ID = len(g.cases)
	g.cases = append(g.cases, c)
}

func alphabet(style string) []NodeSpec {
	a := []NodeSpec{{Out: "ok"}}
	for _, cl := range classes {
		a = append(a, NodeSpec{Out: "err", Class: cl})
	}
	a = append(a, NodeSpec{Out: "hang"})
	if style == "Pred" {
		a = append(a, NodeSpec{Out: "soft"})
	}

	return a
}

func vectors(a []NodeSpec, n int) [][]NodeSpec {
	if n == 0 {
		return [][]NodeSpec{{}}
	}
	var out [][]NodeSpec
	for _, v := range vectors(a, n-1) {
		for _, x := range a {
			w := append(append([]NodeSpec{}, v...), x)
			out = append(out, w)
		}
	}

	return out
}

func permutations(xs []int) [][]int {
	if len(xs) <= 1 {
		return [][]int{append([]int{}, xs...)}
	}
	var out [][]int
	for i := range xs {
		rest := append(append([]int{}, xs[:i]...), xs[i+1:]...)
		for _, p := range permutations(rest) {
			out = append(out, append([]int{xs[i]}, p...))
		}
	}

	return out
}

// orders returns all completion orders of the completing nodes of v.
func orders(v []NodeSpec) [][]int {
	var idx []int
	for i, n := range v {
		if n.Out != "hang" {
			idx = append(idx, i)
		}
	}

	return permutations(idx)
}

// place assigns latencies realising the completion order (strictly increasing, random gaps),
// answers (distinct, by node) and a constructed error per failing node.
func (g *gen) place(style, prefix string, v []NodeSpec, order []int) []NodeSpec {
	w := append([]NodeSpec{}, v...)
	var t int64
	for _, i := range order {
		t += gaps[g.r.Intn(len(gaps))]
		w[i].Delay = t
	}
	for i := range w {
		if w[i].Out == "err" {
			w[i].Rep = g.r.Intn(len(reps[w[i].Class]))
		}
		if (w[i].Out == "ok" || w[i].Out == "soft") && style != "Submit" {
			w[i].Ans = uint64(100 + i)
			if prefix == "F" {
				w[i].Ans = uint64(200 + i)
			}
		}
	}

	return w
}

func allFail(v []NodeSpec) bool {
	for _, n := range v {
		if n.Out != "err" && n.Out != "soft" {
			return false
		}
	}

	return true
}

// exhaustive: every outcome vector of <= maxP primaries and <= maxF fallbacks, every completion
// order of both groups. When some primary succeeds or hangs the fallback group is irrelevant to
// the code path; then only a few fallback groups are used unless full is set.
func (g *gen) exhaustive(style string, maxP, maxF int, full bool) {
	a := alphabet(style)
	small := [][]NodeSpec{{}, {{Out: "ok"}}, {{Out: "hang"}}, {{Out: "err", Class: "Timeout"}, {Out: "ok"}}}
	for np := 0; np <= maxP; np++ {
		for _, pv := range vectors(a, np) {
			var fvs [][]NodeSpec
			if full || allFail(pv) {
				for nf := 0; nf <= maxF; nf++ {
					fvs = append(fvs, vectors(a, nf)...)
				}
			} else {
				for _, s := range small {
					if len(s) <= maxF {
						fvs = append(fvs, s)
					}
				}
			}
			for _, po := range orders(pv) {
				for _, fv := range fvs {
					for _, fo := range orders(fv) {
						g.add(CaseSpec{Kind: "exhaustive", Style: style,
							Prim: g.place(style, "P", pv, po), Fb: g.place(style, "F", fv, fo)})
					}
				}
			}
		}
	}
}

// timeline returns the instants at which something can happen in an uncancelled run.
func timeline(c CaseSpec) []int64 {
	var ts []int64
	var maxP int64
	c.Prim, c.Fb = effectiveAll(c.Prim), effectiveAll(c.Fb)
	for _, n := range c.Prim {
		if n.Out != "hang" {
			ts = append(ts, n.Delay)
			if n.Delay > maxP {
				maxP = n.Delay
			}
		}
	}
	for _, n := range c.Fb {
		if n.Out != "hang" {
			ts = append(ts, maxP+n.Delay)
		}
	}
	sort.Slice(ts, func(a, b int) bool { return ts[a] < ts[b] })

	return ts
}

// withCancels adds, for a base case, one variant per gap of its timeline (before the first
// event, between events, after the last) plus a context that is already cancelled.
func (g *gen) withCancels(base CaseSpec, kind string) {
	ts := timeline(base)
	var ats []int64
	prev := int64(0)
	for _, t := range ts {
		if t-prev >= 2 {
			ats = append(ats, prev+(t-prev)/2)
		}
		prev = t
	}
	ats = append(ats, prev+int64(time.Minute), 0)
	for _, at := range ats {
		c := base
		c.Kind = kind
		c.Cancel = &CancelSpec{At: at, Deadline: g.r.Intn(2) == 0 && at > 0}
		g.add(c)
	}
}

func (g *gen) randomNodes(style, prefix string, n int, ties bool) []NodeSpec {
	a := alphabet(style)
	v := make([]NodeSpec, n)
	for i := range v {
		v[i] = a[g.r.Intn(len(a))]
		if g.r.Intn(3) == 0 { // bias towards failures so that the fallback path is taken
			v[i] = NodeSpec{Out: "err", Class: classes[g.r.Intn(len(classes))]}
		}
	}
	os := orders(v)
	w := g.place(style, prefix, v, os[g.r.Intn(len(os))])
	for i := range w {
		if w[i].Out != "hang" && g.r.Intn(5) == 0 {
			w[i].Deaf = true
		}
	}
	if ties {
		for i := range w {
			if w[i].Out != "hang" {
				w[i].Delay = int64(1+g.r.Intn(2)) * int64(time.Second)
			}
		}
	}

	return w
}

func (g *gen) random(n, maxP, maxF int, ties bool, kind string) {
	styles := []string{"Plain", "Pred", "Submit", "Proxy"}
	for k := 0; k < n; k++ {
		st := styles[g.r.Intn(4)]
		c := CaseSpec{Kind: kind, Style: st,
			Prim: g.randomNodes(st, "P", g.r.Intn(maxP+1), ties),
			Fb:   g.randomNodes(st, "F", g.r.Intn(maxF+1), ties)}
		if g.r.Intn(3) == 0 && !ties {
			ts := append([]int64{0}, timeline(c)...)
			i := g.r.Intn(len(ts))
			at := ts[i] + int64(time.Minute)
			if i+1 < len(ts) {
				at = ts[i] + (ts[i+1]-ts[i])/2
			}
			if at != ts[i] {
				c.Cancel = &CancelSpec{At: at, Deadline: g.r.Intn(2) == 0 && at > 0}
			}
		}
		if ties && g.r.Intn(4) == 0 {
			// never at an instant at which a node completes: that would be a race between a timer and the
			// cancellation, which the model resolves one way only
			c.Cancel = &CancelSpec{At: int64(1+2*g.r.Intn(3)) * int64(500*time.Millisecond), Deadline: g.r.Intn(2) == 0}
		}
		g.add(c)
	}
}

// wide: more nodes than forkjoin's default of 8 workers. Every node must be started at once: a
// success behind 8 hung or slow nodes still wins at its own latency.
func (g *gen) wide() {
	ms := int64(time.Millisecond)
	for _, st := range []string{"Plain", "Submit"} {
		ans := func(a uint64) uint64 {
			if st == "Submit" {
				return 0
			}

			return a
		}
		for _, n := range []int{9, 12, 17, 18, 25, 33, 40} {
			var hung, slow, failing []NodeSpec
			for i := 0; i < n-1; i++ {
				hung = append(hung, NodeSpec{Out: "hang"})
				slow = append(slow, NodeSpec{Out: "err", Class: "Other", Rep: 3, Delay: int64(time.Hour) + int64(i)*ms})
				failing = append(failing, NodeSpec{Out: "err", Class: "Timeout", Delay: int64(i+1) * ms})
			}
			ok := NodeSpec{Out: "ok", Delay: 5 * ms, Ans: ans(uint64(100 + n - 1))}
			g.add(CaseSpec{Kind: "wide", Style: st, Prim: append(append([]NodeSpec{}, hung...), ok)})
			g.add(CaseSpec{Kind: "wide", Style: st, Prim: append(append([]NodeSpec{}, slow...), ok)})
			fok := ok
			fok.Ans = ans(uint64(200 + n - 1))
			g.add(CaseSpec{Kind: "wide", Style: st, Prim: failing, Fb: append(append([]NodeSpec{}, hung...), fok)})
		}
		// 17..40 nodes, one healthy node at a random position among hung / slow / failing ones: a hung
		// prefix of at least 16 before it, or anywhere; as primaries and as fallbacks
		for k := 0; k < 6; k++ {
			n := 17 + g.r.Intn(24)
			p := g.r.Intn(n)
			if k%2 == 0 {
				p = 16 + g.r.Intn(n-16)
			}
			group := func(okAns uint64) []NodeSpec {
				v := make([]NodeSpec, n)
				for i := range v {
					switch {
					case i == p:
						v[i] = NodeSpec{Out: "ok", Delay: 5 * ms, Ans: ans(okAns)}
					case i < p && k%2 == 0:
						v[i] = NodeSpec{Out: "hang"}
					default:
						switch g.r.Intn(3) {
						case 0:
							v[i] = NodeSpec{Out: "hang"}
						case 1:
							v[i] = NodeSpec{Out: "err", Class: "Other", Rep: 3, Delay: int64(time.Hour) + int64(i)*ms}
						default:
							v[i] = NodeSpec{Out: "err", Class: classes[g.r.Intn(len(classes))], Delay: int64(10+i) * ms}
						}
					}
				}

				return v
			}
			g.add(CaseSpec{Kind: "wide", Style: st, Prim: group(uint64(100 + p))})
			g.add(CaseSpec{Kind: "wide", Style: st, Prim: []NodeSpec{{Out: "err", Class: "Gateway", Delay: ms}}, Fb: group(uint64(200 + p))})
		}
	}
}

// deaf: node calls that ignore cancellation of their context (a request stuck in a dial / DNS
// lookup / TLS handshake) and return only after a long time. They must delay neither another
// node's successful answer nor the caller's cancellation.
func (g *gen) deaf(systematic bool) {
	ms := int64(time.Millisecond)
	hour := int64(time.Hour)
	for _, st := range []string{"Plain", "Submit", "Proxy", "Pred"} {
		ans := func(a uint64) uint64 {
			if st == "Submit" {
				return 0
			}

			return a
		}
		stuck := NodeSpec{Out: "err", Class: "Timeout", Delay: hour, Deaf: true}
		lateOK := NodeSpec{Out: "ok", Delay: hour, Deaf: true, Ans: ans(150)}
		ok := func(i int) NodeSpec { return NodeSpec{Out: "ok", Delay: 10 * ms, Ans: ans(uint64(100 + i))} }
		fok := func(i int) NodeSpec { return NodeSpec{Out: "ok", Delay: 10 * ms, Ans: ans(uint64(200 + i))} }
		down := NodeSpec{Out: "err", Class: "Gateway", Delay: 5 * ms}
		hang := NodeSpec{Out: "hang"}
		slow := NodeSpec{Out: "ok", Delay: 2 * hour, Ans: ans(160)}
		add := func(prim, fb []NodeSpec, cancel *CancelSpec) {
			g.add(CaseSpec{Kind: "deaf", Style: st, Prim: prim, Fb: fb, Cancel: cancel})
		}
		// (a) another primary succeeds quickly
		add([]NodeSpec{stuck, ok(1)}, nil, nil)
		add([]NodeSpec{ok(0), stuck}, nil, nil)
		add([]NodeSpec{lateOK, ok(1)}, nil, nil)
		add([]NodeSpec{stuck, stuck, ok(2)}, []NodeSpec{fok(0)}, nil)
		// (b) the primaries fail, the fallback round contains the stuck node and a healthy one
		add([]NodeSpec{down}, []NodeSpec{stuck, fok(1)}, nil)
		add([]NodeSpec{down, down}, []NodeSpec{fok(0), stuck}, nil)
		// (c) the caller gives up while a stuck call and an ordinary in-flight call are awaited
		for _, dl := range []bool{false, true} {
			add([]NodeSpec{stuck, hang}, nil, &CancelSpec{At: int64(time.Second), Deadline: dl})
			add([]NodeSpec{hang, stuck}, []NodeSpec{fok(0)}, &CancelSpec{At: int64(time.Second), Deadline: dl})
			add([]NodeSpec{stuck, slow}, nil, &CancelSpec{At: int64(time.Second), Deadline: dl})
			add([]NodeSpec{down}, []NodeSpec{stuck, hang}, &CancelSpec{At: int64(time.Second), Deadline: dl})
			// only the stuck call is awaited: the cancellation is noticed when it returns (what the code does)
			add([]NodeSpec{stuck}, nil, &CancelSpec{At: int64(time.Second), Deadline: dl})
		}
	}
	if !systematic {
		return
	}
	// every vector of two primaries with every non-empty choice of context-ignoring completing nodes,
	// three fallback groups, every cancellation gap
	for _, st := range []string{"Plain", "Submit"} {
		a := alphabet(st)
		fbs := [][]NodeSpec{{}, {{Out: "ok"}}, {{Out: "err", Class: "Timeout", Deaf: true}, {Out: "ok"}}}
		for _, pv := range vectors(a, 2) {
			for _, po := range orders(pv) {
				for mask := 1; mask < 1<<len(po); mask++ {
					for _, fv := range fbs {
						c := CaseSpec{Kind: "deaf", Style: st, Prim: g.place(st, "P", pv, po), Fb: g.place(st, "F", fv, orders(fv)[0])}
						for k, i := range po {
							if mask&(1<<k) != 0 {
								c.Prim[i].Deaf = true
							}
						}
						g.add(c)
						g.withCancels(c, "deaf")
					}
				}
			}
		}
	}
}

// scoped: multi clients over lazy wrappers, called through ClientForAddress with "", every configured
// address and an unknown one; every combination of already created / not yet created clients, fresh
// and after an earlier call through the multi client.
func (g *gen) scoped(thorough bool) {
	pa := []NodeSpec{{Out: "ok"}, {Out: "err", Class: "Gateway"}, {Out: "err", Class: "Other"}}
	fa := []NodeSpec{{Out: "ok"}, {Out: "err", Class: "Gateway"}}
	maxF := 1
	if thorough {
		pa = append(pa, NodeSpec{Out: "hang"})
		maxF = 2
	}
	masks := func(n int) [][]bool {
		var out [][]bool
		for m := 0; m < 1<<n; m++ {
			b := make([]bool, n)
			for i := range b {
				b[i] = m&(1<<i) != 0
			}
			out = append(out, b)
		}

		return out
	}
	for np := 1; np <= 2; np++ {
		for _, pv := range vectors(pa, np) {
			for _, po := range orders(pv) {
				for nf := 0; nf <= maxF; nf++ {
					for _, fv := range vectors(fa, nf) {
						addrs := []string{"", "unknown"}
						for i := range pv {
							addrs = append(addrs, fmt.Sprintf("P%d", i))
						}
						for j := range fv {
							addrs = append(addrs, fmt.Sprintf("F%d", j))
						}
						for _, addr := range addrs {
							mk := func(st string, ip, iF []bool, warm string) {
								g.add(CaseSpec{Kind: "scoped", Style: st,
									Prim: g.place(st, "P", pv, po), Fb: g.place(st, "F", fv, orders(fv)[0]),
									Scoped: &ScopeSpec{InitP: ip, InitF: iF, Warm: warm, Addr: addr}})
							}
							for _, ip := range masks(np) {
								for _, iF := range masks(nf) {
									mk("Plain", ip, iF, "")
									if addr == "" || thorough {
										mk("Submit", ip, iF, "")
									}
								}
							}
							// warm: the earlier call decides which clients exist
							mk("Plain", make([]bool, np), make([]bool, nf), "Plain")
							if thorough {
								mk("Plain", make([]bool, np), make([]bool, nf), "Submit")
							}
						}
					}
				}
			}
		}
	}
}

// lazy: nodes wrapped in the real lazy client, provider immediate / delayed (up to the 30 s an HTTP
// timeout against a hung node takes) / failing, first use or client already created, with a
// cancellation or deadline in every gap of the run.
func (g *gen) lazy(thorough bool) {
	outs := []NodeSpec{{Out: "ok"}, {Out: "err", Class: "Gateway"}, {Out: "err", Class: "Other"}, {Out: "hang"}}
	provs := func() []*ProvSpec {
		return []*ProvSpec{
			{Kind: "created"},
			{Kind: "delay"},
			{Kind: "delay", Delay: int64(3*time.Millisecond) + 1},
			{Kind: "delay", Delay: int64(30*time.Second) + 7},
			{Kind: "fail", Delay: int64(2*time.Second) + 3, Class: "Timeout", Rep: 2},
			{Kind: "fail", Class: "Other", Rep: 3},
		}
	}
	var nodes []NodeSpec
	for _, o := range outs {
		for _, p := range provs() {
			n := o
			n.Prov = p
			nodes = append(nodes, n)
		}
	}
	fbs := [][]NodeSpec{{}, {{Out: "ok", Prov: &ProvSpec{Kind: "delay"}}}, {{Out: "hang", Prov: &ProvSpec{Kind: "delay", Delay: int64(30*time.Second) + 7}}}}
	emit := func(st string, pv []NodeSpec, fv []NodeSpec) {
		os := orders(pv)
		c := CaseSpec{Kind: "lazy", Style: st, Prim: g.place(st, "P", pv, os[g.r.Intn(len(os))]), Fb: g.place(st, "F", fv, orders(fv)[0])}
		g.add(c)
		g.withCancels(c, "lazy")
	}
	styles := []string{"Plain", "Submit"}
	for _, st := range styles {
		for _, n := range nodes {
			for _, fv := range fbs {
				emit(st, []NodeSpec{n}, fv)
			}
		}
	}
	pairs := 120
	if thorough {
		pairs = len(nodes) * len(nodes)
	}
	for k := 0; k < pairs; k++ {
		a, b := nodes[g.r.Intn(len(nodes))], nodes[g.r.Intn(len(nodes))]
		if thorough {
			a, b = nodes[k/len(nodes)], nodes[k%len(nodes)]
		}
		if g.r.Intn(4) == 0 {
			b.Prov = nil // a plain node next to a lazy one
		}
		emit(styles[k%2], []NodeSpec{a, b}, fbs[g.r.Intn(len(fbs))])
		if thorough {
			emit("Pred", []NodeSpec{a, b}, fbs[g.r.Intn(len(fbs))])
		}
	}
}

// classification: every constructed error as the failure of a single primary with one healthy
// fallback; "consulted" is read off the fallback's status.
type classRow struct {
	Kind      string   `json:"kind"`
	Style     string   `json:"style"`
	Consulted bool     `json:"consulted"`
	Res       string   `json:"res"`
	Spec      CaseSpec `json:"spec"`
}

func classification(t *testing.T) []classRow {
	var rows []classRow
	for _, cl := range classes {
		for rep, d := range reps[cl] {
			for _, st := range []string{"Plain", "Submit"} {
				spec := CaseSpec{Kind: "classify", Style: st,
					Prim: []NodeSpec{{Out: "err", Class: cl, Rep: rep, Delay: int64(time.Second)}},
					Fb:   []NodeSpec{{Out: "ok", Delay: int64(time.Second), Ans: 200}}}
				if st == "Submit" {
					spec.Fb[0].Ans = 0
				}
				c := runCase(t, spec)
				rows = append(rows, classRow{Kind: d.kind, Style: st, Consulted: c.SF[0] != "NotCalled", Res: c.Res, Spec: spec})
			}
		}
	}

	return rows
}

type output struct {
	Cases          []Case     `json:"cases"`
	Classification []classRow `json:"classification"`
	InstrumentNil  string     `json:"instrument_empty"`
}

func TestGen(t *testing.T) {
	var replay CaseSpec
	if ok, err := hx.ReadReplay(&replay); ok {
		if err != nil {
			t.Fatal(err)
		}
		replay.ID = 0
		out := output{Cases: []Case{runCase(t, replay)}}
		if err := hx.WriteJSON("multi_cases.json", out); err != nil {
			t.Fatal(err)
		}

		return
	}

	g := &gen{r: hx.Rand()}
	// corpus: the shapes the property text is about, and the mixed-class pair in both orders
	ms := int64(time.Millisecond)
	corpus := []CaseSpec{
		{Style: "Plain", Prim: []NodeSpec{{Out: "hang"}, {Out: "ok", Delay: 5 * ms, Ans: 101}, {Out: "ok", Delay: 900 * ms, Ans: 102}}},
		// first use of a hung primary and a hung fallback whose providers take 30 s; the caller gives up after 100 ms
		{Style: "Plain", Prim: []NodeSpec{{Out: "hang", Prov: &ProvSpec{Kind: "delay", Delay: 30 * 1000 * ms}}},
			Fb: []NodeSpec{{Out: "hang", Prov: &ProvSpec{Kind: "delay", Delay: 30 * 1000 * ms}}}, Cancel: &CancelSpec{At: 100 * ms}},
		{Style: "Submit", Prim: []NodeSpec{{Out: "hang", Prov: &ProvSpec{Kind: "delay", Delay: 30 * 1000 * ms}}},
			Fb: []NodeSpec{{Out: "hang", Prov: &ProvSpec{Kind: "delay", Delay: 30 * 1000 * ms}}}, Cancel: &CancelSpec{At: 100 * ms, Deadline: true}},
		// fresh lazy clients, first primary down, second healthy, called through ClientForAddress("")
		{Style: "Plain", Prim: []NodeSpec{{Out: "err", Class: "Other", Rep: 2, Delay: ms}, {Out: "ok", Delay: 2 * ms, Ans: 101}},
			Scoped: &ScopeSpec{InitP: []bool{false, false}, Addr: ""}},
		// warm client, healthy primary, a down fallback that was never needed, ClientForAddress("")
		{Style: "Plain", Prim: []NodeSpec{{Out: "ok", Delay: ms, Ans: 100}}, Fb: []NodeSpec{{Out: "err", Class: "Other", Rep: 2, Delay: ms}},
			Scoped: &ScopeSpec{InitP: []bool{false}, InitF: []bool{false}, Warm: "Plain", Addr: ""}},
		{Style: "Plain", Prim: []NodeSpec{{Out: "err", Class: "Other", Delay: 1 * ms}, {Out: "err", Class: "Timeout", Delay: 2 * ms}}, Fb: []NodeSpec{{Out: "ok", Delay: ms, Ans: 200}}},
		{Style: "Plain", Prim: []NodeSpec{{Out: "err", Class: "Other", Delay: 2 * ms}, {Out: "err", Class: "Timeout", Delay: 1 * ms}}, Fb: []NodeSpec{{Out: "ok", Delay: ms, Ans: 200}}},
		{Style: "Submit", Prim: []NodeSpec{{Out: "err", Class: "Gateway", Rep: 1, Delay: 3 * ms}}, Fb: []NodeSpec{{Out: "hang"}, {Out: "ok", Delay: 4 * ms}}},
		{Style: "Plain", Prim: []NodeSpec{}, Fb: []NodeSpec{{Out: "ok", Delay: ms, Ans: 200}}},
		{Style: "Pred", Prim: []NodeSpec{{Out: "soft", Delay: 2 * ms, Ans: 100}, {Out: "err", Class: "Syncing", Delay: 1 * ms}}, Fb: []NodeSpec{{Out: "ok", Delay: ms, Ans: 200}}},
		{Style: "Plain", Prim: []NodeSpec{{Out: "hang"}, {Out: "err", Class: "Timeout", Delay: ms}}, Fb: []NodeSpec{{Out: "ok", Delay: ms, Ans: 200}}, Cancel: &CancelSpec{At: 10 * ms}},
		{Style: "Plain", Prim: []NodeSpec{{Out: "err", Class: "Timeout", Delay: ms}}, Fb: []NodeSpec{{Out: "hang"}}, Cancel: &CancelSpec{At: 10 * ms, Deadline: true}},
	}
	corpus = append(corpus,
		// proxied POST: the failing primary reads the request first, the healthy one afterwards
		CaseSpec{Style: "Proxy", Prim: []NodeSpec{{Out: "err", Class: "Other", Rep: 2, Delay: ms}, {Out: "ok", Delay: 2 * ms, Ans: 101}}},
		// proxied POST: primary unavailable, the fallback must get the same request
		CaseSpec{Style: "Proxy", Prim: []NodeSpec{{Out: "err", Class: "Gateway", Delay: ms}}, Fb: []NodeSpec{{Out: "ok", Delay: ms, Ans: 200}}},
		// a call stuck for an hour ignoring its context next to a healthy node / next to a caller that gives up
		CaseSpec{Style: "Plain", Prim: []NodeSpec{{Out: "err", Class: "Timeout", Delay: int64(time.Hour), Deaf: true}, {Out: "ok", Delay: 10 * ms, Ans: 101}}},
		CaseSpec{Style: "Submit", Prim: []NodeSpec{{Out: "err", Class: "Timeout", Delay: int64(time.Hour), Deaf: true}, {Out: "hang"}}, Cancel: &CancelSpec{At: int64(time.Second)}},
	)
	for _, c := range corpus {
		c.Kind = "corpus"
		g.add(c)
	}

	g.wide()
	g.deaf(true)
	g.scoped(hx.Thorough())
	g.lazy(hx.Thorough())

	styles := []string{"Plain", "Submit", "Pred"}
	if hx.Thorough() {
		g.exhaustive("Plain", 3, 2, true) // the full product
		g.exhaustive("Submit", 3, 2, true)
		g.exhaustive("Pred", 3, 2, false) // 7 outcomes per node: fallback group reduced when it cannot matter
		g.exhaustive("Proxy", 3, 2, false)
		for _, st := range append(styles, "Proxy") { // cancellation in every gap of every <= 2+1 run
			h := &gen{r: g.r}
			h.exhaustive(st, 2, 1, true)
			for _, b := range h.cases {
				g.withCancels(b, "cancel")
			}
		}
		g.random(hx.IntEnv("VERIF_N", 6000), 6, 4, false, "random")
		g.random(3000, 3, 2, true, "ties")
	} else {
		for _, st := range append(styles, "Proxy") {
			g.exhaustive(st, 2, 1, true)
		}
		h := &gen{r: g.r}
		h.exhaustive("Plain", 2, 1, true)
		h.exhaustive("Submit", 1, 1, true)
		h.exhaustive("Proxy", 1, 1, true)
		for _, b := range h.cases {
			g.withCancels(b, "cancel")
		}
		g.random(hx.IntEnv("VERIF_N", 600), 5, 3, false, "random")
		g.random(300, 3, 2, true, "ties")
	}

	out := output{Classification: classification(t)}
	if _, err := eth2wrap.Instrument(nil, nil); err != nil {
		out.InstrumentNil = "refused"
	} else {
		out.InstrumentNil = "accepted"
	}
	out.Cases = make([]Case, 0, len(g.cases))
	for _, spec := range g.cases {
		out.Cases = append(out.Cases, runCase(t, spec))
	}
	if err := hx.WriteJSON("multi_cases.json", out); err != nil {
		t.Fatal(err)
	}
}
