// Real-HTTP part of the C19 harness (`firstuse`): eth2wrap.NewMultiHTTP -- the production
// constructor, i.e. the real lazy provider eth2http.New -- over httptest servers, first-ever request
// to a node that accepts connections and never answers, caller cancels after 200 ms. Wall clock,
// real sockets (not synctest); the only judgement is "returned within a wide margin (5 s) of the
// cancellation, far below the 30 s beacon-node timeout". A measurement above the margin but not
// clearly timeout-bound is repeated alone before it counts. If the harness cannot start (no
// listener, constructor error, unexpected error kind) the case is skipped, never a finding.
package multi

import (
	"context"
	"errors"
	"fmt"
	"net/http"
	"net/http/httptest"
	"os"
	"sync"
	"testing"
	"time"

	eth2api "github.com/attestantio/go-eth2-client/api"
	eth2v1 "github.com/attestantio/go-eth2-client/api/v1"
	"go.uber.org/zap"

	"github.com/obolnetwork/charon/app/eth2wrap"
	"github.com/obolnetwork/charon/app/log"

	"verif/harness/hx"
)

const (
	fuTimeout = 30 * time.Second       // configured beacon-node timeout
	fuCancel  = 200 * time.Millisecond // the caller gives up
	fuMargin  = 5 * time.Second        // "promptly", generously
	fuClear   = 24 * time.Second       // at or above this the return is clearly bound by the node timeout
)

// FirstUse is one real-HTTP observation.
type FirstUse struct {
	Name      string `json:"name"`
	Style     string `json:"style"`   // Plain (Spec) | Submit (SubmitProposalPreparations)
	Variant   string `json:"variant"` // hung-primary | two-hung-primaries | unavailable-primary-hung-fallback
	ElapsedMS int64  `json:"elapsed_ms"`
	RerunMS   int64  `json:"rerun_ms"` // -1: not repeated
	Err       string `json:"err"`
	Status    string `json:"status"` // ok | late | skipped
	Why       string `json:"why,omitempty"`
}

func fuRun(variant, style string) (elapsed time.Duration, err error, skip string) {
	defer func() {
		if r := recover(); r != nil {
			skip = fmt.Sprint("harness panic: ", r)
		}
	}()
	release := make(chan struct{})
	hung := func() *httptest.Server {
		return httptest.NewServer(http.HandlerFunc(func(_ http.ResponseWriter, r *http.Request) {
			select {
			case <-release:
			case <-r.Context().Done():
			}
		}))
	}
	var servers []*httptest.Server
	defer func() {
		close(release)
		for _, s := range servers {
			s.CloseClientConnections()
			s.Close()
		}
	}()
	mk := func(s *httptest.Server) string { servers = append(servers, s); return s.URL }
	var prim, fb []string
	switch variant {
	case "hung-primary":
		prim = []string{mk(hung())}
	case "two-hung-primaries":
		prim = []string{mk(hung()), mk(hung())}
	case "unavailable-primary-hung-fallback":
		prim = []string{mk(httptest.NewServer(http.HandlerFunc(func(w http.ResponseWriter, _ *http.Request) {
			w.WriteHeader(http.StatusServiceUnavailable)
		})))}
		fb = []string{mk(hung())}
	}
	cl, cerr := eth2wrap.NewMultiHTTP(fuTimeout, [4]byte{}, nil, prim, fb)
	if cerr != nil {
		return 0, nil, "NewMultiHTTP: " + cerr.Error()
	}
	ctx, cancel := context.WithCancel(log.WithLogger(context.Background(), zap.NewNop()))
	defer cancel()
	tm := time.AfterFunc(fuCancel, cancel)
	defer tm.Stop()
	t0 := time.Now()
	if style == "Submit" {
		err = cl.SubmitProposalPreparations(ctx, []*eth2v1.ProposalPreparation{{ValidatorIndex: 1}})
	} else {
		_, err = cl.Spec(ctx, &eth2api.SpecOpts{})
	}

	return time.Since(t0), err, ""
}

func TestFirstUse(t *testing.T) {
	only := os.Getenv("VERIF_FIRSTUSE")
	var rows []*FirstUse
	for _, v := range []string{"hung-primary", "two-hung-primaries", "unavailable-primary-hung-fallback"} {
		for _, st := range []string{"Plain", "Submit"} {
			r := &FirstUse{Name: v + "/" + st, Style: st, Variant: v, RerunMS: -1}
			if only == "" || only == r.Name {
				rows = append(rows, r)
			}
		}
	}
	judge := func(r *FirstUse, d time.Duration, err error, skip string) {
		switch {
		case skip != "":
			r.Status, r.Why = "skipped", skip
		case err == nil || !errors.Is(err, context.Canceled):
			r.Status, r.Why = "skipped", "the call did not end with context.Canceled (harness could not set the scenario up)"
		case d <= fuMargin:
			r.Status = "ok"
		default:
			r.Status = "late"
		}
		if err != nil {
			r.Err = err.Error()
			if len(r.Err) > 300 {
				r.Err = r.Err[:300]
			}
		}
	}
	var wg sync.WaitGroup
	for _, r := range rows {
		wg.Add(1)
		go func() {
			defer wg.Done()
			d, err, skip := fuRun(r.Variant, r.Style)
			r.ElapsedMS = d.Milliseconds()
			judge(r, d, err, skip)
		}()
	}
	wg.Wait()
	for _, r := range rows { // above the margin but not clearly timeout-bound: repeat alone
		if r.Status == "late" && time.Duration(r.ElapsedMS)*time.Millisecond < fuClear {
			d, err, skip := fuRun(r.Variant, r.Style)
			r.RerunMS = d.Milliseconds()
			judge(r, d, err, skip)
		}
	}
	out := make([]FirstUse, len(rows))
	for i, r := range rows {
		out[i] = *r
	}
	if err := hx.WriteJSON("multi_firstuse.json", out); err != nil {
		t.Fatal(err)
	}
}
