// Correspondence harness for C11, share <-> published list: dkg/share.MsgFromShare turns the map
// share index -> public share (share.Share.PublicShares) into the ORDERED list that is published in the cluster
// lock (DistValidator.PubShares) and sent on the wire. Model: the published list holds the public shares in
// ascending share-index order; for the dense index sets 1..n that a ceremony produces, position i-1 holds the
// public share of index i (every consumer pairs lock.Validators[v].PubShares[i-1] with share index i).
// PubKey and SecretShare are copied byte for byte. Checked for every n in 1..40 with several random maps each
// (Go map iteration order varies per run and per map), for sparse index sets and for large indices.
package c11share

import (
	"bytes"
	"crypto/sha256"
	"fmt"
	"sort"
	"testing"

	"github.com/obolnetwork/charon/dkg/share"
	"github.com/obolnetwork/charon/tbls"

	"verif/harness/hx"
)

type Case struct {
	IDs  []int `json:"ids"`
	Salt int   `json:"salt"`
}

type Violation struct {
	Key    string `json:"key"`
	What   string `json:"what"`
	Replay Case   `json:"replay"`
}

type Out struct {
	Cases      int            `json:"cases"`
	Violations []Violation    `json:"violations"`
	Dist       map[string]int `json:"dist"`
}

func pubOf(id, salt int) tbls.PublicKey {
	var pk tbls.PublicKey
	h1 := sha256.Sum256([]byte(fmt.Sprintf("pub-%d-%d", id, salt)))
	h2 := sha256.Sum256(h1[:])
	copy(pk[:32], h1[:])
	copy(pk[32:], h2[:16])
	return pk
}

// check runs MsgFromShare on the share with the given index set (several times: map order varies) against the model.
func check(c Case) string {
	s := share.Share{PublicShares: map[int]tbls.PublicKey{}}
	h := sha256.Sum256([]byte(fmt.Sprintf("group-%d", c.Salt)))
	copy(s.PubKey[:], h[:])
	copy(s.SecretShare[:], h[:])
	for _, id := range c.IDs {
		s.PublicShares[id] = pubOf(id, c.Salt)
	}
	sorted := append([]int(nil), c.IDs...)
	sort.Ints(sorted)
	for rep := 0; rep < 4; rep++ {
		m := share.MsgFromShare(s)
		if !bytes.Equal(m.PubKey, s.PubKey[:]) || !bytes.Equal(m.SecretShare, s.SecretShare[:]) {
			return "MsgFromShare does not copy the group public key / secret share byte for byte"
		}
		if len(m.PubShares) != len(sorted) {
			return fmt.Sprintf("MsgFromShare publishes %d public shares for %d share indices %v", len(m.PubShares), len(sorted), sorted)
		}
		for pos, id := range sorted {
			want := pubOf(id, c.Salt)
			if !bytes.Equal(m.PubShares[pos], want[:]) {
				holder := -1
				for _, j := range sorted {
					pj := pubOf(j, c.Salt)
					if bytes.Equal(m.PubShares[pos], pj[:]) {
						holder = j
					}
				}
				return fmt.Sprintf("share indices %v: position %d of the published list must hold the public share of index %d, it holds the one of index %d", sorted, pos, id, holder)
			}
		}
	}
	return ""
}

func TestGen(t *testing.T) {
	out := Out{Dist: map[string]int{}}
	var cases []Case
	var replay Case
	if ok, err := hx.ReadReplay(&replay); ok {
		if err != nil {
			t.Fatal(err)
		}
		if len(replay.IDs) == 0 {
			t.Skip("not a share-order replay")
		}
		cases = []Case{replay}
	} else {
		r := hx.Rand()
		for n := 1; n <= 40; n++ {
			ids := make([]int, n)
			for i := range ids {
				ids[i] = i + 1
			}
			for k := 0; k < 3; k++ {
				cases = append(cases, Case{IDs: ids, Salt: r.Intn(1 << 20)})
				out.Dist["dense_1_to_n"]++
			}
		}
		for k := 0; k < 120; k++ { // sparse index sets and large indices
			size := 1 + r.Intn(12)
			max := []int{8, 9, 16, 17, 64, 300, 70000}[r.Intn(7)]
			set := map[int]bool{}
			for len(set) < size && len(set) < max {
				set[1+r.Intn(max)] = true
			}
			var ids []int
			for id := range set {
				ids = append(ids, id)
			}
			sort.Ints(ids)
			cases = append(cases, Case{IDs: ids, Salt: r.Intn(1 << 20)})
			out.Dist["sparse_or_large"]++
		}
	}
	for _, c := range cases {
		out.Cases++
		if what := check(c); what != "" && len(out.Violations) < 6 {
			out.Violations = append(out.Violations, Violation{Key: "share:published-public-shares-not-in-share-index-order", What: "dkg/share.MsgFromShare: " + what, Replay: c})
		}
	}
	if err := hx.WriteJSON("c11share_cases.json", out); err != nil {
		t.Fatal(err)
	}
}
