//go:build verif

// C14: the consensus value hash (the real, unexported hashProto) of an unsigned data set must not depend
// on the order in which the set was built, nor differ between repeated marshallings of one set.
package priority

import (
	"encoding/hex"
	"encoding/json"
	"math/rand"
	"os"
	"path/filepath"
	"strconv"
	"testing"

	"github.com/obolnetwork/charon/core"
	"github.com/obolnetwork/charon/testutil"
)

func TestVerifC14HashProto(t *testing.T) {
	seed, _ := strconv.ParseInt(os.Getenv("VERIF_SEED"), 10, 64)
	n, _ := strconv.Atoi(os.Getenv("VERIF_N"))
	if n == 0 {
		n = 40
	}
	r := rand.New(rand.NewSource(seed + 14)) //nolint:gosec
	type diff struct {
		Case int      `json:"case"`
		Keys []string `json:"keys"`
		H    []string `json:"hashes"`
	}
	var diffs []diff
	evals := 0
	for c := 0; c < n; c++ {
		k := 2 + r.Intn(10)
		keys := make([]core.PubKey, k)
		vals := make([]core.UnsignedData, k)
		for i := range keys {
			raw := make([]byte, 48)
			_, _ = r.Read(raw)
			keys[i] = core.PubKey("0x" + hex.EncodeToString(raw))
			vals[i] = testutil.RandomCoreAttestationDataSeed(t, r)
		}
		var hashes []string
		for rep := 0; rep < 5; rep++ {
			set := make(core.UnsignedDataSet)
			for _, i := range r.Perm(k) {
				set[keys[i]] = vals[i]
			}
			pb, err := core.UnsignedDataSetToProto(set)
			if err != nil {
				t.Fatal(err)
			}
			h, err := hashProto(pb)
			if err != nil {
				t.Fatal(err)
			}
			hashes = append(hashes, hex.EncodeToString(h[:]))
			evals++
		}
		for _, h := range hashes[1:] {
			if h != hashes[0] {
				ks := make([]string, k)
				for i := range keys {
					ks[i] = string(keys[i])
				}
				diffs = append(diffs, diff{Case: c, Keys: ks, H: hashes})
				break
			}
		}
	}
	out, _ := json.Marshal(map[string]any{"evaluations": evals, "diffs": diffs})
	if err := os.WriteFile(filepath.Join(os.Getenv("VERIF_OUT"), "c14_hash_priority.json"), out, 0o644); err != nil {
		t.Fatal(err)
	}
}
