//go:build verif

// Timer wiring (C04, round-timer part): the REAL runInstance (through Propose / ProposePriority) of
// three running Consensus components of a four-member cluster whose round-1 leader is silent, with
// the real timer.GetRoundTimerFunc (non-zero genesis time + slot duration) for each timer feature
// flag combination, inside a synctest bubble (virtual time: the timers' real clock is the bubble's).
// The only seam used is the Consensus.timerFunc field: every timer object it hands out is wrapped so
// that each Timer(round) call made by core/qbft.Run is recorded as (round, clock reading, instant at
// which the returned channel fired, instant it was stopped). Per instance the sequence, across ALL
// timer objects used for that instance, must be what ONE timer object of coq/Qbft/Timer.v produces
// (first Timer(r): start+timeout(r); every later Timer(r): start+2*timeout(r)); evaluated in Coq.
//
// Messages travel over the real Broadcast -> p2p.Sender.SendAsync -> p2p.Send path into an in-memory
// stream and reach the addressee's real handle after a fixed latency (300 ms, below a third of the 1 s
// round timeout). Scenario "drop2" additionally loses every PREPARE and COMMIT of round 2, so that the
// timer restarted on the justified PRE-PREPARE of round 2 runs to its deadline.
//
// This file is self-contained (prefix vtw) and does not depend on the other overlay files.
package qbft

import (
	"bytes"
	"context"
	"crypto/sha256"
	"encoding/binary"
	"encoding/json"
	"fmt"
	"os"
	"path/filepath"
	"sync"
	"testing"
	"testing/synctest"
	"time"

	k1 "github.com/decred/dcrd/dcrec/secp256k1/v4"
	"github.com/libp2p/go-libp2p/core/host"
	"github.com/libp2p/go-libp2p/core/network"
	"github.com/libp2p/go-libp2p/core/peer"
	"github.com/libp2p/go-libp2p/core/protocol"
	"google.golang.org/protobuf/proto"

	"github.com/obolnetwork/charon/app/featureset"
	"github.com/obolnetwork/charon/app/log"
	"github.com/obolnetwork/charon/core"
	"github.com/obolnetwork/charon/core/consensus/instance"
	"github.com/obolnetwork/charon/core/consensus/metrics"
	"github.com/obolnetwork/charon/core/consensus/protocols"
	"github.com/obolnetwork/charon/core/consensus/timer"
	pbv1 "github.com/obolnetwork/charon/core/corepb/v1"
	"github.com/obolnetwork/charon/core/qbft"
	"github.com/obolnetwork/charon/p2p"
	"github.com/obolnetwork/charon/testutil"
)

// ---- observations ----

// vtwCall is one Timer(round) call seen between runInstance and qbft.Run. Instants are ns offsets
// from the bubble's initial clock reading.
type vtwCall struct {
	Obj   int    `json:"obj"` // which timer object (per node, in order of creation by timerFunc) served the call
	Round int64  `json:"round"`
	Now   int64  `json:"now"`
	Fire  *int64 `json:"fire"`
	Until int64  `json:"until"`

	mu      sync.Mutex
	stopped bool
}

type vtwNodeOut struct {
	Node      int        `json:"node"`
	Kind      string     `json:"kind"` // Type() of the timers handed out
	Objects   int        `json:"objects"`
	Calls     []*vtwCall `json:"calls"`
	DecidedAt *int64     `json:"decided_at"`
	ProposeAt int64      `json:"propose_at"`
	Err       string     `json:"err,omitempty"`
}

type vtwScenario struct {
	Name     string `json:"name"`
	Mode     string `json:"mode"` // latency | drop2
	Linear   bool   `json:"linear"`
	Eager    bool   `json:"eager"`
	Proposal bool   `json:"proposal"`
	DType    int    `json:"dtype"`
	Slot     uint64 `json:"slot"`
	Genesis  int64  `json:"genesis"` // offset from the bubble's initial clock reading
	SlotDur  int64  `json:"slotdur"`
	Latency  int64  `json:"latency"`
	// StartGuess is where the harness believes the duty starts (only used to place the Propose calls).
	StartGuess int64        `json:"start_guess"`
	End        int64        `json:"end"`
	Silent     int          `json:"silent"`
	Nodes      []vtwNodeOut `json:"nodes"`
	Problems   []string     `json:"problems,omitempty"`
}

// ---- timer wrapper: the seam is Consensus.timerFunc ----

type vtwNode struct {
	idx  int
	base time.Time
	mu   sync.Mutex
	objs int
	out  *vtwNodeOut
	live []*vtwLive
}

type vtwLive struct {
	call    *vtwCall
	stopCh  chan struct{}
	done    chan struct{}
	under   <-chan time.Time
	stopFn  func()
	node    *vtwNode
	stopMux sync.Once
}

type vtwTimer struct {
	timer.RoundTimer
	node *vtwNode
	obj  int
}

func (n *vtwNode) off() int64 { return int64(time.Since(n.base)) }

func (t *vtwTimer) Timer(round int64) (<-chan time.Time, func()) {
	n := t.node
	ch, stop := t.RoundTimer.Timer(round)
	call := &vtwCall{Obj: t.obj, Round: round, Now: n.off(), Until: -1}
	out := make(chan time.Time, 1)
	l := &vtwLive{call: call, stopCh: make(chan struct{}), done: make(chan struct{}), under: ch, stopFn: stop, node: n}
	n.mu.Lock()
	n.out.Calls = append(n.out.Calls, call)
	n.live = append(n.live, l)
	n.mu.Unlock()
	go func() {
		defer close(l.done)
		select {
		case v := <-ch:
			l.fired()
			out <- v
		case <-l.stopCh:
		}
	}()
	return out, l.stop
}

func (l *vtwLive) fired() {
	l.call.mu.Lock()
	defer l.call.mu.Unlock()
	if l.call.Fire == nil {
		v := l.node.off()
		l.call.Fire = &v
	}
}

// stop ends the observation of one call: a timer that expired at this very instant counts as fired.
func (l *vtwLive) stop() {
	l.stopMux.Do(func() {
		close(l.stopCh)
		<-l.done
		select {
		case <-l.under:
			l.fired()
		default:
		}
		l.stopFn()
		l.call.mu.Lock()
		l.call.Until = l.node.off()
		l.call.mu.Unlock()
	})
}

// ---- in-memory transport with latency ----

type vtwStream struct {
	network.Stream
	buf   bytes.Buffer
	proto protocol.ID
	done  func(b []byte)
	once  sync.Once
}

func (s *vtwStream) Write(p []byte) (int, error)      { return s.buf.Write(p) }
func (s *vtwStream) Close() error                     { s.once.Do(func() { s.done(s.buf.Bytes()) }); return nil }
func (s *vtwStream) Reset() error                     { return nil }
func (s *vtwStream) SetDeadline(time.Time) error      { return nil }
func (s *vtwStream) SetWriteDeadline(time.Time) error { return nil }
func (s *vtwStream) SetReadDeadline(time.Time) error  { return nil }
func (s *vtwStream) Protocol() protocol.ID            { return s.proto }

type vtwHost struct {
	host.Host
	id  peer.ID
	net *vtwNet
	idx int
}

func (h *vtwHost) ID() peer.ID { return h.id }

func (h *vtwHost) NewStream(_ context.Context, to peer.ID, pids ...protocol.ID) (network.Stream, error) {
	return &vtwStream{proto: pids[0], done: func(b []byte) { h.net.send(h.idx, to, append([]byte(nil), b...)) }}, nil
}

type vtwNet struct {
	mu       sync.Mutex
	ctx      context.Context
	comps    map[int]*Consensus
	ids      map[peer.ID]int
	latency  time.Duration
	drop     func(*pbv1.QBFTMsg) bool
	problems []string
	wg       sync.WaitGroup
}

func (n *vtwNet) problem(format string, a ...any) {
	n.mu.Lock()
	defer n.mu.Unlock()
	if len(n.problems) < 10 {
		n.problems = append(n.problems, fmt.Sprintf(format, a...))
	}
}

func (n *vtwNet) send(from int, to peer.ID, b []byte) {
	l, k := binary.Uvarint(b)
	msg := new(pbv1.QBFTConsensusMsg)
	if k <= 0 || int(l) != len(b)-k || proto.Unmarshal(b[k:], msg) != nil {
		n.problem("undecodable frame from %d", from)
		return
	}
	ti, ok := n.ids[to]
	c := n.comps[ti]
	if !ok || c == nil || (n.drop != nil && n.drop(msg.GetMsg())) {
		return
	}
	n.wg.Add(1)
	go func() {
		defer n.wg.Done()
		select {
		case <-time.After(n.latency):
		case <-n.ctx.Done():
			return
		}
		if _, _, err := c.handle(n.ctx, "", msg); err != nil && n.ctx.Err() == nil {
			n.problem("handle at %d of a message from %d: %v", ti, from, err)
		}
	}()
}

type vtwDeadliner struct{ ch chan core.Duty }

func (d *vtwDeadliner) Add(core.Duty) core.DeadlineStatus { return core.DeadlineScheduled }
func (d *vtwDeadliner) C() <-chan core.Duty               { return d.ch }

func vtwKey(i int) *k1.PrivateKey {
	d := sha256.Sum256([]byte(fmt.Sprintf("verif-timerwire-key-%d", i)))
	return k1.PrivKeyFromBytes(d[:])
}

func vtwSetFlag(t *testing.T, f featureset.Feature, on bool) {
	t.Helper()
	if on {
		featureset.EnableForT(t, f)
	} else {
		featureset.DisableForT(t, f)
	}
}

// vtwDelayGuess mirrors the scheduler's slot offsets only to place the Propose calls near the duty start;
// the model computes the true start from (genesis, slot, slot duration, duty type).
func vtwDelayGuess(dt core.DutyType, slotDur time.Duration) time.Duration {
	switch dt {
	case core.DutyAttester:
		return slotDur / 3
	case core.DutyAggregator, core.DutySyncContribution:
		return 2 * slotDur / 3
	default:
		return 0
	}
}

const vtwNodes = 4

func vtwRun(t *testing.T, sc *vtwScenario) {
	t.Helper()
	synctest.Test(t, func(t *testing.T) {
		base := time.Now()
		ctx, cancel := context.WithCancel(context.Background())
		duty := core.Duty{Slot: sc.Slot, Type: core.DutyType(sc.DType)}
		slotDur := time.Duration(sc.SlotDur)
		genesis := base.Add(time.Duration(sc.Genesis))
		net := &vtwNet{ctx: ctx, comps: map[int]*Consensus{}, ids: map[peer.ID]int{}, latency: time.Duration(sc.Latency)}
		if sc.Mode == "drop2" {
			net.drop = func(m *pbv1.QBFTMsg) bool {
				ty := qbft.MsgType(m.GetType())
				return m.GetRound() == 2 && (ty == qbft.MsgPrepare || ty == qbft.MsgCommit)
			}
		}
		var peers []p2p.Peer
		var labels []string
		for i := 0; i < vtwNodes; i++ {
			id, err := p2p.PeerIDFromKey(vtwKey(i).PubKey())
			if err != nil {
				t.Fatal(err)
			}
			peers = append(peers, p2p.Peer{ID: id, Index: i, Name: fmt.Sprintf("node%d", i)})
			labels = append(labels, fmt.Sprintf("%d:node%d", i, i))
			net.ids[id] = i
		}
		realFunc := timer.GetRoundTimerFunc(genesis, slotDur) // the production selection and construction
		sc.Nodes = make([]vtwNodeOut, 0, vtwNodes-1)
		var nodes []*vtwNode
		for i := 0; i < vtwNodes; i++ {
			if i == sc.Silent {
				continue
			}
			sc.Nodes = append(sc.Nodes, vtwNodeOut{Node: i})
		}
		for k := range sc.Nodes {
			out := &sc.Nodes[k]
			i := out.Node
			node := &vtwNode{idx: i, base: base, out: out}
			nodes = append(nodes, node)
			c := &Consensus{
				p2pNode: &vtwHost{id: peers[i].ID, net: net, idx: i}, sender: new(p2p.Sender), peers: peers, peerLabels: labels,
				privkey: vtwKey(i), pubkeys: map[int64]*k1.PublicKey{}, deadliner: &vtwDeadliner{ch: make(chan core.Duty)},
				snifferFunc: func(*pbv1.SniffedConsensusInstance) {}, gaterFunc: func(core.Duty) bool { return true },
				dropFilter: log.Filter(),
				timerFunc: func(d core.Duty) timer.RoundTimer {
					rt := realFunc(d)
					node.mu.Lock()
					obj := node.objs
					node.objs++
					out.Objects = node.objs
					out.Kind = string(rt.Type())
					node.mu.Unlock()
					return &vtwTimer{RoundTimer: rt, node: node, obj: obj}
				},
				metrics: metrics.NewConsensusMetrics(protocols.QBFTv2ProtocolID),
			}
			for j := 0; j < vtwNodes; j++ {
				c.pubkeys[int64(j)] = vtwKey(j).PubKey()
			}
			c.mutable.instances = make(map[core.Duty]*instance.IO[Msg])
			decided := func() {
				node.mu.Lock()
				defer node.mu.Unlock()
				if out.DecidedAt == nil {
					v := node.off()
					out.DecidedAt = &v
				}
			}
			c.Subscribe(func(context.Context, core.Duty, core.UnsignedDataSet) error { decided(); return nil })
			c.SubscribePriority(func(context.Context, core.Duty, *pbv1.PriorityResult) error { decided(); return nil })
			net.comps[i] = c
		}
		var wg sync.WaitGroup
		for k, node := range nodes {
			c := net.comps[node.idx]
			at := time.Duration(sc.StartGuess) + time.Duration(k)*50*time.Millisecond
			wg.Add(1)
			go func() {
				defer wg.Done()
				time.Sleep(time.Until(base.Add(at)))
				node.mu.Lock()
				node.out.ProposeAt = node.off()
				node.mu.Unlock()
				var err error
				if duty.Type == core.DutyAttester {
					err = c.Propose(ctx, duty, core.UnsignedDataSet{testutil.RandomCorePubKey(t): testutil.RandomCoreAttestationData(t)})
				} else {
					err = c.ProposePriority(ctx, duty, &pbv1.PriorityResult{Msgs: []*pbv1.PriorityMsg{{PeerId: fmt.Sprintf("node%d", node.idx)}}})
				}
				if err != nil && ctx.Err() == nil {
					node.mu.Lock()
					node.out.Err = err.Error()
					node.mu.Unlock()
				}
			}()
		}
		time.Sleep(time.Until(base.Add(time.Duration(sc.End))))
		cancel()
		wg.Wait()
		net.wg.Wait()
		synctest.Wait()
		for _, node := range nodes {
			node.mu.Lock()
			lives := node.live
			node.mu.Unlock()
			for _, l := range lives {
				l.stop() // no-op for calls qbft.Run already stopped
			}
		}
		synctest.Wait()
		net.mu.Lock()
		sc.Problems = net.problems
		net.mu.Unlock()
	})
}

func vtwScenarios() []*vtwScenario {
	var out []*vtwScenario
	const slotDur = 12 * time.Second
	type fl struct{ linear, eager, proposal bool }
	flags := []fl{{false, true, true}, {false, true, false}, {false, false, true}, {true, true, true}, {true, false, false}}
	for _, f := range flags {
		for _, dt := range []core.DutyType{core.DutyAttester, core.DutyProposer, core.DutyAggregator} {
			for _, mode := range []string{"latency", "drop2"} {
				// leader(duty, round, 4) = (slot + type + round) % 4: the round-1 leader is member 3, who is silent
				slot := uint64(400 + ((2-int(dt))%4+4)%4)
				if leader(core.Duty{Slot: slot, Type: dt}, 1, vtwNodes) != 3 {
					panic("leader layout")
				}
				start := 10 * time.Second // where the duty is meant to start, after the bubble's initial instant
				genesis := start - vtwDelayGuess(dt, slotDur) - time.Duration(slot)*slotDur
				out = append(out, &vtwScenario{
					Name:   fmt.Sprintf("%s/linear=%v,eager=%v,proposal=%v/dtype=%d", mode, f.linear, f.eager, f.proposal, int(dt)),
					Mode:   mode,
					Linear: f.linear, Eager: f.eager, Proposal: f.proposal, DType: int(dt), Slot: slot,
					Genesis: int64(genesis), SlotDur: int64(slotDur), Latency: int64(300 * time.Millisecond),
					StartGuess: int64(start), End: int64(start + 16*time.Second + 7*time.Millisecond), Silent: 3,
				})
			}
		}
	}
	return out
}

func TestVerifTimerWire(t *testing.T) {
	scs := vtwScenarios()
	if only := os.Getenv("VERIF_WIRE_ONLY"); only != "" {
		var keep []*vtwScenario
		for _, s := range scs {
			if s.Name == only {
				keep = append(keep, s)
			}
		}
		scs = keep
	}
	for _, sc := range scs {
		t.Run(sc.Name, func(t *testing.T) {
			vtwSetFlag(t, featureset.Linear, sc.Linear)
			vtwSetFlag(t, featureset.EagerDoubleLinear, sc.Eager)
			vtwSetFlag(t, featureset.ProposalTimeout, sc.Proposal)
			vtwRun(t, sc)
		})
	}
	b, err := json.MarshalIndent(scs, "", " ")
	if err != nil {
		t.Fatal(err)
	}
	dir := os.Getenv("VERIF_OUT")
	if dir == "" {
		dir = os.TempDir()
	}
	if err := os.WriteFile(filepath.Join(dir, "timerwire.json"), b, 0o644); err != nil {
		t.Fatal(err)
	}
}
