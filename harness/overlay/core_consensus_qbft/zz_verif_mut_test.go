//go:build verif

// C05 correspondence harness, part 2: valid base messages built by the real createMsg and the
// generic (protobuf reflection) alteration engine.
package qbft

import (
	"bytes"
	"fmt"
	"math"
	"sort"
	"strings"

	"google.golang.org/protobuf/encoding/protowire"
	"google.golang.org/protobuf/proto"
	"google.golang.org/protobuf/reflect/protoreflect"
	"google.golang.org/protobuf/types/known/anypb"
	"google.golang.org/protobuf/types/known/emptypb"

	"github.com/obolnetwork/charon/core"
	pbv1 "github.com/obolnetwork/charon/core/corepb/v1"
	"github.com/obolnetwork/charon/core/qbft"
)

type vQMsg = qbft.Msg[core.Duty, [32]byte, proto.Message]

// ---------------------------------------------------------------------------------------------
// values

type vValue struct {
	inner proto.Message
	any   *anypb.Any
	hash  [32]byte
}

func (w *vWorld) newValue(kind int, tag byte) vValue {
	var inner proto.Message
	switch kind % 3 {
	case 0:
		set := map[string][]byte{}
		for i := 0; i < 1+int(tag)%2; i++ {
			pk := "0x" + strings.Repeat(fmt.Sprintf("%02x", tag+byte(i)), 48)
			data := make([]byte, 70+w.h.rng.Intn(40))
			w.h.rng.Read(data)
			set[pk] = data
		}
		inner = &pbv1.UnsignedDataSet{Set: set}
	case 1:
		inner = &pbv1.PriorityResult{Topics: []*pbv1.PriorityTopicResult{{Topic: &anypb.Any{TypeUrl: "t", Value: []byte{tag, 1, 2}}}}}
	default:
		inner = &pbv1.Duty{Slot: 1000 + uint64(tag), Type: int32(tag%13) + 1}
	}
	// deterministic bytes (anypb.New marshals maps in random order, which would make runs irreproducible)
	a := &anypb.Any{TypeUrl: "type.googleapis.com/" + string(inner.ProtoReflect().Descriptor().FullName()), Value: vDet(inner)}
	if uds, ok := inner.(*pbv1.UnsignedDataSet); ok && len(uds.GetSet()) == 2 {
		// a valid NON-canonical encoding of the same message: the two map entries in descending key order
		var ks []string
		for k := range uds.GetSet() {
			ks = append(ks, k)
		}
		sort.Sort(sort.Reverse(sort.StringSlice(ks)))
		a.Value = nil
		for _, k := range ks {
			a.Value = append(a.Value, vDet(&pbv1.UnsignedDataSet{Set: map[string][]byte{k: uds.GetSet()[k]}})...)
		}
	}
	hash, err := hashProto(inner)
	if err != nil {
		w.h.t.Fatal(err)
	}
	return vValue{inner: inner, any: a, hash: hash}
}

// ---------------------------------------------------------------------------------------------
// base messages (all five types, with justifications and values), built by the real code

func (w *vWorld) mk(typ qbft.MsgType, duty core.Duty, peer int, round int64, vh [32]byte, pr int64, pvh [32]byte,
	just []vQMsg, vals ...vValue,
) Msg {
	values := map[[32]byte]*anypb.Any{}
	for _, v := range vals {
		values[v.hash] = v.any
	}
	m, err := createMsg(typ, duty, int64(peer), round, vh, pr, pvh, values, just, w.keys[peer])
	if err != nil {
		w.h.t.Fatalf("createMsg: %v", err)
	}
	w.h.registerSig(m.Msg(), vKeyID(peer))
	return m
}

func vWire(m Msg) *pbv1.QBFTConsensusMsg {
	cm := m.ToConsensusMsg()
	sort.Slice(cm.Values, func(i, j int) bool { return bytes.Compare(cm.Values[i].GetValue(), cm.Values[j].GetValue()) < 0 })
	return cm
}

type vBase struct {
	name string
	wire *pbv1.QBFTConsensusMsg
	duty core.Duty
}

func (w *vWorld) quorum() int { return (2*w.n + 2) / 3 } // ceil(2n/3)

func (w *vWorld) bases(duty core.Duty, v1, v2 vValue) []vBase {
	n, q := w.n, w.quorum()
	zero := [32]byte{}
	p := func(i int) int { return i % n }
	var out []vBase
	add := func(name string, m Msg) { out = append(out, vBase{name: name, wire: vWire(m), duty: duty}) }

	add("preprepare-r1", w.mk(qbft.MsgPrePrepare, duty, p(1), 1, v1.hash, 0, zero, nil, v1))
	add("prepare-r1", w.mk(qbft.MsgPrepare, duty, p(2), 1, v1.hash, 0, zero, nil, v1))
	add("commit-r1", w.mk(qbft.MsgCommit, duty, p(0), 1, v1.hash, 0, zero, nil, v1))
	add("roundchange-r2-unprepared", w.mk(qbft.MsgRoundChange, duty, p(3), 2, zero, 0, zero, nil))

	var prepares, commits, rcs []vQMsg
	for i := 0; i < q; i++ {
		prepares = append(prepares, w.mk(qbft.MsgPrepare, duty, p(i), 1, v1.hash, 0, zero, nil, v1))
		commits = append(commits, w.mk(qbft.MsgCommit, duty, p(i), 1, v1.hash, 0, zero, nil, v1))
	}
	add("roundchange-r2-prepared", w.mk(qbft.MsgRoundChange, duty, p(1), 2, zero, 1, v1.hash, prepares, v1))
	for i := 0; i < q; i++ {
		if i == 0 {
			rcs = append(rcs, w.mk(qbft.MsgRoundChange, duty, p(i), 2, zero, 1, v1.hash, nil, v1))
		} else {
			rcs = append(rcs, w.mk(qbft.MsgRoundChange, duty, p(i), 2, zero, 0, zero, nil))
		}
	}
	add("preprepare-r2-justified", w.mk(qbft.MsgPrePrepare, duty, p(2), 2, v1.hash, 0, zero, append(append([]vQMsg{}, rcs...), prepares...), v1))
	add("decided-r1", w.mk(qbft.MsgDecided, duty, p(3), 1, v1.hash, 0, zero, commits, v1))

	// two values: round changes prepared on different values in different rounds
	var rcs2 []vQMsg
	for i := 0; i < q; i++ {
		switch i {
		case 0:
			rcs2 = append(rcs2, w.mk(qbft.MsgRoundChange, duty, p(i), 3, zero, 2, v1.hash, nil, v1))
		case 1:
			rcs2 = append(rcs2, w.mk(qbft.MsgRoundChange, duty, p(i), 3, zero, 1, v2.hash, nil, v2))
		default:
			rcs2 = append(rcs2, w.mk(qbft.MsgRoundChange, duty, p(i), 3, zero, 0, zero, nil))
		}
	}
	add("preprepare-r3-two-values", w.mk(qbft.MsgPrePrepare, duty, p(0), 3, v1.hash, 0, zero, rcs2, v1, v2))

	return out
}

// ---------------------------------------------------------------------------------------------
// reflection: leaf fields at every nesting level

type vStep struct {
	num protoreflect.FieldNumber
	idx int // -1: not a list element
}

type vLeaf struct {
	path []vStep
	name string
	fd   protoreflect.FieldDescriptor
}

func vWalk(h *vH, m protoreflect.Message, prefix []vStep, name string, leaves *[]vLeaf, msgs *[]vLeaf) {
	*msgs = append(*msgs, vLeaf{path: append([]vStep{}, prefix...), name: name})
	fields := m.Descriptor().Fields()
	for i := 0; i < fields.Len(); i++ {
		fd := fields.Get(i)
		fname := string(fd.Name())
		if name != "" {
			fname = name + "." + fname
		}
		switch {
		case fd.IsMap():
			h.out.Unsupported = append(h.out.Unsupported, "map field "+string(fd.FullName()))
		case fd.IsList():
			l := m.Get(fd).List()
			for j := 0; j < l.Len(); j++ {
				st := append(append([]vStep{}, prefix...), vStep{fd.Number(), j})
				en := fmt.Sprintf("%s[%d]", fname, j)
				if fd.Message() != nil {
					vWalk(h, l.Get(j).Message(), st, en, leaves, msgs)
				} else {
					h.out.Unsupported = append(h.out.Unsupported, "repeated scalar "+string(fd.FullName()))
				}
			}
		case fd.Message() != nil:
			if m.Has(fd) {
				vWalk(h, m.Get(fd).Message(), append(append([]vStep{}, prefix...), vStep{fd.Number(), -1}), fname, leaves, msgs)
			}
		default:
			*leaves = append(*leaves, vLeaf{path: append(append([]vStep{}, prefix...), vStep{fd.Number(), -1}), name: fname, fd: fd})
		}
	}
}

// vResolveMsg returns the message at path (nil if the path does not exist in root).
func vResolveMsg(root protoreflect.Message, path []vStep) protoreflect.Message {
	m := root
	for _, st := range path {
		fd := m.Descriptor().Fields().ByNumber(st.num)
		if fd == nil || fd.Message() == nil {
			return nil
		}
		if fd.IsList() {
			l := m.Mutable(fd).List()
			if st.idx < 0 || st.idx >= l.Len() {
				return nil
			}
			m = l.Get(st.idx).Message()
		} else {
			if !m.Has(fd) {
				return nil
			}
			m = m.Mutable(fd).Message()
		}
		if !m.IsValid() {
			return nil
		}
	}
	return m
}

func vResolveLeaf(root protoreflect.Message, lf vLeaf) (protoreflect.Message, bool) {
	parent := vResolveMsg(root, lf.path[:len(lf.path)-1])
	if parent == nil {
		return nil, false
	}
	return parent, true
}

func vGeneric(name string) string {
	// justification[3].round -> justification[].round (for pools and coverage keys)
	var b strings.Builder
	skip := false
	for _, r := range name {
		switch {
		case r == '[':
			skip = true
			b.WriteString("[")
		case r == ']':
			skip = false
			b.WriteString("]")
		case !skip:
			b.WriteRune(r)
		}
	}
	return b.String()
}

type vAlt struct {
	op  string
	val protoreflect.Value
	clr bool
}

func vValKey(v protoreflect.Value) string {
	if b, ok := v.Interface().([]byte); ok {
		return string(b)
	}
	return v.String()
}

// vAlts lists the representative alterations of one leaf value.
func vAlts(fd protoreflect.FieldDescriptor, cur protoreflect.Value, pool []protoreflect.Value, donor *protoreflect.Value, extraStrings []string) []vAlt {
	var out []vAlt
	add := func(op string, v protoreflect.Value) { out = append(out, vAlt{op: op, val: v}) }
	switch fd.Kind() {
	case protoreflect.Int64Kind, protoreflect.Sint64Kind, protoreflect.Sfixed64Kind:
		x := cur.Int()
		add("+1", protoreflect.ValueOfInt64(x+1))
		add("-1", protoreflect.ValueOfInt64(x-1))
		add("zero", protoreflect.ValueOfInt64(0))
		add("neg", protoreflect.ValueOfInt64(-x-1))
		add("max", protoreflect.ValueOfInt64(math.MaxInt64))
	case protoreflect.Int32Kind, protoreflect.Sint32Kind, protoreflect.Sfixed32Kind:
		x := int32(cur.Int())
		add("+1", protoreflect.ValueOfInt32(x+1))
		add("-1", protoreflect.ValueOfInt32(x-1))
		add("zero", protoreflect.ValueOfInt32(0))
		add("neg", protoreflect.ValueOfInt32(-x-1))
		add("max", protoreflect.ValueOfInt32(math.MaxInt32))
	case protoreflect.Uint64Kind, protoreflect.Fixed64Kind:
		x := cur.Uint()
		add("+1", protoreflect.ValueOfUint64(x+1))
		add("-1", protoreflect.ValueOfUint64(x-1))
		add("zero", protoreflect.ValueOfUint64(0))
		add("max", protoreflect.ValueOfUint64(math.MaxUint64))
	case protoreflect.Uint32Kind, protoreflect.Fixed32Kind:
		x := uint32(cur.Uint())
		add("+1", protoreflect.ValueOfUint32(x+1))
		add("zero", protoreflect.ValueOfUint32(0))
	case protoreflect.BoolKind:
		add("not", protoreflect.ValueOfBool(!cur.Bool()))
	case protoreflect.EnumKind:
		add("+1", protoreflect.ValueOfEnum(cur.Enum()+1))
		add("zero", protoreflect.ValueOfEnum(0))
	case protoreflect.StringKind:
		s := cur.String()
		add("garbage", protoreflect.ValueOfString(s+"x"))
		add("zero", protoreflect.ValueOfString(""))
		for i, e := range extraStrings {
			add(fmt.Sprintf("other-known-%d", i), protoreflect.ValueOfString(e))
		}
	case protoreflect.BytesKind:
		b := cur.Bytes()
		cp := func() []byte { return append([]byte{}, b...) }
		if len(b) > 0 {
			x := cp()
			x[0] ^= 0x01
			add("flip-first", protoreflect.ValueOfBytes(x))
			y := cp()
			y[len(y)-1] ^= 0x01
			add("flip-last", protoreflect.ValueOfBytes(y))
			add("zero", protoreflect.ValueOfBytes(make([]byte, len(b))))
			add("truncate", protoreflect.ValueOfBytes(cp()[:len(b)-1]))
		}
		add("extend", protoreflect.ValueOfBytes(append(cp(), 0x01)))
		add("extend-zero", protoreflect.ValueOfBytes(append(cp(), 0x00)))
	default:
		return nil
	}
	n := 0
	for _, pv := range pool {
		if vValKey(pv) != vValKey(cur) && n < 2 {
			out = append(out, vAlt{op: fmt.Sprintf("other-valid-%d", n), val: pv})
			n++
		}
	}
	if donor != nil && vValKey(*donor) != vValKey(cur) {
		out = append(out, vAlt{op: "swapped", val: *donor})
	}
	out = append(out, vAlt{op: "removed", clr: true})
	return out
}

// vPartOf returns the QBFTMsg (main part or justification) that contains the path, if any.
func vPartOf(m *pbv1.QBFTConsensusMsg, path []vStep) *pbv1.QBFTMsg {
	if len(path) == 0 {
		return nil
	}
	switch path[0].num {
	case 1:
		return m.GetMsg()
	case 2:
		if path[0].idx >= 0 && path[0].idx < len(m.GetJustification()) {
			return m.GetJustification()[path[0].idx]
		}
	}
	return nil
}

// resign signs the part in place with key index k (real signMsg) and records the signature.
func (w *vWorld) resign(p *pbv1.QBFTMsg, k int) {
	s, err := signMsg(p, w.keys[k])
	if err != nil {
		w.h.t.Fatal(err)
	}
	p.Signature = s.GetSignature()
	w.h.registerSig(p, vKeyID(k))
}

func vUnknownField() []byte {
	return protowire.AppendVarint(protowire.AppendTag(nil, 99, protowire.VarintType), 7)
}

var vOtherTypeURLs = []string{
	"type.googleapis.com/" + string((&emptypb.Empty{}).ProtoReflect().Descriptor().FullName()),
	"type.googleapis.com/" + string((&pbv1.QBFTMsg{}).ProtoReflect().Descriptor().FullName()),
	"type.googleapis.com/" + string((&pbv1.UnsignedDataSet{}).ProtoReflect().Descriptor().FullName()),
	"type.googleapis.com/" + string((&pbv1.ParSignedDataSet{}).ProtoReflect().Descriptor().FullName()),
	"type.googleapis.com/" + string((&anypb.Any{}).ProtoReflect().Descriptor().FullName()),
	"type.googleapis.com/verif.unknown.Type",
}
