//go:build verif

// In-package probe for the verifyMsgLimits clause of C04 (mapped into /repo/core/consensus/qbft with
// `go test -overlay`; nothing is written to /repo):
//  (1) tabulates the decision of the real verifyMsgLimits as a function of (nodes, #justifications, #values);
//  (2) calls the real transport.Broadcast with justifications naming various values and records how many values the
//      wrapper attaches and whether the resulting wire message passes verifyMsgLimits;
// both are compared with coq/Qbft/MsgLimits.v (limits_okb, msg_values).
package qbft

import (
	"context"
	"encoding/json"
	"math/rand"
	"os"
	"path/filepath"
	"strconv"
	"testing"

	k1 "github.com/decred/dcrd/dcrec/secp256k1/v4"
	"google.golang.org/protobuf/proto"
	"google.golang.org/protobuf/types/known/anypb"
	"google.golang.org/protobuf/types/known/wrapperspb"

	"github.com/obolnetwork/charon/core"
	pbv1 "github.com/obolnetwork/charon/core/corepb/v1"
	"github.com/obolnetwork/charon/core/qbft"
)

type vlimCapture struct{ msgs []*pbv1.QBFTConsensusMsg }

func (c *vlimCapture) Broadcast(_ context.Context, msg *pbv1.QBFTConsensusMsg) error {
	c.msgs = append(c.msgs, msg)
	return nil
}

type vlimBcast struct {
	Nodes  int      `json:"nodes"`
	Main   [2]int   `json:"main"`  // value index, prepared value index (0 = zero hash)
	Parts  [][2]int `json:"parts"` // the same for every justification part
	NJust  int      `json:"njust"`
	NVals  int      `json:"nvals"`
	Passes bool     `json:"passes"` // real verifyMsgLimits on the message handed to the broadcaster
}

func TestVerifLimits(t *testing.T) {
	type out struct {
		Table  [][4]int    `json:"table"` // nodes, #justifications, #values, accepted
		Bcasts []vlimBcast `json:"bcasts"`
	}
	var o out
	for nodes := 0; nodes <= 10; nodes++ {
		for j := 0; j <= 2*nodes+3; j++ {
			for v := 0; v <= 2*(j+1)+3; v++ {
				msg := &pbv1.QBFTConsensusMsg{Justification: make([]*pbv1.QBFTMsg, j), Values: make([]*anypb.Any, v)}
				ok := 0
				if verifyMsgLimits(msg, nodes) == nil {
					ok = 1
				}
				o.Table = append(o.Table, [4]int{nodes, j, v, ok})
			}
		}
	}

	seed, _ := strconv.ParseInt(os.Getenv("VERIF_SEED"), 10, 64)
	r := rand.New(rand.NewSource(seed*7919 + 13)) //nolint:gosec
	privkey, err := k1.GeneratePrivateKey()
	if err != nil {
		t.Fatal(err)
	}
	const nvals = 5
	hashes := make([][32]byte, nvals+1) // index 0 = zero hash
	values := map[[32]byte]*anypb.Any{}
	for k := 1; k <= nvals; k++ {
		hashes[k][0] = byte(k)
		a, err := anypb.New(wrapperspb.Int64(int64(k)))
		if err != nil {
			t.Fatal(err)
		}
		values[hashes[k]] = a
	}
	duty := core.NewAttesterDuty(7)
	ctx, cancel := context.WithCancel(context.Background())
	defer cancel()
	ncases := 400
	for k := 0; k < ncases; k++ {
		nodes := 1 + r.Intn(7)
		bc := &vlimCapture{}
		tr := newTransport(bc, privkey, nil, make(chan qbft.Msg[core.Duty, [32]byte, proto.Message], 4), newSniffer(int64(nodes), 0))
		for h, a := range values {
			tr.values[h] = a
		}
		pick := func() int {
			if r.Intn(3) == 0 {
				return 0
			}
			return 1 + r.Intn(nvals)
		}
		c := vlimBcast{Nodes: nodes, Main: [2]int{pick(), pick()}}
		nparts := r.Intn(2*nodes + 1)
		if k%10 == 0 {
			nparts = 2 * nodes // the largest justification Run can hand over
		}
		var just []qbft.Msg[core.Duty, [32]byte, proto.Message]
		for i := 0; i < nparts; i++ {
			p := [2]int{pick(), pick()}
			c.Parts = append(c.Parts, p)
			m, err := createMsg(qbft.MsgPrepare, duty, int64(i%nodes), 1, hashes[p[0]], 0, hashes[p[1]], values, nil, privkey)
			if err != nil {
				t.Fatal(err)
			}
			just = append(just, m)
		}
		if err := tr.Broadcast(ctx, qbft.MsgPrePrepare, duty, 0, 2, hashes[c.Main[0]], 1, hashes[c.Main[1]], just); err != nil {
			t.Fatal(err)
		}
		if len(bc.msgs) != 1 {
			t.Fatalf("broadcaster saw %d messages", len(bc.msgs))
		}
		c.NJust = len(bc.msgs[0].GetJustification())
		c.NVals = len(bc.msgs[0].GetValues())
		c.Passes = verifyMsgLimits(bc.msgs[0], nodes) == nil
		o.Bcasts = append(o.Bcasts, c)
	}

	b, err := json.Marshal(o)
	if err != nil {
		t.Fatal(err)
	}
	dir := os.Getenv("VERIF_OUT")
	if dir == "" {
		dir = os.TempDir()
	}
	if err := os.WriteFile(filepath.Join(dir, "qbft_limits.json"), b, 0o644); err != nil {
		t.Fatal(err)
	}
}
