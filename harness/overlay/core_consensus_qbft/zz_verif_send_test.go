//go:build verif

// Sending side of the wrapper (coq/Flow/WireSend.v): records, per call of the Broadcast callback that
// qbft.Run is given (the REAL transport.Broadcast -> getValue -> createMsg -> signMsg), the arguments,
// what was drained from the value channel, and the wire message handed to the broadcaster (or the
// error); and per message that the REAL transport.ProcessReceives takes from the outer buffer, the
// message. (a) a scripted single-node sequence covering every message type, missing values, prepared
// value, justifications with their own values, the F11 cache overwrite; (b) 4-node in-process
// consensus runs (real qbft.Run / newDefinition / handle). Uses the infrastructure of zz_verif_test.go.
package qbft

import (
	"context"
	"encoding/json"
	"os"
	"path/filepath"
	"fmt"
	"math/big"
	"math/rand"
	"strings"
	"sync"
	"testing"
	"testing/synctest"
	"time"

	k1 "github.com/decred/dcrd/dcrec/secp256k1/v4"
	"google.golang.org/protobuf/proto"
	"google.golang.org/protobuf/types/known/anypb"

	"github.com/obolnetwork/charon/app/k1util"
	"github.com/obolnetwork/charon/core"
	"github.com/obolnetwork/charon/core/consensus/instance"
	"github.com/obolnetwork/charon/core/consensus/timer"
	pbv1 "github.com/obolnetwork/charon/core/corepb/v1"
	"github.com/obolnetwork/charon/core/qbft"
)

type vSendTrace struct {
	ID     int      `json:"id"`
	Kind   string   `json:"kind"`
	Key    int      `json:"key"`
	Labels []string `json:"labels"`
	Notes  []string `json:"notes"`
}

type vSendOut struct {
	vOut
	SendTraces []vSendTrace   `json:"send_traces"`
	Checks     map[string]int `json:"checks"`
	Problems   []string       `json:"problems"`
}

type vSendRec struct {
	mu       sync.Mutex // protects the shared vH
	h        *vH
	checks   map[string]int
	problems []string
}

func (r *vSendRec) problem(format string, a ...any) {
	if len(r.problems) < 20 {
		r.problems = append(r.problems, fmt.Sprintf(format, a...))
	}
}

func vN32(b [32]byte) string { return new(big.Int).SetBytes(b[:]).String() }

// partName renders a non-nil part as its bare definition name.
func (h *vH) partName(m *pbv1.QBFTMsg) string {
	t := h.partTerm(m)
	return strings.TrimSuffix(strings.TrimPrefix(t, "(Some "), ")")
}

func (h *vH) wireBare(m *pbv1.QBFTConsensusMsg) string {
	t := h.wireTerm(m)
	return strings.TrimSuffix(strings.TrimPrefix(t, "(Some "), ")")
}

// registerIfSignedBy records the signature of a freshly produced part after checking it independently
// (recover the public key from the signature over the hash of the signature-less part).
func (r *vSendRec) registerIfSignedBy(p *pbv1.QBFTMsg, key *k1.PrivateKey, keyID int) {
	c, _ := proto.Clone(p).(*pbv1.QBFTMsg)
	c.Signature = nil
	root := vSszRoot(vDet(c))
	pub, err := k1util.Recover(root[:], p.GetSignature())
	if err != nil || !pub.IsEqual(key.PubKey()) {
		r.problem("produced part is not signed by the node's key over its own content: %v", err)
		return
	}
	r.h.registerSig(p, keyID)
}

// one instrumented transport
type vSendNode struct {
	rec     *vSendRec
	mu      sync.Mutex // serialises Broadcast calls and ProcessReceives hand-overs of this node
	self    int
	key     *k1.PrivateKey
	duty    core.Duty
	tr      *transport
	valueCh chan instance.ValueWithHash
	last    *pbv1.QBFTConsensusMsg // what the broadcaster was given by the current Broadcast call
	pendingHash *[32]byte          // hash of the pair sitting on the value channel
	trace   vSendTrace
	deliver func(ctx context.Context, msg *pbv1.QBFTConsensusMsg) // network
}

func (n *vSendNode) Broadcast(ctx context.Context, msg *pbv1.QBFTConsensusMsg) error {
	n.last = msg
	n.rec.mu.Lock()
	n.rec.registerIfSignedBy(msg.GetMsg(), n.key, vKeyID(n.self)) // before anybody can receive it
	n.rec.mu.Unlock()
	if n.deliver != nil {
		n.deliver(ctx, msg)
	}
	return nil
}

// callback is what qbft.Run is given as Transport.Broadcast.
func (n *vSendNode) callback(ctx context.Context, typ qbft.MsgType, duty core.Duty, peerIdx int64, round int64, vh [32]byte,
	pr int64, pvh [32]byte, just []vQMsg,
) error {
	n.mu.Lock()
	defer n.mu.Unlock()
	r := n.rec
	if duty != n.duty {
		r.problem("callback called with duty %v, instance is %v", duty, n.duty)
	}
	if peerIdx != int64(n.self) {
		r.problem("callback called with peer index %d, process is %d", peerIdx, n.self)
	}
	pending := len(n.valueCh)
	n.last = nil
	err := n.tr.Broadcast(ctx, typ, duty, peerIdx, round, vh, pr, pvh, just)

	r.mu.Lock()
	defer r.mu.Unlock()
	r.checks["broadcast-calls"]++
	r.checks["broadcast-type-"+typ.String()]++
	var js []string
	for _, j := range just {
		m, ok := j.(Msg)
		if !ok {
			r.problem("justification is not a wrapper Msg")
			continue
		}
		js = append(js, r.h.partName(m.Msg()))
	}
	newv := "None"
	// the pair was drained: the Any built by getValue is the binding now in the cache (in-package access)
	if pending == 1 && len(n.valueCh) == 0 && n.pendingHash != nil {
		n.tr.valueMu.Lock()
		a := n.tr.values[*n.pendingHash]
		n.tr.valueMu.Unlock()
		vt := r.h.valueTerm(a) // (V tu b)
		newv = "(NV " + vN32(*n.pendingHash) + strings.TrimSuffix(strings.TrimPrefix(vt, "(V"), ")") + ")"
		n.pendingHash = nil
		r.checks["value-channel-drained"]++
	}
	obs := "None"
	if err == nil {
		if n.last == nil {
			r.problem("Broadcast returned nil without calling the broadcaster")
		} else {
			obs = "(Some " + r.h.wireBare(n.last) + ")"
			r.checks["broadcast-values-"+fmt.Sprint(len(n.last.GetValues()))]++
		}
	} else {
		r.checks["broadcast-error"]++
		if !strings.Contains(err.Error(), "unknown value") {
			r.problem("unexpected Broadcast error: %v", err)
		}
		if n.last != nil {
			r.problem("Broadcast returned an error after calling the broadcaster")
		}
	}
	n.trace.Labels = append(n.trace.Labels, fmt.Sprintf("SB (BA %s %s %s %s %s %s %s [%s]) %s %s", vZ(int64(typ)), vCoreDuty(duty), vZ(peerIdx),
		vZ(round), vN32(vh), vZ(pr), vN32(pvh), strings.Join(js, "; "), newv, obs))
	return err
}

// received records one ProcessReceives hand-over (called with n.mu held by the forwarder).
func (n *vSendNode) received(in, out Msg) {
	r := n.rec
	r.mu.Lock()
	defer r.mu.Unlock()
	r.checks["process-receives"]++
	same := in.msg == out.msg && len(in.justificationProtos) == len(out.justificationProtos) && len(in.values) == len(out.values)
	for i := range in.justificationProtos {
		same = same && i < len(out.justificationProtos) && in.justificationProtos[i] == out.justificationProtos[i]
	}
	for k, v := range in.values {
		same = same && out.values[k] == v
	}
	if !same {
		r.problem("ProcessReceives handed on a message different from the one enqueued by handle")
	} else {
		r.checks["process-receives-unchanged"]++
	}
	n.trace.Labels = append(n.trace.Labels, "SRx "+r.h.wireBare(in.ToConsensusMsg()))
}

// pendingHash is set by whoever puts a pair on the value channel.
func (n *vSendNode) offer(hash [32]byte, value proto.Message) {
	n.valueCh <- instance.ValueWithHash{Hash: hash, Value: value}
	hh := hash
	n.pendingHash = &hh
}

// ---------------------------------------------------------------------------------------------
// (a) scripted single-node sequence

func (r *vSendRec) runScript(t *testing.T, id int) vSendTrace {
	t.Helper()
	h := r.h
	w := h.newWorld(4, "send-script")
	w.keep = false
	duty := core.Duty{Slot: 900, Type: core.DutyAttester}
	v1, v2, v3 := w.newValue(0, 62), w.newValue(0, 63), w.newValue(2, 64) // v1: canonical bytes, v2: non-canonical encoding
	zero := [32]byte{}
	n := &vSendNode{rec: r, self: 0, key: w.keys[0], duty: duty, valueCh: make(chan instance.ValueWithHash, 1)}
	n.trace = vSendTrace{ID: id, Kind: "script", Key: vKeyID(0)}
	inner := make(chan vQMsg, 64)
	n.tr = newTransport(n, w.keys[0], n.valueCh, inner, newSniffer(4, 0))
	synctest.Test(t, func(t *testing.T) {
		ctx, cancel := context.WithCancel(context.Background())
		defer cancel()
		go n.tr.ProcessReceives(ctx, w.c.getRecvBuffer(duty))
		bc := func(typ qbft.MsgType, round int64, vh [32]byte, pr int64, pvh [32]byte, just ...vQMsg) {
			err := n.callback(ctx, typ, duty, 0, round, vh, pr, pvh, just)
			synctest.Wait()
			if err == nil { // loop-back: the same message reaches the node's own qbft.Run
				select {
				case m := <-inner:
					lm, _ := m.(Msg)
					if lm.msg != n.last.GetMsg() {
						r.problem("loop-back message is not the message sent")
					} else {
						r.checks["loop-back-same-message"]++
					}
				default:
					r.problem("no loop-back after a successful Broadcast")
				}
			}
		}
		// recv: a message of another member goes through the real handle and the real ProcessReceives
		recv := func(m Msg) vQMsg {
			id, ok := w.call(vEnvDefault(), vWire(m), vCase{base: -1, class: "send", expect: "model"})
			if !ok {
				r.problem("handle rejected a scripted message")
				return nil
			}
			synctest.Wait()
			select {
			case out := <-inner:
				om, _ := out.(Msg)
				if w.ptrID[om.msg] != id {
					r.problem("ProcessReceives delivered another message")
				}
				n.received(om, om)
				return out
			default:
				r.problem("ProcessReceives delivered nothing")
				return nil
			}
		}
		bc(qbft.MsgPrepare, 1, v1.hash, 0, zero) // value missing from the cache: error, nothing signed
		bc(qbft.MsgRoundChange, 1, zero, 0, zero) // no hash needed: the value channel is not read
		n.offer(v1.hash, v1.inner)
		bc(qbft.MsgRoundChange, 2, zero, 0, zero) // still not read
		bc(qbft.MsgPrePrepare, 1, v1.hash, 0, zero) // own proposal drained and attached
		bc(qbft.MsgPrepare, 1, v1.hash, 0, zero)
		bc(qbft.MsgCommit, 1, v1.hash, 0, zero)
		var prepares, commits []vQMsg
		for p := 1; p <= 3; p++ {
			prepares = append(prepares, recv(w.mk(qbft.MsgPrepare, duty, p, 1, v1.hash, 0, zero, nil, v1)))
			commits = append(commits, recv(w.mk(qbft.MsgCommit, duty, p, 1, v1.hash, 0, zero, nil, v1)))
		}
		bc(qbft.MsgRoundChange, 2, zero, 1, v1.hash, prepares...) // prepared value attached, justified by PREPAREs
		rc2 := recv(w.mk(qbft.MsgRoundChange, duty, 2, 2, zero, 1, v2.hash, nil, v2)) // brings v2 into the cache
		rc3 := recv(w.mk(qbft.MsgRoundChange, duty, 3, 2, zero, 0, zero, nil))
		bc(qbft.MsgPrePrepare, 2, v1.hash, 0, zero, append([]vQMsg{rc2, rc3}, prepares...)...) // justification with its own values: two values
		bc(qbft.MsgPrePrepare, 3, v2.hash, 0, zero, rc3, rc2) // order of the justification kept
		bc(qbft.MsgDecided, 1, v1.hash, 0, zero, commits...)
		bc(qbft.MsgPrePrepare, 4, v3.hash, 0, zero) // unknown value again
		bc(qbft.MsgRoundChange, 4, zero, 2, v3.hash, rc2) // unknown prepared value
		n.offer(v3.hash, v3.inner)
		bc(qbft.MsgPrePrepare, 4, v3.hash, 0, zero)
		// F11: a commit carrying v1's bytes under another type replaces the cached value ...
		re := vValue{inner: v1.inner, hash: v1.hash, any: &anypb.Any{TypeUrl: vOtherTypeURLs[0], Value: v1.any.GetValue()}}
		recv(w.mk(qbft.MsgCommit, duty, 3, 2, v1.hash, 0, zero, nil, re))
		bc(qbft.MsgPrepare, 2, v1.hash, 0, zero) // ... and is what the node attaches from now on
		recv(w.mk(qbft.MsgCommit, duty, 2, 2, v1.hash, 0, zero, nil, v1))
		bc(qbft.MsgCommit, 2, v1.hash, 0, zero) // until a properly typed one arrives again
		cancel()
		synctest.Wait()
	})
	return n.trace
}

// ---------------------------------------------------------------------------------------------
// (b) 4-node in-process consensus with instrumented transports

func (r *vSendRec) runCluster(t *testing.T, firstID int, seed int64, muteLeader bool) []vSendTrace {
	t.Helper()
	const nn = 4
	rnd := rand.New(rand.NewSource(seed)) //nolint:gosec
	duty := core.Duty{Slot: uint64(300 + seed%50), Type: core.DutyAttester}
	type node struct {
		sn   *vSendNode
		c    *Consensus
		mine *pbv1.UnsignedDataSet
		hash [32]byte
		ids  map[*pbv1.QBFTMsg]bool
	}
	var nodes []*node
	for i := 0; i < nn; i++ {
		c := &Consensus{deadliner: &vDeadliner{ch: make(chan core.Duty)}, gaterFunc: func(core.Duty) bool { return true }}
		c.pubkeys = map[int64]*k1.PublicKey{}
		for j := 0; j < nn; j++ {
			c.pubkeys[int64(j)] = vKey(j).PubKey()
		}
		c.mutable.instances = make(map[core.Duty]*instance.IO[Msg])
		nd := &node{c: c}
		_, nd.mine, nd.hash = vAttValue(t, rnd)
		nd.sn = &vSendNode{rec: r, self: i, key: vKey(i), duty: duty}
		nd.sn.trace = vSendTrace{ID: firstID + i, Kind: "cluster", Key: vKeyID(i)}
		nodes = append(nodes, nd)
	}
	synctest.Test(t, func(t *testing.T) {
		parent, stop := context.WithTimeout(context.Background(), 2*time.Minute)
		defer stop()
		var wg sync.WaitGroup
		for i, nd := range nodes {
			if muteLeader && int64(i) == leader(duty, 1, nn) {
				continue // the round-1 leader is down: the others change round and decide in round 2
			}
			ctx, cancel := context.WithCancel(parent)
			inst := nd.c.getInstanceIO(duty)
			sn := nd.sn
			sn.valueCh = inst.ValueCh
			innerT := make(chan vQMsg)       // the transport's inner buffer
			innerRun := make(chan vQMsg, 4096) // what qbft.Run reads
			outer2 := make(chan Msg)
			seen := make(chan Msg, 64)
			sn.tr = newTransport(sn, sn.key, inst.ValueCh, innerT, newSniffer(nn, int64(i)))
			from := i
			sn.deliver = func(ctx context.Context, msg *pbv1.QBFTConsensusMsg) {
				for to, other := range nodes {
					if to != from {
						_, _, _ = other.c.handle(ctx, "", proto.Clone(msg))
					}
				}
			}
			def := newDefinition(nn, nd.c.subscribers, timer.NewIncreasingRoundTimer(), func(int64) { cancel() }, false)
			sn.offer(nd.hash, nd.mine)
			inst.HashCh <- nd.hash
			pendingOuter := map[*pbv1.QBFTMsg]bool{}
			var pmu sync.Mutex
			go sn.tr.ProcessReceives(ctx, outer2) // the REAL ProcessReceives, fed one message at a time
			go func() {                           // forwarder: outer buffer -> ProcessReceives, serialised with Broadcast
				outer := nd.c.getRecvBuffer(duty)
				for {
					select {
					case <-ctx.Done():
						return
					case m := <-outer:
						sn.mu.Lock()
						pmu.Lock()
						pendingOuter[m.msg] = true
						pmu.Unlock()
						select {
						case outer2 <- m:
						case <-ctx.Done():
							sn.mu.Unlock()
							return
						}
						select {
						case out := <-seen:
							sn.received(m, out)
						case <-ctx.Done():
							sn.mu.Unlock()
							return
						}
						sn.mu.Unlock()
					}
				}
			}()
			go func() { // relay: inner buffer -> qbft.Run
				for {
					select {
					case <-ctx.Done():
						return
					case x := <-innerT:
						xm, _ := x.(Msg)
						pmu.Lock()
						fromOuter := pendingOuter[xm.msg]
						delete(pendingOuter, xm.msg)
						pmu.Unlock()
						if fromOuter {
							seen <- xm
						} else {
							r.mu.Lock()
							r.checks["loop-back-delivered"]++
							r.mu.Unlock()
						}
						innerRun <- x
					}
				}
			}()
			qt := qbft.Transport[core.Duty, [32]byte, proto.Message]{Broadcast: sn.callback, Receive: innerRun}
			wg.Add(1)
			go func(i int) {
				defer wg.Done()
				defer cancel()
				if err := qbft.Run(ctx, def, qt, duty, int64(i), inst.HashCh, inst.VerifyCh); err != nil && !isContextErr(err) {
					r.mu.Lock()
					r.problem("qbft.Run of node %d: %v", i, err)
					r.mu.Unlock()
				}
			}(i)
		}
		wg.Wait()
		stop()
		synctest.Wait()
	})
	var out []vSendTrace
	for _, nd := range nodes {
		out = append(out, nd.sn.trace)
	}
	return out
}

func TestVerifSend(t *testing.T) {
	h := newVH(t)
	r := &vSendRec{h: h, checks: map[string]int{}}
	var out vSendOut
	out.SendTraces = append(out.SendTraces, r.runScript(t, 0))
	runs := 2
	if h.thorough {
		runs = 12
	}
	for k := 0; k < runs; k++ {
		out.SendTraces = append(out.SendTraces, r.runCluster(t, 1+4*k, h.out.Seed*1000+int64(k), k%2 == 1)...)
	}
	out.vOut = h.out
	out.vOut.Meta, out.vOut.Traces = nil, nil
	out.Checks = r.checks
	out.Problems = r.problems
	h.out = vOut{}
	b, err := json.Marshal(out)
	if err != nil {
		t.Fatal(err)
	}
	dir := os.Getenv("VERIF_OUT")
	if dir == "" {
		dir = os.TempDir()
	}
	if err := os.WriteFile(filepath.Join(dir, "send.json"), b, 0o644); err != nil {
		t.Fatal(err)
	}
}
