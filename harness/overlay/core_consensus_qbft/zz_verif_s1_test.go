//go:build verif

// S1 end to end (C02, KNOWN_FINDINGS F11b): with compareAttestations on (feature chain_split_halt) the wrapper's
// Definition.Compare is not a function of (member, value hash) -- the agreed bytes re-typed as another proto type keep
// the hash, pass handle and fail the comparison.  This test turns that into a split decision on the REAL wrapper code:
// three honest in-process members (real handle, newTransport/ProcessReceives, newDefinition with compareAttestations,
// core/qbft.Run; the only replaced piece is the libp2p sender, as in zz_verif_decide_test.go) and ONE scripted
// Byzantine member (index 2, leader of round 3) that signs only with its own key, re-sends honest members' signed
// messages with re-typed values, and schedules deliveries.  Self-contained; mapped in with `go test -overlay`.
//
// Schedule (n = 4, leader(r) = r-1 mod 4 for the chosen duty; A = member 0's value, X = the Byzantine member's value;
// all honest members have local attestation data with the same source/target, different head roots):
//  round 1: 0 proposes A; 0 and 1 accept (typed A: CmpOk), prepare, and with the Byzantine PREPARE commit A; nobody decides.
//  round 2 (after the round-1 timeout): leader 1 re-proposes the prepared A with a valid justification; the Byzantine
//           member delivers that signed PRE-PREPARE to 0 and 3 with A RE-TYPED: handle accepts, Compare fails,
//           compareFailureRound = 2 at 0 and 3 (member 0 had accepted the same hash in round 1).
//  round 3: the Byzantine leader's UNJUSTIFIED PRE-PREPARE(3, X) is accepted by 0 and 3 (round = compareFailureRound+1);
//           with the Byzantine votes they prepare, commit and DECIDE X.
//  finally: the Byzantine member hands member 1 a DECIDED(1, A) carrying COMMIT(1, A) of 0, 1 and itself: 1 DECIDES A.
package qbft

import (
	"context"
	"crypto/sha256"
	"encoding/hex"
	"encoding/json"
	"fmt"
	"math/rand"
	"os"
	"path/filepath"
	"sync"
	"testing"
	"testing/synctest"
	"time"

	k1 "github.com/decred/dcrd/dcrec/secp256k1/v4"
	"google.golang.org/protobuf/proto"
	"google.golang.org/protobuf/types/known/anypb"

	"github.com/obolnetwork/charon/core"
	"github.com/obolnetwork/charon/core/consensus/instance"
	"github.com/obolnetwork/charon/core/consensus/timer"
	pbv1 "github.com/obolnetwork/charon/core/corepb/v1"
	"github.com/obolnetwork/charon/core/qbft"
	"github.com/obolnetwork/charon/testutil"
)

type s1Deadliner struct{ ch chan core.Duty }

func (d *s1Deadliner) Add(core.Duty) core.DeadlineStatus { return core.DeadlineScheduled }
func (d *s1Deadliner) C() <-chan core.Duty               { return d.ch }

func s1Key(i int) *k1.PrivateKey {
	d := sha256.Sum256([]byte(fmt.Sprintf("verif-s1-key-%d", i)))
	return k1.PrivKeyFromBytes(d[:])
}

type s1Decision struct {
	Node  int    `json:"node"`
	Round int64  `json:"round"`
	Hash  string `json:"hash"`  // value hash handed to Definition.Decide
	Set   string `json:"set"`   // hash of the UnsignedDataSet delivered to the subscriber ("" = none)
	Value string `json:"value"` // "A", "X" or "?"
}

type s1Step struct {
	Step   string `json:"step"`
	Detail string `json:"detail"`
	OK     bool   `json:"ok"`
}

type s1Out struct {
	Steps      []s1Step     `json:"steps"`
	Decisions  []s1Decision `json:"decisions"`
	Split      bool         `json:"split"`
	FailedStep string       `json:"failed_step"`
	HashA      string       `json:"hash_a"`
	HashX      string       `json:"hash_x"`
	Retyped    string       `json:"retyped_type_url"`
	Compare    bool         `json:"compare_attestations"`
}

type s1Net struct {
	mu   sync.Mutex
	sent map[int][]*pbv1.QBFTConsensusMsg // broadcasts handed to the (replaced) libp2p sender, per honest member
	dec  []s1Decision
}

type s1Bcast struct {
	net  *s1Net
	from int
}

func (b s1Bcast) Broadcast(_ context.Context, msg *pbv1.QBFTConsensusMsg) error {
	b.net.mu.Lock()
	defer b.net.mu.Unlock()
	b.net.sent[b.from] = append(b.net.sent[b.from], proto.Clone(msg).(*pbv1.QBFTConsensusMsg))
	return nil
}

// last broadcast of member `from` with the given type and round (nil: none)
func (n *s1Net) find(from int, typ qbft.MsgType, round int64) *pbv1.QBFTConsensusMsg {
	n.mu.Lock()
	defer n.mu.Unlock()
	var out *pbv1.QBFTConsensusMsg
	for _, m := range n.sent[from] {
		if qbft.MsgType(m.GetMsg().GetType()) == typ && m.GetMsg().GetRound() == round {
			out = m
		}
	}
	return out
}

type s1Node struct {
	idx    int
	c      *Consensus
	local  *pbv1.UnsignedDataSet
	hash   [32]byte
	cancel context.CancelFunc
}

func s1Hex(h [32]byte) string { return hex.EncodeToString(h[:8]) }

// TestVerifS1Split runs the schedule with compareAttestations on (the attack) and off (control: the default
// configuration, where the same schedule must stop at the first step that needs a compare failure).
func TestVerifS1Split(t *testing.T) {
	res := map[string]s1Out{"attack": s1Run(t, true), "control": s1Run(t, false)}
	b, err := json.MarshalIndent(res, "", " ")
	if err != nil {
		t.Fatal(err)
	}
	dir := os.Getenv("VERIF_OUT")
	if dir == "" {
		dir = os.TempDir()
	}
	if err := os.WriteFile(filepath.Join(dir, "qbft_s1_split.json"), b, 0o644); err != nil {
		t.Fatal(err)
	}
}

func s1Run(t *testing.T, compare bool) s1Out {
	t.Helper()
	const n, byz = 4, 2
	out := s1Out{Compare: compare}
	r := rand.New(rand.NewSource(11)) //nolint:gosec
	pk := testutil.RandomCorePubKeySeed(t, r)
	att := testutil.RandomCoreAttestationDataSeed(t, r)
	variant := func(k byte) (*pbv1.UnsignedDataSet, [32]byte, *anypb.Any) {
		a := att
		a.Data.BeaconBlockRoot[0] ^= k // another head vote; source and target unchanged
		pb, err := core.UnsignedDataSetToProto(core.UnsignedDataSet{pk: a})
		if err != nil {
			t.Fatal(err)
		}
		h, err := hashProto(pb)
		if err != nil {
			t.Fatal(err)
		}
		an, err := anypb.New(pb)
		if err != nil {
			t.Fatal(err)
		}
		return pb, h, an
	}
	// duty with leader(1) = 0, leader(2) = 1, leader(3) = 2 (Byzantine)
	duty := core.Duty{Slot: 1, Type: core.DutyAttester}
	for leader(duty, 1, n) != 0 {
		duty.Slot++
	}
	net := &s1Net{sent: map[int][]*pbv1.QBFTConsensusMsg{}}
	pubkeys := map[int64]*k1.PublicKey{}
	for j := 0; j < n; j++ {
		pubkeys[int64(j)] = s1Key(j).PubKey()
	}
	nodes := map[int]*s1Node{}
	for _, i := range []int{0, 1, 3} {
		nd := &s1Node{idx: i}
		nd.local, nd.hash, _ = variant(byte(i + 1))
		c := &Consensus{deadliner: &s1Deadliner{ch: make(chan core.Duty)}, gaterFunc: func(core.Duty) bool { return true },
			pubkeys: pubkeys, privkey: s1Key(i), compareAttestations: compare}
		c.mutable.instances = make(map[core.Duty]*instance.IO[Msg])
		nd.c = c
		nodes[i] = nd
	}
	_, hA, anyA := variant(1) // = member 0's value
	_, hX, anyX := variant(99)
	out.HashA, out.HashX = s1Hex(hA), s1Hex(hX)
	name := func(h [32]byte) string {
		switch h {
		case hA:
			return "A"
		case hX:
			return "X"
		}
		return "?"
	}
	retypedURL := "type.googleapis.com/" + string((&pbv1.QBFTMsg{}).ProtoReflect().Descriptor().FullName())
	out.Retyped = retypedURL
	bvals := map[[32]byte]*anypb.Any{hA: anyA, hX: anyX}
	bmsg := func(typ qbft.MsgType, round int64, vh [32]byte, just []qbft.Msg[core.Duty, [32]byte, proto.Message]) *pbv1.QBFTConsensusMsg {
		m, err := createMsg(typ, duty, byz, round, vh, 0, [32]byte{}, bvals, just, s1Key(byz))
		if err != nil {
			t.Fatal(err)
		}
		return m.ToConsensusMsg()
	}
	retype := func(m *pbv1.QBFTConsensusMsg) *pbv1.QBFTConsensusMsg {
		c := proto.Clone(m).(*pbv1.QBFTConsensusMsg)
		for _, v := range c.GetValues() {
			v.TypeUrl = retypedURL
		}
		return c
	}
	step := func(name string, ok bool, detail string) bool {
		out.Steps = append(out.Steps, s1Step{Step: name, Detail: detail, OK: ok})
		if !ok && out.FailedStep == "" {
			out.FailedStep = name + ": " + detail
		}
		return ok
	}

	synctest.Test(t, func(t *testing.T) {
		parent, stop := context.WithCancel(context.Background())
		defer stop()
		for _, i := range []int{0, 1, 3} {
			nd := nodes[i]
			ctx, cancel := context.WithCancel(parent)
			nd.cancel = cancel
			nd.c.Subscribe(func(_ context.Context, _ core.Duty, set core.UnsignedDataSet) error {
				pb, err := core.UnsignedDataSetToProto(set)
				if err != nil {
					return err
				}
				h, _ := hashProto(pb)
				net.mu.Lock()
				defer net.mu.Unlock()
				for k := range net.dec {
					if net.dec[k].Node == nd.idx && net.dec[k].Set == "" {
						net.dec[k].Set = s1Hex(h)
					}
				}
				return nil
			})
			// what Consensus.propose + runInstance do (the libp2p sender is replaced by s1Bcast)
			inst := nd.c.getInstanceIO(duty)
			tr := newTransport(s1Bcast{net: net, from: i}, nd.c.privkey, inst.ValueCh,
				make(chan qbft.Msg[core.Duty, [32]byte, proto.Message]), newSniffer(n, int64(i)))
			def := newDefinition(n, nd.c.subscribers, timer.NewIncreasingRoundTimer(), func(int64) { cancel() }, nd.c.compareAttestations)
			orig := def.Decide
			def.Decide = func(ctx context.Context, d core.Duty, vh [32]byte, round int64, qc []qbft.Msg[core.Duty, [32]byte, proto.Message]) {
				net.mu.Lock()
				net.dec = append(net.dec, s1Decision{Node: nd.idx, Round: round, Hash: s1Hex(vh), Value: name(vh)})
				net.mu.Unlock()
				orig(ctx, d, vh, round, qc)
			}
			inst.ValueCh <- instance.ValueWithHash{Hash: nd.hash, Value: nd.local}
			inst.HashCh <- nd.hash
			inst.VerifyCh <- nd.local
			go tr.ProcessReceives(ctx, nd.c.getRecvBuffer(duty))
			qt := qbft.Transport[core.Duty, [32]byte, proto.Message]{Broadcast: tr.Broadcast, Receive: tr.RecvBuffer()}
			go func(i int) {
				defer cancel()
				_ = qbft.Run(ctx, def, qt, duty, int64(i), inst.HashCh, inst.VerifyCh)
			}(i)
		}
		synctest.Wait()
		deliver := func(to int, m *pbv1.QBFTConsensusMsg) error {
			_, _, err := nodes[to].c.handle(parent, "", proto.Clone(m))
			synctest.Wait()
			return err
		}
		errs := func(es ...error) string {
			s := ""
			for _, e := range es {
				if e != nil {
					s += e.Error() + "; "
				}
			}
			return s
		}
		s1Script(t, &out, net, step, deliver, errs, bmsg, retype, bvals, hA, hX)
		stop()
		synctest.Wait()
	})

	out.Decisions = net.dec
	seen := map[string]bool{}
	for _, d := range net.dec {
		seen[d.Hash] = true
	}
	out.Split = len(seen) > 1

	return out
}

// s1Script: the adversary's schedule.  Every step states what the honest members must have done for the attack to go on.
func s1Script(t *testing.T, out *s1Out, net *s1Net,
	step func(string, bool, string) bool,
	deliver func(int, *pbv1.QBFTConsensusMsg) error,
	errs func(...error) string,
	bmsg func(qbft.MsgType, int64, [32]byte, []qbft.Msg[core.Duty, [32]byte, proto.Message]) *pbv1.QBFTConsensusMsg,
	retype func(*pbv1.QBFTConsensusMsg) *pbv1.QBFTConsensusMsg,
	bvals map[[32]byte]*anypb.Any, hA, hX [32]byte,
) {
	t.Helper()
	const byz = 2
	is := func(m *pbv1.QBFTConsensusMsg, h [32]byte) bool {
		return m != nil && string(m.GetMsg().GetValueHash()) == string(h[:])
	}
	// round 1: leader 0 proposed A at start and (self-delivery, typed A) prepared it
	pp1 := net.find(0, qbft.MsgPrePrepare, 1)
	if !step("r1-propose", is(pp1, hA) && is(net.find(0, qbft.MsgPrepare, 1), hA), "member 0 proposes A and prepares it (Compare ok on the typed value)") {
		return
	}
	e1 := deliver(1, pp1)
	if !step("r1-accept", is(net.find(1, qbft.MsgPrepare, 1), hA), "member 1 accepts PRE-PREPARE(1, A): Compare ok, PREPARE(1, A) "+errs(e1)) {
		return
	}
	prepB := bmsg(qbft.MsgPrepare, 1, hA, nil)
	e1 = deliver(0, net.find(1, qbft.MsgPrepare, 1))
	e2 := deliver(1, net.find(0, qbft.MsgPrepare, 1))
	e3 := deliver(0, prepB)
	e4 := deliver(1, prepB)
	com0, com1 := net.find(0, qbft.MsgCommit, 1), net.find(1, qbft.MsgCommit, 1)
	if !step("r1-commit", is(com0, hA) && is(com1, hA), "members 0 and 1 see PREPARE(1, A) of 0, 1 and the Byzantine member and COMMIT(1, A); nobody decides "+errs(e1, e2, e3, e4)) {
		return
	}
	// the round-1 timers fire
	time.Sleep(5 * time.Second / 4)
	synctest.Wait()
	rc0, rc1, rc3 := net.find(0, qbft.MsgRoundChange, 2), net.find(1, qbft.MsgRoundChange, 2), net.find(3, qbft.MsgRoundChange, 2)
	if !step("r2-roundchange", rc0 != nil && rc1 != nil && rc3 != nil && rc0.GetMsg().GetPreparedRound() == 1 && rc3.GetMsg().GetPreparedRound() == 0,
		"round-1 timeout: ROUND-CHANGE(2) of 0 and 1 with prepared (1, A), of 3 with nothing prepared") {
		return
	}
	e1 = deliver(1, rc0)
	e2 = deliver(1, rc3)
	pp2 := net.find(1, qbft.MsgPrePrepare, 2)
	if !step("r2-propose", is(pp2, hA) && is(net.find(1, qbft.MsgPrepare, 2), hA),
		fmt.Sprintf("leader 1 re-proposes the prepared A with %d justification parts and accepts it itself (typed A) %s", len(pp2.GetJustification()), errs(e1, e2))) {
		return
	}
	// the same signed PRE-PREPARE, values re-typed, reaches 0 and 3 first
	bad := retype(pp2)
	n0, n3 := len(net.sent[0]), len(net.sent[3])
	e1 = deliver(0, bad)
	e2 = deliver(3, bad)
	if !step("r2-retyped-accepted-by-handle", e1 == nil && e2 == nil, "handle accepts member 1's PRE-PREPARE(2, A) with A re-typed as "+out.Retyped+" "+errs(e1, e2)) {
		return
	}
	if !step("r2-compare-fails", len(net.sent[0]) == n0 && len(net.sent[3]) == n3 && net.find(0, qbft.MsgPrepare, 2) == nil && net.find(3, qbft.MsgPrepare, 2) == nil,
		"members 0 and 3 do not PREPARE: Compare failed on the re-typed value (compareFailureRound = 2); member 0 had accepted the same hash in round 1") {
		return
	}
	e1 = deliver(0, pp2) // the genuine copy arrives late: the rule already fired for round 2
	step("r2-genuine-late", net.find(0, qbft.MsgPrepare, 2) == nil, "the genuine PRE-PREPARE(2, A) arriving afterwards changes nothing "+errs(e1))
	// round 3: unjustified proposal of the Byzantine leader
	pp3 := bmsg(qbft.MsgPrePrepare, 3, hX, nil)
	e1 = deliver(0, pp3)
	e2 = deliver(3, pp3)
	p0, p3 := net.find(0, qbft.MsgPrepare, 3), net.find(3, qbft.MsgPrepare, 3)
	if !step("r3-unjustified-accepted", is(p0, hX) && is(p3, hX),
		"members 0 and 3 accept the UNJUSTIFIED PRE-PREPARE(3, X) of the Byzantine leader (round = compareFailureRound+1; Compare ok: X has their source/target) and PREPARE(3, X) "+errs(e1, e2)) {
		return
	}
	e3 = deliver(1, pp3)
	step("r3-refused-by-1", net.find(1, qbft.MsgPrepare, 3) == nil, "member 1 (compareFailureRound = 0) refuses it as unjustified "+errs(e3))
	prepX := bmsg(qbft.MsgPrepare, 3, hX, nil)
	e1, e2, e3, e4 = deliver(0, p3), deliver(3, p0), deliver(0, prepX), deliver(3, prepX)
	c0, c3 := net.find(0, qbft.MsgCommit, 3), net.find(3, qbft.MsgCommit, 3)
	if !step("r3-commit", is(c0, hX) && is(c3, hX), "members 0 and 3 COMMIT(3, X) "+errs(e1, e2, e3, e4)) {
		return
	}
	comX := bmsg(qbft.MsgCommit, 3, hX, nil)
	e1, e2, e3, e4 = deliver(0, c3), deliver(3, c0), deliver(0, comX), deliver(3, comX)
	net.mu.Lock()
	nd := len(net.dec)
	net.mu.Unlock()
	if !step("r3-decide-X", nd == 2, fmt.Sprintf("members 0 and 3 decide X (%d Decide callbacks) %s", nd, errs(e1, e2, e3, e4))) {
		return
	}
	// member 1 learns the round-1 commit quorum from a DECIDED assembled by the Byzantine member
	var just []qbft.Msg[core.Duty, [32]byte, proto.Message]
	for _, cm := range []*pbv1.QBFTConsensusMsg{com0, com1, bmsg(qbft.MsgCommit, 1, hA, nil)} {
		m, err := newMsg(cm.GetMsg(), nil, bvals)
		if err != nil {
			t.Fatal(err)
		}
		just = append(just, m)
	}
	e1 = deliver(1, bmsg(qbft.MsgDecided, 1, hA, just))
	net.mu.Lock()
	nd = len(net.dec)
	net.mu.Unlock()
	step("decide-A", nd == 3, fmt.Sprintf("member 1 decides A on DECIDED(1, A) with COMMIT(1, A) of 0, 1 and the Byzantine member (%d Decide callbacks) %s", nd, errs(e1)))
	_ = byz
}
