//go:build verif

// C05 correspondence harness, part 4: the value delivered on decision. (a) the Decide callback of
// the real newDefinition called with messages that went through the real handle; (b) a small
// consensus among in-process components (real qbft.Run, newDefinition, newTransport, handle; the
// only replaced piece is the libp2p sender) with a network that injects tampered copies.
package qbft

import (
	"context"
	"fmt"
	"math/rand"
	"sync"
	"testing"
	"testing/synctest"
	"time"

	k1 "github.com/decred/dcrd/dcrec/secp256k1/v4"
	"google.golang.org/protobuf/proto"
	"google.golang.org/protobuf/types/known/anypb"

	"github.com/obolnetwork/charon/core"
	"github.com/obolnetwork/charon/core/consensus/instance"
	"github.com/obolnetwork/charon/core/consensus/timer"
	pbv1 "github.com/obolnetwork/charon/core/corepb/v1"
	"github.com/obolnetwork/charon/core/qbft"
	"github.com/obolnetwork/charon/testutil"
)

func vAttValue(t *testing.T, r *rand.Rand) (core.UnsignedDataSet, *pbv1.UnsignedDataSet, [32]byte) {
	t.Helper()
	set := core.UnsignedDataSet{testutil.RandomCorePubKeySeed(t, r): testutil.RandomCoreAttestationDataSeed(t, r)}
	pb, err := core.UnsignedDataSetToProto(set)
	if err != nil {
		t.Fatal(err)
	}
	hash, err := hashProto(pb)
	if err != nil {
		t.Fatal(err)
	}
	return set, pb, hash
}

func vSetEqual(t *testing.T, a core.UnsignedDataSet, want *pbv1.UnsignedDataSet) bool {
	t.Helper()
	pb, err := core.UnsignedDataSetToProto(a)
	if err != nil {
		return false
	}
	return proto.Equal(pb, want)
}

// runDecide: scenario (a).
func (h *vH) runDecide(t *testing.T) {
	t.Helper()
	const n = 4
	r := rand.New(rand.NewSource(h.out.Seed + 7)) //nolint:gosec
	duty := core.Duty{Slot: 123, Type: core.DutyAttester}
	_, goodPB, hash := vAttValue(t, r)
	_, otherPB, otherHash := vAttValue(t, r)
	goodAny, _ := anypb.New(goodPB)
	otherAny, _ := anypb.New(otherPB)

	type scen struct {
		name, kind string
		first      *anypb.Any // value carried by the commit that ends up first in qcommit
		extra      []*anypb.Any
		want       int
	}
	scens := []scen{
		{"commit carries the proposed value", "honest", goodAny, nil, 1},
		{"commit carries the proposed value and another one", "honest", goodAny, []*anypb.Any{otherAny}, 1},
	}
	for i, tu := range vOtherTypeURLs[:2] {
		scens = append(scens, scen{fmt.Sprintf("commit carries the agreed bytes wrapped as %s", tu), "typeurl",
			&anypb.Any{TypeUrl: tu, Value: goodAny.GetValue()}, nil, 1})
		_ = i
	}
	for _, sc := range scens {
		w := h.newWorld(n, "decide")
		w.keep = false
		var got []core.UnsignedDataSet
		w.c.Subscribe(func(_ context.Context, _ core.Duty, set core.UnsignedDataSet) error {
			got = append(got, set)
			return nil
		})
		res := vDecide{Name: sc.name, Kind: sc.kind, WantCalls: sc.want}
		var qcommit []vQMsg
		for peer := 0; peer < 3; peer++ {
			vals := map[[32]byte]*anypb.Any{hash: goodAny}
			if peer == 0 {
				vals[hash] = sc.first
				for _, e := range sc.extra {
					vals[otherHash] = e
				}
			}
			m, err := createMsg(qbft.MsgCommit, duty, int64(peer), 1, hash, 0, [32]byte{}, vals, nil, w.keys[peer])
			if err != nil {
				t.Fatal(err)
			}
			id, ok := w.call(vEnvDefault(), vWire(m), vCase{base: -1, class: "decide", expect: "model"})
			if !ok {
				res.HandleErr = fmt.Sprintf("handle rejected the commit of peer %d", peer)
				continue
			}
			w.drain(duty, 1)
			qcommit = append(qcommit, w.popped[id])
		}
		if len(qcommit) == 3 {
			decidedRounds := 0
			def := newDefinition(n, w.c.subscribers, timer.NewIncreasingRoundTimer(), func(int64) { decidedRounds++ }, false)
			def.Decide(context.Background(), duty, hash, 1, qcommit)
			res.Calls = len(got)
			res.Exact = len(got) == sc.want
			for _, g := range got {
				if !vSetEqual(t, g, goodPB) {
					res.Exact = false
				}
			}
			res.Detail = fmt.Sprintf("decideCallback calls=%d", decidedRounds)
			// transport cache: a good value cached first, then the message under test
			tr := newTransport(nil, w.keys[0], make(chan instance.ValueWithHash), nil, newSniffer(n, 0))
			tr.setValues(qcommit[1].(Msg))
			tr.setValues(qcommit[0].(Msg))
			if v, err := tr.getValue(hash); err == nil {
				res.Detail += "; transport cache serves type " + v.GetTypeUrl()
				if v.GetTypeUrl() != goodAny.GetTypeUrl() {
					res.Exact = false
				}
			}
		}
		h.out.Decide = append(h.out.Decide, res)
	}
	for _, mode := range []string{"none", "tamper", "retype"} {
		runs := 1
		if h.thorough && mode != "retype" {
			runs = 4
		}
		for k := 0; k < runs; k++ {
			h.out.Decide = append(h.out.Decide, vCluster(t, h.out.Seed*100+int64(k), mode))
		}
	}
}

// ---------------------------------------------------------------------------------------------
// scenario (b)

type vNode struct {
	c    *Consensus
	got  []core.UnsignedDataSet
	mine *pbv1.UnsignedDataSet
	hash [32]byte
}

type vNet struct {
	mu       sync.Mutex
	nodes    []*vNode
	mode     string
	rng      *rand.Rand
	injected map[string]int
	accepted map[string]int
}

type vBcast struct {
	net  *vNet
	from int
}

func (b vBcast) Broadcast(ctx context.Context, msg *pbv1.QBFTConsensusMsg) error {
	for to, nd := range b.net.nodes {
		if to == b.from {
			continue
		}
		for _, tm := range b.net.tampered(msg) {
			_, _, err := nd.c.handle(ctx, "", tm.m)
			b.net.mu.Lock()
			b.net.injected[tm.kind]++
			if err == nil {
				b.net.accepted[tm.kind]++
			}
			b.net.mu.Unlock()
		}
		if _, _, err := nd.c.handle(ctx, "", proto.Clone(msg)); err != nil && ctx.Err() == nil {
			b.net.mu.Lock()
			b.net.accepted["genuine-rejected"]++
			b.net.mu.Unlock()
		}
	}
	return nil
}

type vTampered struct {
	kind string
	m    *pbv1.QBFTConsensusMsg
}

func (n *vNet) tampered(msg *pbv1.QBFTConsensusMsg) []vTampered {
	n.mu.Lock()
	defer n.mu.Unlock()
	var out []vTampered
	switch n.mode {
	case "tamper":
		c := vClone(msg)
		switch n.rng.Intn(4) {
		case 0:
			c.Msg.Round++
		case 1:
			c.Msg.PeerIdx = (c.Msg.PeerIdx + 1) % int64(len(n.nodes))
		case 2:
			c.Msg.Type = c.Msg.Type%5 + 1
		default:
			if len(c.Justification) > 0 {
				c.Justification[0].Round++
			} else {
				c.Msg.PreparedRound++
			}
		}
		out = append(out, vTampered{"field", c})
		if len(msg.GetValues()) > 0 {
			c2 := vClone(msg)
			v := c2.Values[0].Value
			v[n.rng.Intn(len(v))] ^= 0x10
			out = append(out, vTampered{"value-byte", c2})
		}
	case "retype":
		if len(msg.GetValues()) > 0 {
			c := vClone(msg)
			c.Values[0].TypeUrl = vOtherTypeURLs[0]
			out = append(out, vTampered{"retype", c})
		}
	}
	return out
}

func vCluster(t *testing.T, seed int64, mode string) vDecide {
	t.Helper()
	const n = 4
	res := vDecide{Name: "4-node in-process consensus, network mode " + mode, Kind: "cluster-" + mode, WantCalls: n}
	r := rand.New(rand.NewSource(seed)) //nolint:gosec
	duty := core.Duty{Slot: uint64(200 + seed%50), Type: core.DutyAttester}
	net := &vNet{mode: mode, rng: rand.New(rand.NewSource(seed + 1)), injected: map[string]int{}, accepted: map[string]int{}} //nolint:gosec
	var proposals []*pbv1.UnsignedDataSet
	for i := 0; i < n; i++ {
		nd := &vNode{}
		c := &Consensus{deadliner: &vDeadliner{ch: make(chan core.Duty)}, gaterFunc: func(core.Duty) bool { return true }}
		c.pubkeys = map[int64]*k1.PublicKey{}
		for j := 0; j < n; j++ {
			c.pubkeys[int64(j)] = vKey(j).PubKey()
		}
		c.mutable.instances = make(map[core.Duty]*instance.IO[Msg])
		c.Subscribe(func(_ context.Context, _ core.Duty, set core.UnsignedDataSet) error {
			net.mu.Lock()
			defer net.mu.Unlock()
			nd.got = append(nd.got, set)
			return nil
		})
		nd.c = c
		_, nd.mine, nd.hash = vAttValue(t, r)
		proposals = append(proposals, nd.mine)
		net.nodes = append(net.nodes, nd)
	}
	var runErrs []error
	synctest.Test(t, func(t *testing.T) {
		parent, stop := context.WithTimeout(context.Background(), 2*time.Minute)
		defer stop()
		var wg sync.WaitGroup
		for i, nd := range net.nodes {
			ctx, cancel := context.WithCancel(parent)
			inst := nd.c.getInstanceIO(duty)
			tr := newTransport(vBcast{net: net, from: i}, vKey(i), inst.ValueCh, make(chan vQMsg), newSniffer(n, int64(i)))
			def := newDefinition(n, nd.c.subscribers, timer.NewIncreasingRoundTimer(), func(int64) { cancel() }, false)
			inst.ValueCh <- instance.ValueWithHash{Hash: nd.hash, Value: nd.mine}
			inst.HashCh <- nd.hash
			go tr.ProcessReceives(ctx, nd.c.getRecvBuffer(duty))
			qt := qbft.Transport[core.Duty, [32]byte, proto.Message]{Broadcast: tr.Broadcast, Receive: tr.RecvBuffer()}
			wg.Add(1)
			go func(i int) {
				defer wg.Done()
				defer cancel()
				err := qbft.Run(ctx, def, qt, duty, int64(i), inst.HashCh, inst.VerifyCh)
				if err != nil && !isContextErr(err) {
					net.mu.Lock()
					runErrs = append(runErrs, err)
					net.mu.Unlock()
				}
			}(i)
		}
		wg.Wait()
		stop()
		synctest.Wait()
	})
	res.Exact = true
	var decided *pbv1.UnsignedDataSet
	for i, nd := range net.nodes {
		res.Calls += len(nd.got)
		if len(nd.got) != 1 {
			res.Exact = false
			res.Detail += fmt.Sprintf("node %d: %d deliveries; ", i, len(nd.got))
			continue
		}
		var match *pbv1.UnsignedDataSet
		for _, p := range proposals {
			if vSetEqual(t, nd.got[0], p) {
				match = p
			}
		}
		if match == nil || (decided != nil && !proto.Equal(decided, match)) {
			res.Exact = false
			res.Detail += fmt.Sprintf("node %d: delivered data is not the proposed data whose hash was decided; ", i)
		}
		if match != nil && decided == nil {
			decided = match
		}
	}
	for _, e := range runErrs {
		res.Detail += "run error: " + e.Error() + "; "
	}
	res.Detail += fmt.Sprintf("injected=%v accepted=%v", net.injected, net.accepted)
	if net.accepted["field"]+net.accepted["value-byte"]+net.accepted["genuine-rejected"] > 0 {
		res.Exact = false
		res.HandleErr = fmt.Sprintf("tampered copies accepted / genuine rejected: %v", net.accepted)
	}
	return res
}
