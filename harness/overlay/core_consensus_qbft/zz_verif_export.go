//go:build verif

// Exported test hooks for the construction check (harness/overlay/core_consensus/zz_verif_ctor_test.go, package
// consensus): mapped into /repo/core/consensus/qbft with `go test -overlay` and only compiled with -tags verif.
// Nothing is written to /repo.
package qbft

import (
	"context"

	k1 "github.com/decred/dcrd/dcrec/secp256k1/v4"
	"google.golang.org/protobuf/proto"
	"google.golang.org/protobuf/types/known/anypb"

	"github.com/obolnetwork/charon/core"
	"github.com/obolnetwork/charon/core/consensus/timer"
	pbv1 "github.com/obolnetwork/charon/core/corepb/v1"
	"github.com/obolnetwork/charon/core/qbft"
)

// VerifHandle calls the receive handler.
func (c *Consensus) VerifHandle(ctx context.Context, msg *pbv1.QBFTConsensusMsg) error {
	_, _, err := c.handle(ctx, "", msg)
	return err
}

// VerifShape reports what the component was built with: number of peers, size of the index->key table, its index set,
// and Nodes/Quorum/Faulty of the definition runInstance would build.
func (c *Consensus) VerifShape() (peers int, keyIdx []int64, keys map[int64][]byte, nodes, quorum, faulty int) {
	keys = map[int64][]byte{}
	for i, k := range c.pubkeys {
		keyIdx = append(keyIdx, i)
		keys[i] = k.SerializeCompressed()
	}
	def := newDefinition(len(c.peers), c.subscribers, timer.NewIncreasingRoundTimer(), func(int64) {}, c.compareAttestations)
	return len(c.peers), keyIdx, keys, def.Nodes, def.Quorum(), def.Faulty()
}

// VerifCommit builds, with the real createMsg/signMsg, a COMMIT for `value` claiming source `peerIdx`, signed with `key`.
func VerifCommit(key *k1.PrivateKey, duty core.Duty, peerIdx int64, round int64, value proto.Message) (*pbv1.QBFTConsensusMsg, error) {
	hash, err := hashProto(value)
	if err != nil {
		return nil, err
	}
	a, err := anypb.New(value)
	if err != nil {
		return nil, err
	}
	m, err := createMsg(qbft.MsgCommit, duty, peerIdx, round, hash, 0, [32]byte{}, map[[32]byte]*anypb.Any{hash: a}, nil, key)
	if err != nil {
		return nil, err
	}
	return m.ToConsensusMsg(), nil
}
