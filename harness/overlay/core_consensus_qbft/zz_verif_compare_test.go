//go:build verif

// S1 tie for C02 (hypothesis trace_cmp_fun of Properties/C02_cmp.v): drives the wrapper's REAL
// Definition.Compare callback (newDefinition(...).Compare / attestationChecker) the way
// core/qbft.Run does -- compare()/awaitCompare() of core/qbft/qbft.go are replicated verbatim below
// because they are unexported in another package: buffered returnErrCh/returnProtoCh, a cancellable
// child context, the round timer channel, the caller keeping the latest local value -- for one
// process with a FIXED local attestation data set and many proposed values, repeatedly, in
// different rounds and orders, and records (local-input id, proposed value hash, verdict).
// Self-contained (does not use the other zz_verif files). Mapped in with `go test -overlay`.
package qbft

import (
	"context"
	"encoding/json"
	"math/big"
	"math/rand"
	"os"
	"path/filepath"
	"sort"
	"strconv"
	"testing"
	"testing/synctest"
	"time"

	"google.golang.org/protobuf/proto"
	"google.golang.org/protobuf/types/known/anypb"

	"github.com/obolnetwork/charon/core"
	"github.com/obolnetwork/charon/core/consensus/timer"
	pbv1 "github.com/obolnetwork/charon/core/corepb/v1"
	"github.com/obolnetwork/charon/core/qbft"
	"github.com/obolnetwork/charon/testutil"
)

type vcEntry struct {
	Local   int    `json:"local"`   // id of the member's (fixed) local input / configuration
	Session int    `json:"session"` // one emulated process
	Seq     int    `json:"seq"`     // position in the session
	Round   int64  `json:"round"`
	Class   string `json:"class"`  // how the proposed value relates to the local one
	AnyID   int    `json:"any_id"` // identity of the attached Any (type URL + bytes)
	TypeURL string `json:"type_url"`
	Hash    string `json:"hash"` // value hash as a decimal number
	Verdict string `json:"verdict"`
	Timing  string `json:"timing"`
	Err     string `json:"err"`
}

type vcOut struct {
	Seed    int64             `json:"seed"`
	Entries []vcEntry         `json:"entries"`
	Locals  map[string]string `json:"locals"`
	Skipped []string          `json:"skipped"` // proposed values that can not reach Compare (handle rejects them)
}

type vcValue struct {
	class string
	any   *anypb.Any
	id    int
}

type vcSession struct {
	id       int
	local    int
	def      qbft.Definition[core.Duty, [32]byte, proto.Message]
	duty     core.Duty
	localVal proto.Message // what Propose put on VerifyCh (nil: never)
	inputCh  chan proto.Message
	input    proto.Message // qbft.Run's inputValueSource
	provided bool
	seq      int
}

// vcCompare = core/qbft.compare + awaitCompare.
func vcCompare(ctx context.Context, d qbft.Definition[core.Duty, [32]byte, proto.Message], msg qbft.Msg[core.Duty, [32]byte, proto.Message],
	inputValueSourceCh <-chan proto.Message, inputValueSource proto.Message, timerChan <-chan time.Time,
) (proto.Message, string, string) {
	compareErr := make(chan error, 1)
	compareValue := make(chan proto.Message, 1)
	ctxCompare, cancel := context.WithCancel(ctx)
	defer cancel()
	go d.Compare(ctxCompare, msg, inputValueSourceCh, inputValueSource, compareErr, compareValue)
	drainValue := func() proto.Message {
		select {
		case v := <-compareValue:
			return v
		default:
			return inputValueSource
		}
	}
	for {
		select {
		case err := <-compareErr:
			inputValueSource = drainValue()
			if err != nil {
				return inputValueSource, "CmpFail", err.Error()
			}
			return inputValueSource, "CmpOk", ""
		case inputValueSource = <-compareValue:
		case <-timerChan:
			return drainValue(), "CmpTimeout", ""
		}
	}
}

func vcAtt(t *testing.T, r *rand.Rand) core.AttestationData {
	t.Helper()
	return testutil.RandomCoreAttestationDataSeed(t, r)
}

func vcSet(t *testing.T, m map[core.PubKey]core.AttestationData) *pbv1.UnsignedDataSet {
	t.Helper()
	set := core.UnsignedDataSet{}
	for k, v := range m {
		set[k] = v
	}
	pb, err := core.UnsignedDataSetToProto(set)
	if err != nil {
		t.Fatal(err)
	}
	return pb
}

func vcDet(m proto.Message) []byte {
	b, err := proto.MarshalOptions{Deterministic: true}.Marshal(m)
	if err != nil {
		panic(err)
	}
	return b
}

func vcAny(m proto.Message) *anypb.Any {
	return &anypb.Any{TypeUrl: "type.googleapis.com/" + string(m.ProtoReflect().Descriptor().FullName()), Value: vcDet(m)}
}

func TestVerifCompare(t *testing.T) {
	seed := int64(1)
	if s := os.Getenv("VERIF_SEED"); s != "" {
		if v, err := strconv.ParseInt(s, 10, 64); err == nil {
			seed = v
		}
	}
	thorough := os.Getenv("VERIF_TIER") == "thorough"
	r := rand.New(rand.NewSource(seed)) //nolint:gosec
	out := vcOut{Seed: seed, Locals: map[string]string{}}

	// the member's own data: three validators
	var pks []core.PubKey
	for i := 0; i < 5; i++ {
		pks = append(pks, testutil.RandomCorePubKeySeed(t, r))
	}
	base := map[core.PubKey]core.AttestationData{pks[0]: vcAtt(t, r), pks[1]: vcAtt(t, r), pks[2]: vcAtt(t, r)}
	clone := func(m map[core.PubKey]core.AttestationData) map[core.PubKey]core.AttestationData {
		c := map[core.PubKey]core.AttestationData{}
		for k, v := range m {
			d := v
			src, tgt := *v.Data.Source, *v.Data.Target
			d.Data.Source, d.Data.Target = &src, &tgt
			c[k] = d
		}
		return c
	}
	mut := func(f func(m map[core.PubKey]core.AttestationData)) *pbv1.UnsignedDataSet {
		c := clone(base)
		f(c)
		return vcSet(t, c)
	}
	with := func(m map[core.PubKey]core.AttestationData, k core.PubKey, f func(d *core.AttestationData)) {
		d := m[k]
		f(&d)
		m[k] = d
	}
	local0 := vcSet(t, base)
	local1 := mut(func(m map[core.PubKey]core.AttestationData) {
		with(m, pks[0], func(d *core.AttestationData) { d.Data.Source.Epoch++ })
	})

	anyID := map[string]int{}
	mkv := func(class string, a *anypb.Any) vcValue {
		k := a.GetTypeUrl() + "\x00" + string(a.GetValue())
		if _, ok := anyID[k]; !ok {
			anyID[k] = len(anyID) + 1
		}
		return vcValue{class: class, any: a, id: anyID[k]}
	}
	var values []vcValue
	add := func(class string, pb proto.Message) { values = append(values, mkv(class, vcAny(pb))) }
	add("equal", local0)
	{ // the same message, map entries in descending key order (valid non-canonical encoding, same hash)
		var ks []string
		for k := range local0.GetSet() {
			ks = append(ks, k)
		}
		sort.Sort(sort.Reverse(sort.StringSlice(ks)))
		var b []byte
		for _, k := range ks {
			b = append(b, vcDet(&pbv1.UnsignedDataSet{Set: map[string][]byte{k: local0.GetSet()[k]}})...)
		}
		values = append(values, mkv("equal-noncanonical-encoding", &anypb.Any{TypeUrl: vcAny(local0).GetTypeUrl(), Value: b}))
	}
	type M = map[core.PubKey]core.AttestationData
	add("head-differs", mut(func(m M) { with(m, pks[0], func(d *core.AttestationData) { d.Data.BeaconBlockRoot[0] ^= 1 }) }))
	add("slot-differs", mut(func(m M) { with(m, pks[1], func(d *core.AttestationData) { d.Data.Slot++ }) }))
	add("index-differs", mut(func(m M) { with(m, pks[2], func(d *core.AttestationData) { d.Data.Index++ }) }))
	add("source-epoch-differs", mut(func(m M) { with(m, pks[0], func(d *core.AttestationData) { d.Data.Source.Epoch++ }) }))
	add("source-root-differs", mut(func(m M) { with(m, pks[1], func(d *core.AttestationData) { d.Data.Source.Root[5] ^= 2 }) }))
	add("target-epoch-differs", mut(func(m M) { with(m, pks[2], func(d *core.AttestationData) { d.Data.Target.Epoch += 3 }) }))
	add("target-root-differs", mut(func(m M) { with(m, pks[0], func(d *core.AttestationData) { d.Data.Target.Root[31] ^= 0x80 }) }))
	add("all-validators-differ", mut(func(m M) {
		for _, k := range pks[:3] {
			with(m, k, func(d *core.AttestationData) { d.Data.Target.Epoch++; d.Data.Source.Epoch++ })
		}
	}))
	add("subset-1", mut(func(m M) { delete(m, pks[1]); delete(m, pks[2]) }))
	add("subset-2", mut(func(m M) { delete(m, pks[2]) }))
	add("subset-with-mismatch", mut(func(m M) {
		delete(m, pks[2])
		with(m, pks[0], func(d *core.AttestationData) { d.Data.Target.Epoch++ })
	}))
	add("superset", mut(func(m M) { m[pks[3]] = vcAtt(t, r) }))
	add("superset-mismatch-on-known", mut(func(m M) {
		m[pks[3]] = vcAtt(t, r)
		with(m, pks[1], func(d *core.AttestationData) { d.Data.Source.Root[0] ^= 1 })
	}))
	add("disjoint", vcSet(t, M{pks[3]: vcAtt(t, r), pks[4]: vcAtt(t, r)}))
	add("garbage-entry", &pbv1.UnsignedDataSet{Set: map[string][]byte{string(pks[0]): []byte("not json")}})
	add("incomplete-entry", &pbv1.UnsignedDataSet{Set: map[string][]byte{string(pks[0]): []byte(`{"attestation_data":null,"attestation_duty":null}`)}})
	add("other-proto-type:PriorityResult", &pbv1.PriorityResult{Topics: []*pbv1.PriorityTopicResult{{Topic: &anypb.Any{TypeUrl: "x", Value: []byte{1}}}}})
	add("other-proto-type:Duty", &pbv1.Duty{Slot: 9, Type: 2})
	for _, tu := range []string{"type.googleapis.com/google.protobuf.Empty", "type.googleapis.com/core.corepb.v1.QBFTMsg", "type.googleapis.com/core.corepb.v1.ParSignedDataSet"} {
		values = append(values, mkv("retyped-equal", &anypb.Any{TypeUrl: tu, Value: vcDet(local0)}))
		values = append(values, mkv("retyped-mismatch", &anypb.Any{TypeUrl: tu, Value: values[5].any.GetValue()}))
	}
	values = append(values, mkv("retyped-equal:host-only", &anypb.Any{TypeUrl: "example.org/core.corepb.v1.UnsignedDataSet", Value: vcDet(local0)}))
	values = append(values, mkv("undecodable", &anypb.Any{TypeUrl: vcAny(local0).GetTypeUrl(), Value: []byte{0xff, 0xff, 0x01}}))
	values = append(values, mkv("unknown-type", &anypb.Any{TypeUrl: "type.googleapis.com/verif.Unknown", Value: []byte{1}}))

	// messages: PRE-PREPARE for the value's hash, values map built by the real valuesByHash
	mkMsg := func(v vcValue, duty core.Duty, round int64) (Msg, [32]byte, bool) {
		vm, err := valuesByHash([]*anypb.Any{v.any})
		if err != nil || len(vm) != 1 {
			return Msg{}, [32]byte{}, false
		}
		var hash [32]byte
		for h := range vm {
			hash = h
		}
		if hash == [32]byte{} {
			return Msg{}, hash, false
		}
		m, err := newMsg(&pbv1.QBFTMsg{Type: int64(qbft.MsgPrePrepare), Duty: core.DutyToProto(duty), PeerIdx: round % 4, Round: round, ValueHash: hash[:]}, nil, vm)
		if err != nil {
			return Msg{}, hash, false
		}
		return m, hash, true
	}

	attDuty := core.Duty{Slot: 31, Type: core.DutyAttester}
	skipped := map[string]bool{}
	var sessions []*vcSession
	newSession := func(local int, desc string, feature bool, duty core.Duty, localVal proto.Message) *vcSession {
		out.Locals[strconv.Itoa(local)] = desc
		s := &vcSession{id: len(sessions), local: local, duty: duty, localVal: localVal, inputCh: make(chan proto.Message, 1)}
		s.def = newDefinition(4, func() []subscriber { return nil }, timer.NewIncreasingRoundTimer(), func(int64) {}, feature)
		sessions = append(sessions, s)
		return s
	}
	consult := func(s *vcSession, v vcValue, round int64, timing string) {
		msg, hash, ok := mkMsg(v, s.duty, round)
		if !ok {
			if !skipped[v.class] {
				skipped[v.class] = true
				out.Skipped = append(out.Skipped, v.class)
			}
			return
		}
		timerChan := time.After(750 * time.Millisecond)
		switch timing {
		case "ready":
			if !s.provided && s.localVal != nil {
				s.inputCh <- s.localVal
				s.provided = true
			}
		case "late":
			if !s.provided && s.localVal != nil {
				s.provided = true
				go func() {
					time.Sleep(100 * time.Millisecond)
					s.inputCh <- s.localVal
				}()
			}
		case "never":
		}
		var verdict, errs string
		s.input, verdict, errs = vcCompare(context.Background(), s.def, msg, s.inputCh, s.input, timerChan)
		synctest.Wait()
		if len(errs) > 120 {
			errs = errs[:120]
		}
		out.Entries = append(out.Entries, vcEntry{Local: s.local, Session: s.id, Seq: s.seq, Round: round, Class: v.class, AnyID: v.id,
			TypeURL: v.any.GetTypeUrl(), Hash: new(big.Int).SetBytes(hash[:]).String(), Verdict: verdict, Timing: timing, Err: errs})
		s.seq++
	}
	passes := 2
	if thorough {
		passes = 6
	}
	run := func(s *vcSession, firstTimings []string) {
		round := int64(1)
		for p := 0; p < passes; p++ {
			order := r.Perm(len(values))
			for k, vi := range order {
				timing := "ready"
				if p == 0 && k < len(firstTimings) {
					timing = firstTimings[k]
				}
				consult(s, values[vi], round, timing)
				if r.Intn(3) == 0 {
					round++
				}
				if r.Intn(4) == 0 { // the same value again at once (another round / duplicate proposal)
					consult(s, values[vi], round+1, "ready")
				}
			}
		}
	}
	synctest.Test(t, func(t *testing.T) {
		run(newSession(0, "feature on, attester duty, local data L0", true, attDuty, local0), nil)
		run(newSession(0, "feature on, attester duty, local data L0", true, attDuty, local0), nil) // fresh process, other order
		run(newSession(0, "feature on, attester duty, local data L0", true, attDuty, local0), []string{"late"})
		run(newSession(0, "feature on, attester duty, local data L0", true, attDuty, local0), []string{"never", "never", "never", "late"})
		run(newSession(1, "feature on, attester duty, local data L1 (source epoch of validator 0 differs from L0)", true, attDuty, local1), nil)
		run(newSession(2, "feature on, attester duty, local value is not an UnsignedDataSet", true, attDuty, &pbv1.Duty{Slot: 1, Type: 2}), nil)
		run(newSession(3, "feature on, attester duty, local value never provided", true, attDuty, nil), []string{"never"})
		run(newSession(100, "feature off (default), attester duty, local data L0", false, attDuty, local0), nil)
		for i, typ := range []core.DutyType{core.DutyProposer, core.DutyAggregator, core.DutySyncContribution} {
			run(newSession(200+i, "feature on, unsupported duty type "+typ.String()+", local data L0", true, core.Duty{Slot: 31, Type: typ}, local0), []string{"never"})
		}
	})
	b, err := json.Marshal(out)
	if err != nil {
		t.Fatal(err)
	}
	dir := os.Getenv("VERIF_OUT")
	if dir == "" {
		dir = os.TempDir()
	}
	if err := os.WriteFile(filepath.Join(dir, "compare.json"), b, 0o644); err != nil {
		t.Fatal(err)
	}
}
