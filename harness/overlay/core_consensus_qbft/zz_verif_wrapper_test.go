//go:build verif

// Wrapper lifecycle (property C03 at the component's public behaviour, plus the C05 clause
// "messages for expired duties are rejected"): four REAL Consensus components in one process, driven
// through the public entry points Participate / Propose and the receive handler over the life of
// several duties. The real Broadcast -> p2p.Sender.SendAsync -> p2p.Send path is kept: the libp2p host
// is replaced by a stub whose NewStream returns an in-memory stream; what is written to it is decoded
// and handed to the addressee's real handle. The deadliner is scripted; its expiry goroutine (Start) is
// emulated by calling deleteInstanceIO as Start does. Everything runs inside a synctest bubble.
//
// Monitor: per component and duty the subscribers are called at most once, never with an empty value,
// only with a value some member proposed for that duty; after expiry messages are rejected and nothing
// is delivered. Each (component, duty) also yields a lifecycle label sequence for coq/Flow/InstanceLife.v.
package qbft

import (
	"bytes"
	"context"
	"encoding/binary"
	"encoding/json"
	"fmt"
	"math/rand"
	"os"
	"path/filepath"
	"strings"
	"sync"
	"testing"
	"testing/synctest"
	"time"

	k1 "github.com/decred/dcrd/dcrec/secp256k1/v4"
	"github.com/libp2p/go-libp2p/core/host"
	"github.com/libp2p/go-libp2p/core/network"
	"github.com/libp2p/go-libp2p/core/peer"
	"github.com/libp2p/go-libp2p/core/protocol"
	"google.golang.org/protobuf/proto"
	"google.golang.org/protobuf/types/known/anypb"

	"github.com/obolnetwork/charon/app/log"
	"github.com/obolnetwork/charon/core"
	"github.com/obolnetwork/charon/core/consensus/instance"
	"github.com/obolnetwork/charon/core/consensus/metrics"
	"github.com/obolnetwork/charon/core/consensus/protocols"
	"github.com/obolnetwork/charon/core/consensus/timer"
	pbv1 "github.com/obolnetwork/charon/core/corepb/v1"
	"github.com/obolnetwork/charon/core/qbft"
	"github.com/obolnetwork/charon/p2p"
)

// ---- in-memory libp2p stand-ins ----

type vwStream struct {
	network.Stream
	buf   bytes.Buffer
	proto protocol.ID
	done  func(b []byte)
	once  sync.Once
}

func (s *vwStream) Write(p []byte) (int, error)      { return s.buf.Write(p) }
func (s *vwStream) Close() error                     { s.once.Do(func() { s.done(s.buf.Bytes()) }); return nil }
func (s *vwStream) Reset() error                     { return nil }
func (s *vwStream) SetDeadline(time.Time) error      { return nil }
func (s *vwStream) SetWriteDeadline(time.Time) error { return nil }
func (s *vwStream) SetReadDeadline(time.Time) error  { return nil }
func (s *vwStream) Protocol() protocol.ID            { return s.proto }

type vwHost struct {
	host.Host
	id  peer.ID
	net *vwNet
	idx int
}

func (h *vwHost) ID() peer.ID { return h.id }

func (h *vwHost) NewStream(ctx context.Context, to peer.ID, pids ...protocol.ID) (network.Stream, error) {
	return &vwStream{proto: pids[0], done: func(b []byte) { h.net.arrive(h.idx, to, b) }}, nil
}

// vwTimer wraps the round timer of one runInstance call: the first Timer() call is qbft.Run being entered.
type vwTimer struct {
	timer.RoundTimer
	once    sync.Once
	entered func()
}

func (t *vwTimer) Timer(round int64) (<-chan time.Time, func()) {
	t.once.Do(t.entered)
	return t.RoundTimer.Timer(round)
}

type vwDelivery struct {
	Duty core.Duty
	Set  *pbv1.UnsignedDataSet
	At   int // step counter
}

type vwComp struct {
	idx   int
	c     *Consensus
	dl    *vDeadliner
	mu    sync.Mutex
	deliv []vwDelivery
	life  map[core.Duty][]string // lifecycle labels per duty
	runs  map[core.Duty]int      // qbft.Run entered
	sent  map[core.Duty]int      // frames sent
}

type vwNet struct {
	mu       sync.Mutex
	comps    []*vwComp
	ids      map[peer.ID]int
	captured map[core.Duty][]*pbv1.QBFTConsensusMsg // everything that was sent, per duty
	down     map[int]bool                           // components currently not receiving
	step     int
	ctx      context.Context
	problems []string
}

func (n *vwNet) problem(format string, a ...any) {
	n.mu.Lock()
	defer n.mu.Unlock()
	if len(n.problems) < 20 {
		n.problems = append(n.problems, fmt.Sprintf(format, a...))
	}
}

func (n *vwNet) arrive(from int, to peer.ID, b []byte) {
	l, k := binary.Uvarint(b)
	msg := new(pbv1.QBFTConsensusMsg)
	if k <= 0 || int(l) != len(b)-k || proto.Unmarshal(b[k:], msg) != nil {
		n.problem("undecodable frame from %d", from)
		return
	}
	duty := core.DutyFromProto(msg.GetMsg().GetDuty())
	n.mu.Lock()
	n.captured[duty] = append(n.captured[duty], msg)
	n.comps[from].mu.Lock()
	n.comps[from].sent[duty]++
	n.comps[from].mu.Unlock()
	ti, ok := n.ids[to]
	isDown := n.down[ti]
	n.mu.Unlock()
	if !ok || isDown {
		return
	}
	n.comps[ti].handleMsg(n.ctx, msg)
}

func (c *vwComp) label(d core.Duty, l string) {
	c.mu.Lock()
	defer c.mu.Unlock()
	c.life[d] = append(c.life[d], l)
}

// handleMsg calls the real handle and records the lifecycle label.
func (c *vwComp) handleMsg(ctx context.Context, msg *pbv1.QBFTConsensusMsg) error {
	duty := core.DutyFromProto(msg.GetMsg().GetDuty())
	_, _, err := c.c.handle(ctx, "", proto.Clone(msg))
	switch {
	case err == nil:
		c.label(duty, "LHandle true")
	case strings.Contains(err.Error(), "duty expired or exempt"):
		c.label(duty, "LHandle false")
	}
	return err
}

func vwNewNet(t *testing.T, ctx context.Context, n int) *vwNet {
	t.Helper()
	net := &vwNet{ids: map[peer.ID]int{}, captured: map[core.Duty][]*pbv1.QBFTConsensusMsg{}, down: map[int]bool{}, ctx: ctx}
	var peers []p2p.Peer
	var labels []string
	for i := 0; i < n; i++ {
		id, err := p2p.PeerIDFromKey(vKey(i).PubKey())
		if err != nil {
			t.Fatal(err)
		}
		peers = append(peers, p2p.Peer{ID: id, Index: i, Name: fmt.Sprintf("node%d", i)})
		labels = append(labels, fmt.Sprintf("%d:node%d", i, i))
		net.ids[id] = i
	}
	for i := 0; i < n; i++ {
		comp := &vwComp{idx: i, dl: &vDeadliner{ch: make(chan core.Duty)}, life: map[core.Duty][]string{}, runs: map[core.Duty]int{}, sent: map[core.Duty]int{}}
		base := timer.GetRoundTimerFunc(time.Time{}, 12*time.Second)
		c := &Consensus{
			p2pNode: &vwHost{id: peers[i].ID, net: net, idx: i}, sender: new(p2p.Sender), peers: peers, peerLabels: labels,
			privkey: vKey(i), pubkeys: map[int64]*k1.PublicKey{}, deadliner: comp.dl,
			snifferFunc: func(*pbv1.SniffedConsensusInstance) {}, gaterFunc: func(core.Duty) bool { return true },
			dropFilter: log.Filter(),
			timerFunc: func(d core.Duty) timer.RoundTimer {
				return &vwTimer{RoundTimer: base(d), entered: func() {
					comp.mu.Lock()
					comp.runs[d]++
					comp.life[d] = append(comp.life[d], "LRun")
					comp.mu.Unlock()
				}}
			},
			metrics: metrics.NewConsensusMetrics(protocols.QBFTv2ProtocolID),
		}
		for j := 0; j < n; j++ {
			c.pubkeys[int64(j)] = vKey(j).PubKey()
		}
		c.mutable.instances = make(map[core.Duty]*instance.IO[Msg])
		c.Subscribe(func(_ context.Context, duty core.Duty, set core.UnsignedDataSet) error {
			pb, err := core.UnsignedDataSetToProto(set)
			if err != nil {
				pb = nil
			}
			net.mu.Lock()
			at := net.step
			net.mu.Unlock()
			comp.mu.Lock()
			comp.deliv = append(comp.deliv, vwDelivery{Duty: duty, Set: pb, At: at})
			comp.life[duty] = append(comp.life[duty], "LDecide")
			comp.mu.Unlock()
			return nil
		})
		comp.c = c
		net.comps = append(net.comps, comp)
	}
	return net
}

// ---- scripted driving ----

type vwCall struct {
	Scenario string `json:"scenario"`
	Node     int    `json:"node"`
	Duty     string `json:"duty"`
	Op       string `json:"op"`
	Err      string `json:"err"`
	Returned bool   `json:"returned"`
}

type vwScen struct {
	t        *testing.T
	net      *vwNet
	name     string
	rnd      *rand.Rand
	proposed map[core.Duty][]*pbv1.UnsignedDataSet
	calls    []*vwCall
	expired  map[core.Duty]int // step of expiry
	wg       sync.WaitGroup
}

func (s *vwScen) tick() {
	synctest.Wait()
	s.net.mu.Lock()
	s.net.step++
	s.net.mu.Unlock()
}

func (s *vwScen) running(node int, d core.Duty) bool {
	c := s.net.comps[node].c
	c.mutable.Lock()
	defer c.mutable.Unlock()
	inst, ok := c.mutable.instances[d]
	return ok && inst.Running.Load()
}

func (s *vwScen) startLabel(node int, d core.Duty) {
	comp := s.net.comps[node]
	switch {
	case s.running(node, d):
		comp.label(d, "LStart Joined")
	case hasKey(comp.dl.script, d) && comp.dl.script[d] != core.DeadlineScheduled:
		comp.label(d, "LStart Skipped")
	default:
		comp.label(d, "LStart Started")
	}
}

func hasKey(m map[core.Duty]core.DeadlineStatus, d core.Duty) bool { _, ok := m[d]; return ok }

func (s *vwScen) propose(node int, d core.Duty) {
	set, pb, _ := vAttValue(s.t, s.rnd)
	s.proposed[d] = append(s.proposed[d], pb)
	call := &vwCall{Scenario: s.name, Node: node, Duty: d.String(), Op: "Propose"}
	s.calls = append(s.calls, call)
	comp := s.net.comps[node]
	c := comp.c
	// a second Propose is refused before anything else ("already proposed")
	c.mutable.Lock()
	inst, ok := c.mutable.instances[d]
	already := ok && inst.Proposed.Load()
	c.mutable.Unlock()
	if !already {
		s.startLabel(node, d)
	}
	s.wg.Add(1)
	go func() {
		defer s.wg.Done()
		err := c.Propose(s.net.ctx, d, set)
		s.net.mu.Lock()
		call.Returned = true
		if err != nil {
			call.Err = err.Error()
		}
		s.net.mu.Unlock()
	}()
	s.tick()
}

func (s *vwScen) participate(node int, d core.Duty) {
	call := &vwCall{Scenario: s.name, Node: node, Duty: d.String(), Op: "Participate"}
	s.calls = append(s.calls, call)
	comp := s.net.comps[node]
	c := comp.c
	c.mutable.Lock()
	inst, ok := c.mutable.instances[d]
	already := ok && inst.Participated.Load()
	c.mutable.Unlock()
	if !already {
		s.startLabel(node, d)
	}
	s.wg.Add(1)
	go func() {
		defer s.wg.Done()
		err := c.Participate(s.net.ctx, d)
		s.net.mu.Lock()
		call.Returned = true
		if err != nil {
			call.Err = err.Error()
		}
		s.net.mu.Unlock()
	}()
	s.tick()
}

// replay hands an already seen (or crafted from seen parts) message to a component again.
func (s *vwScen) replay(node int, msg *pbv1.QBFTConsensusMsg) error {
	err := s.net.comps[node].handleMsg(s.net.ctx, msg)
	s.tick()
	return err
}

func (s *vwScen) seen(d core.Duty, typ qbft.MsgType) []*pbv1.QBFTConsensusMsg {
	s.net.mu.Lock()
	defer s.net.mu.Unlock()
	var out []*pbv1.QBFTConsensusMsg
	for _, m := range s.net.captured[d] {
		if qbft.MsgType(m.GetMsg().GetType()) == typ {
			out = append(out, m)
		}
	}
	return out
}

// decidedMsg builds, as a lagging honest peer would, a DECIDED message from a quorum of COMMITs that were
// really sent for the duty (distinct sources, same round and value), signed by member `by`.
func (s *vwScen) decidedMsg(d core.Duty, by int) *pbv1.QBFTConsensusMsg {
	commits := s.seen(d, qbft.MsgCommit)
	bySrc := map[int64]*pbv1.QBFTConsensusMsg{}
	for _, cm := range commits {
		if _, ok := bySrc[cm.GetMsg().GetPeerIdx()]; !ok {
			bySrc[cm.GetMsg().GetPeerIdx()] = cm
		}
	}
	if len(bySrc) < 3 {
		return nil
	}
	var just []*pbv1.QBFTMsg
	var first *pbv1.QBFTConsensusMsg
	for src := int64(0); src < 4 && len(just) < 3; src++ {
		if cm, ok := bySrc[src]; ok {
			if first == nil {
				first = cm
			}
			if string(cm.GetMsg().GetValueHash()) == string(first.GetMsg().GetValueHash()) && cm.GetMsg().GetRound() == first.GetMsg().GetRound() {
				just = append(just, cm.GetMsg())
			}
		}
	}
	if len(just) < 3 {
		return nil
	}
	main, err := signMsg(&pbv1.QBFTMsg{Type: int64(qbft.MsgDecided), Duty: core.DutyToProto(d), PeerIdx: int64(by), Round: first.GetMsg().GetRound(),
		ValueHash: first.GetMsg().GetValueHash(), PreparedValueHash: make([]byte, 32)}, vKey(by))
	if err != nil {
		s.t.Fatal(err)
	}
	return &pbv1.QBFTConsensusMsg{Msg: main, Justification: just, Values: []*anypb.Any{first.GetValues()[0]}}
}

func (s *vwScen) expire(d core.Duty) {
	for _, comp := range s.net.comps {
		if comp.dl.script == nil {
			comp.dl.script = map[core.Duty]core.DeadlineStatus{}
		}
		comp.dl.script[d] = core.DeadlineExpired
		comp.c.deleteInstanceIO(d) // what the goroutine of Start does when the deadliner reports the duty
		comp.label(d, "LExpire")
	}
	s.net.mu.Lock()
	s.expired[d] = s.net.step
	s.net.mu.Unlock()
	s.tick()
}

// expireOn: the deadline passes on ONE component only (clock skew).
func (s *vwScen) expireOn(node int, d core.Duty) {
	comp := s.net.comps[node]
	if comp.dl.script == nil {
		comp.dl.script = map[core.Duty]core.DeadlineStatus{}
	}
	comp.dl.script[d] = core.DeadlineExpired
	comp.c.deleteInstanceIO(d)
	comp.label(d, "LExpire")
	s.tick()
}

// refuse: the deadliner of every component answers `st` (Expired / Exempt) for the duty from now on, without
// reporting it (no instance deletion).
func (s *vwScen) refuse(d core.Duty, st core.DeadlineStatus) {
	for _, comp := range s.net.comps {
		if comp.dl.script == nil {
			comp.dl.script = map[core.Duty]core.DeadlineStatus{}
		}
		comp.dl.script[d] = st
		comp.label(d, "LRefuse")
	}
	s.tick()
}

// sleep lets virtual time pass (round timers fire).
func (s *vwScen) sleep(d time.Duration) {
	time.Sleep(d)
	s.tick()
}

func (s *vwScen) setDown(node int, down bool) {
	s.net.mu.Lock()
	s.net.down[node] = down
	s.net.mu.Unlock()
}

type vwOut struct {
	Seed       int64               `json:"seed"`
	Violations []map[string]any    `json:"violations"`
	Problems   []string            `json:"problems"`
	Calls      []*vwCall           `json:"calls"`
	Life       []map[string]any    `json:"life"` // per (scenario, node, duty): labels
	Stats      map[string]int      `json:"stats"`
	Scenarios  []string            `json:"scenarios"`
	Decisions  map[string][]string `json:"decisions"`
}

func vwRun(t *testing.T, out *vwOut, name string, seed int64, script func(s *vwScen)) {
	t.Helper()
	out.Scenarios = append(out.Scenarios, name)
	synctest.Test(t, func(t *testing.T) {
		ctx, cancel := context.WithCancel(context.Background())
		net := vwNewNet(t, ctx, 4)
		s := &vwScen{t: t, net: net, name: name, rnd: rand.New(rand.NewSource(seed)), proposed: map[core.Duty][]*pbv1.UnsignedDataSet{}, expired: map[core.Duty]int{}} //nolint:gosec
		script(s)
		s.tick()
		time.Sleep(3 * time.Second) // let round timers of still running instances fire a few times
		s.tick()
		cancel()
		s.wg.Wait()
		synctest.Wait()
		// ---- monitor ----
		for _, comp := range net.comps {
			per := map[core.Duty][]vwDelivery{}
			for _, dv := range comp.deliv {
				per[dv.Duty] = append(per[dv.Duty], dv)
			}
			for d, dvs := range per {
				out.Stats["deliveries"] += len(dvs)
				out.Decisions[name] = append(out.Decisions[name], fmt.Sprintf("node%d %s x%d", comp.idx, d, len(dvs)))
				viol := func(key, what string) {
					out.Violations = append(out.Violations, map[string]any{"key": key, "scenario": name, "node": comp.idx, "duty": d.String(), "what": what, "deliveries": len(dvs)})
				}
				if len(dvs) > 1 {
					viol("wrapper:decided-twice", fmt.Sprintf("scenario %q: component %d called its subscribers %d times for duty %s", name, comp.idx, len(dvs), d))
				}
				for _, dv := range dvs {
					if dv.Set == nil || len(dv.Set.GetSet()) == 0 {
						viol("wrapper:empty-value-decided", fmt.Sprintf("scenario %q: component %d delivered an empty value for duty %s", name, comp.idx, d))
						continue
					}
					ok := false
					for _, p := range s.proposed[d] {
						ok = ok || proto.Equal(p, dv.Set)
					}
					if !ok {
						viol("wrapper:decided-value-not-proposed", fmt.Sprintf("scenario %q: component %d delivered for duty %s a value no member proposed", name, comp.idx, d))
					}
					if at, exp := s.expired[d]; exp && dv.At >= at {
						viol("wrapper:decided-after-expiry", fmt.Sprintf("scenario %q: component %d delivered duty %s after its expiry", name, comp.idx, d))
					}
				}
			}
			for d, k := range comp.runs {
				out.Stats["runs"] += k
				if k > 1 {
					out.Violations = append(out.Violations, map[string]any{"key": "wrapper:instance-started-twice", "scenario": name, "node": comp.idx, "duty": d.String(), "what": fmt.Sprintf("scenario %q: component %d entered qbft.Run %d times for duty %s", name, comp.idx, k, d)})
				}
			}
			for d, k := range comp.sent {
				if k > 0 && comp.runs[d] == 0 {
					out.Violations = append(out.Violations, map[string]any{"key": "wrapper:broadcast-without-instance", "scenario": name, "node": comp.idx, "duty": d.String(), "what": fmt.Sprintf("scenario %q: component %d sent %d frames for duty %s without running an instance", name, comp.idx, k, d)})
				}
			}
			for d, ls := range comp.life {
				out.Life = append(out.Life, map[string]any{"scenario": name, "node": comp.idx, "duty": d.String(), "labels": ls})
			}
		}
		for _, c := range s.calls {
			out.Stats["calls"]++
			if !c.Returned {
				out.Problems = append(out.Problems, fmt.Sprintf("scenario %q: %s of node %d for %s never returned", name, c.Op, c.Node, c.Duty))
			}
		}
		out.Calls = append(out.Calls, s.calls...)
		out.Problems = append(out.Problems, net.problems...)
	})
}

func TestVerifWrapper(t *testing.T) {
	seed0 := int64(vEnvInt("VERIF_SEED", 1))
	out := &vwOut{Seed: seed0, Stats: map[string]int{}, Decisions: map[string][]string{}}
	reps := 1
	if os.Getenv("VERIF_TIER") == "thorough" {
		reps = 4
	}
	for rep := 0; rep < reps; rep++ {
		vwScenarios(t, out, seed0+int64(100*rep), rep)
	}
	b, err := json.Marshal(out)
	if err != nil {
		t.Fatal(err)
	}
	dir := os.Getenv("VERIF_OUT")
	if dir == "" {
		dir = os.TempDir()
	}
	if err := os.WriteFile(filepath.Join(dir, "wrapper.json"), b, 0o644); err != nil {
		t.Fatal(err)
	}
}

func vwScenarios(t *testing.T, out *vwOut, seed int64, rep int) {
	t.Helper()
	tag := ""
	if rep > 0 {
		tag = fmt.Sprintf("#%d ", rep)
	}
	slot0 := uint64(100 * rep)
	att := func(slot uint64) core.Duty { return core.Duty{Slot: slot0 + slot, Type: core.DutyAttester} }
	all := func(s *vwScen, d core.Duty, nodes ...int) {
		for _, i := range nodes {
			s.propose(i, d)
		}
	}
	expectErr := func(s *vwScen, err error, want, what string) {
		if err == nil || !strings.Contains(err.Error(), want) {
			out.Violations = append(out.Violations, map[string]any{"key": "wrapper:expired-duty-message-accepted", "scenario": s.name, "what": fmt.Sprintf("scenario %q: %s: handle returned %v, want %q", s.name, what, err, want)})
		}
	}

	vwRun(t, out, tag+"baseline: all four propose", seed, func(s *vwScen) { all(s, att(10), 0, 1, 2, 3) })

	vwRun(t, out, tag+"participate, decide, replayed DECIDED, late propose", seed+1, func(s *vwScen) {
		d := att(11)
		s.participate(0, d)
		all(s, d, 1, 2, 3)
		if dm := s.decidedMsg(d, 3); dm != nil {
			_ = s.replay(0, dm)
			_ = s.replay(0, dm)
		} else {
			s.net.problem("no commit quorum captured")
		}
		s.propose(0, d)
	})

	vwRun(t, out, tag+"propose, decide, replayed COMMIT quorum and PRE-PREPARE, late participate and propose again", seed+2, func(s *vwScen) {
		d := att(12)
		all(s, d, 0, 1, 2, 3)
		for _, m := range s.seen(d, qbft.MsgPrePrepare) {
			_ = s.replay(0, m)
		}
		for _, m := range s.seen(d, qbft.MsgCommit) {
			_ = s.replay(0, m)
			_ = s.replay(1, m)
		}
		s.participate(0, d)
		s.propose(0, d) // "already proposed"
		s.participate(1, d)
	})

	vwRun(t, out, tag+"member down while the others decide; replays; then participate and late propose", seed+3, func(s *vwScen) {
		d := att(13)
		s.setDown(0, true)
		all(s, d, 1, 2, 3)
		s.sleep(3 * time.Second)
		s.setDown(0, false)
		if dm := s.decidedMsg(d, 2); dm != nil {
			s.participate(0, d)
			_ = s.replay(0, dm) // decides through the DECIDED message
			_ = s.replay(0, dm) // replay after the decision
			for _, m := range s.seen(d, qbft.MsgCommit) {
				_ = s.replay(0, m)
			}
		}
		s.propose(0, d)
		s.participate(0, d)
	})

	vwRun(t, out, tag+"messages before the local propose (buffered), then propose", seed+4, func(s *vwScen) {
		d := att(14)
		all(s, d, 1, 2, 3) // node 0 buffers everything
		s.sleep(3 * time.Second)
		s.propose(0, d)
		if dm := s.decidedMsg(d, 1); dm != nil {
			_ = s.replay(0, dm)
		}
		s.participate(0, d)
	})

	vwRun(t, out, tag+"propose twice, participate after propose, participate twice", seed+5, func(s *vwScen) {
		d := att(15)
		s.propose(0, d)
		s.propose(0, d)
		s.participate(0, d)
		s.participate(0, d)
		all(s, d, 1, 2, 3)
		s.participate(2, d)
	})

	vwRun(t, out, tag+"decide, expiry, late messages and late propose", seed+6, func(s *vwScen) {
		d := att(16)
		all(s, d, 1, 2, 3)
		s.participate(0, d)
		s.sleep(3 * time.Second)
		dm := s.decidedMsg(d, 3)
		s.expire(d)
		if dm != nil {
			expectErr(s, s.replay(0, dm), "duty expired or exempt", "DECIDED for an expired duty")
			expectErr(s, s.replay(1, dm), "duty expired or exempt", "DECIDED for an expired duty")
		}
		for _, m := range s.seen(d, qbft.MsgCommit) {
			expectErr(s, s.replay(0, m), "duty expired or exempt", "COMMIT for an expired duty")
		}
		s.propose(0, d)
		s.participate(1, d)
	})

	vwRun(t, out, tag+"expiry before the member ever started; late messages and late propose", seed+7, func(s *vwScen) {
		d := att(17)
		all(s, d, 1, 2, 3) // node 0 only buffers
		s.sleep(3 * time.Second)
		dm := s.decidedMsg(d, 2)
		s.expire(d)
		if dm != nil {
			expectErr(s, s.replay(0, dm), "duty expired or exempt", "DECIDED for an expired duty")
		}
		s.propose(0, d)
	})

	vwRun(t, out, tag+"two duties interleaved with replays across them", seed+8, func(s *vwScen) {
		a, b := att(18), att(19)
		s.participate(0, a)
		s.propose(1, a)
		s.propose(1, b)
		s.propose(2, b)
		s.propose(2, a)
		s.propose(3, a)
		s.propose(3, b)
		s.participate(0, b)
		da, db := s.decidedMsg(a, 1), s.decidedMsg(b, 2)
		if da != nil {
			_ = s.replay(0, da)
		}
		if db != nil {
			_ = s.replay(0, db)
		}
		s.propose(0, b)
		s.propose(0, a)
		if da != nil {
			_ = s.replay(0, da)
		}
	})


	vwRun(t, out, tag+"decide via participate, deadline passes on that member only, late propose there", seed+9, func(s *vwScen) {
		d := att(20)
		s.participate(0, d)
		all(s, d, 1, 2, 3)
		s.sleep(3 * time.Second)
		dm := s.decidedMsg(d, 3)
		s.expireOn(0, d)
		if dm != nil {
			expectErr(s, s.replay(0, dm), "duty expired or exempt", "DECIDED for a duty expired on this member")
		}
		s.propose(0, d) // must be skipped: no second instance
		s.sleep(3 * time.Second)
		s.participate(0, d)
	})

	vwRun(t, out, tag+"deadline passes before any start; late participate then late propose (and the other order on another member)", seed+10, func(s *vwScen) {
		d := att(21)
		all(s, d, 2, 3)
		s.expire(d)
		s.participate(0, d)
		s.propose(0, d)
		s.propose(1, d)
		s.participate(1, d)
		s.sleep(2 * time.Second)
	})

	vwRun(t, out, tag+"deadliner answers Expired without having reported the duty; propose, participate, messages", seed+11, func(s *vwScen) {
		d := att(22)
		all(s, d, 1, 2, 3)
		s.sleep(3 * time.Second)
		dm := s.decidedMsg(d, 2)
		s.refuse(d, core.DeadlineExpired)
		if dm != nil {
			expectErr(s, s.replay(0, dm), "duty expired or exempt", "DECIDED for a refused duty")
		}
		s.propose(0, d)
		s.participate(0, d)
		s.participate(1, d) // already running there
	})

	vwRun(t, out, tag+"exempt duty: propose, participate and messages start nothing", seed+12, func(s *vwScen) {
		d, other := att(23), att(24)
		all(s, other, 0, 1, 2, 3) // to have real messages to re-target is not possible (signed duty): use own duty's traffic only
		s.refuse(d, core.DeadlineExempt)
		s.propose(0, d)
		s.participate(1, d)
		s.participate(0, d)
		s.propose(1, d)
		s.sleep(2 * time.Second)
	})

	vwRun(t, out, tag+"undecided instance (no quorum), expiry, late participate and propose, late messages", seed+13, func(s *vwScen) {
		d := att(25)
		s.propose(0, d)
		s.propose(1, d)
		s.sleep(2 * time.Second)
		rc := s.seen(d, qbft.MsgRoundChange)
		s.expire(d)
		for _, m := range rc {
			expectErr(s, s.replay(2, m), "duty expired or exempt", "ROUND-CHANGE for an expired duty")
		}
		s.participate(0, d)
		s.propose(2, d)
		s.participate(2, d)
		s.sleep(2 * time.Second)
	})
}
