//go:build verif

// C05 correspondence harness, part 1: infrastructure. Mapped into /repo/core/consensus/qbft with
// `go test -overlay` (nothing is written to /repo). It drives the REAL Consensus.handle with
// messages built by the real createMsg/signMsg and real k1 keys, and records every call as a
// label of the Coq model coq/Flow/WireMsg.v (concrete instance coq/Flow/WireMsgCorr.v):
//
//	LH id env req result deadlinerAddCalled buffersAfter
//
// The abstraction of a wire message to a Coq term is generic: the fields the model knows are read
// out; everything else the deterministic serialisation of a part contains (unknown fields at both
// nesting levels, fields a later proto version adds) is interned into c_extra. A signature is
// rendered from the harness' own record of what it signed with which key (Sg k content); bytes it
// did not produce by signing are SgBad. Value decoding/hashing tables are computed independently
// (anypb.UnmarshalNew + deterministic marshal + an own ssz merkle root) and compared with hashProto.
package qbft

import (
	"context"
	"crypto/sha256"
	"encoding/hex"
	"encoding/json"
	"fmt"
	"math/big"
	"math/rand"
	"os"
	"path/filepath"
	"sort"
	"strconv"
	"strings"
	"testing"

	k1 "github.com/decred/dcrd/dcrec/secp256k1/v4"
	"google.golang.org/protobuf/proto"
	"google.golang.org/protobuf/types/known/anypb"

	"github.com/obolnetwork/charon/app/log"
	"github.com/obolnetwork/charon/core"
	"github.com/obolnetwork/charon/core/consensus/instance"
	pbv1 "github.com/obolnetwork/charon/core/corepb/v1"
	"github.com/obolnetwork/charon/core/qbft"
)

// ---------------------------------------------------------------------------------------------
// output

type vMeta struct {
	Case      int    `json:"case"`  // global id of the handle call (= label id)
	Trace     int    `json:"trace"` // trace id
	Index     int    `json:"index"` // index of the label in its trace
	Base      int    `json:"base"`  // case id of the unmutated original (-1: none)
	Class     string `json:"class"`
	Path      string `json:"path"`
	Op        string `json:"op"`
	Expect    string `json:"expect"` // "reject" | "essence" | "model"
	Res       string `json:"res"`    // observed, as a Coq term
	Err       string `json:"err"`
	PartsD    []string          `json:"parts_d"` // digest of the signed content of main part and justifications
	Wins      map[string]string `json:"wins"`    // referenced hash -> "type|digest of the decoded inner message" of the value that wins in the map
	Same      bool   `json:"same"` // proto.Equal to the base
	MsgType   int64  `json:"msg_type"`
	NJust     int    `json:"njust"`
	NVal      int    `json:"nval"`
	WireHex   string `json:"wire_hex,omitempty"`
}

type vTrace struct {
	ID     int      `json:"id"`
	Kind   string   `json:"kind"`
	Nodes  int      `json:"nodes"`
	Labels []string `json:"labels"`
}

type vDecide struct {
	Name      string `json:"name"`
	Kind      string `json:"kind"` // "honest" | "typeurl" | "cluster" | ...
	Calls     int    `json:"calls"`
	WantCalls int    `json:"want_calls"`
	Exact     bool   `json:"exact"` // every delivered payload equals the proposed data whose hash was decided
	HandleErr string `json:"handle_err"`
	Detail    string `json:"detail"`
}

type vOut struct {
	Seed        int64       `json:"seed"`
	Tier        string      `json:"tier"`
	Contents    []string    `json:"contents"`
	Parts       []string    `json:"parts"`
	Dtab        []string    `json:"dtab"`
	Htab        []string    `json:"htab"`
	Traces      []vTrace    `json:"traces"`
	Meta        []vMeta     `json:"meta"`
	ValidMsg    [][2]int64  `json:"valid_msg"`
	ValidDuty   [][2]int64  `json:"valid_duty"`
	Cap         int         `json:"cap"`
	Decide      []vDecide   `json:"decide"`
	Fields      []string    `json:"fields"`
	Unsupported []string    `json:"unsupported"`
	HashDiff    []string    `json:"hash_diff"`
	Stats       map[string]int `json:"stats"`
	TypeURLs    map[string]int `json:"type_urls"`
}

type vInterner struct {
	m    map[string]int
	next int
}

func newInterner(first int) *vInterner { return &vInterner{m: map[string]int{}, next: first} }

func (i *vInterner) id(s string) int {
	if v, ok := i.m[s]; ok {
		return v
	}
	v := i.next
	i.next++
	i.m[s] = v
	return v
}

type vSigRec struct {
	key     int
	content int // index into out.Contents
}

// vH is the harness state shared by all worlds of one run.
type vH struct {
	t        *testing.T
	rng      *rand.Rand
	thorough bool
	out      vOut
	contents *vInterner
	parts    *vInterner
	extras   *vInterner
	turls    *vInterner
	vbytes   *vInterner
	cbytes   *vInterner
	sigs     map[string]vSigRec
	badsigs  *vInterner
	dseen    map[string]bool
	hseen    map[int]bool
	nextCase int
	nextTr   int
	only     int // VERIF_ONLY_TRACE (-1: all)
}

func vEnvInt(name string, def int) int {
	if s := os.Getenv(name); s != "" {
		if v, err := strconv.Atoi(s); err == nil {
			return v
		}
	}
	return def
}

func newVH(t *testing.T) *vH {
	seed := int64(vEnvInt("VERIF_SEED", 1))
	h := &vH{
		t: t, rng: rand.New(rand.NewSource(seed)), thorough: os.Getenv("VERIF_TIER") == "thorough", //nolint:gosec
		contents: newInterner(0), parts: newInterner(0), extras: newInterner(1), turls: newInterner(1),
		vbytes: newInterner(1), cbytes: newInterner(1), sigs: map[string]vSigRec{}, badsigs: newInterner(1),
		dseen: map[string]bool{}, hseen: map[int]bool{}, only: vEnvInt("VERIF_ONLY_TRACE", -1),
	}
	h.out.Seed = seed
	h.out.Tier = os.Getenv("VERIF_TIER")
	h.out.Stats = map[string]int{}
	h.out.Cap = instance.RecvBufferSize
	for v := int64(-3); v <= 40; v++ {
		b := int64(0)
		if qbft.MsgType(v).Valid() {
			b = 1
		}
		h.out.ValidMsg = append(h.out.ValidMsg, [2]int64{v, b})
		b = 0
		if core.DutyType(v).Valid() {
			b = 1
		}
		h.out.ValidDuty = append(h.out.ValidDuty, [2]int64{v, b})
	}
	return h
}

func (h *vH) write(name string) {
	h.out.TypeURLs = h.turls.m
	b, err := json.Marshal(h.out)
	if err != nil {
		h.t.Fatal(err)
	}
	dir := os.Getenv("VERIF_OUT")
	if dir == "" {
		dir = os.TempDir()
	}
	if err := os.WriteFile(filepath.Join(dir, name), b, 0o644); err != nil {
		h.t.Fatal(err)
	}
}

// ---------------------------------------------------------------------------------------------
// abstraction of protos to Coq terms

func vZ(v int64) string {
	if v < 0 {
		return fmt.Sprintf("(%d)", v)
	}
	return strconv.FormatInt(v, 10)
}

func vHf(b []byte) string {
	return fmt.Sprintf("(Hf %d %s)", len(b), new(big.Int).SetBytes(b).String())
}

func vDuty(slot uint64, typ int64) string { return fmt.Sprintf("(D %d %s)", slot, vZ(typ)) }

func vDet(m proto.Message) []byte {
	b, err := proto.MarshalOptions{Deterministic: true}.Marshal(m)
	if err != nil {
		panic(err)
	}
	return b
}

// contentTerm renders everything of the part except the signature; returns the index of the
// interned content.
func (h *vH) contentTerm(m *pbv1.QBFTMsg) int {
	duty := "None"
	if m.GetDuty() != nil {
		duty = "(Some " + vDuty(m.GetDuty().GetSlot(), int64(m.GetDuty().GetType())) + ")"
	}
	// everything else: clear what the model knows, serialise the remainder
	rest, _ := proto.Clone(m).(*pbv1.QBFTMsg)
	rest.Type, rest.PeerIdx, rest.Round, rest.PreparedRound = 0, 0, 0, 0
	rest.Signature, rest.ValueHash, rest.PreparedValueHash = nil, nil, nil
	if rest.Duty != nil {
		rest.Duty.Slot, rest.Duty.Type = 0, 0
		if len(vDet(rest.Duty)) == 0 {
			rest.Duty = nil
		}
	}
	extra := 0
	if rb := vDet(rest); len(rb) > 0 {
		extra = h.extras.id(string(rb))
	}
	term := fmt.Sprintf("C %s %s %s %s %s %s %s %d", vZ(m.GetType()), duty, vZ(m.GetPeerIdx()), vZ(m.GetRound()),
		vHf(m.GetValueHash()), vZ(m.GetPreparedRound()), vHf(m.GetPreparedValueHash()), extra)
	idx := h.contents.id(term)
	if idx == len(h.out.Contents) {
		h.out.Contents = append(h.out.Contents, term)
	}
	return idx
}

// registerSig records that the harness signed this part (as it is now) with key id `key`.
func (h *vH) registerSig(m *pbv1.QBFTMsg, key int) {
	h.sigs[string(m.GetSignature())] = vSigRec{key: key, content: h.contentTerm(m)}
}

func (h *vH) partTerm(m *pbv1.QBFTMsg) string {
	if m == nil {
		return "None"
	}
	c := h.contentTerm(m)
	sig := "None"
	if m.Signature != nil {
		if rec, ok := h.sigs[string(m.Signature)]; ok && len(m.Signature) > 0 {
			sig = fmt.Sprintf("(Some (Sg %d c%d))", rec.key, rec.content)
		} else {
			sig = fmt.Sprintf("(Some (SgBad %d))", h.badsigs.id(string(m.Signature)))
		}
	}
	term := fmt.Sprintf("P c%d %s", c, sig)
	idx := h.parts.id(term)
	if idx == len(h.out.Parts) {
		h.out.Parts = append(h.out.Parts, term)
	}
	return fmt.Sprintf("(Some p%d)", idx)
}

// vSszRoot is an independent implementation of what hashProto computes over the deterministic
// serialisation: chunks of 32 bytes (zero padded), merkle root with zero-subtree padding, no
// length mix-in; at most one chunk: the chunk itself; no bytes: 32 zero bytes.
func vSszRoot(b []byte) [32]byte {
	n := (len(b) + 31) / 32
	if n == 0 {
		return [32]byte{}
	}
	layer := make([][32]byte, n)
	for i := 0; i < n; i++ {
		end := (i + 1) * 32
		if end > len(b) {
			end = len(b)
		}
		copy(layer[i][:], b[i*32:end])
	}
	zh := [32]byte{}
	for len(layer) > 1 {
		if len(layer)%2 == 1 {
			layer = append(layer, zh)
		}
		next := make([][32]byte, len(layer)/2)
		for i := range next {
			next[i] = sha256.Sum256(append(append([]byte{}, layer[2*i][:]...), layer[2*i+1][:]...))
		}
		zh = sha256.Sum256(append(append([]byte{}, zh[:]...), zh[:]...))
		layer = next
	}
	return layer[0]
}

// valueTerm renders an Any and fills the decode / hash tables.
func (h *vH) valueTerm(v *anypb.Any) string {
	if v == nil {
		return "None"
	}
	tu := h.turls.id(v.GetTypeUrl())
	vb := h.vbytes.id(string(v.GetValue()))
	key := fmt.Sprintf("%d/%d", tu, vb)
	if !h.dseen[key] {
		h.dseen[key] = true
		res := "None"
		inner, err := v.UnmarshalNew()
		if err == nil {
			if _, isAny := inner.(*anypb.Any); !isAny {
				canon := vDet(inner)
				cid := h.cbytes.id(string(canon))
				res = fmt.Sprintf("(Some %d%%N)", cid)
				root := vSszRoot(canon)
				if !h.hseen[cid] {
					h.hseen[cid] = true
					h.out.Htab = append(h.out.Htab, fmt.Sprintf("HT %d %s", cid, new(big.Int).SetBytes(root[:]).String()))
				}
				if real, err2 := hashProto(inner); err2 != nil || real != root {
					h.out.HashDiff = append(h.out.HashDiff, fmt.Sprintf("type=%s value=%x hashProto=%x err=%v own=%x", v.GetTypeUrl(), v.GetValue(), real, err2, root))
				}
			}
		}
		h.out.Dtab = append(h.out.Dtab, fmt.Sprintf("DT %d %d %s", tu, vb, res))
	}
	return fmt.Sprintf("(V %d %d)", tu, vb)
}

func (h *vH) wireTerm(req proto.Message) string {
	m, ok := req.(*pbv1.QBFTConsensusMsg)
	if !ok || m == nil {
		return "None"
	}
	var js, vs []string
	for _, j := range m.GetJustification() {
		js = append(js, h.partTerm(j))
	}
	for _, v := range m.GetValues() {
		vs = append(vs, h.valueTerm(v))
	}
	return fmt.Sprintf("(Some (W %s [%s] [%s]))", h.partTerm(m.GetMsg()), strings.Join(js, "; "), strings.Join(vs, "; "))
}

// vEssence describes what an accepted message makes the instance act on: the signed content of
// each of its parts (digests) and, for every referenced hash, the (resolved proto type, decoded
// inner message) of the value that wins in the values map.
func vEssence(req proto.Message) ([]string, map[string]string) {
	m, ok := req.(*pbv1.QBFTConsensusMsg)
	if !ok || m == nil {
		return nil, nil
	}
	dig := func(b []byte) string {
		x := sha256.Sum256(b)
		return hex.EncodeToString(x[:8])
	}
	sigless := func(p *pbv1.QBFTMsg) string {
		if p == nil {
			return "nil"
		}
		c, _ := proto.Clone(p).(*pbv1.QBFTMsg)
		c.Signature = nil
		return dig(vDet(c))
	}
	parts := []string{sigless(m.GetMsg())}
	for _, j := range m.GetJustification() {
		parts = append(parts, sigless(j))
	}
	all := map[string]string{}
	for _, v := range m.GetValues() {
		if v == nil {
			return parts, nil
		}
		inner, err := v.UnmarshalNew()
		if err != nil {
			return parts, nil
		}
		if _, isAny := inner.(*anypb.Any); isAny {
			return parts, nil
		}
		canon := vDet(inner)
		root := vSszRoot(canon)
		all[string(root[:])] = string(inner.ProtoReflect().Descriptor().FullName()) + "|" + dig(canon)
	}
	wins := map[string]string{}
	addRef := func(b []byte) {
		if len(b) == 32 && string(b) != string(make([]byte, 32)) {
			if w, ok := all[string(b)]; ok {
				wins[hex.EncodeToString(b[:8])] = w
			}
		}
	}
	for _, p := range append([]*pbv1.QBFTMsg{m.GetMsg()}, m.GetJustification()...) {
		addRef(p.GetValueHash())
		addRef(p.GetPreparedValueHash())
	}
	return parts, wins
}

// ---------------------------------------------------------------------------------------------
// error classes

func vPartReason(s string) string {
	switch {
	case strings.Contains(s, "invalid consensus message type"):
		return "PType"
	case strings.Contains(s, "invalid consensus message duty type"):
		return "PDutyType"
	case strings.Contains(s, "invalid consensus message prepared round"):
		return "PPrepRound"
	case strings.Contains(s, "invalid consensus message round"):
		return "PRound"
	case strings.Contains(s, "invalid peer index"):
		return "PPeer"
	case strings.Contains(s, "verify consensus message signature"), strings.Contains(s, "invalid consensus message signature"):
		return "PSig"
	case strings.Contains(s, "invalid consensus message"):
		return "PInvalid"
	}
	return ""
}

func vResult(err error) string {
	if err == nil {
		return "Accept"
	}
	s := err.Error()
	switch {
	case strings.HasPrefix(s, "invalid justification"):
		if p := vPartReason(s); p != "" {
			return "(Reject (RJust " + p + "))"
		}
	case strings.Contains(s, "too many justifications"):
		return "(Reject RTooManyJust)"
	case strings.Contains(s, "too many values"):
		return "(Reject RTooManyValues)"
	case strings.Contains(s, "receive cancelled during justification verification"):
		return "(Reject RCtxJust)"
	case strings.Contains(s, "qbft justification duty differs from message duty"):
		return "(Reject RJustDuty)"
	case strings.Contains(s, "unmarshal any"), strings.Contains(s, "cannot hash any proto"), strings.Contains(s, "marshal proto"):
		return "(Reject RValues)"
	case strings.Contains(s, "prepared value hash not found in values"):
		return "(Reject RPvMissing)"
	case strings.Contains(s, "value hash not found in values"):
		return "(Reject RValueMissing)"
	case strings.Contains(s, "receive cancelled during verification"):
		return "(Reject RCtx)"
	case strings.Contains(s, "duty expired or exempt"):
		return "(Reject RDeadline)"
	case strings.Contains(s, "timeout enqueuing receive buffer"):
		return "(Reject REnqueue)"
	case s == "invalid duty":
		return "(Reject RGater)"
	default:
		if p := vPartReason(s); p != "" {
			return "(Reject (RMain " + p + "))"
		}
	}
	return "UNKNOWN"
}

// ---------------------------------------------------------------------------------------------
// scripted collaborators

type vDeadliner struct {
	script map[core.Duty]core.DeadlineStatus
	calls  int
	ch     chan core.Duty
	inner  core.Deadliner // when set: a REAL deadliner answers (calls are still counted)
}

func (d *vDeadliner) Add(duty core.Duty) core.DeadlineStatus {
	d.calls++
	if d.inner != nil {
		return d.inner.Add(duty)
	}
	if s, ok := d.script[duty]; ok {
		return s
	}
	return core.DeadlineScheduled
}

func (d *vDeadliner) C() <-chan core.Duty { return d.ch }

// vCtx: Err() is non-nil from the k-th poll on (k < 0: never); Done() is closed only when asked.
type vCtx struct {
	context.Context
	k     int
	polls int
	done  chan struct{}
}

func (c *vCtx) Err() error {
	i := c.polls
	c.polls++
	if c.k >= 0 && i >= c.k {
		return context.Canceled
	}
	return nil
}

func (c *vCtx) Done() <-chan struct{} { return c.done }

type vEnv struct {
	gater     string // Coq term of gdesc
	gaterFunc core.DutyGaterFunc
	dl        map[core.Duty]core.DeadlineStatus
	ctxK      int  // -1: never cancelled
	realDL    core.Deadliner // a real deadliner answers instead of the script ...
	realTerm  string         // ... described to the model as "now sd spe" (ns since genesis, slot duration, slots per epoch)
	doneNow   bool // Done() closed (only used when the buffer is known to be full)
}

func vEnvDefault() vEnv {
	return vEnv{gater: "GAll", gaterFunc: func(core.Duty) bool { return true }, ctxK: -1}
}

// vWorld is one Consensus component with n members.
type vWorld struct {
	h      *vH
	n      int
	keys   []*k1.PrivateKey // n members, then outsiders
	c      *Consensus
	dl     *vDeadliner
	ptrID  map[*pbv1.QBFTMsg]int
	popped map[int]Msg // messages read from the buffers, by case id
	trace  *vTrace
	keep   bool
}

func vKey(i int) *k1.PrivateKey {
	d := sha256.Sum256([]byte(fmt.Sprintf("verif-c05-key-%d", i)))
	return k1.PrivKeyFromBytes(d[:])
}

func vKeyID(i int) int { return 10 + i }

func (h *vH) newWorld(n int, kind string) *vWorld {
	w := &vWorld{h: h, n: n, ptrID: map[*pbv1.QBFTMsg]int{}, popped: map[int]Msg{}}
	for i := 0; i < n+2; i++ {
		w.keys = append(w.keys, vKey(i))
	}
	w.dl = &vDeadliner{ch: make(chan core.Duty)}
	c := &Consensus{deadliner: w.dl, gaterFunc: func(core.Duty) bool { return true }, dropFilter: log.Filter()}
	c.pubkeys = make(map[int64]*k1.PublicKey)
	for i := 0; i < n; i++ {
		c.pubkeys[int64(i)] = w.keys[i].PubKey()
	}
	c.mutable.instances = make(map[core.Duty]*instance.IO[Msg])
	w.c = c
	w.trace = &vTrace{ID: h.nextTr, Kind: kind, Nodes: n}
	h.nextTr++
	w.keep = h.only < 0 || h.only == w.trace.ID
	return w
}

// newTrace closes the current trace and starts a fresh one on a fresh component (same keys).
func (w *vWorld) finish() {
	if w.keep && len(w.trace.Labels) > 0 {
		w.h.out.Traces = append(w.h.out.Traces, *w.trace)
	}
}

func (w *vWorld) keysTerm() string {
	var ks []string
	for i := 0; i < w.n; i++ {
		ks = append(ks, strconv.Itoa(vKeyID(i)))
	}
	return "[" + strings.Join(ks, ";") + "]%N"
}

func vStatus(s core.DeadlineStatus) string {
	switch s {
	case core.DeadlineExpired:
		return "Expired"
	case core.DeadlineExempt:
		return "Exempt"
	}
	return "Scheduled"
}

func vCoreDuty(d core.Duty) string { return vDuty(d.Slot, int64(d.Type)) }

func (w *vWorld) envTerm(e vEnv) string {
	var dls []string
	var ds []core.Duty
	for d := range e.dl {
		ds = append(ds, d)
	}
	sort.Slice(ds, func(i, j int) bool {
		if ds[i].Slot != ds[j].Slot {
			return ds[i].Slot < ds[j].Slot
		}
		return ds[i].Type < ds[j].Type
	})
	for _, d := range ds {
		dls = append(dls, fmt.Sprintf("(%s, %s)", vCoreDuty(d), vStatus(e.dl[d])))
	}
	ctx := "None"
	if e.ctxK >= 0 {
		ctx = fmt.Sprintf("(Some %d)", e.ctxK)
	}
	if e.realDL != nil {
		return fmt.Sprintf("(mkenv_real %s %s %s %s)", w.keysTerm(), e.gater, e.realTerm, ctx)
	}
	return fmt.Sprintf("(mkenv %s %s [%s] %s)", w.keysTerm(), e.gater, strings.Join(dls, "; "), ctx)
}

// snapshot reads every instance buffer (and puts the messages back in order).
func (w *vWorld) snapshot() string {
	var ds []core.Duty
	for d := range w.c.mutable.instances {
		ds = append(ds, d)
	}
	sort.Slice(ds, func(i, j int) bool {
		if ds[i].Slot != ds[j].Slot {
			return ds[i].Slot < ds[j].Slot
		}
		return ds[i].Type < ds[j].Type
	})
	var ents []string
	for _, d := range ds {
		ch := w.c.mutable.instances[d].RecvBuffer
		var ms []Msg
		for len(ch) > 0 {
			ms = append(ms, <-ch)
		}
		var ids []string
		for _, m := range ms {
			id, ok := w.ptrID[m.msg]
			if !ok {
				id = 999999999 // a message the harness never passed to handle
			}
			ids = append(ids, strconv.Itoa(id))
			ch <- m
		}
		ents = append(ents, fmt.Sprintf("(%s, [%s]%%N)", vCoreDuty(d), strings.Join(ids, ";")))
	}
	return "[" + strings.Join(ents, "; ") + "]"
}

func (w *vWorld) bufLen(d core.Duty) int {
	if inst, ok := w.c.mutable.instances[d]; ok {
		return len(inst.RecvBuffer)
	}
	return 0
}

type vCase struct {
	base   int
	class  string
	path   string
	op     string
	expect string
	orig   proto.Message // the unmutated original (for Same), may be nil
}

// call runs the real handle on (a clone of) req and records the label. Returns the case id and
// whether the message was accepted.
func (w *vWorld) call(e vEnv, req proto.Message, cs vCase) (int, bool) {
	h := w.h
	id := h.nextCase
	h.nextCase++
	var reqC proto.Message
	if req != nil {
		if m, ok := req.(*pbv1.QBFTConsensusMsg); ok && m == nil {
			reqC = m
		} else {
			reqC = proto.Clone(req)
			// proto.Clone turns nil elements of repeated message fields into empty messages; keep them nil
			if mc, ok2 := reqC.(*pbv1.QBFTConsensusMsg); ok2 {
				for i, j := range m.GetJustification() {
					if j == nil {
						mc.Justification[i] = nil
					}
				}
				for i, v := range m.GetValues() {
					if v == nil {
						mc.Values[i] = nil
					}
				}
			}
		}
	}
	if m, ok := reqC.(*pbv1.QBFTConsensusMsg); ok && m != nil && m.GetMsg() != nil {
		w.ptrID[m.GetMsg()] = id
	}
	w.c.gaterFunc = e.gaterFunc
	w.dl.script = e.dl
	w.dl.inner = e.realDL
	callsBefore := w.dl.calls
	ctx := &vCtx{Context: context.Background(), k: e.ctxK}
	if e.doneNow {
		ctx.done = make(chan struct{})
		close(ctx.done)
	}
	_, _, err := w.c.handle(ctx, "", reqC)
	res := vResult(err)
	dlCalled := "false"
	if w.dl.calls > callsBefore {
		dlCalled = "true"
	}
	if !w.keep {
		return id, err == nil
	}
	label := fmt.Sprintf("LH %d %s %s %s %s %s", id, w.envTerm(e), h.wireTerm(reqC), res, dlCalled, w.snapshot())
	meta := vMeta{Case: id, Trace: w.trace.ID, Index: len(w.trace.Labels), Base: cs.base, Class: cs.class, Path: cs.path,
		Op: cs.op, Expect: cs.expect, Res: res}
	if err != nil {
		meta.Err = err.Error()
		if len(meta.Err) > 160 {
			meta.Err = meta.Err[:160]
		}
	}
	meta.PartsD, meta.Wins = vEssence(reqC)
	if cs.orig != nil && reqC != nil {
		meta.Same = proto.Equal(cs.orig, reqC)
	}
	if m, ok := reqC.(*pbv1.QBFTConsensusMsg); ok && m != nil {
		meta.MsgType = m.GetMsg().GetType()
		meta.NJust = len(m.GetJustification())
		meta.NVal = len(m.GetValues())
		if err == nil && cs.base >= 0 {
			if b, e2 := proto.Marshal(m); e2 == nil && len(b) < 4096 {
				meta.WireHex = hex.EncodeToString(b)
			}
		}
	}
	w.trace.Labels = append(w.trace.Labels, label)
	h.out.Meta = append(h.out.Meta, meta)
	h.out.Stats["class:"+cs.class]++
	h.out.Stats["res:"+res]++
	return id, err == nil
}

// drain reads k messages from d's buffer as the transport would (LDr label).
func (w *vWorld) drain(d core.Duty, k int) {
	inst, ok := w.c.mutable.instances[d]
	var ids []string
	if ok {
		for i := 0; i < k && len(inst.RecvBuffer) > 0; i++ {
			m := <-inst.RecvBuffer
			id, ok2 := w.ptrID[m.msg]
			if !ok2 {
				id = 999999999
			}
			w.popped[id] = m
			ids = append(ids, strconv.Itoa(id))
		}
	}
	if w.keep {
		w.trace.Labels = append(w.trace.Labels, fmt.Sprintf("LDr %s [%s]%%N", vCoreDuty(d), strings.Join(ids, ";")))
	}
}

func (w *vWorld) maybeDrain(d core.Duty) {
	if n := w.bufLen(d); n >= 4 {
		w.drain(d, 1+w.h.rng.Intn(n))
	}
}

func (w *vWorld) deleteInst(d core.Duty) {
	w.c.deleteInstanceIO(d)
	if w.keep {
		w.trace.Labels = append(w.trace.Labels, "LDe "+vCoreDuty(d))
	}
}
