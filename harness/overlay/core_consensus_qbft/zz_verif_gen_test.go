//go:build verif

// C05 correspondence harness, part 3: the case generator (TestVerifC05).
package qbft

import (
	"context"
	"fmt"
	"strings"
	"testing"
	"time"

	"github.com/jonboulle/clockwork"
	"google.golang.org/protobuf/proto"
	"google.golang.org/protobuf/reflect/protoreflect"
	"google.golang.org/protobuf/types/known/anypb"

	"github.com/obolnetwork/charon/core"
	pbv1 "github.com/obolnetwork/charon/core/corepb/v1"
	"github.com/obolnetwork/charon/core/qbft"
	"github.com/obolnetwork/charon/testutil/beaconmock"
)

func vClone(m *pbv1.QBFTConsensusMsg) *pbv1.QBFTConsensusMsg {
	c, _ := proto.Clone(m).(*pbv1.QBFTConsensusMsg)
	return c
}

// pools of plausible valid values per (generic) field name, from all bases of the world
func vPools(h *vH, bases []vBase) map[string][]protoreflect.Value {
	pools := map[string][]protoreflect.Value{}
	seen := map[string]bool{}
	for _, b := range bases {
		var leaves, msgs []vLeaf
		vWalk(h, b.wire.ProtoReflect(), nil, "", &leaves, &msgs)
		for _, lf := range leaves {
			parent, ok := vResolveLeaf(b.wire.ProtoReflect(), lf)
			if !ok {
				continue
			}
			v := parent.Get(lf.fd)
			g := vGeneric(lf.name)
			// same kind of field in main part and justifications share a pool
			g = strings.TrimPrefix(strings.TrimPrefix(g, "msg."), "justification[].")
			k := g + "\x00" + vValKey(v)
			if !seen[k] {
				seen[k] = true
				pools[g] = append(pools[g], v)
			}
		}
	}
	return pools
}

func vPoolKey(name string) string {
	g := vGeneric(name)
	return strings.TrimPrefix(strings.TrimPrefix(g, "msg."), "justification[].")
}

func (w *vWorld) sample(p float64) bool { return w.h.thorough || w.h.rng.Float64() < p }

// runBase: one trace = one fresh component; the base message and every alteration of it.
func (h *vH) runBase(n int, bases []vBase, bi int, pools map[string][]protoreflect.Value, other vBase, extraVals []vValue, fieldSeen map[string]bool) {
	b := bases[bi]
	donor := bases[(bi+1)%len(bases)]
	w := h.newWorld(n, "base:"+b.name)
	defer w.finish()
	env := vEnvDefault()
	duty := b.duty

	baseID, ok := w.call(env, b.wire, vCase{base: -1, class: "base", expect: "model"})
	if !ok {
		h.t.Logf("base %s not accepted", b.name)
	}
	cs := func(class, path, op, expect string) vCase {
		return vCase{base: baseID, class: class, path: path, op: op, expect: expect, orig: b.wire}
	}
	do := func(m proto.Message, c vCase) {
		w.call(env, m, c)
		w.maybeDrain(duty)
	}

	var leaves, msgs []vLeaf
	vWalk(h, b.wire.ProtoReflect(), nil, "", &leaves, &msgs)

	// --- every leaf field at both nesting levels, every representative alteration
	for _, lf := range leaves {
		g := vGeneric(lf.name)
		if !fieldSeen[g] {
			fieldSeen[g] = true
			h.out.Fields = append(h.out.Fields, g)
		}
		// quick tier: full coverage of main part, first two justifications and all values; others sampled
		if len(lf.path) > 0 && lf.path[0].num == 2 && lf.path[0].idx >= 2 && !w.sample(0.25) {
			continue
		}
		parent0, _ := vResolveLeaf(b.wire.ProtoReflect(), lf)
		cur := parent0.Get(lf.fd)
		var dv *protoreflect.Value
		if dp, ok := vResolveLeaf(donor.wire.ProtoReflect(), lf); ok {
			x := dp.Get(lf.fd)
			dv = &x
		}
		var extra []string
		if lf.fd.Kind() == protoreflect.StringKind {
			extra = vOtherTypeURLs
		}
		for _, alt := range vAlts(lf.fd, cur, pools[vPoolKey(lf.name)], dv, extra) {
			m := vClone(b.wire)
			parent, _ := vResolveLeaf(m.ProtoReflect(), lf)
			if alt.clr {
				parent.Clear(lf.fd)
			} else {
				parent.Set(lf.fd, alt.val)
			}
			class := "leaf"
			if strings.HasSuffix(lf.name, ".type_url") {
				class = "value-wrap"
			} else if strings.HasSuffix(lf.name, ".signature") {
				class = "leaf-signature"
			}
			do(m, cs(class, lf.name, alt.op, "essence"))

			part := vPartOf(m, lf.path)
			if part == nil || class != "leaf" || alt.clr {
				continue
			}
			if alt.op == "+1" || alt.op == "other-valid-0" || alt.op == "swapped" {
				if pi := part.GetPeerIdx(); pi >= 0 && pi < int64(n) {
					m2 := vClone(m)
					w.resign(vPartOf(m2, lf.path), int(pi))
					do(m2, cs("leaf+resign-right", lf.name, alt.op, "model"))
				}
				m3 := vClone(m)
				wrong := n // outsider
				if n > 1 && w.h.rng.Intn(2) == 0 {
					wrong = int((part.GetPeerIdx()%int64(n)+int64(n))%int64(n)+1) % n
				}
				w.resign(vPartOf(m3, lf.path), wrong)
				do(m3, cs("leaf+resign-wrong", lf.name, alt.op, "reject"))
			}
		}
	}

	// --- unknown fields / removed sub-messages at every message node
	for _, nd := range msgs {
		m := vClone(b.wire)
		node := vResolveMsg(m.ProtoReflect(), nd.path)
		if node == nil {
			continue
		}
		node.SetUnknown(append(append([]byte{}, node.GetUnknown()...), vUnknownField()...))
		name := nd.name
		if name == "" {
			name = "(top)"
		}
		do(m, cs("unknown-field", name, "add", "essence"))
		if len(nd.path) > 0 && nd.path[len(nd.path)-1].idx < 0 {
			m2 := vClone(b.wire)
			par := vResolveMsg(m2.ProtoReflect(), nd.path[:len(nd.path)-1])
			par.Clear(par.Descriptor().Fields().ByNumber(nd.path[len(nd.path)-1].num))
			do(m2, cs("msg-removed", name, "removed", "essence"))
		}
	}

	// --- every byte of every referenced value (sampled at quick)
	for vi, v := range b.wire.GetValues() {
		nb := len(v.GetValue())
		for pos := 0; pos < nb; pos++ {
			if !h.thorough && !(pos < 6 || pos >= nb-3 || w.h.rng.Intn(nb) < 14) {
				continue
			}
			if h.thorough && bi > 2 && !(pos < 8 || pos >= nb-4 || w.h.rng.Intn(nb) < 40) {
				continue
			}
			m := vClone(b.wire)
			m.Values[vi].Value[pos] ^= byte(1) << uint(w.h.rng.Intn(8))
			do(m, cs("value-byte", fmt.Sprintf("values[%d].value", vi), fmt.Sprintf("flip@%d", pos), "essence"))
		}
	}

	// --- list level: justifications
	nj := len(b.wire.GetJustification())
	for i := 0; i < nj; i++ {
		m := vClone(b.wire)
		m.Justification = append(m.Justification[:i:i], m.Justification[i+1:]...)
		do(m, cs("list-just", fmt.Sprintf("justification[%d]", i), "drop", "model"))
		m = vClone(b.wire)
		m.Justification = append(m.Justification, m.Justification[i])
		do(m, cs("list-just", fmt.Sprintf("justification[%d]", i), "duplicate", "model"))
		m = vClone(b.wire)
		m.Justification[i] = nil
		do(m, cs("list-just", fmt.Sprintf("justification[%d]", i), "nil", "model"))
		// authentic substitution: another authentic part of the same duty
		if dj := donor.wire.GetJustification(); len(dj) > 0 {
			m = vClone(b.wire)
			m.Justification[i] = proto.Clone(dj[i%len(dj)]).(*pbv1.QBFTMsg)
			do(m, cs("list-just", fmt.Sprintf("justification[%d]", i), "authentic-substitution", "model"))
		}
		// cross duty: an authentic part signed for another duty
		m = vClone(b.wire)
		m.Justification[i] = proto.Clone(other.wire.GetMsg()).(*pbv1.QBFTMsg)
		do(m, cs("cross-duty", fmt.Sprintf("justification[%d]", i), "other-duty-part", "model"))
	}
	if nj > 1 {
		m := vClone(b.wire)
		for i, j := 0, nj-1; i < j; i, j = i+1, j-1 {
			m.Justification[i], m.Justification[j] = m.Justification[j], m.Justification[i]
		}
		do(m, cs("list-just", "justification", "reverse", "model"))
	}
	{
		// main part of another duty with this message's justifications
		m := vClone(b.wire)
		m.Msg = proto.Clone(other.wire.GetMsg()).(*pbv1.QBFTMsg)
		do(m, cs("cross-duty", "msg", "other-duty-main", "model"))
		m = vClone(b.wire)
		m.Justification = append(m.Justification, proto.Clone(other.wire.GetMsg()).(*pbv1.QBFTMsg))
		do(m, cs("cross-duty", "justification", "append-other-duty", "model"))
	}

	// --- list level: values
	nv := len(b.wire.GetValues())
	for i := 0; i < nv; i++ {
		m := vClone(b.wire)
		m.Values = append(m.Values[:i:i], m.Values[i+1:]...)
		do(m, cs("list-values", fmt.Sprintf("values[%d]", i), "drop", "essence"))
		m = vClone(b.wire)
		m.Values = append(m.Values, m.Values[i])
		do(m, cs("list-values", fmt.Sprintf("values[%d]", i), "duplicate", "essence"))
		m = vClone(b.wire)
		m.Values[i] = nil
		do(m, cs("list-values", fmt.Sprintf("values[%d]", i), "nil", "essence"))
		for ti, tu := range vOtherTypeURLs[:2] {
			// the same bytes under another type, attached after (wins in the map) / before (loses) the original
			re := &anypb.Any{TypeUrl: tu, Value: append([]byte{}, m0Value(b.wire, i)...)}
			m = vClone(b.wire)
			m.Values = append(m.Values, re)
			do(m, cs("value-wrap", fmt.Sprintf("values[%d]", i), fmt.Sprintf("retyped-copy-after-%d", ti), "essence"))
			m = vClone(b.wire)
			m.Values = append([]*anypb.Any{re}, m.Values...)
			do(m, cs("value-wrap", fmt.Sprintf("values[%d]", i), fmt.Sprintf("retyped-copy-before-%d", ti), "essence"))
		}
	}
	if nv > 1 {
		m := vClone(b.wire)
		m.Values[0], m.Values[nv-1] = m.Values[nv-1], m.Values[0]
		do(m, cs("list-values", "values", "reverse", "essence"))
	}
	{
		m := vClone(b.wire)
		m.Values = append(m.Values, extraVals[0].any)
		do(m, cs("list-values", "values", "append-unreferenced", "essence"))
	}

	// --- count limits: exactly at the limit and one over
	for _, over := range []int{0, 1} {
		m := vClone(b.wire)
		for k := 0; len(m.Justification) < 2*n+over; k++ {
			j := &pbv1.QBFTMsg{Type: int64(qbft.MsgPrepare), Duty: core.DutyToProto(duty), PeerIdx: int64(k % n), Round: int64(10 + k)}
			w.resign(j, k%n)
			m.Justification = append(m.Justification, j)
		}
		do(m, cs("limit-just", "justification", fmt.Sprintf("count=2n+%d", over), "model"))
		m = vClone(b.wire)
		for k := 0; len(m.Values) < 2*(len(m.Justification)+1)+over; k++ {
			m.Values = append(m.Values, extraVals[k%len(extraVals)].any)
		}
		do(m, cs("limit-values", "values", fmt.Sprintf("count=2(j+1)+%d", over), "model"))
	}

	// --- signer substitutions without touching the content
	for _, pth := range [][]vStep{{{1, -1}}, {{2, 0}}} {
		pname := "msg"
		if pth[0].num == 2 {
			pname = "justification[0]"
		}
		if vPartOf(b.wire, pth) == nil {
			continue
		}
		m := vClone(b.wire)
		part := vPartOf(m, pth)
		if n > 1 {
			w.resign(part, int(part.GetPeerIdx()+1)%n)
			do(m, cs("cross-signer", pname, "resigned-by-other-member", "reject"))
		}
		m = vClone(b.wire)
		w.resign(vPartOf(m, pth), n+1)
		do(m, cs("cross-signer", pname, "resigned-by-outsider", "reject"))
		for _, idx := range []int64{int64(n), -1, 1 << 40} {
			m = vClone(b.wire)
			part = vPartOf(m, pth)
			part.PeerIdx = idx
			w.resign(part, n) // a validly self-signed message of a non-member
			do(m, cs("peer-index", pname, fmt.Sprintf("peer_idx=%d", idx), "reject"))
		}
	}

	// --- environment: context, gater, deadliner
	for k := 0; k <= nj+1; k++ {
		e := vEnvDefault()
		e.ctxK = k
		w.call(e, b.wire, cs("env-ctx", "", fmt.Sprintf("cancelled-from-poll-%d", k), "model"))
		w.maybeDrain(duty)
	}
	{
		e := vEnvDefault()
		e.gater = fmt.Sprintf("(GDeny [%s])", vCoreDuty(duty))
		e.gaterFunc = func(d core.Duty) bool { return d != duty }
		w.call(e, b.wire, cs("env-gater", "", "deny-this-duty", "model"))
		e = vEnvDefault()
		e.gater = fmt.Sprintf("(GDeny [%s])", vCoreDuty(other.duty))
		e.gaterFunc = func(d core.Duty) bool { return d != other.duty }
		w.call(e, b.wire, cs("env-gater", "", "deny-other-duty", "model"))
		w.maybeDrain(duty)
		for _, st := range []core.DeadlineStatus{core.DeadlineExpired, core.DeadlineExempt} {
			e = vEnvDefault()
			e.dl = map[core.Duty]core.DeadlineStatus{duty: st}
			w.call(e, b.wire, cs("env-deadline", "", vStatus(st), "model"))
		}
		e = vEnvDefault()
		e.dl = map[core.Duty]core.DeadlineStatus{other.duty: core.DeadlineExpired}
		w.call(e, b.wire, cs("env-deadline", "", "other-duty-expired", "model"))
		w.maybeDrain(duty)
	}

	// --- wire bytes: alter the serialised message, decode as the p2p layer does, handle
	raw, err := proto.Marshal(b.wire)
	if err != nil {
		h.t.Fatal(err)
	}
	nraw := 40
	if h.thorough {
		nraw = 250
	}
	for k := 0; k < nraw; k++ {
		x := append([]byte{}, raw...)
		op := ""
		switch w.h.rng.Intn(5) {
		case 0, 1:
			pos := w.h.rng.Intn(len(x))
			x[pos] ^= byte(1) << uint(w.h.rng.Intn(8))
			op = fmt.Sprintf("bitflip@%d", pos)
		case 2:
			pos := w.h.rng.Intn(len(x))
			x[pos] = byte(w.h.rng.Intn(256))
			op = fmt.Sprintf("byte@%d", pos)
		case 3:
			cut := w.h.rng.Intn(len(x))
			x = x[:cut]
			op = fmt.Sprintf("truncate@%d", cut)
		default:
			pos := w.h.rng.Intn(len(x))
			ins := make([]byte, 1+w.h.rng.Intn(3))
			w.h.rng.Read(ins)
			x = append(append(append([]byte{}, x[:pos]...), ins...), x[pos:]...)
			op = fmt.Sprintf("insert@%d", pos)
		}
		dec := new(pbv1.QBFTConsensusMsg)
		if err := proto.Unmarshal(x, dec); err != nil {
			h.out.Stats["raw:undecodable"]++
			continue
		}
		do(dec, cs("raw", "(wire bytes)", op, "essence"))
	}
	if bi%2 == 0 {
		w.deleteInst(duty)
		w.call(env, b.wire, cs("base-again", "", "after-delete", "model"))
	}
}

func m0Value(m *pbv1.QBFTConsensusMsg, i int) []byte { return m.GetValues()[i].GetValue() }

// runRequests: requests that are not well-formed protos of the expected shape, and random bytes.
func (h *vH) runRequests(n int, good vBase) {
	w := h.newWorld(n, "requests")
	defer w.finish()
	env := vEnvDefault()
	c := func(op string) vCase { return vCase{base: -1, class: "req", op: op, expect: "model"} }
	w.call(env, nil, c("nil"))
	w.call(env, (*pbv1.QBFTConsensusMsg)(nil), c("typed-nil"))
	w.call(env, &pbv1.Duty{Slot: 1, Type: 1}, c("other-proto-type"))
	w.call(env, &pbv1.QBFTMsg{}, c("bare-part"))
	w.call(env, &pbv1.QBFTConsensusMsg{}, c("empty"))
	w.call(env, &pbv1.QBFTConsensusMsg{Msg: &pbv1.QBFTMsg{}}, c("no-duty"))
	w.call(env, &pbv1.QBFTConsensusMsg{Msg: &pbv1.QBFTMsg{Duty: &pbv1.Duty{}}}, c("zero-fields"))
	m := vClone(good.wire)
	m.Justification = append(m.Justification, nil)
	w.call(env, m, c("nil-justification"))
	m = vClone(good.wire)
	m.Values = append(m.Values, nil)
	w.call(env, m, c("nil-value"))
	m = vClone(good.wire)
	m.Values = append(m.Values, &anypb.Any{})
	w.call(env, m, c("empty-any"))
	w.call(env, good.wire, c("good"))
	nrand := 300
	if h.thorough {
		nrand = 3000
	}
	for k := 0; k < nrand; k++ {
		x := make([]byte, w.h.rng.Intn(120))
		w.h.rng.Read(x)
		if k%3 == 0 && len(x) > 2 { // bias towards plausible field tags
			x[0] = []byte{0x0a, 0x12, 0x1a}[w.h.rng.Intn(3)]
			x[1] = byte(len(x) - 2)
		}
		dec := new(pbv1.QBFTConsensusMsg)
		if err := proto.Unmarshal(x, dec); err != nil {
			h.out.Stats["random:undecodable"]++
			continue
		}
		w.call(env, dec, vCase{base: -1, class: "random-bytes", op: "random", expect: "reject"})
		w.maybeDrain(good.duty)
	}
}

// randomMsg builds a random wire message field by field (small value ranges around the
// boundaries of every check); parts are signed by a random key about half of the time.
func (w *vWorld) randomMsg(vals []vValue) *pbv1.QBFTConsensusMsg {
	r := w.h.rng
	hashOf := func() []byte {
		switch r.Intn(6) {
		case 0:
			return nil
		case 1:
			return make([]byte, 32)
		case 2:
			x := make([]byte, 31+r.Intn(3))
			r.Read(x)
			return x
		default:
			hh := vals[r.Intn(len(vals))].hash
			return hh[:]
		}
	}
	part := func(duty *pbv1.Duty) *pbv1.QBFTMsg {
		if r.Intn(25) == 0 {
			return nil
		}
		p := &pbv1.QBFTMsg{Type: int64(r.Intn(8) - 1), PeerIdx: int64(r.Intn(w.n+3) - 1), Round: int64(r.Intn(4) - 1),
			PreparedRound: int64(r.Intn(4) - 1), ValueHash: hashOf(), PreparedValueHash: hashOf()}
		if r.Intn(3) > 0 {
			p.Type = int64(1 + r.Intn(5))
			p.Round = int64(1 + r.Intn(3))
			p.PreparedRound = int64(r.Intn(3))
		}
		switch r.Intn(8) {
		case 0:
		case 1:
			p.Duty = &pbv1.Duty{Slot: uint64(r.Intn(3)), Type: int32(r.Intn(17) - 1)}
		default:
			p.Duty = proto.Clone(duty).(*pbv1.Duty)
		}
		switch r.Intn(6) {
		case 0:
		case 1:
			p.Signature = make([]byte, 65)
			r.Read(p.Signature)
		case 2:
			w.resign(p, r.Intn(w.n+2))
		default:
			k := int(p.PeerIdx)
			if k < 0 || k >= w.n {
				k = r.Intn(w.n + 2)
			}
			w.resign(p, k)
		}
		return p
	}
	duty := &pbv1.Duty{Slot: uint64(500 + r.Intn(2)), Type: int32(1 + r.Intn(2))}
	m := &pbv1.QBFTConsensusMsg{}
	if r.Intn(30) > 0 {
		m.Msg = part(duty)
	}
	for k := r.Intn(2*w.n + 3); k > 0 && r.Intn(3) > 0; k-- {
		m.Justification = append(m.Justification, part(duty))
	}
	for k := r.Intn(5); k > 0; k-- {
		switch r.Intn(8) {
		case 0:
			m.Values = append(m.Values, &anypb.Any{TypeUrl: vOtherTypeURLs[r.Intn(len(vOtherTypeURLs))], Value: []byte{byte(r.Intn(256))}})
		default:
			m.Values = append(m.Values, vals[r.Intn(len(vals))].any)
		}
	}
	return m
}

// runRandom: random structured messages on one component (buffers read now and then).
func (h *vH) runRandom(n int) {
	w := h.newWorld(n, "random-structured")
	defer w.finish()
	var vals []vValue
	for k := 0; k < 4; k++ {
		vals = append(vals, w.newValue(k, byte(200+k)))
	}
	cnt := 500
	if h.thorough {
		cnt = 5000
	}
	for k := 0; k < cnt; k++ {
		m := w.randomMsg(vals)
		// through the wire encoding, as the p2p layer would hand it over (nil entries do not survive it)
		var req proto.Message = m
		if k%2 == 0 {
			if b, err := proto.Marshal(m); err == nil {
				dec := new(pbv1.QBFTConsensusMsg)
				if proto.Unmarshal(b, dec) == nil {
					req = dec
				}
			}
		}
		e := vEnvDefault()
		if w.h.rng.Intn(10) == 0 {
			e.ctxK = w.h.rng.Intn(4)
		}
		w.call(e, req, vCase{base: -1, class: "random-structured", op: "random", expect: "model"})
		for _, d := range []core.Duty{{Slot: 500, Type: 1}, {Slot: 500, Type: 2}, {Slot: 501, Type: 1}, {Slot: 501, Type: 2}} {
			w.maybeDrain(d)
		}
	}
}

// runFill: the enqueue is the last step and blocks on a full buffer.
func (h *vH) runFill(n int, good vBase) {
	w := h.newWorld(n, "fill")
	defer w.finish()
	env := vEnvDefault()
	for i := 0; i < h.out.Cap; i++ {
		w.call(env, good.wire, vCase{base: -1, class: "fill", op: "fill", expect: "model"})
	}
	full := vEnvDefault()
	full.doneNow = true
	w.call(full, good.wire, vCase{base: -1, class: "fill", op: "buffer-full", expect: "model"})
	// a bad message while full is still rejected for its own reason
	m := vClone(good.wire)
	m.Msg.Round++
	w.call(full, m, vCase{base: -1, class: "fill", op: "tampered-while-full", expect: "reject"})
	w.drain(good.duty, 1)
	w.call(env, good.wire, vCase{base: -1, class: "fill", op: "after-read", expect: "model"})
	w.call(full, good.wire, vCase{base: -1, class: "fill", op: "buffer-full-again", expect: "model"})
	w.drain(good.duty, 50)
	w.deleteInst(good.duty)
	full2 := vEnvDefault()
	w.call(full2, good.wire, vCase{base: -1, class: "fill", op: "after-delete", expect: "model"})
}

// runInterleaved: several duties on one component, reads and deletions in between.
func (h *vH) runInterleaved(n int, groups [][]vBase) {
	w := h.newWorld(n, "interleaved")
	defer w.finish()
	env := vEnvDefault()
	steps := 150
	if h.thorough {
		steps = 1200
	}
	for k := 0; k < steps; k++ {
		g := groups[w.h.rng.Intn(len(groups))]
		b := g[w.h.rng.Intn(len(g))]
		switch w.h.rng.Intn(10) {
		case 0:
			w.drain(b.duty, 1+w.h.rng.Intn(3))
		case 1:
			if w.h.rng.Intn(4) == 0 {
				w.deleteInst(b.duty)
			}
		case 2:
			m := vClone(b.wire)
			m.Msg.Round += 1
			w.call(env, m, vCase{base: -1, class: "interleaved-tampered", path: "msg.round", op: "+1", expect: "reject"})
		case 3:
			e := vEnvDefault()
			e.dl = map[core.Duty]core.DeadlineStatus{b.duty: core.DeadlineExpired}
			w.call(e, b.wire, vCase{base: -1, class: "interleaved", op: "expired", expect: "model"})
		default:
			w.call(env, b.wire, vCase{base: -1, class: "interleaved", op: "good", expect: "model"})
			if w.bufLen(b.duty) > 90 {
				w.drain(b.duty, 60)
			}
		}
	}
}

// runRealGater: the real core.NewDutyGater in front of handle.
func (h *vH) runRealGater(t *testing.T, n int) {
	// clocks at / after genesis (slot duration 1 s, 4 slots per epoch)
	var after []time.Duration
	for _, curSlot := range []int64{0, 5, 41, 100_000} {
		after = append(after, time.Duration(curSlot)*time.Second+300*time.Millisecond)
	}
	h.runRealGaterAt(t, n, "real-gater", "env-gater-real", time.Second, 4, after)
	// clocks BEFORE genesis (12 s slots, 32 per epoch): the current slot is 0 (epoch 0) until genesis, so exactly the
	// duties of epochs 0..allowed are allowed; an unsigned wrap of the negative slot count would allow everything
	const sd, spe = 12 * time.Second, 32
	h.runRealGaterAt(t, n, "real-gater-pregenesis", "gater-pregenesis-wrap", sd, spe,
		[]time.Duration{-time.Second, -sd, -sd - time.Second, -spe * sd, -365 * 24 * time.Hour})
}

// runRealGaterAt: the REAL core.NewDutyGater and the REAL deadliner (core.NewDutyDeadlineFunc) on one fake clock in
// front of handle, for clocks at the given offsets from genesis, with boundary duty slots.
func (h *vH) runRealGaterAt(t *testing.T, n int, kind, class string, slotDur time.Duration, spe uint64, offsets []time.Duration) {
	const allowed = 2
	genesis := time.Unix(1_700_000_000, 0)
	ctx, cancel := context.WithCancel(context.Background())
	defer cancel()
	bmock, err := beaconmock.New(ctx, beaconmock.WithGenesisTime(genesis),
		beaconmock.WithSlotDuration(slotDur), beaconmock.WithSlotsPerEpoch(int(spe)))
	if err != nil {
		t.Fatal(err)
	}
	deadlineFunc, err := core.NewDutyDeadlineFunc(ctx, bmock)
	if err != nil {
		t.Fatal(err)
	}
	w := h.newWorld(n, kind)
	defer w.finish()
	for _, off := range offsets {
		now := genesis.Add(off)
		clock := clockwork.NewFakeClockAt(now)
		gater, err := core.NewDutyGater(ctx, bmock, core.WithDutyGaterForT(t, clock.Now, allowed))
		if err != nil {
			t.Fatal(err)
		}
		// mathematically: the current slot is floor((now - genesis) / slotDuration), and 0 before genesis
		var curSlot uint64
		if off > 0 {
			curSlot = uint64(off / slotDur)
		}
		curEpoch := curSlot / spe
		e := vEnvDefault()
		e.gater = fmt.Sprintf("(GReal %d %d %d)", curEpoch, spe, allowed)
		e.gaterFunc = gater
		e.realDL = core.NewDeadlinerForT(ctx, t, deadlineFunc, clock)
		e.realTerm = fmt.Sprintf("%s %d %d", vZ(off.Nanoseconds()), slotDur.Nanoseconds(), spe)
		edge := (curEpoch + allowed) * spe
		slots := []uint64{0, curSlot, edge, edge + spe - 1, edge + spe, edge + spe + 1, 1 << 31, 1 << 32, 1 << 40,
			1<<63 - 1, 1 << 63, 1<<63 + curSlot, 1<<63 + curSlot + 1, 1<<63 + edge + spe, 1<<64 - 1, ^uint64(0) - spe + 1, ^uint64(0) / spe}
		if curSlot >= 3*spe { // duties whose deadline has passed
			slots = append(slots, curSlot-1, curSlot-spe, curSlot-spe-1, curSlot-2*spe-1, curSlot-3*spe)
		}
		for _, slot := range slots {
			for _, typ := range []core.DutyType{core.DutyAttester, core.DutyProposer, core.DutyInfoSync, core.DutyExit, core.DutyPrepareAggregator} {
				duty := core.Duty{Slot: slot, Type: typ}
				v := w.newValue(2, byte(slot))
				m := w.mk(qbft.MsgCommit, duty, int(slot%uint64(n)), 1, v.hash, 0, [32]byte{}, nil, v)
				w.call(e, vWire(m), vCase{base: -1, class: class, path: "msg.duty.slot", op: fmt.Sprintf("now=genesis%+v (slot duration %v, %d slots/epoch), duty slot=%d type=%s (real gater, real deadliner)", off, slotDur, spe, slot, typ), expect: "model"})
				w.maybeDrain(duty)
			}
		}
	}
}

func TestVerifC05(t *testing.T) {
	h := newVH(t)
	fieldSeen := map[string]bool{}
	type cfg struct {
		n, kind int
		slot    uint64
		typ     core.DutyType
	}
	cfgs := []cfg{{4, 0, 77, core.DutyAttester}, {1, 2, 42, core.DutyProposer}}
	if h.thorough {
		cfgs = append(cfgs, cfg{3, 1, 9, core.DutyAggregator}, cfg{7, 0, 1 << 33, core.DutySyncContribution}, cfg{4, 1, 5, core.DutyRandao})
	}
	var first []vBase
	var firstN int
	var groups [][]vBase
	for ci, c := range cfgs {
		w0 := h.newWorld(c.n, "builder") // only used to build (never handles)
		w0.keep = false
		duty := core.Duty{Slot: c.slot, Type: c.typ}
		otherDuty := core.Duty{Slot: c.slot + 1, Type: c.typ}
		v1, v2 := w0.newValue(c.kind, byte(10*ci+1)), w0.newValue(c.kind, byte(10*ci+2))
		bases := w0.bases(duty, v1, v2)
		others := w0.bases(otherDuty, v1, v2)
		var extras []vValue
		for k := 0; k < 40; k++ {
			extras = append(extras, w0.newValue(2, byte(100+k)))
		}
		pools := vPools(h, append(append([]vBase{}, bases...), others...))
		for bi := range bases {
			h.runBase(c.n, bases, bi, pools, others[2], extras, fieldSeen)
		}
		if ci == 0 {
			first, firstN = bases, c.n
			groups = [][]vBase{bases, others}
		}
	}
	h.runRequests(firstN, first[2])
	h.runFill(firstN, first[2])
	h.runInterleaved(firstN, groups)
	h.runRandom(firstN)
	h.runRealGater(t, firstN)
	h.runDecide(t)
	h.write("c05.json")
}
