//go:build verif

// In-package probe (mapped into /repo/core/consensus/qbft with `go test -overlay`, nothing is
// written to /repo): tabulates the wrapper's unexported leader function and the Quorum/Faulty/
// FIFOLimit of the Definition the wrapper builds, for comparison with coq/Qbft/Model.v.
package qbft

import (
	"encoding/json"
	"os"
	"path/filepath"
	"testing"

	"github.com/obolnetwork/charon/core"
	"github.com/obolnetwork/charon/core/consensus/timer"
)

func TestVerifLeader(t *testing.T) {
	type out struct {
		Leader    [][4]int64 `json:"leader"` // (slot+type, nodes, round, leader)
		WrapperQF [][2]int   `json:"wrapper_qf"`
		Fifo      int        `json:"fifo"`
	}
	var o out
	slots := []uint64{0, 1, 2, 5, 31, 32, 333}
	for typ := core.DutyType(0); typ.Valid() || typ == 0; typ++ { // every duty type (0 = unknown included)
		for _, slot := range slots {
			for n := 1; n <= 10; n++ {
				for round := int64(1); round <= 12; round++ {
					l := leader(core.Duty{Slot: slot, Type: typ}, round, n)
					o.Leader = append(o.Leader, [4]int64{int64(slot) + int64(typ), int64(n), round, l})
				}
			}
		}
	}
	for n := 1; n <= 200; n++ {
		d := newDefinition(n, func() []subscriber { return nil }, timer.NewIncreasingRoundTimer(), func(int64) {}, false)
		if d.Nodes != n {
			t.Fatalf("Nodes %d != %d", d.Nodes, n)
		}
		o.WrapperQF = append(o.WrapperQF, [2]int{d.Quorum(), d.Faulty()})
		o.Fifo = d.FIFOLimit
		// IsLeader agrees with leader
		for round := int64(1); round <= 6; round++ {
			duty := core.Duty{Slot: uint64(n), Type: core.DutyAttester}
			for p := int64(0); p < int64(n); p++ {
				if d.IsLeader(duty, round, p) != (leader(duty, round, n) == p) {
					t.Fatalf("IsLeader/leader disagree n=%d round=%d p=%d", n, round, p)
				}
			}
		}
	}
	b, err := json.Marshal(o)
	if err != nil {
		t.Fatal(err)
	}
	dir := os.Getenv("VERIF_OUT")
	if dir == "" {
		dir = os.TempDir()
	}
	if err := os.WriteFile(filepath.Join(dir, "qbft_leader.json"), b, 0o644); err != nil {
		t.Fatal(err)
	}
}
