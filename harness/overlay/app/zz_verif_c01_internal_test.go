//go:build verif

// C01, dynamic single-node family through the REAL app.wireCoreWorkflow (kept under /verif, mapped into
// package app with `go test -overlay`; nothing is written to /repo).  One full charon node is built
// exactly as charon builds it (real scheduler, fetcher, consensus controller, dutydb, validatorapi,
// parsigdb, sigagg + verifier, aggsigdb, broadcaster, core.Wire with all its options) against a
// beaconmock; only the partial-signature transport is replaced, through the hook the simnet tests use
// (Config.TestConfig.ParSigExFunc).  The harness plays all key shares of the cluster through that
// transport, after applying the real parsigex.NewEth2Verifier like ParSigEx.handle does.
//
// Families (sync committee messages; clusters whose threshold differs from ceil(2n/3) included):
//
//		exact:     honest partials over one root arrive one by one; the object must reach the beacon node
//		           once k matching partials have arrived (not later), no aggregation of honest matching
//		           partials may fail, and what arrives verifies under the group key.
//		crossfork: one Byzantine share (f >= 1) first sends a partial that IS valid under its public share
//		           for the same duty and block root but claims a slot in an older fork (other signing
//		           domain, same MessageRoot); then k-1 honest partials.  Whatever reaches the beacon node
//		           must verify under the group key.
//
//	  shareidx:  the node is built with the REAL libp2p ParSigEx (no transport hook), so peer partials pass the
//	             verifier wireCoreWorkflow builds from ITS OWN public-share maps; a peer host sends partials with
//	             share index 0, n+1 and -1 carrying the validator's (public) group signature or another share's
//	             signature, then one honest control partial.  An out-of-range index must never reach the store
//	             (observed positively on the store's own metric core_parsigdb_store{peer_idx}), and nothing may be
//	             published with fewer than k honest partials.
//
// Monitor = the C01 monitor on the beacon mock: every submitted object verifies under the validator's
// group public key; one signing root per duty and validator.
package app

import (
	"context"
	"encoding/hex"
	"encoding/json"
	"fmt"
	"math/rand"
	"os"
	"path/filepath"
	"strconv"
	"strings"
	"sync"
	"testing"
	"time"

	"github.com/attestantio/go-eth2-client/spec/altair"
	eth2p0 "github.com/attestantio/go-eth2-client/spec/phase0"
	"github.com/libp2p/go-libp2p"
	"github.com/libp2p/go-libp2p/core/crypto"
	"github.com/libp2p/go-libp2p/core/peer"

	"github.com/obolnetwork/charon/app/eth2wrap"
	"github.com/obolnetwork/charon/app/lifecycle"
	"github.com/obolnetwork/charon/app/promauto"
	"github.com/obolnetwork/charon/app/sse"
	"github.com/obolnetwork/charon/cluster"
	"github.com/obolnetwork/charon/core"
	"github.com/obolnetwork/charon/core/consensus"
	pbv1 "github.com/obolnetwork/charon/core/corepb/v1"
	"github.com/obolnetwork/charon/core/parsigex"
	"github.com/obolnetwork/charon/eth2util/signing"
	"github.com/obolnetwork/charon/p2p"
	"github.com/obolnetwork/charon/tbls"
	"github.com/obolnetwork/charon/tbls/tblsconv"
	"github.com/obolnetwork/charon/testutil"
	"github.com/obolnetwork/charon/testutil/beaconmock"
)

type verifPSX struct {
	mu   sync.Mutex
	subs []func(context.Context, core.Duty, core.ParSignedDataSet) error
}

func (*verifPSX) Broadcast(context.Context, core.Duty, core.ParSignedDataSet) error { return nil }
func (p *verifPSX) Subscribe(fn func(context.Context, core.Duty, core.ParSignedDataSet) error) {
	p.mu.Lock()
	defer p.mu.Unlock()
	p.subs = append(p.subs, fn)
}
func (p *verifPSX) deliver(ctx context.Context, duty core.Duty, set core.ParSignedDataSet) error {
	p.mu.Lock()
	subs := append([]func(context.Context, core.Duty, core.ParSignedDataSet) error(nil), p.subs...)
	p.mu.Unlock()
	var first error
	for _, sub := range subs {
		clone, err := set.Clone()
		if err != nil {
			return err
		}
		if err := sub(ctx, duty, clone); err != nil && first == nil {
			first = err
		}
	}

	return first
}

type verifSSE struct{}

func (verifSSE) SubscribeChainReorgEvent(sse.ChainReorgEventHandlerFunc) {}
func (verifSSE) SubscribeHeadEvent(sse.HeadEventHandlerFunc)             {}

// VerifSpec identifies one run.
type VerifSpec struct {
	ID     int    `json:"id"`
	Family string `json:"family"` // always "appnode"
	N      int    `json:"n"`
	K      int    `json:"k"`
	Kind   string `json:"kind"` // exact | crossfork
	Seed   int    `json:"seed"`
}

type verifHit struct {
	Key  string `json:"key"`
	What string `json:"what"`
}

// VerifRun is a spec plus what was observed.
type VerifRun struct {
	VerifSpec
	Events      []string   `json:"events"`
	Hits        []verifHit `json:"hits"`
	Submissions int        `json:"submissions"`
	PublishedAt int        `json:"published_at"` // number of matching partials delivered when the first object reached the beacon node (0 = never)
	Aborted     string     `json:"aborted,omitempty"`
}

func verifScale() time.Duration {
	if v, err := strconv.Atoi(os.Getenv("VERIF_WAIT_SCALE")); err == nil && v > 0 {
		return time.Duration(v)
	}

	return 1
}

func runVerifNode(t *testing.T, sp VerifSpec) (res VerifRun) {
	t.Helper()
	res = VerifRun{VerifSpec: sp}
	logf := func(f string, a ...any) { res.Events = append(res.Events, fmt.Sprintf(f, a...)) }
	hit := func(key, f string, a ...any) {
		res.Hits = append(res.Hits, verifHit{Key: key, What: fmt.Sprintf(f, a...)})
	}
	defer func() {
		if p := recover(); p != nil {
			res.Aborted = fmt.Sprint(p) // infrastructure failure: proves nothing either way
		}
	}()
	must := func(err error) {
		if err != nil {
			panic(err)
		}
	}
	ctx, cancel := context.WithCancel(context.Background())
	defer cancel()

	lock, p2pKeys, shares := cluster.NewForT(t, 1, sp.K, sp.N, sp.Seed, rand.New(rand.NewSource(int64(sp.Seed)))) //nolint:gosec
	groupPubkey, err := tblsconv.PubkeyFromBytes(lock.Validators[0].PubKey)
	must(err)
	corePubkey, err := core.PubKeyFromBytes(lock.Validators[0].PubKey)
	must(err)

	var (
		bnMu   sync.Mutex
		bnMsgs []*altair.SyncCommitteeMessage
		bnCh   = make(chan struct{}, 64)
	)
	bmock, err := beaconmock.New(ctx, beaconmock.WithNoAttesterDuties(), beaconmock.WithNoProposerDuties(), beaconmock.WithNoSyncCommitteeDuties())
	must(err)
	bmock.SubmitSyncCommitteeMessagesFunc = func(_ context.Context, msgs []*altair.SyncCommitteeMessage) error {
		bnMu.Lock()
		bnMsgs = append(bnMsgs, msgs...)
		bnMu.Unlock()
		bnCh <- struct{}{}

		return nil
	}
	eth2Cl, err := eth2wrap.Instrument([]eth2wrap.Client{bmock}, nil)
	must(err)

	psx := new(verifPSX)
	conf := Config{
		ValidatorAPIAddr: testutil.AvailableAddr(t).String(),
		TestConfig:       TestConfig{ParSigExFunc: func() core.ParSigEx { return psx }},
	}
	if sp.Kind == "shareidx" {
		conf.TestConfig.ParSigExFunc = nil // the real parsigex.NewParSigEx with the verifier and gater built by app.go
	}
	peerIDs, err := lock.PeerIDs()
	must(err)
	p2pNode := testutil.CreateHostWithIdentity(t, testutil.AvailableAddr(t), p2pKeys[0])
	life := new(lifecycle.Manager)
	must(wireCoreWorkflow(ctx, life, conf, &lock, cluster.NodeIdx{PeerIdx: 0, ShareIdx: 1}, p2pNode, p2pKeys[0],
		eth2Cl, eth2Cl, peerIDs, new(p2p.Sender), consensus.NewDebugger(), []core.PubKey{corePubkey}, verifSSE{}, func() {}))
	go func() { _ = life.Run(ctx) }()

	pubshares := make(map[int]tbls.PublicKey)
	for i, b := range lock.Validators[0].PubShares {
		pubshares[i+1], err = tblsconv.PubkeyFromBytes(b)
		must(err)
	}
	peerVerify, err := parsigex.NewEth2Verifier(eth2Cl, map[core.PubKey]map[int]tbls.PublicKey{corePubkey: pubshares})
	must(err)
	genesis, err := eth2wrap.FetchGenesisTime(ctx, eth2Cl)
	must(err)
	slotDuration, slotsPerEpoch, err := eth2wrap.FetchSlotsConfig(ctx, eth2Cl)
	must(err)
	currentSlot := uint64(time.Since(genesis) / slotDuration)

	partial := func(shareIdx int, msgSlot uint64, blockRoot eth2p0.Root) core.ParSignedData {
		sigRoot, err := signing.GetDataRoot(ctx, eth2Cl, signing.DomainSyncCommittee, eth2p0.Epoch(msgSlot/slotsPerEpoch), blockRoot)
		must(err)
		sig, err := tbls.Sign(shares[0][shareIdx-1], sigRoot[:])
		must(err)

		return core.NewPartialSignedSyncMessage(&altair.SyncCommitteeMessage{
			Slot: eth2p0.Slot(msgSlot), BeaconBlockRoot: blockRoot, ValidatorIndex: 1, Signature: eth2p0.BLSSignature(sig),
		}, shareIdx)
	}
	// receive = a peer's parsigex message arrives: the real verifier, then the subscribers (ParSigDB.StoreExternal
	// through core.Wire).  Returns (accepted by the verifier, error of the store path).
	receive := func(duty core.Duty, data core.ParSignedData) (bool, error) {
		if err := peerVerify(ctx, "", duty, corePubkey, data); err != nil {
			return false, err
		}

		return true, psx.deliver(ctx, duty, core.ParSignedDataSet{corePubkey: data})
	}
	// verifies: positive/negative decided by the BLS check alone; an error fetching the domain aborts the run
	bnValid := func(msg *altair.SyncCommitteeMessage) bool {
		sigRoot, err := signing.GetDataRoot(ctx, eth2Cl, signing.DomainSyncCommittee, eth2p0.Epoch(uint64(msg.Slot)/slotsPerEpoch), msg.BeaconBlockRoot)
		must(err)

		return tbls.Verify(groupPubkey, sigRoot[:], tbls.Signature(msg.Signature)) == nil
	}
	waitBN := func(d time.Duration) bool {
		select {
		case <-bnCh:
			return true
		case <-time.After(d * verifScale()):
			return false
		}
	}
	count := func() int {
		bnMu.Lock()
		defer bnMu.Unlock()

		return len(bnMsgs)
	}

	dutySlot := currentSlot + 2
	duty := core.NewSyncMessageDuty(dutySlot)
	var blockRoot eth2p0.Root
	copy(blockRoot[:], fmt.Sprintf("verif-c01-app-%d-%d-%s-%d", sp.N, sp.K, sp.Kind, sp.Seed))
	r := rand.New(rand.NewSource(int64(sp.Seed) + 17)) //nolint:gosec
	order := r.Perm(sp.N)                              // share indices (0-based) in arrival order

	matching := 0 // honest partials over (duty slot, block root) delivered so far
	switch sp.Kind {
	case "crossfork":
		// a slot in an older fork of the beaconmock chain: other fork version, other signing domain
		oldForkSlot := uint64(3000) * slotsPerEpoch
		oldDomain, err := signing.GetDomain(ctx, eth2Cl, signing.DomainSyncCommittee, eth2p0.Epoch(oldForkSlot/slotsPerEpoch))
		must(err)
		curDomain, err := signing.GetDomain(ctx, eth2Cl, signing.DomainSyncCommittee, eth2p0.Epoch(dutySlot/slotsPerEpoch))
		must(err)
		if oldDomain == curDomain {
			panic("setup: the two slots are in the same fork")
		}
		byz := order[0] + 1
		ok, err := receive(duty, partial(byz, oldForkSlot, blockRoot))
		logf("byzantine share %d: same duty and block root, slot of an older fork: verifier accepted=%v store err=%v", byz, ok, err)
		for _, i := range order[1:sp.K] {
			ok, err := receive(duty, partial(i+1, dutySlot, blockRoot))
			logf("honest share %d: accepted=%v store err=%v", i+1, ok, err)
		}
		waitBN(time.Second)
	case "shareidx":
		// storeCount reads the store's own histogram: how many partials with this 0-based peer index reached MemDB.store
		storeCount := func(peerIdx int) uint64 {
			reg, err := promauto.NewRegistry(nil)
			must(err)
			mfs, err := reg.Gather()
			must(err)
			var n uint64
			for _, mf := range mfs {
				if mf.GetName() != "core_parsigdb_store" {
					continue
				}
				for _, m := range mf.GetMetric() {
					duty, idx := "", ""
					for _, l := range m.GetLabel() {
						if l.GetName() == "duty" {
							duty = l.GetValue()
						}
						if l.GetName() == "peer_idx" {
							idx = l.GetValue()
						}
					}
					if duty == "sync_message" && idx == strconv.Itoa(peerIdx) {
						n += m.GetHistogram().GetSampleCount()
					}
				}
			}

			return n
		}
		peerKey, err := crypto.UnmarshalSecp256k1PrivateKey(p2pKeys[1].Serialize())
		must(err)
		sender, err := libp2p.New(libp2p.Identity(peerKey), libp2p.ListenAddrStrings("/ip4/127.0.0.1/tcp/0"))
		must(err)
		defer sender.Close()
		must(sender.Connect(ctx, peer.AddrInfo{ID: p2pNode.ID(), Addrs: p2pNode.Addrs()}))
		send := func(data core.ParSignedData) {
			pb, err := core.ParSignedDataSetToProto(core.ParSignedDataSet{corePubkey: data})
			must(err)
			msg := &pbv1.ParSigExMsg{Duty: core.DutyToProto(duty), DataSet: pb}
			var serr error
			for i := 0; i < 100; i++ { // until the handler is registered
				if serr = p2p.Send(ctx, sender, parsigex.Protocols()[0], p2pNode.ID(), msg); serr == nil {
					return
				}
				time.Sleep(50 * time.Millisecond)
			}
			must(serr)
		}
		withIdx := func(p core.ParSignedData, idx int) core.ParSignedData { p.ShareIdx = idx; return p }
		// the validator's group signature over the honest message: public once the duty was performed anywhere
		parts := map[int]tbls.Signature{}
		for i := 1; i <= sp.K; i++ {
			sig, err := tblsconv.SigFromCore(partial(i, dutySlot, blockRoot).Signature())
			must(err)
			parts[i] = sig
		}
		groupSig, err := tbls.ThresholdAggregate(parts)
		must(err)
		groupMsg := core.NewPartialSignedSyncMessage(&altair.SyncCommitteeMessage{
			Slot: eth2p0.Slot(dutySlot), BeaconBlockRoot: blockRoot, ValidatorIndex: 1, Signature: eth2p0.BLSSignature(groupSig)}, 0)
		before := map[int]uint64{}
		bad := []int{0, sp.N + 1, -1}
		for _, idx := range bad {
			before[idx] = storeCount(idx - 1)
		}
		honestBefore := map[int]uint64{}
		for _, i := range order[:sp.K-1] {
			honestBefore[i] = storeCount(i)
		}
		// k-1 honest partials first, so that one more counted entry would complete a threshold set
		for _, i := range order[:sp.K-1] {
			send(partial(i+1, dutySlot, blockRoot))
		}
		for _, idx := range bad {
			send(withIdx(groupMsg, idx))                        // (a) the group signature under an out-of-range index
			send(withIdx(partial(2, dutySlot, blockRoot), idx)) // (b) another share's signature under it
		}
		// the honest in-range partials must get through the real parsigex (else the run shows nothing)
		seen := false
		for n := 0; n < 100 && !seen; n++ {
			time.Sleep(50 * time.Millisecond * verifScale())
			seen = true
			for _, i := range order[:sp.K-1] {
				if storeCount(i) == honestBefore[i] {
					seen = false
				}
			}
		}
		if !seen {
			panic("inconclusive: no honest partial reached the store through the real parsigex")
		}
		time.Sleep(500 * time.Millisecond * verifScale())
		for _, idx := range bad {
			if d := storeCount(idx-1) - before[idx]; d > 0 {
				hit("out-of-range-share-index-stored", "%d-of-%d: %d partial signature(s) with share index %d (valid: 1..%d) sent by a peer passed the verifier built by wireCoreWorkflow and reached the partial signature store", sp.K, sp.N, d, idx, sp.N)
			}
		}
		if waitBN(300*time.Millisecond) || count() > 0 {
			hit("published-below-threshold", "%d-of-%d: an object reached the beacon node with only %d honest partial signatures delivered", sp.K, sp.N, sp.K-1)
		}
	default: // exact
		for _, i := range order {
			ok, err := receive(duty, partial(i+1, dutySlot, blockRoot))
			matching++
			logf("honest share %d (%d matching so far): accepted=%v store err=%v", i+1, matching, ok, err)
			if err != nil && (strings.Contains(err.Error(), "threshold") || strings.Contains(err.Error(), "aggregate")) {
				hit("aggregation-failed-on-honest-partials",
					"%d-of-%d: after %d honest partial signatures over one root the store's threshold output was refused by the aggregator: %v", sp.K, sp.N, matching, err)
			}
			if matching >= sp.K && res.PublishedAt == 0 {
				if waitBN(4*time.Second) || count() > 0 {
					res.PublishedAt = matching
				}
			}
		}
		if res.PublishedAt == 0 && (waitBN(6*time.Second) || count() > 0) {
			res.PublishedAt = matching
		}
		switch {
		case res.PublishedAt == 0:
			hit("never-published", "%d-of-%d: all %d key shares delivered matching honest partial signatures, nothing reached the beacon node", sp.K, sp.N, sp.N)
		case res.PublishedAt > sp.K:
			hit("published-late", "%d-of-%d: the object reached the beacon node only after %d matching partial signatures (threshold %d)", sp.K, sp.N, res.PublishedAt, sp.K)
		}
		time.Sleep(200 * time.Millisecond * verifScale())
	}

	bnMu.Lock()
	msgs := append([]*altair.SyncCommitteeMessage(nil), bnMsgs...)
	bnMu.Unlock()
	res.Submissions = len(msgs)
	roots := map[string]bool{}
	for _, m := range msgs {
		if !bnValid(m) {
			hit("beacon-invalid-signature", "%d-of-%d %s: the beacon node was handed a sync committee message (slot %d, root %s) whose signature does not verify under the validator's group public key",
				sp.K, sp.N, sp.Kind, m.Slot, hex.EncodeToString(m.BeaconBlockRoot[:8]))
		}
		roots[hex.EncodeToString(m.BeaconBlockRoot[:])+"/"+fmt.Sprint(m.Slot)] = true
	}
	if len(roots) > 1 {
		hit("beacon-two-roots", "%d-of-%d %s: objects with %d different signing roots reached the beacon node for one duty and validator", sp.K, sp.N, sp.Kind, len(roots))
	}

	return res
}

// TestVerifC01App runs the family and writes appnode_runs.json into VERIF_OUT.
func TestVerifC01App(t *testing.T) {
	var specs []VerifSpec
	if p := os.Getenv("VERIF_REPLAY"); p != "" {
		b, err := os.ReadFile(p)
		if err != nil {
			t.Fatal(err)
		}
		var wrap struct {
			Replay VerifSpec `json:"replay"`
		}
		if err := json.Unmarshal(b, &wrap); err != nil {
			t.Fatal(err)
		}
		specs = []VerifSpec{wrap.Replay}
	} else {
		shapes := [][2]int{{4, 3}, {4, 4}, {4, 2}, {6, 4}}
		if os.Getenv("VERIF_TIER") == "thorough" {
			shapes = append(shapes, [2]int{3, 2}, [2]int{5, 4}, [2]int{6, 5}, [2]int{7, 5}, [2]int{5, 3}, [2]int{6, 6})
		}
		seed := 1
		if v, err := strconv.Atoi(os.Getenv("VERIF_SEED")); err == nil {
			seed = v
		}
		for _, sh := range shapes {
			specs = append(specs, VerifSpec{ID: len(specs), Family: "appnode", N: sh[0], K: sh[1], Kind: "exact", Seed: seed + len(specs)})
			if (sh[0]-1)/3 >= 1 && sh[1] >= 2 {
				specs = append(specs, VerifSpec{ID: len(specs), Family: "appnode", N: sh[0], K: sh[1], Kind: "crossfork", Seed: seed + len(specs)})
			}
			if sh[1] == 3 || (os.Getenv("VERIF_TIER") == "thorough" && sh[1] >= 2) {
				specs = append(specs, VerifSpec{ID: len(specs), Family: "appnode", N: sh[0], K: sh[1], Kind: "shareidx", Seed: seed + len(specs)})
			}
		}
	}
	var runs []VerifRun
	for _, sp := range specs {
		runs = append(runs, runVerifNode(t, sp))
	}
	out := os.Getenv("VERIF_OUT")
	if out == "" {
		out = os.TempDir()
	}
	b, err := json.MarshalIndent(runs, "", " ")
	if err != nil {
		t.Fatal(err)
	}
	if err := os.WriteFile(filepath.Join(out, "appnode_runs.json"), b, 0o644); err != nil {
		t.Fatal(err)
	}
	n := 0
	for _, r := range runs {
		n += len(r.Hits)
	}
	t.Logf("appnode runs=%d hits=%d", len(runs), n)
}
