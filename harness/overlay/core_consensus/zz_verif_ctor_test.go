//go:build verif

// Construction check (C05 "signature of the cluster member named as source"; C02's n / quorum): builds the consensus
// component THROUGH consensus.NewConsensusController -> qbft.NewConsensus, as app.go does, for peer sets of several sizes,
// including sets in which two members have the same human-friendly name (p2p.PeerName is an adjective-noun label, not
// unique; colliding keys are ground deterministically), and checks on the real component:
//   - the definition has Nodes = number of members given, Quorum = ceil(2n/3), Faulty = floor((n-1)/3);
//   - the index->key table has exactly the indices 0..n-1 and holds each member's key at its index;
//   - behaviourally: a COMMIT signed with member i's key and claiming source j is accepted by the real handle iff
//     j = i (0 <= j < n): out-of-range sources (n, n+1, -1, 2^31, 2^40) and other members' indices are rejected.
// Mapped into /repo/core/consensus with `go test -overlay` together with qbft/zz_verif_export.go.
package consensus_test

import (
	"bytes"
	"context"
	"crypto/sha256"
	"encoding/json"
	"fmt"
	"os"
	"path/filepath"
	"sort"
	"testing"
	"time"

	k1 "github.com/decred/dcrd/dcrec/secp256k1/v4"
	"github.com/libp2p/go-libp2p/core/host"
	"github.com/libp2p/go-libp2p/core/peer"

	"github.com/obolnetwork/charon/core"
	"github.com/obolnetwork/charon/core/consensus"
	pbv1 "github.com/obolnetwork/charon/core/corepb/v1"
	cqbft "github.com/obolnetwork/charon/core/consensus/qbft"
	"github.com/obolnetwork/charon/p2p"
	"github.com/obolnetwork/charon/testutil/beaconmock"
)

type vcHost struct {
	host.Host
	id peer.ID
}

func (h vcHost) ID() peer.ID { return h.id }

type vcCase struct {
	Set      string `json:"set"`
	N        int    `json:"n"`
	Signer   int    `json:"signer"`
	Claimed  int64  `json:"claimed"`
	Accepted bool   `json:"accepted"`
	Want     bool   `json:"want"`
	Err      string `json:"err"`
}

type vcSet struct {
	Set       string   `json:"set"`
	N         int      `json:"n"`
	Names     []string `json:"names"`
	Collision bool     `json:"collision"`
	Peers     int      `json:"peers"`
	KeyIdx    []int64  `json:"key_idx"`
	KeysOK    bool     `json:"keys_ok"`
	Nodes     int      `json:"nodes"`
	Quorum    int      `json:"quorum"`
	Faulty    int      `json:"faulty"`
	Problems  []string `json:"problems"`
}

type vcOut struct {
	Sets  []vcSet  `json:"sets"`
	Cases []vcCase `json:"cases"`
	Grind int      `json:"grind"` // keys generated to find the name collisions
}

func vcKey(tag string, i int) *k1.PrivateKey {
	d := sha256.Sum256([]byte(fmt.Sprintf("verif-ctor-%s-%d", tag, i)))
	return k1.PrivKeyFromBytes(d[:])
}

func vcName(k *k1.PrivateKey) string {
	id, err := p2p.PeerIDFromKey(k.PubKey())
	if err != nil {
		panic(err)
	}
	return p2p.PeerName(id)
}

// vcCollide returns keys (deterministically) such that keys[a] and keys[b] have the same PeerName.
func vcCollide(n, a, b int, tag string, grind *int) []*k1.PrivateKey {
	keys := make([]*k1.PrivateKey, n)
	for i := range keys {
		keys[i] = vcKey(tag, i)
	}
	want := vcName(keys[a])
	for j := 0; j < 2_000_000; j++ {
		*grind++
		k := vcKey(tag+"-grind", j)
		if vcName(k) == want && !bytes.Equal(k.Serialize(), keys[a].Serialize()) {
			keys[b] = k
			return keys
		}
	}
	return nil
}

func TestVerifCtor(t *testing.T) {
	ctx, cancel := context.WithCancel(context.Background())
	defer cancel()
	bmock, err := beaconmock.New(ctx)
	if err != nil {
		t.Fatal(err)
	}
	var out vcOut
	duty := core.Duty{Slot: 77, Type: core.DutyAttester}
	value := &pbv1.Duty{Slot: 5, Type: 2}

	run := func(name string, keys []*k1.PrivateKey, collision bool) {
		n := len(keys)
		var peers []p2p.Peer
		set := vcSet{Set: name, N: n, Collision: collision}
		for i, k := range keys {
			id, err := p2p.PeerIDFromKey(k.PubKey())
			if err != nil {
				t.Fatal(err)
			}
			peers = append(peers, p2p.Peer{ID: id, Index: i, Name: p2p.PeerName(id)})
			set.Names = append(set.Names, peers[i].Name)
		}
		ctrl, err := consensus.NewConsensusController(ctx, bmock, vcHost{id: peers[0].ID}, new(p2p.Sender), peers, keys[0],
			func(core.Duty) (time.Time, bool) { return time.Now().Add(time.Hour), true },
			func(core.Duty) bool { return true }, consensus.NewDebugger(), false)
		if err != nil {
			set.Problems = append(set.Problems, "NewConsensusController: "+err.Error())
			out.Sets = append(out.Sets, set)
			return
		}
		c, ok := ctrl.DefaultConsensus().(*cqbft.Consensus)
		if !ok {
			t.Fatal("default consensus is not the qbft component")
		}
		var table map[int64][]byte
		set.Peers, set.KeyIdx, table, set.Nodes, set.Quorum, set.Faulty = c.VerifShape()
		sort.Slice(set.KeyIdx, func(i, j int) bool { return set.KeyIdx[i] < set.KeyIdx[j] })
		set.KeysOK = len(table) == n
		for i, k := range keys {
			set.KeysOK = set.KeysOK && bytes.Equal(table[int64(i)], k.PubKey().SerializeCompressed())
		}
		claimed := []int64{-1, int64(n), int64(n + 1), 1 << 31, 1 << 40}
		for j := 0; j < n; j++ {
			claimed = append(claimed, int64(j))
		}
		round := int64(1)
		for i, k := range keys {
			for _, j := range claimed {
				msg, err := cqbft.VerifCommit(k, duty, j, round, value)
				if err != nil {
					t.Fatal(err)
				}
				round++
				herr := c.VerifHandle(ctx, msg)
				cs := vcCase{Set: name, N: n, Signer: i, Claimed: j, Accepted: herr == nil, Want: j == int64(i)}
				if herr != nil {
					cs.Err = herr.Error()
					if len(cs.Err) > 80 {
						cs.Err = cs.Err[:80]
					}
				}
				out.Cases = append(out.Cases, cs)
			}
		}
		out.Sets = append(out.Sets, set)
	}

	for _, n := range []int{1, 3, 4, 7} {
		var keys []*k1.PrivateKey
		for i := 0; i < n; i++ {
			keys = append(keys, vcKey(fmt.Sprintf("plain%d", n), i))
		}
		run(fmt.Sprintf("distinct names, n=%d", n), keys, false)
	}
	for _, c := range []struct{ n, a, b int }{{4, 0, 3}, {4, 1, 2}, {7, 2, 6}} {
		keys := vcCollide(c.n, c.a, c.b, fmt.Sprintf("coll%d-%d-%d", c.n, c.a, c.b), &out.Grind)
		if keys == nil {
			t.Fatalf("no name collision found")
		}
		run(fmt.Sprintf("members %d and %d share a name, n=%d", c.a, c.b, c.n), keys, true)
	}
	b, err := json.Marshal(out)
	if err != nil {
		t.Fatal(err)
	}
	dir := os.Getenv("VERIF_OUT")
	if dir == "" {
		dir = os.TempDir()
	}
	if err := os.WriteFile(filepath.Join(dir, "ctor.json"), b, 0o644); err != nil {
		t.Fatal(err)
	}
}
