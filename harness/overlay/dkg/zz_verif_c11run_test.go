//go:build verif

// External test (package dkg_test) mapped into /repo/dkg with `go test -overlay`; it reuses the helpers of
// the repository's own dkg_test.go (clone, peerCtx) and runs FULL ceremonies through dkg.Run — real libp2p
// nodes, a local relay, sync protocol, frost or pedersen, lock-hash / deposit-data / builder-registration
// signing and aggregation, artefacts written to disk — for a plain ceremony and for the add-validators
// (append) flow: a first ceremony, then a second one fed with what the first left on every node's disk.
// The monitor then runs on the ARTEFACTS each node wrote: cluster-lock.json loaded and verified with the
// repository's loader (hashes, aggregate BLS signature, node signatures, registrations), keystores loaded with
// the repository's keystore loader in sequence order, and for EVERY validator of the lock: all nodes' locks
// identical, keystore-i's secret matches lock.Validators[i].PubShares[node], every t-subset of public shares
// reconstructs lock.Validators[i].PubKey and of partial signatures aggregates to a signature valid under it,
// t-1 public shares do not, deposit data (in the lock and in the deposit-data files) verify.
package dkg_test

import (
	"bytes"
	"context"
	"encoding/hex"
	"encoding/json"
	"fmt"
	"math/big"
	"math/rand"
	"net/http"
	"net/http/httptest"
	"os"
	"path"
	"path/filepath"
	"io"
	"strconv"
	"strings"
	"sync"
	"testing"
	"time"

	eth2p0 "github.com/attestantio/go-eth2-client/spec/phase0"
	k1 "github.com/decred/dcrd/dcrec/secp256k1/v4"
	"github.com/libp2p/go-libp2p/core/host"
	"github.com/libp2p/go-libp2p/core/network"
	"github.com/libp2p/go-libp2p/core/peer"
	"github.com/libp2p/go-libp2p/core/protocol"
	"github.com/libp2p/go-libp2p/p2p/net/swarm"

	"github.com/obolnetwork/charon/app/k1util"
	"github.com/obolnetwork/charon/app/log"
	"github.com/obolnetwork/charon/cluster"
	"github.com/obolnetwork/charon/dkg"
	dkgsync "github.com/obolnetwork/charon/dkg/sync"
	"github.com/obolnetwork/charon/eth2util"
	"github.com/obolnetwork/charon/eth2util/deposit"
	"github.com/obolnetwork/charon/eth2util/keystore"
	"github.com/obolnetwork/charon/p2p"
	"github.com/obolnetwork/charon/tbls"
	"github.com/obolnetwork/charon/tbls/tblsconv"
	"github.com/obolnetwork/charon/testutil"
	"github.com/obolnetwork/charon/testutil/relay"
)

type c11rValidator struct {
	T      int      `json:"t"`
	Shares []string `json:"shares"`
}

type c11rCeremony struct {
	ID         int             `json:"id"`
	Algo       string          `json:"algo"`
	Flow       string          `json:"flow"` // run | append
	N          int             `json:"n"`
	T          int             `json:"t"`
	Vals       int             `json:"vals"`
	Add        int             `json:"add,omitempty"`
	Seed       int             `json:"seed"`
	FullRun    bool            `json:"full_run"`
	NoVerify   bool            `json:"no_verify,omitempty"` // dkg.Config.NoVerify (the --no-verify flag)
	// Dirty: nodes whose data dir contains, before dkg.Run, stray siblings of the output artefacts that checkClearDataDir
	// tolerates (cluster-lock.json.tmp / .bak / ~, validator_keys.tmp/, validator_keys.bak/, *.deposit-data*.json.tmp) whose
	// content is the valid artefact of a DIFFERENT earlier ceremony.
	Dirty []int `json:"dirty_nodes,omitempty"`
	// KM: per node "" (keys to disk) | "ok" | "500" (import answered with HTTP 500) | "hang" (import never answered)
	KM  []string         `json:"keymanager,omitempty"`
	kms map[int]*c11rKM  // captured imports
	Drop       *c11rDrop       `json:"drop,omitempty"` // lossy transport: node To loses the streams of kind Kind coming from node From
	Dropped    int             `json:"streams_dropped,omitempty"`
	NodeErrs   []string        `json:"node_errors,omitempty"`
	Seconds    float64         `json:"seconds"`
	Err        string          `json:"err,omitempty"`
	Validators []c11rValidator `json:"validators"`
}

// c11rKM is a node's keymanager stand-in (httptest): reachable at start-up; the import request is served per mode.
type c11rKM struct {
	mu        sync.Mutex
	mode      string
	srv       *httptest.Server
	imports   int
	keystores []string
	passwords []string
	release   chan struct{}
}

func c11rNewKM(mode string) *c11rKM {
	k := &c11rKM{mode: mode, release: make(chan struct{})}
	k.srv = httptest.NewServer(http.HandlerFunc(func(w http.ResponseWriter, r *http.Request) {
		var req struct {
			Keystores []string `json:"keystores"`
			Passwords []string `json:"passwords"`
		}
		_ = json.NewDecoder(r.Body).Decode(&req)
		k.mu.Lock()
		k.imports++
		k.mu.Unlock()
		switch k.mode {
		case "500":
			http.Error(w, "keymanager database is locked", http.StatusInternalServerError)
		case "hang":
			select {
			case <-r.Context().Done():
			case <-k.release:
			}
		default:
			k.mu.Lock()
			k.keystores, k.passwords = req.Keystores, req.Passwords
			k.mu.Unlock()
			w.WriteHeader(http.StatusOK)
			_, _ = w.Write([]byte(`{"data":[]}`))
		}
	}))
	return k
}

// secrets loads what the keymanager accepted with the repository's keystore loader.
func (k *c11rKM) secrets(t *testing.T) ([]tbls.PrivateKey, error) {
	t.Helper()
	k.mu.Lock()
	defer k.mu.Unlock()
	if len(k.keystores) == 0 {
		return nil, nil
	}
	dir := t.TempDir()
	for i := range k.keystores {
		if err := os.WriteFile(path.Join(dir, fmt.Sprintf("keystore-%d.json", i)), []byte(k.keystores[i]), 0o600); err != nil {
			return nil, err
		}
		if err := os.WriteFile(path.Join(dir, fmt.Sprintf("keystore-%d.txt", i)), []byte(k.passwords[i]), 0o600); err != nil {
			return nil, err
		}
	}
	files, err := keystore.LoadFilesUnordered(dir)
	if err != nil {
		return nil, err
	}
	return files.SequencedKeys()
}

// c11rStrays copies the artefacts of an earlier ceremony (node dir `from`) into the data dir `to` under names that
// checkClearDataDir tolerates.
func c11rStrays(from, to string) error {
	if err := os.MkdirAll(to, 0o755); err != nil {
		return err
	}
	lock, err := os.ReadFile(path.Join(from, "cluster-lock.json"))
	if err != nil {
		return err
	}
	for _, suffix := range []string{".tmp", ".bak", "~"} {
		if err := os.WriteFile(path.Join(to, "cluster-lock.json"+suffix), lock, 0o444); err != nil {
			return err
		}
	}
	keys, _ := filepath.Glob(path.Join(from, "validator_keys", "*"))
	for _, d := range []string{"validator_keys.tmp", "validator_keys.bak"} {
		if err := os.MkdirAll(path.Join(to, d), 0o755); err != nil {
			return err
		}
		for _, f := range keys {
			b, err := os.ReadFile(f)
			if err != nil {
				return err
			}
			if err := os.WriteFile(path.Join(to, d, filepath.Base(f)), b, 0o600); err != nil {
				return err
			}
			if err := os.WriteFile(path.Join(to, d, filepath.Base(f)+".tmp"), b, 0o600); err != nil {
				return err
			}
		}
	}
	deps, _ := filepath.Glob(path.Join(from, "deposit-data*.json"))
	for _, f := range deps {
		b, err := os.ReadFile(f)
		if err != nil {
			return err
		}
		if err := os.WriteFile(path.Join(to, "stale."+filepath.Base(f)+".tmp"), b, 0o444); err != nil {
			return err
		}
	}
	return nil
}

type c11rDrop struct {
	Kind string `json:"kind"` // deal | resp | just (pedersen bundles)
	From int    `json:"from"`
	To   int    `json:"to"`
}

type c11rStream struct {
	network.Stream
	drop func(p protocol.ID) bool
	dead bool
}

func (s *c11rStream) SetProtocol(p protocol.ID) error {
	if s.drop(p) {
		s.dead = true
	}
	return s.Stream.SetProtocol(p)
}

func (s *c11rStream) Read(b []byte) (int, error) {
	if s.dead {
		_ = s.Stream.Reset()
		return 0, io.ErrUnexpectedEOF
	}
	return s.Stream.Read(b)
}

// c11rLossy makes host h lose every stream of the given pedersen bundle kind that comes from peer `from`.
func c11rLossy(h host.Host, from peer.ID, kind string, count *int, mu *sync.Mutex) {
	sw, ok := h.Network().(*swarm.Swarm)
	if !ok {
		panic(fmt.Sprintf("host network is %T, not a swarm", h.Network()))
	}
	suffix := map[string]string{"deal": "deal_bundle", "resp": "resp_bundle", "just": "just_bundle"}[kind]
	orig := sw.StreamHandler()
	sw.SetStreamHandler(func(s network.Stream) {
		if s.Conn().RemotePeer() != from {
			orig(s)
			return
		}
		orig(&c11rStream{Stream: s, drop: func(p protocol.ID) bool {
			if strings.HasSuffix(string(p), suffix) {
				mu.Lock()
				*count++
				mu.Unlock()
				return true
			}
			return false
		}})
	})
}

type c11rViolation struct {
	Key    string       `json:"key"`
	What   string       `json:"what"`
	Replay c11rCeremony `json:"replay"`
}

type c11rOut struct {
	Ceremonies []c11rCeremony  `json:"ceremonies"`
	Violations []c11rViolation `json:"violations"`
	Checks     map[string]int  `json:"checks"`
	Dist       map[string]int  `json:"dist"`
}

// c11rRun is testDKG of dkg_test.go without keymanager/publish and returning the error instead of failing the test.
func c11rRun(t *testing.T, def cluster.Definition, dir string, p2pKeys []*k1.PrivateKey, addConfig []dkg.AppendConfig) error {
	t.Helper()
	_, err := c11rRunLossy(t, def, dir, p2pKeys, addConfig, nil)
	return err
}

// c11rRunLossy: with c.Drop set, node Drop.To loses the bundles of kind Drop.Kind sent by node Drop.From. Returns every node's error.
func c11rRunLossy(t *testing.T, def cluster.Definition, dir string, p2pKeys []*k1.PrivateKey, addConfig []dkg.AppendConfig, c *c11rCeremony) ([]error, error) {
	t.Helper()
	if err := def.VerifySignatures(nil); err != nil {
		return nil, fmt.Errorf("definition signatures: %w", err)
	}
	var dropMu sync.Mutex
	ctx, cancel := context.WithTimeout(context.Background(), 120*time.Second)
	defer cancel()
	relayAddr := relay.StartRelay(ctx, t)
	defClone := clone(t, def)
	conf := dkg.Config{
		DataDir: dir,
		P2P:     p2p.Config{Relays: []string{relayAddr}},
		Log:     log.DefaultConfig(),
		TestConfig: dkg.TestConfig{
			Def: &defClone,
			StoreKeysFunc: func(secrets []tbls.PrivateKey, dir string) error {
				return keystore.StoreKeysInsecure(secrets, dir, keystore.ConfirmInsecureKeys)
			},
			SyncOpts: []func(*dkgsync.Client){dkgsync.WithPeriod(time.Millisecond * 50)},
		},
		ShutdownDelay:  1 * time.Second,
		PublishTimeout: 30 * time.Second,
		Timeout:        8 * time.Second,
	}
	conf.NoVerify = c != nil && c.NoVerify
	n := len(def.Operators)
	errs := make([]error, n)
	var wg sync.WaitGroup
	for i := 0; i < n; i++ {
		conf := conf
		conf.DataDir = path.Join(dir, fmt.Sprintf("node%d", i))
		conf.P2P.TCPAddrs = []string{testutil.AvailableAddr(t).String()}
		if len(addConfig) > 0 {
			conf.AppendConfig = &addConfig[i]
		}
		if err := os.MkdirAll(conf.DataDir, 0o755); err != nil {
			return nil, err
		}
		if err := k1util.Save(p2pKeys[i], p2p.KeyPath(conf.DataDir)); err != nil {
			return nil, err
		}
		if c != nil && c.Drop != nil && c.Drop.To == i {
			from, err := p2p.PeerIDFromKey(p2pKeys[c.Drop.From].PubKey())
			if err != nil {
				return nil, err
			}
			conf.TestConfig.P2PNodeCallback = func(h host.Host) { c11rLossy(h, from, c.Drop.Kind, &c.Dropped, &dropMu) }
		}
		kmRun := c != nil && len(c.KM) > 0
		if kmRun && i < len(c.KM) && c.KM[i] != "" {
			if c.kms == nil {
				c.kms = map[int]*c11rKM{}
			}
			k := c11rNewKM(c.KM[i])
			defer k.srv.Close()
			defer close(k.release)
			c.kms[i] = k
			conf.KeymanagerAddr, conf.KeymanagerAuthToken = k.srv.URL, "token"
		}
		wg.Add(1)
		go func(i int) {
			defer wg.Done()
			errs[i] = dkg.Run(peerCtx(ctx, i), conf)
			switch {
			case errs[i] != nil && kmRun:
				// every node is left to reach its own verdict, but not for ever: the others may wait for the failed node
				go func() { time.Sleep(8 * time.Second); cancel() }()
			case errs[i] != nil && (c == nil || c.Drop == nil):
				cancel() // (with a lossy link every node is left to reach its own verdict)
			}
		}(i)
		if i == 0 {
			time.Sleep(100 * time.Millisecond)
		}
	}
	wg.Wait()
	dropMu.Lock()
	defer dropMu.Unlock()
	for i, err := range errs {
		if err != nil && err.Error() != context.Canceled.Error() {
			return errs, fmt.Errorf("node %d: %w", i, err)
		}
	}
	for i, err := range errs {
		if err != nil {
			return errs, fmt.Errorf("node %d: %w", i, err)
		}
	}
	return errs, nil
}

func c11rSubsets(n, size int) [][]int {
	var out [][]int
	var rec func(start int, cur []int)
	rec = func(start int, cur []int) {
		if len(cur) == size {
			out = append(out, append([]int(nil), cur...))
			return
		}
		for i := start; i <= n; i++ {
			rec(i+1, append(cur, i))
		}
	}
	rec(1, nil)
	return out
}

func c11rVerifyDeposit(pubkey, wc, sig []byte, amount int, forkVersion []byte) error {
	network, err := eth2util.ForkVersionToNetwork(forkVersion)
	if err != nil {
		return err
	}
	msg := eth2p0.DepositMessage{Amount: eth2p0.Gwei(amount)}
	copy(msg.PublicKey[:], pubkey)
	msg.WithdrawalCredentials = wc
	root, err := deposit.GetMessageSigningRoot(msg, network)
	if err != nil {
		return err
	}
	pk, err := tblsconv.PubkeyFromBytes(pubkey)
	if err != nil {
		return err
	}
	s, err := tblsconv.SignatureFromBytes(sig)
	if err != nil {
		return err
	}
	return tbls.Verify(pk, root[:], s)
}

// c11rArtefacts runs the monitor on what the nodes wrote below dir; fills c.Validators.
func c11rArtefacts(t *testing.T, c *c11rCeremony, dir string, totalVals int, checks map[string]int) (string, string) {
	t.Helper()
	var (
		locks     []*cluster.Lock
		raw       [][]byte
		secrets   [][]tbls.PrivateKey // [node][validator]
		verifyErr string
	)
	key, what := c11rArtefactsInner(t, c, dir, totalVals, checks, &locks, &raw, &secrets, &verifyErr)
	if verifyErr != "" {
		if key == "" {
			return "dkg:lock-does-not-verify", verifyErr
		}
		what += " (and: " + verifyErr + ")"
	}
	return key, what
}

func c11rArtefactsInner(t *testing.T, c *c11rCeremony, dir string, totalVals int, checks map[string]int,
	locksP *[]*cluster.Lock, rawP *[][]byte, secretsP *[][]tbls.PrivateKey, verifyErrP *string) (string, string) {
	t.Helper()
	n, th := c.N, c.T
	var (
		locks     []*cluster.Lock
		raw       [][]byte
		secrets   [][]tbls.PrivateKey
		verifyErr string
	)
	defer func() { *locksP, *rawP, *secretsP, *verifyErrP = locks, raw, secrets, verifyErr }()
	for i := 0; i < n; i++ {
		dataDir := path.Join(dir, fmt.Sprintf("node%d", i))
		lock, err := dkg.LoadAndVerifyClusterLock(context.Background(), path.Join(dataDir, "cluster-lock.json"), "", false)
		checks["lock_loads_and_verifies"]++
		if err != nil {
			// keep going on the unverified lock: the deeper checks say WHAT is wrong with the keys
			if verifyErr == "" {
				verifyErr = fmt.Sprintf("node %d: cluster-lock.json does not load/verify: %v", i, err)
			}
			lock, err = dkg.LoadAndVerifyClusterLock(context.Background(), path.Join(dataDir, "cluster-lock.json"), "", true)
			if err != nil {
				return "dkg:lock-does-not-verify", verifyErr
			}
		} else {
			if err := lock.VerifyHashes(); err != nil {
				return "dkg:lock-does-not-verify", fmt.Sprintf("node %d: lock hashes: %v", i, err)
			}
			if err := lock.VerifySignatures(nil); err != nil {
				return "dkg:lock-does-not-verify", fmt.Sprintf("node %d: lock signatures: %v", i, err)
			}
		}
		b, err := os.ReadFile(path.Join(dataDir, "cluster-lock.json"))
		if err != nil {
			return "dkg:lock-missing", err.Error()
		}
		var canon any
		if err := json.Unmarshal(b, &canon); err != nil {
			return "dkg:lock-missing", err.Error()
		}
		cb, _ := json.Marshal(canon)
		raw = append(raw, cb)
		locks = append(locks, lock)
		sec, err := dkg.LoadSecrets(path.Join(dataDir, "validator_keys"))
		if err != nil {
			return "dkg:keystores-do-not-load", fmt.Sprintf("node %d: %v", i, err)
		}
		if len(sec) != totalVals || len(lock.Validators) != totalVals {
			return "dkg:validator-count", fmt.Sprintf("node %d: %d keystores and %d validators in the lock, want %d", i, len(sec), len(lock.Validators), totalVals)
		}
		secrets = append(secrets, sec)

		// deposit data files: every entry verifies and belongs to a validator of the lock
		dd, err := deposit.ReadDepositDataFiles(dataDir)
		if err != nil {
			return "dkg:deposit-data-files", fmt.Sprintf("node %d: %v", i, err)
		}
		inLock := map[string]bool{}
		for _, v := range lock.Validators {
			inLock[hex.EncodeToString(v.PubKey)] = true
		}
		for _, set := range dd {
			if len(set) != totalVals {
				return "dkg:deposit-data-files", fmt.Sprintf("node %d: a deposit-data file lists %d validators, want %d", i, len(set), totalVals)
			}
			for _, d := range set {
				checks["deposit_file_entry_verifies"]++
				if !inLock[hex.EncodeToString(d.PublicKey[:])] {
					return "dkg:deposit-data-files", fmt.Sprintf("node %d: deposit data for a public key that is not in the lock", i)
				}
				if err := c11rVerifyDeposit(d.PublicKey[:], d.WithdrawalCredentials, d.Signature[:], int(d.Amount), lock.ForkVersion); err != nil {
					return "dkg:deposit-data-invalid", fmt.Sprintf("node %d: deposit data file entry does not verify: %v", i, err)
				}
			}
		}
	}
	for i := 1; i < n; i++ {
		checks["locks_identical"]++
		if !bytes.Equal(raw[i], raw[0]) || !bytes.Equal(locks[i].LockHash, locks[0].LockHash) {
			return "dkg:locks-differ", fmt.Sprintf("node %d wrote a cluster lock different from node 0's", i)
		}
	}
	ref := locks[0]
	for v := 0; v < totalVals; v++ {
		val := ref.Validators[v]
		if len(val.PubShares) != n {
			return "dkg:pubshare-count", fmt.Sprintf("validator %d of the lock lists %d public shares, want %d", v, len(val.PubShares), n)
		}
		groupPK, err := tblsconv.PubkeyFromBytes(val.PubKey)
		if err != nil {
			return "dkg:lock-does-not-verify", err.Error()
		}
		rec := c11rValidator{T: th}
		pubs := map[int]tbls.PublicKey{}
		for i := 0; i < n; i++ {
			checks["keystore_matches_lock_pubshare"]++
			pk, err := tbls.SecretToPublicKey(secrets[i][v])
			if err != nil {
				return "dkg:secret-share-invalid", fmt.Sprintf("validator %d node %d: %v", v, i, err)
			}
			if !bytes.Equal(pk[:], val.PubShares[i]) {
				return "dkg:secret-share-mismatch", fmt.Sprintf("validator %d of the lock: the secret in keystore-%d of node %d does not match lock.Validators[%d].PubShares[%d]", v, v, i, v, i)
			}
			pubs[i+1] = pk
			rec.Shares = append(rec.Shares, new(big.Int).SetBytes(secrets[i][v][:]).String())
		}
		c.Validators = append(c.Validators, rec)
		msg := []byte(fmt.Sprintf("c11-run-%d-%d-%d", n, th, v))
		for _, size := range []int{th, n} {
			for _, sub := range c11rSubsets(n, size) {
				ps := map[int]tbls.PublicKey{}
				sigs := map[int]tbls.Signature{}
				for _, i := range sub {
					ps[i] = pubs[i]
					sg, err := tbls.Sign(secrets[i-1][v], msg)
					if err != nil {
						return "dkg:sign", err.Error()
					}
					sigs[i] = sg
				}
				checks["pubshares_reconstruct_group_key"]++
				rp, err := tbls.RecoverPubkey(ps)
				if err != nil || rp != groupPK {
					return "dkg:pubshares-do-not-reconstruct", fmt.Sprintf("validator %d of the lock: public shares %v do not reconstruct lock.Validators[%d].PubKey", v, sub, v)
				}
				checks["threshold_signature_verifies"]++
				agg, err := tbls.ThresholdAggregate(sigs)
				if err != nil {
					return "dkg:aggregate", err.Error()
				}
				if err := tbls.Verify(groupPK, msg, agg); err != nil {
					return "dkg:threshold-signature-invalid", fmt.Sprintf("validator %d of the lock: partial signatures made with the keystores of nodes %v do not combine under lock.Validators[%d].PubKey", v, sub, v)
				}
			}
		}
		if th >= 2 {
			for _, sub := range c11rSubsets(n, th-1) {
				ps := map[int]tbls.PublicKey{}
				for _, i := range sub {
					ps[i] = pubs[i]
				}
				checks["below_threshold_does_not_reconstruct"]++
				if rp, err := tbls.RecoverPubkey(ps); err == nil && rp == groupPK {
					return "dkg:fewer-than-t-shares-reconstruct", fmt.Sprintf("validator %d: %d public shares %v already reconstruct the group key (threshold %d)", v, th-1, sub, th)
				}
			}
		}
		for _, pdd := range val.PartialDepositData {
			checks["lock_deposit_data_verifies"]++
			if !bytes.Equal(pdd.PubKey, val.PubKey) {
				return "dkg:deposit-data-invalid", fmt.Sprintf("validator %d: deposit data in the lock is for another public key", v)
			}
			if err := c11rVerifyDeposit(pdd.PubKey, pdd.WithdrawalCredentials, pdd.Signature, pdd.Amount, ref.ForkVersion); err != nil {
				return "dkg:deposit-data-invalid", fmt.Sprintf("validator %d: deposit data in the lock does not verify: %v", v, err)
			}
		}
	}
	return "", ""
}

// c11rScenario runs one scenario (plain ceremony, or first ceremony + append) and the artefact monitor.
func c11rScenario(t *testing.T, c *c11rCeremony, checks map[string]int) (string, string) {
	t.Helper()
	random := rand.New(rand.NewSource(int64(c.Seed)))
	lock, keys, _ := cluster.NewForT(t, c.Vals, c.T, c.N, c.Seed, random,
		func(d *cluster.Definition) { d.DKGAlgorithm = c.Algo },
		func(d *cluster.Definition) { d.TargetGasLimit = 30000000 },
	)
	srcDir := t.TempDir()
	if c.Flow == "lossy" {
		errs, err := c11rRunLossy(t, lock.Definition, srcDir, keys, nil, c)
		for i, e := range errs {
			if e != nil {
				c.NodeErrs = append(c.NodeErrs, fmt.Sprintf("node %d: %v", i, e))
			}
		}
		if err != nil {
			c.Err = "not a successful ceremony (outside the property): " + err.Error()
			return "", ""
		}
		key, what := c11rArtefacts(t, c, srcDir, c.Vals, checks)
		if key != "" {
			key = "F-C11-QUAL:" + key // would be a genuine violation: the full ceremony succeeds everywhere with inconsistent artefacts
			what = fmt.Sprintf("dkg.Run (pedersen) n=%d t=%d with a lossy link (the %s bundle of node %d to node %d is lost, %d streams dropped) returns nil on all %d nodes, but %s", c.N, c.T, c.Drop.Kind, c.Drop.From, c.Drop.To, c.Dropped, c.N, what)
		}
		return key, what
	}
	if c.Flow == "keymanager" {
		errs, _ := c11rRunLossy(t, lock.Definition, srcDir, keys, nil, c)
		return c11rKMMonitor(t, c, srcDir, errs, checks)
	}
	if c.Flow == "dirty" {
		// an independent EARLIER ceremony (another cluster), whose artefacts are left behind as strays in the new data dirs
		early := *c
		early.Seed, early.Dirty, early.Validators = c.Seed+1000, nil, nil
		r2 := rand.New(rand.NewSource(int64(early.Seed)))
		lockE, keysE, _ := cluster.NewForT(t, c.Vals, c.T, c.N, early.Seed, r2,
			func(d *cluster.Definition) { d.DKGAlgorithm = c.Algo }, func(d *cluster.Definition) { d.TargetGasLimit = 30000000 })
		dirE := t.TempDir()
		if err := c11rRun(t, lockE.Definition, dirE, keysE, nil); err != nil {
			return "dkg:honest-ceremony-fails", fmt.Sprintf("earlier dkg.Run fails: %v", err)
		}
		for _, i := range c.Dirty {
			if err := c11rStrays(path.Join(dirE, fmt.Sprintf("node%d", i)), path.Join(srcDir, fmt.Sprintf("node%d", i))); err != nil {
				t.Fatal(err)
			}
		}
		if err := c11rRun(t, lock.Definition, srcDir, keys, nil); err != nil {
			return "dkg:honest-ceremony-fails", fmt.Sprintf("dkg.Run (%s) in data dirs with tolerated stray files on nodes %v fails: %v", c.Algo, c.Dirty, err)
		}
		key, what := c11rArtefacts(t, c, srcDir, c.Vals, checks)
		if key != "" {
			what = fmt.Sprintf("data dirs of nodes %v held stray siblings of the output artefacts (valid artefacts of an earlier, different ceremony) before dkg.Run: %s", c.Dirty, what)
		}
		return key, what
	}
	if _, err := c11rRunLossy(t, lock.Definition, srcDir, keys, nil, c); err != nil {
		return "dkg:honest-ceremony-fails", fmt.Sprintf("dkg.Run (%s, no-verify=%v) among %d honest nodes, t=%d, %d validators fails: %v", c.Algo, c.NoVerify, c.N, c.T, c.Vals, err)
	}
	if c.Flow == "run" {
		return c11rArtefacts(t, c, srcDir, c.Vals, checks)
	}
	// the first ceremony's artefacts must be right as well
	first := *c
	first.Validators = nil
	if key, what := c11rArtefacts(t, &first, srcDir, c.Vals, checks); key != "" {
		return key, "first ceremony: " + what
	}
	appendConfigs := make([]dkg.AppendConfig, c.N)
	for i := 0; i < c.N; i++ {
		dataDir := path.Join(srcDir, fmt.Sprintf("node%d", i))
		prevLock, err := dkg.LoadAndVerifyClusterLock(context.Background(), path.Join(dataDir, "cluster-lock.json"), "", false)
		if err != nil {
			return "dkg:lock-does-not-verify", err.Error()
		}
		prevSecrets, err := dkg.LoadSecrets(path.Join(dataDir, "validator_keys"))
		if err != nil {
			return "dkg:keystores-do-not-load", err.Error()
		}
		dd, err := deposit.ReadDepositDataFiles(dataDir)
		if err != nil {
			return "dkg:deposit-data-files", err.Error()
		}
		var addrs []cluster.ValidatorAddresses
		for k := 0; k < c.Add; k++ {
			addrs = append(addrs, cluster.ValidatorAddresses{
				FeeRecipientAddress: "0x0000000000000000000000000000000000000001",
				WithdrawalAddress:   "0x0000000000000000000000000000000000000002",
			})
		}
		appendConfigs[i] = dkg.AppendConfig{AddValidators: c.Add, ValidatorAddresses: addrs, ClusterLock: prevLock, SecretShares: prevSecrets, DepositData: dd}
	}
	dstDir := t.TempDir()
	for _, i := range c.Dirty { // strays: the artefacts of the FIRST ceremony (a different lock than the one about to be written)
		if err := c11rStrays(path.Join(srcDir, fmt.Sprintf("node%d", i)), path.Join(dstDir, fmt.Sprintf("node%d", i))); err != nil {
			t.Fatal(err)
		}
	}
	if err := c11rRun(t, lock.Definition, dstDir, keys, appendConfigs); err != nil {
		return "dkg:honest-ceremony-fails", fmt.Sprintf("add-validators dkg.Run (%s, +%d validators) among %d honest nodes fails: %v", c.Algo, c.Add, c.N, err)
	}
	key, what := c11rArtefacts(t, c, dstDir, c.Vals+c.Add, checks)
	if key != "" {
		what = fmt.Sprintf("after the add-validators ceremony (%d existing + %d new validators): %s", c.Vals, c.Add, what)
		if len(c.Dirty) > 0 {
			what = fmt.Sprintf("data dirs of nodes %v held stray siblings of the output artefacts (cluster-lock.json.tmp/.bak/~, validator_keys.tmp/ ...: the valid artefacts of the first ceremony) before the second dkg.Run; %s", c.Dirty, what)
		}
	}
	return key, what
}

// c11rKMMonitor: dkg.Run returning nil on a node => that node's key shares are held by its keymanager (or on disk) and
// match the public shares published for it in its (verifying) lock. A node whose import failed must return an error.
func c11rKMMonitor(t *testing.T, c *c11rCeremony, dir string, errs []error, checks map[string]int) (string, string) {
	t.Helper()
	for i, e := range errs {
		if e != nil {
			c.NodeErrs = append(c.NodeErrs, fmt.Sprintf("node %d: %v", i, e))
		}
	}
	for i := 0; i < c.N; i++ {
		mode := ""
		if i < len(c.KM) {
			mode = c.KM[i]
		}
		if errs[i] != nil {
			continue // not successful on this node: the property promises nothing for it
		}
		checks["keymanager_node_success_checked"]++
		dataDir := path.Join(dir, fmt.Sprintf("node%d", i))
		lock, err := dkg.LoadAndVerifyClusterLock(context.Background(), path.Join(dataDir, "cluster-lock.json"), "", false)
		if err != nil {
			return "dkg:lock-does-not-verify", fmt.Sprintf("node %d returned nil but its cluster-lock.json does not load/verify: %v", i, err)
		}
		var secrets []tbls.PrivateKey
		where := "on disk"
		if k := c.kms[i]; k != nil && mode == "ok" {
			where = "in its keymanager"
			if secrets, err = k.secrets(t); err != nil {
				return "dkg:keystores-do-not-load", fmt.Sprintf("node %d: what the keymanager accepted does not load: %v", i, err)
			}
		}
		if len(secrets) == 0 {
			if s, err := dkg.LoadSecrets(path.Join(dataDir, "validator_keys")); err == nil {
				secrets, where = s, "on disk"
			}
		}
		if len(secrets) != len(lock.Validators) {
			imp := 0
			if k := c.kms[i]; k != nil {
				imp = k.imports
			}
			return "dkg:success-without-key-shares", fmt.Sprintf("node %d (keymanager mode %q, %d import request(s) received) returned nil from dkg.Run and wrote a lock with %d validators, but holds %d secret shares (keymanager and disk)",
				i, mode, imp, len(lock.Validators), len(secrets))
		}
		for v := range lock.Validators {
			checks["keymanager_share_matches_lock"]++
			pk, err := tbls.SecretToPublicKey(secrets[v])
			if err != nil || !bytes.Equal(pk[:], lock.Validators[v].PubShares[i]) {
				return "dkg:secret-share-mismatch", fmt.Sprintf("node %d: the secret share of validator %d held %s does not match lock.Validators[%d].PubShares[%d]", i, v, where, v, i)
			}
		}
	}
	return "", ""
}

func TestVerifC11Run(t *testing.T) {
	seed := 1
	if s := os.Getenv("VERIF_SEED"); s != "" {
		if v, err := strconv.Atoi(s); err == nil {
			seed = v
		}
	}
	thorough := os.Getenv("VERIF_TIER") == "thorough"
	out := c11rOut{Checks: map[string]int{}, Dist: map[string]int{}}
	var todo []c11rCeremony
	if p := os.Getenv("VERIF_REPLAY"); p != "" {
		var wrap struct {
			Replay c11rCeremony `json:"replay"`
		}
		b, err := os.ReadFile(p)
		if err != nil {
			t.Fatal(err)
		}
		if err := json.Unmarshal(b, &wrap); err != nil {
			t.Fatal(err)
		}
		if !wrap.Replay.FullRun {
			t.Skip("not a dkg.Run replay")
		}
		r := wrap.Replay
		todo = append(todo, c11rCeremony{Algo: r.Algo, Flow: r.Flow, N: r.N, T: r.T, Vals: r.Vals, Add: r.Add, Seed: r.Seed, FullRun: true, Drop: r.Drop, NoVerify: r.NoVerify, Dirty: r.Dirty, KM: r.KM})
	} else if thorough {
		todo = []c11rCeremony{
			{Algo: "frost", Flow: "run", N: 3, T: 2, Vals: 2},
			{Algo: "pedersen", Flow: "run", N: 4, T: 3, Vals: 1},
			{Algo: "default", Flow: "append", N: 4, T: 3, Vals: 2, Add: 1},
			{Algo: "pedersen", Flow: "append", N: 3, T: 2, Vals: 1, Add: 2},
			{Algo: "frost", Flow: "run", N: 5, T: 2, Vals: 1},
			{Algo: "pedersen", Flow: "lossy", N: 4, T: 3, Vals: 1, Drop: &c11rDrop{Kind: "deal", From: 2, To: 0}},
			{Algo: "pedersen", Flow: "lossy", N: 4, T: 3, Vals: 1, Drop: &c11rDrop{Kind: "resp", From: 1, To: 3}},
		}
		todo[2].Dirty, todo[3].Dirty = []int{0, 3}, []int{1}
		todo = append(todo,
			c11rCeremony{Algo: "frost", Flow: "dirty", N: 3, T: 2, Vals: 1, Dirty: []int{0, 2}},
			c11rCeremony{Algo: "pedersen", Flow: "dirty", N: 4, T: 3, Vals: 2, Dirty: []int{1}},
			c11rCeremony{Algo: "frost", Flow: "keymanager", N: 3, T: 2, Vals: 1, KM: []string{"500", "ok", ""}},
			c11rCeremony{Algo: "frost", Flow: "keymanager", N: 4, T: 3, Vals: 2, KM: []string{"ok", "hang", "", "ok"}},
			c11rCeremony{Algo: "pedersen", Flow: "keymanager", N: 3, T: 2, Vals: 1, KM: []string{"ok", "ok", "ok"}},
			c11rCeremony{Algo: "default", Flow: "keymanager", N: 3, T: 3, Vals: 2, KM: []string{"", "", "500"}})
		// thresholds below ceil(2n/3), with and without lock verification at the end of the ceremony
		for _, nt := range [][2]int{{4, 2}, {5, 3}, {5, 2}} {
			for _, nv := range []bool{true, false} {
				todo = append(todo, c11rCeremony{Algo: "frost", Flow: "run", N: nt[0], T: nt[1], Vals: 1, NoVerify: nv})
			}
		}
		// more than 7 nodes (share indices beyond 7), no-verify: every node's keystore against the lock's public share at its index
		todo = append(todo, c11rCeremony{Algo: "frost", Flow: "run", N: 8, T: 6, Vals: 1, NoVerify: true},
			c11rCeremony{Algo: "frost", Flow: "run", N: 9, T: 6, Vals: 1, NoVerify: true})
		todo = append(todo, c11rCeremony{Algo: "pedersen", Flow: "run", N: 4, T: 2, Vals: 1, NoVerify: true},
			c11rCeremony{Algo: "pedersen", Flow: "run", N: 5, T: 3, Vals: 1, NoVerify: false})
	} else {
		// quick: one append scenario (= one plain ceremony, its artefacts checked, then the add-validators ceremony)
		// the algorithm and the shape rotate with the seed
		shapes := []c11rCeremony{
			{Algo: "frost", Flow: "append", N: 3, T: 2, Vals: 2, Add: 1},
			{Algo: "pedersen", Flow: "append", N: 3, T: 2, Vals: 1, Add: 2},
			{Algo: "default", Flow: "append", N: 4, T: 3, Vals: 1, Add: 1},
		}
		ap := shapes[(seed-1+len(shapes)*1000)%len(shapes)]
		ap.Dirty = []int{seed % ap.N, (seed + 2) % ap.N} // stray artefacts of the first ceremony in some data dirs of the second
		other := "pedersen"
		if ap.Algo == "pedersen" {
			other = "frost"
		}
		// ... plus one plain FROST ceremony with a LOW threshold (below ceil(2n/3)) and lock verification switched off
		// (--no-verify), the (n, t) rotating by seed; and, when the append scenario is not pedersen, one such pedersen
		// ceremony, so that both algorithms are run through dkg.Run every time
		low := [][2]int{{4, 2}, {5, 3}, {5, 2}}[(seed+1+3000)%3]
		todo = []c11rCeremony{ap, {Algo: "frost", Flow: "run", N: low[0], T: low[1], Vals: 1, NoVerify: true}}
		if other == "pedersen" {
			todo = append(todo, c11rCeremony{Algo: "pedersen", Flow: "run", N: 4, T: 2, Vals: 1, NoVerify: true})
		}
		// one keymanager scenario: node 0's import is answered with 500 (or hangs, by seed), node 1's keymanager is healthy, the rest use the disk
		bad := []string{"500", "500", "hang"}[seed%3]
		todo = append(todo, c11rCeremony{Algo: "frost", Flow: "keymanager", N: 3, T: 2, Vals: 1, KM: []string{bad, "ok", ""}})
		if os.Getenv("VERIF_C11_LOSSY") != "" || seed%3 == 0 {
			// corpus: the minimised input of reading note N-C11-QUAL through the full ceremony (rotates in every third seed at quick)
			todo = append(todo, c11rCeremony{Algo: "pedersen", Flow: "lossy", N: 4, T: 3, Vals: 1, Drop: &c11rDrop{Kind: "deal", From: 2, To: 0}})
		}
	}
	for i := range todo {
		c := &todo[i]
		c.ID, c.FullRun = i, true
		if c.Seed == 0 {
			c.Seed = seed
		}
		start := time.Now()
		key, what := c11rScenario(t, c, out.Checks)
		c.Seconds = time.Since(start).Seconds()
		out.Dist["dkg.Run_"+c.Algo+"_"+c.Flow]++
		if c.NoVerify {
			out.Dist["dkg.Run_no_verify"]++
		}
		if len(c.Dirty) > 0 {
			out.Dist["dkg.Run_dirty_data_dirs"]++
		}
		for _, m := range c.KM {
			if m != "" {
				out.Dist["dkg.Run_keymanager_"+m]++
			}
		}
		if 3*c.T < 2*c.N {
			out.Dist["dkg.Run_threshold_below_two_thirds"]++
		}
		if key != "" {
			if key == "dkg:honest-ceremony-fails" {
				c.Err = what
			}
			out.Violations = append(out.Violations, c11rViolation{Key: key,
				What:   fmt.Sprintf("full dkg.Run (%s %s, n=%d, threshold recorded in the lock t=%d, %d validators, no-verify=%v); artefacts: %s", c.Algo, c.Flow, c.N, c.T, c.Vals, c.NoVerify, what),
				Replay: *c})
		}
		out.Ceremonies = append(out.Ceremonies, *c)
	}
	b, err := json.MarshalIndent(out, "", " ")
	if err != nil {
		t.Fatal(err)
	}
	if err := os.WriteFile(filepath.Join(os.Getenv("VERIF_OUT"), "c11run_cases.json"), b, 0o644); err != nil {
		t.Fatal(err)
	}
}
