//go:build verif

// C13, consumer family.  In-package test mapped into /repo/dkg with `go test -overlay` (nothing in /repo changes).
//
// The bcast theorems are about deliveries THROUGH bcast.  This test checks that the applications of bcast (the way
// dkg.Run wires them: pedersen.NewBoard, newFrostP2P, newNodeSigBcast on one libp2p host with one bcast component)
// give their delivery channels no other entrance:
//   (a) structural: the protocol ids registered on the host after each consumer was built are recorded; the check
//       script compares the non-bcast ones with the allow-list observed on the clean tree;
//   (b) behavioural: a faulty peer (a member of the cluster, own k1 key, real libp2p host on localhost) opens a
//       stream on EVERY registered protocol id that is not one of bcast's own, and on every bcast message id used
//       as a protocol id, and sends a well-formed payload of every bcast message type (raw and wrapped in Any).
//       After the victim's handler has finished (the stream is read to EOF) nothing may have arrived on the
//       consumer's delivery channel / slot: the faulty peer never took part in bcast's signature round.
package dkg

import (
	"context"
	"encoding/json"
	"io"
	"os"
	"path/filepath"
	"sort"
	"strings"
	"testing"
	"time"

	k1 "github.com/decred/dcrd/dcrec/secp256k1/v4"
	"github.com/libp2p/go-libp2p"
	p2pcrypto "github.com/libp2p/go-libp2p/core/crypto"
	"github.com/libp2p/go-libp2p/core/host"
	"github.com/libp2p/go-libp2p/core/peer"
	"github.com/libp2p/go-libp2p/core/peerstore"
	"github.com/libp2p/go-libp2p/core/protocol"
	"github.com/libp2p/go-libp2p/p2p/transport/tcp"
	"github.com/libp2p/go-msgio/pbio"
	"github.com/multiformats/go-multiaddr"
	"google.golang.org/protobuf/proto"
	"google.golang.org/protobuf/types/known/anypb"

	"github.com/obolnetwork/charon/cluster"
	"github.com/obolnetwork/charon/dkg/bcast"
	pb "github.com/obolnetwork/charon/dkg/dkgpb/v1"
	"github.com/obolnetwork/charon/dkg/pedersen"
	"github.com/obolnetwork/charon/p2p"
)

type c13Probe struct {
	MsgID     string `json:"msg_id"`
	Protocol  string `json:"protocol"`
	Wrapped   bool   `json:"wrapped_in_any"`
	StreamOK  bool   `json:"stream_ok"`
	Delivered string `json:"delivered,omitempty"` // name of the delivery channel something arrived on
}

type c13Out struct {
	Protocols map[string][]string `json:"protocols"` // component -> protocol ids it added to the host
	BcastIDs  []string            `json:"bcast_message_ids"`
	Probes    []c13Probe          `json:"probes"`
	Notes     []string            `json:"notes,omitempty"`
}

func c13Host(t *testing.T, secret *k1.PrivateKey) host.Host {
	t.Helper()
	addr, err := multiaddr.NewMultiaddr("/ip4/127.0.0.1/tcp/0")
	if err != nil {
		t.Fatal(err)
	}
	h, err := libp2p.New(libp2p.Identity((*p2pcrypto.Secp256k1PrivateKey)(secret)), libp2p.ListenAddrs(addr),
		libp2p.Transport(tcp.NewTCPTransport, tcp.DisableReuseport()))
	if err != nil {
		t.Fatal(err)
	}
	t.Cleanup(func() { _ = h.Close() })
	return h
}

func c13Protocols(h host.Host) []string {
	var out []string
	for _, p := range h.Mux().Protocols() {
		out = append(out, string(p))
	}
	sort.Strings(out)
	return out
}

func c13Diff(after, before []string) []string {
	seen := map[string]bool{}
	for _, b := range before {
		seen[b] = true
	}
	out := []string{}
	for _, a := range after {
		if !seen[a] {
			out = append(out, a)
		}
	}
	return out
}

func TestVerifC13Consumers(t *testing.T) {
	const n = 3
	var (
		secrets []*k1.PrivateKey
		hosts   []host.Host
		ids     []peer.ID
	)
	for i := 0; i < n; i++ {
		sk, err := k1.GeneratePrivateKey()
		if err != nil {
			t.Fatal(err)
		}
		secrets = append(secrets, sk)
		hosts = append(hosts, c13Host(t, sk))
		ids = append(ids, hosts[i].ID())
	}
	for i := range hosts {
		for j := range hosts {
			if i != j {
				hosts[i].Peerstore().AddAddrs(ids[j], hosts[j].Addrs(), peerstore.PermanentAddrTTL)
			}
		}
	}
	const victim, faulty = 0, 2
	v := hosts[victim]
	peerMap := map[peer.ID]cluster.NodeIdx{}
	var peers []p2p.Peer
	for i, id := range ids {
		peerMap[id] = cluster.NodeIdx{PeerIdx: i, ShareIdx: i + 1}
		peers = append(peers, p2p.Peer{ID: id, Index: i, Name: p2p.PeerName(id)})
	}
	session := []byte("verif-c13-consumers")
	out := c13Out{Protocols: map[string][]string{}}

	ctx, cancel := context.WithCancel(context.Background())
	defer cancel()

	// The wiring of dkg.Run on the victim's host.
	p0 := c13Protocols(v)
	comp := bcast.New(v, ids, secrets[victim], session)
	p1 := c13Protocols(v)
	out.Protocols["bcast"] = c13Diff(p1, p0)
	board := pedersen.NewBoard(ctx, v, pedersen.NewConfig(ids[victim], peerMap, 2, session, time.Second, nil), comp)
	p2 := c13Protocols(v)
	out.Protocols["pedersen.NewBoard"] = c13Diff(p2, p1)
	const threshold, numVals = 2, 1
	fr, err := newFrostP2P(v, peerMap, comp, threshold, numVals)
	if err != nil {
		t.Fatal(err)
	}
	p3 := c13Protocols(v)
	out.Protocols["newFrostP2P"] = c13Diff(p3, p2)
	ns := newNodeSigBcast(peers, peerMap[ids[victim]], comp)
	p4 := c13Protocols(v)
	out.Protocols["newNodeSigBcast"] = c13Diff(p4, p3)

	// Well-formed payloads of every bcast message type, as the faulty member would legitimately send them.
	share := uint32(peerMap[ids[faulty]].ShareIdx)
	pedID := "/charon/dkg/pedersen/1.0.0/node_pubkeys" // pedersen.nodePubKeysMsg
	payloads := map[string]proto.Message{
		pedID: &pb.NodePubKeyMessage{SessionId: session, PublicKey: []byte("verif-unsigned-key")},
		round1CastID: &pb.FrostRound1Casts{Casts: []*pb.FrostRound1Cast{{Key: &pb.FrostMsgKey{ValIdx: 0, SourceId: share, TargetId: 0},
			Wi: []byte{1}, Ci: []byte{2}, Commitments: [][]byte{{3}, {4}}}}},
		round2CastID: &pb.FrostRound2Casts{Casts: []*pb.FrostRound2Cast{{Key: &pb.FrostMsgKey{ValIdx: 0, SourceId: share, TargetId: 0},
			VerificationKey: []byte{5}, VkShare: []byte{6}}}},
		nodeSigMsgID: &pb.MsgNodeSig{Signature: noneData, PeerIndex: uint32(faulty)},
	}
	for id := range payloads {
		out.BcastIDs = append(out.BcastIDs, id)
	}
	sort.Strings(out.BcastIDs)

	// What counts as a delivery.
	arrived := func() string {
		select {
		case <-board.IncomingNodePubKeys():
			return "pedersen.Board.IncomingNodePubKeys"
		default:
		}
		select {
		case <-fr.round1CastsRecv:
			return "frostP2P.round1CastsRecv"
		default:
		}
		select {
		case <-fr.round2CastsRecv:
			return "frostP2P.round2CastsRecv"
		default:
		}
		ns.sigsLock.Lock()
		defer ns.sigsLock.Unlock()
		for i, s := range ns.sigs {
			if len(s) != 0 {
				ns.sigs[i] = nil
				return "nodeSigBcast.sigs"
			}
		}
		return ""
	}

	bcastOwn := map[string]bool{}
	for _, p := range out.Protocols["bcast"] {
		bcastOwn[p] = true
	}
	targets := map[string]bool{}
	for _, p := range p4 {
		if !bcastOwn[p] {
			targets[p] = true
		}
	}
	for id := range payloads { // a bcast message id used as a protocol id
		targets[id] = true
	}
	var tlist []string
	for p := range targets {
		tlist = append(tlist, p)
	}
	sort.Strings(tlist)

	send := func(prot string, m proto.Message) bool {
		sctx, scancel := context.WithTimeout(ctx, 10*time.Second)
		defer scancel()
		st, err := hosts[faulty].NewStream(sctx, ids[victim], protocol.ID(prot))
		if err != nil {
			return false
		}
		defer st.Close()
		_ = st.SetDeadline(time.Now().Add(10 * time.Second))
		if err := pbio.NewDelimitedWriter(st).WriteMsg(m); err != nil {
			return false
		}
		_ = st.CloseWrite()
		_, _ = io.Copy(io.Discard, st) // returns when the victim's handler has finished and closed the stream
		return true
	}

	for _, id := range out.BcastIDs {
		for _, prot := range tlist {
			for _, wrapped := range []bool{false, true} {
				m := payloads[id]
				if wrapped {
					a, err := anypb.New(m)
					if err != nil {
						t.Fatal(err)
					}
					m = a
				}
				ok := send(prot, m)
				pr := c13Probe{MsgID: id, Protocol: prot, Wrapped: wrapped, StreamOK: ok, Delivered: arrived()}
				out.Probes = append(out.Probes, pr)
			}
		}
	}
	if strings.TrimSpace(arrived()) != "" {
		out.Notes = append(out.Notes, "a delivery arrived after the probes ended")
	}

	dir := os.Getenv("VERIF_OUT")
	if dir == "" {
		dir = os.TempDir()
	}
	b, _ := json.MarshalIndent(out, "", " ")
	if err := os.WriteFile(filepath.Join(dir, "bcast_consumers.json"), b, 0o644); err != nil {
		t.Fatal(err)
	}
}
