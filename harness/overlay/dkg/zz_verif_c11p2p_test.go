//go:build verif

// In-package test mapped into /repo/dkg with `go test -overlay` together with zz_verif_c11_test.go
// (it reuses that file's record types and the consistency monitor c11Check).
//
// History class "real transport": runFrostParallel on every node over the REAL frostP2P transport
// (newBcastCallback, newP2PCallback, frostP2P.Round1/Round2, makeRound1Response/makeRound2Response,
// real libp2p hosts on localhost for the round-1 p2p shares). Only the delivery of the reliable
// broadcast is an in-process stand-in for frostP2P.bcastFunc that calls the registered bcast callback
// the way dkg/bcast's server does for every validly signed copy of a message — so the harness
// controls ORDER and MULTIPLICITY of deliveries: shuffled exactly-once, identical re-deliveries of
// round-1 casts / round-2 casts / p2p shares, and "a duplicate of A arrives before the (late) message
// of B" for each of the three message kinds. A correct node ignores re-deliveries and keeps waiting
// for B; the full consistency monitor must hold on every ceremony that reports success.
package dkg

import (
	"context"
	"encoding/json"
	"fmt"
	"math/rand"
	"os"
	"path/filepath"
	"strconv"
	"sync"
	"testing"
	"time"

	"github.com/coinbase/kryptology/pkg/core/curves"
	"github.com/coinbase/kryptology/pkg/dkg/frost"
	"github.com/coinbase/kryptology/pkg/sharing"
	k1 "github.com/decred/dcrd/dcrec/secp256k1/v4"
	"github.com/libp2p/go-libp2p/core/host"
	"github.com/libp2p/go-libp2p/core/peer"
	"github.com/libp2p/go-libp2p/core/peerstore"
	"google.golang.org/protobuf/proto"

	"github.com/obolnetwork/charon/cluster"
	pb "github.com/obolnetwork/charon/dkg/dkgpb/v1"
	"github.com/obolnetwork/charon/dkg/share"
	"github.com/obolnetwork/charon/p2p"
	"github.com/obolnetwork/charon/testutil"
)

// c11pConfig is one ceremony over the real transport; it is also the replay format (embedded in c11Ceremony.P2P).
type c11pConfig struct {
	Class   string `json:"class"` // shuffled | duplicates | late_r1cast | late_p2p | late_r2cast
	Victim  int    `json:"victim"`  // node (0-based) that sees the re-delivery and the late message
	Resend  int    `json:"resend"`  // node whose message reaches the victim more than once
	Delayed int    `json:"delayed"` // node whose message reaches the victim last
	Copies  int    `json:"copies"`
	// Fault makes node Faulty (0-based) a FAULTY participant (class "faulty"): thr_plus1 | thr_minus1 (it runs with threshold +-1),
	// extra_commitment | drop_commitment, bad_validx | bad_source | bad_target (fields of a round-1 cast), share_wrong_target,
	// swap_validators (p2p shares of two validators exchanged). Equivocation (a cast that differs per receiver) is not
	// simulated: the reliable broadcast (property C13) which the stand-in replaces makes it undeliverable.
	Fault  string `json:"fault,omitempty"`
	Faulty int    `json:"faulty,omitempty"`
	// forged_source: the faulty node's (single, identical for all receivers) round-1 broadcast carries at position Pos >= 1
	// an extra cast whose key claims share index Claim as source (another member, a non-member n+1). Receivers with an even
	// index get it AFTER the genuine cast of the claimed member, odd ones BEFORE it.
	Claim int `json:"claim,omitempty"`
	Pos   int `json:"pos,omitempty"`
}

// c11pLastAttrib: result of the attribution monitor of the last ceremony ("" = every round-1 cast a node ended with
// under source s is the one s broadcast).
var c11pLastAttrib string

func c11pFinger(b frost.Round1Bcast) string {
	out := fmt.Sprintf("%x|%x", b.Wi.Bytes(), b.Ci.Bytes())
	if b.Verifiers != nil {
		for _, cm := range b.Verifiers.Commitments {
			out += fmt.Sprintf("|%x", cm.ToAffineCompressed())
		}
	}
	return out
}

const (
	c11pKindR1 = "r1cast"
	c11pKindR2 = "r2cast"
	c11pKindP  = "p2p"
)

type c11pNet struct {
	n     int
	cfg   c11pConfig
	r     *rand.Rand
	rmu   sync.Mutex
	ctx   context.Context
	mu    sync.Mutex
	seen  map[string]map[int]bool // kind -> to*1000+from delivered at least once
	r1Ret []chan struct{}
	r2Ret []chan struct{}
	cbErr []string
	sent  map[msgKey]string         // what every source really broadcast in round 1
	got   map[int]map[msgKey]string // what every node's transport returned from Round1
}

// waitSeen blocks (bounded) until `kind` of node from was handed to node to.
func (nw *c11pNet) waitSeen(kind string, from, to int) {
	deadline := time.Now().Add(3 * time.Second)
	for time.Now().Before(deadline) && nw.ctx.Err() == nil {
		nw.mu.Lock()
		ok := nw.seen[kind][to*1000+from]
		nw.mu.Unlock()
		if ok {
			return
		}
		time.Sleep(time.Millisecond)
	}
}

func (nw *c11pNet) intn(k int) int {
	nw.rmu.Lock()
	defer nw.rmu.Unlock()
	return nw.r.Intn(k)
}

func (nw *c11pNet) mark(kind string, from, to int) {
	nw.mu.Lock()
	defer nw.mu.Unlock()
	if nw.seen[kind] == nil {
		nw.seen[kind] = map[int]bool{}
	}
	nw.seen[kind][to*1000+from] = true
}

// others reports whether every node except `except` (and the victim itself) has delivered `kind` to the victim.
func (nw *c11pNet) others(kind string, victim, except int) bool {
	nw.mu.Lock()
	defer nw.mu.Unlock()
	for from := 0; from < nw.n; from++ {
		if from == victim || from == except {
			continue
		}
		if !nw.seen[kind][victim*1000+from] {
			return false
		}
	}
	return true
}

// holdLate blocks until everything else the victim waits for in the round has been handed to it, then until
// the victim left the round (a faulty node does, promptly) or a grace period passed (a correct node keeps waiting).
func (nw *c11pNet) holdLate(kind string) {
	v, d := nw.cfg.Victim, nw.cfg.Delayed
	deadline := time.Now().Add(10 * time.Second)
	ready := func() bool {
		switch kind {
		case c11pKindR1:
			return nw.others(c11pKindR1, v, d) && nw.others(c11pKindP, v, -1)
		case c11pKindP:
			return nw.others(c11pKindR1, v, -1) && nw.others(c11pKindP, v, d)
		default:
			return nw.others(c11pKindR2, v, d)
		}
	}
	for !ready() && time.Now().Before(deadline) && nw.ctx.Err() == nil {
		time.Sleep(time.Millisecond)
	}
	ret := nw.r1Ret[v]
	if kind == c11pKindR2 {
		ret = nw.r2Ret[v]
	}
	select {
	case <-ret:
	case <-time.After(250 * time.Millisecond):
	case <-nw.ctx.Done():
	}
}

// plan returns how many copies of the message from->to of the given kind are delivered and whether it is held back.
func (nw *c11pNet) plan(kind string, from, to int) (copies int, late bool) {
	c := nw.cfg
	copies = 1
	lateKind := map[string]string{"late_r1cast": c11pKindR1, "late_p2p": c11pKindP, "late_r2cast": c11pKindR2}[c.Class]
	switch {
	case c.Class == "duplicates":
		if nw.intn(3) == 0 {
			copies = 2 + nw.intn(2)
		}
	case lateKind == kind && to == c.Victim && from == c.Resend:
		copies = c.Copies
	case lateKind == kind && to == c.Victim && from == c.Delayed:
		late = true
	}
	return copies, late
}

// dispatch performs the deliveries of one message according to the plan.
func (nw *c11pNet) dispatch(kind string, from, to int, deliver func()) {
	copies, late := nw.plan(kind, from, to)
	run := func() {
		for i := 0; i < copies; i++ {
			deliver()
		}
		nw.mark(kind, from, to)
	}
	// every delivery runs in its own goroutine: a callback of a faulty node may block for ever on a full channel
	// and must not take the sender (or the harness) with it; ordering is enforced by holdLate.
	d := time.Duration(0)
	if nw.cfg.Class == "shuffled" || nw.cfg.Class == "duplicates" {
		d = time.Duration(nw.intn(400)) * time.Microsecond
	}
	go func() {
		if late {
			nw.holdLate(kind)
		} else if d > 0 {
			time.Sleep(d)
		}
		if f := nw.cfg; f.Fault == "forged_source" && kind == c11pKindR1 && f.Claim >= 1 && f.Claim <= nw.n && f.Claim-1 != f.Faulty {
			v := f.Claim - 1 // the member whose source id is claimed
			switch {
			case from == f.Faulty && to%2 == 0 && to != v:
				nw.waitSeen(kind, v, to) // forged message after the genuine cast
			case from == v && to%2 == 1 && to != f.Faulty:
				nw.waitSeen(kind, f.Faulty, to) // genuine cast after the forged message
			}
		}
		run()
	}()
}

type c11pTransport struct {
	inner *frostP2P
	r1Ret chan struct{}
	r2Ret chan struct{}
	fault string // set on the faulty participant only
	n     int
	vals  int
	nw    *c11pNet
	self  int
}

// tamper applies the faulty participant's deviation to what it sends in round 1.
func (w c11pTransport) tamper(c map[msgKey]frost.Round1Bcast, s map[msgKey]sharing.ShamirShare) (map[msgKey]frost.Round1Bcast, map[msgKey]sharing.ShamirShare) {
	c2 := map[msgKey]frost.Round1Bcast{}
	s2 := map[msgKey]sharing.ShamirShare{}
	first := true
	for k, v := range c {
		if k.ValIdx == 0 && first {
			first = false
			switch w.fault {
			case "bad_validx":
				k.ValIdx = uint32(w.vals)
			case "bad_source":
				k.SourceID = k.SourceID%uint32(w.n) + 1
			case "bad_target":
				k.TargetID = 1
			case "extra_commitment":
				cm := append(append([]curves.Point(nil), v.Verifiers.Commitments...), v.Verifiers.Commitments[0])
				v.Verifiers = &sharing.FeldmanVerifier{Commitments: cm}
			case "drop_commitment":
				cm := v.Verifiers.Commitments
				v.Verifiers = &sharing.FeldmanVerifier{Commitments: append([]curves.Point(nil), cm[:len(cm)-1]...)}
			}
		}
		c2[k] = v
	}
	var moved bool
	for k, v := range s {
		switch {
		case w.fault == "share_wrong_target" && !moved:
			moved = true
			for t := uint32(1); t <= uint32(w.n); t++ {
				if t != k.TargetID && t != k.SourceID {
					k.TargetID = t
					break
				}
			}
		case w.fault == "swap_validators" && w.vals > 1 && k.ValIdx < 2:
			k.ValIdx = 1 - k.ValIdx
		}
		s2[k] = v
	}
	return c2, s2
}

func (w c11pTransport) Round1(ctx context.Context, c map[msgKey]frost.Round1Bcast, s map[msgKey]sharing.ShamirShare,
) (map[msgKey]frost.Round1Bcast, map[msgKey]sharing.ShamirShare, error) {
	defer close(w.r1Ret)
	if w.fault != "" {
		c, s = w.tamper(c, s)
	}
	w.nw.mu.Lock()
	for k, v := range c { // what this node really broadcasts (after its own deviation, if it is the faulty one)
		w.nw.sent[k] = c11pFinger(v)
	}
	w.nw.mu.Unlock()
	rc, rs, err := w.inner.Round1(ctx, c, s)
	if err == nil {
		w.nw.mu.Lock()
		m := map[msgKey]string{}
		for k, v := range rc {
			m[k] = c11pFinger(v)
		}
		w.nw.got[w.self] = m
		w.nw.mu.Unlock()
	}
	return rc, rs, err
}

func (w c11pTransport) Round2(ctx context.Context, c map[msgKey]frost.Round2Bcast) (map[msgKey]frost.Round2Bcast, error) {
	defer close(w.r2Ret)
	return w.inner.Round2(ctx, c)
}

// c11pRun runs one ceremony over the real frostP2P transport.
func c11pRun(t *testing.T, c *c11Ceremony) ([][]share.Share, error) {
	t.Helper()
	n := c.N
	limit := 25 * time.Second
	if c.P2P.Fault != "" {
		limit = 4 * time.Second // honest nodes that reject the faulty participant's message wait for it until their context expires
	}
	ctx, cancel := context.WithTimeout(context.Background(), limit)
	defer cancel()
	nw := &c11pNet{n: n, cfg: *c.P2P, r: rand.New(rand.NewSource(c.OrderSeed)), ctx: ctx, seen: map[string]map[int]bool{}, sent: map[msgKey]string{}, got: map[int]map[msgKey]string{}}

	var (
		hosts   = make([]host.Host, n)
		tps     = make([]*frostP2P, n)
		peerMap = make(map[peer.ID]cluster.NodeIdx)
		byShare = make(map[uint32]peer.ID)
	)
	for i := 0; i < n; i++ {
		secret, err := k1.GeneratePrivateKey()
		if err != nil {
			t.Fatal(err)
		}
		hosts[i] = testutil.CreateHostWithIdentity(t, testutil.AvailableAddr(t), secret)
		peerMap[hosts[i].ID()] = cluster.NodeIdx{PeerIdx: i, ShareIdx: i + 1}
		byShare[uint32(i+1)] = hosts[i].ID()
		nw.r1Ret = append(nw.r1Ret, make(chan struct{}))
		nw.r2Ret = append(nw.r2Ret, make(chan struct{}))
	}
	defer func() {
		for _, h := range hosts {
			_ = h.Close()
		}
	}()
	for i := range hosts {
		for j := range hosts {
			if i != j {
				hosts[i].Peerstore().AddAddrs(hosts[j].ID(), hosts[j].Addrs(), peerstore.PermanentAddrTTL)
			}
		}
	}
	cbFail := func(where string, err error) {
		if err != nil {
			nw.mu.Lock()
			nw.cbErr = append(nw.cbErr, where+": "+err.Error())
			nw.mu.Unlock()
		}
	}
	callbacks := make([]func(ctx context.Context, pID peer.ID, msgID string, m proto.Message) error, n)
	for i := 0; i < n; i++ {
		// Same wiring as newFrostP2P, except that bcastFunc is the in-process stand-in and the p2p handler is wrapped.
		r1Casts := make(chan *pb.FrostRound1Casts, n)
		r1P2P := make(chan *pb.FrostRound1P2P, n)
		r2Casts := make(chan *pb.FrostRound2Casts, n)
		to := i
		inner := newP2PCallback(hosts[i], peerMap, r1P2P, c.Vals)
		p2p.RegisterHandler("frost", hosts[i], round1P2PID,
			func() proto.Message { return new(pb.FrostRound1P2P) },
			func(hctx context.Context, pID peer.ID, req proto.Message) (proto.Message, bool, error) {
				from := peerMap[pID].PeerIdx
				nw.dispatch(c11pKindP, from, to, func() {
					_, _, err := inner(ctx, pID, proto.Clone(req))
					cbFail(fmt.Sprintf("p2p callback of node %d for node %d", to, from), err)
				})
				return nil, false, nil
			},
		)
		callbacks[i] = newBcastCallback(peerMap, r1Casts, r2Casts, c.T, c.Vals)
		from := i
		tps[i] = &frostP2P{
			p2pNode: hosts[i],
			peers:   byShare,
			bcastFunc: func(bctx context.Context, msgID string, msg proto.Message) error {
				kind := c11pKindR1
				if msgID == round2CastID {
					kind = c11pKindR2
				}
				nw.rmu.Lock()
				order := nw.r.Perm(n)
				nw.rmu.Unlock()
				for _, to := range order {
					if to == from {
						continue // reliable broadcast does not deliver to self
					}
					to := to
					out := proto.Clone(msg)
					if f := c.P2P; f.Fault == "forged_source" && from == f.Faulty && kind == c11pKindR1 {
						// ONE payload for all receivers: the genuine casts plus, at position Pos >= 1, a cast claiming another source
						if m, ok := out.(*pb.FrostRound1Casts); ok && len(m.Casts) > 0 {
							forged, _ := proto.Clone(m.Casts[0]).(*pb.FrostRound1Cast)
							forged.Key.SourceId = uint32(f.Claim)
							pos := f.Pos
							if pos < 1 {
								pos = 1
							}
							if pos > len(m.Casts) {
								pos = len(m.Casts)
							}
							m.Casts = append(m.Casts[:pos], append([]*pb.FrostRound1Cast{forged}, m.Casts[pos:]...)...)
						}
					}
					nw.dispatch(kind, from, to, func() {
						cbFail(fmt.Sprintf("bcast callback of node %d for %s of node %d", to, kind, from),
							callbacks[to](ctx, hosts[from].ID(), msgID, proto.Clone(out)))
					})
				}
				return nil
			},
			round1CastsRecv: r1Casts,
			round1P2PRecv:   r1P2P,
			round2CastsRecv: r2Casts,
		}
	}

	res := make([][]share.Share, n)
	errs := make([]error, n)
	var wg sync.WaitGroup
	var mu sync.Mutex
	for i := 0; i < n; i++ {
		wg.Add(1)
		go func(i int) {
			defer wg.Done()
			defer func() {
				if p := recover(); p != nil {
					errs[i] = fmt.Errorf("panic: %v", p)
					cancel()
				}
			}()
			tp := c11pTransport{inner: tps[i], r1Ret: nw.r1Ret[i], r2Ret: nw.r2Ret[i], n: n, vals: c.Vals, nw: nw, self: i}
			th := c.T
			if c.P2P.Fault != "" && i == c.P2P.Faulty {
				tp.fault = c.P2P.Fault
				switch c.P2P.Fault {
				case "thr_plus1":
					th++
				case "thr_minus1":
					th--
				}
			}
			res[i], errs[i] = runFrostParallel(ctx, tp, uint32(c.Vals), uint32(n), uint32(th), uint32(i+1), "7")
			if errs[i] != nil {
				cancel()
			}
			mu.Lock()
			c.Done = append(c.Done, i+1)
			mu.Unlock()
		}(i)
	}
	done := make(chan struct{})
	go func() { wg.Wait(); close(done) }()
	select {
	case <-done:
	case <-time.After(35 * time.Second):
		return res, fmt.Errorf("ceremony does not terminate: a node is still inside runFrostParallel 10s after its context expired")
	}
	cancel()
	// attribution monitor (routing_exact): a round-1 cast a node ends with under source s is the one s broadcast
	c11pLastAttrib = ""
	nw.mu.Lock()
	for node := 0; node < n && c11pLastAttrib == ""; node++ {
		for k, fp := range nw.got[node] {
			want, ok := nw.sent[k]
			switch {
			case !ok:
				c11pLastAttrib = fmt.Sprintf("node %d ends round 1 with a cast of validator %d attributed to source %d, which never broadcast one", node+1, k.ValIdx, k.SourceID)
			case want != fp:
				c11pLastAttrib = fmt.Sprintf("node %d ends round 1 with a cast of validator %d attributed to source %d that is NOT the one member %d broadcast", node+1, k.ValIdx, k.SourceID, k.SourceID)
			}
			if c11pLastAttrib != "" {
				break
			}
		}
	}
	nw.mu.Unlock()
	var first error
	for i, err := range errs {
		if err != nil && (first == nil || first.Error() == "context canceled") {
			first = fmt.Errorf("node %d: %w", i+1, err)
		}
	}
	if first != nil {
		return res, first
	}
	nw.mu.Lock()
	defer nw.mu.Unlock()
	if len(nw.cbErr) > 0 && c.P2P.Fault == "" {
		return res, fmt.Errorf("a transport callback rejected an honest message: %s", nw.cbErr[0])
	}
	return res, nil
}

func TestVerifC11P2P(t *testing.T) {
	seed := int64(1)
	if s := os.Getenv("VERIF_SEED"); s != "" {
		if v, err := strconv.ParseInt(s, 10, 64); err == nil {
			seed = v
		}
	}
	thorough := os.Getenv("VERIF_TIER") == "thorough"
	r := rand.New(rand.NewSource(seed ^ 0x5eed))
	out := c11Out{Checks: map[string]int{}, Dist: map[string]int{}}

	var todo []c11Ceremony
	if p := os.Getenv("VERIF_REPLAY"); p != "" {
		var wrap struct {
			Replay c11Ceremony `json:"replay"`
		}
		b, err := os.ReadFile(p)
		if err != nil {
			t.Fatal(err)
		}
		if err := json.Unmarshal(b, &wrap); err != nil {
			t.Fatal(err)
		}
		if wrap.Replay.P2P == nil {
			t.Skip("not a real-transport replay")
		}
		for k := 0; k < 3; k++ {
			cfg := *wrap.Replay.P2P
			todo = append(todo, c11Ceremony{N: wrap.Replay.N, T: wrap.Replay.T, Vals: wrap.Replay.Vals, OrderSeed: wrap.Replay.OrderSeed + int64(k), P2P: &cfg})
		}
	} else {
		reps := 1
		if thorough {
			reps = 3
		}
		for n := 3; n <= 5; n++ {
			for th := 2; th <= n; th++ {
				for _, class := range []string{"shuffled", "duplicates", "late_r1cast", "late_p2p", "late_r2cast"} {
					for k := 0; k < reps; k++ {
						if !thorough && n == 5 && (th+len(class))%2 == 0 {
							continue
						}
						p := r.Perm(n)
						todo = append(todo, c11Ceremony{N: n, T: th, Vals: 1 + r.Intn(2), OrderSeed: r.Int63(),
							P2P: &c11pConfig{Class: class, Victim: p[0], Resend: p[1], Delayed: p[2], Copies: 2 + r.Intn(2)}})
					}
				}
			}
		}
	}
	if os.Getenv("VERIF_REPLAY") == "" {
		faults := []string{"thr_plus1", "thr_minus1", "extra_commitment", "drop_commitment", "bad_validx", "bad_source", "bad_target", "share_wrong_target", "swap_validators"}
		pick := []string{"thr_plus1", faults[1+int(seed)%8], faults[1+int(seed+3)%8], faults[1+int(seed+5)%8]}
		if thorough {
			pick = append(append([]string{"thr_plus1", "thr_plus1"}, faults...), "thr_minus1")
		}
		// forged source ids inside an otherwise genuine round-1 broadcast (every position, member / non-member claims)
		forged := 2
		if thorough {
			forged = 10
		}
		for k := 0; k < forged; k++ {
			n := 4 + k%2
			th := 2 + r.Intn(n-1)
			p := r.Perm(n)
			claim := p[1] + 1
			if k%5 == 4 {
				claim = n + 1 // a non-member id
			}
			todo = append(todo, c11Ceremony{N: n, T: th, Vals: 2, OrderSeed: r.Int63(),
				P2P: &c11pConfig{Class: "faulty", Fault: "forged_source", Faulty: p[0], Claim: claim, Pos: 1 + (k+int(seed))%2, Copies: 1}})
		}
		for k, f := range pick {
			n := 4 + k%2
			th := 2 + r.Intn(n-2) // t+1 <= n
			if f == "thr_minus1" {
				th = 3 + r.Intn(n-2)
			}
			todo = append(todo, c11Ceremony{N: n, T: th, Vals: 2, OrderSeed: r.Int63(),
				P2P: &c11pConfig{Class: "faulty", Fault: f, Faulty: r.Intn(n), Copies: 1}})
		}
	}
	for i := range todo {
		if len(out.Violations) >= 6 {
			break // enough concrete replays; failing ceremonies of a faulty tree can take their whole timeout
		}
		c := &todo[i]
		c.ID = i
		res, err := c11pRun(t, c)
		out.Dist["p2p_"+c.P2P.Class]++
		out.Dist[fmt.Sprintf("n%d", c.N)]++
		if c.P2P.Fault != "" {
			// a faulty participant: the ceremony must fail, or end with one consistent t-of-n key on all nodes
			out.Dist["p2p_fault_"+c.P2P.Fault]++
			if c11pLastAttrib != "" {
				out.Violations = append(out.Violations, c11Violation{Key: "frost:round1-cast-attributed-to-wrong-source",
					What: fmt.Sprintf("real frostP2P transport, faulty member %d broadcasts ONE round-1 payload whose cast at position %d claims source id %d (n=%d, t=%d): the callback accepted it and %s",
						c.P2P.Faulty+1, c.P2P.Pos, c.P2P.Claim, c.N, c.T, c11pLastAttrib), Replay: *c})
				out.Ceremonies = append(out.Ceremonies, *c)
				continue
			}
			if err != nil {
				c.Err = "ceremony fails (as it may): " + err.Error()
				out.Dist["p2p_faulty_ceremony_fails"]++
			} else if key, what := c11Check(t, c, res, r, out.Checks); key != "" {
				out.Violations = append(out.Violations, c11Violation{Key: key,
					What: fmt.Sprintf("real frostP2P transport with ONE faulty participant (node %d: %s; n=%d, configured t=%d): the ceremony reports success on all nodes, but %s",
						c.P2P.Faulty+1, c.P2P.Fault, c.N, c.T, what), Replay: *c})
			}
			out.Ceremonies = append(out.Ceremonies, *c)
			continue
		}
		if err != nil {
			c.Err = err.Error()
			out.Violations = append(out.Violations, c11Violation{Key: "dkg:ceremony-fails-under-redelivery-or-reordering",
				What: fmt.Sprintf("ceremony among %d honest nodes (t=%d, %d validators) over the real frostP2P transport, delivery class %s (victim %d, re-sent %d x%d, late %d), fails: %v",
					c.N, c.T, c.Vals, c.P2P.Class, c.P2P.Victim+1, c.P2P.Resend+1, c.P2P.Copies, c.P2P.Delayed+1, err), Replay: *c})
			out.Ceremonies = append(out.Ceremonies, *c)
			continue
		}
		if key, what := c11Check(t, c, res, r, out.Checks); key != "" {
			out.Violations = append(out.Violations, c11Violation{Key: key,
				What: fmt.Sprintf("real frostP2P transport, delivery class %s (victim node %d, node %d's message delivered %d times, node %d's message last): %s",
					c.P2P.Class, c.P2P.Victim+1, c.P2P.Resend+1, c.P2P.Copies, c.P2P.Delayed+1, what), Replay: *c})
		}
		out.Ceremonies = append(out.Ceremonies, *c)
	}
	b, err := json.MarshalIndent(out, "", " ")
	if err != nil {
		t.Fatal(err)
	}
	if err := os.WriteFile(filepath.Join(os.Getenv("VERIF_OUT"), "c11p2p_cases.json"), b, 0o644); err != nil {
		t.Fatal(err)
	}
}
