//go:build verif

// In-package test mapped into /repo/dkg with `go test -overlay` (nothing is written to /repo).
// Runs the unexported runFrostParallel on n in-process nodes over an in-memory transport that
// delivers each node's round results assembled in a random order and releases the nodes in a random
// order, then checks the ceremony outputs on the real curve (group side) and records the secret
// shares for the relational check in Coq (all n shares on one polynomial of degree < t).
package dkg

import (
	"context"
	"encoding/json"
	"fmt"
	"math/big"
	"math/rand"
	"os"
	"path/filepath"
	"runtime"
	"sort"
	"strconv"
	"sync"
	"testing"
	"time"

	"github.com/coinbase/kryptology/pkg/dkg/frost"
	"github.com/coinbase/kryptology/pkg/sharing"

	"github.com/obolnetwork/charon/dkg/share"
	"github.com/obolnetwork/charon/tbls"
)

// ---- transport

type c11Hub struct {
	mu    sync.Mutex
	n     int
	r     *rand.Rand
	r1b   map[int]map[msgKey]frost.Round1Bcast    // by source node
	r1s   map[int]map[msgKey]sharing.ShamirShare  // by source node
	r2b   map[int]map[msgKey]frost.Round2Bcast    // by source node
	wait1 map[int]chan struct{}
	wait2 map[int]chan struct{}
	order [][]int // release orders used (round 1, round 2)
}

func newC11Hub(n int, r *rand.Rand) *c11Hub {
	h := &c11Hub{n: n, r: r, r1b: map[int]map[msgKey]frost.Round1Bcast{}, r1s: map[int]map[msgKey]sharing.ShamirShare{},
		r2b: map[int]map[msgKey]frost.Round2Bcast{}, wait1: map[int]chan struct{}{}, wait2: map[int]chan struct{}{}}
	for i := 1; i <= n; i++ {
		h.wait1[i] = make(chan struct{})
		h.wait2[i] = make(chan struct{})
	}
	return h
}

// release wakes the nodes one by one in a random order, yielding in between so that the order in
// which they run the next round (and hence complete it) varies.
func (h *c11Hub) release(w map[int]chan struct{}) {
	perm := h.r.Perm(h.n)
	h.order = append(h.order, perm)
	go func() {
		for _, k := range perm {
			close(w[k+1])
			for i := 0; i < 1+k%3; i++ {
				runtime.Gosched()
			}
			if k%2 == 0 {
				time.Sleep(time.Duration(50+k*30) * time.Microsecond)
			}
		}
	}()
}

type c11Transport struct {
	h    *c11Hub
	self int
}

func (t *c11Transport) Round1(ctx context.Context, bcast map[msgKey]frost.Round1Bcast, shares map[msgKey]sharing.ShamirShare) (map[msgKey]frost.Round1Bcast, map[msgKey]sharing.ShamirShare, error) {
	h := t.h
	h.mu.Lock()
	h.r1b[t.self], h.r1s[t.self] = bcast, shares
	if len(h.r1b) == h.n {
		h.release(h.wait1)
	}
	h.mu.Unlock()
	select {
	case <-ctx.Done():
		return nil, nil, ctx.Err()
	case <-h.wait1[t.self]:
	}
	// Assemble this node's view: sources in a random arrival order; all broadcasts, and the p2p
	// shares addressed to this node (what frostp2p's callbacks let through).
	h.mu.Lock()
	defer h.mu.Unlock()
	rb := map[msgKey]frost.Round1Bcast{}
	rs := map[msgKey]sharing.ShamirShare{}
	for _, k := range h.r.Perm(h.n) {
		for key, v := range h.r1b[k+1] {
			rb[key] = v
		}
		for key, v := range h.r1s[k+1] {
			if int(key.TargetID) == t.self {
				rs[key] = v
			}
		}
	}
	return rb, rs, nil
}

func (t *c11Transport) Round2(ctx context.Context, bcast map[msgKey]frost.Round2Bcast) (map[msgKey]frost.Round2Bcast, error) {
	h := t.h
	h.mu.Lock()
	h.r2b[t.self] = bcast
	if len(h.r2b) == h.n {
		h.release(h.wait2)
	}
	h.mu.Unlock()
	select {
	case <-ctx.Done():
		return nil, ctx.Err()
	case <-h.wait2[t.self]:
	}
	h.mu.Lock()
	defer h.mu.Unlock()
	rb := map[msgKey]frost.Round2Bcast{}
	for _, k := range h.r.Perm(h.n) {
		for key, v := range h.r2b[k+1] {
			rb[key] = v
		}
	}
	return rb, nil
}

// ---- records

type c11Validator struct {
	T      int      `json:"t"`
	Shares []string `json:"shares"` // secret shares of nodes 1..n (decimal scalars)
}

type c11Ceremony struct {
	ID         int            `json:"id"`
	N          int            `json:"n"`
	T          int            `json:"t"`
	Vals       int            `json:"vals"`
	OrderSeed  int64          `json:"order_seed"`
	Orders     [][]int        `json:"release_orders"`
	Done       []int          `json:"completion_order"`
	Err        string         `json:"err,omitempty"`
	Validators []c11Validator `json:"validators"`
	P2P        *c11pConfig    `json:"p2p,omitempty"` // set for ceremonies over the real frostP2P transport (zz_verif_c11p2p_test.go)
}

type c11Violation struct {
	Key    string      `json:"key"`
	What   string      `json:"what"`
	Replay c11Ceremony `json:"replay"`
}

type c11Out struct {
	Ceremonies []c11Ceremony  `json:"ceremonies"`
	Violations []c11Violation `json:"violations"`
	Checks     map[string]int `json:"checks"`
	Dist       map[string]int `json:"dist"`
}

func c11Subsets(n, size int) [][]int {
	var out [][]int
	var rec func(start int, cur []int)
	rec = func(start int, cur []int) {
		if len(cur) == size {
			out = append(out, append([]int(nil), cur...))
			return
		}
		for i := start; i <= n; i++ {
			rec(i+1, append(cur, i))
		}
	}
	rec(1, nil)
	return out
}

// runCeremony runs one in-process ceremony and returns every node's shares (index = node-1).
func c11Run(t *testing.T, c *c11Ceremony) ([][]share.Share, error) {
	t.Helper()
	ctx, cancel := context.WithTimeout(context.Background(), 60*time.Second)
	defer cancel()
	hub := newC11Hub(c.N, rand.New(rand.NewSource(c.OrderSeed)))
	res := make([][]share.Share, c.N)
	errs := make([]error, c.N)
	var wg sync.WaitGroup
	var mu sync.Mutex
	for j := 1; j <= c.N; j++ {
		wg.Add(1)
		go func(j int) {
			defer wg.Done()
			defer func() {
				if p := recover(); p != nil {
					errs[j-1] = fmt.Errorf("panic: %v", p)
					cancel()
				}
			}()
			sh, err := runFrostParallel(ctx, &c11Transport{h: hub, self: j}, uint32(c.Vals), uint32(c.N), uint32(c.T), uint32(j), strconv.Itoa(7))
			if err != nil {
				cancel()
			}
			res[j-1], errs[j-1] = sh, err
			mu.Lock()
			c.Done = append(c.Done, j)
			mu.Unlock()
		}(j)
	}
	wg.Wait()
	c.Orders = hub.order
	var ctxErr error
	for j, err := range errs {
		if err == nil {
			continue
		}
		if ctx.Err() != nil && (err.Error() == context.Canceled.Error() || err.Error() == "transport round 1: context canceled" || err.Error() == "transport round 2: context canceled") {
			ctxErr = fmt.Errorf("node %d: %w", j+1, err)
			continue
		}
		return res, fmt.Errorf("node %d: %w", j+1, err)
	}
	return res, ctxErr
}

func c11Check(t *testing.T, c *c11Ceremony, res [][]share.Share, r *rand.Rand, checks map[string]int) (string, string) {
	t.Helper()
	n, th := c.N, c.T
	for j := range res {
		if len(res[j]) != c.Vals {
			return "dkg:share-count", fmt.Sprintf("node %d returned %d shares for %d validators", j+1, len(res[j]), c.Vals)
		}
	}
	for v := 0; v < c.Vals; v++ {
		ref := res[0][v]
		if len(ref.PublicShares) != n {
			return "dkg:pubshare-count", fmt.Sprintf("validator %d: node 1 holds %d public shares, want %d", v, len(ref.PublicShares), n)
		}
		var val c11Validator
		val.T = th
		for j := 0; j < n; j++ {
			s := res[j][v]
			checks["same_group_key"]++
			if s.PubKey != ref.PubKey {
				return "dkg:group-key-differs", fmt.Sprintf("validator %d: node %d and node 1 hold different group public keys", v, j+1)
			}
			if len(s.PublicShares) != n {
				return "dkg:pubshare-count", fmt.Sprintf("validator %d: node %d holds %d public shares, want %d", v, j+1, len(s.PublicShares), n)
			}
			for i := 1; i <= n; i++ {
				checks["same_public_shares"]++
				a, ok1 := s.PublicShares[i]
				b, ok2 := ref.PublicShares[i]
				if !ok1 || !ok2 || a != b {
					return "dkg:public-shares-differ", fmt.Sprintf("validator %d: public share of index %d differs between node %d and node 1 (or is missing)", v, i, j+1)
				}
			}
			checks["secret_matches_public_share"]++
			pk, err := tbls.SecretToPublicKey(s.SecretShare)
			if err != nil {
				return "dkg:secret-share-invalid", fmt.Sprintf("validator %d node %d: %v", v, j+1, err)
			}
			if pk != ref.PublicShares[j+1] {
				return "dkg:secret-share-mismatch", fmt.Sprintf("validator %d: secret share of node %d does not match the public share published under index %d", v, j+1, j+1)
			}
			val.Shares = append(val.Shares, new(big.Int).SetBytes(s.SecretShare[:]).String())
		}
		c.Validators = append(c.Validators, val)

		// any t public shares reconstruct the group key; any t secret shares sign validly
		subs := c11Subsets(n, th)
		if len(subs) > 40 {
			r.Shuffle(len(subs), func(a, b int) { subs[a], subs[b] = subs[b], subs[a] })
			subs = subs[:40]
		}
		for k := 0; k < 3 && th < n; k++ { // some larger subsets too
			p := r.Perm(n)[:th+1+r.Intn(n-th)]
			for i := range p {
				p[i]++
			}
			sort.Ints(p)
			subs = append(subs, p)
		}
		msg := []byte(fmt.Sprintf("c11-%d-%d-%d-%d", n, th, v, c.ID))
		for _, sub := range subs {
			pubs := map[int]tbls.PublicKey{}
			sigs := map[int]tbls.Signature{}
			for _, i := range sub {
				pubs[i] = ref.PublicShares[i]
				sg, err := tbls.Sign(res[i-1][v].SecretShare, msg)
				if err != nil {
					return "dkg:sign", err.Error()
				}
				sigs[i] = sg
			}
			checks["pubshares_reconstruct_group_key"]++
			rp, err := tbls.RecoverPubkey(pubs)
			if err != nil {
				return "dkg:recover-pubkey", err.Error()
			}
			if rp != ref.PubKey {
				return "dkg:pubshares-do-not-reconstruct", fmt.Sprintf("validator %d: public shares %v do not reconstruct the group public key", v, sub)
			}
			checks["threshold_signature_verifies"]++
			agg, err := tbls.ThresholdAggregate(sigs)
			if err != nil {
				return "dkg:aggregate", err.Error()
			}
			if err := tbls.Verify(ref.PubKey, msg, agg); err != nil {
				return "dkg:threshold-signature-invalid", fmt.Sprintf("validator %d: partial signatures of nodes %v combine into a signature that does not verify under the group key: %v", v, sub, err)
			}
		}
		// fewer than t public shares do not reconstruct the key (the threshold is not lower than configured)
		if th >= 2 {
			low := c11Subsets(n, th-1)
			if len(low) > 20 {
				r.Shuffle(len(low), func(a, b int) { low[a], low[b] = low[b], low[a] })
				low = low[:20]
			}
			for _, sub := range low {
				pubs := map[int]tbls.PublicKey{}
				for _, i := range sub {
					pubs[i] = ref.PublicShares[i]
				}
				checks["below_threshold_does_not_reconstruct"]++
				if rp, err := tbls.RecoverPubkey(pubs); err == nil && rp == ref.PubKey {
					return "dkg:fewer-than-t-shares-reconstruct", fmt.Sprintf("validator %d: the %d public shares %v already reconstruct the group public key (threshold %d)", v, th-1, sub, th)
				}
			}
		}
	}
	return "", ""
}

func TestVerifC11(t *testing.T) {
	seed := int64(1)
	if s := os.Getenv("VERIF_SEED"); s != "" {
		if v, err := strconv.ParseInt(s, 10, 64); err == nil {
			seed = v
		}
	}
	thorough := os.Getenv("VERIF_TIER") == "thorough"
	r := rand.New(rand.NewSource(seed))
	out := c11Out{Checks: map[string]int{}, Dist: map[string]int{}}

	var todo []c11Ceremony
	if p := os.Getenv("VERIF_REPLAY"); p != "" {
		var wrap struct {
			Replay c11Ceremony `json:"replay"`
		}
		b, err := os.ReadFile(p)
		if err != nil {
			t.Fatal(err)
		}
		if err := json.Unmarshal(b, &wrap); err != nil {
			t.Fatal(err)
		}
		if wrap.Replay.P2P != nil {
			t.Skip("real-transport replay: handled by TestVerifC11P2P")
		}
		for k := 0; k < 3; k++ {
			todo = append(todo, c11Ceremony{N: wrap.Replay.N, T: wrap.Replay.T, Vals: wrap.Replay.Vals, OrderSeed: wrap.Replay.OrderSeed + int64(k)})
		}
	} else {
		maxN, reps := 5, 2
		if thorough {
			maxN, reps = 8, 3
		}
		for n := 3; n <= maxN; n++ {
			for th := 2; th <= n; th++ {
				for vals := 1; vals <= 4; vals++ {
					for k := 0; k < reps; k++ {
						todo = append(todo, c11Ceremony{N: n, T: th, Vals: vals, OrderSeed: r.Int63()})
					}
				}
			}
		}
	}
	for i := range todo {
		c := &todo[i]
		c.ID = i
		res, err := c11Run(t, c)
		out.Dist[fmt.Sprintf("n%d", c.N)]++
		out.Dist[fmt.Sprintf("vals%d", c.Vals)]++
		out.Dist[fmt.Sprintf("t_minus_n_%d", c.T-c.N)]++
		if err != nil {
			c.Err = err.Error()
			out.Violations = append(out.Violations, c11Violation{Key: "dkg:honest-ceremony-fails", What: fmt.Sprintf("ceremony among %d honest nodes (t=%d, %d validators) over a reliable transport fails: %v", c.N, c.T, c.Vals, err), Replay: *c})
			out.Ceremonies = append(out.Ceremonies, *c)
			continue
		}
		if key, what := c11Check(t, c, res, r, out.Checks); key != "" {
			out.Violations = append(out.Violations, c11Violation{Key: key, What: what, Replay: *c})
		}
		out.Ceremonies = append(out.Ceremonies, *c)
	}
	b, err := json.MarshalIndent(out, "", " ")
	if err != nil {
		t.Fatal(err)
	}
	if err := os.WriteFile(filepath.Join(os.Getenv("VERIF_OUT"), "c11_cases.json"), b, 0o644); err != nil {
		t.Fatal(err)
	}
}
