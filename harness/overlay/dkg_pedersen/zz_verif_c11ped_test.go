//go:build verif

// In-package test mapped into /repo/dkg/pedersen with `go test -overlay` (nothing is written to /repo).
// Pedersen ceremonies with FAULTS, over real libp2p hosts and the production Board:
//   - lossy transport: a stream wrapper installed on a receiving host drops (resets) the streams of one
//     protocol (deal / response / justification bundle) coming from one peer — plain message loss;
//   - faulty dealers: 1 or 2 dealers run the same steps as RunDKG but through a board wrapper that replaces the
//     encrypted share dealt to one node by garbage and re-signs the bundle (the fault the complaint /
//     justification phases are designed to recover from); all other nodes run the production RunDKG.
// The monitor is C11's: whenever the ceremony reports success on EVERY node, all nodes must hold the same
// group key and public shares, every secret share must match its public share, every t-subset must
// reconstruct / sign validly, t-1 must not; the secret shares go to the Coq degree check.
package pedersen

import (
	"context"
	"encoding/json"
	"fmt"
	"io"
	"math/big"
	"math/rand"
	"os"
	"path/filepath"
	"slices"
	"strconv"
	"strings"
	"sync"
	"testing"
	"time"

	"github.com/drand/kyber"
	kbls "github.com/drand/kyber-bls12381"
	kdkg "github.com/drand/kyber/share/dkg"
	drandbls "github.com/drand/kyber/sign/bdn"
	"github.com/libp2p/go-libp2p/core/host"
	"github.com/libp2p/go-libp2p/core/network"
	"github.com/libp2p/go-libp2p/core/peer"
	"github.com/libp2p/go-libp2p/core/protocol"
	"github.com/libp2p/go-libp2p/p2p/net/swarm"

	"github.com/obolnetwork/charon/app/log"
	"github.com/obolnetwork/charon/app/z"
	"github.com/obolnetwork/charon/cluster"
	"github.com/obolnetwork/charon/dkg/bcast"
	"github.com/obolnetwork/charon/dkg/share"
	"github.com/obolnetwork/charon/tbls"
	"github.com/obolnetwork/charon/testutil"
)

// ---- lossy transport

type c11fDrop struct {
	Kind string `json:"kind"` // deal | resp | just
	From int    `json:"from"` // sender (0-based node)
	To   int    `json:"to"`   // receiver
}

type c11fStream struct {
	network.Stream
	drop func(p protocol.ID) bool
	dead bool
}

func (s *c11fStream) SetProtocol(p protocol.ID) error {
	if s.drop(p) {
		s.dead = true
	}
	return s.Stream.SetProtocol(p)
}

func (s *c11fStream) Read(b []byte) (int, error) {
	if s.dead {
		_ = s.Stream.Reset()
		return 0, io.ErrUnexpectedEOF
	}
	return s.Stream.Read(b)
}

// c11fLossy makes host h lose every stream of the given protocol kind that comes from peer `from`.
func c11fLossy(h host.Host, from peer.ID, kind string, count *int, mu *sync.Mutex) error {
	sw, ok := h.Network().(*swarm.Swarm)
	if !ok {
		return fmt.Errorf("host network is %T, not a swarm", h.Network())
	}
	suffix := map[string]string{"deal": "deal_bundle", "resp": "resp_bundle", "just": "just_bundle"}[kind]
	orig := sw.StreamHandler()
	sw.SetStreamHandler(func(s network.Stream) {
		if s.Conn().RemotePeer() != from {
			orig(s)
			return
		}
		orig(&c11fStream{Stream: s, drop: func(p protocol.ID) bool {
			if strings.HasSuffix(string(p), suffix) {
				mu.Lock()
				*count++
				mu.Unlock()
				return true
			}
			return false
		}})
	})
	return nil
}

// ---- faulty dealer (mirrors RunDKG; the share dealt to `victim` is garbage)

type c11fCorruptingBoard struct {
	*Board
	auth     *drandbls.Scheme
	longterm kyber.Scalar
	victim   uint32
}

func (b *c11fCorruptingBoard) PushDeals(bundle *kdkg.DealBundle) {
	for i := range bundle.Deals {
		if bundle.Deals[i].ShareIndex != b.victim {
			continue
		}
		garbage := slices.Clone(bundle.Deals[i].EncryptedShare)
		garbage[len(garbage)-1] ^= 0xff
		bundle.Deals[i].EncryptedShare = garbage
	}
	sig, err := b.auth.Sign(b.longterm, bundle.Hash())
	if err != nil {
		panic(err)
	}
	bundle.Signature = sig
	b.Board.PushDeals(bundle)
}

func c11fFaultyDealer(ctx context.Context, config *Config, board *Board, numVals int, victim uint32) ([]share.Share, error) {
	nodePrivateKey, nodePubKey := randomKeyPair(config.Suite)
	pkBytes, err := nodePubKey.MarshalBinary()
	if err != nil {
		return nil, err
	}
	if err := board.BroadcastNodePubKey(ctx, pkBytes); err != nil {
		return nil, err
	}
	nodes, _, err := makeNodes(ctx, config, board)
	if err != nil {
		return nil, err
	}
	slices.SortFunc(nodes, func(a, b kdkg.Node) int { return int(a.Index) - int(b.Index) })
	var shares []share.Share
	for i := 0; i < numVals; i++ {
		nonce, err := generateNonce(nodes, i)
		if err != nil {
			return nil, err
		}
		auth := drandbls.NewSchemeOnG2(kbls.NewBLS12381Suite())
		dkgConfig := &kdkg.Config{Longterm: nodePrivateKey, Suite: config.Suite, NewNodes: nodes, Threshold: config.Threshold,
			FastSync: true, Auth: auth, Log: newLogger(log.WithTopic(ctx, "pedersen")), Nonce: nonce}
		phaser := kdkg.NewTimePhaser(config.PhaseDuration)
		proto, err := kdkg.NewProtocol(dkgConfig, &c11fCorruptingBoard{Board: board, auth: auth, longterm: nodePrivateKey, victim: victim}, phaser, false)
		if err != nil {
			return nil, err
		}
		go phaser.Start()
		select {
		case <-ctx.Done():
			return nil, fmt.Errorf("context done")
		case res := <-proto.WaitEnd():
			if res.Error != nil {
				return nil, res.Error
			}
			sh, err := processKey(ctx, config, board, res.Result.Key)
			if err != nil {
				return nil, err
			}
			shares = append(shares, sh)
		}
	}
	return shares, nil
}

// ---- records (same shape as the other C11 harnesses)

type c11fValidator struct {
	T      int      `json:"t"`
	Shares []string `json:"shares"`
}

type c11fCeremony struct {
	ID         int             `json:"id"`
	Algo       string          `json:"algo"`
	N          int             `json:"n"`
	T          int             `json:"t"`
	Vals       int             `json:"vals"`
	Faults     *c11fFaults     `json:"pedersen_faults"`
	Dropped    int             `json:"streams_dropped"`
	NodeErrs   []string        `json:"node_errors,omitempty"`
	Err        string          `json:"err,omitempty"`
	Validators []c11fValidator `json:"validators"`
}

type c11fFaults struct {
	Drops   []c11fDrop `json:"drops,omitempty"`
	Dealers []int      `json:"faulty_dealers,omitempty"` // nodes dealing a garbage share ...
	Victim  int        `json:"victim"`                   // ... to this node
}

type c11fViolation struct {
	Key    string       `json:"key"`
	What   string       `json:"what"`
	Replay c11fCeremony `json:"replay"`
}

type c11fOut struct {
	Ceremonies []c11fCeremony  `json:"ceremonies"`
	Violations []c11fViolation `json:"violations"`
	Checks     map[string]int  `json:"checks"`
	Dist       map[string]int  `json:"dist"`
	// Notes: observations that are not C11 violations. A lost bundle is outside the fault model of RunDKG (kyber assumes a
	// reliable channel) and the FULL ceremony (dkg.Run) aborts on every node in that case, see the lossy dkg.Run scenario.
	Notes []c11fViolation `json:"notes"`
}

func c11fSubsets(n, size int) [][]int {
	var out [][]int
	var rec func(start int, cur []int)
	rec = func(start int, cur []int) {
		if len(cur) == size {
			out = append(out, append([]int(nil), cur...))
			return
		}
		for i := start; i <= n; i++ {
			rec(i+1, append(cur, i))
		}
	}
	rec(1, nil)
	return out
}

func c11fRun(t *testing.T, c *c11fCeremony) ([][]share.Share, []error) {
	t.Helper()
	var (
		peers   []peer.ID
		peerMap = make(map[peer.ID]cluster.NodeIdx)
		session = testutil.RandomArray32()
	)
	nodes := make([]*TestNode, c.N)
	for i := range nodes {
		nodes[i] = NewTestNode(t, i)
		peerMap[nodes[i].NodeHost.ID()] = nodes[i].NodeIdx
		peers = append(peers, nodes[i].NodeHost.ID())
	}
	defer func() {
		for _, n := range nodes {
			_ = n.NodeHost.Close()
		}
	}()
	ConnectTestNodes(t, nodes)
	var mu sync.Mutex
	for _, d := range c.Faults.Drops {
		if err := c11fLossy(nodes[d.To].NodeHost, nodes[d.From].NodeHost.ID(), d.Kind, &c.Dropped, &mu); err != nil {
			t.Fatal(err)
		}
	}
	ctx, cancel := context.WithTimeout(context.Background(), 40*time.Second)
	defer cancel()
	for _, n := range nodes {
		bc := bcast.New(n.NodeHost, peers, n.NodeSecret, session[:])
		logCtx := log.WithCtx(ctx, z.Int("index", n.NodeIdx.PeerIdx))
		n.Config = NewConfig(n.NodeHost.ID(), peerMap, c.T, session[:], time.Second, nil)
		n.Board = NewBoard(logCtx, n.NodeHost, n.Config, bc)
	}
	res := make([][]share.Share, c.N)
	errs := make([]error, c.N)
	var wg sync.WaitGroup
	for i, n := range nodes {
		wg.Add(1)
		go func(i int, n *TestNode) {
			defer wg.Done()
			defer func() {
				if p := recover(); p != nil {
					errs[i] = fmt.Errorf("panic: %v", p)
				}
			}()
			if slices.Contains(c.Faults.Dealers, i) {
				res[i], errs[i] = c11fFaultyDealer(ctx, n.Config, n.Board, c.Vals, uint32(c.Faults.Victim))
			} else {
				res[i], errs[i] = RunDKG(ctx, n.Config, n.Board, c.Vals)
			}
		}(i, n)
	}
	done := make(chan struct{})
	go func() { wg.Wait(); close(done) }()
	select {
	case <-done:
	case <-time.After(50 * time.Second):
		for i := range errs {
			if res[i] == nil && errs[i] == nil {
				errs[i] = fmt.Errorf("does not terminate")
			}
		}
	}
	mu.Lock()
	defer mu.Unlock()
	return res, errs
}

func c11fCheck(c *c11fCeremony, res [][]share.Share, checks map[string]int) (string, string) {
	n, th := c.N, c.T
	for j := range res {
		if len(res[j]) != c.Vals {
			return "dkg:share-count", fmt.Sprintf("node %d returned %d shares for %d validators", j+1, len(res[j]), c.Vals)
		}
	}
	for v := 0; v < c.Vals; v++ {
		ref := res[0][v]
		val := c11fValidator{T: th}
		for j := 0; j < n; j++ {
			s := res[j][v]
			checks["same_group_key"]++
			if s.PubKey != ref.PubKey {
				return "dkg:group-key-differs", fmt.Sprintf("validator %d: node %d and node 1 hold different group public keys", v, j+1)
			}
			if len(s.PublicShares) != n {
				return "dkg:pubshare-count", fmt.Sprintf("validator %d: node %d holds %d public shares, want %d", v, j+1, len(s.PublicShares), n)
			}
			for i := 1; i <= n; i++ {
				checks["same_public_shares"]++
				if s.PublicShares[i] != ref.PublicShares[i] {
					return "dkg:public-shares-differ", fmt.Sprintf("validator %d: public share of index %d differs between node %d and node 1", v, i, j+1)
				}
			}
			checks["secret_matches_public_share"]++
			pk, err := tbls.SecretToPublicKey(s.SecretShare)
			if err != nil || pk != ref.PublicShares[j+1] {
				return "dkg:secret-share-mismatch", fmt.Sprintf("validator %d: secret share of node %d does not match the public share published under index %d", v, j+1, j+1)
			}
			val.Shares = append(val.Shares, new(big.Int).SetBytes(s.SecretShare[:]).String())
		}
		c.Validators = append(c.Validators, val)
		msg := []byte(fmt.Sprintf("c11-pedersen-faults-%d-%d-%d", n, th, v))
		for _, size := range []int{th, n} {
			for _, sub := range c11fSubsets(n, size) {
				pubs := map[int]tbls.PublicKey{}
				sigs := map[int]tbls.Signature{}
				for _, i := range sub {
					pubs[i] = ref.PublicShares[i]
					sg, err := tbls.Sign(res[i-1][v].SecretShare, msg)
					if err != nil {
						return "dkg:sign", err.Error()
					}
					sigs[i] = sg
				}
				checks["pubshares_reconstruct_group_key"]++
				if rp, err := tbls.RecoverPubkey(pubs); err != nil || rp != ref.PubKey {
					return "dkg:pubshares-do-not-reconstruct", fmt.Sprintf("validator %d: the %d public shares %v do not reconstruct the group public key", v, size, sub)
				}
				checks["threshold_signature_verifies"]++
				agg, err := tbls.ThresholdAggregate(sigs)
				if err != nil || tbls.Verify(ref.PubKey, msg, agg) != nil {
					return "dkg:threshold-signature-invalid", fmt.Sprintf("validator %d: partial signatures of nodes %v do not combine into a signature valid under the group key", v, sub)
				}
			}
		}
		if th >= 2 {
			for _, sub := range c11fSubsets(n, th-1) {
				pubs := map[int]tbls.PublicKey{}
				for _, i := range sub {
					pubs[i] = ref.PublicShares[i]
				}
				checks["below_threshold_does_not_reconstruct"]++
				if rp, err := tbls.RecoverPubkey(pubs); err == nil && rp == ref.PubKey {
					return "dkg:fewer-than-t-shares-reconstruct", fmt.Sprintf("validator %d: %d public shares %v already reconstruct the group key", v, th-1, sub)
				}
			}
		}
	}
	return "", ""
}

func (f *c11fFaults) describe() string {
	var parts []string
	for _, d := range f.Drops {
		parts = append(parts, fmt.Sprintf("the %s bundle of node %d to node %d is lost", d.Kind, d.From, d.To))
	}
	if len(f.Dealers) > 0 {
		parts = append(parts, fmt.Sprintf("dealers %v deal an undecryptable share to node %d", f.Dealers, f.Victim))
	}
	return strings.Join(parts, "; ")
}

func TestVerifC11PedFaults(t *testing.T) {
	seed := int64(1)
	if s := os.Getenv("VERIF_SEED"); s != "" {
		if v, err := strconv.ParseInt(s, 10, 64); err == nil {
			seed = v
		}
	}
	thorough := os.Getenv("VERIF_TIER") == "thorough"
	r := rand.New(rand.NewSource(seed ^ 0xfa17))
	out := c11fOut{Checks: map[string]int{}, Dist: map[string]int{}}
	var todo []c11fCeremony
	if p := os.Getenv("VERIF_REPLAY"); p != "" {
		var wrap struct {
			Replay c11fCeremony `json:"replay"`
		}
		b, err := os.ReadFile(p)
		if err != nil {
			t.Fatal(err)
		}
		if err := json.Unmarshal(b, &wrap); err != nil {
			t.Fatal(err)
		}
		if wrap.Replay.Faults == nil {
			t.Skip("not a pedersen-faults replay")
		}
		for k := 0; k < 3; k++ {
			todo = append(todo, c11fCeremony{Algo: "pedersen", N: wrap.Replay.N, T: wrap.Replay.T, Vals: wrap.Replay.Vals, Faults: wrap.Replay.Faults})
		}
	} else {
		// corpus first: the minimised input of reading note N-C11-QUAL (one deal bundle lost in a 3-of-4 ceremony)
		todo = append(todo, c11fCeremony{Algo: "pedersen", N: 4, T: 3, Vals: 1, Faults: &c11fFaults{Drops: []c11fDrop{{Kind: "deal", From: 2, To: 0}}}})
		mk := func(n, th int, f *c11fFaults) { todo = append(todo, c11fCeremony{Algo: "pedersen", N: n, T: th, Vals: 1, Faults: f}) }
		p := r.Perm(4)
		mk(4, 3, &c11fFaults{Dealers: []int{p[0]}, Victim: p[1]})
		mk(4, 3, &c11fFaults{Dealers: []int{p[0], p[2]}, Victim: p[1]})
		kinds := []string{"resp", "just", "deal"}
		mk(4, 3, &c11fFaults{Drops: []c11fDrop{{Kind: kinds[int(seed)%3], From: p[2], To: p[3]}}})
		if thorough {
			for k := 0; k < 10; k++ {
				n := 4 + k%2
				th := 2 + r.Intn(n-2)
				q := r.Perm(n)
				switch k % 5 {
				case 0:
					mk(n, th, &c11fFaults{Dealers: []int{q[0], q[1]}, Victim: q[2]})
				case 1:
					mk(n, th, &c11fFaults{Dealers: []int{q[0]}, Victim: q[1], Drops: []c11fDrop{{Kind: "just", From: q[0], To: q[2]}}})
				case 2:
					mk(n, th, &c11fFaults{Drops: []c11fDrop{{Kind: "deal", From: q[0], To: q[1]}, {Kind: "deal", From: q[2], To: q[1]}}})
				case 3:
					mk(n, th, &c11fFaults{Drops: []c11fDrop{{Kind: "resp", From: q[0], To: q[1]}}})
				default:
					mk(n, th, &c11fFaults{Dealers: []int{q[0]}, Victim: q[1]})
				}
			}
		}
	}
	for i := range todo {
		c := &todo[i]
		c.ID = i
		res, errs := c11fRun(t, c)
		failed := 0
		for j, e := range errs {
			if e != nil {
				failed++
				c.NodeErrs = append(c.NodeErrs, fmt.Sprintf("node %d: %v", j, e))
			}
		}
		class := "drops"
		if len(c.Faults.Dealers) > 0 {
			class = fmt.Sprintf("faulty_dealers_%d", len(c.Faults.Dealers))
		}
		out.Dist["pedersen_"+class]++
		if failed > 0 {
			// not a successful ceremony: outside the property (recorded, not a violation)
			c.Err = fmt.Sprintf("%d of %d nodes report an error", failed, c.N)
			out.Dist["pedersen_"+class+"_ceremony_fails"]++
			out.Ceremonies = append(out.Ceremonies, *c)
			continue
		}
		if key, what := c11fCheck(c, res, out.Checks); key != "" {
			v := c11fViolation{Key: key,
				What:   fmt.Sprintf("pedersen.RunDKG, n=%d t=%d, %s (%d streams dropped): RunDKG returns success on all %d nodes, but %s", c.N, c.T, c.Faults.describe(), c.Dropped, c.N, what),
				Replay: *c}
			if len(c.Faults.Drops) > 0 {
				v.Key = "N-C11-QUAL:" + key // a message was LOST: reading note, the full ceremony aborts (QUAL is not checked by RunDKG)
				out.Notes = append(out.Notes, v)
			} else {
				out.Violations = append(out.Violations, v)
			}
		}
		out.Ceremonies = append(out.Ceremonies, *c)
	}
	b, err := json.MarshalIndent(out, "", " ")
	if err != nil {
		t.Fatal(err)
	}
	if err := os.WriteFile(filepath.Join(os.Getenv("VERIF_OUT"), "c11pedfaults_cases.json"), b, 0o644); err != nil {
		t.Fatal(err)
	}
}
