//go:build verif

// Overlaid into /repo/app/sse by the C20 / C15 checks (go test -overlay; /repo is not touched).
// Feeds raw chain_reorg SSE events to the real listener.eventHandler and records what the
// subscribed handlers (duties cache invalidation, scheduler) are told.
package sse

import (
	"context"
	"encoding/json"
	"fmt"
	"math/rand"
	"os"
	"path/filepath"
	"strconv"
	"testing"
	"time"

	eth2p0 "github.com/attestantio/go-eth2-client/spec/phase0"
)

type verifReorgEv struct {
	Slot  uint64 `json:"slot"`
	Depth uint64 `json:"depth"`
	Epoch uint64 `json:"epoch"` // the event's own epoch field (new head's epoch); must be ignored
}

type verifReorgHist struct {
	ID     int            `json:"id"`
	Kind   string         `json:"kind"`
	Spe    uint64         `json:"spe"`
	Events []verifReorgEv `json:"events"`
	Labels []string       `json:"labels"`
}

func verifRunReorg(t *testing.T, h *verifReorgHist) {
	t.Helper()
	l := &listener{
		blockGossipTimes: make(map[uint64]map[string]time.Time),
		genesisTime:      time.Unix(0, 0),
		slotDuration:     12 * time.Second,
		slotsPerEpoch:    h.Spe,
	}
	var got [2][]uint64
	for i := 0; i < 2; i++ {
		l.SubscribeChainReorgEvent(func(_ context.Context, epoch eth2p0.Epoch) { got[i] = append(got[i], uint64(epoch)) })
	}
	for _, ev := range h.Events {
		data, _ := json.Marshal(map[string]string{
			"slot": strconv.FormatUint(ev.Slot, 10), "depth": strconv.FormatUint(ev.Depth, 10), "epoch": strconv.FormatUint(ev.Epoch, 10),
			"old_head_block": "0x00", "new_head_block": "0x01", "old_head_state": "0x00", "new_head_state": "0x01",
		})
		before := [2]int{len(got[0]), len(got[1])}
		err := l.eventHandler(context.Background(), &event{Event: sseChainReorgEvent, Data: data, Timestamp: time.Unix(1, 0)}, "bn0")
		// both subscribers must be told the same thing
		a, b := got[0][before[0]:], got[1][before[1]:]
		out := "none"
		switch {
		case fmt.Sprint(a) != fmt.Sprint(b):
			out = fmt.Sprintf("subs-differ %v %v", a, b)
		case len(a) == 1:
			out = fmt.Sprintf("(Some %d)", a[0])
		case len(a) > 1:
			out = fmt.Sprintf("many %v", a)
		}
		h.Labels = append(h.Labels, fmt.Sprintf("LReorg %d %d %d %v %s", ev.Slot, ev.Depth, ev.Epoch, err != nil, out))
	}
}

func TestVerifSseReorg(t *testing.T) {
	seed := int64(1)
	if s, err := strconv.ParseInt(os.Getenv("VERIF_SEED"), 10, 64); err == nil {
		seed = s
	}
	n := 300
	if s, err := strconv.Atoi(os.Getenv("VERIF_N")); err == nil {
		n = s
	}
	r := rand.New(rand.NewSource(seed))
	var hs []verifReorgHist
	add := func(kind string, spe uint64, evs []verifReorgEv) {
		hs = append(hs, verifReorgHist{ID: len(hs), Kind: kind, Spe: spe, Events: evs})
	}
	if rp := os.Getenv("VERIF_REPLAY"); rp != "" {
		var rep struct {
			Replay struct {
				Spe    uint64         `json:"spe"`
				Events []verifReorgEv `json:"events"`
			} `json:"replay"`
		}
		b, err := os.ReadFile(rp)
		if err != nil {
			t.Fatal(err)
		}
		if err := json.Unmarshal(b, &rep); err != nil {
			t.Fatal(err)
		}
		add("replay", rep.Replay.Spe, rep.Replay.Events)
	} else {
		// corpus: shallow reorgs just after an epoch transition (slot%spe < depth%spe), exact boundaries, depth > slot
		add("corpus", 32, []verifReorgEv{{64, 2, 2}, {65, 2, 2}, {66, 2, 2}, {96, 1, 3}, {95, 33, 2}, {3, 5, 0}})
		add("corpus", 32, []verifReorgEv{{9, 3, 0}, {41, 3, 1}, {41, 10, 1}, {70, 3, 2}, {75, 2, 2}})
		add("corpus", 8, []verifReorgEv{{9, 3, 2}, {16, 1, 2}, {16, 0, 2}, {17, 9, 2}, {17, 10, 2}})
		for len(hs) < n {
			spe := []uint64{1, 2, 4, 8, 32}[r.Intn(5)]
			var evs []verifReorgEv
			kind := "random"
			if r.Intn(3) == 0 {
				kind = "boundary"
			}
			for i := 0; i < 2+r.Intn(8); i++ {
				slot := uint64(r.Intn(int(spe) * 6))
				depth := uint64(r.Intn(int(spe)*2 + 3))
				if kind == "boundary" {
					e := uint64(1 + r.Intn(5))
					slot = e*spe + uint64(r.Intn(3))       // just after the transition into epoch e
					depth = uint64(r.Intn(4)) + slot%spe   // reaches the boundary or crosses it
					if r.Intn(4) == 0 {
						depth += spe
					}
				}
				if r.Intn(20) == 0 {
					depth = slot + 1 + uint64(r.Intn(3)) // invalid: deeper than the chain
				}
				ep := slot / spe
				if r.Intn(3) == 0 {
					ep = uint64(r.Intn(8))
				}
				evs = append(evs, verifReorgEv{slot, depth, ep})
			}
			add(kind, spe, evs)
		}
	}
	for i := range hs {
		verifRunReorg(t, &hs[i])
	}
	out := os.Getenv("VERIF_OUT")
	if out == "" {
		out = t.TempDir()
	}
	b, _ := json.Marshal(hs)
	if err := os.WriteFile(filepath.Join(out, "sse_reorg.json"), b, 0o644); err != nil {
		t.Fatal(err)
	}
}
