//go:build verif

// Overlaid into /repo/app/eth2wrap by the C19 check (go test -overlay; /repo is not touched).
// Gives the harness the lazy wrapper in the state the production constructor (newBeaconClient)
// creates it in: the underlying client does not exist until the first call needs it.
package eth2wrap

import "context"

// NewLazyUninitForT returns a lazy client whose underlying client is created by provider on first use.
func NewLazyUninitForT(provider func(context.Context) (Client, error)) Client {
	return newLazy(provider)
}
