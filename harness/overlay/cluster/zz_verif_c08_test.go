//go:build verif

// In-package test mapped into /repo/cluster with `go test -overlay` (nothing is written to /repo).
// Drives the unexported verifySharesReconstruct with public keys whose discrete logarithms are
// known, and records (group key scalar, share scalars, threshold, verdict) for evaluation against
// the model vsr_checkZ (coq/Tbls/ShamirZ.v).
package cluster

import (
	"encoding/json"
	"math/big"
	"math/rand"
	"os"
	"path/filepath"
	"strconv"
	"testing"

	"github.com/obolnetwork/charon/tbls"
)

type vsrCase struct {
	ID     int      `json:"id"`
	Kind   string   `json:"kind"`
	DV     string   `json:"dv"`
	Shares []string `json:"shares"`
	T      int      `json:"t"`
	OK     bool     `json:"ok"`
	Err    string   `json:"err,omitempty"`
}

var vsrOrder, _ = new(big.Int).SetString("73eda753299d7d483339d80809a1d80553bda402fffe5bfeffffffff00000001", 16)

func vsrScalar(r *rand.Rand) *big.Int {
	b := make([]byte, 40)
	r.Read(b)
	v := new(big.Int).Mod(new(big.Int).SetBytes(b), vsrOrder)
	if v.Sign() == 0 {
		v.SetInt64(1)
	}
	return v
}

func vsrPub(t *testing.T, v *big.Int) tbls.PublicKey {
	t.Helper()
	var sk tbls.PrivateKey
	v.FillBytes(sk[:])
	pk, err := tbls.SecretToPublicKey(sk)
	if err != nil {
		t.Fatalf("public key of %s: %v", v, err)
	}
	return pk
}

// evalPoly evaluates coefficients (constant first) at x modulo the group order.
func vsrEval(cs []*big.Int, x int64) *big.Int {
	acc := new(big.Int)
	for i := len(cs) - 1; i >= 0; i-- {
		acc.Mul(acc, big.NewInt(x))
		acc.Add(acc, cs[i])
		acc.Mod(acc, vsrOrder)
	}
	return acc
}

func TestVerifC08(t *testing.T) {
	seed := int64(1)
	if s := os.Getenv("VERIF_SEED"); s != "" {
		if v, err := strconv.ParseInt(s, 10, 64); err == nil {
			seed = v
		}
	}
	thorough := os.Getenv("VERIF_TIER") == "thorough"
	r := rand.New(rand.NewSource(seed))
	var cases []vsrCase
	run := func(kind string, dv *big.Int, ys []*big.Int, th int) {
		pubs := make([]tbls.PublicKey, len(ys))
		for i, y := range ys {
			pubs[i] = vsrPub(t, y)
		}
		err := verifySharesReconstruct(vsrPub(t, dv), pubs, th)
		c := vsrCase{ID: len(cases), Kind: kind, DV: dv.String(), T: th, OK: err == nil}
		if err != nil {
			c.Err = err.Error()
		}
		for _, y := range ys {
			c.Shares = append(c.Shares, y.String())
		}
		cases = append(cases, c)
	}

	if p := os.Getenv("VERIF_REPLAY"); p != "" {
		var wrap struct {
			Replay vsrCase `json:"replay"`
		}
		b, err := os.ReadFile(p)
		if err != nil {
			t.Fatal(err)
		}
		if err := json.Unmarshal(b, &wrap); err != nil {
			t.Fatal(err)
		}
		dv, _ := new(big.Int).SetString(wrap.Replay.DV, 10)
		var ys []*big.Int
		for _, s := range wrap.Replay.Shares {
			y, _ := new(big.Int).SetString(s, 10)
			ys = append(ys, y)
		}
		run("replay", dv, ys, wrap.Replay.T)
	} else {
		maxN := 7
		if thorough {
			maxN = 10
		}
		for n := 1; n <= maxN; n++ {
			for th := 1; th <= n; th++ {
				cs := make([]*big.Int, th)
				for i := range cs {
					cs[i] = vsrScalar(r)
				}
				ys := make([]*big.Int, n)
				ok := true
				for i := range ys {
					ys[i] = vsrEval(cs, int64(i+1))
					ok = ok && ys[i].Sign() != 0
				}
				if !ok {
					continue
				}
				run("valid", cs[0], ys, th)
				// thresholds around the true one (a lower threshold must fail unless n shares happen to fit; a higher one passes)
				for _, th2 := range []int{th - 1, th + 1, 0, n + 1, -1} {
					if th2 != th {
						run("other_threshold", cs[0], ys, th2)
					}
				}
				run("wrong_group_key", new(big.Int).Mod(new(big.Int).Add(cs[0], big.NewInt(1)), vsrOrder), ys, th)
				// one share off the polynomial, every position
				for i := range ys {
					if !thorough && n > 5 && r.Intn(2) == 0 {
						continue
					}
					zs := append([]*big.Int(nil), ys...)
					zs[i] = vsrScalar(r)
					run("one_share_off", cs[0], zs, th)
				}
				// two shares swapped (another polynomial through permuted points)
				if n >= 2 {
					zs := append([]*big.Int(nil), ys...)
					i, j := r.Intn(n), r.Intn(n)
					zs[i], zs[j] = zs[j], zs[i]
					run("swapped", cs[0], zs, th)
				}
				// shares of a polynomial of degree exactly th (one more than allowed)
				if th < n {
					cs2 := append(append([]*big.Int(nil), cs...), vsrScalar(r))
					zs := make([]*big.Int, n)
					for i := range zs {
						zs[i] = vsrEval(cs2, int64(i+1))
						if zs[i].Sign() == 0 {
							zs[i].SetInt64(1)
						}
					}
					run("degree_too_high", cs2[0], zs, th)
				}
			}
		}
	}
	b, err := json.MarshalIndent(cases, "", " ")
	if err != nil {
		t.Fatal(err)
	}
	if err := os.WriteFile(filepath.Join(os.Getenv("VERIF_OUT"), "vsr_cases.json"), b, 0o644); err != nil {
		t.Fatal(err)
	}
}
