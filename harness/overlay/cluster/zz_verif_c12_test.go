//go:build verif

// C12: in-package helper mapped into /repo/cluster with `go test -overlay` (nothing is written to
// /repo).  It builds CREATOR-SIGNED definitions whose operators carry no address (the shape the
// launchpad "solo" flow hands to `charon create cluster --definition-file`) with the unexported
// signCreator, checks them with the real VerifySignatures/VerifyHashes, and writes them for the
// black-box campaign of harness/clusterhash.
package cluster

import (
	"encoding/json"
	"math/rand"
	"os"
	"path/filepath"
	"testing"

	"github.com/obolnetwork/charon/eth2util"
	"github.com/obolnetwork/charon/testutil"
)

func TestVerifC12CreatorDefs(t *testing.T) {
	type spec struct {
		version     string
		n, th, vals int
		network     string
		amounts     []int
		compounding bool
	}
	specs := []spec{
		{"v1.11.0", 4, 3, 2, "hoodi", []int{32, 1}, false},
		{"v1.10.0", 3, 2, 1, "sepolia", []int{16, 8, 8}, false},
		{"v1.11.0", 5, 4, 1, "hoodi", []int{2016, 32}, true},
		{"v1.9.0", 3, 3, 2, "chiado", []int{8, 16, 8}, false},
		{"v1.8.0", 6, 4, 1, "goerli", []int{1, 31}, false},
		{"v1.7.0", 4, 3, 2, "sepolia", nil, false},
		{"v1.5.0", 3, 2, 1, "hoodi", nil, false},
		{"v1.4.0", 4, 3, 2, "goerli", nil, false},
	}
	var out []json.RawMessage
	for i, sp := range specs {
		key := testutil.GenerateInsecureK1Key(t, 4242+i)
		creator := Creator{Address: eth2util.PublicKeyToAddress(key.PubKey())}
		r := rand.New(rand.NewSource(int64(900 + i))) //nolint:gosec
		var fee, wd []string
		for j := 0; j < sp.vals; j++ {
			f, err := eth2util.ChecksumAddress(testutil.RandomETHAddressSeed(r))
			if err != nil {
				t.Fatal(err)
			}
			w, err := eth2util.ChecksumAddress(testutil.RandomETHAddressSeed(r))
			if err != nil {
				t.Fatal(err)
			}
			if sp.version < "v1.5.0" && len(sp.version) == 6 && j > 0 { // single address pair up to v1.4
				f, w = fee[0], wd[0]
			}
			fee, wd = append(fee, f), append(wd, w)
		}
		fv, err := eth2util.NetworkToForkVersion(sp.network)
		if err != nil {
			t.Fatal(err)
		}
		gas := uint(0)
		if supportTargetGasLimit(sp.version) {
			gas = 30000000
		}
		opts := []func(*Definition){WithVersion(sp.version), func(d *Definition) { d.Timestamp = "2024-01-02T03:04:05Z" }}
		if isAnyVersion(sp.version, v1_0, v1_1, v1_2, v1_3, v1_4) {
			opts = append(opts, WithLegacyVAddrs(fee[0], wd[0]))
		}
		def, err := NewDefinition("verif-creator", sp.vals, sp.th, fee, wd, fv, creator, make([]Operator, sp.n), sp.amounts, "", gas, sp.compounding, r, opts...)
		if err != nil {
			t.Fatalf("%s: %v", sp.version, err)
		}
		def, err = signCreator(key, def)
		if err != nil {
			t.Fatal(err)
		}
		def, err = def.SetDefinitionHashes()
		if err != nil {
			t.Fatal(err)
		}
		if err := def.VerifySignatures(nil); err != nil {
			t.Fatalf("%s: creator-signed definition does not verify: %v", sp.version, err)
		}
		if err := def.VerifyHashes(); err != nil {
			t.Fatal(err)
		}
		b, err := json.Marshal(def)
		if err != nil {
			t.Fatal(err)
		}
		out = append(out, b)
	}
	b, _ := json.MarshalIndent(out, "", " ")
	dir := os.Getenv("VERIF_OUT")
	if dir == "" {
		dir = os.TempDir()
	}
	if err := os.WriteFile(filepath.Join(dir, "c12_creator_defs.json"), b, 0o644); err != nil {
		t.Fatal(err)
	}
}
