// Correspondence harness for C13 (dkg/bcast).
//
// Per cluster size n it builds, exactly like the repo's own TestBCast, libp2p hosts on localhost TCP with k1
// identities, for TWO ceremony sessions run with the same keys (session 1 and 2: two host sets), plus one
// outsider host per session.  Honest members run the real component (bcast.New + RegisterMessageIDFuncs).
// Faulty members (and the outsider) are played by the script: they speak the two protocols directly
// (p2p.SendReceive on the sig and msg protocol ids), answer honest clients' signature requests according to a
// policy, remember every signature they see, and sign with their own keys.
//
// What is observed (-> labels of coq/Flow/Bcast.v, rendered as Coq terms):
//   - every checkMessage invocation at an honest instance (the application hook bcast calls inside
//     handleSigRequest): receiver, transport peer, id, payload, check result;
//   - every callback invocation (receiver, sender, id, payload);
//   - for the scripted member's own requests/messages: the response (signature bytes, mapped to a symbolic term
//     by verifying them against the candidate digests) or the refusal, whose class is read from the handler's
//     error log line; SendReceive returns only after the handler has finished, so no timing is involved;
//   - for honest clients: what Broadcast returned.
//
// Only positive observations are used as evidence; nothing is inferred from "nothing happened within x ms".
package bcast

import (
	"bytes"
	"context"
	"crypto/sha256"
	"encoding/binary"
	"encoding/json"
	"fmt"
	"math/rand"
	"sort"
	"strings"
	"sync"
	"testing"
	"time"

	k1 "github.com/decred/dcrd/dcrec/secp256k1/v4"
	"github.com/libp2p/go-libp2p"
	p2pcrypto "github.com/libp2p/go-libp2p/core/crypto"
	"github.com/libp2p/go-libp2p/core/host"
	"github.com/libp2p/go-libp2p/core/peer"
	"github.com/libp2p/go-libp2p/core/peerstore"
	"github.com/libp2p/go-libp2p/core/protocol"
	"github.com/libp2p/go-libp2p/p2p/transport/tcp"
	"github.com/libp2p/go-msgio/pbio"
	"github.com/multiformats/go-multiaddr"
	"google.golang.org/protobuf/proto"
	"google.golang.org/protobuf/types/known/anypb"
	"google.golang.org/protobuf/types/known/durationpb"
	"google.golang.org/protobuf/types/known/timestamppb"

	"github.com/obolnetwork/charon/app/errors"
	"github.com/obolnetwork/charon/app/k1util"
	"github.com/obolnetwork/charon/app/log"
	"github.com/obolnetwork/charon/dkg/bcast"
	pb "github.com/obolnetwork/charon/dkg/dkgpb/v1"
	"github.com/obolnetwork/charon/p2p"

	"verif/harness/hx"
)

// Protocol ids of dkg/bcast/helpers.go (unexported there).
const (
	protoSig = protocol.ID("/charon/dkg/bcast/2.0.0/sig")
	protoMsg = protocol.ID("/charon/dkg/bcast/2.0.0/msg")
)

// ---------------------------------------------------------------------------------------------
// Scripts

// SigSpec names one element of a signature list: member M's signature over the digest of
// (session S, sender Q, id ID, payload P) if the adversary has it (else 65 junk bytes), or Junk bytes.
type SigSpec struct {
	Junk int    `json:"junk,omitempty"` // >0: that many junk bytes; -1: zero-length
	M    int    `json:"m"`
	S    int    `json:"s,omitempty"`
	Q    int    `json:"q"`
	ID   int    `json:"id,omitempty"`
	P    [2]int `json:"p"`
}

// Op is one scripted action.
//
//	reg    honest member M of session S registers message id ID
//	bcast  honest member M of session S calls Broadcast(ID, P)
//	sigreq scripted member From sends a signature request (ID, P) to member To in session S
//	msg    scripted member From sends the message (ID, P, Sigs) to member To in session S
//	policy scripted member M answers honest clients' signature requests: coop | refuse | junk
//	policy ... further modes: wrongid (valid signature, response carries another id) | empty | len64 |
//	       otherhash (valid signature over another payload's digest) | late (cooperates after 20 ms)
//	slow   honest member M's checkMessage takes K ms for requests of honest requesters (orders the responses an
//	       honest client sees; not an observation)
//	race   scripted member From fires, for every id in IDs and every honest member, K signature requests with K
//	       DIFFERENT payloads concurrently (streams opened first, then released together); where every honest
//	       member answered two payloads it completes the attack (payload P to one member, Q to another)
type Op struct {
	Op   string    `json:"op"`
	S    int       `json:"s,omitempty"`
	M    int       `json:"m,omitempty"`
	From int       `json:"from,omitempty"`
	To   int       `json:"to,omitempty"`
	ID   int       `json:"id,omitempty"`
	P    [2]int    `json:"p,omitempty"`
	Sigs []SigSpec `json:"sigs,omitempty"`
	Mode string    `json:"mode,omitempty"`
	IDs  []int     `json:"ids,omitempty"`
	K    int       `json:"k,omitempty"`
	// Expect "ok": the generator knows this honest broadcast must succeed and be delivered on correct code
	// (a failure is reported as a note, it is not part of C13).
	Expect string `json:"expect,omitempty"`
}

// Script is a scenario and, after it ran, what was observed.
type Script struct {
	ID     int    `json:"id"`
	Kind   string `json:"kind"`
	N      int    `json:"n"`
	Faulty []int  `json:"faulty"` // members played by the script; the outsider (index N) always is
	Ops    []Op   `json:"ops"`
	// NoMsg: scripted members whose host does not speak the msg protocol at all (an honest client's send to them
	// fails). Such scripts run on hosts of their own (Fresh), because what a host supports is learnt once.
	NoMsg []int `json:"nomsg,omitempty"`
	Fresh bool  `json:"fresh,omitempty"`

	Labels     []string       `json:"labels,omitempty"`
	Scheme     string         `json:"scheme,omitempty"`
	NonTrivial bool           `json:"nontrivial,omitempty"`
	Stats      map[string]int `json:"stats,omitempty"`
	Notes      []string       `json:"notes,omitempty"`
}

func (s *Script) isFaulty(m int) bool {
	if m >= s.N {
		return true
	}
	for _, f := range s.Faulty {
		if f == m {
			return true
		}
	}
	return false
}

// ---------------------------------------------------------------------------------------------
// Payloads and ids

var idNames = map[int]string{1: "verif/a", 2: "verif/b", 3: "verif/c"}

func idName(code int) string {
	if s, ok := idNames[code]; ok {
		return s
	}
	return fmt.Sprintf("verif/unreg-%d", code)
}

func idCode(name string) int {
	for c, s := range idNames {
		if s == name {
			return c
		}
	}
	var c int
	if _, err := fmt.Sscanf(name, "verif/unreg-%d", &c); err == nil {
		return c
	}
	return 999
}

const unknownTypeURL = "type.googleapis.com/verif.Unknown"

var typeURLs = []string{
	"type.googleapis.com/google.protobuf.Timestamp",
	"type.googleapis.com/google.protobuf.Duration",
	unknownTypeURL,
}

// mkAny builds the anypb for payload code (t, b): t = type url, b < 1000 a well-formed message with Seconds = b,
// b >= 1000 three bytes that no protobuf parser accepts (a varint that never ends).
func mkAny(p [2]int) *anypb.Any {
	t, b := p[0], p[1]
	var val []byte
	switch {
	case b >= 1000:
		val = []byte{0x08, 0x80 | byte(b-1000), 0x80}
	case t == 1:
		val, _ = proto.MarshalOptions{Deterministic: true}.Marshal(&durationpb.Duration{Seconds: int64(b)})
	default:
		val, _ = proto.MarshalOptions{Deterministic: true}.Marshal(&timestamppb.Timestamp{Seconds: int64(b)})
	}
	return &anypb.Any{TypeUrl: typeURLs[t], Value: val}
}

func mkMsg(p [2]int) proto.Message {
	if p[0] == 1 {
		return &durationpb.Duration{Seconds: int64(p[1])}
	}
	return &timestamppb.Timestamp{Seconds: int64(p[1])}
}

// anyCode is the inverse of mkAny; ok=false for payloads no script produces.
func anyCode(a *anypb.Any) ([2]int, bool) {
	t := -1
	for i, u := range typeURLs {
		if u == a.GetTypeUrl() {
			t = i
		}
	}
	if t < 0 {
		return [2]int{}, false
	}
	v := a.GetValue()
	if len(v) == 3 && v[0] == 0x08 && v[2] == 0x80 && v[1]&0x80 != 0 {
		return [2]int{t, 1000 + int(v[1]&0x7f)}, true
	}
	var secs int64
	if t == 1 {
		var d durationpb.Duration
		if proto.Unmarshal(v, &d) != nil {
			return [2]int{}, false
		}
		secs = d.GetSeconds()
	} else {
		var ts timestamppb.Timestamp
		if proto.Unmarshal(v, &ts) != nil {
			return [2]int{}, false
		}
		secs = ts.GetSeconds()
	}
	if secs < 0 || secs >= 1000 || !bytes.Equal(mkAny([2]int{t, int(secs)}).GetValue(), v) {
		return [2]int{}, false
	}
	return [2]int{t, int(secs)}, true
}

func msgCode(m proto.Message) ([2]int, bool) {
	switch x := m.(type) {
	case *timestamppb.Timestamp:
		return [2]int{0, int(x.GetSeconds())}, x.GetNanos() == 0
	case *durationpb.Duration:
		return [2]int{1, int(x.GetSeconds())}, x.GetNanos() == 0
	}
	return [2]int{}, false
}

// checkFor is the application's CheckMessage for an id (what the harness registers):
// id 1: payload must unmarshal to a Timestamp (as the repo's test does); id 2: type url must be Timestamp or
// Duration (bytes not inspected); id 3: anything, but not from member 0.
func checkFor(id int, from int, a *anypb.Any) bool {
	switch id {
	case 1:
		var ts timestamppb.Timestamp
		return a.UnmarshalTo(&ts) == nil
	case 2:
		return a.GetTypeUrl() == typeURLs[0] || a.GetTypeUrl() == typeURLs[1]
	case 3:
		return from != 0
	}
	if id >= 100 { // ids of the race class: as id 1
		var ts timestamppb.Timestamp
		return a.UnmarshalTo(&ts) == nil
	}
	return false
}

// ---------------------------------------------------------------------------------------------
// Hashes as dkg/bcast/impl.go computes them (two candidate layouts; which one the code uses is detected by
// verifying a real signature, see detectScheme).

func lp(h interface{ Write([]byte) (int, error) }, fields ...[]byte) {
	for _, f := range fields {
		var l [8]byte
		binary.BigEndian.PutUint64(l[:], uint64(len(f)))
		_, _ = h.Write(l[:])
		_, _ = h.Write(f)
	}
}

func hashPlain(session []byte, id string, a *anypb.Any) []byte {
	h := sha256.New()
	lp(h, session, []byte(id), []byte(a.GetTypeUrl()), a.GetValue())
	return h.Sum(nil)
}

func hashBound(session []byte, sender peer.ID, id string, a *anypb.Any) []byte {
	h := sha256.New()
	lp(h, []byte(sender), hashPlain(session, id, a))
	return h.Sum(nil)
}

// ---------------------------------------------------------------------------------------------
// Log capture (handler errors are only visible in the log)

type logSink struct {
	mu    sync.Mutex
	lines []map[string]any
}

func (l *logSink) Write(b []byte) (int, error) {
	l.mu.Lock()
	defer l.mu.Unlock()
	for _, ln := range bytes.Split(b, []byte("\n")) {
		if len(bytes.TrimSpace(ln)) == 0 {
			continue
		}
		var m map[string]any
		if json.Unmarshal(ln, &m) == nil {
			l.lines = append(l.lines, m)
		}
	}
	return len(b), nil
}
func (l *logSink) Sync() error { return nil }
func (l *logSink) pos() int {
	l.mu.Lock()
	defer l.mu.Unlock()
	return len(l.lines)
}

// classify returns the error class of the last handler error logged since pos for remote peer `name`.
func (l *logSink) classify(pos int, name string, isMsg bool) string {
	l.mu.Lock()
	defer l.mu.Unlock()
	for i := len(l.lines) - 1; i >= pos && i >= 0; i-- {
		m := l.lines[i]
		if fmt.Sprint(m["peer"]) != name {
			continue
		}
		txt := fmt.Sprint(m["msg"]) + " " + fmt.Sprint(m["error"])
		if !strings.Contains(txt, "stream handler") {
			continue
		}
		switch {
		case strings.Contains(txt, "unknown message id"):
			return "EUnknownId"
		case strings.Contains(txt, "signature request message check"):
			return "ECheck"
		case strings.Contains(txt, "duplicate ID"):
			return "EDedup"
		case strings.Contains(txt, "invalid number of signatures"):
			return "ENumSigs"
		case strings.Contains(txt, "invalid message id"):
			if isMsg {
				return "EVerifyId"
			}
			return "ESignId"
		case strings.Contains(txt, "invalid signature length"):
			return "ELen"
		case strings.Contains(txt, "invalid signature"), strings.Contains(txt, "verify signature"):
			return "EBadSig"
		case strings.Contains(txt, "unmarshal any"):
			return "EUnmarshal"
		}
		return ""
	}
	return ""
}

// classes returns the distinct error classes of the handler errors logged since pos for remote peer `name`.
func (l *logSink) classes(pos int, name string, isMsg bool) []string {
	n := l.pos()
	seen := map[string]bool{}
	var out []string
	for i := pos; i < n; i++ {
		l.mu.Lock()
		m := l.lines[i]
		l.mu.Unlock()
		if fmt.Sprint(m["peer"]) != name || !strings.Contains(fmt.Sprint(m["msg"])+" "+fmt.Sprint(m["error"]), "stream handler") {
			continue
		}
		one := &logSink{lines: []map[string]any{m}}
		c := one.classify(0, name, isMsg)
		if !seen[c] {
			seen[c] = true
			out = append(out, c)
		}
	}
	return out
}

// ---------------------------------------------------------------------------------------------
// Cluster

type cluster struct {
	n       int
	secrets []*k1.PrivateKey // n members + outsider
	pubs    []*k1.PublicKey
	peers   []peer.ID      // n members + outsider, same in both sessions
	hosts   [3][]host.Host // [session 1|2][member]
	scheme  string         // "bound" | "plain" | "" (not recognised)
	logs    *logSink
}

func newHost(t *testing.T, secret *k1.PrivateKey) host.Host {
	t.Helper()
	addr, err := multiaddr.NewMultiaddr("/ip4/127.0.0.1/tcp/0")
	if err != nil {
		t.Fatal(err)
	}
	// Same options as testutil.CreateHostWithIdentity, port chosen by the kernel.
	h, err := libp2p.New(
		libp2p.Identity((*p2pcrypto.Secp256k1PrivateKey)(secret)),
		libp2p.ListenAddrs(addr),
		libp2p.Transport(tcp.NewTCPTransport, tcp.DisableReuseport()),
	)
	if err != nil {
		t.Fatal(err)
	}
	t.Cleanup(func() { _ = h.Close() })
	return h
}

func newCluster(t *testing.T, n int, rng *rand.Rand, logs *logSink) *cluster {
	t.Helper()
	c := &cluster{n: n, logs: logs}
	for i := 0; i <= n; i++ {
		var b [32]byte
		for j := range b {
			b[j] = byte(rng.Intn(256))
		}
		b[0] |= 1
		b[0] &= 0x7f
		sk := k1.PrivKeyFromBytes(b[:])
		c.secrets = append(c.secrets, sk)
		c.pubs = append(c.pubs, sk.PubKey())
	}
	for s := 1; s <= 2; s++ {
		for i := 0; i <= n; i++ {
			c.hosts[s] = append(c.hosts[s], newHost(t, c.secrets[i]))
		}
		for i := 0; i <= n; i++ {
			for j := 0; j <= n; j++ {
				if i != j {
					c.hosts[s][i].Peerstore().AddAddrs(c.hosts[s][j].ID(), c.hosts[s][j].Addrs(), peerstore.PermanentAddrTTL)
				}
			}
		}
	}
	for i := 0; i <= n; i++ {
		c.peers = append(c.peers, c.hosts[1][i].ID())
	}
	return c
}

func (c *cluster) close() {
	for s := 1; s <= 2; s++ {
		for _, h := range c.hosts[s] {
			_ = h.Close()
		}
	}
}

func (c *cluster) members() []peer.ID { return c.peers[:c.n] }

func (c *cluster) index(p peer.ID) int {
	for i, q := range c.peers {
		if q == p {
			return i
		}
	}
	return -1
}

// detectScheme asks a real component for a signature and finds out which digest layout it is over.
func (c *cluster) detectScheme(t *testing.T) {
	t.Helper()
	session := []byte("verif-probe")
	comp := bcast.New(c.hosts[1][0], c.members(), c.secrets[0], session)
	comp.RegisterMessageIDFuncs(idName(1),
		func(context.Context, peer.ID, string, proto.Message) error { return nil },
		func(context.Context, peer.ID, *anypb.Any) error { return nil })
	a := mkAny([2]int{0, 1})
	resp := new(pb.BCastSigResponse)
	ctx, cancel := context.WithTimeout(context.Background(), 30*time.Second)
	defer cancel()
	err := p2p.SendReceive(ctx, c.hosts[1][c.n], c.peers[0], &pb.BCastSigRequest{Id: idName(1), Message: a}, resp, protoSig)
	if err != nil {
		t.Logf("scheme probe failed: %v", err)
		return
	}
	if ok, _ := k1util.Verify65(c.pubs[0], hashBound(session, c.peers[c.n], idName(1), a), resp.GetSignature()); ok {
		c.scheme = "bound"
	} else if ok, _ := k1util.Verify65(c.pubs[0], hashPlain(session, idName(1), a), resp.GetSignature()); ok {
		c.scheme = "plain"
	}
}

// ---------------------------------------------------------------------------------------------
// One run of one script

type event struct {
	kind    string // reg | sigreq | msg | selfsign | bret
	s       int
	r, q    int
	id      int
	p       [2]int
	ck      bool
	obs     string   // rendered observation ("" = unobserved for sigreq)
	sigs    []string // rendered signature terms (msg); nil = the full list of the honest client
	um      bool
	ok      bool
	deliver bool
}

type sigKey struct {
	M, S, Q, ID int
	P           [2]int
}

type runner struct {
	t       *testing.T
	c       *cluster
	sc      *Script
	session [3][]byte
	comps   [3][]*bcast.Component
	policy  map[int]string
	slow    map[int]int

	mu     sync.Mutex
	events []*event
	know   map[sigKey][]byte
	rev    map[string]sigKey
	notes  []string
	stats  map[string]int
}

func (r *runner) note(f string, a ...any) {
	r.mu.Lock()
	defer r.mu.Unlock()
	r.notes = append(r.notes, fmt.Sprintf(f, a...))
}

func (r *runner) digest(s, q, id int, p [2]int) []byte {
	a := mkAny(p)
	if r.c.scheme == "plain" {
		return hashPlain(r.session[s], idName(id), a)
	}
	return hashBound(r.session[s], r.c.peers[q], idName(id), a)
}

func (r *runner) normKey(k sigKey) sigKey {
	if r.c.scheme == "plain" {
		k.Q = -1
	}
	return k
}

// digestTerm renders the digest of (s, q, id, p) as a term of Flow/Bcast.v's TD.
func (r *runner) digestTerm(k sigKey) string {
	q := fmt.Sprintf("Some %d%%nat", k.Q)
	if r.c.scheme == "plain" || k.Q < 0 {
		q = "None"
	}
	return fmt.Sprintf("(%d, %s, %d, (%d, %d))", k.S, q, k.ID, k.P[0], k.P[1])
}

// learn stores sig if it verifies as member m's signature over the digest of k. Callers hold no lock.
func (r *runner) learn(k sigKey, sig []byte) bool {
	if k.M < 0 || k.M > r.c.n || len(sig) != 65 {
		return false
	}
	if ok, _ := k1util.Verify65(r.c.pubs[k.M], r.digest(k.S, k.Q, k.ID, k.P), sig); !ok {
		return false
	}
	r.mu.Lock()
	defer r.mu.Unlock()
	nk := r.normKey(k)
	if _, dup := r.know[nk]; !dup {
		r.know[nk] = sig
	}
	r.rev[string(sig)] = nk
	return true
}

// own returns scripted member m's signature over the digest of k (it has the key).
func (r *runner) own(k sigKey) []byte {
	sig, err := k1util.Sign(r.c.secrets[k.M], r.digest(k.S, k.Q, k.ID, k.P))
	if err != nil {
		r.t.Fatalf("sign: %v", err)
	}
	r.learn(k, sig)
	return sig
}

func junk(n int, seed int) []byte {
	b := make([]byte, n)
	for i := range b {
		b[i] = byte(0xA5 ^ (i * 7) ^ seed)
	}
	return b
}

// material returns the bytes for a signature spec: known signature, own signature, or junk.
func (r *runner) material(sp SigSpec, pos int) []byte {
	if sp.Junk < 0 {
		return []byte{}
	}
	if sp.Junk > 0 {
		return junk(sp.Junk, pos)
	}
	k := sigKey{M: sp.M, S: sp.S, Q: sp.Q, ID: sp.ID, P: sp.P}
	if sp.M >= 0 && sp.M <= r.c.n && r.sc.isFaulty(sp.M) {
		return r.own(k)
	}
	r.mu.Lock()
	sig, ok := r.know[r.normKey(k)]
	r.mu.Unlock()
	if ok {
		return sig
	}
	return junk(65, pos) // an honest member's signature the adversary does not have: it cannot forge it
}

// sigTerm renders signature bytes as a term: Sig m digest if they verify for a digest the harness knows of.
func (r *runner) sigTerm(sig []byte, expect *sigKey) string {
	if len(sig) != 65 {
		return fmt.Sprintf("Junk %d%%nat", len(sig))
	}
	r.mu.Lock()
	k, ok := r.rev[string(sig)]
	r.mu.Unlock()
	if !ok && expect != nil && r.learn(*expect, sig) {
		k, ok = r.normKey(*expect), true
	}
	if ok {
		return fmt.Sprintf("Sig %d%%nat %s", k.M, r.digestTerm(k))
	}
	return "Junk 65%nat"
}

func (r *runner) add(e *event) *event {
	r.mu.Lock()
	defer r.mu.Unlock()
	r.events = append(r.events, e)
	return e
}

func (r *runner) ctx() (context.Context, context.CancelFunc) {
	return context.WithTimeout(context.Background(), 60*time.Second)
}

// setup creates the honest components and the scripted members' handlers for this script.
func (r *runner) setup() {
	c, sc := r.c, r.sc
	for s := 1; s <= 2; s++ {
		r.session[s] = []byte(fmt.Sprintf("verif-session-%d-script-%d-seed-%d", s, sc.ID, hx.Seed()))
		r.comps[s] = make([]*bcast.Component, c.n+1)
		for m := 0; m <= c.n; m++ {
			s, m := s, m
			if !sc.isFaulty(m) {
				// every node has its own peer table (as in a deployment), so that a component that corrupts its table harms only itself
				r.comps[s][m] = bcast.New(c.hosts[s][m], append([]peer.ID(nil), c.members()...), c.secrets[m], r.session[s])
				continue
			}
			// Scripted member: answers honest clients, remembers what it sees.
			p2p.RegisterHandler("verif", c.hosts[s][m], protoSig,
				func() proto.Message { return new(pb.BCastSigRequest) },
				func(_ context.Context, pID peer.ID, pm proto.Message) (proto.Message, bool, error) {
					req, ok := pm.(*pb.BCastSigRequest)
					q := c.index(pID)
					p, okp := anyCode(req.GetMessage())
					if !ok || q < 0 || !okp {
						return nil, false, errors.New("verif: unexpected request")
					}
					r.mu.Lock()
					mode := r.policy[m]
					r.mu.Unlock()
					switch mode {
					case "refuse":
						return nil, false, errors.New("verif: scripted refusal")
					case "junk":
						return &pb.BCastSigResponse{Id: req.GetId(), Signature: junk(65, m)}, true, nil
					case "empty":
						return &pb.BCastSigResponse{Id: req.GetId()}, true, nil
					case "len64":
						return &pb.BCastSigResponse{Id: req.GetId(), Signature: junk(64, m)}, true, nil
					case "otherhash":
						sig := r.own(sigKey{M: m, S: s, Q: q, ID: idCode(req.GetId()), P: [2]int{p[0], (p[1] + 1) % 1000}})
						return &pb.BCastSigResponse{Id: req.GetId(), Signature: sig}, true, nil
					case "late":
						time.Sleep(20 * time.Millisecond)
					}
					sig := r.own(sigKey{M: m, S: s, Q: q, ID: idCode(req.GetId()), P: p})
					if mode == "wrongid" {
						return &pb.BCastSigResponse{Id: "verif/not-the-id", Signature: sig}, true, nil
					}
					return &pb.BCastSigResponse{Id: req.GetId(), Signature: sig}, true, nil
				})
			nomsg := false
			for _, x := range sc.NoMsg {
				nomsg = nomsg || x == m
			}
			if nomsg {
				c.hosts[s][m].RemoveStreamHandler(protoMsg)
				continue
			}
			p2p.RegisterHandler("verif", c.hosts[s][m], protoMsg,
				func() proto.Message { return new(pb.BCastMessage) },
				func(_ context.Context, pID peer.ID, pm proto.Message) (proto.Message, bool, error) {
					msg, ok := pm.(*pb.BCastMessage)
					q := c.index(pID)
					p, okp := anyCode(msg.GetMessage())
					if !ok || q < 0 || !okp {
						return nil, false, nil
					}
					for i, sig := range msg.GetSignatures() {
						r.learn(sigKey{M: i, S: s, Q: q, ID: idCode(msg.GetId()), P: p}, sig)
					}
					return nil, false, nil
				})
		}
	}
}

func (r *runner) register(s, m, id int) {
	comp := r.comps[s][m]
	cb := func(_ context.Context, pID peer.ID, msgID string, msg proto.Message) error {
		p, ok := msgCode(msg)
		if !ok {
			r.note("callback with a payload no script produces: %v", msg)
		}
		r.add(&event{kind: "msg", s: s, r: m, q: r.c.index(pID), id: idCode(msgID), p: p, um: true, deliver: true})
		return nil
	}
	ck := func(_ context.Context, pID peer.ID, a *anypb.Any) error {
		q := r.c.index(pID)
		p, ok := anyCode(a)
		if !ok {
			r.note("check with a payload no script produces")
		}
		res := checkFor(id, q, a)
		r.mu.Lock()
		d := r.slow[m]
		r.mu.Unlock()
		if d > 0 && !r.sc.isFaulty(q) {
			time.Sleep(time.Duration(d) * time.Millisecond) // before the event is recorded: the record marks the end of the check
		}
		r.add(&event{kind: "sigreq", s: s, r: m, q: q, id: id, p: p, ck: res})
		if !res {
			return errors.New("verif: check refuses")
		}
		return nil
	}
	comp.RegisterMessageIDFuncs(idName(id), cb, ck)
	r.add(&event{kind: "reg", s: s, r: m, id: id})
}

func (r *runner) nEvents() int {
	r.mu.Lock()
	defer r.mu.Unlock()
	return len(r.events)
}

// pending finds the event appended since `from` that matches; nil if none.
func (r *runner) pending(from int, match func(*event) bool) *event {
	r.mu.Lock()
	defer r.mu.Unlock()
	for i := len(r.events) - 1; i >= from; i-- {
		if match(r.events[i]) {
			return r.events[i]
		}
	}
	return nil
}

func (r *runner) errObs(kind string, class string) string {
	r.mu.Lock()
	defer r.mu.Unlock()
	if class == "" {
		r.stats["error_class_not_captured"]++
		return "(" + kind + " None)"
	}
	r.stats["err_"+class]++
	return "(" + kind + " (Some " + class + "))"
}

func (r *runner) doSigReq(op Op) {
	c := r.c
	ctx, cancel := r.ctx()
	defer cancel()
	a := mkAny(op.P)
	e0, l0 := r.nEvents(), c.logs.pos()
	resp := new(pb.BCastSigResponse)
	err := p2p.SendReceive(ctx, c.hosts[op.S][op.From], c.peers[op.To], &pb.BCastSigRequest{Id: idName(op.ID), Message: a}, resp, protoSig)
	if r.sc.isFaulty(op.To) {
		return // between scripted members: not an observation of the component
	}
	ev := r.pending(e0, func(e *event) bool {
		return e.kind == "sigreq" && e.s == op.S && e.r == op.To && e.q == op.From && e.id == op.ID && e.p == op.P && e.obs == ""
	})
	var obs string
	if err == nil {
		k := sigKey{M: op.To, S: op.S, Q: op.From, ID: op.ID, P: op.P}
		obs = "(OSig (" + r.sigTerm(resp.GetSignature(), &k) + "))"
		r.mu.Lock()
		r.stats["sig_ok"]++
		r.mu.Unlock()
	} else {
		if !strings.Contains(err.Error(), "read response") {
			r.note("sigreq transport error: %v", err)
		}
		obs = r.errObs("OSErr", c.logs.classify(l0, p2p.PeerName(c.peers[op.From]), false))
	}
	r.mu.Lock()
	defer r.mu.Unlock()
	if ev != nil {
		ev.obs = obs
		return
	}
	if err == nil {
		r.notes = append(r.notes, "signature returned but the check hook was not seen")
	}
	r.events = append(r.events, &event{kind: "sigreq", s: op.S, r: op.To, q: op.From, id: op.ID, p: op.P, ck: checkFor(op.ID, op.From, a), obs: obs})
}

func (r *runner) doMsg(op Op) {
	c := r.c
	ctx, cancel := r.ctx()
	defer cancel()
	a := mkAny(op.P)
	var sigs [][]byte
	for i, sp := range op.Sigs {
		sigs = append(sigs, r.material(sp, i))
	}
	var terms []string
	for i, sg := range sigs {
		k := sigKey{M: i, S: op.S, Q: op.From, ID: op.ID, P: op.P}
		terms = append(terms, r.sigTerm(sg, &k))
	}
	_, uerr := a.UnmarshalNew()
	e0, l0 := r.nEvents(), c.logs.pos()
	resp := new(pb.BCastSigResponse) // the handler answers with an empty frame when it succeeded
	err := p2p.SendReceive(ctx, c.hosts[op.S][op.From], c.peers[op.To], &pb.BCastMessage{Id: idName(op.ID), Message: a, Signatures: sigs}, resp, protoMsg)
	if r.sc.isFaulty(op.To) {
		return
	}
	ev := r.pending(e0, func(e *event) bool {
		return e.kind == "msg" && e.deliver && e.s == op.S && e.r == op.To && e.q == op.From && e.id == op.ID && e.sigs == nil
	})
	if ev != nil {
		// the callback ran: a delivery, whatever the transport says
		r.mu.Lock()
		ev.sigs = terms
		if ev.sigs == nil {
			ev.sigs = []string{}
		}
		ev.um = uerr == nil
		if ev.p != op.P {
			r.notes = append(r.notes, fmt.Sprintf("callback payload %v differs from the payload sent %v", ev.p, op.P))
		}
		r.stats["deliver_from_scripted"]++
		r.mu.Unlock()
		if err != nil {
			r.note("delivered but transport error: %v", err)
		}
		return
	}
	if err == nil {
		r.note("msg: handler reported success but no callback was seen")
		return
	}
	if !strings.Contains(err.Error(), "read response") {
		r.note("msg transport error: %v", err)
	}
	obs := r.errObs("OMErr", c.logs.classify(l0, p2p.PeerName(c.peers[op.From]), true))
	if terms == nil {
		terms = []string{}
	}
	r.add(&event{kind: "msg", s: op.S, r: op.To, q: op.From, id: op.ID, p: op.P, sigs: terms, um: uerr == nil, obs: obs})
}

// rawSigReq opens the stream first, waits for the release, then writes the request and reads the response
// (same framing as p2p.SendReceive: one varint-delimited protobuf each way).
func (r *runner) rawSigReq(ctx context.Context, s, from, to, id int, p [2]int, ready *sync.WaitGroup, start <-chan struct{}) ([]byte, error) {
	c := r.c
	st, err := c.hosts[s][from].NewStream(ctx, c.peers[to], protoSig)
	ready.Done()
	if err != nil {
		return nil, err
	}
	defer st.Close()
	_ = st.SetDeadline(time.Now().Add(60 * time.Second))
	<-start
	if err := pbio.NewDelimitedWriter(st).WriteMsg(&pb.BCastSigRequest{Id: idName(id), Message: mkAny(p)}); err != nil {
		return nil, err
	}
	_ = st.CloseWrite()
	resp := new(pb.BCastSigResponse)
	if err := pbio.NewDelimitedReader(st, 1<<20).ReadMsg(resp); err != nil {
		return nil, err
	}
	return resp.GetSignature(), nil
}

type raceRes struct {
	to, id int
	p      [2]int
	sig    []byte
	err    error
}

func (r *runner) doRace(op Op) {
	c, sc := r.c, r.sc
	ctx, cancel := context.WithTimeout(context.Background(), 120*time.Second)
	defer cancel()
	hs := honestOf(c.n, sc.Faulty)
	k := op.K
	if k < 2 {
		k = 2
	}
	e0, l0 := r.nEvents(), c.logs.pos()
	var (
		resMu sync.Mutex
		res   []raceRes
	)
	for _, id := range op.IDs {
		kk := 2 + (id+k)%(k-1) // 2..k payloads, varying with the id
		var ready, done sync.WaitGroup
		start := make(chan struct{})
		for _, to := range hs {
			for j := 0; j < kk; j++ {
				to, p := to, [2]int{0, 20 + j}
				ready.Add(1)
				done.Add(1)
				go func() {
					defer done.Done()
					sig, err := r.rawSigReq(ctx, op.S, op.From, to, id, p, &ready, start)
					resMu.Lock()
					res = append(res, raceRes{to: to, id: id, p: p, sig: sig, err: err})
					resMu.Unlock()
				}()
			}
		}
		ready.Wait()
		close(start)
		done.Wait()
	}
	// Attach the responses to the hook events (one per request: the payloads of a group differ).
	cls := c.logs.classes(l0, p2p.PeerName(c.peers[op.From]), false)
	class := ""
	if len(cls) == 1 {
		class = cls[0]
	}
	answered := map[[2]int]map[[2]int]bool{} // (to, id) -> payloads answered with a valid signature
	for _, x := range res {
		var obs string
		if x.err == nil {
			kx := sigKey{M: x.to, S: op.S, Q: op.From, ID: x.id, P: x.p}
			term := r.sigTerm(x.sig, &kx)
			obs = "(OSig (" + term + "))"
			if strings.HasPrefix(term, "Sig ") {
				g := [2]int{x.to, x.id}
				if answered[g] == nil {
					answered[g] = map[[2]int]bool{}
				}
				answered[g][x.p] = true
			}
		} else {
			obs = r.errObs("OSErr", class)
		}
		ev := r.pending(e0, func(e *event) bool {
			return e.kind == "sigreq" && e.s == op.S && e.r == x.to && e.q == op.From && e.id == x.id && e.p == x.p && e.obs == ""
		})
		r.mu.Lock()
		if ev != nil {
			ev.obs = obs
		} else {
			r.events = append(r.events, &event{kind: "sigreq", s: op.S, r: x.to, q: op.From, id: x.id, p: x.p, ck: checkFor(x.id, op.From, mkAny(x.p)), obs: obs})
		}
		r.mu.Unlock()
	}
	// The handler invocations of this step were concurrent: they have no observable order.  Any linearisation is
	// admissible; the one rendered puts the answered requests before the refused ones (a refusal changes nothing,
	// and a dedup entry, once made, stays).
	r.mu.Lock()
	tail := r.events[e0:]
	sort.SliceStable(tail, func(i, j int) bool {
		ri := tail[i].kind == "sigreq" && strings.Contains(tail[i].obs, "OSErr")
		rj := tail[j].kind == "sigreq" && strings.Contains(tail[j].obs, "OSErr")
		return !ri && rj
	})
	groups, both := 0, 0
	for _, id := range op.IDs {
		for _, to := range hs {
			groups++
			if len(answered[[2]int{to, id}]) >= 2 {
				both++
			}
		}
	}
	r.stats["race_groups"] += groups
	r.stats["race_requests"] += len(res)
	r.stats["race_groups_two_payloads_signed"] += both
	r.mu.Unlock()
	// Complete the attack where possible: payloads for which every honest member gave a signature.
	completed, plain := 0, 0
	for _, id := range op.IDs {
		var full [][2]int
		for j := 0; j < k+1; j++ {
			p := [2]int{0, 20 + j}
			all := len(hs) > 0
			for _, to := range hs {
				all = all && answered[[2]int{to, id}][p]
			}
			if all {
				full = append(full, p)
			}
		}
		switch {
		case len(full) >= 2 && len(hs) >= 2 && completed < 3:
			completed++
			r.doMsg(Op{Op: "msg", S: op.S, From: op.From, To: hs[0], ID: id, P: full[0], Sigs: fullSet(c.n, op.S, op.From, id, full[0])})
			r.doMsg(Op{Op: "msg", S: op.S, From: op.From, To: hs[1], ID: id, P: full[1], Sigs: fullSet(c.n, op.S, op.From, id, full[1])})
		case len(full) == 1 && plain < 3:
			plain++
			for _, to := range hs {
				r.doMsg(Op{Op: "msg", S: op.S, From: op.From, To: to, ID: id, P: full[0], Sigs: fullSet(c.n, op.S, op.From, id, full[0])})
			}
		}
	}
	r.mu.Lock()
	r.stats["race_attacks_completed"] += completed
	r.mu.Unlock()
}

func (r *runner) doBcast(op Op) {
	c := r.c
	ctx, cancel := r.ctx()
	defer cancel()
	e0 := r.nEvents()
	self := r.add(&event{kind: "selfsign", s: op.S, r: op.M, id: op.ID, p: op.P, ok: true})
	err := r.comps[op.S][op.M].Broadcast(ctx, idName(op.ID), mkMsg(op.P))
	if err != nil && strings.Contains(err.Error(), "sign hash") {
		r.mu.Lock()
		self.ok = false
		r.mu.Unlock()
	}
	r.add(&event{kind: "bret", s: op.S, r: op.M, id: op.ID, p: op.P, ok: err == nil})
	r.mu.Lock()
	if err == nil {
		r.stats["bcast_ok"]++
	} else {
		r.stats["bcast_err"]++
	}
	r.mu.Unlock()
	if err != nil && op.Expect == "ok" {
		r.note("honest broadcast that must succeed on correct code failed: member %d id %d: %v", op.M, op.ID, err)
		r.mu.Lock()
		r.stats["expected_ok_broadcast_failed"]++
		r.mu.Unlock()
	}
	if err != nil {
		// Requests of the failed broadcast may still be on their way: flush every connection with a round trip
		// (an unregistered id: no hook, no state change).
		for m := 0; m < c.n; m++ {
			if m == op.M || r.sc.isFaulty(m) {
				continue
			}
			_ = p2p.SendReceive(ctx, c.hosts[op.S][op.M], c.peers[m], &pb.BCastSigRequest{Id: "verif/flush", Message: mkAny([2]int{0, 0})}, new(pb.BCastSigResponse), protoSig)
		}
		return
	}
	// Success: every member answered with a signature that verified at the client.
	r.mu.Lock()
	for _, e := range r.events[e0:] {
		if e.kind == "sigreq" && e.s == op.S && e.q == op.M && e.id == op.ID && e.p == op.P && e.obs == "" && e.ck {
			k := r.normKey(sigKey{M: e.r, S: op.S, Q: op.M, ID: op.ID, P: op.P})
			e.obs = fmt.Sprintf("(OSig (Sig %d%%nat %s))", e.r, r.digestTerm(k))
		}
	}
	r.mu.Unlock()
	// ... and every honest member must now deliver: wait for the callbacks (positive observations).
	deadline := time.Now().Add(30 * time.Second)
	for m := 0; m < c.n; m++ {
		if m == op.M || r.sc.isFaulty(m) {
			continue
		}
		for {
			if r.pending(e0, func(e *event) bool {
				return e.kind == "msg" && e.deliver && e.s == op.S && e.r == m && e.q == op.M && e.id == op.ID && e.p == op.P
			}) != nil {
				break
			}
			if time.Now().After(deadline) {
				r.note("no delivery at member %d after a successful broadcast of member %d", m, op.M)
				r.mu.Lock()
				r.stats["missing_delivery"]++
				r.mu.Unlock()
				break
			}
			time.Sleep(200 * time.Microsecond)
		}
	}
}

func (r *runner) render() {
	sc := r.sc
	r.mu.Lock()
	defer r.mu.Unlock()
	delivered, refused := 0, 0
	for _, e := range r.events {
		pl := fmt.Sprintf("(%d, %d)", e.p[0], e.p[1])
		switch e.kind {
		case "reg":
			sc.Labels = append(sc.Labels, fmt.Sprintf("LReg %d %d%%nat %d", e.s, e.r, e.id))
		case "sigreq":
			obs := e.obs
			if obs == "" {
				obs = "OSAny"
			}
			if strings.Contains(obs, "OSErr") {
				refused++
			}
			sc.Labels = append(sc.Labels, fmt.Sprintf("LSigReq %d %d%%nat %d%%nat %d %s %v %s", e.s, e.r, e.q, e.id, pl, e.ck, obs))
		case "msg":
			sigs := e.sigs
			if sigs == nil { // sent by an honest client: the list it verified before sending
				for m := 0; m < sc.N; m++ {
					k := r.normKey(sigKey{M: m, S: e.s, Q: e.q, ID: e.id, P: e.p})
					sigs = append(sigs, fmt.Sprintf("Sig %d%%nat %s", m, r.digestTerm(k)))
				}
			}
			obs := e.obs
			if e.deliver {
				obs = "ODeliver"
				delivered++
			} else {
				refused++
			}
			sc.Labels = append(sc.Labels, fmt.Sprintf("LMsg %d %d%%nat %d%%nat %d %s [%s] %v %s", e.s, e.r, e.q, e.id, pl, strings.Join(sigs, "; "), e.um, obs))
		case "selfsign":
			sc.Labels = append(sc.Labels, fmt.Sprintf("LSelfSign %d %d%%nat %d %s %v", e.s, e.r, e.id, pl, e.ok))
		case "bret":
			sc.Labels = append(sc.Labels, fmt.Sprintf("LBcastRet %d %d%%nat %d %s %v", e.s, e.r, e.id, pl, e.ok))
		}
	}
	sc.NonTrivial = delivered > 0 && refused > 0
	sc.Notes = r.notes
	sc.Stats = r.stats
	sc.Stats["deliveries"] = delivered
	sc.Stats["refusals"] = refused
	sc.Scheme = r.c.scheme
}

func runScript(t *testing.T, c *cluster, sc *Script) {
	t.Helper()
	r := &runner{t: t, c: c, sc: sc, policy: map[int]string{}, slow: map[int]int{}, know: map[sigKey][]byte{}, rev: map[string]sigKey{}, stats: map[string]int{}}
	sc.Labels, sc.Notes = nil, nil
	r.setup()
	for _, op := range sc.Ops {
		bad := op.S < 1 || op.S > 2
		switch op.Op {
		case "reg", "bcast":
			bad = bad || op.M < 0 || op.M >= c.n || sc.isFaulty(op.M)
		case "sigreq", "msg":
			bad = bad || op.From < 0 || op.From > c.n || !sc.isFaulty(op.From) || op.To < 0 || op.To >= c.n || op.To == op.From
		case "policy":
			bad = op.M < 0 || op.M > c.n || !sc.isFaulty(op.M)
		case "slow":
			bad = op.M < 0 || op.M >= c.n || sc.isFaulty(op.M) || op.K < 0 || op.K > 200
		case "race":
			bad = bad || op.From < 0 || op.From > c.n || !sc.isFaulty(op.From) || len(op.IDs) == 0 || op.K > 6
		default:
			bad = true
		}
		if op.Op != "policy" && op.Op != "slow" && (op.P[0] < 0 || op.P[0] > 2 || op.P[1] < 0 || op.P[1] >= 1128) {
			bad = true
		}
		if op.Op == "bcast" && (op.P[0] > 1 || op.P[1] >= 1000) {
			bad = true
		}
		if bad {
			r.note("ill-formed op skipped: %+v", op)
			continue
		}
		switch op.Op {
		case "reg":
			r.register(op.S, op.M, op.ID)
		case "policy":
			r.mu.Lock()
			r.policy[op.M] = op.Mode
			r.mu.Unlock()
		case "bcast":
			r.doBcast(op)
		case "sigreq":
			r.doSigReq(op)
		case "msg":
			r.doMsg(op)
		case "race":
			r.doRace(op)
		case "slow":
			r.mu.Lock()
			r.slow[op.M] = op.K
			r.mu.Unlock()
		}
	}
	r.render()
}

// ---------------------------------------------------------------------------------------------
// Script generation

type gen struct {
	rng *rand.Rand
	n   int
}

func (g *gen) pick(xs []int) int { return xs[g.rng.Intn(len(xs))] }

func honestOf(n int, faulty []int) []int {
	var hs []int
	for m := 0; m < n; m++ {
		f := false
		for _, x := range faulty {
			f = f || x == m
		}
		if !f {
			hs = append(hs, m)
		}
	}
	return hs
}

func regAll(n int, faulty []int, sessions []int, ids []int) []Op {
	var ops []Op
	for _, s := range sessions {
		for _, m := range honestOf(n, faulty) {
			for _, id := range ids {
				ops = append(ops, Op{Op: "reg", S: s, M: m, ID: id})
			}
		}
	}
	return ops
}

// fullSet is the signature list every member made over (s, q, id, p).
func fullSet(n, s, q, id int, p [2]int) []SigSpec {
	var l []SigSpec
	for m := 0; m < n; m++ {
		l = append(l, SigSpec{M: m, S: s, Q: q, ID: id, P: p})
	}
	return l
}

// askAll: scripted member f requests a signature for (id, p) from every honest member in `to`.
func askAll(s, f, id int, p [2]int, to []int) []Op {
	var ops []Op
	for _, m := range to {
		ops = append(ops, Op{Op: "sigreq", S: s, From: f, To: m, ID: id, P: p})
	}
	return ops
}

func sendAll(s, f, id int, p [2]int, sigs []SigSpec, to []int) []Op {
	var ops []Op
	for _, m := range to {
		ops = append(ops, Op{Op: "msg", S: s, From: f, To: m, ID: id, P: p, Sigs: sigs})
	}
	return ops
}

// corpus: the minimised shapes (F8 relay, the two-broadcaster shape, the repo's own test, replays).
func corpus(n int) []*Script {
	f := n - 1
	fl := []int{f}
	hs := honestOf(n, fl)
	y, a := hs[0], hs[1]
	P0, P1, P2 := [2]int{0, 10}, [2]int{0, 11}, [2]int{0, 12}
	var out []*Script

	// F8: member y broadcasts (1, P0); f obtains signatures for its own P2, y delivers it; f re-sends y's fully
	// signed (1, P0) to the others over its own connection.
	ops := regAll(n, fl, []int{1}, []int{1, 2})
	ops = append(ops, Op{Op: "bcast", S: 1, M: y, ID: 1, P: P0})
	ops = append(ops, askAll(1, f, 1, P2, hs)...)
	ops = append(ops, Op{Op: "msg", S: 1, From: f, To: y, ID: 1, P: P2, Sigs: fullSet(n, 1, f, 1, P2)})
	for _, m := range hs[1:] {
		ops = append(ops, Op{Op: "msg", S: 1, From: f, To: m, ID: 1, P: P0, Sigs: fullSet(n, 1, y, 1, P0)})
	}
	out = append(out, &Script{Kind: "corpus-f8-relay", N: n, Faulty: fl, Ops: ops})

	// relay without f having asked for anything (pure relay), and relay under another id
	ops = regAll(n, fl, []int{1}, []int{1, 2})
	ops = append(ops, Op{Op: "bcast", S: 1, M: y, ID: 1, P: P0})
	for _, m := range hs[1:] {
		ops = append(ops, Op{Op: "msg", S: 1, From: f, To: m, ID: 1, P: P0, Sigs: fullSet(n, 1, y, 1, P0)})
		ops = append(ops, Op{Op: "msg", S: 1, From: f, To: m, ID: 2, P: P0, Sigs: fullSet(n, 1, y, 1, P0)})
	}
	out = append(out, &Script{Kind: "corpus-pure-relay", N: n, Faulty: fl, Ops: ops})

	// dedup_check_alone_insufficient: y and a broadcast P1 and P2 under id 1; f asks a to sign P1 and y to sign P2
	// for (f, 1), then re-sends y's set to a and a's set to y.
	ops = regAll(n, fl, []int{1}, []int{1})
	ops = append(ops, Op{Op: "bcast", S: 1, M: y, ID: 1, P: P1}, Op{Op: "bcast", S: 1, M: a, ID: 1, P: P2})
	ops = append(ops, Op{Op: "sigreq", S: 1, From: f, To: a, ID: 1, P: P1}, Op{Op: "sigreq", S: 1, From: f, To: y, ID: 1, P: P2})
	ops = append(ops, Op{Op: "msg", S: 1, From: f, To: a, ID: 1, P: P1, Sigs: fullSet(n, 1, y, 1, P1)})
	ops = append(ops, Op{Op: "msg", S: 1, From: f, To: y, ID: 1, P: P2, Sigs: fullSet(n, 1, a, 1, P2)})
	out = append(out, &Script{Kind: "corpus-two-broadcasters", N: n, Faulty: fl, Ops: ops})

	// the repo's TestBCast sequence (scripted member cooperating)
	ops = regAll(n, fl, []int{1}, []int{1, 2})
	ops = append(ops, Op{Op: "bcast", S: 1, M: y, ID: 1, P: P0}, Op{Op: "bcast", S: 1, M: a, ID: 2, P: P1},
		Op{Op: "bcast", S: 1, M: y, ID: 1, P: P2}, Op{Op: "bcast", S: 1, M: y, ID: 9, P: P2}, Op{Op: "bcast", S: 1, M: y, ID: 1, P: P0})
	out = append(out, &Script{Kind: "corpus-repo-test", N: n, Faulty: fl, Ops: ops})

	// a complete, correct broadcast by the scripted member, then cross-session and cross-id replays of full sets
	ops = regAll(n, fl, []int{1, 2}, []int{1, 2})
	ops = append(ops, askAll(1, f, 1, P0, hs)...)
	ops = append(ops, sendAll(1, f, 1, P0, fullSet(n, 1, f, 1, P0), hs)...)
	ops = append(ops, askAll(2, f, 1, P1, hs)...)                                // session 2 signs P1
	ops = append(ops, sendAll(1, f, 1, P1, fullSet(n, 2, f, 1, P1), hs[:1])...)  // replayed into session 1
	ops = append(ops, sendAll(2, f, 1, P1, fullSet(n, 2, f, 1, P1), hs[:1])...)  // where it belongs: delivered
	ops = append(ops, askAll(1, f, 2, P2, hs)...)                                // id 2 signs P2
	ops = append(ops, sendAll(1, f, 1, P2, fullSet(n, 1, f, 2, P2), hs[1:2])...) // replayed under id 1
	ops = append(ops, sendAll(2, f, 1, P0, fullSet(n, 1, f, 1, P0), hs[1:2])...) // session 1 set into session 2
	out = append(out, &Script{Kind: "corpus-replays", N: n, Faulty: fl, Ops: ops})

	// outsider (not in the peer list) asks everybody, all members honest
	ops = regAll(n, nil, []int{1}, []int{1})
	ops = append(ops, askAll(1, n, 1, P0, honestOf(n, nil))...)
	ops = append(ops, sendAll(1, n, 1, P0, fullSet(n, 1, n, 1, P0), honestOf(n, nil))...)
	ops = append(ops, Op{Op: "bcast", S: 1, M: 0, ID: 1, P: P1})
	ops = append(ops, sendAll(1, n, 1, P1, fullSet(n, 1, 0, 1, P1), honestOf(n, nil)[1:])...)
	out = append(out, &Script{Kind: "corpus-outsider", N: n, Faulty: nil, Ops: ops})
	return out
}

func (g *gen) payload() [2]int { return [2]int{0, 10 + g.rng.Intn(4)} }

func (g *gen) faultySet() []int {
	n := g.n
	switch x := g.rng.Intn(10); {
	case x < 6 || n < 4:
		return []int{g.rng.Intn(n)}
	case x < 9:
		a := g.rng.Intn(n)
		b := (a + 1 + g.rng.Intn(n-1)) % n
		return []int{a, b}
	default:
		return nil // only the outsider
	}
}

// mutateSigs: subsets / permutations / substitutions / duplications / wrong lengths of a signature list.
func (g *gen) mutateSigs(l []SigSpec, n, s, f, id int, p [2]int, to int) ([]SigSpec, string) {
	l = append([]SigSpec(nil), l...)
	other := [2]int{p[0], p[1] + 1}
	i := g.rng.Intn(len(l))
	j := (i + 1 + g.rng.Intn(len(l)-1)) % len(l)
	switch g.rng.Intn(16) {
	case 0:
		return l[:len(l)-1], "drop-last"
	case 1:
		return l[1:], "drop-first"
	case 2:
		return append(l, l[i]), "extra"
	case 3:
		l[i], l[j] = l[j], l[i]
		return l, "swap"
	case 4:
		l[i] = l[j]
		return l, "duplicate"
	case 5:
		for k := range l {
			l[k] = l[i]
		}
		return l, "all-same"
	case 6:
		l[i] = SigSpec{Junk: 64}
		return l, "len64"
	case 7:
		l[i] = SigSpec{Junk: 66}
		return l, "len66"
	case 8:
		l[i] = SigSpec{Junk: -1}
		return l, "len0"
	case 9:
		l[i] = SigSpec{Junk: 65}
		return l, "junk65"
	case 10:
		l[to] = SigSpec{Junk: 65}
		return l, "receiver-own-junk"
	case 11:
		l[i] = SigSpec{M: l[i].M, S: s, Q: f, ID: id, P: other}
		return l, "other-payload"
	case 12:
		l[i] = SigSpec{M: l[i].M, S: 3 - s, Q: f, ID: id, P: p}
		return l, "other-session"
	case 13:
		l[i] = SigSpec{M: l[i].M, S: s, Q: f, ID: 3 - id%2, P: p}
		return l, "other-id"
	case 14:
		return nil, "empty"
	default:
		g.rng.Shuffle(len(l), func(a, b int) { l[a], l[b] = l[b], l[a] })
		return l, "shuffle"
	}
}

// random builds one structured, mostly valid scenario with adversarial steps mixed in.
func (g *gen) random(kind string) *Script {
	n := g.n
	fl := g.faultySet()
	hs := honestOf(n, fl)
	adv := append(append([]int(nil), fl...), n) // scripted members incl. outsider
	sc := &Script{Kind: kind, N: n, Faulty: fl}
	ids := []int{1, 2, 3}
	ops := regAll(n, fl, []int{1, 2}, []int{1, 2})
	for _, m := range hs { // id 3 registered at most members only
		if g.rng.Intn(4) > 0 {
			ops = append(ops, Op{Op: "reg", S: 1, M: m, ID: 3})
		}
	}
	f := g.pick(adv)
	if len(fl) > 0 && g.rng.Intn(4) > 0 {
		f = g.pick(fl)
	}
	steps := 3 + g.rng.Intn(5)
	for st := 0; st < steps; st++ {
		s := 1
		if g.rng.Intn(6) == 0 {
			s = 2
		}
		id := g.pick(ids[:2])
		p := g.payload()
		switch k := g.rng.Intn(12); {
		case k < 2: // honest broadcast
			m := g.pick(hs)
			bp := p
			if g.rng.Intn(3) == 0 {
				bp = [2]int{1, p[1]}
				id = 2
			}
			if g.rng.Intn(8) == 0 {
				id = 3
			}
			if g.rng.Intn(12) == 0 {
				id = 9
			}
			if len(fl) > 0 && g.rng.Intn(6) == 0 {
				ops = append(ops, Op{Op: "policy", M: g.pick(fl), Mode: []string{"refuse", "junk"}[g.rng.Intn(2)]})
				ops = append(ops, Op{Op: "bcast", S: s, M: m, ID: id, P: bp})
				for _, x := range fl {
					ops = append(ops, Op{Op: "policy", M: x, Mode: "coop"})
				}
			} else {
				ops = append(ops, Op{Op: "bcast", S: s, M: m, ID: id, P: bp})
			}
		case k < 4: // complete broadcast by the scripted member, maybe withholding from some
			ops = append(ops, askAll(s, f, id, p, hs)...)
			to := hs
			if g.rng.Intn(2) == 0 {
				to = hs[:1+g.rng.Intn(len(hs))]
			}
			ops = append(ops, sendAll(s, f, id, p, fullSet(n, s, f, id, p), to)...)
			if g.rng.Intn(2) == 0 { // the accepted list again: other payload, same payload
				ops = append(ops, sendAll(s, f, id, [2]int{p[0], p[1] + 1}, fullSet(n, s, f, id, p), hs)...)
				ops = append(ops, sendAll(s, f, id, p, fullSet(n, s, f, id, p), hs[:1])...)
			}
		case k < 6: // equivocation: a payload per receiver, then every payload to every receiver
			ps := [][2]int{p, {p[0], p[1] + 1}}
			if g.rng.Intn(2) == 0 {
				ps = append(ps, [2]int{p[0], p[1] + 2})
			}
			for _, m := range hs {
				ops = append(ops, Op{Op: "sigreq", S: s, From: f, To: m, ID: id, P: ps[g.rng.Intn(len(ps))]})
			}
			if g.rng.Intn(2) == 0 { // second round: same or different payload
				for _, m := range hs {
					ops = append(ops, Op{Op: "sigreq", S: s, From: f, To: m, ID: id, P: ps[g.rng.Intn(len(ps))]})
				}
			}
			for _, q := range ps {
				ops = append(ops, sendAll(s, f, id, q, fullSet(n, s, f, id, q), hs)...)
			}
		case k < 8: // signature list manipulation on an otherwise complete set
			ops = append(ops, askAll(s, f, id, p, hs)...)
			if g.rng.Intn(2) == 0 {
				ops = append(ops, askAll(3-s, f, id, p, hs)...)
				ops = append(ops, askAll(s, f, 3-id, p, hs)...)
			}
			for _, m := range hs {
				l, _ := g.mutateSigs(fullSet(n, s, f, id, p), n, s, f, id, p, m)
				ops = append(ops, Op{Op: "msg", S: s, From: f, To: m, ID: id, P: p, Sigs: l})
			}
			if g.rng.Intn(2) == 0 {
				ops = append(ops, sendAll(s, f, id, p, fullSet(n, s, f, id, p), hs[:1])...)
			}
		case k < 9: // relay of an honest member's message by the scripted member (F8 shape), maybe after own requests
			y := g.pick(hs)
			ops = append(ops, Op{Op: "bcast", S: s, M: y, ID: id, P: p})
			q := [2]int{p[0], p[1] + 1}
			if g.rng.Intn(2) == 0 {
				ops = append(ops, askAll(s, f, id, q, hs)...)
			} else if g.rng.Intn(2) == 0 {
				ops = append(ops, askAll(s, f, id, p, hs)...)
			}
			for _, m := range hs {
				if m != y {
					ops = append(ops, Op{Op: "msg", S: s, From: f, To: m, ID: id, P: p, Sigs: fullSet(n, s, y, id, p)})
				}
			}
		case k < 10: // unregistered ids, ids registered at some members only, bad payloads
			switch g.rng.Intn(4) {
			case 0:
				ops = append(ops, askAll(s, f, 9, p, hs)...)
				ops = append(ops, sendAll(s, f, 9, p, fullSet(n, s, f, 9, p), hs)...)
			case 1:
				ops = append(ops, askAll(1, f, 3, p, hs)...)
				ops = append(ops, sendAll(1, f, 3, p, fullSet(n, 1, f, 3, p), hs)...)
			case 2: // malformed bytes under id 2 (check looks at the type url only): signed, then refused at unmarshal
				bp := [2]int{g.rng.Intn(2), 1000 + g.rng.Intn(3)}
				ops = append(ops, askAll(s, f, 2, bp, hs)...)
				ops = append(ops, sendAll(s, f, 2, bp, fullSet(n, s, f, 2, bp), hs)...)
			default: // unknown type: refused by the checks of ids 1, 2; accepted by id 3's check, refused at unmarshal
				bp := [2]int{2, g.rng.Intn(3)}
				id3 := g.pick([]int{1, 2, 3})
				ops = append(ops, askAll(1, f, id3, bp, hs)...)
				ops = append(ops, sendAll(1, f, id3, bp, fullSet(n, 1, f, id3, bp), hs)...)
			}
		case k < 11: // two broadcasters under one id, then cross re-sends (dedup_check_alone_insufficient shape)
			if len(hs) >= 2 {
				y, a := hs[0], hs[1]
				q := [2]int{p[0], p[1] + 1}
				ops = append(ops, Op{Op: "bcast", S: s, M: y, ID: id, P: p}, Op{Op: "bcast", S: s, M: a, ID: id, P: q})
				ops = append(ops, Op{Op: "sigreq", S: s, From: f, To: a, ID: id, P: p}, Op{Op: "sigreq", S: s, From: f, To: y, ID: id, P: q})
				ops = append(ops, Op{Op: "msg", S: s, From: f, To: a, ID: id, P: p, Sigs: fullSet(n, s, y, id, p)})
				ops = append(ops, Op{Op: "msg", S: s, From: f, To: y, ID: id, P: q, Sigs: fullSet(n, s, a, id, q)})
			}
		default: // a late registration, then what was refused before is accepted
			if len(hs) > 0 {
				m := g.pick(hs)
				ops = append(ops, Op{Op: "sigreq", S: 2, From: f, To: m, ID: 3, P: p})
				ops = append(ops, Op{Op: "reg", S: 2, M: m, ID: 3})
				ops = append(ops, Op{Op: "sigreq", S: 2, From: f, To: m, ID: 3, P: p})
			}
		}
		if g.rng.Intn(5) == 0 && len(adv) > 1 {
			f = g.pick(adv)
		}
	}
	sc.Ops = ops
	return sc
}

// replayAfterAccept: after successful deliveries (of an honest member's broadcast and of a complete broadcast by the
// scripted member) the scripted member re-sends the ACCEPTED signature lists, to the same and to other receivers:
// with another payload, with the same payload (handleMessage keeps no state: the callback runs again), permuted or
// duplicated, under another registered id, in the other session; several rounds, so that whatever a receiver might
// remember about an accepted list is exercised.
func (g *gen) replayAfterAccept(kind string) *Script {
	n := g.n
	fl := []int{g.rng.Intn(n)}
	if n >= 4 && g.rng.Intn(3) == 0 {
		fl = append(fl, (fl[0]+1+g.rng.Intn(n-1))%n)
	}
	hs := honestOf(n, fl)
	f := fl[g.rng.Intn(len(fl))]
	s, id := 1, 1+g.rng.Intn(2)
	oid := 3 - id
	p1 := g.payload()
	p2 := [2]int{p1[0], p1[1] + 1 + g.rng.Intn(2)}
	ops := regAll(n, fl, []int{1, 2}, []int{1, 2})
	acc := fullSet(n, s, f, id, p1)
	// accepted deliveries: the scripted member's own complete broadcast of p1 (to all or to some) ...
	ops = append(ops, askAll(s, f, id, p1, hs)...)
	first := hs
	if g.rng.Intn(3) == 0 {
		first = hs[:1+g.rng.Intn(len(hs))]
	}
	ops = append(ops, sendAll(s, f, id, p1, acc, first)...)
	// ... and an honest member's broadcast under the other id
	y := g.pick(hs)
	py := g.payload()
	ops = append(ops, Op{Op: "bcast", S: s, M: y, ID: oid, P: py})
	accY := fullSet(n, s, y, oid, py)
	rounds := 2 + g.rng.Intn(2)
	for rd := 0; rd < rounds; rd++ {
		for _, m := range hs {
			var step []Op
			add := func(ss, i int, p [2]int, l []SigSpec) {
				step = append(step, Op{Op: "msg", S: ss, From: f, To: m, ID: i, P: p, Sigs: l})
			}
			add(s, id, p2, acc) // accepted list, other payload
			add(s, id, p1, acc) // accepted list, same payload: delivered again
			add(s, id, p2, acc) // ... and right after a re-delivery
			perm := append([]SigSpec(nil), acc...)
			i := g.rng.Intn(n)
			j := (i + 1 + g.rng.Intn(n-1)) % n
			perm[i], perm[j] = perm[j], perm[i]
			add(s, id, p1, perm)
			add(s, id, p2, perm)
			dup := append([]SigSpec(nil), acc...)
			dup[i] = dup[j]
			add(s, id, []([2]int){p1, p2}[g.rng.Intn(2)], dup)
			add(s, id, p2, append(append([]SigSpec(nil), acc...), acc[i])) // accepted list plus one
			add(s, oid, p1, acc)                                           // under another registered id
			add(s, oid, p2, acc)
			add(2, id, p1, acc) // in the other session
			add(2, id, p2, acc)
			if m != y { // the honest member's accepted list, re-sent by the scripted member
				add(s, oid, py, accY)
				add(s, oid, [2]int{py[0], py[1] + 1}, accY)
				add(s, id, py, accY)
			}
			if rd > 0 {
				g.rng.Shuffle(len(step), func(a, b int) { step[a], step[b] = step[b], step[a] })
			}
			ops = append(ops, step...)
		}
		if rd == 0 { // a second accepted payload in session 2, then cross it with the first
			ops = append(ops, askAll(2, f, id, p2, hs)...)
			ops = append(ops, sendAll(2, f, id, p2, fullSet(n, 2, f, id, p2), hs)...)
			for _, m := range hs {
				ops = append(ops, Op{Op: "msg", S: 2, From: f, To: m, ID: id, P: p1, Sigs: fullSet(n, 2, f, id, p2)})
				ops = append(ops, Op{Op: "msg", S: 1, From: f, To: m, ID: id, P: p2, Sigs: fullSet(n, 2, f, id, p2)})
			}
		}
	}
	return &Script{Kind: kind, N: n, Faulty: fl, Ops: ops}
}

// slotList: a signature list over (s, f, id, p) in which slot i holds member who[i]'s signature (who[i] < 0: junk).
func slotList(who []int, s, f, id int, p [2]int) []SigSpec {
	var l []SigSpec
	for _, m := range who {
		if m < 0 {
			l = append(l, SigSpec{Junk: 65})
		} else {
			l = append(l, SigSpec{M: m, S: s, Q: f, ID: id, P: p})
		}
	}
	return l
}

// badResponder: the scripted member misbehaves as a RESPONDER while honest members broadcast (refuses the msg
// protocol; answers signature requests with a wrong id, an empty / short / unrelated / junk signature, late, or not
// at all), every honest Broadcast's return is recorded, and then the usual attacks run against the same long-lived
// honest components: equivocation with crafted lists that carry the scripted member's signature in slots that are
// not its own (single slots, leading slots, lists compacted to the front), relays; finally honest broadcasts again.
func (g *gen) badResponder(kind string) *Script {
	n := g.n
	b := g.rng.Intn(n)
	fl := []int{b}
	hs := honestOf(n, fl)
	sc := &Script{Kind: kind, N: n, Faulty: fl, Fresh: true}
	nomsg := g.rng.Intn(5) < 3
	if nomsg {
		sc.NoMsg = []int{b}
	}
	var ids []int
	for i := 0; i < 2*n+4; i++ {
		ids = append(ids, 100+i)
	}
	ops := regAll(n, fl, []int{1}, append([]int{1, 2, 3}, ids...))
	next := 0
	fresh := func() int { next++; return ids[next-1] }
	// phase 1: honest broadcasts while the scripted member misbehaves as a responder
	modes := []string{"coop", "wrongid", "wrongid", "wrongid", "empty", "empty", "len64", "otherhash", "junk", "refuse", "late"}
	mode := modes[g.rng.Intn(len(modes))]
	if nomsg && g.rng.Intn(2) == 0 {
		mode = "coop" // signs normally, refuses the message
	}
	perBcast := g.rng.Intn(3) == 0
	slow := g.rng.Intn(2) == 0
	order := append([]int(nil), hs...)
	g.rng.Shuffle(len(order), func(i, j int) { order[i], order[j] = order[j], order[i] })
	for _, m := range order {
		if perBcast {
			mode = modes[g.rng.Intn(len(modes))]
		}
		ops = append(ops, Op{Op: "policy", M: b, Mode: mode})
		if slow {
			for _, x := range hs {
				if x != m {
					ops = append(ops, Op{Op: "slow", M: x, K: 25})
				}
			}
		}
		ops = append(ops, Op{Op: "bcast", S: 1, M: m, ID: 1, P: [2]int{0, 30 + m}})
		for _, x := range hs {
			ops = append(ops, Op{Op: "slow", M: x, K: 0})
		}
	}
	ops = append(ops, Op{Op: "policy", M: b, Mode: "coop"})
	// phase 2: attacks by the scripted member as a sender. Per target id a victim j signs Y, everybody else X.
	X, Y := [2]int{0, 40}, [2]int{0, 41}
	for _, j := range hs {
		id := fresh()
		for _, m := range hs {
			p := X
			if m == j {
				p = Y
			}
			ops = append(ops, Op{Op: "sigreq", S: 1, From: b, To: m, ID: id, P: p})
		}
		for _, r := range hs {
			for _, p := range [][2]int{X, Y} {
				var lists [][]int
				ident := make([]int, n)
				for i := range ident {
					ident[i] = i
				}
				one := append([]int(nil), ident...)
				one[j] = b // the victim's slot carries the scripted member's signature
				own := append([]int(nil), ident...)
				own[r] = b // the receiver's own slot
				lead1 := append([]int(nil), ident...)
				lead1[0] = b // leading slots overwritten
				lead2 := append([]int(nil), lead1...)
				lead2[1%n] = b
				var comp []int // everybody but the receiver, compacted to the front, padded with the scripted member
				for i := 0; i < n; i++ {
					if i != r && i != b {
						comp = append(comp, i)
					}
				}
				for len(comp) < n {
					comp = append(comp, b)
				}
				var comp2 []int // everybody but the receiver (scripted member in its place in the order), padded
				for i := 0; i < n; i++ {
					if i != r {
						comp2 = append(comp2, i)
					}
				}
				for len(comp2) < n {
					comp2 = append(comp2, b)
				}
				all := make([]int, n)
				for i := range all {
					all[i] = b
				}
				rnd := make([]int, n)
				for i := range rnd {
					rnd[i] = []int{i, i, b, g.rng.Intn(n)}[g.rng.Intn(4)]
				}
				lists = append(lists, one, own, lead1, lead2, comp, comp2, all, rnd, ident)
				for _, who := range lists {
					ops = append(ops, Op{Op: "msg", S: 1, From: b, To: r, ID: id, P: p, Sigs: slotList(who, 1, b, id, p)})
				}
			}
		}
	}
	// relays of what honest members got signed for id 1 in phase 1 (the scripted member has what it was sent or asked)
	for _, m := range hs {
		for _, r := range hs {
			if r != m {
				ops = append(ops, Op{Op: "msg", S: 1, From: b, To: r, ID: 1, P: [2]int{0, 30 + m}, Sigs: fullSet(n, 1, m, 1, [2]int{0, 30 + m})})
			}
		}
	}
	// phase 3: honest broadcasts afterwards; with a cooperating scripted member that speaks the msg protocol they
	// must succeed and be delivered
	for _, m := range order {
		exp := "ok"
		if nomsg {
			exp = ""
		}
		ops = append(ops, Op{Op: "bcast", S: 1, M: m, ID: fresh(), P: [2]int{0, 50 + m}, Expect: exp})
	}
	sc.Ops = ops
	return sc
}

// raceScript: concurrent conflicting signature requests over many registered ids (a probabilistic detector for
// non-atomic check-and-store in the dedup of handleSigRequest).
func raceScript(n int, g *gen, nids int) *Script {
	fl := []int{g.rng.Intn(n)}
	var ids []int
	for i := 0; i < nids; i++ {
		ids = append(ids, 100+i)
	}
	ops := regAll(n, fl, []int{1}, ids)
	ops = append(ops, Op{Op: "race", S: 1, From: fl[0], IDs: ids, K: 3})
	return &Script{Kind: "race", N: n, Faulty: fl, Ops: ops}
}

// ---------------------------------------------------------------------------------------------

func TestGen(t *testing.T) {
	logs := &logSink{}
	log.InitJSONForT(t, logs)
	rng := hx.Rand()

	var replay Script
	if ok, err := hx.ReadReplay(&replay); ok {
		if err != nil {
			t.Fatalf("replay file: %v", err)
		}
		if replay.N < 2 || replay.N > 8 {
			t.Fatalf("replay: n out of range")
		}
		c := newCluster(t, replay.N, rng, logs)
		c.detectScheme(t)
		runScript(t, c, &replay)
		if err := hx.WriteJSON("bcast_traces.json", []*Script{&replay}); err != nil {
			t.Fatal(err)
		}
		return
	}

	sizes := []int{3, 4}
	if hx.Thorough() {
		sizes = []int{3, 4, 5, 6}
	}
	total := hx.IntEnv("VERIF_N", 100)
	var all []*Script
	for _, n := range sizes {
		c := newCluster(t, n, rng, logs)
		c.detectScheme(t)
		g := &gen{rng: rng, n: n}
		scs := corpus(n)
		scs = append(scs, raceScript(n, g, hx.IntEnv("VERIF_RACE_IDS", 150)))
		scs = append(scs, g.replayAfterAccept("replay-after-accept"), g.replayAfterAccept("replay-after-accept"))
		scs = append(scs, g.badResponder("bad-responder"), g.badResponder("bad-responder"))
		for len(scs) < total/len(sizes) {
			if len(scs)%8 == 0 {
				scs = append(scs, g.replayAfterAccept("replay-after-accept"))
				continue
			}
			if len(scs)%8 == 4 {
				scs = append(scs, g.badResponder("bad-responder"))
				continue
			}
			scs = append(scs, g.random("random"))
		}
		for _, sc := range scs {
			sc.ID = len(all)
			if sc.Fresh {
				fc := newCluster(t, n, rng, logs)
				fc.scheme = c.scheme
				runScript(t, fc, sc)
				fc.close()
			} else {
				runScript(t, c, sc)
			}
			all = append(all, sc)
		}
	}
	if err := hx.WriteJSON("bcast_traces.json", all); err != nil {
		t.Fatal(err)
	}
}
