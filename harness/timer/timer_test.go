// Correspondence harness for the round-timer part of C04: drives the real round timers of
// core/consensus/timer under a fake clock and records, for every Timer(round) call, the clock
// reading, the duration the timer asked its clock for, and the instant at which the returned
// channel became ready. The Coq model coq/Qbft/Timer.v must accept every recorded history.
package timerh

import (
	"fmt"
	"math/rand"
	"reflect"
	"sort"
	"testing"
	"time"
	"unsafe"

	"github.com/jonboulle/clockwork"

	"github.com/obolnetwork/charon/app/featureset"
	"github.com/obolnetwork/charon/core"
	"github.com/obolnetwork/charon/core/consensus/timer"

	"verif/harness/hx"
)

// Cfg describes how one timer instance is built.
type Cfg struct {
	// Via "ctor": exported New…WithClock constructors; "func": timer.GetRoundTimerFunc(genesis,
	// slotDuration)(duty) — the production path — with its clock field replaced by the fake clock.
	Via  string `json:"via"`
	Ctor string `json:"ctor"` // ctor only: inc | eager_dlinear | linear (also: inc_noduty, linear_noduty, eager_noduty)
	// Observed Type() of the timer.
	Kind  string `json:"kind"`
	DType int    `json:"dtype"`
	Slot  uint64 `json:"slot"`
	// Genesis time as an offset (ns) from the initial reading of the fake clock; nil = zero time.Time.
	Genesis *int64 `json:"genesis"`
	SlotDur int64  `json:"slotdur"`
	// Feature flags in force while the history ran.
	Linear   bool `json:"linear"`
	Eager    bool `json:"eager"`
	Proposal bool `json:"proposal"`
}

// Op is one scripted operation.
//
//	req   : Timer(Round); Stop = stop (and stop watching) all outstanding timers first, as qbft.Run does
//	adv   : advance the clock by Dt ns
//	waitd : advance the clock to (expiry of the most recently returned timer) + Dt ns, if that is in the future
type Op struct {
	Op    string `json:"op"`
	Round int64  `json:"round,omitempty"`
	Dt    int64  `json:"dt,omitempty"`
	Stop  bool   `json:"stop,omitempty"`
}

// Req is the observation of one Timer(round) call (all instants are ns offsets from the clock's start).
type Req struct {
	Round int64  `json:"round"`
	Now   int64  `json:"now"`
	Dur   int64  `json:"dur"`   // argument of clock.NewTimer
	Fire  *int64 `json:"fire"`  // instant at which the channel was seen ready; nil: not while watched
	Until int64  `json:"until"` // the channel was polled at every candidate instant up to and including Until
}

// History is a configuration, a script and what was observed.
type History struct {
	ID         int    `json:"id"`
	Template   string `json:"template"`
	Cfg        Cfg    `json:"cfg"`
	Script     []Op   `json:"script"`
	Reqs       []Req  `json:"reqs"`
	NonTrivial bool   `json:"nontrivial"` // a round requested more than once, or a request at/after its deadline (dur <= 0)
	Note       string `json:"note,omitempty"`
}

// Sel is one observation of GetRoundTimerFunc's choice.
type Sel struct {
	Linear   bool   `json:"linear"`
	Eager    bool   `json:"eager"`
	Proposal bool   `json:"proposal"`
	DType    int    `json:"dtype"`
	Kind     string `json:"kind"`
	EagerFn  bool   `json:"eager_fn"` // Type().Eager()
}

var base = time.Date(2024, time.January, 1, 0, 0, 0, 0, time.UTC)

// recClock is the fake clock handed to the timers; it records every NewTimer argument.
type recClock struct {
	*clockwork.FakeClock
	durs []time.Duration
}

func (c *recClock) NewTimer(d time.Duration) clockwork.Timer {
	c.durs = append(c.durs, d)
	return c.FakeClock.NewTimer(d)
}

func setFlag(t *testing.T, f featureset.Feature, on bool) {
	t.Helper()
	if on {
		featureset.EnableForT(t, f)
	} else {
		featureset.DisableForT(t, f)
	}
}

// build constructs the timer of cfg on clock. ok=false: the production-path timer could not be
// re-clocked (unexported field layout changed) — the history is skipped, not failed.
func build(cfg Cfg, clock clockwork.Clock) (timer.RoundTimer, bool) {
	duty := core.Duty{Slot: cfg.Slot, Type: core.DutyType(cfg.DType)}
	var genesis time.Time
	if cfg.Genesis != nil {
		genesis = base.Add(time.Duration(*cfg.Genesis))
	}
	slotDur := time.Duration(cfg.SlotDur)
	if cfg.Via == "func" {
		rt := timer.GetRoundTimerFunc(genesis, slotDur)(duty)
		v := reflect.ValueOf(rt)
		if v.Kind() != reflect.Pointer || v.Elem().Kind() != reflect.Struct {
			return nil, false
		}
		f := v.Elem().FieldByName("clock")
		if !f.IsValid() || !f.CanAddr() || !reflect.TypeOf(clock).AssignableTo(f.Type()) {
			return nil, false
		}
		reflect.NewAt(f.Type(), unsafe.Pointer(f.UnsafeAddr())).Elem().Set(reflect.ValueOf(clock))
		return rt, true
	}
	switch cfg.Ctor {
	case "inc":
		return timer.NewIncreasingRoundTimerWithDutyAndClock(duty, clock), true
	case "inc_noduty":
		return timer.NewIncreasingRoundTimerWithClock(clock), true
	case "linear":
		return timer.NewLinearRoundTimerWithDutyAndClock(duty, clock), true
	case "linear_noduty":
		return timer.NewLinearRoundTimerWithClock(clock), true
	case "eager_noduty":
		return timer.NewDoubleEagerLinearRoundTimerWithClock(clock), true
	case "eager_dlinear":
		if cfg.Genesis == nil && cfg.SlotDur == 0 {
			return timer.NewDoubleEagerLinearRoundTimerWithDutyAndClock(duty, clock), true
		}
		return timer.NewDoubleEagerLinearRoundTimerWithDutyTimingAndClock(duty, genesis, slotDur, clock), true
	}
	panic("unknown ctor " + cfg.Ctor)
}

type live struct {
	idx  int
	ch   <-chan time.Time
	stop func()
	exp  time.Time // instant at which the fake clock will fire it, from the recorded NewTimer argument
	done bool
}

// runHistory executes h.Script on a fresh timer and fills h.Reqs. Flags must already be set.
func runHistory(t *testing.T, h *History) {
	t.Helper()
	clock := &recClock{FakeClock: clockwork.NewFakeClockAt(base)}
	rt, ok := build(h.Cfg, clock)
	if !ok {
		h.Note = "skipped: cannot re-clock the timer returned by GetRoundTimerFunc"
		return
	}
	h.Cfg.Kind = string(rt.Type())
	off := func() int64 { return int64(clock.Now().Sub(base)) }
	var lives []*live
	var last *live
	poll := func() {
		for _, l := range lives {
			if l.done {
				continue
			}
			select {
			case <-l.ch:
				v := off()
				h.Reqs[l.idx].Fire = &v
				l.done = true
			default:
			}
		}
	}
	unwatch := func() {
		poll()
		for _, l := range lives {
			if !l.done {
				l.stop()
				l.done = true
			}
			if h.Reqs[l.idx].Until < 0 {
				h.Reqs[l.idx].Until = off()
			}
		}
		lives = lives[:0]
	}
	advanceTo := func(target time.Time) {
		for {
			now := clock.Now()
			var next time.Time
			found := false
			for _, l := range lives {
				if !l.done && l.exp.After(now) && !l.exp.After(target) && (!found || l.exp.Before(next)) {
					next, found = l.exp, true
				}
			}
			if !found {
				break
			}
			if before := next.Add(-time.Nanosecond); before.After(now) {
				clock.Advance(before.Sub(now))
				poll()
			}
			clock.Advance(next.Sub(clock.Now()))
			poll()
			// a timer that did not fire at its predicted instant must not stall the loop
			for _, l := range lives {
				if !l.done && !l.exp.After(clock.Now()) {
					l.exp = time.Time{}
				}
			}
		}
		if target.After(clock.Now()) {
			clock.Advance(target.Sub(clock.Now()))
		}
		poll()
	}
	for _, op := range h.Script {
		switch op.Op {
		case "req":
			if op.Stop {
				unwatch()
			}
			n0 := len(clock.durs)
			now := clock.Now()
			ch, stop := rt.Timer(op.Round)
			if len(clock.durs) != n0+1 {
				t.Fatalf("history %d: Timer(%d) created %d clock timers, want 1", h.ID, op.Round, len(clock.durs)-n0)
			}
			d := clock.durs[n0]
			exp := now
			if d > 0 {
				exp = now.Add(d)
			}
			l := &live{idx: len(h.Reqs), ch: ch, stop: stop, exp: exp}
			h.Reqs = append(h.Reqs, Req{Round: op.Round, Now: off(), Dur: int64(d), Until: -1})
			lives = append(lives, l)
			last = l
			poll()
		case "adv":
			advanceTo(clock.Now().Add(time.Duration(op.Dt)))
		case "waitd":
			// not across timers that are more than an hour away (rounds like 2^31: decades), so that
			// the clock stays far from the int64 nanosecond range
			if last != nil && h.Reqs[last.idx].Dur <= int64(time.Hour) {
				target := base.Add(time.Duration(h.Reqs[last.idx].Now))
				if d := h.Reqs[last.idx].Dur; d > 0 {
					target = target.Add(time.Duration(d))
				}
				target = target.Add(time.Duration(op.Dt))
				if target.After(clock.Now()) {
					advanceTo(target)
				}
			}
		default:
			t.Fatalf("unknown op %q", op.Op)
		}
	}
	unwatch()
	seen := map[int64]bool{}
	for _, r := range h.Reqs {
		if seen[r.Round] || r.Dur <= 0 {
			h.NonTrivial = true
		}
		seen[r.Round] = true
	}
}

// ---------------------------------------------------------------------------------------------
// generation

const (
	ms  = int64(time.Millisecond)
	sec = int64(time.Second)
)

var (
	allDTypes   = []int{0, 1, 2, 3, 4, 5, 6, 7, 8, 9, 10, 11, 12, 13}
	keyDTypes   = []int{1, 2, 9, 12, 7, 0} // proposer, attester, aggregator, sync contribution, randao, unknown
	bigRounds   = []int64{100, 1000, 65536, 1 << 31}
	slotDurs    = []int64{12 * sec, 5 * sec, 10 * sec, sec + 1, 2}
	startJitter = []int64{0, -1200 * ms, 700 * ms, -30 * sec, 10 * sec, 1, -1}
)

func p64(v int64) *int64 { return &v }

// genesisFor returns a genesis offset such that the duty's slot starts at `jitter` ns after the
// clock's initial reading (so requests land before, around and after the deadlines).
func genesisFor(slot uint64, slotDur, jitter int64) *int64 {
	return p64(jitter - int64(slot)*slotDur)
}

func eagerCfg(r *rand.Rand, dtype int, proposal bool, mode int) Cfg {
	c := Cfg{Via: "ctor", Ctor: "eager_dlinear", DType: dtype, Proposal: proposal, Eager: true}
	switch mode {
	case 0: // no timing: deadlines relative to the first request
	case 1: // genesis and slot duration: absolute deadlines (as in production)
		c.Slot = uint64(r.Intn(2000))
		c.SlotDur = slotDurs[r.Intn(len(slotDurs))]
		c.Genesis = genesisFor(c.Slot, c.SlotDur, startJitter[r.Intn(len(startJitter))])
	case 2: // zero genesis with a slot duration: falls back to relative
		c.Slot = uint64(r.Intn(50))
		c.SlotDur = 12 * sec
	case 3: // genesis with a non-positive slot duration: falls back to relative
		c.Slot = uint64(r.Intn(50))
		c.SlotDur = []int64{0, -12 * sec}[r.Intn(2)]
		c.Genesis = p64(-5 * sec)
	}
	return c
}

func randCfg(r *rand.Rand) Cfg {
	dtype := allDTypes[r.Intn(len(allDTypes))]
	if r.Intn(2) == 0 {
		dtype = keyDTypes[r.Intn(len(keyDTypes))]
	}
	proposal := r.Intn(2) == 0
	switch x := r.Intn(10); {
	case x < 5:
		mode := 1
		if y := r.Intn(10); y >= 7 {
			mode = []int{0, 2, 3}[y-7]
		}
		return eagerCfg(r, dtype, proposal, mode)
	case x < 6:
		return Cfg{Via: "ctor", Ctor: "inc", DType: dtype, Slot: uint64(r.Intn(100)), Proposal: proposal, Eager: true}
	case x < 7:
		return Cfg{Via: "ctor", Ctor: "linear", DType: dtype, Slot: uint64(r.Intn(100)), Proposal: proposal, Eager: true}
	default: // production path, any flag combination
		c := Cfg{Via: "func", DType: dtype, Proposal: proposal, Linear: r.Intn(3) == 0, Eager: r.Intn(4) != 0}
		c.Slot = uint64(r.Intn(2000))
		c.SlotDur = slotDurs[r.Intn(3)]
		c.Genesis = genesisFor(c.Slot, c.SlotDur, startJitter[r.Intn(len(startJitter))])
		return c
	}
}

func pickDt(r *rand.Rand) int64 {
	switch r.Intn(8) {
	case 0:
		return 0
	case 1:
		return 1
	case 2:
		return ms
	case 3:
		return 333 * ms
	case 4:
		return sec
	case 5:
		return 2500 * ms
	case 6:
		return r.Int63n(4 * sec)
	default:
		return r.Int63n(400 * ms)
	}
}

// sweep: rounds 1..64 and a few large ones, each requested, then requested again (and some a third
// time); spread = false keeps the clock early (all durations positive), true lets it run past deadlines.
func sweepScript(r *rand.Rand, spread bool) []Op {
	var s []Op
	rounds := make([]int64, 0, 70)
	for i := int64(1); i <= 64; i++ {
		rounds = append(rounds, i)
	}
	rounds = append(rounds, bigRounds...)
	for pass := 0; pass < 2; pass++ {
		for _, rd := range rounds {
			s = append(s, Op{Op: "req", Round: rd, Stop: r.Intn(2) == 0})
			if spread && r.Intn(3) == 0 {
				s = append(s, Op{Op: "adv", Dt: pickDt(r)})
			}
		}
		if spread {
			s = append(s, Op{Op: "adv", Dt: r.Int63n(20 * sec)})
		} else {
			s = append(s, Op{Op: "adv", Dt: r.Int63n(900 * ms)})
		}
	}
	for i := 0; i < 6; i++ { // third requests
		s = append(s, Op{Op: "req", Round: rounds[r.Intn(len(rounds))], Stop: true}, Op{Op: "adv", Dt: pickDt(r)})
	}
	return s
}

// walk: a process driven by its timer as in qbft.Run — Timer(r); sometimes a second Timer(r) before it
// fires (justified PRE-PREPARE); wait for the firing; r+1. Sometimes a jump to a higher round.
func walkScript(r *rand.Rand) []Op {
	var s []Op
	if r.Intn(2) == 0 {
		s = append(s, Op{Op: "adv", Dt: r.Int63n(3 * sec)})
	}
	round := int64(1)
	n := 6 + r.Intn(20)
	pDouble := []int{0, 2, 5, 9}[r.Intn(4)]
	for i := 0; i < n; i++ {
		s = append(s, Op{Op: "req", Round: round, Stop: true})
		if r.Intn(10) < pDouble {
			s = append(s, Op{Op: "adv", Dt: r.Int63n(1200 * ms)})
			s = append(s, Op{Op: "req", Round: round, Stop: true})
		}
		switch r.Intn(12) {
		case 0: // f+1 round changes / a justified pre-prepare of a higher round: jump without waiting
			s = append(s, Op{Op: "adv", Dt: r.Int63n(800 * ms)})
			round += 1 + int64(r.Intn(3))
		default:
			s = append(s, Op{Op: "waitd", Dt: 0})
			round++
		}
	}
	return s
}

func randomScript(r *rand.Rand) []Op {
	var s []Op
	pool := make([]int64, 1+r.Intn(6))
	for i := range pool {
		pool[i] = 1 + int64(r.Intn(64))
		if r.Intn(12) == 0 {
			pool[i] = bigRounds[r.Intn(len(bigRounds))]
		}
	}
	n := 4 + r.Intn(30)
	for i := 0; i < n; i++ {
		switch x := r.Intn(10); {
		case x < 6:
			s = append(s, Op{Op: "req", Round: pool[r.Intn(len(pool))], Stop: r.Intn(3) != 0})
		case x < 9:
			s = append(s, Op{Op: "adv", Dt: pickDt(r)})
		default:
			s = append(s, Op{Op: "waitd", Dt: []int64{-1, 0, 1, -ms, ms}[r.Intn(5)]})
		}
	}
	s = append(s, Op{Op: "adv", Dt: 5 * sec})
	return s
}

// edge: requests exactly at, one nanosecond before and after a deadline; rounds 0 and -1.
func edgeScript(r *rand.Rand) []Op {
	rd := 1 + int64(r.Intn(8))
	var s []Op
	for _, d := range []int64{-1, 0, 1} {
		s = append(s, Op{Op: "req", Round: rd, Stop: r.Intn(2) == 0}, Op{Op: "waitd", Dt: d})
		rd2 := rd
		if r.Intn(3) == 0 {
			rd2 = rd + 1
		}
		s = append(s, Op{Op: "req", Round: rd2, Stop: r.Intn(2) == 0}, Op{Op: "waitd", Dt: d})
		s = append(s, Op{Op: "req", Round: rd2, Stop: r.Intn(2) == 0})
		rd = rd2 + int64(r.Intn(2))
	}
	if r.Intn(3) == 0 {
		s = append(s, Op{Op: "req", Round: 0, Stop: true}, Op{Op: "req", Round: -1, Stop: true}, Op{Op: "req", Round: 0, Stop: true})
	}
	s = append(s, Op{Op: "adv", Dt: 3 * sec})
	return s
}

func corpus() []History {
	var hs []History
	// TestDoubleEagerLinearRoundTimer
	hs = append(hs, History{Template: "corpus", Cfg: Cfg{Via: "ctor", Ctor: "eager_noduty", Eager: true, Proposal: true}, Script: []Op{
		{Op: "req", Round: 1}, {Op: "adv", Dt: 1000 * ms}, {Op: "req", Round: 1, Stop: true}, {Op: "adv", Dt: 1000 * ms},
		{Op: "req", Round: 2, Stop: true}, {Op: "adv", Dt: 1500 * ms}, {Op: "req", Round: 2, Stop: true}, {Op: "adv", Dt: 2500 * ms},
	}})
	// TestProposalTimeoutOptimizationDoubleEagerLinearGenesis
	hs = append(hs, History{Template: "corpus", Cfg: Cfg{Via: "ctor", Ctor: "eager_dlinear", DType: 1, Slot: 1, Genesis: p64(0), SlotDur: 12 * sec, Eager: true, Proposal: true}, Script: []Op{
		{Op: "adv", Dt: 12 * sec}, {Op: "req", Round: 1}, {Op: "waitd"}, {Op: "req", Round: 2, Stop: true}, {Op: "waitd"}, {Op: "req", Round: 3, Stop: true}, {Op: "waitd"},
	}})
	// re-alignment after a doubled round 3 (attester, slot 7, 12 s slots): rounds 4,5,6 expired, round 7 live
	hs = append(hs, History{Template: "corpus", Cfg: Cfg{Via: "func", DType: 2, Slot: 7, Genesis: p64(-90 * sec), SlotDur: 12 * sec, Eager: true, Proposal: true}, Script: []Op{
		{Op: "adv", Dt: 200 * ms}, {Op: "req", Round: 3}, {Op: "adv", Dt: 200 * ms}, {Op: "req", Round: 3, Stop: true}, {Op: "adv", Dt: 100 * ms}, {Op: "req", Round: 3, Stop: true}, {Op: "waitd"},
		{Op: "req", Round: 4, Stop: true}, {Op: "req", Round: 5, Stop: true}, {Op: "req", Round: 6, Stop: true}, {Op: "req", Round: 7, Stop: true}, {Op: "adv", Dt: 2 * sec},
	}})
	// proposer duty, production path, proposal timeout in every round
	hs = append(hs, History{Template: "corpus", Cfg: Cfg{Via: "func", DType: 1, Slot: 3, Genesis: p64(-36 * sec), SlotDur: 12 * sec, Eager: true, Proposal: true}, Script: []Op{
		{Op: "req", Round: 1}, {Op: "adv", Dt: 400 * ms}, {Op: "req", Round: 1, Stop: true}, {Op: "waitd"}, {Op: "req", Round: 2, Stop: true}, {Op: "req", Round: 3, Stop: true}, {Op: "waitd", Dt: 1},
	}})
	// inc and linear with the proposal variant
	for _, ctor := range []string{"inc", "linear"} {
		hs = append(hs, History{Template: "corpus", Cfg: Cfg{Via: "ctor", Ctor: ctor, DType: 1, Eager: true, Proposal: true}, Script: []Op{
			{Op: "req", Round: 1}, {Op: "waitd", Dt: -1}, {Op: "req", Round: 1}, {Op: "waitd"}, {Op: "req", Round: 2, Stop: true}, {Op: "waitd"}, {Op: "req", Round: 3, Stop: true}, {Op: "waitd"},
		}})
	}
	return hs
}

func generate(r *rand.Rand) []History {
	hs := corpus()
	add := func(tpl string, c Cfg, s []Op) { hs = append(hs, History{Template: tpl, Cfg: c, Script: s}) }
	thorough := hx.Thorough()
	// systematic sweeps: every kind x every duty type x proposal flag, rounds 1..64 + large ones
	for _, dt := range allDTypes {
		for _, prop := range []bool{false, true} {
			for _, ctor := range []string{"inc", "linear"} {
				add("sweep", Cfg{Via: "ctor", Ctor: ctor, DType: dt, Slot: uint64(r.Intn(100)), Proposal: prop, Eager: true}, sweepScript(r, dt%2 == 0))
			}
			for _, mode := range []int{0, 1} {
				for _, spread := range []bool{false, true} {
					if !thorough && mode == 0 && !spread {
						continue
					}
					add("sweep", eagerCfg(r, dt, prop, mode), sweepScript(r, spread))
				}
			}
		}
	}
	for _, c := range []string{"inc_noduty", "linear_noduty", "eager_noduty"} {
		for _, prop := range []bool{false, true} {
			add("sweep", Cfg{Via: "ctor", Ctor: c, Proposal: prop, Eager: true}, sweepScript(r, true))
		}
	}
	// production path: every flag combination x key duty types
	for fl := 0; fl < 8; fl++ {
		for _, dt := range keyDTypes {
			c := Cfg{Via: "func", DType: dt, Linear: fl&1 != 0, Eager: fl&2 != 0, Proposal: fl&4 != 0}
			c.Slot = uint64(r.Intn(2000))
			c.SlotDur = slotDurs[r.Intn(3)]
			c.Genesis = genesisFor(c.Slot, c.SlotDur, startJitter[r.Intn(len(startJitter))])
			if thorough {
				add("sweep", c, sweepScript(r, true))
			}
			add("walk", c, walkScript(r))
		}
	}
	n := hx.IntEnv("VERIF_N", 600)
	for i := 0; i < n; i++ {
		c := randCfg(r)
		switch x := r.Intn(10); {
		case x < 5:
			add("walk", c, walkScript(r))
		case x < 8:
			add("random", c, randomScript(r))
		default:
			add("edge", c, edgeScript(r))
		}
	}
	for i := range hs {
		hs[i].ID = i
	}
	return hs
}

func flagKey(c Cfg) string {
	return fmt.Sprintf("linear=%v,eager=%v,proposal=%v", c.Linear, c.Eager, c.Proposal)
}

func runAll(t *testing.T, hs []History) {
	groups := map[string][]int{}
	for i := range hs {
		k := flagKey(hs[i].Cfg)
		groups[k] = append(groups[k], i)
	}
	keys := make([]string, 0, len(groups))
	for k := range groups {
		keys = append(keys, k)
	}
	sort.Strings(keys)
	for _, k := range keys {
		idx := groups[k]
		t.Run(k, func(t *testing.T) {
			c := hs[idx[0]].Cfg
			setFlag(t, featureset.Linear, c.Linear)
			setFlag(t, featureset.EagerDoubleLinear, c.Eager)
			setFlag(t, featureset.ProposalTimeout, c.Proposal)
			for _, i := range idx {
				runHistory(t, &hs[i])
			}
		})
	}
}

func selection(t *testing.T) []Sel {
	var out []Sel
	for fl := 0; fl < 8; fl++ {
		s := Sel{Linear: fl&1 != 0, Eager: fl&2 != 0, Proposal: fl&4 != 0}
		t.Run(fmt.Sprintf("select-%d", fl), func(t *testing.T) {
			setFlag(t, featureset.Linear, s.Linear)
			setFlag(t, featureset.EagerDoubleLinear, s.Eager)
			setFlag(t, featureset.ProposalTimeout, s.Proposal)
			f := timer.GetRoundTimerFunc(base, 12*time.Second)
			for _, dt := range allDTypes {
				ty := f(core.Duty{Slot: 5, Type: core.DutyType(dt)}).Type()
				o := s
				o.DType, o.Kind, o.EagerFn = dt, string(ty), ty.Eager()
				out = append(out, o)
			}
		})
	}
	return out
}

type output struct {
	Histories []History `json:"histories"`
	Selection []Sel     `json:"selection"`
	// DefaultKind is the Type() GetRoundTimerFunc returns for an attester duty with the feature set
	// as the process starts it (no test override).
	DefaultKind         string `json:"default_kind"`
	DefaultProposalFlag bool   `json:"default_proposal_flag"`
}

func TestGen(t *testing.T) {
	var out output
	out.DefaultKind = string(timer.GetRoundTimerFunc(base, 12*time.Second)(core.NewAttesterDuty(1)).Type())
	out.DefaultProposalFlag = featureset.Enabled(featureset.ProposalTimeout)

	var replay struct {
		Cfg    Cfg  `json:"cfg"`
		Script []Op `json:"script"`
	}
	if ok, err := hx.ReadReplay(&replay); ok {
		if err != nil {
			t.Fatal(err)
		}
		hs := []History{{ID: 0, Template: "replay", Cfg: replay.Cfg, Script: replay.Script}}
		runAll(t, hs)
		out.Histories = hs
		if err := hx.WriteJSON("timer_traces.json", out); err != nil {
			t.Fatal(err)
		}
		return
	}

	hs := generate(hx.Rand())
	runAll(t, hs)
	out.Histories = hs
	out.Selection = selection(t)
	if err := hx.WriteJSON("timer_traces.json", out); err != nil {
		t.Fatal(err)
	}
}
