package alias

import (
	"context"
	"fmt"
	"testing"
	"testing/synctest"
	"time"

	eth2p0 "github.com/attestantio/go-eth2-client/spec/phase0"

	"github.com/obolnetwork/charon/core"
	"github.com/obolnetwork/charon/core/aggsigdb"
	"github.com/obolnetwork/charon/core/dutydb"
	"github.com/obolnetwork/charon/core/parsigdb"
	"github.com/obolnetwork/charon/core/sigagg"
	"github.com/obolnetwork/charon/tbls"
	"github.com/obolnetwork/charon/tbls/tblsconv"
	"github.com/obolnetwork/charon/testutil"
)

const slot0 = 320

// bubble runs f inside a synctest bubble (deterministic quiescence, virtual time) and contains panics.
func bubble(t *testing.T, what string, f func(t *testing.T)) {
	t.Helper()
	synctest.Test(t, func(t *testing.T) {
		defer func() {
			if r := recover(); r != nil {
				skip("%s: harness panic: %v", what, r)
			}
		}()
		f(t)
	})
}

// ---------------------------------------------------------------------------------------------
// dutydb

type dutydbQuery struct {
	name string
	f    func(ctx context.Context, db *dutydb.MemDB) (any, error)
}

// bounded gives a query one (virtual) minute: a query that would block forever returns an error.
func bounded[T any](ctx context.Context, f func(ctx context.Context) (T, error)) (T, error) {
	ctx, cancel := context.WithTimeout(ctx, time.Minute)
	defer cancel()

	return f(ctx)
}

// dutydbQueries returns the Await* queries that answer for the stored value.
func dutydbQueries(t *testing.T, k UKind, u core.UnsignedData) []dutydbQuery {
	t.Helper()
	qs := dutydbQueriesRaw(t, k, u)
	for i := range qs {
		f := qs[i].f
		qs[i].f = func(ctx context.Context, db *dutydb.MemDB) (any, error) {
			return bounded(ctx, func(ctx context.Context) (any, error) { return f(ctx, db) })
		}
	}

	return qs
}

func dutydbQueriesRaw(t *testing.T, _ UKind, u core.UnsignedData) []dutydbQuery {
	t.Helper()
	switch v := u.(type) {
	case core.AttestationData:
		mk := func(ci uint64) func(ctx context.Context, db *dutydb.MemDB) (any, error) {
			return func(ctx context.Context, db *dutydb.MemDB) (any, error) {
				return db.AwaitAttestation(ctx, uint64(v.Data.Slot), ci)
			}
		}

		return []dutydbQuery{{"AwaitAttestation", mk(uint64(v.Duty.CommitteeIndex))}, {"AwaitAttestation(commIdx=0)", mk(0)}}
	case core.VersionedProposal:
		slot := must(v.Slot())

		return []dutydbQuery{{"AwaitProposal", func(ctx context.Context, db *dutydb.MemDB) (any, error) {
			return db.AwaitProposal(ctx, uint64(slot))
		}}}
	case core.VersionedAggregatedAttestation:
		data := must(v.Data())
		root := must(data.HashTreeRoot())
		ci := must(v.CommitteeIndex())
		slot := uint64(data.Slot)

		return []dutydbQuery{{"AwaitAggAttestation", func(ctx context.Context, db *dutydb.MemDB) (any, error) {
			return db.AwaitAggAttestation(ctx, slot, root, ci)
		}}}
	case core.SyncContribution:
		return []dutydbQuery{{"AwaitSyncContribution", func(ctx context.Context, db *dutydb.MemDB) (any, error) {
			return db.AwaitSyncContribution(ctx, uint64(v.Slot), v.SubcommitteeIndex, v.BeaconBlockRoot)
		}}}
	case core.SyncContributions:
		var qs []dutydbQuery
		for _, c := range v {
			qs = append(qs, dutydbQuery{"AwaitSyncContribution", func(ctx context.Context, db *dutydb.MemDB) (any, error) {
				return db.AwaitSyncContribution(ctx, uint64(c.Slot), c.SubcommitteeIndex, c.BeaconBlockRoot)
			}})
		}

		return qs[:1]
	}
	t.Fatalf("no dutydb query for %T", u)

	return nil
}

func probeDutyDB(t *testing.T, k UKind) {
	t.Helper()
	duty := core.Duty{Slot: slot0, Type: k.Duty}
	var pristine core.UnsignedDataSet // a private deep copy of the stored set, made before Store
	dupStore := func(ctx context.Context, db *dutydb.MemDB) Reread {
		p := pristine
		return Reread{"Store(identical duplicate)", func() (any, error) {
			return errStr(db.Store(ctx, duty, must(p.Clone()))), nil
		}}
	}
	setup := func(t *testing.T) (context.Context, *dutydb.MemDB, core.UnsignedDataSet, []dutydbQuery, bool) {
		ctx := t.Context()
		u, err := k.New(t, slot0)
		if err != nil {
			skip("dutydb %s: constructor refuses the value: %v", k.Name, err)
			return nil, nil, nil, nil, false
		}
		db := dutydb.NewMemDB(newNopDeadliner())
		set := core.UnsignedDataSet{testutil.RandomCorePubKey(t): u}
		pristine = must(set.Clone())
		if err := db.Store(ctx, duty, set); err != nil {
			skip("dutydb %s: Store refuses the value: %v", k.Name, err)
			return nil, nil, nil, nil, false
		}

		return ctx, db, set, dutydbQueries(t, k, u), true
	}
	// input of Store vs every query answer
	bubble(t, "dutydb "+k.Name, func(t *testing.T) {
		ctx, db, set, qs, ok := setup(t)
		if !ok {
			return
		}
		for _, q := range qs[:1] {
			r1, err := q.f(ctx, db)
			if err != nil {
				skip("dutydb %s: %s fails: %v", k.Name, q.name, err)
				return
			}
			observe("dutydb.Store>"+q.name, k.Name, "direct", Named{"Store input set", set},
				[]Named{{q.name + " result", r1}}, []Reread{{q.name, func() (any, error) { return q.f(ctx, db) }}, dupStore(ctx, db)})
		}
	})
	// two answers of the same query; an answer and a later query; queries blocked before the store
	bubble(t, "dutydb "+k.Name, func(t *testing.T) {
		ctx, db, set, qs, ok := setup(t)
		if !ok {
			return
		}
		q := qs[0]
		r1, err1 := q.f(ctx, db)
		r2, err2 := q.f(ctx, db)
		if err1 != nil || err2 != nil {
			return
		}
		held := []Named{{q.name + " second result", r2}, {"Store input set", set}}
		observe("dutydb."+q.name+"|"+q.name, k.Name, "sibling", Named{q.name + " first result", r1}, held,
			[]Reread{{q.name, func() (any, error) { return q.f(ctx, db) }}, dupStore(ctx, db)})
	})
	bubble(t, "dutydb "+k.Name, func(t *testing.T) {
		// both readers block first, then the value is stored (the resolve-on-store path)
		ctx := t.Context()
		u, err := k.New(t, slot0)
		if err != nil {
			return
		}
		db := dutydb.NewMemDB(newNopDeadliner())
		qs := dutydbQueries(t, k, u)
		q := qs[0]
		type res struct {
			v   any
			err error
		}
		ch := make([]chan res, 2)
		for i := range ch {
			ch[i] = make(chan res, 1)
			go func() {
				v, err := q.f(ctx, db)
				ch[i] <- res{v, err}
			}()
		}
		synctest.Wait()
		set := core.UnsignedDataSet{testutil.RandomCorePubKey(t): u}
		pristine = must(set.Clone())
		if err := db.Store(ctx, duty, set); err != nil {
			db.Shutdown()
			synctest.Wait()

			return
		}
		synctest.Wait()
		a, b := <-ch[0], <-ch[1]
		if a.err != nil || b.err != nil {
			return
		}
		observe("dutydb."+q.name+"(blocked)|"+q.name+"(blocked)", k.Name, "sibling", Named{q.name + " reader 1 result", a.v},
			[]Named{{q.name + " reader 2 result", b.v}, {"Store input set", set}},
			[]Reread{{q.name, func() (any, error) { return q.f(ctx, db) }}, dupStore(ctx, db)})
		// the reader that was resolved last (second registered query)
		observe("dutydb."+q.name+"(blocked, second reader)|"+q.name+"(blocked)", k.Name, "sibling", Named{q.name + " reader 2 result", b.v},
			[]Named{{"Store input set", set}},
			[]Reread{{q.name, func() (any, error) { return q.f(ctx, db) }}, dupStore(ctx, db)})
	})
	if len(mustQueries(t, k)) > 1 {
		bubble(t, "dutydb "+k.Name, func(t *testing.T) {
			ctx, db, _, qs, ok := setup(t)
			if !ok {
				return
			}
			r1, err1 := qs[0].f(ctx, db)
			r2, err2 := qs[1].f(ctx, db)
			if err1 != nil || err2 != nil {
				return
			}
			observe("dutydb."+qs[0].name+"|"+qs[1].name, k.Name, "sibling", Named{qs[0].name + " result", r1},
				[]Named{{qs[1].name + " result", r2}},
				[]Reread{{qs[1].name, func() (any, error) { return qs[1].f(ctx, db) }}, dupStore(ctx, db)})
		})
	}
	if k.Duty == core.DutyAttester {
		bubble(t, "dutydb "+k.Name, func(t *testing.T) {
			ctx, db, set, _, ok := setup(t)
			if !ok {
				return
			}
			var att core.AttestationData
			for _, u := range set {
				att = u.(core.AttestationData)
			}
			q := func() (any, error) {
				return db.PubKeyByAttestation(ctx, uint64(att.Data.Slot), uint64(att.Duty.CommitteeIndex), uint64(att.Duty.ValidatorIndex))
			}
			p1, err := q()
			if err != nil {
				skip("dutydb PubKeyByAttestation: %v", err)
				return
			}
			p2, _ := q()
			observe("dutydb.Store>PubKeyByAttestation", k.Name, "direct", Named{"Store input set", set}, []Named{{"PubKeyByAttestation result", &p1}},
				[]Reread{{"PubKeyByAttestation", q}})
			observe("dutydb.PubKeyByAttestation|PubKeyByAttestation", k.Name, "sibling", Named{"PubKeyByAttestation first result", &p1},
				[]Named{{"PubKeyByAttestation second result", &p2}}, []Reread{{"PubKeyByAttestation", q}})
		})
	}
}

func mustQueries(t *testing.T, k UKind) []dutydbQuery {
	t.Helper()
	u, err := k.New(t, slot0)
	if err != nil {
		return nil
	}
	defer func() { _ = recover() }()

	return dutydbQueries(t, k, u)
}

// ---------------------------------------------------------------------------------------------
// threshold partial signatures

type shares struct {
	pubkey core.PubKey
	sigs   map[int]tbls.Signature
}

const (
	nShares   = 4
	threshold = 3
)

// newShares creates a real t-of-n BLS key split and one partial signature per share over msg.
func newShares(t *testing.T) shares {
	t.Helper()
	secret := must(tbls.GenerateSecretKey())
	pub := must(tbls.SecretToPublicKey(secret))
	split := must(tbls.ThresholdSplit(secret, nShares, threshold))
	msg := []byte("c18 alias probe")
	out := shares{pubkey: must(core.PubKeyFromBytes(pub[:])), sigs: map[int]tbls.Signature{}}
	for idx, sk := range split {
		out.sigs[idx] = must(tbls.Sign(sk, msg))
	}

	return out
}

// partials builds the partial signed data of share indices 1..n for one signed-data value: the
// same message with the share's signature.
func partials(t *testing.T, k SKind, sh shares, n int) ([]core.ParSignedData, error) {
	t.Helper()
	base, err := k.New(t, slot0)
	if err != nil {
		return nil, err
	}
	var out []core.ParSignedData
	for idx := 1; idx <= n; idx++ {
		cp, err := base.Clone()
		if err != nil {
			return nil, err
		}
		sd, err := cp.SetSignature(tblsconv.SigToCore(sh.sigs[idx]))
		if err != nil {
			return nil, err
		}
		out = append(out, core.ParSignedData{SignedData: sd, ShareIdx: idx})
	}

	return out, nil
}

// ---------------------------------------------------------------------------------------------
// parsigdb

func probeParSigDB(t *testing.T, k SKind, sh shares) {
	t.Helper()
	duty := core.Duty{Slot: slot0, Type: k.Duty}
	type rig struct {
		db        *parsigdb.MemDB
		internal  [2][]core.ParSignedDataSet
		thresh    [2][]map[core.PubKey][]core.ParSignedData
		inputs    []core.ParSignedDataSet
		threshErr error
	}
	setup := func(t *testing.T) (*rig, bool) {
		ps, err := partials(t, k, sh, threshold)
		if err != nil {
			skip("parsigdb %s: cannot build partials: %v", k.Name, err)
			return nil, false
		}
		r := &rig{db: parsigdb.NewMemDB(threshold, newNopDeadliner(), parsigdb.NewMemDBMetadata(12, time.Now()))}
		for i := 0; i < 2; i++ {
			r.db.SubscribeInternal(func(_ context.Context, _ core.Duty, set core.ParSignedDataSet) error {
				r.internal[i] = append(r.internal[i], set)
				return nil
			})
			r.db.SubscribeThreshold(func(_ context.Context, _ core.Duty, set map[core.PubKey][]core.ParSignedData) error {
				r.thresh[i] = append(r.thresh[i], set)
				return nil
			})
		}
		for _, p := range ps {
			r.inputs = append(r.inputs, core.ParSignedDataSet{sh.pubkey: p})
		}

		return r, true
	}
	storeAll := func(t *testing.T, r *rig, from int) bool {
		ctx := t.Context()
		for i := from; i < len(r.inputs); i++ {
			var err error
			if i == 0 {
				err = r.db.StoreInternal(ctx, duty, r.inputs[i])
			} else {
				err = r.db.StoreExternal(ctx, duty, r.inputs[i])
			}
			if err != nil {
				skip("parsigdb %s: store %d fails: %v", k.Name, i, err)
				return false
			}
		}
		if len(r.thresh[0]) != 1 || len(r.thresh[1]) != 1 {
			skip("parsigdb %s: threshold subscribers called %d/%d times", k.Name, len(r.thresh[0]), len(r.thresh[1]))
			return false
		}

		return true
	}
	// StoreInternal input vs what the internal subscribers get; mutated after everything was delivered.
	bubble(t, "parsigdb "+k.Name, func(t *testing.T) {
		r, ok := setup(t)
		if !ok || !storeAll(t, r, 0) {
			return
		}
		observe("parsigdb.StoreInternal>internalSub", k.Name, "direct", Named{"StoreInternal input set", r.inputs[0]},
			[]Named{{"internal subscriber 1 set", r.internal[0][0]}, {"internal subscriber 2 set", r.internal[1][0]}}, nil)
	})
	bubble(t, "parsigdb "+k.Name, func(t *testing.T) {
		r, ok := setup(t)
		if !ok || !storeAll(t, r, 0) {
			return
		}
		observe("parsigdb.internalSub|internalSub", k.Name, "sibling", Named{"internal subscriber 1 set", r.internal[0][0]},
			[]Named{{"internal subscriber 2 set", r.internal[1][0]}, {"StoreInternal input set", r.inputs[0]},
				{"threshold subscriber 1 set", r.thresh[0][0]}}, nil)
	})
	// every store input vs what the threshold subscribers get
	for i := 0; i < threshold; i++ {
		how := "StoreExternal"
		if i == 0 {
			how = "StoreInternal"
		}
		if i == 1 && i != threshold-1 {
			continue // middle external stores behave like the last one
		}
		bubble(t, "parsigdb "+k.Name, func(t *testing.T) {
			r, ok := setup(t)
			if !ok || !storeAll(t, r, 0) {
				return
			}
			observe("parsigdb."+how+">thresholdSub", k.Name, "direct", Named{fmt.Sprintf("%s input set (share %d)", how, i+1), r.inputs[i]},
				[]Named{{"threshold subscriber 1 set", r.thresh[0][0]}, {"threshold subscriber 2 set", r.thresh[1][0]}}, nil)
		})
	}
	bubble(t, "parsigdb "+k.Name, func(t *testing.T) {
		r, ok := setup(t)
		if !ok || !storeAll(t, r, 0) {
			return
		}
		observe("parsigdb.thresholdSub|thresholdSub", k.Name, "sibling", Named{"threshold subscriber 1 set", r.thresh[0][0]},
			[]Named{{"threshold subscriber 2 set", r.thresh[1][0]}, {"internal subscriber 1 set", r.internal[0][0]}}, nil)
	})
	// a later store's output: mutate the first input and what the internal subscriber got BEFORE
	// the threshold is reached; the threshold output must carry the value as it was stored.
	bubble(t, "parsigdb "+k.Name, func(t *testing.T) {
		r, ok := setup(t)
		if !ok {
			return
		}
		ctx := t.Context()
		if err := r.db.StoreInternal(ctx, duty, r.inputs[0]); err != nil {
			return
		}
		want := Snapshot(r.inputs[0][sh.pubkey])
		WalkValue(r.internal[0][0]).Mutate()
		later := func() (any, error) {
			// complete the threshold (first call) and hand out share 1 as delivered to subscriber 1
			if len(r.thresh[0]) == 0 {
				for i := 1; i < len(r.inputs); i++ {
					if err := r.db.StoreExternal(ctx, duty, r.inputs[i]); err != nil {
						return nil, err
					}
				}
			}
			if len(r.thresh[0]) != 1 {
				return nil, fmt.Errorf("threshold subscriber called %d times", len(r.thresh[0]))
			}
			for _, p := range r.thresh[0][0][sh.pubkey] {
				if p.ShareIdx == 1 {
					return p, nil
				}
			}

			return nil, fmt.Errorf("share 1 missing in threshold output")
		}
		// the "before" snapshot of the reread is the stored value itself: compare by hand
		a := Named{"StoreInternal input set (mutated before the threshold store)", r.inputs[0]}
		wa := WalkValue(a.V)
		o := Obs{Path: "parsigdb.StoreInternal>laterThresholdOutput", Type: k.Name, Shape: "direct", Mutated: a.Name,
			Observers: "[share 1 inside the threshold output of a later store]"}
		for _, rg := range wa.Regions {
			if !rg.Static {
				o.Regions++
			}
		}
		o.Leaves = wa.Mutate()
		v, err := safeCall(later)
		if err != nil {
			o.Changed, o.Hidden, o.What, o.Err = true, true, "later store fails after the mutation: "+err.Error(), err.Error()
		} else {
			wb := WalkValue(v)
			if d := Diff(want, wb.Snap); d != "" {
				o.Changed, o.Hidden, o.What = true, true, "share 1 in threshold output"+d
			}
			for _, ov := range Intersect(wa, wb) {
				if !ov.Static {
					o.Overlap++
					o.OverlapAt = a.Name + ov.A.Path + " ~ threshold output" + ov.B.Path
				}
			}
			if l, rg, ok := wa.LeafIn(wb); ok {
				o.Leaf = a.Name + l.Path + " (inside threshold output" + rg.Path + ")"
			}
		}
		o.Verdict = "clone"
		if o.Changed || o.Overlap > 0 {
			o.Verdict = "share"
		}
		record(o)
	})
}

// ---------------------------------------------------------------------------------------------
// aggsigdb (both implementations)

func probeAggSigDB(t *testing.T, k SKind, v2 bool) {
	t.Helper()
	name := "aggsigdb.v1"
	if v2 {
		name = "aggsigdb.v2"
	}
	duty := core.Duty{Slot: slot0, Type: k.Duty}
	type rig struct {
		db       core.AggSigDB
		set      core.SignedDataSet
		pk       core.PubKey
		sub      core.SubcommitteeIndex
		cancel   context.CancelFunc
		pristine core.SignedDataSet
	}
	dupStore := func(t *testing.T, r *rig) Reread {
		return Reread{"Store(identical duplicate)", func() (any, error) {
			return errStr(r.db.Store(t.Context(), duty, must(r.pristine.Clone()))), nil
		}}
	}
	setup := func(t *testing.T, storeFirst bool) (*rig, bool) {
		sd, err := k.New(t, slot0)
		if err != nil {
			skip("%s %s: constructor refuses the value: %v", name, k.Name, err)
			return nil, false
		}
		ctx, cancel := context.WithCancel(t.Context())
		r := &rig{pk: testutil.RandomCorePubKey(t), cancel: cancel}
		if v2 {
			db := aggsigdb.NewMemDBV2(newNopDeadliner())
			go db.Run(ctx)
			r.db = db
		} else {
			db := aggsigdb.NewMemDB(newNopDeadliner())
			go db.Run(ctx)
			r.db = db
		}
		r.set = core.SignedDataSet{r.pk: sd}
		r.pristine = must(r.set.Clone())
		r.sub, err = core.SyncSubcommitteeIndex(k.Duty, sd)
		if err != nil {
			skip("%s %s: %v", name, k.Name, err)
			cancel()
			synctest.Wait()

			return nil, false
		}
		if storeFirst {
			if err := r.db.Store(ctx, duty, r.set); err != nil {
				skip("%s %s: Store fails: %v", name, k.Name, err)
				cancel()
				synctest.Wait()

				return nil, false
			}
		}

		return r, true
	}
	done := func(r *rig) {
		r.cancel()
		synctest.Wait()
	}
	bubble(t, name+" "+k.Name, func(t *testing.T) {
		r, ok := setup(t, true)
		if !ok {
			return
		}
		defer done(r)
		q := func() (any, error) {
			return bounded(t.Context(), func(ctx context.Context) (core.SignedData, error) { return r.db.Await(ctx, duty, r.pk, r.sub) })
		}
		r1, err := q()
		if err != nil {
			skip("%s %s: Await fails: %v", name, k.Name, err)
			return
		}
		observe(name+".Store>Await", k.Name, "direct", Named{"Store input set", r.set}, []Named{{"Await result", r1}}, []Reread{{"Await", q}, dupStore(t, r)})
	})
	bubble(t, name+" "+k.Name, func(t *testing.T) {
		r, ok := setup(t, true)
		if !ok {
			return
		}
		defer done(r)
		q := func() (any, error) {
			return bounded(t.Context(), func(ctx context.Context) (core.SignedData, error) { return r.db.Await(ctx, duty, r.pk, r.sub) })
		}
		r1, err1 := q()
		r2, err2 := q()
		if err1 != nil || err2 != nil {
			return
		}
		observe(name+".Await|Await", k.Name, "sibling", Named{"Await first result", r1},
			[]Named{{"Await second result", r2}, {"Store input set", r.set}}, []Reread{{"Await", q}, dupStore(t, r)})
	})
	bubble(t, name+" "+k.Name, func(t *testing.T) {
		r, ok := setup(t, false)
		if !ok {
			return
		}
		defer done(r)
		type res struct {
			v   any
			err error
		}
		ch := make([]chan res, 2)
		for i := range ch {
			ch[i] = make(chan res, 1)
			go func() {
				v, err := r.db.Await(t.Context(), duty, r.pk, r.sub)
				ch[i] <- res{v, err}
			}()
		}
		synctest.Wait()
		if err := r.db.Store(t.Context(), duty, r.set); err != nil {
			return
		}
		synctest.Wait()
		var got []res
		for i := range ch {
			select {
			case x := <-ch[i]:
				got = append(got, x)
			default:
			}
		}
		if len(got) != 2 || got[0].err != nil || got[1].err != nil {
			skip("%s %s: blocked readers did not both return", name, k.Name)
			return
		}
		q := func() (any, error) {
			return bounded(t.Context(), func(ctx context.Context) (core.SignedData, error) { return r.db.Await(ctx, duty, r.pk, r.sub) })
		}
		observe(name+".Await(blocked)|Await(blocked)", k.Name, "sibling", Named{"Await reader 1 result", got[0].v},
			[]Named{{"Await reader 2 result", got[1].v}, {"Store input set", r.set}}, []Reread{{"Await", q}, dupStore(t, r)})
		observe(name+".Await(blocked, second reader)|Await(blocked)", k.Name, "sibling", Named{"Await reader 2 result", got[1].v},
			[]Named{{"Store input set", r.set}}, []Reread{{"Await", q}, dupStore(t, r)})
	})
}

// ---------------------------------------------------------------------------------------------
// sigagg

func probeSigAgg(t *testing.T, k SKind, sh shares) {
	t.Helper()
	duty := core.Duty{Slot: slot0, Type: k.Duty}
	type rig struct {
		in   map[core.PubKey][]core.ParSignedData
		outs []core.SignedDataSet
	}
	setup := func(t *testing.T) (*rig, bool) {
		ps, err := partials(t, k, sh, threshold)
		if err != nil {
			skip("sigagg %s: cannot build partials: %v", k.Name, err)
			return nil, false
		}
		agg := must(sigagg.New(threshold, func(context.Context, core.PubKey, core.SignedData) error { return nil }))
		r := &rig{in: map[core.PubKey][]core.ParSignedData{sh.pubkey: ps}, outs: make([]core.SignedDataSet, rigSubs)}
		for i := 0; i < rigSubs; i++ {
			agg.Subscribe(func(_ context.Context, _ core.Duty, set core.SignedDataSet) error {
				r.outs[i] = set
				return nil
			})
		}
		if err := agg.Aggregate(t.Context(), duty, r.in); err != nil {
			skip("sigagg %s: Aggregate fails: %v", k.Name, err)
			return nil, false
		}
		for i := range r.outs {
			if r.outs[i] == nil {
				skip("sigagg %s: subscriber %d of %d not called", k.Name, i+1, len(r.outs))
				return nil, false
			}
		}

		return r, true
	}
	bubble(t, "sigagg "+k.Name, func(t *testing.T) {
		r, ok := setup(t)
		if !ok {
			return
		}
		observe("sigagg.Aggregate>subscriber", k.Name, "direct", Named{"Aggregate input partials", r.in},
			[]Named{{"subscriber 1 set", r.outs[0]}, {"subscriber 2 set", r.outs[1]}}, nil)
	})
	bubble(t, "sigagg "+k.Name, func(t *testing.T) {
		r, ok := setup(t)
		if !ok {
			return
		}
		observe("sigagg.subscriber|subscriber", k.Name, "sibling", Named{"subscriber 1 set", r.outs[0]},
			[]Named{{"subscriber 2 set", r.outs[1]}, {"Aggregate input partials", r.in}}, nil)
	})
	for _, lay := range subLayouts {
		n, pos := lay[0], lay[1]
		bubble(t, "sigagg "+k.Name, func(t *testing.T) {
			rigSubs = n
			r, ok := setup(t)
			rigSubs = 2
			if !ok {
				return
			}
			held := []Named{{"Aggregate input partials", r.in}}
			for i := range r.outs {
				if i != pos {
					held = append(held, Named{fmt.Sprintf("subscriber %d set", i+1), r.outs[i]})
				}
			}
			observe("sigagg.subscriber["+posName(n, pos)+"]|everybody else", k.Name, "sibling", Named{"subscriber set (" + posName(n, pos) + ")", r.outs[pos]}, held, nil)
		})
	}
}

var _ = eth2p0.Slot(0)
