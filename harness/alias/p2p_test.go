package alias

import (
	"context"
	"testing"
	"time"

	"github.com/libp2p/go-libp2p/core/host"
	"github.com/libp2p/go-libp2p/core/peer"
	"github.com/libp2p/go-libp2p/core/peerstore"

	"github.com/obolnetwork/charon/core"
	"github.com/obolnetwork/charon/core/parsigex"
	"github.com/obolnetwork/charon/p2p"
	"github.com/obolnetwork/charon/testutil"
)

// ---------------------------------------------------------------------------------------------
// parsigex: a set received from a peer (real libp2p stream between two local hosts) is handed to
// every subscriber.

func probeParSigEx(t *testing.T, sks []SKind) {
	t.Helper()
	var (
		hosts []host.Host
		infos []peer.AddrInfo
		peers []peer.ID
	)
	ok := true
	contain("parsigex hosts", func() {
		for i := 0; i < 2; i++ {
			h := testutil.CreateHost(t, testutil.AvailableAddr(t))
			hosts = append(hosts, h)
			infos = append(infos, peer.AddrInfo{ID: h.ID(), Addrs: h.Addrs()})
			peers = append(peers, h.ID())
		}
		hosts[0].Peerstore().AddAddrs(infos[1].ID, infos[1].Addrs, peerstore.PermanentAddrTTL)
		hosts[1].Peerstore().AddAddrs(infos[0].ID, infos[0].Addrs, peerstore.PermanentAddrTTL)
	})
	if len(hosts) != 2 {
		skip("parsigex: cannot create local libp2p hosts")
		return
	}
	defer func() {
		for _, h := range hosts {
			_ = h.Close()
		}
	}()
	verify := func(context.Context, peer.ID, core.Duty, core.PubKey, core.ParSignedData) error { return nil }
	gater := func(core.Duty) bool { return true }

	type got struct {
		duty core.Duty
		set  core.ParSignedDataSet
	}
	recv := [2]chan got{make(chan got, 64), make(chan got, 64)}
	sender := parsigex.NewParSigEx(hosts[0], p2p.Send, 0, peers, verify, gater)
	receiver := parsigex.NewParSigEx(hosts[1], p2p.Send, 1, peers, verify, gater)
	for i := 0; i < 2; i++ {
		receiver.Subscribe(func(_ context.Context, d core.Duty, set core.ParSignedDataSet) error {
			recv[i] <- got{d, set}
			return nil
		})
	}
	for n, k := range sks {
		if !ok {
			return
		}
		if k.Name == "SyncContributionAndProof" {
			skip("parsigex %s: the type has no wire encoding (core.ParSignedDataFromProto does not produce it)", k.Name)
			continue
		}
		contain("parsigex "+k.Name, func() {
			sd, err := k.New(t, slot0)
			if err != nil {
				skip("parsigex %s: %v", k.Name, err)
				return
			}
			duty := core.Duty{Slot: slot0 + uint64(n), Type: k.Duty}
			set := core.ParSignedDataSet{testutil.RandomCorePubKey(t): core.ParSignedData{SignedData: sd, ShareIdx: 1}}
			if err := sender.Broadcast(t.Context(), duty, set); err != nil {
				skip("parsigex %s: Broadcast fails: %v", k.Name, err)
				return
			}
			var outs [2]got
			for i := 0; i < 2; i++ {
				select {
				case outs[i] = <-recv[i]:
				case <-time.After(3 * time.Second):
					skip("parsigex %s: subscriber %d did not receive the set (unsupported on the wire or no local networking)", k.Name, i+1)
					if n == 0 {
						ok = false
					}

					return
				}
			}
			if outs[0].duty != duty || outs[1].duty != duty {
				skip("parsigex %s: subscribers received another duty", k.Name)
				return
			}
			observe("parsigex.receive>subscriber|subscriber", k.Name, "sibling", Named{"subscriber 1 set", outs[0].set},
				[]Named{{"subscriber 2 set", outs[1].set}}, nil)
		})
	}
}

// ---------------------------------------------------------------------------------------------
// consensus: the decided value is kept as a protobuf message inside the component and every
// subscriber registered with Consensus.Subscribe decodes it for itself with
// core.UnsignedDataSetFromProto. The consensus component itself is not driven here (it needs a
// cluster of p2p hosts); the probe runs that decode step twice on one message, as the wrappers do.

func probeConsensusDecode(t *testing.T, uks []UKind) {
	t.Helper()
	for _, k := range uks {
		contain("consensus decode "+k.Name, func() {
			u, err := k.New(t, slot0)
			if err != nil {
				skip("consensus decode %s: %v", k.Name, err)
				return
			}
			pb, err := core.UnsignedDataSetToProto(core.UnsignedDataSet{testutil.RandomCorePubKey(t): u})
			if err != nil {
				skip("consensus decode %s: to proto: %v", k.Name, err)
				return
			}
			s1, err1 := core.UnsignedDataSetFromProto(k.Duty, pb)
			s2, err2 := core.UnsignedDataSetFromProto(k.Duty, pb)
			if err1 != nil || err2 != nil {
				skip("consensus decode %s: from proto: %v %v", k.Name, err1, err2)
				return
			}
			observe("core.UnsignedDataSetFromProto(decided value)|UnsignedDataSetFromProto (per consensus subscriber)", k.Name, "sibling",
				Named{"subscriber 1 decoded set", s1}, []Named{{"subscriber 2 decoded set", s2}, {"decided protobuf message", pb}}, nil)
		})
	}
}
