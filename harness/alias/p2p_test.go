package alias

import (
	"context"
	"fmt"
	"testing"
	"time"

	"github.com/libp2p/go-libp2p/core/host"
	"github.com/libp2p/go-libp2p/core/peer"
	"github.com/libp2p/go-libp2p/core/peerstore"

	"github.com/obolnetwork/charon/core"
	"github.com/obolnetwork/charon/core/parsigex"
	"github.com/obolnetwork/charon/p2p"
	"github.com/obolnetwork/charon/testutil"
)

// ---------------------------------------------------------------------------------------------
// parsigex: a set received from a peer (real libp2p stream between two local hosts) is handed to
// every subscriber.

func probeParSigEx(t *testing.T, sks []SKind) {
	t.Helper()
	for n := 1; n <= 3; n++ {
		if !probeParSigExN(t, sks, n) {
			return
		}
	}
}

// probeParSigExN runs the probes with n subscribers on the receiving side; false = no local networking.
func probeParSigExN(t *testing.T, sks []SKind, n int) bool {
	t.Helper()
	var (
		hosts []host.Host
		infos []peer.AddrInfo
		peers []peer.ID
	)
	contain("parsigex hosts", func() {
		for i := 0; i < 2; i++ {
			h := testutil.CreateHost(t, testutil.AvailableAddr(t))
			hosts = append(hosts, h)
			infos = append(infos, peer.AddrInfo{ID: h.ID(), Addrs: h.Addrs()})
			peers = append(peers, h.ID())
		}
		hosts[0].Peerstore().AddAddrs(infos[1].ID, infos[1].Addrs, peerstore.PermanentAddrTTL)
		hosts[1].Peerstore().AddAddrs(infos[0].ID, infos[0].Addrs, peerstore.PermanentAddrTTL)
	})
	if len(hosts) != 2 {
		skip("parsigex: cannot create local libp2p hosts")
		return false
	}
	defer func() {
		for _, h := range hosts {
			_ = h.Close()
		}
	}()
	verify := func(context.Context, peer.ID, core.Duty, core.PubKey, core.ParSignedData) error { return nil }
	gater := func(core.Duty) bool { return true }

	type got struct {
		duty core.Duty
		set  core.ParSignedDataSet
	}
	recv := make([]chan got, n)
	sender := parsigex.NewParSigEx(hosts[0], p2p.Send, 0, peers, verify, gater)
	receiver := parsigex.NewParSigEx(hosts[1], p2p.Send, 1, peers, verify, gater)
	for i := 0; i < n; i++ {
		recv[i] = make(chan got, 64)
		receiver.Subscribe(func(_ context.Context, d core.Duty, set core.ParSignedDataSet) error {
			recv[i] <- got{d, set}
			return nil
		})
	}
	seq := uint64(0)
	for _, k := range sks {
		if k.Name == "SyncContributionAndProof" {
			if n == 1 {
				skip("parsigex %s: the type has no wire encoding (core.ParSignedDataFromProto does not produce it)", k.Name)
			}

			continue
		}
		for pos := 0; pos < n; pos++ {
			alive := true
			contain("parsigex "+k.Name, func() {
				sd, err := k.New(t, slot0)
				if err != nil {
					skip("parsigex %s: %v", k.Name, err)
					return
				}
				seq++
				duty := core.Duty{Slot: slot0 + seq, Type: k.Duty}
				set := core.ParSignedDataSet{testutil.RandomCorePubKey(t): core.ParSignedData{SignedData: sd, ShareIdx: 1}}
				if err := sender.Broadcast(t.Context(), duty, set); err != nil {
					skip("parsigex %s: Broadcast fails: %v", k.Name, err)
					return
				}
				outs := make([]got, n)
				for i := 0; i < n; i++ {
					select {
					case outs[i] = <-recv[i]:
					case <-time.After(3 * time.Second):
						skip("parsigex %s: subscriber %d did not receive the set (no local networking?)", k.Name, i+1)
						alive = seq > 1

						return
					}
					if outs[i].duty != duty {
						skip("parsigex %s: subscriber received another duty", k.Name)
						return
					}
				}
				held := []Named{{"set broadcast by the sending peer", set}}
				for i := range outs {
					if i != pos {
						held = append(held, Named{fmt.Sprintf("subscriber %d set", i+1), outs[i].set})
					}
				}
				observe("parsigex.receive>subscriber["+posName(n, pos)+"]|everybody else", k.Name, "sibling",
					Named{"subscriber set (" + posName(n, pos) + ")", outs[pos].set}, held, nil)
			})
			if !alive {
				return false
			}
		}
	}

	return true
}

// ---------------------------------------------------------------------------------------------
// consensus: the decided value is kept as a protobuf message inside the component and every
// subscriber registered with Consensus.Subscribe decodes it for itself with
// core.UnsignedDataSetFromProto. The consensus component itself is not driven here (it needs a
// cluster of p2p hosts); the probe runs that decode step twice on one message, as the wrappers do.

func probeConsensusDecode(t *testing.T, uks []UKind) {
	t.Helper()
	for _, k := range uks {
		contain("consensus decode "+k.Name, func() {
			u, err := k.New(t, slot0)
			if err != nil {
				skip("consensus decode %s: %v", k.Name, err)
				return
			}
			pb, err := core.UnsignedDataSetToProto(core.UnsignedDataSet{testutil.RandomCorePubKey(t): u})
			if err != nil {
				skip("consensus decode %s: to proto: %v", k.Name, err)
				return
			}
			s1, err1 := core.UnsignedDataSetFromProto(k.Duty, pb)
			s2, err2 := core.UnsignedDataSetFromProto(k.Duty, pb)
			if err1 != nil || err2 != nil {
				skip("consensus decode %s: from proto: %v %v", k.Name, err1, err2)
				return
			}
			observe("core.UnsignedDataSetFromProto(decided value)|UnsignedDataSetFromProto (per consensus subscriber)", k.Name, "sibling",
				Named{"subscriber 1 decoded set", s1}, []Named{{"subscriber 2 decoded set", s2}, {"decided protobuf message", pb}}, nil)
		})
	}
}
