package alias

// Hand-over race probes: a call that takes a context and copies its input is interrupted while the
// copy (or a callback the component makes during the call) is in progress:
//
//	(a) the call's context is cancelled while the gate is held,
//	(b) if the call returns to its caller now, the caller mutates everything reachable from the
//	    object it had passed in and only then the gate is released; otherwise the gate is released,
//	    the call is allowed to finish, and then the caller mutates its object,
//	(c) what the component serves afterwards (later queries, what subscribers received) must be
//	    nothing or the value as it was when handed over -- never the later mutation.
//
// Two kinds of gate: a wrapper value whose Clone / MarshalJSON / SetSignature block (for APIs that
// take core.SignedData / core.UnsignedData interface values), and a blocking callback (first
// subscriber, registered query function, eth2 client call) for APIs whose inputs are concrete types.

import (
	"context"
	"fmt"
	"sync"
	"testing"
	"testing/synctest"
	"time"

	eth2api "github.com/attestantio/go-eth2-client/api"
	eth2spec "github.com/attestantio/go-eth2-client/spec"
	eth2p0 "github.com/attestantio/go-eth2-client/spec/phase0"

	"github.com/obolnetwork/charon/app/eth2wrap"
	"github.com/obolnetwork/charon/core"
	"github.com/obolnetwork/charon/core/aggsigdb"
	"github.com/obolnetwork/charon/core/dutydb"
	"github.com/obolnetwork/charon/core/fetcher"
	"github.com/obolnetwork/charon/core/parsigdb"
	"github.com/obolnetwork/charon/core/sigagg"
	"github.com/obolnetwork/charon/core/validatorapi"
	"github.com/obolnetwork/charon/testutil"
)

type gate struct {
	once    sync.Once
	started chan struct{}
	proceed chan struct{}
}

func newGate() *gate { return &gate{started: make(chan struct{}), proceed: make(chan struct{})} }

// pass blocks the first caller (and everybody after it) until the gate is released.
func (g *gate) pass() {
	if g == nil {
		return
	}
	g.once.Do(func() { close(g.started) })
	<-g.proceed
}

// gatedS is a core.SignedData that delegates to a real value; every operation that reads the value
// in order to copy or encode it passes the gate first. Clones are plain values of the real type
// unless next is set (then the clone is gated by next: used to interrupt an output copy).
type gatedS struct {
	inner core.SignedData
	g     *gate
	next  *gate
}

func (d gatedS) Clone() (core.SignedData, error) {
	d.g.pass()
	c, err := d.inner.Clone()
	if err == nil && d.next != nil {
		return gatedS{inner: c, g: d.next}, nil
	}

	return c, err
}
func (d gatedS) MarshalJSON() ([]byte, error)   { d.g.pass(); return d.inner.MarshalJSON() }
func (d gatedS) Signature() core.Signature      { return d.inner.Signature() }
func (d gatedS) MessageRoot() ([32]byte, error) { return d.inner.MessageRoot() }
func (d gatedS) SetSignature(s core.Signature) (core.SignedData, error) {
	d.g.pass()
	return d.inner.SetSignature(s)
}

// gatedU is the same for core.UnsignedData.
type gatedU struct {
	inner core.UnsignedData
	g     *gate
}

func (d gatedU) Clone() (core.UnsignedData, error) { d.g.pass(); return d.inner.Clone() }
func (d gatedU) MarshalJSON() ([]byte, error)      { d.g.pass(); return d.inner.MarshalJSON() }

// raceCase is one hand-over race scenario.
type raceCase struct {
	path, typ string
	g         *gate
	call      func(ctx context.Context) error
	caller    any // the object(s) the caller still holds and mutates afterwards
	// after returns what the component serves afterwards together with the expected value (as handed
	// over); ok=false means nothing is served (acceptable).
	after func() (got, want any, ok bool, err error)
}

// runRace must be called inside a bubble.
func runRace(t *testing.T, rc raceCase) {
	t.Helper()
	o := Obs{Path: rc.path, Type: rc.typ, Shape: "direct", Mutated: "the object passed to the call, after the call returned to its caller",
		Observers: "[what the component serves afterwards]"}
	ctx, cancel := context.WithCancel(t.Context())
	defer cancel()
	done := make(chan error, 1)
	go func() {
		defer func() {
			if r := recover(); r != nil {
				done <- fmt.Errorf("panic: %v", r)
			}
		}()
		done <- rc.call(ctx)
	}()
	synctest.Wait()
	select {
	case <-rc.g.started:
	default:
		// the call never reached the gate: nothing to interrupt
		select {
		case <-done:
		case <-time.After(time.Minute):
		}
		skip("%s [%s]: the call never reads the gated value / never makes the gated callback", rc.path, rc.typ)

		return
	}
	cancel() // (a)
	synctest.Wait()
	wa := WalkValue(rc.caller)
	for _, r := range wa.Regions {
		if !r.Static {
			o.Regions++
		}
	}
	how := ""
	select {
	case err := <-done:
		how = fmt.Sprintf("the call returned (%s) while the gate was still held; ", errStr(err))
		o.Leaves = wa.MutateBytes()
		close(rc.g.proceed)
	default:
		close(rc.g.proceed)
		select {
		case <-done:
		case <-time.After(time.Minute):
			skip("%s [%s]: the call did not return after the gate was released", rc.path, rc.typ)
			return
		}
		o.Leaves = wa.MutateBytes()
	}
	synctest.Wait()
	got, want, ok, err := rc.after()
	switch {
	case err != nil:
		o.Changed, o.Hidden, o.What, o.Err = true, true, how+"afterwards: "+err.Error(), err.Error()
	case ok:
		gs, isList := got.([]any)
		ws, _ := want.([]any)
		if !isList {
			gs, ws = []any{got}, []any{want}
		}
		for i := range gs {
			// element by element: the expected values may be one object listed several times
			if d := Diff(Snapshot(ws[i]), Snapshot(gs[i])); d != "" {
				o.Changed, o.Hidden = true, true
				o.What = how + fmt.Sprintf("served afterwards (#%d)", i+1) + d
				o.Leaf = guessLeaf("caller's object", wa, d)

				break
			}
		}
	}
	o.Verdict = "clone"
	if o.Changed {
		o.Verdict = "share"
	}
	record(o)
}

// ---------------------------------------------------------------------------------------------

func probeRaces(t *testing.T, sks []SKind, uks []UKind, sh shares) {
	t.Helper()
	for _, k := range sks {
		raceAggSigDB(t, k, false)
		raceAggSigDB(t, k, true)
		raceParSigDB(t, k, sh)
		raceSigAgg(t, k, sh)
	}
	for _, k := range uks {
		raceDutyDB(t, k)
	}
	raceFetcher(t)
	raceValidatorAPI(t)
}

func raceAggSigDB(t *testing.T, k SKind, v2 bool) {
	t.Helper()
	name := "aggsigdb.v1"
	if v2 {
		name = "aggsigdb.v2"
	}
	duty := core.Duty{Slot: slot0, Type: k.Duty}
	mk := func(t *testing.T) (core.AggSigDB, core.SignedData, core.SignedData, core.PubKey, core.SubcommitteeIndex, context.CancelFunc, bool) {
		sd, err := k.New(t, slot0)
		if err != nil {
			return nil, nil, nil, "", 0, nil, false
		}
		sub, err := core.SyncSubcommitteeIndex(k.Duty, sd)
		if err != nil {
			return nil, nil, nil, "", 0, nil, false
		}
		ctx, cancel := context.WithCancel(t.Context())
		var db core.AggSigDB
		if v2 {
			x := aggsigdb.NewMemDBV2(newNopDeadliner())
			go x.Run(ctx)
			db = x
		} else {
			x := aggsigdb.NewMemDB(newNopDeadliner())
			go x.Run(ctx)
			db = x
		}

		return db, sd, must(sd.Clone()), testutil.RandomCorePubKey(t), sub, cancel, true
	}
	await := func(t *testing.T, db core.AggSigDB, pk core.PubKey, sub core.SubcommitteeIndex) (core.SignedData, error) {
		ctx, cancel := context.WithTimeout(t.Context(), time.Second)
		defer cancel()

		return db.Await(ctx, duty, pk, sub)
	}
	// input hand-over: Store interrupted while the value is being copied
	bubble(t, name+" race "+k.Name, func(t *testing.T) {
		db, sd, pristine, pk, sub, stop, ok := mk(t)
		if !ok {
			return
		}
		defer func() { stop(); synctest.Wait() }()
		g := newGate()
		// core.SyncSubcommitteeIndex type-switches on the concrete type: only wrap where it is not consulted
		if core.IsSyncSubcommitteeDuty(k.Duty) {
			return
		}
		runRace(t, raceCase{path: name + ".Store(cancelled while copying)>Await", typ: k.Name, g: g, caller: sd,
			call: func(ctx context.Context) error {
				return db.Store(ctx, duty, core.SignedDataSet{pk: gatedS{inner: sd, g: g}})
			},
			after: func() (any, any, bool, error) {
				got, err := await(t, db, pk, sub)
				if err != nil {
					return nil, nil, false, nil // nothing stored
				}

				return got, pristine, true, nil
			}})
	})
	// output hand-over: Await interrupted while the stored value is being copied out
	bubble(t, name+" race "+k.Name, func(t *testing.T) {
		db, sd, pristine, pk, sub, stop, ok := mk(t)
		if !ok || core.IsSyncSubcommitteeDuty(k.Duty) {
			if stop != nil {
				stop()
				synctest.Wait()
			}

			return
		}
		defer func() { stop(); synctest.Wait() }()
		g := newGate()
		opened := newGate()
		close(opened.proceed)
		if err := db.Store(t.Context(), duty, core.SignedDataSet{pk: gatedS{inner: sd, g: opened, next: g}}); err != nil {
			skip("%s race %s: Store fails: %v", name, k.Name, err)
			return
		}
		var first core.SignedData
		runRace(t, raceCase{path: name + ".Await(cancelled while copying out)>Await", typ: k.Name, g: g, caller: &first,
			call: func(ctx context.Context) error {
				v, err := db.Await(ctx, duty, pk, sub)
				first = v

				return err
			},
			after: func() (any, any, bool, error) {
				got, err := await(t, db, pk, sub)
				if err != nil {
					return nil, nil, false, fmt.Errorf("the stored value is no longer served: %w", err)
				}

				return got, pristine, true, nil
			}})
	})
}

func raceDutyDB(t *testing.T, k UKind) {
	t.Helper()
	duty := core.Duty{Slot: slot0, Type: k.Duty}
	if k.Name == "SyncContributions" {
		return // the store type-switches on the clone; covered by SyncContribution
	}
	bubble(t, "dutydb race "+k.Name, func(t *testing.T) {
		u, err := k.New(t, slot0)
		if err != nil {
			return
		}
		pristine := must(u.Clone())
		qs := dutydbQueries(t, k, pristine)
		db := dutydb.NewMemDB(newNopDeadliner())
		g := newGate()
		pk := testutil.RandomCorePubKey(t)
		runRace(t, raceCase{path: "dutydb.Store(cancelled while copying)>" + qs[0].name, typ: k.Name, g: g, caller: u,
			call: func(ctx context.Context) error {
				return db.Store(ctx, duty, core.UnsignedDataSet{pk: gatedU{inner: u, g: g}})
			},
			after: func() (any, any, bool, error) {
				ctx, cancel := context.WithTimeout(t.Context(), time.Second)
				defer cancel()
				got, err := qs[0].f(ctx, db)
				if err != nil {
					return nil, nil, false, nil
				}
				// what the query would answer for the value as handed over
				ref := dutydb.NewMemDB(newNopDeadliner())
				if err := ref.Store(t.Context(), duty, core.UnsignedDataSet{pk: must(pristine.Clone())}); err != nil {
					return nil, nil, false, err
				}
				want, err := qs[0].f(t.Context(), ref)

				return got, want, err == nil, err
			}})
	})
}

func raceParSigDB(t *testing.T, k SKind, sh shares) {
	t.Helper()
	duty := core.Duty{Slot: slot0, Type: k.Duty}
	if core.IsSyncSubcommitteeDuty(k.Duty) {
		return
	}
	for _, how := range []string{"StoreInternal", "StoreExternal"} {
		for _, where := range []string{"copying", "first subscriber running"} {
			bubble(t, "parsigdb race "+k.Name, func(t *testing.T) {
				ps, err := partials(t, k, sh, threshold)
				if err != nil {
					return
				}
				db := parsigdb.NewMemDB(threshold, newNopDeadliner(), parsigdb.NewMemDBMetadata(12, time.Now()))
				g := newGate()
				var (
					mu       sync.Mutex
					internal []core.ParSignedDataSet
					thresh   []map[core.PubKey][]core.ParSignedData
				)
				for i := 0; i < 2; i++ {
					db.SubscribeInternal(func(_ context.Context, _ core.Duty, set core.ParSignedDataSet) error {
						if i == 0 && where != "copying" {
							g.pass()
						}
						mu.Lock()
						defer mu.Unlock()
						internal = append(internal, set)

						return nil
					})
					db.SubscribeThreshold(func(_ context.Context, _ core.Duty, set map[core.PubKey][]core.ParSignedData) error {
						if i == 0 && where != "copying" {
							g.pass()
						}
						mu.Lock()
						defer mu.Unlock()
						thresh = append(thresh, set)

						return nil
					})
				}
				// the raced share is the first one when stored internally, the threshold-th one when
				// stored externally (so that subscribers run during the call in both cases)
				idx := 0
				if how == "StoreExternal" {
					idx = threshold - 1
					for i := 0; i < idx; i++ {
						if err := db.StoreExternal(t.Context(), duty, core.ParSignedDataSet{sh.pubkey: ps[i]}); err != nil {
							return
						}
					}
				}
				pristine := must(ps[idx].Clone())
				in := ps[idx]
				if where == "copying" {
					in.SignedData = gatedS{inner: ps[idx].SignedData, g: g}
				}
				set := core.ParSignedDataSet{sh.pubkey: in}
				runRace(t, raceCase{path: "parsigdb." + how + "(cancelled while " + where + ")>subscribers", typ: k.Name, g: g, caller: ps[idx],
					call: func(ctx context.Context) error {
						if how == "StoreInternal" {
							return db.StoreInternal(ctx, duty, set)
						}

						return db.StoreExternal(ctx, duty, set)
					},
					after: func() (any, any, bool, error) {
						if how == "StoreInternal" {
							for i := 1; i < threshold; i++ {
								if err := db.StoreExternal(t.Context(), duty, core.ParSignedDataSet{sh.pubkey: ps[i]}); err != nil {
									return nil, nil, false, err
								}
							}
						}
						synctest.Wait()
						mu.Lock()
						defer mu.Unlock()
						var got []any
						for _, s := range internal {
							got = append(got, s[sh.pubkey].SignedData)
						}
						for _, s := range thresh {
							for _, p := range s[sh.pubkey] {
								if p.ShareIdx == pristine.ShareIdx {
									got = append(got, p.SignedData)
								}
							}
						}
						if len(got) == 0 {
							return nil, nil, false, nil
						}
						var want []any
						for range got {
							want = append(want, pristine.SignedData)
						}

						return got, want, true, nil
					}})
			})
		}
	}
}

func raceSigAgg(t *testing.T, k SKind, sh shares) {
	t.Helper()
	duty := core.Duty{Slot: slot0, Type: k.Duty}
	for _, where := range []string{"copying", "first subscriber running"} {
		bubble(t, "sigagg race "+k.Name, func(t *testing.T) {
			ps, err := partials(t, k, sh, threshold)
			if err != nil {
				return
			}
			pristine := must(ps[0].SignedData.Clone())
			g := newGate()
			agg := must(sigagg.New(threshold, func(context.Context, core.PubKey, core.SignedData) error { return nil }))
			var (
				mu   sync.Mutex
				outs []core.SignedDataSet
			)
			for i := 0; i < 2; i++ {
				agg.Subscribe(func(_ context.Context, _ core.Duty, set core.SignedDataSet) error {
					if i == 0 && where != "copying" {
						g.pass()
					}
					mu.Lock()
					defer mu.Unlock()
					outs = append(outs, set)

					return nil
				})
			}
			in := append([]core.ParSignedData(nil), ps...)
			if where == "copying" {
				if _, isAtt := ps[0].SignedData.(core.VersionedAttestation); isAtt {
					return // the aggregator type-asserts attestations; the subscriber gate covers them
				}
				in[0].SignedData = gatedS{inner: ps[0].SignedData, g: g}
			}
			runRace(t, raceCase{path: "sigagg.Aggregate(cancelled while " + where + ")>subscribers", typ: k.Name, g: g, caller: ps,
				call: func(ctx context.Context) error {
					return agg.Aggregate(ctx, duty, map[core.PubKey][]core.ParSignedData{sh.pubkey: in})
				},
				after: func() (any, any, bool, error) {
					mu.Lock()
					defer mu.Unlock()
					if len(outs) == 0 {
						return nil, nil, false, nil
					}
					var got, want []any
					for _, s := range outs {
						sd := s[sh.pubkey]
						got = append(got, sd)
						// the aggregate is the value as handed over with the aggregated signature set
						w, err := pristine.SetSignature(sd.Signature())
						if err != nil {
							return nil, nil, false, err
						}
						want = append(want, w)
					}

					return got, want, true, nil
				}})
		})
	}
}

// raceBN is an in-process eth2 client for the fetcher race: only AttestationData is implemented.
type raceBN struct {
	eth2wrap.Client

	g        *gate
	pristine eth2p0.AttestationData
	ret      []*eth2p0.AttestationData
}

func (b *raceBN) AttestationData(_ context.Context, opts *eth2api.AttestationDataOpts) (*eth2api.Response[*eth2p0.AttestationData], error) {
	d := b.pristine
	src, tgt := *b.pristine.Source, *b.pristine.Target
	d.Source, d.Target = &src, &tgt
	d.Slot, d.Index = opts.Slot, opts.CommitteeIndex
	b.ret = append(b.ret, &d)
	b.g.pass()

	return &eth2api.Response[*eth2p0.AttestationData]{Data: &d}, nil
}

func raceFetcher(t *testing.T) {
	t.Helper()
	duty := core.Duty{Slot: slot0, Type: core.DutyAttester}
	for _, where := range []string{"the eth2 client call running", "first subscriber running"} {
		bubble(t, "fetcher race", func(t *testing.T) {
			g := newGate()
			bn := &raceBN{pristine: *testutil.RandomAttestationDataPhase0()}
			if where == "the eth2 client call running" {
				bn.g = g
			}
			f, err := fetcher.New(bn, func(core.PubKey) string { return "" }, false, &fetcher.GraffitiBuilder{}, 0, false)
			if err != nil {
				skip("fetcher race: %v", err)
				return
			}
			var (
				mu   sync.Mutex
				outs []core.UnsignedDataSet
			)
			for i := 0; i < 2; i++ {
				f.Subscribe(func(_ context.Context, _ core.Duty, set core.UnsignedDataSet) error {
					if i == 0 && where == "first subscriber running" {
						g.pass()
					}
					mu.Lock()
					defer mu.Unlock()
					outs = append(outs, set)

					return nil
				})
			}
			ad := testutil.RandomAttestationDuty(t)
			ad.Slot, ad.CommitteeIndex = slot0, 4
			pk := testutil.RandomCorePubKey(t)
			defSet := core.DutyDefinitionSet{pk: core.NewAttesterDefinition(ad)}
			wantDuty := *ad
			caller := []any{defSet, &bn.ret}
			runRace(t, raceCase{path: "fetcher.Fetch(cancelled while " + where + ")>subscribers", typ: "AttestationData", g: g, caller: caller,
				call: func(ctx context.Context) error { return f.Fetch(ctx, duty, defSet) },
				after: func() (any, any, bool, error) {
					mu.Lock()
					defer mu.Unlock()
					if len(outs) == 0 {
						return nil, nil, false, nil
					}
					var got, want []any
					for _, s := range outs {
						got = append(got, s[pk])
						w := bn.pristine
						w.Slot, w.Index = slot0, 4
						want = append(want, core.AttestationData{Data: w, Duty: wantDuty})
					}

					return got, want, true, nil
				}})
		})
	}
}

func raceValidatorAPI(t *testing.T) {
	t.Helper()
	for _, where := range []string{"a registered query running", "first subscriber running"} {
		bubble(t, "validatorapi race", func(t *testing.T) {
			g := newGate()
			comp, err := validatorapi.NewComponentInsecure(t, nil, 1)
			if err != nil {
				skip("validatorapi race: %v", err)
				return
			}
			pk := testutil.RandomCorePubKey(t)
			comp.RegisterPubKeyByAttestation(func(context.Context, uint64, uint64, uint64) (core.PubKey, error) {
				if where == "a registered query running" {
					g.pass()
				}

				return pk, nil
			})
			var (
				mu   sync.Mutex
				outs []core.ParSignedDataSet
			)
			for i := 0; i < 2; i++ {
				comp.Subscribe(func(_ context.Context, _ core.Duty, set core.ParSignedDataSet) error {
					if i == 0 && where == "first subscriber running" {
						g.pass()
					}
					mu.Lock()
					defer mu.Unlock()
					outs = append(outs, set)

					return nil
				})
			}
			att := rawAttestation(eth2spec.DataVersionElectra, slot0, false)
			pristine := must(must(core.NewVersionedAttestation(att)).Clone())
			opts := &eth2api.SubmitAttestationsOpts{Attestations: []*eth2spec.VersionedAttestation{att}}
			runRace(t, raceCase{path: "validatorapi.SubmitAttestations(cancelled while " + where + ")>subscribers", typ: "VersionedAttestation/electra", g: g, caller: opts,
				call: func(ctx context.Context) error { return comp.SubmitAttestations(ctx, opts) },
				after: func() (any, any, bool, error) {
					mu.Lock()
					defer mu.Unlock()
					if len(outs) == 0 {
						return nil, nil, false, nil
					}
					var got, want []any
					for _, s := range outs {
						got = append(got, s[pk].SignedData)
						want = append(want, pristine)
					}

					return got, want, true, nil
				}})
		})
	}
}
