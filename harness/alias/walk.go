// Package alias decides, by observation on the real code, which component boundaries of the core
// workflow hand over isolated copies (clone) and which hand over shared memory (share).
//
// walk.go is the observation machinery: a reflection walk (exported and unexported fields, through
// pointers, slices, arrays, maps and interfaces) that collects
//   - the memory regions reachable from a value (pointer targets, slice backing arrays up to len,
//     map headers) as address ranges, so that two values can be intersected, and
//   - the mutable leaves (bool / integer / float / string cells that live in heap memory reached
//     through a pointer or slice, and map entries) so that one value can be mutated everywhere,
//   - a canonical deep snapshot (path, rendered value) so that another value can be compared
//     before/after without calling any method of the code under test.
//
// Ignored on purpose (counted in Walk.Ignored and reported by the check):
//   - nil pointers / slices / maps, zero-length slices, zero-size pointees (runtime.zerobase)
//   - the bytes of strings (immutable; the string header cell itself is a leaf)
//   - func values, channels, unsafe.Pointer
//   - values of types declared in sync, sync/atomic, and *time.Location (shared by design)
//   - memory outside the Go heap arenas (package-level variables, read-only data): never mutated,
//     overlaps there are reported separately as "static" and are not violations
//   - the box of a value stored in an interface and map keys/values as such (Go gives no way to
//     write them in place); whatever they point to is followed.
package alias

import (
	"encoding/hex"
	"fmt"
	"reflect"
	"sort"
	"strings"
	"unsafe"
)

// Region is a range of memory [Lo, Hi) reachable from a value.
type Region struct {
	Lo, Hi uintptr
	Kind   string // ptr | slice | map
	Path   string
	Type   string
	Static bool // outside the Go heap
}

// Leaf is one mutable cell.
type Leaf struct {
	Path string
	Addr uintptr
	Size uintptr       // bytes covered (a run of bytes for []byte / [N]byte, else the cell size)
	V    reflect.Value // addressable cell; for a byte run the slice/array value
	Run  bool          // a run of Size bytes starting at Addr
}

type mapRef struct {
	Path string
	V    reflect.Value
}

// Entry is one line of a snapshot.
type Entry struct{ Path, Val string }

// Walk is the result of walking one value.
type Walk struct {
	Regions []Region
	Leaves  []Leaf
	Maps    []mapRef
	Snap    []Entry
	Ignored map[string]int
	seen    map[seenKey]bool
}

type seenKey struct {
	p uintptr
	t reflect.Type
}

// heap arena bounds on linux/amd64 and linux/arm64 (runtime: arenaBaseOffset 0, hint 0x00c0<<32).
const (
	heapLo = uintptr(0x00c000000000)
	heapHi = uintptr(0x7f0000000000)
)

func isHeap(p uintptr) bool { return p >= heapLo && p < heapHi }

var (
	staticProbe = [4]byte{1, 2, 3, 4}
)

// HeapClassifierOK checks the address classifier against a known heap object and a known
// package-level variable; the harness refuses to run if it is wrong on this platform.
func HeapClassifierOK() error {
	h := new([64]byte)
	sink = h
	if !isHeap(uintptr(unsafe.Pointer(h))) {
		return fmt.Errorf("heap object at %#x classified static", uintptr(unsafe.Pointer(h)))
	}
	if isHeap(uintptr(unsafe.Pointer(&staticProbe))) {
		return fmt.Errorf("package variable at %#x classified heap", uintptr(unsafe.Pointer(&staticProbe)))
	}

	return nil
}

var sink any

func ignoredType(t reflect.Type) bool {
	switch t.PkgPath() {
	case "sync", "sync/atomic", "internal/sync":
		return true
	case "time":
		return t.Name() == "Location"
	}

	return false
}

// WalkValue walks x (any Go value) and returns what is reachable from it.
func WalkValue(x any) *Walk {
	w := &Walk{Ignored: map[string]int{}, seen: map[seenKey]bool{}}
	if x == nil {
		return w
	}
	rv := reflect.ValueOf(x)
	holder := reflect.New(rv.Type()).Elem()
	holder.Set(rv)
	w.walk(holder, "", false)

	return w
}

func (w *Walk) snap(path, val string) { w.Snap = append(w.Snap, Entry{path, val}) }

func clean(f reflect.Value) reflect.Value {
	if f.CanSet() || !f.CanAddr() {
		return f
	}

	return reflect.NewAt(f.Type(), unsafe.Pointer(f.UnsafeAddr())).Elem()
}

// addressable returns an addressable, flag-clean copy of a non-addressable value.
func addressable(v reflect.Value) reflect.Value {
	c := reflect.New(v.Type()).Elem()
	c.Set(v)

	return c
}

// walk visits v (addressable, clean). mutable says that v lives in memory that a holder of the
// root value can write in place (reached through a pointer or a slice), as opposed to the
// holder's private copy of the root or an immutable interface box / map slot.
func (w *Walk) walk(v reflect.Value, path string, mutable bool) {
	t := v.Type()
	if ignoredType(t) {
		w.Ignored["type:"+t.String()]++
		return
	}
	switch v.Kind() {
	case reflect.Bool, reflect.Int, reflect.Int8, reflect.Int16, reflect.Int32, reflect.Int64,
		reflect.Uint, reflect.Uint8, reflect.Uint16, reflect.Uint32, reflect.Uint64, reflect.Uintptr,
		reflect.Float32, reflect.Float64, reflect.Complex64, reflect.Complex128, reflect.String:
		w.snap(path, fmt.Sprintf("%v", v.Interface()))
		w.leaf(v, path, mutable)
	case reflect.Pointer:
		if v.IsNil() {
			w.snap(path, "nil")
			w.Ignored["nil"]++
			return
		}
		p := v.Pointer()
		et := t.Elem()
		if ignoredType(et) {
			w.Ignored["type:"+et.String()]++
			w.snap(path, "&<"+et.String()+">")
			return
		}
		if et.Size() == 0 {
			w.Ignored["zero-size"]++
			w.snap(path, "&{}")
			return
		}
		w.Regions = append(w.Regions, Region{p, p + et.Size(), "ptr", path, t.String(), !isHeap(p)})
		k := seenKey{p, et}
		if w.seen[k] {
			w.snap(path, "<cycle>")
			return
		}
		w.seen[k] = true
		w.walk(v.Elem(), path+"*", isHeap(p))
	case reflect.Slice:
		if v.IsNil() {
			w.snap(path, "nil")
			w.Ignored["nil"]++
			return
		}
		n := v.Len()
		if n == 0 {
			w.snap(path, "[]")
			w.Ignored["zero-length-slice"]++
			return
		}
		p := v.Pointer()
		es := t.Elem().Size()
		if es == 0 {
			w.Ignored["zero-size"]++
			w.snap(path, fmt.Sprintf("[%d x {}]", n))
			return
		}
		w.Regions = append(w.Regions, Region{p, p + uintptr(n)*es, "slice", path, t.String(), !isHeap(p)})
		if t.Elem().Kind() == reflect.Uint8 {
			w.snap(path, "0x"+hex.EncodeToString(v.Bytes()))
			w.bytesLeaves(v, path, isHeap(p))
			return
		}
		w.snap(path, fmt.Sprintf("len=%d", n))
		for i := 0; i < n; i++ {
			w.walk(v.Index(i), fmt.Sprintf("%s[%d]", path, i), isHeap(p))
		}
	case reflect.Array:
		n := v.Len()
		if t.Elem().Kind() == reflect.Uint8 {
			b := make([]byte, n)
			reflect.Copy(reflect.ValueOf(b), v)
			w.snap(path, "0x"+hex.EncodeToString(b))
			w.bytesLeaves(v, path, mutable)
			return
		}
		for i := 0; i < n; i++ {
			w.walk(v.Index(i), fmt.Sprintf("%s[%d]", path, i), mutable)
		}
	case reflect.Struct:
		for i := 0; i < t.NumField(); i++ {
			w.walk(clean(v.Field(i)), path+"."+t.Field(i).Name, mutable)
		}
	case reflect.Interface:
		if v.IsNil() {
			w.snap(path, "nil")
			w.Ignored["nil"]++
			return
		}
		e := v.Elem()
		w.snap(path, "iface:"+e.Type().String())
		w.Ignored["interface-box"]++
		w.walk(addressable(e), path+"("+e.Type().String()+")", false)
	case reflect.Map:
		if v.IsNil() {
			w.snap(path, "nil")
			w.Ignored["nil"]++
			return
		}
		p := v.Pointer()
		w.Regions = append(w.Regions, Region{p, p + 8, "map", path, t.String(), !isHeap(p)})
		if isHeap(p) {
			w.Maps = append(w.Maps, mapRef{path, v})
		}
		type kv struct {
			ks   string
			k, v reflect.Value
		}
		var kvs []kv
		it := v.MapRange()
		for it.Next() {
			kvs = append(kvs, kv{fmt.Sprintf("%v", it.Key().Interface()), it.Key(), it.Value()})
		}
		sort.Slice(kvs, func(i, j int) bool { return kvs[i].ks < kvs[j].ks })
		w.snap(path, fmt.Sprintf("map len=%d", len(kvs)))
		for _, e := range kvs {
			kp := fmt.Sprintf("%s[%s]", path, short(e.ks))
			w.walk(addressable(e.k), kp+"#key", false)
			w.walk(addressable(e.v), kp, false)
		}
	case reflect.Func:
		w.Ignored["func"]++
	case reflect.Chan:
		w.Ignored["chan"]++
	case reflect.UnsafePointer:
		w.Ignored["unsafe.Pointer"]++
	default:
		w.Ignored["kind:"+v.Kind().String()]++
	}
}

func short(s string) string {
	if len(s) > 14 {
		return s[:6] + ".." + s[len(s)-4:]
	}

	return s
}

func (w *Walk) leaf(v reflect.Value, path string, mutable bool) {
	if !mutable {
		return
	}
	if !v.CanAddr() {
		return
	}
	a := v.UnsafeAddr()
	if !isHeap(a) {
		w.Ignored["static-leaf"]++
		return
	}
	w.Leaves = append(w.Leaves, Leaf{path, a, v.Type().Size(), v, false})
}

func (w *Walk) bytesLeaves(v reflect.Value, path string, mutable bool) {
	if !mutable || v.Len() == 0 {
		return
	}
	e := v.Index(0)
	if !e.CanAddr() {
		return
	}
	a := e.UnsafeAddr()
	if !isHeap(a) {
		w.Ignored["static-leaf"]++
		return
	}
	w.Leaves = append(w.Leaves, Leaf{path, a, uintptr(v.Len()), v, true})
}

// Overlap is a pair of intersecting regions of two walks.
type Overlap struct {
	A, B   Region
	Static bool
}

// Intersect returns the overlapping region pairs of two walks (heap first).
func Intersect(a, b *Walk) []Overlap {
	var out []Overlap
	if len(a.Regions) == 0 || len(b.Regions) == 0 {
		return nil
	}
	bs := append([]Region(nil), b.Regions...)
	sort.Slice(bs, func(i, j int) bool { return bs[i].Lo < bs[j].Lo })
	// prefix maximum of Hi so that candidates can be cut off
	for _, ra := range a.Regions {
		// all rb with rb.Lo < ra.Hi and rb.Hi > ra.Lo
		n := sort.Search(len(bs), func(i int) bool { return bs[i].Lo >= ra.Hi })
		for i := n - 1; i >= 0; i-- {
			rb := bs[i]
			if rb.Hi > ra.Lo {
				out = append(out, Overlap{ra, rb, ra.Static || rb.Static})
			}
			if rb.Lo < ra.Lo && ra.Lo-rb.Lo > 1<<26 { // no region here is larger than 64 MiB
				break
			}
		}
	}
	sort.SliceStable(out, func(i, j int) bool { return !out[i].Static && out[j].Static })

	return out
}

// Mutate changes every mutable leaf reachable from the walked value (flip the low bit of bytes
// and integers, negate booleans, perturb floats, append to strings) and deletes the first entry
// of every map. It returns the number of cells changed.
func (w *Walk) Mutate() int {
	n := 0
	// The same cell can be reachable along several paths (sharing inside the value): change every
	// byte once, or a second flip would undo the first.
	ls := append([]Leaf(nil), w.Leaves...)
	sort.SliceStable(ls, func(i, j int) bool {
		if ls[i].Addr != ls[j].Addr {
			return ls[i].Addr < ls[j].Addr
		}

		return ls[i].Size > ls[j].Size
	})
	var done uintptr // every byte below done has been changed
	for _, l := range ls {
		if l.Run {
			b := unsafe.Slice((*byte)(l.V.Index(0).Addr().UnsafePointer()), int(l.Size))
			from := 0
			if done > l.Addr {
				from = int(done - l.Addr)
			}
			for i := from; i < len(b); i++ {
				b[i] ^= 1
				n++
			}
		} else if l.Addr >= done && mutateLeaf(l.V) {
			n++
		} else {
			continue
		}
		if l.Addr+l.Size > done {
			done = l.Addr + l.Size
		}
	}
	for _, m := range w.Maps {
		keys := m.V.MapKeys()
		if len(keys) == 0 {
			continue
		}
		sort.Slice(keys, func(i, j int) bool {
			return fmt.Sprintf("%v", keys[i].Interface()) < fmt.Sprintf("%v", keys[j].Interface())
		})
		m.V.SetMapIndex(keys[0], reflect.Value{})
		n++
	}

	return n
}

// MutateBytes changes only the byte runs (signatures, roots, bit lists, ...): the value stays
// structurally valid (version tags, lengths and indices are untouched), so that a component that
// still reads it can complete whatever it is doing. Falls back to Mutate if there is no byte run.
func (w *Walk) MutateBytes() int {
	var runs, arrays []Leaf
	for _, l := range w.Leaves {
		if l.Run {
			runs = append(runs, l)
			if l.V.Kind() == reflect.Array { // fixed-size byte arrays carry no length or sentinel encoding
				arrays = append(arrays, l)
			}
		}
	}
	if len(arrays) > 0 {
		runs = arrays
	}
	if len(runs) == 0 {
		return w.Mutate()
	}
	sub := &Walk{Leaves: runs}

	return sub.Mutate()
}

func mutateLeaf(v reflect.Value) bool {
	switch v.Kind() {
	case reflect.Bool:
		v.SetBool(!v.Bool())
	case reflect.Int, reflect.Int8, reflect.Int16, reflect.Int32, reflect.Int64:
		v.SetInt(v.Int() ^ 1)
	case reflect.Uint, reflect.Uint8, reflect.Uint16, reflect.Uint32, reflect.Uint64, reflect.Uintptr:
		v.SetUint(v.Uint() ^ 1)
	case reflect.Float32, reflect.Float64:
		v.SetFloat(v.Float() + 1)
	case reflect.Complex64, reflect.Complex128:
		v.SetComplex(v.Complex() + 1)
	case reflect.String:
		v.SetString(v.String() + "~")
	default:
		return false
	}

	return true
}

// LeafIn returns the first mutable leaf of w whose address lies in one of the heap regions of o.
func (w *Walk) LeafIn(o *Walk) (Leaf, Region, bool) {
	rs := append([]Region(nil), o.Regions...)
	sort.Slice(rs, func(i, j int) bool { return rs[i].Lo < rs[j].Lo })
	for _, l := range w.Leaves {
		for _, r := range rs {
			if r.Static {
				continue
			}
			if l.Addr < r.Hi && l.Addr+l.Size > r.Lo {
				if l.Run {
					off := uintptr(0)
					if r.Lo > l.Addr {
						off = r.Lo - l.Addr
					}
					l.Path = fmt.Sprintf("%s[%d]", l.Path, off)
				}

				return l, r, true
			}
		}
	}

	return Leaf{}, Region{}, false
}

// Diff returns the first difference between two snapshots ("" if equal).
func Diff(a, b []Entry) string {
	for i := 0; i < len(a) && i < len(b); i++ {
		if a[i] != b[i] {
			if a[i].Path == b[i].Path {
				return fmt.Sprintf("%s: %s -> %s", a[i].Path, clip(a[i].Val), clip(b[i].Val))
			}

			return fmt.Sprintf("%s=%s -> %s=%s", a[i].Path, clip(a[i].Val), b[i].Path, clip(b[i].Val))
		}
	}
	if len(a) != len(b) {
		return fmt.Sprintf("snapshot length %d -> %d", len(a), len(b))
	}

	return ""
}

func clip(s string) string {
	if len(s) > 40 {
		return s[:18] + ".." + s[len(s)-18:]
	}

	return s
}

// Snapshot walks x and returns only its snapshot.
func Snapshot(x any) []Entry { return WalkValue(x).Snap }

// IgnoredSummary renders an Ignored map deterministically.
func IgnoredSummary(m map[string]int) string {
	var ks []string
	for k := range m {
		ks = append(ks, k)
	}
	sort.Strings(ks)
	var sb strings.Builder
	for _, k := range ks {
		fmt.Fprintf(&sb, "%s=%d ", k, m[k])
	}

	return strings.TrimSpace(sb.String())
}
