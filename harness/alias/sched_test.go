package alias

import (
	"context"
	"encoding/binary"
	"fmt"
	"sync"
	"testing"
	"testing/synctest"
	"time"

	eth2api "github.com/attestantio/go-eth2-client/api"
	eth2v1 "github.com/attestantio/go-eth2-client/api/v1"
	eth2p0 "github.com/attestantio/go-eth2-client/spec/phase0"

	"github.com/obolnetwork/charon/app/eth2wrap"
	"github.com/obolnetwork/charon/app/featureset"
	"github.com/obolnetwork/charon/core"
	"github.com/obolnetwork/charon/core/scheduler"
)

// ---------------------------------------------------------------------------------------------
// scheduler
//
// The beacon node is an in-process eth2wrap.Client (embedded interface nil: a method the scheduler
// is not expected to call panics loudly); testutil/beaconmock is not used here because its HTTP
// server goroutines never become durably blocked inside a synctest bubble.

const (
	schedSPE     = 4
	schedSlotDur = 12 * time.Second
)

type schedBN struct {
	eth2wrap.Client

	genesis time.Time
	mu      sync.Mutex
	ret     map[core.DutyType][]any // duty objects handed to the scheduler, by the duty type they become
}

func schedPK(i uint64) (b eth2p0.BLSPubKey) {
	b[0] = 0x80 | byte(i+1)
	binary.BigEndian.PutUint64(b[40:], i+7)

	return b
}

func (b *schedBN) Genesis(context.Context, *eth2api.GenesisOpts) (*eth2api.Response[*eth2v1.Genesis], error) {
	return &eth2api.Response[*eth2v1.Genesis]{Data: &eth2v1.Genesis{GenesisTime: b.genesis}}, nil
}

func (b *schedBN) NodeSyncing(context.Context, *eth2api.NodeSyncingOpts) (*eth2api.Response[*eth2v1.SyncState], error) {
	return &eth2api.Response[*eth2v1.SyncState]{Data: &eth2v1.SyncState{IsSyncing: false}}, nil
}

func (b *schedBN) Spec(context.Context, *eth2api.SpecOpts) (*eth2api.Response[map[string]any], error) {
	return &eth2api.Response[map[string]any]{Data: map[string]any{
		"SECONDS_PER_SLOT": schedSlotDur,
		"SLOTS_PER_EPOCH":  uint64(schedSPE),
	}}, nil
}

func (b *schedBN) CompleteValidators(context.Context) (eth2wrap.CompleteValidators, error) {
	resp := make(eth2wrap.CompleteValidators)
	for i := uint64(0); i < 2; i++ {
		resp[eth2p0.ValidatorIndex(i)] = &eth2v1.Validator{
			Index: eth2p0.ValidatorIndex(i), Status: eth2v1.ValidatorStateActiveOngoing,
			Validator: &eth2p0.Validator{PublicKey: schedPK(i), ExitEpoch: 1 << 40},
		}
	}

	return resp, nil
}

func (b *schedBN) note(t core.DutyType, v any) {
	b.mu.Lock()
	defer b.mu.Unlock()
	b.ret[t] = append(b.ret[t], v)
}

func (b *schedBN) AttesterDutiesCache(_ context.Context, epoch eth2p0.Epoch, vidxs []eth2p0.ValidatorIndex) (eth2wrap.AttesterDutyWithMeta, error) {
	var resp []*eth2v1.AttesterDuty
	for _, v := range vidxs {
		// both validators attest in the same slot and committee
		d := &eth2v1.AttesterDuty{
			PubKey: schedPK(uint64(v)), Slot: eth2p0.Slot(uint64(epoch)*schedSPE + 2), ValidatorIndex: v,
			CommitteeIndex: 5, CommitteeLength: 8, CommitteesAtSlot: 4, ValidatorCommitteeIndex: uint64(v),
		}
		resp = append(resp, d)
	}
	b.note(core.DutyAttester, resp)
	b.note(core.DutyAggregator, resp)

	return eth2wrap.AttesterDutyWithMeta{Duties: resp, Metadata: map[string]any{"dependent_root": "0x01"}}, nil
}

func (b *schedBN) ProposerDutiesCache(_ context.Context, epoch eth2p0.Epoch, _ []eth2p0.ValidatorIndex) (eth2wrap.ProposerDutyWithMeta, error) {
	resp := []*eth2v1.ProposerDuty{{PubKey: schedPK(1), Slot: eth2p0.Slot(uint64(epoch)*schedSPE + 1), ValidatorIndex: 1}}
	b.note(core.DutyProposer, resp)

	return eth2wrap.ProposerDutyWithMeta{Duties: resp}, nil
}

func (b *schedBN) SyncCommDutiesCache(_ context.Context, _ eth2p0.Epoch, vidxs []eth2p0.ValidatorIndex) (eth2wrap.SyncDutyWithMeta, error) {
	var resp []*eth2v1.SyncCommitteeDuty
	for _, v := range vidxs {
		resp = append(resp, &eth2v1.SyncCommitteeDuty{PubKey: schedPK(uint64(v)), ValidatorIndex: v,
			ValidatorSyncCommitteeIndices: []eth2p0.CommitteeIndex{eth2p0.CommitteeIndex(v), 130, 131}})
	}
	b.note(core.DutySyncContribution, resp)

	return eth2wrap.SyncDutyWithMeta{Duties: resp}, nil
}

type schedEvent struct {
	duty core.Duty
	set  core.DutyDefinitionSet
}

type schedRun struct {
	sched *scheduler.Scheduler
	bn    *schedBN
	subs  [][]schedEvent
}

func defKindName(t core.DutyType) string {
	switch t {
	case core.DutyAttester, core.DutyAggregator:
		return "AttesterDefinition(" + t.String() + ")"
	case core.DutyProposer:
		return "ProposerDefinition"
	case core.DutySyncContribution:
		return "SyncCommitteeDefinition"
	}

	return "definition(" + t.String() + ")"
}

func probeScheduler(t *testing.T) {
	t.Helper()
	types := []core.DutyType{core.DutyAttester, core.DutyAggregator, core.DutyProposer, core.DutySyncContribution}
	type pick func(r *schedRun, ty core.DutyType) (string, string, Named, []Named, []Reread, bool)
	find := func(r *schedRun, i int, ty core.DutyType) (schedEvent, bool) {
		for _, e := range r.subs[i] {
			if e.duty.Type == ty && e.duty.Slot >= schedSPE { // an epoch resolved as a whole
				return e, true
			}
		}

		return schedEvent{}, false
	}
	picks := []pick{
		func(r *schedRun, ty core.DutyType) (string, string, Named, []Named, []Reread, bool) {
			e1, ok1 := find(r, 0, ty)
			e2, ok2 := find(r, 1, ty)
			if !ok1 || !ok2 || e1.duty != e2.duty {
				return "", "", Named{}, nil, nil, false
			}
			q := func() (any, error) { return r.sched.GetDutyDefinition(t.Context(), e1.duty) }

			return "scheduler.dutySubscriber|dutySubscriber", "sibling", Named{"duty subscriber 1 set", e1.set},
				[]Named{{"duty subscriber 2 set", e2.set}}, []Reread{{"GetDutyDefinition", q}}, true
		},
		func(r *schedRun, ty core.DutyType) (string, string, Named, []Named, []Reread, bool) {
			e1, ok1 := find(r, 0, ty)
			if !ok1 {
				return "", "", Named{}, nil, nil, false
			}
			q := func() (any, error) { return r.sched.GetDutyDefinition(t.Context(), e1.duty) }
			g1, err1 := q()
			g2, err2 := q()
			if err1 != nil || err2 != nil {
				skip("scheduler %s: GetDutyDefinition fails: %v %v", ty, err1, err2)
				return "", "", Named{}, nil, nil, false
			}

			return "scheduler.GetDutyDefinition|GetDutyDefinition", "sibling", Named{"GetDutyDefinition first result", g1},
				[]Named{{"GetDutyDefinition second result", g2}, {"duty subscriber 1 set", e1.set}}, []Reread{{"GetDutyDefinition", q}}, true
		},
		func(r *schedRun, ty core.DutyType) (string, string, Named, []Named, []Reread, bool) {
			e1, ok1 := find(r, 0, ty)
			e2, ok2 := find(r, 1, ty)
			if !ok1 || !ok2 {
				return "", "", Named{}, nil, nil, false
			}
			q := func() (any, error) { return r.sched.GetDutyDefinition(t.Context(), e1.duty) }
			r.bn.mu.Lock()
			ret := append([]any(nil), r.bn.ret[ty]...)
			r.bn.mu.Unlock()

			return "scheduler.resolve(eth2 client answer)>dutySubscriber,GetDutyDefinition", "direct", Named{"duties returned by the eth2 client", ret},
				[]Named{{"duty subscriber 1 set", e1.set}, {"duty subscriber 2 set", e2.set}}, []Reread{{"GetDutyDefinition", q}}, true
		},
		func(r *schedRun, ty core.DutyType) (string, string, Named, []Named, []Reread, bool) {
			e1, ok1 := find(r, 0, ty)
			if !ok1 || len(e1.set) < 2 {
				return "", "", Named{}, nil, nil, false
			}
			var es []Named
			for pk, d := range e1.set {
				es = append(es, Named{"duty subscriber 1 entry of " + short(string(pk)), d})
			}

			return "scheduler.dutySubscriber(validator A entry|validator B entry)", "sibling", es[0], es[1:], nil, true
		},
	}
	type layPick struct {
		n int
		p pick
	}
	var all []layPick
	for _, p := range picks {
		all = append(all, layPick{2, p})
	}
	for _, lay := range subLayouts {
		n, pos := lay[0], lay[1]
		all = append(all, layPick{n, func(r *schedRun, ty core.DutyType) (string, string, Named, []Named, []Reread, bool) {
			e, ok := find(r, pos, ty)
			if !ok {
				return "", "", Named{}, nil, nil, false
			}
			var held []Named
			for i := range r.subs {
				if o, ok := find(r, i, ty); ok && i != pos && o.duty == e.duty {
					held = append(held, Named{fmt.Sprintf("duty subscriber %d set", i+1), o.set})
				}
			}
			rr := []Reread{{"GetDutyDefinition", func() (any, error) { return r.sched.GetDutyDefinition(t.Context(), e.duty) }}}
			if ty == core.DutySyncContribution {
				// the same stored definition serves every later slot of the epoch
				next := core.Duty{Slot: e.duty.Slot + 1, Type: ty}
				rr = append(rr, Reread{"GetDutyDefinition(next slot)", func() (any, error) {
					set, err := r.sched.GetDutyDefinition(t.Context(), next)
					return map[string]any{"set": set, "result": errStr(err)}, nil
				}})
			}

			return "scheduler.dutySubscriber[" + posName(n, pos) + "]|everybody else", "sibling",
				Named{"duty subscriber set (" + posName(n, pos) + ")", e.set}, held, rr, true
		}})
	}
	for _, ty := range types {
		for pi, lp := range all {
			p := lp.p
			rigSubs = lp.n
			bubble(t, "scheduler "+ty.String(), func(t *testing.T) {
				r := &schedRun{bn: &schedBN{genesis: time.Now().Add(-time.Second), ret: map[core.DutyType][]any{}}, subs: make([][]schedEvent, rigSubs)}
				s, err := scheduler.New(nil, r.bn, false)
				if err != nil {
					skip("scheduler: %v", err)
					return
				}
				r.sched = s
				var mu sync.Mutex
				for i := 0; i < rigSubs; i++ {
					s.SubscribeDuties(func(_ context.Context, d core.Duty, set core.DutyDefinitionSet) error {
						mu.Lock()
						defer mu.Unlock()
						r.subs[i] = append(r.subs[i], schedEvent{d, set})

						return nil
					})
				}
				done := make(chan error, 1)
				go func() { done <- s.Run() }()
				time.Sleep(2*schedSPE*schedSlotDur + schedSlotDur/2)
				synctest.Wait()
				mu.Lock()
				path, shape, a, held, rr, ok := p(r, ty)
				mu.Unlock()
				if ok {
					observe(path, defKindName(ty), shape, a, held, rr)
				} else if !(ty == core.DutyProposer && pi == len(picks)-1) { //nolint:gocritic // one proposer per slot: no second entry to compare
					skip("scheduler %s: probe %d found no triggered duty of this type observed by both subscribers", ty, pi)
				}
				s.Stop()
				synctest.Wait()
				select {
				case <-done:
				default:
					skip("scheduler: Run did not return after Stop")
				}
			})
			rigSubs = 2
		}
	}
}

// probeSchedulerHeadEvent covers the early-fetch hand-over: on an SSE head event the scheduler gives
// the attester definitions of the slot to the fetcher's FetchOnly function.
func probeSchedulerHeadEvent(t *testing.T) {
	t.Helper()
	bubble(t, "scheduler head event", func(t *testing.T) {
		featureset.EnableForT(t, featureset.FetchAttOnBlock)
		r := &schedRun{bn: &schedBN{genesis: time.Now().Add(-time.Second), ret: map[core.DutyType][]any{}}, subs: make([][]schedEvent, 1)}
		s, err := scheduler.New(nil, r.bn, false)
		if err != nil {
			skip("scheduler: %v", err)
			return
		}
		r.sched = s
		var (
			mu    sync.Mutex
			early []schedEvent
		)
		s.RegisterFetcherFetchOnly(func(_ context.Context, d core.Duty, set core.DutyDefinitionSet, _ string, _ eth2p0.Root) error {
			mu.Lock()
			defer mu.Unlock()
			early = append(early, schedEvent{d, set})

			return nil
		})
		s.SubscribeDuties(func(_ context.Context, d core.Duty, set core.DutyDefinitionSet) error {
			mu.Lock()
			defer mu.Unlock()
			r.subs[0] = append(r.subs[0], schedEvent{d, set})

			return nil
		})
		done := make(chan error, 1)
		go func() { done <- s.Run() }()
		time.Sleep(schedSPE*schedSlotDur + 2*schedSlotDur + time.Second) // inside slot 6, the attester slot of epoch 1
		synctest.Wait()
		s.HandleHeadEvent(t.Context(), schedSPE+2, eth2p0.Root{1}, "bn")
		synctest.Wait()
		time.Sleep(2 * schedSlotDur)
		synctest.Wait()
		duty := core.NewAttesterDuty(schedSPE + 2)
		mu.Lock()
		var sub *schedEvent
		for i := range r.subs[0] {
			if r.subs[0][i].duty == duty {
				sub = &r.subs[0][i]
			}
		}
		ok := len(early) == 1 && early[0].duty == duty && sub != nil
		mu.Unlock()
		if ok {
			q := func() (any, error) { return r.sched.GetDutyDefinition(t.Context(), duty) }
			observe("scheduler.HandleHeadEvent>fetcher.FetchOnly|dutySubscriber", "AttesterDefinition(attester)", "sibling",
				Named{"FetchOnly duty definition set", early[0].set}, []Named{{"duty subscriber set", sub.set}}, []Reread{{"GetDutyDefinition", q}})
		} else {
			skip("scheduler head event: FetchOnly called %d times, duty subscriber reached: %v", len(early), sub != nil)
		}
		s.Stop()
		synctest.Wait()
		select {
		case <-done:
		default:
			skip("scheduler: Run did not return after Stop")
		}
	})
}
