package alias

// Generators of every value type that flows through the core workflow, for every fork version the
// eth2 client library models, built with the exported constructors of core and testutil only.

import (
	"math/big"
	"testing"

	eth2api "github.com/attestantio/go-eth2-client/api"
	eth2v1 "github.com/attestantio/go-eth2-client/api/v1"
	eth2bellatrix "github.com/attestantio/go-eth2-client/api/v1/bellatrix"
	eth2capella "github.com/attestantio/go-eth2-client/api/v1/capella"
	eth2deneb "github.com/attestantio/go-eth2-client/api/v1/deneb"
	eth2electra "github.com/attestantio/go-eth2-client/api/v1/electra"
	eth2fulu "github.com/attestantio/go-eth2-client/api/v1/fulu"
	eth2spec "github.com/attestantio/go-eth2-client/spec"
	"github.com/attestantio/go-eth2-client/spec/altair"
	"github.com/attestantio/go-eth2-client/spec/bellatrix"
	"github.com/attestantio/go-eth2-client/spec/capella"
	"github.com/attestantio/go-eth2-client/spec/deneb"
	"github.com/attestantio/go-eth2-client/spec/electra"
	eth2p0 "github.com/attestantio/go-eth2-client/spec/phase0"

	"github.com/obolnetwork/charon/core"
	"github.com/obolnetwork/charon/testutil"
)

var allVersions = []eth2spec.DataVersion{
	eth2spec.DataVersionPhase0, eth2spec.DataVersionAltair, eth2spec.DataVersionBellatrix, eth2spec.DataVersionCapella,
	eth2spec.DataVersionDeneb, eth2spec.DataVersionElectra, eth2spec.DataVersionFulu,
}

// UKind is one kind of core.UnsignedData.
type UKind struct {
	Name string
	Duty core.DutyType
	Rep  bool // part of the quick tier (one representative per kind)
	New  func(t *testing.T, slot uint64) (core.UnsignedData, error)
}

// SKind is one kind of core.SignedData.
type SKind struct {
	Name string
	Duty core.DutyType
	Rep  bool
	New  func(t *testing.T, slot uint64) (core.SignedData, error)
}

// DKind is one kind of core.DutyDefinition.
type DKind struct {
	Name string
	Duty core.DutyType
	New  func(t *testing.T, slot uint64) core.DutyDefinition
}

func blobs() ([]deneb.KZGProof, []deneb.Blob) {
	var p deneb.KZGProof
	copy(p[:], testutil.RandomBytes48())
	var b deneb.Blob
	copy(b[:], testutil.RandomBytes32())
	copy(b[len(b)-32:], testutil.RandomBytes32())

	return []deneb.KZGProof{p}, []deneb.Blob{b}
}

// rawProposal builds an unsigned versioned proposal of the given version.
func rawProposal(v eth2spec.DataVersion, blinded bool, slot uint64) *eth2api.VersionedProposal {
	p := &eth2api.VersionedProposal{Version: v, Blinded: blinded, ConsensusValue: big.NewInt(12345), ExecutionValue: big.NewInt(67890)}
	s := eth2p0.Slot(slot)
	switch v {
	case eth2spec.DataVersionPhase0:
		p.Phase0 = testutil.RandomPhase0BeaconBlock()
		p.Phase0.Slot = s
	case eth2spec.DataVersionAltair:
		p.Altair = testutil.RandomAltairBeaconBlock()
		p.Altair.Slot = s
	case eth2spec.DataVersionBellatrix:
		if blinded {
			p.BellatrixBlinded = testutil.RandomBellatrixBlindedBeaconBlock()
			p.BellatrixBlinded.Slot = s
		} else {
			p.Bellatrix = testutil.RandomBellatrixBeaconBlock()
			p.Bellatrix.Slot = s
		}
	case eth2spec.DataVersionCapella:
		if blinded {
			p.CapellaBlinded = testutil.RandomCapellaBlindedBeaconBlock()
			p.CapellaBlinded.Slot = s
		} else {
			p.Capella = testutil.RandomCapellaBeaconBlock()
			p.Capella.Slot = s
		}
	case eth2spec.DataVersionDeneb:
		if blinded {
			p.DenebBlinded = testutil.RandomDenebBlindedBeaconBlock()
			p.DenebBlinded.Slot = s
		} else {
			kp, bl := blobs()
			p.Deneb = &eth2deneb.BlockContents{Block: testutil.RandomDenebBeaconBlock(), KZGProofs: kp, Blobs: bl}
			p.Deneb.Block.Slot = s
		}
	case eth2spec.DataVersionElectra:
		if blinded {
			p.ElectraBlinded = testutil.RandomElectraBlindedBeaconBlock()
			p.ElectraBlinded.Slot = s
		} else {
			kp, bl := blobs()
			p.Electra = &eth2electra.BlockContents{Block: testutil.RandomElectraBeaconBlock(), KZGProofs: kp, Blobs: bl}
			p.Electra.Block.Slot = s
		}
	case eth2spec.DataVersionFulu:
		if blinded {
			p.FuluBlinded = testutil.RandomElectraBlindedBeaconBlock()
			p.FuluBlinded.Slot = s
		} else {
			kp, bl := blobs()
			p.Fulu = &eth2fulu.BlockContents{Block: testutil.RandomElectraBeaconBlock(), KZGProofs: kp, Blobs: bl}
			p.Fulu.Block.Slot = s
		}
	}

	return p
}

// rawSignedProposal builds a signed versioned proposal of the given version from an unsigned one.
func rawSignedProposal(v eth2spec.DataVersion, blinded bool, slot uint64) *eth2api.VersionedSignedProposal {
	u := rawProposal(v, blinded, slot)
	sig := testutil.RandomEth2Signature()
	p := &eth2api.VersionedSignedProposal{Version: v, Blinded: blinded, ConsensusValue: big.NewInt(12345), ExecutionValue: big.NewInt(67890)}
	switch v {
	case eth2spec.DataVersionPhase0:
		p.Phase0 = &eth2p0.SignedBeaconBlock{Message: u.Phase0, Signature: sig}
	case eth2spec.DataVersionAltair:
		p.Altair = &altair.SignedBeaconBlock{Message: u.Altair, Signature: sig}
	case eth2spec.DataVersionBellatrix:
		if blinded {
			p.BellatrixBlinded = &eth2bellatrix.SignedBlindedBeaconBlock{Message: u.BellatrixBlinded, Signature: sig}
		} else {
			p.Bellatrix = &bellatrix.SignedBeaconBlock{Message: u.Bellatrix, Signature: sig}
		}
	case eth2spec.DataVersionCapella:
		if blinded {
			p.CapellaBlinded = &eth2capella.SignedBlindedBeaconBlock{Message: u.CapellaBlinded, Signature: sig}
		} else {
			p.Capella = &capella.SignedBeaconBlock{Message: u.Capella, Signature: sig}
		}
	case eth2spec.DataVersionDeneb:
		if blinded {
			p.DenebBlinded = &eth2deneb.SignedBlindedBeaconBlock{Message: u.DenebBlinded, Signature: sig}
		} else {
			p.Deneb = &eth2deneb.SignedBlockContents{SignedBlock: &deneb.SignedBeaconBlock{Message: u.Deneb.Block, Signature: sig}, KZGProofs: u.Deneb.KZGProofs, Blobs: u.Deneb.Blobs}
		}
	case eth2spec.DataVersionElectra:
		if blinded {
			p.ElectraBlinded = &eth2electra.SignedBlindedBeaconBlock{Message: u.ElectraBlinded, Signature: sig}
		} else {
			p.Electra = &eth2electra.SignedBlockContents{SignedBlock: &electra.SignedBeaconBlock{Message: u.Electra.Block, Signature: sig}, KZGProofs: u.Electra.KZGProofs, Blobs: u.Electra.Blobs}
		}
	case eth2spec.DataVersionFulu:
		if blinded {
			p.FuluBlinded = &eth2electra.SignedBlindedBeaconBlock{Message: u.FuluBlinded, Signature: sig}
		} else {
			p.Fulu = &eth2fulu.SignedBlockContents{SignedBlock: &electra.SignedBeaconBlock{Message: u.Fulu.Block, Signature: sig}, KZGProofs: u.Fulu.KZGProofs, Blobs: u.Fulu.Blobs}
		}
	}

	return p
}

// rawAttestation builds a versioned attestation (single attester: one aggregation bit).
func rawAttestation(v eth2spec.DataVersion, slot uint64, aggregate bool) *eth2spec.VersionedAttestation {
	a := &eth2spec.VersionedAttestation{Version: v}
	vidx := testutil.RandomVIdx()
	a.ValidatorIndex = &vidx
	p0 := func() *eth2p0.Attestation {
		x := testutil.RandomPhase0Attestation()
		if aggregate {
			x = testutil.RandomAggregateAttestation()
		}
		x.Data.Slot = eth2p0.Slot(slot)

		return x
	}
	el := func() *electra.Attestation {
		x := testutil.RandomElectraAttestation()
		x.Data.Slot = eth2p0.Slot(slot)
		x.Data.Index = 0

		return x
	}
	switch v {
	case eth2spec.DataVersionPhase0:
		a.Phase0 = p0()
	case eth2spec.DataVersionAltair:
		a.Altair = p0()
	case eth2spec.DataVersionBellatrix:
		a.Bellatrix = p0()
	case eth2spec.DataVersionCapella:
		a.Capella = p0()
	case eth2spec.DataVersionDeneb:
		a.Deneb = p0()
	case eth2spec.DataVersionElectra:
		a.Electra = el()
	case eth2spec.DataVersionFulu:
		a.Fulu = el()
	}

	return a
}

func rawAggAndProof(v eth2spec.DataVersion, slot uint64) *eth2spec.VersionedSignedAggregateAndProof {
	a := &eth2spec.VersionedSignedAggregateAndProof{Version: v}
	p0 := func() *eth2p0.SignedAggregateAndProof {
		x := testutil.RandomSignedAggregateAndProof()
		x.Message.Aggregate.Data.Slot = eth2p0.Slot(slot)

		return x
	}
	el := func() *electra.SignedAggregateAndProof {
		x := &electra.SignedAggregateAndProof{
			Message: &electra.AggregateAndProof{
				AggregatorIndex: testutil.RandomVIdx(),
				Aggregate:       testutil.RandomElectraAttestation(),
				SelectionProof:  testutil.RandomEth2Signature(),
			},
			Signature: testutil.RandomEth2Signature(),
		}
		x.Message.Aggregate.Data.Slot = eth2p0.Slot(slot)

		return x
	}
	switch v {
	case eth2spec.DataVersionPhase0:
		a.Phase0 = p0()
	case eth2spec.DataVersionAltair:
		a.Altair = p0()
	case eth2spec.DataVersionBellatrix:
		a.Bellatrix = p0()
	case eth2spec.DataVersionCapella:
		a.Capella = p0()
	case eth2spec.DataVersionDeneb:
		a.Deneb = p0()
	case eth2spec.DataVersionElectra:
		a.Electra = el()
	case eth2spec.DataVersionFulu:
		a.Fulu = el()
	}

	return a
}

func isRepVersion(v eth2spec.DataVersion) bool { return v == eth2spec.DataVersionElectra }

// UKinds returns the unsigned data kinds.
func UKinds() []UKind {
	var ks []UKind
	ks = append(ks, UKind{Name: "AttestationData", Duty: core.DutyAttester, Rep: true,
		New: func(t *testing.T, slot uint64) (core.UnsignedData, error) {
			a := testutil.RandomCoreAttestationData(t)
			a.Data.Slot = eth2p0.Slot(slot)
			a.Duty.Slot = eth2p0.Slot(slot)
			if a.Duty.CommitteeIndex == 0 {
				a.Duty.CommitteeIndex = 3
			}
			a.Data.Index = a.Duty.CommitteeIndex

			return a, nil
		}})
	for _, v := range allVersions {
		for _, bl := range []bool{false, true} {
			if bl && v < eth2spec.DataVersionBellatrix {
				continue
			}
			name := "VersionedProposal/" + v.String()
			if bl {
				name += "/blinded"
			}
			ks = append(ks, UKind{Name: name, Duty: core.DutyProposer, Rep: v == eth2spec.DataVersionElectra || (bl && v == eth2spec.DataVersionDeneb),
				New: func(_ *testing.T, slot uint64) (core.UnsignedData, error) {
					return core.NewVersionedProposal(rawProposal(v, bl, slot))
				}})
		}
	}
	for _, v := range allVersions {
		ks = append(ks, UKind{Name: "VersionedAggregatedAttestation/" + v.String(), Duty: core.DutyAggregator, Rep: isRepVersion(v) || v == eth2spec.DataVersionDeneb,
			New: func(_ *testing.T, slot uint64) (core.UnsignedData, error) {
				a := rawAttestation(v, slot, true)
				a.ValidatorIndex = nil

				return core.NewVersionedAggregatedAttestation(a)
			}})
	}
	ks = append(ks, UKind{Name: "SyncContribution", Duty: core.DutySyncContribution, Rep: true,
		New: func(_ *testing.T, slot uint64) (core.UnsignedData, error) {
			c := testutil.RandomSyncCommitteeContribution()
			c.Slot = eth2p0.Slot(slot)

			return core.NewSyncContribution(c), nil
		}})
	ks = append(ks, UKind{Name: "SyncContributions", Duty: core.DutySyncContribution, Rep: true,
		New: func(_ *testing.T, slot uint64) (core.UnsignedData, error) {
			var cs core.SyncContributions
			for i := 0; i < 2; i++ {
				c := testutil.RandomSyncCommitteeContribution()
				c.Slot = eth2p0.Slot(slot)
				c.SubcommitteeIndex = uint64(i)
				cs = append(cs, core.NewSyncContribution(c))
			}

			return cs, nil
		}})

	return ks
}

// SKinds returns the signed data kinds.
func SKinds() []SKind {
	var ks []SKind
	ks = append(ks, SKind{Name: "Signature", Duty: core.DutySignature, Rep: true,
		New: func(*testing.T, uint64) (core.SignedData, error) { return testutil.RandomCoreSignature(), nil }})
	for _, v := range allVersions {
		ks = append(ks, SKind{Name: "VersionedAttestation/" + v.String(), Duty: core.DutyAttester, Rep: isRepVersion(v) || v == eth2spec.DataVersionDeneb,
			New: func(_ *testing.T, slot uint64) (core.SignedData, error) {
				return core.NewVersionedAttestation(rawAttestation(v, slot, false))
			}})
	}
	for _, v := range allVersions {
		for _, bl := range []bool{false, true} {
			if bl && v < eth2spec.DataVersionBellatrix {
				continue
			}
			name := "VersionedSignedProposal/" + v.String()
			if bl {
				name += "/blinded"
			}
			ks = append(ks, SKind{Name: name, Duty: core.DutyProposer, Rep: v == eth2spec.DataVersionElectra || (bl && v == eth2spec.DataVersionDeneb),
				New: func(_ *testing.T, slot uint64) (core.SignedData, error) {
					return core.NewVersionedSignedProposal(rawSignedProposal(v, bl, slot))
				}})
		}
	}
	ks = append(ks, SKind{Name: "SignedVoluntaryExit", Duty: core.DutyExit, Rep: true,
		New: func(*testing.T, uint64) (core.SignedData, error) {
			return core.NewSignedVoluntaryExit(testutil.RandomExit()), nil
		}})
	ks = append(ks, SKind{Name: "VersionedSignedValidatorRegistration/v1", Duty: core.DutyBuilderRegistration, Rep: true,
		New: func(t *testing.T, _ uint64) (core.SignedData, error) {
			return core.NewVersionedSignedValidatorRegistration(&eth2api.VersionedSignedValidatorRegistration{
				Version: eth2spec.BuilderVersionV1,
				V1:      &eth2v1.SignedValidatorRegistration{Message: testutil.RandomValidatorRegistration(t), Signature: testutil.RandomEth2Signature()},
			})
		}})
	ks = append(ks, SKind{Name: "SignedRandao", Duty: core.DutyRandao, Rep: true,
		New: func(_ *testing.T, slot uint64) (core.SignedData, error) {
			return core.NewSignedRandao(eth2p0.Epoch(slot/32), testutil.RandomEth2Signature()), nil
		}})
	ks = append(ks, SKind{Name: "BeaconCommitteeSelection", Duty: core.DutyPrepareAggregator, Rep: true,
		New: func(_ *testing.T, slot uint64) (core.SignedData, error) {
			s := testutil.RandomBeaconCommitteeSelection()
			s.Slot = eth2p0.Slot(slot)

			return core.NewBeaconCommitteeSelection(s), nil
		}})
	ks = append(ks, SKind{Name: "SyncCommitteeSelection", Duty: core.DutyPrepareSyncContribution, Rep: true,
		New: func(_ *testing.T, slot uint64) (core.SignedData, error) {
			s := testutil.RandomSyncCommitteeSelection()
			s.Slot = eth2p0.Slot(slot)

			return core.NewSyncCommitteeSelection(s), nil
		}})
	for _, v := range allVersions {
		ks = append(ks, SKind{Name: "VersionedSignedAggregateAndProof/" + v.String(), Duty: core.DutyAggregator, Rep: isRepVersion(v) || v == eth2spec.DataVersionDeneb,
			New: func(_ *testing.T, slot uint64) (core.SignedData, error) {
				return core.NewVersionedSignedAggregateAndProof(rawAggAndProof(v, slot)), nil
			}})
	}
	ks = append(ks, SKind{Name: "SignedAggregateAndProof(legacy)", Duty: core.DutyAggregator, Rep: false,
		New: func(_ *testing.T, slot uint64) (core.SignedData, error) {
			x := testutil.RandomSignedAggregateAndProof()
			x.Message.Aggregate.Data.Slot = eth2p0.Slot(slot)

			return core.NewSignedAggregateAndProof(x), nil
		}})
	ks = append(ks, SKind{Name: "SignedSyncMessage", Duty: core.DutySyncMessage, Rep: true,
		New: func(_ *testing.T, slot uint64) (core.SignedData, error) {
			m := testutil.RandomSyncCommitteeMessage()
			m.Slot = eth2p0.Slot(slot)

			return core.NewSignedSyncMessage(m), nil
		}})
	ks = append(ks, SKind{Name: "SyncContributionAndProof", Duty: core.DutySyncMessage, Rep: false,
		New: func(_ *testing.T, slot uint64) (core.SignedData, error) {
			c := testutil.RandomSyncContributionAndProof()
			c.Contribution.Slot = eth2p0.Slot(slot)

			return core.NewSyncContributionAndProof(c), nil
		}})
	ks = append(ks, SKind{Name: "SignedSyncContributionAndProof", Duty: core.DutySyncContribution, Rep: true,
		New: func(_ *testing.T, slot uint64) (core.SignedData, error) {
			c := testutil.RandomSignedSyncContributionAndProof()
			c.Message.Contribution.Slot = eth2p0.Slot(slot)

			return core.NewSignedSyncContributionAndProof(c), nil
		}})

	return ks
}

// DKinds returns the duty definition kinds.
func DKinds() []DKind {
	return []DKind{
		{Name: "AttesterDefinition", Duty: core.DutyAttester, New: func(t *testing.T, slot uint64) core.DutyDefinition {
			d := testutil.RandomAttestationDuty(t)
			d.Slot = eth2p0.Slot(slot)

			return core.NewAttesterDefinition(d)
		}},
		{Name: "ProposerDefinition", Duty: core.DutyProposer, New: func(t *testing.T, slot uint64) core.DutyDefinition {
			d := testutil.RandomProposerDuty(t)
			d.Slot = eth2p0.Slot(slot)

			return core.NewProposerDefinition(d)
		}},
		{Name: "SyncCommitteeDefinition", Duty: core.DutySyncContribution, New: func(t *testing.T, _ uint64) core.DutyDefinition {
			d := testutil.RandomSyncCommitteeDuty(t)
			d.ValidatorSyncCommitteeIndices = []eth2p0.CommitteeIndex{1, 130, 131}

			return core.NewSyncCommitteeDefinition(d)
		}},
	}
}
