package alias

import (
	"fmt"
	"sort"
	"strings"
	"sync"

	"github.com/obolnetwork/charon/core"
)

// Obs is one observation: value A was mutated everywhere, the values in Observers were intersected
// with A (addresses) and compared before/after (snapshots).
type Obs struct {
	Path      string `json:"path"`      // component boundary path, e.g. "dutydb.Store>AwaitAttestation"
	Type      string `json:"type"`      // value type (kind/version)
	Shape     string `json:"shape"`     // direct (A crossed the boundary and became the observer) | sibling (both came out of the same source)
	Mutated   string `json:"mutated"`   // what A is
	Observers string `json:"observers"` // what was compared
	Regions   int    `json:"regions"`   // heap regions reachable from A
	Leaves    int    `json:"leaves"`    // cells of A changed by the mutation
	Overlap   int    `json:"overlap"`   // number of heap region pairs shared between A and an observer
	OverlapAt string `json:"overlap_at"`
	Static    int    `json:"static"` // overlaps outside the heap (ignored)
	StaticAt  string `json:"static_at,omitempty"`
	Changed   bool   `json:"changed"` // an observer's snapshot changed after the mutation
	Hidden    bool   `json:"hidden"`  // the change was seen only in what the component answered afterwards (memory held inside the component)
	What      string `json:"what"`    // first difference
	Leaf      string `json:"leaf"`    // a leaf of A that lies in memory reachable from the observer
	Verdict   string `json:"verdict"` // clone | share
	Err       string `json:"err,omitempty"`
	Ignored   string `json:"ignored,omitempty"`
}

// Named is a named value.
type Named struct {
	Name string
	V    any
}

// Reread is a named query that is evaluated before and after the mutation.
type Reread struct {
	Name string
	F    func() (any, error)
}

var (
	obsMu     sync.Mutex
	allObs    []Obs
	skipped   []string
	ignoreAgg = map[string]int{}
)

func record(o Obs) {
	obsMu.Lock()
	defer obsMu.Unlock()
	allObs = append(allObs, o)
}

func skip(format string, args ...any) {
	obsMu.Lock()
	defer obsMu.Unlock()
	skipped = append(skipped, fmt.Sprintf(format, args...))
}

func safeCall(f func() (any, error)) (v any, err error) {
	defer func() {
		if r := recover(); r != nil {
			err = fmt.Errorf("panic: %v", r)
		}
	}()

	return f()
}

func snapOrErr(v any, err error) []Entry {
	if err != nil {
		return []Entry{{"<error>", "error"}}
	}

	return Snapshot(v)
}

// observe runs one probe and records the observation.
func observe(path, typ, shape string, a Named, held []Named, rereads []Reread) Obs {
	o := Obs{Path: path, Type: typ, Shape: shape, Mutated: a.Name}
	wa := WalkValue(a.V)
	o.Regions = 0
	for _, r := range wa.Regions {
		if !r.Static {
			o.Regions++
		}
	}
	var names []string
	type before struct {
		name string
		snap []Entry
	}
	var heldBefore []before
	noteOverlap := func(name string, wb *Walk) {
		for _, ov := range Intersect(wa, wb) {
			if ov.Static {
				o.Static++
				if o.StaticAt == "" {
					o.StaticAt = fmt.Sprintf("%s%s ~ %s%s (%s)", a.Name, ov.A.Path, name, ov.B.Path, ov.A.Type)
				}

				continue
			}
			o.Overlap++
			if o.OverlapAt == "" {
				o.OverlapAt = fmt.Sprintf("%s%s [%s %s] ~ %s%s [%s %s]", a.Name, ov.A.Path, ov.A.Kind, ov.A.Type, name, ov.B.Path, ov.B.Kind, ov.B.Type)
			}
		}
		if o.Leaf == "" {
			if l, r, ok := wa.LeafIn(wb); ok {
				o.Leaf = fmt.Sprintf("%s%s (inside %s%s)", a.Name, l.Path, name, r.Path)
			}
		}
	}
	for _, h := range held {
		wb := WalkValue(h.V)
		noteOverlap(h.Name, wb)
		heldBefore = append(heldBefore, before{h.Name, wb.Snap})
		names = append(names, h.Name)
	}
	var rrBefore []before
	for _, r := range rereads {
		v, err := safeCall(r.F)
		if err != nil {
			o.Err = fmt.Sprintf("%s before mutation: %v", r.Name, err)
			rrBefore = append(rrBefore, before{r.Name, snapOrErr(nil, err)})
		} else {
			wb := WalkValue(v)
			noteOverlap(r.Name, wb)
			rrBefore = append(rrBefore, before{r.Name, wb.Snap})
		}
		names = append(names, r.Name+" (queried again)")
	}
	sort.Strings(names)
	o.Observers = fmt.Sprint(names)

	o.Leaves = wa.Mutate()

	for i, h := range held {
		if d := Diff(heldBefore[i].snap, Snapshot(h.V)); d != "" && !o.Changed {
			o.Changed = true
			o.What = h.Name + d
		}
	}
	for i, r := range rereads {
		v, err := safeCall(r.F)
		after := snapOrErr(v, err)
		if d := Diff(rrBefore[i].snap, after); d != "" && !o.Changed {
			o.Changed = true
			o.Hidden = true
			o.What = r.Name + " (queried again)" + d
			if err != nil {
				o.What += fmt.Sprintf(" [%v]", err)
			}
		}
	}
	o.Verdict = "clone"
	if o.Overlap > 0 || o.Changed {
		o.Verdict = "share"
	}
	if o.Changed && o.Leaf == "" {
		o.Leaf = guessLeaf(a.Name, wa, o.What)
	}
	o.Ignored = IgnoredSummary(wa.Ignored)
	obsMu.Lock()
	for k, n := range wa.Ignored {
		ignoreAgg[k] += n
	}
	obsMu.Unlock()
	record(o)

	return o
}

// nopDeadliner schedules everything and never expires anything.
type nopDeadliner struct{ ch chan core.Duty }

func newNopDeadliner() nopDeadliner { return nopDeadliner{ch: make(chan core.Duty)} }

func (nopDeadliner) Add(d core.Duty) core.DeadlineStatus {
	if d.Type == core.DutyExit || d.Type == core.DutyBuilderRegistration {
		return core.DeadlineExempt
	}

	return core.DeadlineScheduled
}
func (d nopDeadliner) C() <-chan core.Duty { return d.ch }

func must[T any](v T, err error) T {
	if err != nil {
		panic(fmt.Sprintf("harness: %v", err))
	}

	return v
}

// guessLeaf names the leaf of the mutated value that corresponds to the changed cell of an
// observer when the shared memory is held inside a component (invisible to the address
// intersection): the leaf with the same trailing field path.
func guessLeaf(name string, wa *Walk, what string) string {
	p := what
	if i := strings.Index(p, ": "); i >= 0 {
		p = p[:i]
	}
	i := strings.LastIndex(p, ".")
	if i < 0 {
		return ""
	}
	suffix := p[i:]
	for _, l := range wa.Leaves {
		if strings.HasSuffix(l.Path, suffix) {
			return name + l.Path + " (matched by field path; the shared memory is held inside the component)"
		}
	}

	return ""
}
