// Harness of property C18. TestGen runs every probe (path x value type) against the real
// components and writes the observations to VERIF_OUT/c18_obs.json.
//
// VERIF_TIER=quick   : one representative value type per kind x every path
// VERIF_TIER=thorough: every value type x every fork version x every path
// VERIF_ONLY=<substr>: only components whose name contains the substring (debugging)
package alias

import (
	"os"
	"reflect"
	"sort"
	"strings"
	"testing"

	"verif/harness/hx"
)

// Output is the file the check script reads.
type Output struct {
	Tier       string         `json:"tier"`
	Obs        []Obs          `json:"obs"`
	Skipped    []string       `json:"skipped"`
	Ignored    map[string]int `json:"ignored"`
	SelfTest   []string       `json:"selftest"`
	SelfTestOK bool           `json:"selftest_ok"`
	Kinds      map[string]int `json:"kinds"`
}

func only(name string) bool {
	o := os.Getenv("VERIF_ONLY")
	return o == "" || strings.Contains(name, o)
}

func TestGen(t *testing.T) {
	if err := HeapClassifierOK(); err != nil {
		t.Fatalf("address classifier unusable on this platform: %v", err)
	}
	out := Output{Tier: "quick", Kinds: map[string]int{}}
	if hx.Thorough() {
		out.Tier = "thorough"
	}
	out.SelfTest, out.SelfTestOK = selfTest()

	var uks []UKind
	for _, k := range UKinds() {
		if hx.Thorough() || k.Rep {
			uks = append(uks, k)
		}
	}
	var sks []SKind
	for _, k := range SKinds() {
		if hx.Thorough() || k.Rep {
			sks = append(sks, k)
		}
	}
	out.Kinds["unsigned"] = len(uks)
	out.Kinds["signed"] = len(sks)
	out.Kinds["definitions"] = len(DKinds())

	sh := newShares(t)
	if only("dutydb") {
		for _, k := range uks {
			probeDutyDB(t, k)
		}
	}
	if only("parsigdb") {
		for _, k := range sks {
			probeParSigDB(t, k, sh)
			probeParSigDBLayouts(t, k, sh)
		}
	}
	if only("aggsigdb") {
		for _, k := range sks {
			probeAggSigDB(t, k, false)
			probeAggSigDB(t, k, true)
		}
	}
	if only("sigagg") {
		for _, k := range sks {
			probeSigAgg(t, k, sh)
		}
	}
	if only("fetcher") {
		probeFetcher(t, uks)
	}
	if only("scheduler") {
		probeScheduler(t)
		probeSchedulerHeadEvent(t)
	}
	if only("parsigex") {
		probeParSigEx(t, sks)
	}
	if only("consensus") {
		probeConsensusDecode(t, uks)
	}
	if only("race") {
		probeRaces(t, sks, uks, sh)
	}
	if only("dutiescache") {
		probeDutiesCache(t)
	}
	if only("validatorapi") {
		probeValidatorAPI(t, hx.Thorough())
	}

	obsMu.Lock()
	defer obsMu.Unlock()
	out.Obs = allObs
	out.Skipped = skipped
	sort.Strings(out.Skipped)
	out.Ignored = ignoreAgg
	if err := hx.WriteJSON("c18_obs.json", out); err != nil {
		t.Fatal(err)
	}
	shares := 0
	for _, o := range allObs {
		if o.Verdict == "share" {
			shares++
			t.Logf("SHARE %s [%s] %s | overlap=%d %s | changed=%v %s | leaf %s", o.Path, o.Type, o.Shape, o.Overlap, o.OverlapAt, o.Changed, o.What, o.Leaf)
		}
	}
	t.Logf("observations=%d share=%d skipped=%d selftest_ok=%v", len(allObs), shares, len(skipped), out.SelfTestOK)
	for _, s := range out.Skipped {
		t.Logf("skipped: %s", s)
	}
}

// selfTest runs the observation machinery on hand-built values with known aliasing, so that a
// walker that stops seeing sharing (or sees it where there is none) is noticed on every run.
func selfTest() ([]string, bool) {
	type inner struct {
		N  uint64
		bs []byte // unexported
	}
	type outer struct {
		P   *inner
		S   []inner
		M   map[string]*inner
		I   any
		Arr [4]byte
		str string
	}
	mk := func() *outer {
		return &outer{
			P: &inner{1, []byte{1, 2, 3}}, S: []inner{{2, []byte{4}}, {3, nil}},
			M: map[string]*inner{"k": {4, []byte{5, 6}}}, I: inner{5, []byte{7}}, Arr: [4]byte{1, 2, 3, 4}, str: "s",
		}
	}
	var log []string
	ok := true
	check := func(name string, a, b any, wantShare bool, wantLeafSub string) {
		wa, wb := WalkValue(a), WalkValue(b)
		ov := 0
		for _, o := range Intersect(wa, wb) {
			if !o.Static {
				ov++
			}
		}
		before := wb.Snap
		wa.Mutate()
		d := Diff(before, Snapshot(b))
		l, _, _ := wa.LeafIn(wb)
		got := ov > 0
		res := "ok"
		if got != wantShare || (d != "") != wantShare || (wantShare && !strings.Contains(l.Path, wantLeafSub)) {
			res = "FAILED"
			ok = false
		}
		log = append(log, name+": overlap="+itoa(ov)+" changed="+boolStr(d != "")+" leaf="+l.Path+" diff="+d+" => "+res)
	}
	// 1. two independent deep values
	check("independent", mk(), mk(), false, "")
	// 2. same pointer
	x := mk()
	check("same-root", x, x, true, "")
	// 3. shallow copy: new root, shared children
	y := mk()
	sh := *y
	check("shallow-copy", &sh, y, true, "")
	// 4. only an unexported byte slice inside a struct stored in an interface is shared
	z1, z2 := mk(), mk()
	z2.I = z1.I
	check("shared-bytes-inside-interface-box", z1, z2, true, ".I(alias.inner).bs")
	// 5. sub-slice of the same backing array
	buf := make([]byte, 64)
	s1 := struct{ B []byte }{buf[:40]}
	s2 := struct{ B []byte }{buf[32:]}
	check("overlapping-subslices", &s1, &s2, true, ".B[32]")
	// 6. pointer to a field of the other value's struct
	w1 := mk()
	w2 := struct{ Q *uint64 }{&w1.P.N}
	check("pointer-to-field", &w2, w1, true, ".Q*")
	// 7. shared map
	m := map[string]*inner{"a": {1, nil}}
	m1 := struct{ M map[string]*inner }{m}
	m2 := struct{ M map[string]*inner }{m}
	check("shared-map", &m1, &m2, true, "")
	// 8. maps with equal content but separate storage, values cloned
	n1 := struct{ M map[string]*inner }{map[string]*inner{"a": {1, []byte{1}}}}
	n2 := struct{ M map[string]*inner }{map[string]*inner{"a": {1, []byte{1}}}}
	check("separate-maps", &n1, &n2, false, "")
	// 9. values sharing only static data and an empty slice are not sharing
	e1 := struct {
		B []byte
		F func()
	}{staticProbe[:0], func() {}}
	e2 := e1
	check("only-empty-slice-and-func", &e1, &e2, false, "")
	// 10. a value that reaches the same cells along two paths and shares them with another value
	sharedBits := []byte{1, 2, 3}
	d1 := struct{ X, Y []byte }{sharedBits, sharedBits}
	d2 := struct{ Z []byte }{sharedBits}
	check("cell-reachable-twice", &d1, &d2, true, "")
	// 11. deep equality of reflect-based snapshot vs reflect.DeepEqual on an untouched value
	q1, q2 := mk(), mk()
	if !reflect.DeepEqual(Snapshot(q1), Snapshot(q2)) {
		ok = false
		log = append(log, "snapshot of equal values differs: FAILED")
	}

	return log, ok
}

func itoa(n int) string {
	if n == 0 {
		return "0"
	}
	s := ""
	for n > 0 {
		s = string(rune('0'+n%10)) + s
		n /= 10
	}

	return s
}

func boolStr(b bool) string {
	if b {
		return "true"
	}

	return "false"
}
