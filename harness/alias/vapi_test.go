package alias

import (
	"context"
	"fmt"
	"testing"

	"github.com/OffchainLabs/go-bitfield"
	eth2api "github.com/attestantio/go-eth2-client/api"
	eth2v1 "github.com/attestantio/go-eth2-client/api/v1"
	eth2deneb "github.com/attestantio/go-eth2-client/api/v1/deneb"
	eth2electra "github.com/attestantio/go-eth2-client/api/v1/electra"
	eth2fulu "github.com/attestantio/go-eth2-client/api/v1/fulu"
	eth2spec "github.com/attestantio/go-eth2-client/spec"
	"github.com/attestantio/go-eth2-client/spec/altair"
	eth2p0 "github.com/attestantio/go-eth2-client/spec/phase0"

	"github.com/obolnetwork/charon/core"
	"github.com/obolnetwork/charon/core/validatorapi"
	"github.com/obolnetwork/charon/testutil"
	"github.com/obolnetwork/charon/testutil/beaconmock"
)

// ---------------------------------------------------------------------------------------------
// validatorapi fan-out: request objects of the Submit* handlers vs what every subscriber gets.

type vapiRig struct {
	c    *validatorapi.Component
	outs [][]core.ParSignedDataSet
	kept []any // values the registered query functions returned to the component
}

type vapiCase struct {
	handler string
	typ     string
	rep     bool
	// call performs the request and returns the request object(s) the caller still holds.
	call func(t *testing.T, r *vapiRig) (any, error)
}

func signedBlindedOf(p *eth2api.VersionedSignedProposal) *eth2api.VersionedSignedBlindedProposal {
	return &eth2api.VersionedSignedBlindedProposal{
		Version: p.Version, Bellatrix: p.BellatrixBlinded, Capella: p.CapellaBlinded, Deneb: p.DenebBlinded,
		Electra: p.ElectraBlinded, Fulu: p.FuluBlinded,
	}
}

// unsignedOf returns the unsigned proposal that carries the same message objects as p does
// (what dutydb would answer for the slot is built separately: see vapiCases).
func unsignedOf(p *eth2api.VersionedSignedProposal) *eth2api.VersionedProposal {
	u := &eth2api.VersionedProposal{Version: p.Version, Blinded: p.Blinded}
	switch p.Version {
	case eth2spec.DataVersionPhase0:
		u.Phase0 = p.Phase0.Message
	case eth2spec.DataVersionAltair:
		u.Altair = p.Altair.Message
	case eth2spec.DataVersionBellatrix:
		if p.Blinded {
			u.BellatrixBlinded = p.BellatrixBlinded.Message
		} else {
			u.Bellatrix = p.Bellatrix.Message
		}
	case eth2spec.DataVersionCapella:
		if p.Blinded {
			u.CapellaBlinded = p.CapellaBlinded.Message
		} else {
			u.Capella = p.Capella.Message
		}
	case eth2spec.DataVersionDeneb:
		if p.Blinded {
			u.DenebBlinded = p.DenebBlinded.Message
		} else {
			u.Deneb = &eth2deneb.BlockContents{Block: p.Deneb.SignedBlock.Message, KZGProofs: p.Deneb.KZGProofs, Blobs: p.Deneb.Blobs}
		}
	case eth2spec.DataVersionElectra:
		if p.Blinded {
			u.ElectraBlinded = p.ElectraBlinded.Message
		} else {
			u.Electra = &eth2electra.BlockContents{Block: p.Electra.SignedBlock.Message, KZGProofs: p.Electra.KZGProofs, Blobs: p.Electra.Blobs}
		}
	case eth2spec.DataVersionFulu:
		if p.Blinded {
			u.FuluBlinded = p.FuluBlinded.Message
		} else {
			u.Fulu = &eth2fulu.BlockContents{Block: p.Fulu.SignedBlock.Message, KZGProofs: p.Fulu.KZGProofs, Blobs: p.Fulu.Blobs}
		}
	}

	return u
}

func vapiCases(t *testing.T) []vapiCase {
	t.Helper()
	const (
		vIdxA = 1
		vIdxB = 2
	)
	pkOf := func(i eth2p0.ValidatorIndex) core.PubKey {
		pk := beaconmock.ValidatorSetA[i].Validator.PublicKey
		return must(core.PubKeyFromBytes(pk[:]))
	}
	var cs []vapiCase
	for _, v := range allVersions {
		cs = append(cs, vapiCase{handler: "SubmitAttestations", typ: "VersionedAttestation/" + v.String(), rep: isRepVersion(v) || v == eth2spec.DataVersionDeneb,
			call: func(t *testing.T, r *vapiRig) (any, error) {
				mk := func(vi eth2p0.ValidatorIndex, bit uint64) *eth2spec.VersionedAttestation {
					a := rawAttestation(v, slot0, false)
					vidx := vi
					a.ValidatorIndex = &vidx
					d := must(a.Data())
					d.Index = 5
					bits := bitfield.NewBitlist(8)
					bits.SetBitAt(bit, true)
					switch {
					case a.Electra != nil:
						a.Electra.Data.Index = 0
					case a.Fulu != nil:
						a.Fulu.Data.Index = 0
					case a.Phase0 != nil:
						a.Phase0.AggregationBits = bits
					case a.Altair != nil:
						a.Altair.AggregationBits = bits
					case a.Bellatrix != nil:
						a.Bellatrix.AggregationBits = bits
					case a.Capella != nil:
						a.Capella.AggregationBits = bits
					case a.Deneb != nil:
						a.Deneb.AggregationBits = bits
					}
					if v < eth2spec.DataVersionElectra {
						a.ValidatorIndex = nil
					}

					return a
				}
				r.c.RegisterPubKeyByAttestation(func(_ context.Context, _, _, valIdx uint64) (core.PubKey, error) {
					return pkOf(eth2p0.ValidatorIndex(valIdx)), nil
				})
				r.c.RegisterGetDutyDefinition(func(context.Context, core.Duty) (core.DutyDefinitionSet, error) {
					set := core.DutyDefinitionSet{
						pkOf(vIdxA): core.AttesterDefinition{AttesterDuty: eth2v1.AttesterDuty{Slot: slot0, ValidatorIndex: vIdxA, CommitteeIndex: 5, CommitteeLength: 8, ValidatorCommitteeIndex: 3}},
						pkOf(vIdxB): core.AttesterDefinition{AttesterDuty: eth2v1.AttesterDuty{Slot: slot0, ValidatorIndex: vIdxB, CommitteeIndex: 5, CommitteeLength: 8, ValidatorCommitteeIndex: 4}},
					}
					r.kept = append(r.kept, set)

					return set, nil
				})
				opts := &eth2api.SubmitAttestationsOpts{Attestations: []*eth2spec.VersionedAttestation{mk(vIdxA, 3), mk(vIdxB, 4)}}

				return opts, r.c.SubmitAttestations(t.Context(), opts)
			}})
	}
	cs = append(cs, vapiCase{handler: "Proposal(randao)", typ: "SignedRandao", rep: true,
		call: func(t *testing.T, r *vapiRig) (any, error) {
			r.c.RegisterGetDutyDefinition(func(context.Context, core.Duty) (core.DutyDefinitionSet, error) {
				return core.DutyDefinitionSet{pkOf(vIdxA): nil}, nil
			})
			r.c.RegisterAwaitProposal(func(_ context.Context, slot uint64) (*eth2api.VersionedProposal, error) {
				p := rawProposal(eth2spec.DataVersionElectra, false, slot)
				r.kept = append(r.kept, p)

				return p, nil
			})
			opts := &eth2api.ProposalOpts{Slot: slot0, RandaoReveal: testutil.RandomEth2Signature()}
			resp, err := r.c.Proposal(t.Context(), opts)
			if err != nil {
				return nil, err
			}

			return []any{opts, resp}, nil
		}})
	for _, v := range allVersions {
		for _, bl := range []bool{false, true} {
			if bl && v < eth2spec.DataVersionBellatrix {
				continue
			}
			handler, typ := "SubmitProposal", "VersionedSignedProposal/"+v.String()
			if bl {
				handler, typ = "SubmitBlindedProposal", typ+"/blinded"
			}
			cs = append(cs, vapiCase{handler: handler, typ: typ, rep: v == eth2spec.DataVersionElectra || (bl && v == eth2spec.DataVersionDeneb),
				call: func(t *testing.T, r *vapiRig) (any, error) {
					signed := rawSignedProposal(v, bl, slot0)
					r.c.RegisterGetDutyDefinition(func(context.Context, core.Duty) (core.DutyDefinitionSet, error) {
						return core.DutyDefinitionSet{pkOf(vIdxA): nil}, nil
					})
					r.c.RegisterAwaitProposal(func(context.Context, uint64) (*eth2api.VersionedProposal, error) {
						// dutydb answers with its own copy of the same block
						cl := must(core.VersionedProposal{VersionedProposal: *unsignedOf(signed)}.Clone())
						p := cl.(core.VersionedProposal).VersionedProposal
						r.kept = append(r.kept, &p)

						return &p, nil
					})
					if bl {
						opts := &eth2api.SubmitBlindedProposalOpts{Proposal: signedBlindedOf(signed)}
						return opts, r.c.SubmitBlindedProposal(t.Context(), opts)
					}
					opts := &eth2api.SubmitProposalOpts{Proposal: signed}

					return opts, r.c.SubmitProposal(t.Context(), opts)
				}})
		}
	}
	cs = append(cs, vapiCase{handler: "SubmitVoluntaryExit", typ: "SignedVoluntaryExit", rep: true,
		call: func(t *testing.T, r *vapiRig) (any, error) {
			e := testutil.RandomExit()
			e.Message.ValidatorIndex = vIdxA

			return e, r.c.SubmitVoluntaryExit(t.Context(), e)
		}})
	cs = append(cs, vapiCase{handler: "BeaconCommitteeSelections", typ: "BeaconCommitteeSelection", rep: true,
		call: func(t *testing.T, r *vapiRig) (any, error) {
			sels := []*eth2v1.BeaconCommitteeSelection{
				{ValidatorIndex: vIdxA, Slot: slot0, SelectionProof: testutil.RandomEth2Signature()},
				{ValidatorIndex: vIdxB, Slot: slot0, SelectionProof: testutil.RandomEth2Signature()},
			}
			r.c.RegisterAwaitAggSigDB(func(context.Context, core.Duty, core.PubKey, core.SubcommitteeIndex) (core.SignedData, error) {
				s := core.NewBeaconCommitteeSelection(&eth2v1.BeaconCommitteeSelection{ValidatorIndex: vIdxA, Slot: slot0, SelectionProof: testutil.RandomEth2Signature()})
				r.kept = append(r.kept, s)

				return s, nil
			})
			opts := &eth2api.BeaconCommitteeSelectionsOpts{Selections: sels}
			resp, err := r.c.BeaconCommitteeSelections(t.Context(), opts)
			if err != nil {
				return nil, err
			}

			return []any{opts, resp}, nil
		}})
	for _, v := range allVersions {
		cs = append(cs, vapiCase{handler: "SubmitAggregateAttestations", typ: "VersionedSignedAggregateAndProof/" + v.String(), rep: isRepVersion(v) || v == eth2spec.DataVersionDeneb,
			call: func(t *testing.T, r *vapiRig) (any, error) {
				mk := func(vi eth2p0.ValidatorIndex) *eth2spec.VersionedSignedAggregateAndProof {
					a := rawAggAndProof(v, slot0)
					switch {
					case a.Electra != nil:
						a.Electra.Message.AggregatorIndex = vi
					case a.Fulu != nil:
						a.Fulu.Message.AggregatorIndex = vi
					case a.Phase0 != nil:
						a.Phase0.Message.AggregatorIndex = vi
					case a.Altair != nil:
						a.Altair.Message.AggregatorIndex = vi
					case a.Bellatrix != nil:
						a.Bellatrix.Message.AggregatorIndex = vi
					case a.Capella != nil:
						a.Capella.Message.AggregatorIndex = vi
					case a.Deneb != nil:
						a.Deneb.Message.AggregatorIndex = vi
					}

					return a
				}
				opts := &eth2api.SubmitAggregateAttestationsOpts{SignedAggregateAndProofs: []*eth2spec.VersionedSignedAggregateAndProof{mk(vIdxA), mk(vIdxB)}}

				return opts, r.c.SubmitAggregateAttestations(t.Context(), opts)
			}})
	}
	cs = append(cs, vapiCase{handler: "SubmitSyncCommitteeMessages", typ: "SignedSyncMessage", rep: true,
		call: func(t *testing.T, r *vapiRig) (any, error) {
			mk := func(vi eth2p0.ValidatorIndex) *altair.SyncCommitteeMessage {
				m := testutil.RandomSyncCommitteeMessage()
				m.Slot, m.ValidatorIndex = slot0, vi

				return m
			}
			msgs := []*altair.SyncCommitteeMessage{mk(vIdxA), mk(vIdxB)}

			return msgs, r.c.SubmitSyncCommitteeMessages(t.Context(), msgs)
		}})
	cs = append(cs, vapiCase{handler: "SubmitSyncCommitteeContributions", typ: "SignedSyncContributionAndProof", rep: true,
		call: func(t *testing.T, r *vapiRig) (any, error) {
			mk := func(vi eth2p0.ValidatorIndex) *altair.SignedContributionAndProof {
				c := testutil.RandomSignedSyncContributionAndProof()
				c.Message.Contribution.Slot, c.Message.AggregatorIndex = slot0, vi

				return c
			}
			cps := []*altair.SignedContributionAndProof{mk(vIdxA), mk(vIdxB)}

			return cps, r.c.SubmitSyncCommitteeContributions(t.Context(), cps)
		}})
	cs = append(cs, vapiCase{handler: "SyncCommitteeSelections", typ: "SyncCommitteeSelection", rep: true,
		call: func(t *testing.T, r *vapiRig) (any, error) {
			sels := []*eth2v1.SyncCommitteeSelection{
				{ValidatorIndex: vIdxA, Slot: slot0, SubcommitteeIndex: 1, SelectionProof: testutil.RandomEth2Signature()},
				{ValidatorIndex: vIdxB, Slot: slot0, SubcommitteeIndex: 2, SelectionProof: testutil.RandomEth2Signature()},
			}
			r.c.RegisterAwaitAggSigDB(func(_ context.Context, _ core.Duty, _ core.PubKey, sub core.SubcommitteeIndex) (core.SignedData, error) {
				s := core.NewSyncCommitteeSelection(&eth2v1.SyncCommitteeSelection{ValidatorIndex: vIdxA, Slot: slot0, SubcommitteeIndex: uint64(sub), SelectionProof: testutil.RandomEth2Signature()})
				r.kept = append(r.kept, s)

				return s, nil
			})
			opts := &eth2api.SyncCommitteeSelectionsOpts{Selections: sels}
			resp, err := r.c.SyncCommitteeSelections(t.Context(), opts)
			if err != nil {
				return nil, err
			}

			return []any{opts, resp}, nil
		}})

	return cs
}

func probeValidatorAPI(t *testing.T, thorough bool) {
	t.Helper()
	bmock, err := beaconmock.New(t.Context(), beaconmock.WithValidatorSet(beaconmock.ValidatorSetA))
	if err != nil {
		skip("validatorapi: beaconmock unavailable: %v", err)
		return
	}
	defer func() { _ = bmock.Close() }()

	for _, c := range vapiCases(t) {
		if !thorough && !c.rep {
			continue
		}
		run := func(pick func(r *vapiRig, req any) (string, string, Named, []Named)) {
			contain("validatorapi "+c.handler+" "+c.typ, func() {
				comp, err := validatorapi.NewComponentInsecure(t, bmock, 1)
				if err != nil {
					skip("validatorapi: %v", err)
					return
				}
				r := &vapiRig{c: comp, outs: make([][]core.ParSignedDataSet, rigSubs)}
				for i := 0; i < rigSubs; i++ {
					comp.Subscribe(func(_ context.Context, _ core.Duty, set core.ParSignedDataSet) error {
						r.outs[i] = append(r.outs[i], set)
						return nil
					})
				}
				req, err := c.call(t, r)
				if err != nil {
					skip("validatorapi %s %s: handler fails: %v", c.handler, c.typ, err)
					return
				}
				for i := range r.outs {
					if len(r.outs[i]) == 0 || len(r.outs[i]) != len(r.outs[0]) {
						skip("validatorapi %s %s: subscriber %d of %d called %d times", c.handler, c.typ, i+1, len(r.outs), len(r.outs[i]))
						return
					}
				}
				path, shape, a, held := pick(r, req)
				observe(path, c.typ, shape, a, held, nil)
			})
		}
		run(func(r *vapiRig, req any) (string, string, Named, []Named) {
			return "validatorapi." + c.handler + "(request)>subscriber", "direct", Named{"request object held by the caller", req},
				[]Named{{"subscriber 1 sets", r.outs[0]}, {"subscriber 2 sets", r.outs[1]}}
		})
		run(func(r *vapiRig, req any) (string, string, Named, []Named) {
			return "validatorapi." + c.handler + ">subscriber|subscriber", "sibling", Named{"subscriber 1 sets", r.outs[0]},
				[]Named{{"subscriber 2 sets", r.outs[1]}, {"request object held by the caller", req}, {"query results given to the component", r.kept}}
		})
		for _, lay := range subLayouts {
			n, pos := lay[0], lay[1]
			rigSubs = n
			run(func(r *vapiRig, req any) (string, string, Named, []Named) {
				held := []Named{{"request object held by the caller", req}, {"query results given to the component", r.kept}}
				for i := range r.outs {
					if i != pos {
						held = append(held, Named{fmt.Sprintf("subscriber %d sets", i+1), r.outs[i]})
					}
				}

				return "validatorapi." + c.handler + ">subscriber[" + posName(n, pos) + "]|everybody else", "sibling",
					Named{"subscriber sets (" + posName(n, pos) + ")", r.outs[pos]}, held
			})
			rigSubs = 2
		}
	}
}
