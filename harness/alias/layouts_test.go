package alias

// Every way a value leaves a store-like component, for every subscriber position (only / first /
// middle / last of 1, 2, 3 subscribers) and every query: everything reachable from the received
// value is mutated and the component's later behaviour is observed through its public operations
// (an identical duplicate must still be a duplicate; later answers for the same key must be
// unchanged). A change is attributed to memory held inside the component ("hidden").

import (
	"context"
	"fmt"
	"testing"
	"time"

	eth2api "github.com/attestantio/go-eth2-client/api"
	eth2v1 "github.com/attestantio/go-eth2-client/api/v1"
	eth2p0 "github.com/attestantio/go-eth2-client/spec/phase0"

	"github.com/obolnetwork/charon/app/eth2wrap"
	"github.com/obolnetwork/charon/core"
	"github.com/obolnetwork/charon/core/parsigdb"
)

// subLayouts lists (number of subscribers, position of the one whose value is mutated).
var subLayouts = [][2]int{{1, 0}, {2, 0}, {2, 1}, {3, 0}, {3, 1}, {3, 2}}

func posName(n, pos int) string {
	switch {
	case n == 1:
		return "only subscriber"
	case pos == 0:
		return fmt.Sprintf("first of %d", n)
	case pos == n-1:
		return fmt.Sprintf("last of %d", n)
	}

	return fmt.Sprintf("middle of %d", n)
}

func errStr(err error) string {
	if err == nil {
		return "ok"
	}

	return "error: " + err.Error()
}

// ---------------------------------------------------------------------------------------------
// parsigdb

func probeParSigDBLayouts(t *testing.T, k SKind, sh shares) {
	t.Helper()
	duty := core.Duty{Slot: slot0, Type: k.Duty}
	for _, lay := range subLayouts {
		n, pos := lay[0], lay[1]
		for _, kind := range []string{"thresholdSub", "internalSub"} {
			bubble(t, "parsigdb "+k.Name, func(t *testing.T) {
				ctx := t.Context()
				ps, err := partials(t, k, sh, threshold)
				if err != nil {
					return // reported by probeParSigDB
				}
				db := parsigdb.NewMemDB(threshold, newNopDeadliner(), parsigdb.NewMemDBMetadata(12, time.Now()))
				internal := make([][]core.ParSignedDataSet, n)
				thresh := make([][]map[core.PubKey][]core.ParSignedData, n)
				for i := 0; i < n; i++ {
					db.SubscribeInternal(func(_ context.Context, _ core.Duty, set core.ParSignedDataSet) error {
						internal[i] = append(internal[i], set)
						return nil
					})
					db.SubscribeThreshold(func(_ context.Context, _ core.Duty, set map[core.PubKey][]core.ParSignedData) error {
						thresh[i] = append(thresh[i], set)
						return nil
					})
				}
				var inputs, pristine []core.ParSignedDataSet
				for _, p := range ps {
					in := core.ParSignedDataSet{sh.pubkey: p}
					inputs = append(inputs, in)
					pristine = append(pristine, must(in.Clone()))
				}
				for i, in := range inputs {
					if i == 0 {
						err = db.StoreInternal(ctx, duty, in)
					} else {
						err = db.StoreExternal(ctx, duty, in)
					}
					if err != nil {
						return
					}
				}
				if len(thresh[pos]) != 1 || len(internal[pos]) != 1 {
					skip("parsigdb %s [%s]: subscriber called %d/%d times", k.Name, posName(n, pos), len(thresh[pos]), len(internal[pos]))
					return
				}
				var a Named
				if kind == "thresholdSub" {
					a = Named{"threshold subscriber set (" + posName(n, pos) + ")", thresh[pos][0]}
				} else {
					a = Named{"internal subscriber set (" + posName(n, pos) + ")", internal[pos][0]}
				}
				var held []Named
				for i := 0; i < n; i++ {
					if i == pos {
						continue
					}
					held = append(held, Named{fmt.Sprintf("threshold subscriber %d set", i+1), thresh[i][0]},
						Named{fmt.Sprintf("internal subscriber %d set", i+1), internal[i][0]})
				}
				held = append(held, Named{"store input sets", inputs})
				calls := func() (int, int) {
					a, b := 0, 0
					for i := 0; i < n; i++ {
						a += len(thresh[i])
						b += len(internal[i])
					}

					return a, b
				}
				var rr []Reread
				for s := range pristine {
					rr = append(rr, Reread{fmt.Sprintf("StoreExternal(identical duplicate of share %d)", s+1), func() (any, error) {
						t0, _ := calls()
						err := db.StoreExternal(ctx, duty, must(pristine[s].Clone()))
						t1, _ := calls()

						return map[string]any{"result": errStr(err), "threshold subscriber calls": t1 - t0}, nil
					}})
				}
				rr = append(rr, Reread{"StoreInternal(identical duplicate of share 1)", func() (any, error) {
					t0, i0 := calls()
					err := db.StoreInternal(ctx, duty, must(pristine[0].Clone()))
					t1, i1 := calls()
					var got any
					if l := len(internal[0]); l > 0 {
						got = internal[0][l-1]
					}

					return map[string]any{"result": errStr(err), "threshold subscriber calls": t1 - t0, "internal subscriber calls": i1 - i0, "internal subscriber 1 got": got}, nil
				}})
				observe("parsigdb."+kind+"["+posName(n, pos)+"]|later stores", k.Name, "sibling", a, held, rr)
			})
		}
	}
}

// ---------------------------------------------------------------------------------------------
// duties cache (app/eth2wrap): the beacon node is an in-process client.

type dutiesBN struct {
	eth2wrap.Client

	calls int
	ret   []any
}

func (b *dutiesBN) AttesterDuties(_ context.Context, opts *eth2api.AttesterDutiesOpts) (*eth2api.Response[[]*eth2v1.AttesterDuty], error) {
	b.calls++
	var resp []*eth2v1.AttesterDuty
	for _, v := range opts.Indices {
		resp = append(resp, &eth2v1.AttesterDuty{PubKey: schedPK(uint64(v)), Slot: eth2p0.Slot(uint64(opts.Epoch)*32 + 1), ValidatorIndex: v, CommitteeIndex: 5, CommitteeLength: 8, CommitteesAtSlot: 4})
	}
	md := map[string]any{"dependent_root": "0x01", "execution_optimistic": false}
	b.ret = append(b.ret, resp, md)

	return &eth2api.Response[[]*eth2v1.AttesterDuty]{Data: resp, Metadata: md}, nil
}

func (b *dutiesBN) ProposerDuties(_ context.Context, opts *eth2api.ProposerDutiesOpts) (*eth2api.Response[[]*eth2v1.ProposerDuty], error) {
	b.calls++
	var resp []*eth2v1.ProposerDuty
	for _, v := range opts.Indices {
		resp = append(resp, &eth2v1.ProposerDuty{PubKey: schedPK(uint64(v)), Slot: eth2p0.Slot(uint64(opts.Epoch)*32 + uint64(v)), ValidatorIndex: v})
	}
	md := map[string]any{"dependent_root": "0x02"}
	b.ret = append(b.ret, resp, md)

	return &eth2api.Response[[]*eth2v1.ProposerDuty]{Data: resp, Metadata: md}, nil
}

func (b *dutiesBN) SyncCommitteeDuties(_ context.Context, opts *eth2api.SyncCommitteeDutiesOpts) (*eth2api.Response[[]*eth2v1.SyncCommitteeDuty], error) {
	b.calls++
	var resp []*eth2v1.SyncCommitteeDuty
	for _, v := range opts.Indices {
		resp = append(resp, &eth2v1.SyncCommitteeDuty{PubKey: schedPK(uint64(v)), ValidatorIndex: v, ValidatorSyncCommitteeIndices: []eth2p0.CommitteeIndex{eth2p0.CommitteeIndex(v), 130}})
	}
	md := map[string]any{"execution_optimistic": false}
	b.ret = append(b.ret, resp, md)

	return &eth2api.Response[[]*eth2v1.SyncCommitteeDuty]{Data: resp, Metadata: md}, nil
}

func probeDutiesCache(t *testing.T) {
	t.Helper()
	idxs := []eth2p0.ValidatorIndex{1, 2}
	type q struct {
		name string
		f    func(c *eth2wrap.DutiesCache) (any, error)
	}
	qs := []q{
		{"AttesterDutiesCache", func(c *eth2wrap.DutiesCache) (any, error) { return c.AttesterDutiesCache(t.Context(), 3, idxs) }},
		{"ProposerDutiesCache", func(c *eth2wrap.DutiesCache) (any, error) { return c.ProposerDutiesCache(t.Context(), 3, idxs) }},
		{"SyncCommDutiesCache", func(c *eth2wrap.DutiesCache) (any, error) { return c.SyncCommDutiesCache(t.Context(), 3, idxs) }},
	}
	for _, qq := range qs {
		typ := map[string]string{"AttesterDutiesCache": "AttesterDuty", "ProposerDutiesCache": "ProposerDuty", "SyncCommDutiesCache": "SyncCommitteeDuty"}[qq.name]
		for _, which := range []string{"miss", "hit", "eth2"} {
			contain("dutiescache "+qq.name, func() {
				bn := &dutiesBN{}
				c := eth2wrap.NewDutiesCache(bn, idxs)
				r1, err := qq.f(c) // fetched from the beacon node and stored
				if err != nil {
					skip("dutiescache %s: %v", qq.name, err)
					return
				}
				r2, err2 := qq.f(c) // answered from the cache
				r3, err3 := qq.f(c)
				if err2 != nil || err3 != nil || bn.calls != 1 {
					skip("dutiescache %s: second query not answered from the cache (calls=%d)", qq.name, bn.calls)
					return
				}
				rr := []Reread{{qq.name, func() (any, error) { return qq.f(c) }}}
				switch which {
				case "miss":
					observe("dutiescache."+qq.name+"(fetched)|"+qq.name, typ, "sibling", Named{"first answer (fetched)", r1},
						[]Named{{"second answer (cached)", r2}, {"third answer (cached)", r3}}, rr)
				case "hit":
					observe("dutiescache."+qq.name+"(cached)|"+qq.name, typ, "sibling", Named{"second answer (cached)", r2},
						[]Named{{"first answer (fetched)", r1}, {"third answer (cached)", r3}}, rr)
				case "eth2":
					observe("dutiescache.fetch(eth2 client answer)>"+qq.name, typ, "direct", Named{"values returned by the eth2 client", bn.ret},
						[]Named{{"second answer (cached)", r2}}, rr)
				}
			})
		}
	}
}
