package alias

import (
	"context"
	"fmt"
	"testing"

	eth2api "github.com/attestantio/go-eth2-client/api"
	eth2spec "github.com/attestantio/go-eth2-client/spec"
	"github.com/attestantio/go-eth2-client/spec/altair"
	eth2p0 "github.com/attestantio/go-eth2-client/spec/phase0"

	"github.com/obolnetwork/charon/core"
	"github.com/obolnetwork/charon/core/fetcher"
	"github.com/obolnetwork/charon/eth2util/eth2exp"
	"github.com/obolnetwork/charon/testutil"
	"github.com/obolnetwork/charon/testutil/beaconmock"
)

// rigSubs is the number of subscribers the component rigs register (2 unless a layout probe says otherwise).
var rigSubs = 2

// contain runs f and turns a panic into a skip note.
func contain(what string, f func()) {
	defer func() {
		if r := recover(); r != nil {
			skip("%s: harness panic: %v", what, r)
		}
	}()
	f()
}

// ---------------------------------------------------------------------------------------------
// fetcher

type fetchRig struct {
	f       *fetcher.Fetcher
	duty    core.Duty
	defSet  core.DutyDefinitionSet
	bnRet   []any // what the eth2 client returned to the fetcher
	queried []any // what the registered query functions (aggsigdb, dutydb) returned to the fetcher
	outs    [][]core.UnsignedDataSet
	pkA     core.PubKey
	pkB     core.PubKey
	bm      beaconmock.Mock
	head    eth2p0.Root // beacon block root every attestation data answer votes for
}

// selectionProof finds a signature that makes its holder a sync committee aggregator.
func selectionProof(t *testing.T, bmock beaconmock.Mock) eth2p0.BLSSignature {
	t.Helper()
	for i := 0; i < 10000; i++ {
		sig := testutil.RandomEth2Signature()
		ok, err := eth2exp.IsSyncCommAggregator(t.Context(), bmock, sig)
		if err != nil {
			panic(err)
		}
		if ok {
			return sig
		}
	}
	panic("no aggregator selection proof found")
}

// newFetchRig builds a fetcher with two subscribers whose beacon node answers with values of kind k.
func newFetchRig(t *testing.T, bmock beaconmock.Mock, k UKind, v2 bool) (*fetchRig, error) {
	t.Helper()
	r := &fetchRig{duty: core.Duty{Slot: slot0, Type: k.Duty}, pkA: testutil.RandomCorePubKey(t), pkB: testutil.RandomCorePubKey(t), head: testutil.RandomRoot()}
	sample, err := k.New(t, slot0)
	if err != nil {
		return nil, err
	}
	// bmock is a struct of function fields with value receivers: configure the copy first, build the fetcher last.
	var (
		aggSigDB func(context.Context, core.Duty, core.PubKey, core.SubcommitteeIndex) (core.SignedData, error)
		awaitAtt func(context.Context, uint64, uint64) (*eth2p0.AttestationData, error)
	)
	attDef := func(commIdx eth2p0.CommitteeIndex) core.DutyDefinition {
		d := testutil.RandomAttestationDuty(t)
		d.Slot = slot0
		d.CommitteeIndex = commIdx
		d.CommitteeLength = 0 // everybody is an aggregator

		return core.NewAttesterDefinition(d)
	}
	switch s := sample.(type) {
	case core.AttestationData:
		bmock.AttestationDataFunc = func(_ context.Context, slot eth2p0.Slot, idx eth2p0.CommitteeIndex) (*eth2p0.AttestationData, error) {
			d := testutil.RandomAttestationDataPhase0()
			d.Slot, d.Index, d.BeaconBlockRoot = slot, idx, r.head
			r.bnRet = append(r.bnRet, d)

			return d, nil
		}
		// two validators of the same committee: the fetcher reuses one beacon node answer for both
		r.defSet = core.DutyDefinitionSet{r.pkA: attDef(s.Duty.CommitteeIndex), r.pkB: attDef(s.Duty.CommitteeIndex)}
	case core.VersionedProposal:
		bmock.ProposalFunc = func(_ context.Context, opts *eth2api.ProposalOpts) (*eth2api.VersionedProposal, error) {
			p := rawProposal(s.Version, s.Blinded, uint64(opts.Slot))
			r.bnRet = append(r.bnRet, p)

			return p, nil
		}
		aggSigDB = func(context.Context, core.Duty, core.PubKey, core.SubcommitteeIndex) (core.SignedData, error) {
			rd := core.NewSignedRandao(slot0/32, testutil.RandomEth2Signature())
			r.queried = append(r.queried, rd)

			return rd, nil
		}
		pd := testutil.RandomProposerDuty(t)
		pd.Slot = slot0
		r.defSet = core.DutyDefinitionSet{r.pkA: core.NewProposerDefinition(pd)}
	case core.VersionedAggregatedAttestation:
		data := must(s.Data())
		bmock.AggregateAttestationFunc = func(_ context.Context, _ eth2p0.Slot, _ eth2p0.Root) (*eth2spec.VersionedAttestation, error) {
			a := rawAttestation(s.Version, slot0, true)
			a.ValidatorIndex = nil
			r.bnRet = append(r.bnRet, a)

			return a, nil
		}
		aggSigDB = func(context.Context, core.Duty, core.PubKey, core.SubcommitteeIndex) (core.SignedData, error) {
			sel := testutil.RandomCoreBeaconCommitteeSelection()
			r.queried = append(r.queried, sel)

			return sel, nil
		}
		awaitAtt = func(context.Context, uint64, uint64) (*eth2p0.AttestationData, error) {
			d := testutil.RandomAttestationDataPhase0()
			d.Slot = slot0
			r.queried = append(r.queried, d)

			return d, nil
		}
		r.defSet = core.DutyDefinitionSet{r.pkA: attDef(data.Index), r.pkB: attDef(data.Index)}
	case core.SyncContribution, core.SyncContributions:
		proof := selectionProof(t, bmock)
		root := testutil.RandomRoot()
		bmock.SyncCommitteeContributionFunc = func(_ context.Context, slot eth2p0.Slot, sub uint64, br eth2p0.Root) (*altair.SyncCommitteeContribution, error) {
			c := testutil.RandomSyncCommitteeContribution()
			c.Slot, c.SubcommitteeIndex, c.BeaconBlockRoot = slot, sub, br
			r.bnRet = append(r.bnRet, c)

			return c, nil
		}
		aggSigDB = func(_ context.Context, d core.Duty, _ core.PubKey, sub core.SubcommitteeIndex) (core.SignedData, error) {
			var out core.SignedData
			if d.Type == core.DutyPrepareSyncContribution {
				sel := testutil.RandomSyncCommitteeSelection()
				sel.Slot, sel.SubcommitteeIndex, sel.SelectionProof = slot0, uint64(sub), proof
				out = core.NewSyncCommitteeSelection(sel)
			} else {
				m := testutil.RandomSyncCommitteeMessage()
				m.Slot, m.BeaconBlockRoot = slot0, root
				out = core.NewSignedSyncMessage(m)
			}
			r.queried = append(r.queried, out)

			return out, nil
		}
		sd := func() core.DutyDefinition {
			d := testutil.RandomSyncCommitteeDuty(t)
			d.ValidatorSyncCommitteeIndices = []eth2p0.CommitteeIndex{1, 130} // subcommittees 0 and 1
			return core.NewSyncCommitteeDefinition(d)
		}
		// two validators in the same subcommittees: the fetcher reuses one contribution for both
		r.defSet = core.DutyDefinitionSet{r.pkA: sd(), r.pkB: sd()}
	default:
		return nil, fmt.Errorf("no fetcher rig for %T", sample)
	}
	f, err := fetcher.New(bmock, func(core.PubKey) string { return "0x0000000000000000000000000000000000000000" }, true, &fetcher.GraffitiBuilder{}, 0, false)
	if err != nil {
		return nil, err
	}
	r.f = f
	r.bm = bmock
	r.outs = make([][]core.UnsignedDataSet, rigSubs)
	for i := 0; i < rigSubs; i++ {
		f.Subscribe(func(_ context.Context, _ core.Duty, set core.UnsignedDataSet) error {
			r.outs[i] = append(r.outs[i], set)
			return nil
		})
	}
	if aggSigDB != nil {
		f.RegisterAggSigDB(aggSigDB)
	}
	if awaitAtt != nil {
		f.RegisterAwaitAttData(awaitAtt)
	}
	if v2 {
		f.RegisterSyncContributionV2(func(uint64) bool { return true })
	}

	return r, nil
}

func probeFetcher(t *testing.T, uks []UKind) {
	t.Helper()
	bmock, err := beaconmock.New(t.Context())
	if err != nil {
		skip("fetcher: beaconmock unavailable: %v", err)
		return
	}
	defer func() { _ = bmock.Close() }()

	for _, k := range uks {
		v2 := k.Name == "SyncContributions"
		run := func(path, shape string, early bool, pick func(r *fetchRig) (Named, []Named)) {
			contain("fetcher "+k.Name, func() {
				r, err := newFetchRig(t, bmock, k, v2)
				if err != nil {
					skip("fetcher %s: %v", k.Name, err)
					return
				}
				ctx := t.Context()
				if early {
					if k.Duty != core.DutyAttester {
						return
					}
					if err := r.f.FetchOnly(ctx, r.duty, r.defSet, "", r.head); err != nil {
						skip("fetcher %s: FetchOnly fails: %v", k.Name, err)
						return
					}
					n := len(r.bnRet)
					if err := r.f.Fetch(ctx, r.duty, r.defSet); err != nil {
						skip("fetcher %s: Fetch after FetchOnly fails: %v", k.Name, err)
						return
					}
					if len(r.bnRet) != n {
						skip("fetcher %s: Fetch after FetchOnly asked the beacon node again (cache not used)", k.Name)
						return
					}
				} else if err := r.f.Fetch(ctx, r.duty, r.defSet); err != nil {
					skip("fetcher %s: Fetch fails: %v", k.Name, err)
					return
				}
				for i := range r.outs {
					if len(r.outs[i]) != 1 || len(r.outs[i][0]) == 0 {
						skip("fetcher %s: subscriber %d of %d called %d times", k.Name, i+1, len(r.outs), len(r.outs[i]))
						return
					}
				}
				a, held := pick(r)
				observe(path, k.Name, shape, a, held, nil)
			})
		}
		subs := func(r *fetchRig) []Named {
			return []Named{{"subscriber 1 set", r.outs[0][0]}, {"subscriber 2 set", r.outs[1][0]}}
		}
		for _, early := range []bool{false, true} {
			via := "fetcher.Fetch"
			if early {
				via = "fetcher.FetchOnly+Fetch"
			}
			run(via+"(eth2 client answer)>subscriber", "direct", early, func(r *fetchRig) (Named, []Named) {
				return Named{"values returned by the eth2 client", r.bnRet}, subs(r)
			})
			run(via+"(duty definition argument)>subscriber", "direct", early, func(r *fetchRig) (Named, []Named) {
				return Named{"Fetch duty definition set argument", r.defSet}, subs(r)
			})
			run(via+">subscriber|subscriber", "sibling", early, func(r *fetchRig) (Named, []Named) {
				return Named{"subscriber 1 set", r.outs[0][0]}, []Named{{"subscriber 2 set", r.outs[1][0]},
					{"values returned by the eth2 client", r.bnRet}, {"Fetch duty definition set argument", r.defSet}, {"query results given to the fetcher", r.queried}}
			})
			run(via+">subscriber(validator A entry|validator B entry)", "sibling", early, func(r *fetchRig) (Named, []Named) {
				set := r.outs[0][0]
				if len(set) < 2 {
					return Named{"subscriber 1 entry of validator A", set[r.pkA]}, []Named{{"subscriber 2 entry of validator A", r.outs[1][0][r.pkA]}}
				}

				return Named{"subscriber 1 entry of validator A", set[r.pkA]}, []Named{{"subscriber 1 entry of validator B", set[r.pkB]}}
			})
		}
		run("fetcher.Fetch(query results)>subscriber", "direct", false, func(r *fetchRig) (Named, []Named) {
			return Named{"query results given to the fetcher", r.queried}, subs(r)
		})
		// every subscriber position
		for _, lay := range subLayouts {
			n, pos := lay[0], lay[1]
			for _, early := range []bool{false, true} {
				via := "fetcher.Fetch"
				if early {
					via = "fetcher.FetchOnly+Fetch"
				}
				rigSubs = n
				run(via+">subscriber["+posName(n, pos)+"]|everybody else", "sibling", early, func(r *fetchRig) (Named, []Named) {
					held := []Named{{"values returned by the eth2 client", r.bnRet}, {"Fetch duty definition set argument", r.defSet}, {"query results given to the fetcher", r.queried}}
					for i := range r.outs {
						if i != pos {
							held = append(held, Named{fmt.Sprintf("subscriber %d set", i+1), r.outs[i][0]})
						}
					}

					return Named{"subscriber set (" + posName(n, pos) + ")", r.outs[pos][0]}, held
				})
				rigSubs = 2
			}
		}
	}
}
