package alias

import "testing"

func probeFetcher(t *testing.T, uks []UKind) {}
func probeScheduler(t *testing.T)            {}
func probeValidatorAPI(t *testing.T)         {}
