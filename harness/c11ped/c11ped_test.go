// Correspondence harness for C11, Pedersen ceremonies: runs dkg/pedersen.RunDKG on every node
// in-process (real libp2p hosts on localhost and the real bcast component, as the repository's own
// TestRunDKG does) for several (nodes, threshold, validators) configurations including thresholds at
// or below n/2 and t = n, then checks the whole property on the real curve over EVERY t-subset (public
// shares reconstruct the group key, t partial signatures aggregate to a signature valid under the
// group key, t-1 public shares do not reconstruct it) and records the secret shares for the Coq-side
// check (all n shares on one polynomial of degree exactly t-1).
package c11ped

import (
	"context"
	"fmt"
	"math/big"
	"sync"
	"testing"
	"time"

	"github.com/libp2p/go-libp2p/core/peer"

	"github.com/obolnetwork/charon/app/log"
	"github.com/obolnetwork/charon/cluster"
	"github.com/obolnetwork/charon/dkg/bcast"
	"github.com/obolnetwork/charon/dkg/pedersen"
	"github.com/obolnetwork/charon/dkg/share"
	"github.com/obolnetwork/charon/tbls"
	"github.com/obolnetwork/charon/testutil"

	"verif/harness/hx"
)

type Validator struct {
	T      int      `json:"t"`
	Shares []string `json:"shares"`
}

type Ceremony struct {
	ID         int         `json:"id"`
	Algo       string      `json:"algo"`
	N          int         `json:"n"`
	T          int         `json:"t"`
	Vals       int         `json:"vals"`
	Stale      *Stale      `json:"stale_session,omitempty"` // second ceremony on the same hosts + straggler messages of an abandoned first one
	Err        string      `json:"err,omitempty"`
	Validators []Validator `json:"validators"`
}

// Stale describes the straggler: node Straggler (0-based) still runs a board of the abandoned session and publishes
// Count validator public key shares of it to node Victim only, before (or while) the new ceremony runs.
type Stale struct {
	Straggler int  `json:"straggler"`
	Victim    int  `json:"victim"`
	Count     int  `json:"count"`
	During    bool `json:"during"` // sent while the new ceremony is running instead of before it starts
}

type Violation struct {
	Key    string   `json:"key"`
	What   string   `json:"what"`
	Replay Ceremony `json:"replay"`
}

type Out struct {
	Ceremonies []Ceremony     `json:"ceremonies"`
	Violations []Violation    `json:"violations"`
	Checks     map[string]int `json:"checks"`
	Dist       map[string]int `json:"dist"`
}

func subsets(n, size int) [][]int {
	var out [][]int
	var rec func(start int, cur []int)
	rec = func(start int, cur []int) {
		if len(cur) == size {
			out = append(out, append([]int(nil), cur...))
			return
		}
		for i := start; i <= n; i++ {
			rec(i+1, append(cur, i))
		}
	}
	rec(1, nil)
	return out
}

func run(t *testing.T, c *Ceremony) ([][]share.Share, error) {
	t.Helper()
	var (
		peers   []peer.ID
		peerMap = make(map[peer.ID]cluster.NodeIdx)
		session = testutil.RandomArray32()
	)
	nodes := make([]*pedersen.TestNode, c.N)
	for i := range nodes {
		nodes[i] = pedersen.NewTestNode(t, i)
		peerMap[nodes[i].NodeHost.ID()] = nodes[i].NodeIdx
		peers = append(peers, nodes[i].NodeHost.ID())
	}
	defer func() {
		for _, n := range nodes {
			_ = n.NodeHost.Close()
		}
	}()
	pedersen.ConnectTestNodes(t, nodes)
	sendStale := func() {}
	if c.Stale != nil {
		// Abandoned attempt (old session): the straggler still has a live board of it; only its link to the victim matters.
		old := testutil.RandomArray32()
		st, vi := nodes[c.Stale.Straggler], nodes[c.Stale.Victim]
		oldPeerMap := map[peer.ID]cluster.NodeIdx{st.NodeHost.ID(): st.NodeIdx, vi.NodeHost.ID(): vi.NodeIdx}
		oldConfig := pedersen.NewConfig(st.NodeHost.ID(), oldPeerMap, c.T, old[:], 3*time.Second, nil)
		oldBoard := pedersen.NewBoard(log.WithTopic(context.Background(), "old-attempt"), st.NodeHost, oldConfig,
			bcast.New(st.NodeHost, peers, st.NodeSecret, old[:]))
		sendStale = func() {
			for k := 0; k < c.Stale.Count; k++ {
				sk, err := tbls.GenerateSecretKey()
				if err != nil {
					t.Fatal(err)
				}
				pk, err := tbls.SecretToPublicKey(sk)
				if err != nil {
					t.Fatal(err)
				}
				_ = oldBoard.BroadcastValidatorPubKeyShare(context.Background(), pk[:])
			}
		}
	}
	for i := range nodes {
		nodes[i].InitBoard(t, c.T, peers, peerMap, session[:])
	}
	if c.Stale != nil && !c.Stale.During {
		sendStale()
		time.Sleep(300 * time.Millisecond) // the send is asynchronous: let it reach (and be handled by) the victim's new board
	}
	ctx, cancel := context.WithTimeout(context.Background(), 15*time.Second)
	defer cancel()
	if c.Stale != nil && c.Stale.During {
		go func() {
			time.Sleep(5 * time.Millisecond)
			sendStale()
		}()
	}
	errs := make([]error, c.N)
	res := make([][]share.Share, c.N)
	var wg sync.WaitGroup
	for i := range nodes {
		wg.Add(1)
		go func(i int) {
			defer wg.Done()
			defer func() {
				if p := recover(); p != nil {
					errs[i] = fmt.Errorf("panic: %v", p)
					cancel()
				}
			}()
			res[i], errs[i] = pedersen.RunDKG(ctx, nodes[i].Config, nodes[i].Board, c.Vals)
			if errs[i] != nil {
				cancel()
			}
		}(i)
	}
	done := make(chan struct{})
	go func() { wg.Wait(); close(done) }()
	select {
	case <-done:
	case <-time.After(22 * time.Second):
		return res, fmt.Errorf("ceremony does not terminate: a node is still inside RunDKG 7s after its context expired")
	}
	for i, err := range errs {
		if err != nil {
			return res, fmt.Errorf("node %d: %w", i+1, err)
		}
	}
	return res, nil
}

func check(c *Ceremony, res [][]share.Share, checks map[string]int) (string, string) {
	n, th := c.N, c.T
	for j := range res {
		if len(res[j]) != c.Vals {
			return "dkg:share-count", fmt.Sprintf("node %d returned %d shares for %d validators", j+1, len(res[j]), c.Vals)
		}
	}
	for v := 0; v < c.Vals; v++ {
		ref := res[0][v]
		val := Validator{T: th}
		for j := 0; j < n; j++ {
			s := res[j][v]
			checks["same_group_key"]++
			if s.PubKey != ref.PubKey {
				return "dkg:group-key-differs", fmt.Sprintf("validator %d: node %d and node 1 hold different group public keys", v, j+1)
			}
			if len(s.PublicShares) != n {
				return "dkg:pubshare-count", fmt.Sprintf("validator %d: node %d holds %d public shares, want %d", v, j+1, len(s.PublicShares), n)
			}
			for i := 1; i <= n; i++ {
				checks["same_public_shares"]++
				a, ok1 := s.PublicShares[i]
				b, ok2 := ref.PublicShares[i]
				if !ok1 || !ok2 || a != b {
					return "dkg:public-shares-differ", fmt.Sprintf("validator %d: public share of index %d differs between node %d and node 1 (or is missing)", v, i, j+1)
				}
			}
			checks["secret_matches_public_share"]++
			pk, err := tbls.SecretToPublicKey(s.SecretShare)
			if err != nil {
				return "dkg:secret-share-invalid", fmt.Sprintf("validator %d node %d: %v", v, j+1, err)
			}
			if pk != ref.PublicShares[j+1] {
				return "dkg:secret-share-mismatch", fmt.Sprintf("validator %d: secret share of node %d does not match the public share published under index %d", v, j+1, j+1)
			}
			val.Shares = append(val.Shares, new(big.Int).SetBytes(s.SecretShare[:]).String())
		}
		c.Validators = append(c.Validators, val)

		msg := []byte(fmt.Sprintf("c11-pedersen-%d-%d-%d-%d", n, th, v, c.ID))
		sizes := []int{th}
		if th < n {
			sizes = append(sizes, th+1, n)
		}
		for _, size := range sizes {
			for _, sub := range subsets(n, size) {
				pubs := map[int]tbls.PublicKey{}
				sigs := map[int]tbls.Signature{}
				for _, i := range sub {
					pubs[i] = ref.PublicShares[i]
					sg, err := tbls.Sign(res[i-1][v].SecretShare, msg)
					if err != nil {
						return "dkg:sign", err.Error()
					}
					sigs[i] = sg
				}
				checks["pubshares_reconstruct_group_key"]++
				rp, err := tbls.RecoverPubkey(pubs)
				if err != nil {
					return "dkg:recover-pubkey", err.Error()
				}
				if rp != ref.PubKey {
					return "dkg:pubshares-do-not-reconstruct", fmt.Sprintf("validator %d: the %d public shares %v do not reconstruct the group public key (configured threshold %d of %d)", v, size, sub, th, n)
				}
				checks["threshold_signature_verifies"]++
				agg, err := tbls.ThresholdAggregate(sigs)
				if err != nil {
					return "dkg:aggregate", err.Error()
				}
				if err := tbls.Verify(ref.PubKey, msg, agg); err != nil {
					return "dkg:threshold-signature-invalid", fmt.Sprintf("validator %d: partial signatures of nodes %v combine into a signature that does not verify under the group key: %v", v, sub, err)
				}
			}
		}
		if th >= 2 {
			for _, sub := range subsets(n, th-1) {
				pubs := map[int]tbls.PublicKey{}
				for _, i := range sub {
					pubs[i] = ref.PublicShares[i]
				}
				checks["below_threshold_does_not_reconstruct"]++
				if rp, err := tbls.RecoverPubkey(pubs); err == nil && rp == ref.PubKey {
					return "dkg:fewer-than-t-shares-reconstruct", fmt.Sprintf("validator %d: the %d public shares %v already reconstruct the group public key (threshold %d)", v, th-1, sub, th)
				}
			}
		}
	}
	return "", ""
}

func TestGen(t *testing.T) {
	out := Out{Checks: map[string]int{}, Dist: map[string]int{}}
	var todo []Ceremony
	var replay Ceremony
	if ok, err := hx.ReadReplay(&replay); ok {
		if err != nil {
			t.Fatal(err)
		}
		if replay.Algo != "pedersen" {
			t.Skip("not a pedersen replay")
		}
		for k := 0; k < 3; k++ {
			todo = append(todo, Ceremony{Algo: "pedersen", N: replay.N, T: replay.T, Vals: replay.Vals, Stale: replay.Stale})
		}
	} else {
		type cfg struct{ n, t, v int }
		var cfgs []cfg
		reps := 1
		if hx.Thorough() {
			reps = 2
		}
		for k := 0; k < reps; k++ {
			for n := 3; n <= 6; n++ {
				for th := 2; th <= n; th++ {
					if hx.Thorough() {
						cfgs = append(cfgs, cfg{n, th, 1}, cfg{n, th, 2})
					} else {
						cfgs = append(cfgs, cfg{n, th, 1 + (n+th)%2})
					}
				}
			}
		}
		if hx.Thorough() {
			cfgs = append(cfgs, cfg{7, 2, 1}, cfg{7, 3, 1}, cfg{7, 5, 1}, cfg{8, 4, 1}, cfg{8, 6, 1}, cfg{8, 8, 1})
		}
		for _, c := range cfgs {
			todo = append(todo, Ceremony{Algo: "pedersen", N: c.n, T: c.t, Vals: c.v})
		}
		// repeated ceremonies on the same hosts with a straggler of the abandoned one
		r := hx.Rand()
		stales := 4
		if hx.Thorough() {
			stales = 16
		}
		for k := 0; k < stales; k++ {
			n := 3 + k%3
			p := r.Perm(n)
			todo = append(todo, Ceremony{Algo: "pedersen", N: n, T: 2 + r.Intn(n-1), Vals: 1,
				Stale: &Stale{Straggler: p[0], Victim: p[1], Count: 1, During: k%4 == 3}})
		}
	}
	for i := range todo {
		c := &todo[i]
		c.ID = i
		out.Dist[fmt.Sprintf("n%d", c.N)]++
		if c.Stale != nil {
			out.Dist["stale_session"]++
		}
		if 2*c.T <= c.N {
			out.Dist["t_at_most_half_n"]++
		} else if c.T == c.N {
			out.Dist["t_equals_n"]++
		} else {
			out.Dist["t_majority"]++
		}
		res, err := run(t, c)
		for attempt := 1; err != nil && c.Stale != nil && attempt < 3; attempt++ {
			out.Dist["stale_session_retry"]++
			res, err = run(t, c)
		}
		if err != nil {
			c.Err = err.Error()
			out.Violations = append(out.Violations, Violation{Key: "dkg:honest-ceremony-fails", What: fmt.Sprintf("pedersen ceremony among %d honest nodes (t=%d, %d validators) fails: %v", c.N, c.T, c.Vals, err), Replay: *c})
			out.Ceremonies = append(out.Ceremonies, *c)
			continue
		}
		if key, what := check(c, res, out.Checks); key != "" {
			out.Violations = append(out.Violations, Violation{Key: key, What: "pedersen: " + what, Replay: *c})
		}
		out.Ceremonies = append(out.Ceremonies, *c)
	}
	if err := hx.WriteJSON("c11ped_cases.json", out); err != nil {
		t.Fatal(err)
	}
}
