// C02 with compare failures (Properties/C02_cmp.v): cluster executions of the REAL core/qbft.Run in which
// Definition.Compare answers a fixed function of (member, value) -- CmpFail where the function rejects,
// CmpOk where it accepts, occasionally CmpTimeout -- with scripted Byzantine members that exploit the
// compareFailureRound+1 shortcut of isJustifiedPrePrepare.  Uses the cluster machinery of qbft_test.go.
package qbft

import (
	"math/rand"
	"testing"

	"verif/harness/hx"
)

// cmpScenarioShortcut: n = 4, member 2 Byzantine (leader of round 3), honest 0 (leader of round 1), 1 (leader of
// round 2), 3.  Member 3's comparison rejects value 7 and nothing else.  Round 1: 0 proposes 7, member 3 fails
// (compareFailureRound = 1), 0 decides 7 with Byzantine help.  Round 2: 1 re-proposes the prepared 7, member 3
// fails again (compareFailureRound = 2).  Round 3: the Byzantine leader's UNJUSTIFIED PRE-PREPARE(3, 8) is accepted
// by member 3 through the shortcut (it prepares 8) and refused by member 1.  Members 1 and 3 then learn the decision
// from 0's DECIDED answer to their ROUND-CHANGEs: everybody decides 7.
// A scripted scenario whose expected broadcast is missing stops there: the partial history is still written and the
// model / monitors report the first label that deviates.
type scenarioAbort struct{}

func b0(p *proc) M {
	if len(p.bcasts) == 0 {
		panic(scenarioAbort{})
	}
	return p.bcasts[0]
}

func scenarioRecover(h *History) {
	if r := recover(); r != nil {
		if _, ok := r.(scenarioAbort); !ok {
			panic(r)
		}
		h.Stats["cmpfun:scenario-aborted"]++
	}
}

func cmpScenarioShortcut(t *testing.T) History {
	const A, B = 7, 8
	h := History{ID: 0, Kind: "cmpfun-shortcut", Nodes: 4, Fifo: 100, Off: 3, Byz: []int64{2}, CmpMix: true}
	inBubble(t, &h, func(c *cluster) {
		defer scenarioRecover(&h)
		p0, p1, p3 := c.ps[0], c.ps[1], c.ps[3]
		for _, p := range []*proc{p0, p1, p3} {
			c.start(p)
		}
		c.giveInput(p0, A)
		ppA := b0(p0)
		c.giveInput(p1, B)
		c.giveInput(p3, B)
		c.deliver(p0, ppA, "CmpOk")
		prep0 := b0(p0)
		c.deliver(p1, ppA, "CmpOk")
		prep1 := b0(p1)
		c.deliver(p3, ppA, "CmpFail") // member 3 rejects 7: compareFailureRound = 1
		prepZ := M{T: 2, Src: 2, Rnd: 1, Val: A}
		for _, p := range []*proc{p0, p1} {
			c.deliver(p, prep0, "CmpOk")
			c.deliver(p, prep1, "CmpOk")
		}
		c.deliver(p0, prepZ, "CmpOk")
		com0 := b0(p0)
		c.deliver(p1, prepZ, "CmpOk")
		com1 := b0(p1)
		comZ := M{T: 3, Src: 2, Rnd: 1, Val: A}
		c.deliver(p0, com0, "CmpOk")
		c.deliver(p0, com1, "CmpOk")
		c.deliver(p0, comZ, "CmpOk") // 0 decides 7; the Byzantine commit is withheld from 1
		c.deliver(p1, com0, "CmpOk")
		c.deliver(p1, com1, "CmpOk")
		c.timeout(p1)
		rc1 := b0(p1)
		c.timeout(p3)
		rc3 := b0(p3)
		rcZ := M{T: 4, Src: 2, Rnd: 2}
		c.deliver(p1, rc1, "CmpOk")
		c.deliver(p1, rc3, "CmpOk")
		c.deliver(p1, rcZ, "CmpOk")
		if len(p1.bcasts) != 1 || b0(p1).T != 1 {
			panic(scenarioAbort{})
		}
		pp2 := b0(p1)
		c.deliver(p1, pp2, "CmpOk")   // member 1 accepts 7, as in round 1
		c.deliver(p3, pp2, "CmpFail") // member 3 rejects 7 again: compareFailureRound = 2
		pp3 := M{T: 1, Src: 2, Rnd: 3, Val: B}
		c.deliver(p3, pp3, "CmpOk") // accepted through the shortcut: PREPARE(3, 8)
		if len(p3.bcasts) != 1 || b0(p3).T != 2 || b0(p3).Val != B {
			panic(scenarioAbort{})
		}
		c.deliver(p1, pp3, "CmpOk") // refused: LogUnjust
		c.deliver(p0, rc1, "CmpOk") // decided member answers a ROUND-CHANGE with DECIDED
		dec := b0(p0)
		c.deliver(p1, dec, "CmpOk")
		c.deliver(p3, dec, "CmpOk")
	})
	return h
}

// cmpScenarioHonest: n = 4, nobody Byzantine.  Member 3's comparison rejects the leader's value 7 (no PREPARE from it);
// members 0, 1, 2 prepare, commit and decide 7; member 3 decides 7 on their COMMITs.
func cmpScenarioHonest(t *testing.T) History {
	const A = 7
	h := History{ID: 1, Kind: "cmpfun-honest", Nodes: 4, Fifo: 100, Off: 3, CmpMix: true}
	inBubble(t, &h, func(c *cluster) {
		defer scenarioRecover(&h)
		for _, p := range c.ps {
			c.start(p)
		}
		c.giveInput(c.ps[0], A)
		pp := b0(c.ps[0])
		for i := int64(1); i < 4; i++ {
			c.giveInput(c.ps[i], A+i)
		}
		var preps, coms []M
		for _, p := range c.ps {
			verdict := "CmpOk"
			if p.id == 3 {
				verdict = "CmpFail"
			}
			c.deliver(p, pp, verdict)
			preps = append(preps, p.bcasts...)
		}
		for _, p := range c.ps[:3] {
			for _, m := range preps {
				c.deliver(p, m, "CmpOk")
				coms = append(coms, p.bcasts...)
			}
		}
		for _, p := range c.ps {
			for _, m := range coms {
				c.deliver(p, m, "CmpOk")
			}
		}
	})
	return h
}

func TestCmpFun(t *testing.T) {
	hs := []History{cmpScenarioShortcut(t), cmpScenarioHonest(t)}
	n := hx.IntEnv("VERIF_N", 200)
	for len(hs) < n+2 {
		h := History{ID: len(hs), Kind: "cmpfun-byz", CmpMix: true}
		r := rand.New(rand.NewSource(hx.Seed()*1_000_003 + 77_000 + int64(len(hs)))) //nolint:gosec
		honestOnly := len(hs)%4 == 3
		if honestOnly {
			// nobody Byzantine, verdicts arbitrary (not a function of anything): for the C03 statements, which need no hypothesis
			h.Kind = "cmpany-honest"
		}
		genCmpFunByz(t, r, &h, honestOnly)
		hs = append(hs, h)
	}
	if err := hx.WriteJSON("qbft_cmpfun.json", hs); err != nil {
		t.Fatal(err)
	}
}

// genCmpFunByz: random cluster execution, f scripted Byzantine members, Compare = fixed random function of
// (member, value).  The adversary votes for every value any honest member votes for (so that any split can reach a
// quorum), sends null ROUND-CHANGEs, and -- whenever a Byzantine member leads a round an honest member could accept
// through the shortcut (compareFailureRound+1), or the current / next round -- proposes arbitrary values without
// (or with a null) justification.
func genCmpFunByz(t *testing.T, r *rand.Rand, h *History, honestOnly bool) {
	h.Nodes = int64(4 + r.Intn(4))
	h.Off = int64(r.Intn(8))
	h.Fifo = 100
	n := h.Nodes
	f := (n - 1) / 3
	if honestOnly {
		h.Nodes = int64(1 + r.Intn(7))
		n, f = h.Nodes, 0
	}
	q := (2*n + 2) / 3
	isByz := map[int64]bool{}
	for _, x := range r.Perm(int(n))[:f] {
		isByz[int64(x)] = true
		h.Byz = append(h.Byz, int64(x))
	}
	var byzIDs, honIDs []int64
	for i := int64(0); i < n; i++ {
		if isByz[i] {
			byzIDs = append(byzIDs, i)
		} else {
			honIDs = append(honIDs, i)
		}
	}
	vals := []int64{21, 22, 23}
	rejP := 10 + r.Intn(35)
	rejects := map[[2]int64]bool{} // the verdict function
	for _, i := range honIDs {
		for _, v := range vals {
			rejects[[2]int64{i, v}] = r.Intn(100) < rejP
		}
	}
	cfr := map[int64]int64{} // compareFailureRound of each honest member, as observed
	inBubble(t, h, func(c *cluster) {
		var pool []flight
		var rcs []M // honest ROUND-CHANGE main parts
		toAll := func(m M) {
			for _, i := range honIDs {
				pool = append(pool, flight{to: i, m: m})
			}
		}
		fan := func(p *proc) {
			for _, m := range p.bcasts {
				toAll(m)
				if m.T == 4 {
					mm := m
					mm.J = nil
					rcs = append(rcs, mm)
				}
				if (m.T == 2 || m.T == 3) && r.Intn(4) > 0 { // Byzantine echo of every honest vote
					for _, b := range byzIDs {
						toAll(M{T: 2, Src: b, Rnd: m.Rnd, Val: m.Val})
						toAll(M{T: 3, Src: b, Rnd: m.Rnd, Val: m.Val})
					}
				}
			}
			p.bcasts = nil
		}
		maxRound := func() int64 {
			mr := int64(1)
			for _, i := range honIDs {
				if c.ps[i].round > mr {
					mr = c.ps[i].round
				}
			}
			return mr
		}
		nullQrc := func(rd int64) []M {
			var out []M
			for _, b := range byzIDs {
				out = append(out, M{T: 4, Src: b, Rnd: rd})
			}
			for _, m := range rcs {
				if int64(len(out)) >= q {
					break
				}
				if m.Rnd == rd && m.PR == 0 {
					out = append(out, m)
				}
			}
			return out
		}
		attack := func() {
			var cands []int64 // rounds led by a Byzantine member that somebody may accept
			mr := maxRound()
			for _, rd := range []int64{mr, mr + 1} {
				if isByz[c.leader(rd)] {
					cands = append(cands, rd)
				}
			}
			for _, i := range honIDs {
				if cfr[i] > 0 && isByz[c.leader(cfr[i]+1)] {
					cands = append(cands, cfr[i]+1, cfr[i]+1)
				}
			}
			switch x := r.Intn(10); {
			case x < 6 && len(cands) > 0:
				rd := cands[r.Intn(len(cands))]
				m := M{T: 1, Src: c.leader(rd), Rnd: rd, Val: vals[r.Intn(len(vals))]}
				if rd > 1 && r.Intn(3) == 0 {
					m.J = nullQrc(rd)
				}
				toAll(m)
			case x == 7:
				rd := mr + int64(r.Intn(2))
				for _, b := range byzIDs {
					toAll(M{T: 4, Src: b, Rnd: rd})
				}
			default:
				v := vals[r.Intn(len(vals))]
				for _, b := range byzIDs {
					toAll(M{T: int64(2 + r.Intn(2)), Src: b, Rnd: mr, Val: v})
				}
			}
		}
		inputs := map[int64]int64{}
		for _, i := range honIDs {
			inputs[i] = vals[r.Intn(len(vals))]
		}
		toP := r.Intn(3)
		atkP := 1 + r.Intn(6)
		maxSteps := 150 + int(n)*120
		for step := 0; step < maxSteps; step++ {
			var unstarted, noInput, canTO []*proc
			allDone := true
			for _, i := range honIDs {
				p := c.ps[i]
				if !p.started {
					unstarted = append(unstarted, p)
					allDone = false
					continue
				}
				if p.alive() && !p.hasIn {
					noInput = append(noInput, p)
				}
				if p.canTimeout() {
					canTO = append(canTO, p)
					allDone = false
				}
			}
			var deliverable []int
			for i, fl := range pool {
				if c.ps[fl.to].alive() {
					deliverable = append(deliverable, i)
				}
			}
			if allDone {
				break
			}
			x := r.Intn(100)
			switch {
			case len(unstarted) > 0 && (x < 40 || step < 2):
				c.start(unstarted[r.Intn(len(unstarted))])
			case len(noInput) > 0 && x < 50:
				p := noInput[r.Intn(len(noInput))]
				c.giveInput(p, inputs[p.id])
				fan(p)
			case x >= 50 && x < 50+atkP:
				attack()
			case len(canTO) > 0 && (x >= 50+atkP && x < 50+atkP+toP && len(deliverable) < int(n) || len(deliverable) == 0):
				p := canTO[r.Intn(len(canTO))]
				c.timeout(p)
				fan(p)
			case len(deliverable) > 0:
				k := deliverable[r.Intn(len(deliverable))]
				fl := pool[k]
				pool = append(pool[:k], pool[k+1:]...)
				p := c.ps[fl.to]
				verdict := "CmpOk"
				if fl.m.T == 1 {
					switch {
					case r.Intn(25) == 0:
						verdict = "CmpTimeout"
					case honestOnly:
						verdict = pickCmp(r, true)
					case rejects[[2]int64{p.id, fl.m.Val}]:
						verdict = "CmpFail"
					}
				}
				c.deliver(p, fl.m, verdict)
				if verdict == "CmpFail" && len(p.outs) > 0 && p.outs[0] == "Upon JustPrePrepare" {
					cfr[p.id] = fl.m.Rnd
					h.Stats["cmpfun:fail"]++
				}
				if fl.m.T == 1 && len(fl.m.J) == 0 && fl.m.Rnd > 1 && len(p.outs) > 0 && p.outs[0] == "Upon JustPrePrepare" {
					h.Stats["cmpfun:shortcut-accept"]++
				}
				fan(p)
			}
		}
	})
}
