// Correspondence harness for the QBFT engine (C02, C03, C04): drives the REAL core/qbft.Run, one
// injected event at a time, inside a testing/synctest bubble and records for every event the
// callbacks observed until the process is quiescent again.  Labels are rendered as Coq terms of
// coq/Qbft/Model.v.
package qbft

import (
	"context"
	"errors"
	"fmt"
	"math/rand"
	"sort"
	"strings"
	"testing"
	"testing/synctest"
	"time"

	cq "github.com/obolnetwork/charon/core/qbft"

	"verif/harness/hx"
)

// M is a two-level message: main part and (for top-level messages) the justification parts.
type M struct {
	T   int64 `json:"t"` // 1..5 = PrePrepare, Prepare, Commit, RoundChange, Decided
	Src int64 `json:"s"`
	Rnd int64 `json:"r"`
	Val int64 `json:"v"`
	PR  int64 `json:"pr"`
	PV  int64 `json:"pv"`
	J   []M   `json:"j,omitempty"`
}

type gm struct{ m M }

func (g gm) Type() cq.MsgType            { return cq.MsgType(g.m.T) }
func (g gm) Instance() int64             { return 0 }
func (g gm) Source() int64               { return g.m.Src }
func (g gm) Round() int64                { return g.m.Rnd }
func (g gm) Value() int64                { return g.m.Val }
func (g gm) ValueSource() (int64, error) { return g.m.Val, nil }
func (g gm) PreparedRound() int64        { return g.m.PR }
func (g gm) PreparedValue() int64        { return g.m.PV }
func (g gm) Justification() []cq.Msg[int64, int64, int64] {
	if len(g.m.J) == 0 {
		return nil
	}
	out := make([]cq.Msg[int64, int64, int64], 0, len(g.m.J))
	for _, j := range g.m.J {
		j.J = nil // two-level messages only, as the wrapper builds them
		out = append(out, gm{j})
	}
	return out
}

var tyNames = map[int64]string{1: "PrePrepare", 2: "Prepare", 3: "Commit", 4: "RoundChange", 5: "Decided"}
var ruleNames = map[cq.UponRule]string{
	cq.UponNothing: "Nothing", cq.UponJustifiedPrePrepare: "JustPrePrepare", cq.UponQuorumPrepares: "QPrepares",
	cq.UponQuorumCommits: "QCommits", cq.UponUnjustQuorumRoundChanges: "UnjustQRC", cq.UponFPlus1RoundChanges: "FPlus1RC",
	cq.UponQuorumRoundChanges: "QRC", cq.UponJustifiedDecided: "JustDecided", cq.UponRoundTimeout: "RoundTimeout",
}

func coqB(m M) string {
	return fmt.Sprintf("(mk %s %d %d %d %d %d)", tyNames[m.T], m.Src, m.Rnd, m.Val, m.PR, m.PV)
}

func coqL(ms []M) string {
	var sb strings.Builder
	sb.WriteString("[")
	for i, m := range ms {
		if i > 0 {
			sb.WriteString("; ")
		}
		sb.WriteString(coqB(m))
	}
	sb.WriteString("]")
	return sb.String()
}

func coqM(m M) string { return fmt.Sprintf("(mkm %s %s)", coqB(m), coqL(m.J)) }

func strip(ms []cq.Msg[int64, int64, int64]) []M {
	out := make([]M, 0, len(ms))
	for _, x := range ms {
		out = append(out, M{T: int64(x.Type()), Src: x.Source(), Rnd: x.Round(), Val: x.Value(), PR: x.PreparedRound(), PV: x.PreparedValue()})
	}
	return out
}

// Ev is one injected event (the replayable part of a history).
type Ev struct {
	P   int64  `json:"p"`           // process
	K   string `json:"k"`           // start | input | recv | timeout
	V   int64  `json:"v,omitempty"` // input value
	M   *M     `json:"m,omitempty"` // received message
	Cmp string `json:"c,omitempty"` // CmpOk | CmpFail | CmpTimeout
}

// History is one observed execution.
type History struct {
	ID         int            `json:"id"`
	Kind       string         `json:"kind"`
	Nodes      int64          `json:"nodes"`
	Fifo       int            `json:"fifo"`
	Off        int64          `json:"off"`
	Expect     []int64        `json:"expect"` // processes that must decide (timely schedules)
	Byz        []int64        `json:"byz"`    // members played by the scripted adversary (cluster-byz)
	CmpMix     bool           `json:"cmpmix"` // Compare verdicts other than ok were scripted
	Events     []Ev           `json:"events"`
	Trace      []string       `json:"trace"` // "(pid, label)" Coq terms, global order
	Stats      map[string]int `json:"stats"`
	Unmodelled string         `json:"unmodelled,omitempty"`
}

// proc is one real qbft.Run under harness control.
type proc struct {
	id         int64
	recv       chan cq.Msg[int64, int64, int64]
	input      chan int64
	timer      chan time.Time
	outs       []string
	bcasts     []M // broadcasts of the current step
	started    bool
	decided    bool
	exited     bool
	hasIn      bool
	round      int64 // last NewTimer round
	cmpNext    string
	cmpWait    bool
	unmodelled string
	stats      map[string]int
}

type cluster struct {
	n    int64
	fifo int
	off  int64
	ps   []*proc
	ctx  context.Context
	h    *History
}

func (c *cluster) leader(round int64) int64 { return ((c.off+round)%c.n + c.n) % c.n }

func newCluster(ctx context.Context, h *History) *cluster {
	c := &cluster{n: h.Nodes, fifo: h.Fifo, off: h.Off, ctx: ctx, h: h}
	if h.Stats == nil {
		h.Stats = map[string]int{}
	}
	for i := int64(0); i < c.n; i++ {
		c.ps = append(c.ps, &proc{id: i, stats: h.Stats})
	}
	return c
}

func (p *proc) out(s string, stat string) {
	p.outs = append(p.outs, s)
	p.stats[stat]++
}

func (c *cluster) def(p *proc) cq.Definition[int64, int64, int64] {
	return cq.Definition[int64, int64, int64]{
		IsLeader: func(_ int64, round, process int64) bool { return c.leader(round) == process },
		NewTimer: func(round int64) (<-chan time.Time, func()) {
			ch := make(chan time.Time, 1)
			p.timer = ch
			p.round = round
			p.out(fmt.Sprintf("NewTimer %d", round), "out:NewTimer")
			return ch, func() { p.out("StopTimer", "out:StopTimer") }
		},
		Compare: func(ctx context.Context, _ cq.Msg[int64, int64, int64], _ <-chan int64, _ int64, returnErr chan error, _ chan int64) {
			p.stats["compare:"+p.cmpNext]++
			switch p.cmpNext {
			case "CmpFail":
				returnErr <- errors.New("scripted compare failure")
			case "CmpTimeout":
				p.cmpWait = true
				<-ctx.Done()
			default:
				returnErr <- nil
			}
		},
		Decide: func(_ context.Context, _ int64, value int64, round int64, qcommit []cq.Msg[int64, int64, int64]) {
			p.decided = true
			p.out(fmt.Sprintf("Decide %d%%N %d %s", value, round, coqL(strip(qcommit))), "out:Decide")
		},
		LogUponRule: func(_ context.Context, _ int64, _, _ int64, _ cq.Msg[int64, int64, int64], rule cq.UponRule) {
			p.out("Upon "+ruleNames[rule], "rule:"+ruleNames[rule])
		},
		LogRoundChange: func(_ context.Context, _ int64, _, round, newRound int64, rule cq.UponRule, _ []cq.Msg[int64, int64, int64]) {
			p.out(fmt.Sprintf("RoundChg %d %d %s", round, newRound, ruleNames[rule]), "out:RoundChg")
		},
		LogUnjust: func(_ context.Context, _ int64, _ int64, msg cq.Msg[int64, int64, int64]) {
			m := strip([]cq.Msg[int64, int64, int64]{msg})[0]
			m.J = strip(msg.Justification())
			p.out("Unjust "+coqM(m), "out:Unjust")
		},
		Nodes:     int(c.n),
		FIFOLimit: c.fifo,
	}
}

func (c *cluster) record(p *proc, ev Ev, label string) {
	c.h.Events = append(c.h.Events, ev)
	c.h.Trace = append(c.h.Trace, fmt.Sprintf("(%d, %s [%s])", p.id, label, strings.Join(p.outs, "; ")))
	c.h.Stats["label:"+ev.K]++
	if len(p.outs) == 0 {
		c.h.Stats["label-quiet:"+ev.K]++
	}
	if p.unmodelled != "" && c.h.Unmodelled == "" {
		c.h.Unmodelled = p.unmodelled
	}
}

func (p *proc) begin() { p.outs = nil; p.bcasts = nil }

// alive: the process can take further events.
func (p *proc) alive() bool { return p.started && !p.exited }

func (c *cluster) start(p *proc) {
	p.begin()
	p.recv = make(chan cq.Msg[int64, int64, int64])
	p.input = make(chan int64)
	tr := cq.Transport[int64, int64, int64]{
		Broadcast: func(_ context.Context, typ cq.MsgType, _ int64, source int64, round int64, value int64, pr int64, pv int64, justification []cq.Msg[int64, int64, int64]) error {
			m := M{T: int64(typ), Src: source, Rnd: round, Val: value, PR: pr, PV: pv, J: strip(justification)}
			p.bcasts = append(p.bcasts, m)
			p.out(fmt.Sprintf("Bcast %s %s", coqB(m), coqL(m.J)), "bcast:"+tyNames[m.T])
			return nil
		},
		Receive: p.recv,
	}
	d := c.def(p)
	go func() {
		err := cq.Run[int64, int64, int64](c.ctx, d, tr, 0, p.id, p.input, make(chan int64))
		switch {
		case err == nil || errors.Is(err, context.Canceled):
		case strings.Contains(err.Error(), "zero input value not supported"):
			p.out("Exit ExitZeroInput", "out:ExitZeroInput")
		case strings.Contains(err.Error(), "justification cache must be nil"):
			p.out("Exit ExitBug", "out:ExitBug")
		default:
			p.unmodelled = err.Error()
			p.out("Exit ExitBug", "out:ExitUnmodelled")
		}
		p.exited = true
	}()
	synctest.Wait()
	p.started = true
	c.record(p, Ev{P: p.id, K: "start"}, "LStart")
}

func (c *cluster) giveInput(p *proc, v int64) {
	p.begin()
	p.input <- v
	synctest.Wait()
	p.hasIn = true
	c.record(p, Ev{P: p.id, K: "input", V: v}, fmt.Sprintf("LInput %d%%N", v))
}

func (c *cluster) deliver(p *proc, m M, cmp string) {
	p.begin()
	p.cmpNext = cmp
	p.recv <- gm{m}
	synctest.Wait()
	if p.cmpWait { // Run is blocked in compare(): let the (new) round timer win
		p.cmpWait = false
		p.timer <- time.Now()
		synctest.Wait()
	}
	mm := m
	c.record(p, Ev{P: p.id, K: "recv", M: &mm, Cmp: cmp}, fmt.Sprintf("LRecv %s %s", coqM(m), cmp))
}

func (c *cluster) timeout(p *proc) {
	p.begin()
	p.timer <- time.Now()
	synctest.Wait()
	c.record(p, Ev{P: p.id, K: "timeout"}, "LTimeout")
}

// canTimeout: the process has a running round timer.
func (p *proc) canTimeout() bool { return p.alive() && !p.decided }

// inBubble runs f with a fresh cluster inside a synctest bubble.
func inBubble(t *testing.T, h *History, f func(c *cluster)) {
	t.Helper()
	synctest.Test(t, func(t *testing.T) {
		ctx, cancel := context.WithCancel(context.Background())
		c := newCluster(ctx, h)
		f(c)
		cancel()
		synctest.Wait()
	})
}

// replayEvents re-executes a recorded event list (used by --replay and by determinism checks).
func replayEvents(t *testing.T, h *History, evs []Ev) {
	inBubble(t, h, func(c *cluster) {
		for _, e := range evs {
			p := c.ps[e.P]
			switch e.K {
			case "start":
				if !p.started {
					c.start(p)
				}
			case "input":
				if p.alive() && !p.hasIn {
					c.giveInput(p, e.V)
				}
			case "recv":
				if p.alive() {
					c.deliver(p, *e.M, e.Cmp)
				}
			case "timeout":
				if p.canTimeout() {
					c.timeout(p)
				}
			}
		}
	})
}

// ------------------------------------------------------------------------------------------------
// (1) honest cluster executions: all n processes are real, the harness is the network.

type flight struct {
	to int64
	m  M
}

func pickCmp(r *rand.Rand, mix bool) string {
	if !mix {
		return "CmpOk"
	}
	switch x := r.Intn(10); {
	case x < 6:
		return "CmpOk"
	case x < 8:
		return "CmpFail"
	default:
		return "CmpTimeout"
	}
}

func (c *cluster) fanout(pool []flight, p *proc) []flight {
	for _, m := range p.bcasts {
		for i := int64(0); i < c.n; i++ {
			pool = append(pool, flight{to: i, m: m})
		}
	}
	p.bcasts = nil
	return pool
}

func genClusterRandom(t *testing.T, r *rand.Rand, h *History) {
	h.Nodes = int64(1 + r.Intn(7))
	h.Off = int64(r.Intn(8))
	h.Fifo = 100
	if r.Intn(5) == 0 {
		h.Fifo = 3 + r.Intn(8)
	}
	h.CmpMix = r.Intn(6) == 0
	if h.CmpMix {
		h.Kind = "cluster-cmpmix"
	}
	sameVal := r.Intn(3) == 0
	dropP, dupP := r.Intn(15), r.Intn(15)
	toP := 2 + r.Intn(12)
	inBubble(t, h, func(c *cluster) {
		var pool []flight
		inputs := make([]int64, c.n)
		for i := range inputs {
			inputs[i] = int64(10 + i)
			if sameVal {
				inputs[i] = int64(1 + r.Intn(2))
			}
		}
		neverIn := map[int64]bool{}
		for _, p := range c.ps {
			if r.Intn(8) == 0 {
				neverIn[p.id] = true
			}
		}
		maxSteps := 30 + int(c.n)*60
		for step := 0; step < maxSteps; step++ {
			// candidates
			var unstarted, noInput, canTO []*proc
			allDone := true
			for _, p := range c.ps {
				if !p.started {
					unstarted = append(unstarted, p)
					allDone = false
					continue
				}
				if p.alive() && !p.hasIn && !neverIn[p.id] {
					noInput = append(noInput, p)
				}
				if p.canTimeout() {
					canTO = append(canTO, p)
					allDone = false
				}
			}
			var deliverable []int
			for i, f := range pool {
				if c.ps[f.to].alive() {
					deliverable = append(deliverable, i)
				}
			}
			if allDone && len(deliverable) == 0 {
				break
			}
			x := r.Intn(100)
			switch {
			case len(unstarted) > 0 && (x < 25 || step < 2):
				p := unstarted[r.Intn(len(unstarted))]
				c.start(p)
			case len(noInput) > 0 && x < 45:
				p := noInput[r.Intn(len(noInput))]
				c.giveInput(p, inputs[p.id])
				pool = c.fanout(pool, p)
			case len(canTO) > 0 && (x < 45+toP && len(deliverable) < 6*int(c.n) || len(deliverable) == 0):
				p := canTO[r.Intn(len(canTO))]
				c.timeout(p)
				pool = c.fanout(pool, p)
			case len(deliverable) > 0:
				k := deliverable[r.Intn(len(deliverable))]
				f := pool[k]
				y := r.Intn(100)
				if y < dropP {
					pool = append(pool[:k], pool[k+1:]...)
					continue
				}
				if y >= dropP+dupP { // not a duplicate: consume
					pool = append(pool[:k], pool[k+1:]...)
				}
				p := c.ps[f.to]
				c.deliver(p, f.m, pickCmp(r, h.CmpMix))
				pool = c.fanout(pool, p)
			}
		}
	})
}

// genClusterByz: n real honest processes minus f members played by a scripted Byzantine adversary.  The adversary
// sees every honest broadcast and may send, at any time, to any honest member, messages assembled from its own
// identities (arbitrary content) and from parts honest members really broadcast: equivocating proposals when it
// leads a round, votes for several values, round changes with forged or borrowed prepared-claims, replays of old
// honest messages (whole or cross-assembled), DECIDED with mixed commits.  Exactly the adversary of coq/Qbft/Net.v.
func genClusterByz(t *testing.T, r *rand.Rand, h *History) {
	h.Nodes = int64(4 + r.Intn(4))
	h.Off = int64(r.Intn(8))
	h.Fifo = 100
	n := h.Nodes
	f := (n - 1) / 3
	q := (2*n + 2) / 3
	isByz := map[int64]bool{}
	for _, x := range r.Perm(int(n))[:f] {
		isByz[int64(x)] = true
		h.Byz = append(h.Byz, int64(x))
	}
	var byzIDs, honIDs []int64
	for i := int64(0); i < n; i++ {
		if isByz[i] {
			byzIDs = append(byzIDs, i)
		} else {
			honIDs = append(honIDs, i)
		}
	}
	vals := []int64{21, 22}
	inBubble(t, h, func(c *cluster) {
		var pool []flight
		var seen []M // honest broadcasts so far (with the justification they were sent with)
		fan := func(p *proc) {
			for _, m := range p.bcasts {
				seen = append(seen, m)
				for _, i := range honIDs {
					pool = append(pool, flight{to: i, m: m})
				}
			}
			p.bcasts = nil
		}
		partsOf := func(t int64, pred func(M) bool) []M {
			var out []M
			for _, m := range seen {
				mm := m
				mm.J = nil
				if mm.T == t && pred(mm) {
					out = append(out, mm)
				}
				for _, j := range m.J {
					if j.T == t && pred(j) {
						out = append(out, j)
					}
				}
			}
			return out
		}
		uniqBySrc := func(ms []M) []M {
			got := map[int64]bool{}
			var out []M
			for _, m := range ms {
				if !got[m.Src] {
					got[m.Src] = true
					out = append(out, m)
				}
			}
			return out
		}
		maxRound := func() int64 {
			mr := int64(1)
			for _, i := range honIDs {
				if c.ps[i].round > mr {
					mr = c.ps[i].round
				}
			}
			return mr
		}
		byz := func() int64 { return byzIDs[r.Intn(len(byzIDs))] }
		hon := func() *proc { return c.ps[honIDs[r.Intn(len(honIDs))]] }
		// a justification for PRE-PREPARE(rd): honest round changes of that round really sent, topped up with Byzantine ones
		qrcFor := func(rd int64, claimPr, claimPv int64) []M {
			rcs := uniqBySrc(partsOf(4, func(m M) bool { return m.Rnd == rd }))
			r.Shuffle(len(rcs), func(i, j int) { rcs[i], rcs[j] = rcs[j], rcs[i] })
			var out []M
			for _, b := range byzIDs {
				out = append(out, M{T: 4, Src: b, Rnd: rd, PR: claimPr, PV: claimPv})
			}
			for _, m := range rcs {
				if int64(len(out)) >= q {
					break
				}
				out = append(out, m)
			}
			if claimPr > 0 {
				ps := uniqBySrc(partsOf(2, func(m M) bool { return m.Rnd == claimPr && m.Val == claimPv }))
				for _, b := range byzIDs {
					out = append(out, M{T: 2, Src: b, Rnd: claimPr, Val: claimPv})
				}
				out = append(out, ps...)
			}
			return out
		}
		attack := func() {
			rd := maxRound()
			if r.Intn(4) == 0 && rd > 1 {
				rd -= int64(r.Intn(2))
			}
			if r.Intn(6) == 0 {
				rd++
			}
			var m M
			switch r.Intn(8) {
			case 0, 1: // proposal (equivocating over time: another value each call) from a Byzantine leader, or forged for an honest one's round if Byzantine leads
				m = M{T: 1, Src: c.leader(rd), Rnd: rd, Val: vals[r.Intn(2)]}
				if !isByz[m.Src] {
					m.Src = byz()
				}
				if rd > 1 {
					if r.Intn(2) == 0 {
						m.J = qrcFor(rd, 0, 0)
					} else {
						pr := 1 + int64(r.Intn(int(rd)))
						m.J = qrcFor(rd, pr, m.Val)
					}
				}
			case 2: // vote for several values
				m = M{T: int64(2 + r.Intn(2)), Src: byz(), Rnd: rd, Val: vals[r.Intn(2)]}
			case 3: // round change with a forged / borrowed prepared claim
				m = M{T: 4, Src: byz(), Rnd: rd + int64(r.Intn(2))}
				if r.Intn(2) == 0 && rd > 1 {
					pr := 1 + int64(r.Intn(int(rd)))
					pv := vals[r.Intn(2)]
					m.PR, m.PV = pr, pv
					m.J = uniqBySrc(partsOf(2, func(x M) bool { return x.Rnd == pr && x.Val == pv }))
					for _, b := range byzIDs {
						m.J = append(m.J, M{T: 2, Src: b, Rnd: pr, Val: pv})
					}
				}
			case 4: // replay of an old honest message, whole
				if len(seen) == 0 {
					return
				}
				m = seen[r.Intn(len(seen))]
			case 5: // cross-assembly: an honest main part with another message's justification
				if len(seen) < 2 {
					return
				}
				m = seen[r.Intn(len(seen))]
				m.J = seen[r.Intn(len(seen))].J
			case 6: // DECIDED assembled from honest commits plus Byzantine ones, possibly mixed
				v := vals[r.Intn(2)]
				cs := uniqBySrc(partsOf(3, func(x M) bool { return x.Rnd == rd && (x.Val == v || r.Intn(4) == 0) }))
				m = M{T: 5, Src: byz(), Rnd: rd, Val: v, J: cs}
				for _, b := range byzIDs {
					m.J = append(m.J, M{T: 3, Src: b, Rnd: rd, Val: v})
				}
			default: // a Byzantine commit / prepare pair completing somebody's quorum for the value they already prepared
				m = M{T: 3, Src: byz(), Rnd: rd, Val: vals[r.Intn(2)]}
			}
			// to one honest member or to several; justified messages also in other orders of the justification list
			k := 1 + r.Intn(len(honIDs))
			for _, i := range r.Perm(len(honIDs))[:k] {
				pool = append(pool, flight{to: honIDs[i], m: m})
			}
			if len(m.J) > 1 {
				h.Stats["byz:permuted-justifications"]++
				pms := permsOf(r, m)
				for _, x := range r.Perm(len(pms)) {
					if x >= 4 && len(pms) > 6 { // a few of them, each to one honest member
						continue
					}
					pool = append(pool, flight{to: honIDs[r.Intn(len(honIDs))], m: pms[x]})
				}
			}
		}
		inputs := map[int64]int64{}
		for _, i := range honIDs {
			inputs[i] = vals[r.Intn(2)]
		}
		toP := 1 + r.Intn(5)
		atkP := 4 + r.Intn(12)
		maxSteps := 100 + int(n)*110
		for step := 0; step < maxSteps; step++ {
			var unstarted, noInput, canTO []*proc
			allDone := true
			for _, i := range honIDs {
				p := c.ps[i]
				if !p.started {
					unstarted = append(unstarted, p)
					allDone = false
					continue
				}
				if p.alive() && !p.hasIn {
					noInput = append(noInput, p)
				}
				if p.canTimeout() {
					canTO = append(canTO, p)
					allDone = false
				}
			}
			var deliverable []int
			for i, fl := range pool {
				if c.ps[fl.to].alive() {
					deliverable = append(deliverable, i)
				}
			}
			if allDone && len(deliverable) == 0 {
				break
			}
			x := r.Intn(100)
			switch {
			case len(unstarted) > 0 && (x < 30 || step < 2):
				c.start(unstarted[r.Intn(len(unstarted))])
			case len(noInput) > 0 && x < 45:
				p := noInput[r.Intn(len(noInput))]
				c.giveInput(p, inputs[p.id])
				fan(p)
			case x < 45+atkP:
				attack()
			case len(canTO) > 0 && (x < 45+atkP+toP && len(deliverable) < 4*int(n) || len(deliverable) == 0):
				p := canTO[r.Intn(len(canTO))]
				c.timeout(p)
				fan(p)
			case len(deliverable) > 0:
				k := deliverable[r.Intn(len(deliverable))]
				fl := pool[k]
				if r.Intn(20) > 0 { // mostly consume; sometimes deliver again later
					pool = append(pool[:k], pool[k+1:]...)
				}
				p := c.ps[fl.to]
				c.deliver(p, fl.m, "CmpOk")
				fan(p)
			}
		}
		_ = hon
	})
}

// genCorpusStaleReproposal is a corpus history (minimised failing input of a seeded change, kept as regression):
// n = 4, leader(r) = r mod 4, members 0,1,2 real and honest, member 3 Byzantine and leader of round 3.
// Round 1: leader 1 proposes A; only 1 sees the PREPARE quorum (prepared (1, A)).  Round 2: leader 2 hears round
// changes of 0, 2, 3 only and proposes its own B; 0 and 2 prepare (2, B); 2 decides B, its COMMIT/DECIDED are lost.
// Round 3: the Byzantine leader re-proposes the OLDER value A with a justification made of genuine honest parts only:
// ROUND-CHANGE(1: pr=1, A) listed FIRST, then ROUND-CHANGE(0: pr=2, B), its own null one, and the round-1 PREPARE
// quorum for A -- in this and in every other order.  A correct containsJustifiedQrc rejects it in every order (the
// quorum of round changes holds a higher prepared round than the attached prepares); if it is accepted, 0 and 1
// decide A while 2 decided B.
func genCorpusStaleReproposal(t *testing.T, h *History) {
	h.Kind, h.Nodes, h.Off, h.Fifo, h.Byz = "cluster-byz", 4, 0, 100, []int64{3}
	inBubble(t, h, func(c *cluster) {
		p := []*proc{c.ps[0], c.ps[1], c.ps[2]}
		last := func(q *proc, log *[]M) {
			*log = append(*log, q.bcasts...)
		}
		var out [3][]M
		find := func(i int, typ, rnd int64) (M, bool) {
			for k := len(out[i]) - 1; k >= 0; k-- {
				if out[i][k].T == typ && out[i][k].Rnd == rnd {
					return out[i][k], true
				}
			}
			return M{}, false
		}
		must := func(i int, typ, rnd int64) M {
			m, ok := find(i, typ, rnd)
			if !ok {
				t.Fatalf("corpus C02-m1: node %d did not broadcast type %d for round %d", i, typ, rnd)
			}
			return m
		}
		flat := func(m M) M { m.J = nil; return m }
		deliver := func(i int, ms ...M) {
			for _, m := range ms {
				if p[i].alive() {
					c.deliver(p[i], m, "CmpOk")
					last(p[i], &out[i])
				}
			}
		}
		timeout := func(i int) {
			if p[i].canTimeout() {
				c.timeout(p[i])
				last(p[i], &out[i])
			}
		}
		for i := range p {
			c.start(p[i])
			c.giveInput(p[i], int64(100+i))
			last(p[i], &out[i])
		}
		// round 1
		pp1 := must(1, 1, 1)
		for i := range p {
			deliver(i, pp1)
		}
		prep1 := []M{must(0, 2, 1), must(1, 2, 1), must(2, 2, 1)}
		deliver(1, prep1...)
		timeout(0)
		timeout(1)
		timeout(2)
		// round 2
		deliver(2, must(0, 4, 2), must(2, 4, 2), M{T: 4, Src: 3, Rnd: 2})
		pp2 := must(2, 1, 2)
		for i := range p {
			deliver(i, pp2)
		}
		prep2 := []M{must(0, 2, 2), must(1, 2, 2), must(2, 2, 2)}
		deliver(0, prep2...)
		deliver(2, prep2...)
		deliver(2, must(0, 3, 2), must(2, 3, 2), M{T: 3, Src: 3, Rnd: 2, Val: pp2.Val})
		timeout(0)
		timeout(1)
		rc3n0, rc3n1 := must(0, 4, 3), must(1, 4, 3)
		// round 3: the stale re-proposal, matching round change first; then every other order
		pp3 := M{T: 1, Src: 3, Rnd: 3, Val: pp1.Val, J: []M{flat(rc3n1), flat(rc3n0), {T: 4, Src: 3, Rnd: 3}, flat(prep1[0]), flat(prep1[1]), flat(prep1[2])}}
		variants := append([]M{pp3}, permsOf(rand.New(rand.NewSource(7)), pp3)...) //nolint:gosec
		for _, v := range variants {
			deliver(0, v)
			deliver(1, v)
		}
		if _, ok := find(0, 2, 3); ok {
			if _, ok1 := find(1, 2, 3); ok1 {
				prep3 := []M{must(0, 2, 3), must(1, 2, 3), {T: 2, Src: 3, Rnd: 3, Val: pp1.Val}}
				deliver(0, prep3...)
				deliver(1, prep3...)
				if _, okc := find(0, 3, 3); okc {
					commit3 := []M{must(0, 3, 3), must(1, 3, 3), {T: 3, Src: 3, Rnd: 3, Val: pp1.Val}}
					deliver(0, commit3...)
					deliver(1, commit3...)
				}
			}
		}
		h.Stats["corpus:stale-reproposal"]++
	})
}

// genClusterTimely: at most f processes crash (possibly half-way through a broadcast) or never start;
// every other process has its input; all messages between running processes are delivered (any order)
// before any timer fires; when the network is quiet all running undecided processes time out.
// timelyEnum fixes the crash pattern of a timely schedule: member Crash stops after At own events (0 = never starts)
// and each of its in-flight messages to destination d is lost iff bit d of Mask is set.
type timelyEnum struct {
	Crash int64
	At    int
	Mask  int
}

func genClusterTimely(t *testing.T, r *rand.Rand, h *History) { genClusterTimelyP(t, r, h, nil) }

func genClusterTimelyP(t *testing.T, r *rand.Rand, h *History, en *timelyEnum) {
	h.Nodes = int64(1 + r.Intn(7))
	if r.Intn(3) > 0 {
		h.Nodes = int64(4 + r.Intn(4))
	}
	h.Off = int64(r.Intn(8))
	if en != nil {
		h.Nodes, h.Off = 4, 0
	}
	h.Fifo = 100
	n := h.Nodes
	f := (n - 1) / 3
	nFaulty := int64(0)
	if f > 0 {
		nFaulty = int64(r.Intn(int(f) + 1))
	}
	perm := r.Perm(int(n))
	if r.Intn(2) == 0 { // prefer crashing leaders of the first rounds
		for i := range perm {
			perm[i] = int((h.Off + 1 + int64(i)) % n)
		}
	}
	crashAt := map[int64]int{} // process -> number of own events after which it stops
	for i := int64(0); i < nFaulty; i++ {
		crashAt[int64(perm[i])] = r.Intn(1 + r.Intn(3+r.Intn(int(4*n)))) // 0 = never starts; small = early
	}
	if en != nil {
		crashAt = map[int64]int{en.Crash: en.At}
	}
	sameVal := r.Intn(3) == 0
	inBubble(t, h, func(c *cluster) {
		var pool []flight
		events := map[int64]int{}
		crashed := map[int64]bool{}
		for p, k := range crashAt {
			if k == 0 {
				crashed[p] = true
			}
		}
		check := func(p *proc) {
			events[p.id]++
			pool = c.fanout(pool, p)
			if k, ok := crashAt[p.id]; ok && !crashed[p.id] && events[p.id] >= k {
				crashed[p.id] = true
				// partial broadcast: each in-flight message of the crashed process is lost with probability 1/2
				var keep []flight
				for _, fl := range pool {
					if fl.m.Src == p.id && (en == nil && r.Intn(2) == 0 || en != nil && en.Mask&(1<<uint(fl.to)) != 0) {
						continue
					}
					keep = append(keep, fl)
				}
				pool = keep
			}
		}
		var exp []int64
		for _, p := range c.ps {
			if _, faulty := crashAt[p.id]; !faulty {
				exp = append(exp, p.id)
			}
		}
		h.Expect = exp
		order := r.Perm(int(n))
		startIdx := 0
		timeouts := 0
		for guard := 0; guard < 20000; guard++ {
			done := true
			for _, id := range exp {
				if !c.ps[id].decided {
					done = false
				}
			}
			if done {
				break
			}
			var deliverable []int
			for i, fl := range pool {
				q := c.ps[fl.to]
				if q.alive() && !crashed[q.id] {
					deliverable = append(deliverable, i)
				}
			}
			// late starts interleave with deliveries, but happen before any timeout
			if startIdx < int(n) && (len(deliverable) == 0 || r.Intn(3) == 0) {
				p := c.ps[order[startIdx]]
				startIdx++
				if crashed[p.id] {
					continue
				}
				c.start(p)
				check(p)
				if !crashed[p.id] {
					v := int64(10 + p.id)
					if sameVal {
						v = 7
					}
					c.giveInput(p, v)
					check(p)
				}
				continue
			}
			if len(deliverable) > 0 {
				k := deliverable[r.Intn(len(deliverable))]
				fl := pool[k]
				pool = append(pool[:k], pool[k+1:]...)
				p := c.ps[fl.to]
				c.deliver(p, fl.m, "CmpOk")
				check(p)
				continue
			}
			// quiet: every running undecided process times out
			timeouts++
			if timeouts > int(n)+3 {
				break
			}
			for _, i := range r.Perm(int(n)) {
				p := c.ps[i]
				if p.canTimeout() && !crashed[p.id] {
					c.timeout(p)
					check(p)
				}
			}
		}
		h.Stats["timely:timeout-waves"] += timeouts
	})
}

// ------------------------------------------------------------------------------------------------
// (2) adversarial single-process sequences.

type adv struct {
	r       *rand.Rand
	c       *cluster
	p       *proc
	n, q, f int64
	own     []M // everything the process broadcast so far
	vals    []int64
}

func (a *adv) leader(round int64) int64 { return a.c.leader(round) }

func (a *adv) srcs(k int64, avoid int64) []int64 {
	perm := a.r.Perm(int(a.n))
	var out []int64
	for _, x := range perm {
		if int64(len(out)) == k {
			break
		}
		if int64(x) == avoid {
			continue
		}
		out = append(out, int64(x))
	}
	return out
}

func (a *adv) val() int64 { return a.vals[a.r.Intn(len(a.vals))] }

func (a *adv) prepares(round, v int64, k int64) []M {
	var out []M
	for _, s := range a.srcs(k, -1) {
		out = append(out, M{T: 2, Src: s, Rnd: round, Val: v})
	}
	return out
}

func (a *adv) commits(round, v int64, k int64) []M {
	var out []M
	for _, s := range a.srcs(k, -1) {
		out = append(out, M{T: 3, Src: s, Rnd: round, Val: v})
	}
	return out
}

// qrc builds a justification for PRE-PREPARE(round): k round-changes, and when pr > 0 some of them
// claim (pr, pv) and kp PREPARE(pr, pv) messages are attached.
func (a *adv) qrc(round int64, k int64, pr, pv int64, kp int64) []M {
	var out []M
	ss := a.srcs(k, -1)
	for i, s := range ss {
		m := M{T: 4, Src: s, Rnd: round}
		if pr > 0 && (i == 0 || a.r.Intn(2) == 0) {
			m.PR, m.PV = pr, pv
		}
		out = append(out, m)
	}
	if pr > 0 {
		out = append(out, a.prepares(pr, pv, kp)...)
	}
	return out
}

func (a *adv) send(m M) {
	if !a.p.alive() {
		return
	}
	cmp := "CmpOk"
	if a.c.h.CmpMix {
		cmp = pickCmp(a.r, true)
	}
	a.c.deliver(a.p, m, cmp)
	a.own = append(a.own, a.p.bcasts...)
}

// sendPerms sends m and then the same message with its justification list reordered: every rotation (short lists) plus
// random permutations.  isJustified* must not depend on the order in which a sender lists the parts; the model treats
// the lists as sets of parts with distinct sources, so any order sensitivity of the Go code shows as a mismatch
// (LogUnjust for one order, acceptance for another).
func (a *adv) sendPerms(m M) {
	a.send(m)
	for _, pm := range permsOf(a.r, m) {
		a.send(pm)
	}
	a.c.h.Stats["adv:permuted-justifications"]++
}

// permsOf returns reorderings of m's justification list: all rotations when it is short, the reversal, and a few
// random permutations (which also reorder the ROUND-CHANGEs among themselves and against the PREPAREs).
func permsOf(r *rand.Rand, m M) []M {
	n := len(m.J)
	if n < 2 {
		return nil
	}
	var out []M
	with := func(j []M) {
		c := m
		c.J = j
		out = append(out, c)
	}
	if n <= 9 {
		for k := 1; k < n; k++ {
			with(append(append([]M(nil), m.J[k:]...), m.J[:k]...))
		}
	}
	rev := make([]M, n)
	for i := range m.J {
		rev[n-1-i] = m.J[i]
	}
	with(rev)
	for k := 0; k < 3; k++ {
		with(shuffle(r, m.J))
	}
	return out
}

func (a *adv) timeout() {
	if a.p.canTimeout() {
		a.c.timeout(a.p)
		a.own = append(a.own, a.p.bcasts...)
	}
}

func (a *adv) input(v int64) {
	if a.p.alive() && !a.p.hasIn {
		a.c.giveInput(a.p, v)
		a.own = append(a.own, a.p.bcasts...)
	}
}

func shuffle(r *rand.Rand, ms []M) []M {
	out := append([]M(nil), ms...)
	r.Shuffle(len(out), func(i, j int) { out[i], out[j] = out[j], out[i] })
	return out
}

// defect applies one "almost valid" alteration to a justified message.
func (a *adv) defect(m M, which int) (M, string) {
	j := append([]M(nil), m.J...)
	name := "none"
	switch which {
	case 1: // duplicate source among the round changes / prepares
		if len(j) >= 2 {
			j[1].Src = j[0].Src
			name = "dup-source"
		}
	case 2: // wrong round in one justification part
		if len(j) >= 1 {
			k := a.r.Intn(len(j))
			j[k].Rnd += int64(1 + a.r.Intn(2))
			name = "wrong-round"
		}
	case 3: // prepared round too high in one round change
		for k := range j {
			if j[k].T == 4 {
				j[k].PR += 5
				if j[k].PV == 0 {
					j[k].PV = a.val()
				}
				name = "pr-too-high"
				break
			}
		}
	case 4: // mixed values among prepares / commits
		for k := range j {
			if j[k].T == 2 || j[k].T == 3 {
				j[k].Val += 1
				name = "mixed-values"
				break
			}
		}
	case 5: // quorum - 1
		if len(j) >= 1 {
			k := a.r.Intn(len(j))
			j = append(j[:k], j[k+1:]...)
			name = "one-short"
		}
	case 6: // non-leader / other source
		m.Src = (m.Src + 1 + int64(a.r.Intn(int(a.n)))) % a.n
		name = "other-source"
	case 7: // zero value
		m.Val = 0
		name = "zero-value"
	case 8: // proposes a value different from the justified prepared value
		m.Val += 1
		name = "other-value"
	case 9: // claims a prepared value nobody backs
		m.PR, m.PV = m.PR+1, a.val()
		name = "forged-claim"
	case 10: // mixed prepared rounds: one round change (not the first one) claims a HIGHER prepared round than the attached prepares
		var rcs []int
		hi := int64(0)
		for k := range j {
			if j[k].T == 4 {
				rcs = append(rcs, k)
				if j[k].PR > hi {
					hi = j[k].PR
				}
			}
		}
		if len(rcs) >= 2 && hi > 0 {
			k := rcs[1+a.r.Intn(len(rcs)-1)]
			j[k].PR, j[k].PV = hi+1, m.Val+1
			name = "higher-pr-elsewhere"
		}
	}
	m.J = j
	return m, name
}

func genAdversarial(t *testing.T, r *rand.Rand, h *History, tmpl int) {
	h.Nodes = int64(4 + r.Intn(4))
	if r.Intn(6) == 0 {
		h.Nodes = int64(1 + r.Intn(3))
	}
	h.Off = int64(r.Intn(8))
	h.Fifo = 100
	if tmpl == 6 || r.Intn(6) == 0 {
		h.Fifo = 2 + r.Intn(6)
	}
	h.CmpMix = r.Intn(5) == 0
	n := h.Nodes
	inBubble(t, h, func(c *cluster) {
		self := int64(r.Intn(int(n)))
		a := &adv{r: r, c: c, p: c.ps[self], n: n, q: (2*n + 2) / 3, f: (n - 1) / 3, vals: []int64{1, 2, 3}}
		c.start(a.p)
		if r.Intn(3) > 0 {
			a.input(int64(5 + r.Intn(2)))
		}
		stat := func(s string) { h.Stats["adv:"+s]++ }
		// bring the process to a later round sometimes
		for k := r.Intn(3); k > 0; k-- {
			a.timeout()
		}
		R := func() int64 { return a.p.round }
		switch tmpl {
		case 0: // happy path in the current round, then post-decision ROUND-CHANGE flood
			v := a.val()
			rd := R()
			pp := M{T: 1, Src: a.leader(rd), Rnd: rd, Val: v}
			if rd > 1 {
				pp.J = a.qrc(rd, a.q, 0, 0, 0)
			}
			a.send(pp)
			for _, m := range shuffle(r, a.prepares(rd, v, a.q+int64(r.Intn(2)))) {
				a.send(m)
			}
			for _, m := range shuffle(r, a.commits(rd, v, a.q+int64(r.Intn(2)))) {
				a.send(m)
				if r.Intn(4) == 0 {
					a.send(m)
				}
			}
			stat("happy")
			for k := 0; k < 10+r.Intn(60); k++ {
				src := int64(r.Intn(int(n)))
				a.send(M{T: 4, Src: src, Rnd: rd + int64(r.Intn(6)) + int64(k/3)})
			}
			for k := int64(0); k < 40; k++ { // one source, ever higher rounds: the cap of 16
				a.send(M{T: 4, Src: (self + 1) % n, Rnd: 100 + k})
			}
			stat("resend-flood")
		case 1: // prepared in round rd, time out, re-proposal of the prepared value in round rd+1
			v := a.val()
			rd := R()
			pp := M{T: 1, Src: a.leader(rd), Rnd: rd, Val: v}
			if rd > 1 {
				pp.J = a.qrc(rd, a.q, 0, 0, 0)
			}
			a.send(pp)
			ps := a.prepares(rd, v, a.q)
			for _, m := range ps {
				a.send(m)
			}
			a.timeout()
			nr := rd + 1
			// round changes of the others for nr, some carrying the prepared claim
			rcs := a.srcs(a.q, -1)
			for i, s := range rcs {
				m := M{T: 4, Src: s, Rnd: nr}
				if i%2 == 0 {
					m.PR, m.PV, m.J = rd, v, ps
				}
				if r.Intn(5) == 0 {
					m, _ = a.defect(m, 1+r.Intn(9))
				}
				if len(m.J) > 1 && r.Intn(2) == 0 {
					a.sendPerms(m)
				} else {
					a.send(m)
				}
			}
			// a proposal for nr from its leader
			pp2 := M{T: 1, Src: a.leader(nr), Rnd: nr, Val: v, J: a.qrc(nr, a.q, rd, v, a.q)}
			if r.Intn(2) == 0 {
				var nm string
				pp2, nm = a.defect(pp2, 1+r.Intn(9))
				stat("pp-defect:" + nm)
			}
			a.sendPerms(pp2)
			for _, m := range a.prepares(nr, pp2.Val, a.q) {
				a.send(m)
			}
			for _, m := range a.commits(nr, pp2.Val, a.q) {
				a.send(m)
			}
			stat("reproposal")
		case 2: // justified PRE-PREPAREs for current/future rounds with every defect
			for k := 0; k < 12; k++ {
				rd := R() + int64(r.Intn(3))
				v := a.val()
				pp := M{T: 1, Src: a.leader(rd), Rnd: rd, Val: v}
				if rd > 1 {
					if r.Intn(2) == 0 {
						pp.J = a.qrc(rd, a.q+int64(r.Intn(2)), 0, 0, 0)
					} else {
						pp.J = a.qrc(rd, a.q, 1+int64(r.Intn(int(rd))), v, a.q)
					}
				}
				d := r.Intn(16)
				if d == 15 {
					d = 10
				}
				var nm string
				pp, nm = a.defect(pp, d)
				stat("pp-defect:" + nm)
				a.sendPerms(pp)
				if r.Intn(3) == 0 {
					a.send(pp) // duplicate
				}
				if r.Intn(4) == 0 {
					a.timeout()
				}
			}
		case 3: // DECIDED messages: valid, mixed commits, one short, duplicates
			for k := 0; k < 6; k++ {
				rd := 1 + int64(r.Intn(4))
				v := a.val()
				dm := M{T: 5, Src: int64(r.Intn(int(n))), Rnd: rd, Val: v, J: a.commits(rd, v, a.q)}
				d := 0
				if k < 5 {
					d = []int{1, 2, 4, 5, 7}[r.Intn(5)]
				}
				if d == 7 {
					for i := range dm.J {
						dm.J[i].Val = 0
					}
				}
				var nm string
				dm, nm = a.defect(dm, d)
				stat("decided-defect:" + nm)
				if r.Intn(3) == 0 { // extra unrelated parts: "contains", not "equals"
					dm.J = append(dm.J, M{T: 2, Src: 0, Rnd: rd, Val: v}, M{T: 3, Src: 1, Rnd: rd + 1, Val: v})
				}
				if k < 5 {
					a.sendPerms(dm) // all unjust variants, every order; the valid one decides at first delivery
				} else {
					a.send(dm)
				}
			}
			a.send(M{T: 4, Src: (self + 1) % n, Rnd: 9})
		case 4: // round-change driven: f+1 jumps, quorum round changes at the leader, cached justification
			for k := 0; k < 4; k++ {
				target := R() + 1 + int64(r.Intn(2))
				for i, s := range a.srcs(a.q, self) {
					m := M{T: 4, Src: s, Rnd: target + int64(r.Intn(2))}
					if i == 0 && r.Intn(2) == 0 {
						pr := int64(1 + r.Intn(int(target)))
						pv := a.val()
						m.PR, m.PV, m.J = pr, pv, a.prepares(pr, pv, a.q)
					}
					if r.Intn(6) == 0 {
						m, _ = a.defect(m, 1+r.Intn(9))
					}
					a.send(m)
				}
				// make the process itself reach a round where it leads, then give it the quorum
				for i := 0; i < 8 && a.leader(R()) != self; i++ {
					a.timeout()
				}
				rd := R()
				for _, s := range a.srcs(a.q, -1) {
					a.send(M{T: 4, Src: s, Rnd: rd})
				}
				if r.Intn(2) == 0 {
					a.input(int64(5 + r.Intn(2)))
				}
			}
			stat("round-change")
		case 5: // the repo's own table shapes (core/qbft TestDecideScenarios): commit races
			rd := R()
			type cm struct{ s, r, v int64 }
			shapes := [][]cm{
				{{1, rd, 1}, {2, rd, 2}, {3, rd, 2}, {0, rd, 2}},
				{{0, rd, 1}, {1, rd, 1}, {2, rd, 2}, {3, rd, 2}},
				{{1, rd + 1, 2}, {2, rd, 2}, {3, rd, 2}, {0, rd, 2}},
				{{1, rd, 1}, {2, rd, 2}, {3, rd, 2}, {1, rd, 2}},
				{{1, rd, 1}, {1, rd, 2}, {2, rd, 1}, {3, rd, 2}},
				{{1, rd, 2}, {1, rd, 2}, {1, rd, 2}, {2, rd, 2}, {3, rd, 2}},
			}
			sh := shapes[r.Intn(len(shapes))]
			for _, x := range sh {
				a.send(M{T: 3, Src: x.s % n, Rnd: x.r, Val: x.v})
			}
			a.send(M{T: 4, Src: 1 % n, Rnd: rd + 1})
			a.send(M{T: 4, Src: 2 % n, Rnd: rd + 1})
			for _, m := range a.commits(rd+1, 2, a.q) {
				a.send(m)
			}
			stat("repo-table")
		case 6: // FIFO overflow: one source floods, evicting its own earlier vote
			rd := R()
			v := a.val()
			ss := a.srcs(a.q, -1)
			for _, s := range ss[1:] {
				a.send(M{T: 3, Src: s, Rnd: rd, Val: v})
			}
			if r.Intn(2) == 0 {
				a.send(M{T: 3, Src: ss[0], Rnd: rd, Val: v + 10}) // real vote first, then spam evicts nothing relevant
			}
			for k := 0; k < h.Fifo-1+r.Intn(4); k++ { // around the eviction boundary
				a.send(M{T: 3, Src: ss[1%len(ss)], Rnd: rd, Val: v + 1 + int64(k%2)})
			}
			a.send(M{T: 3, Src: ss[0], Rnd: rd, Val: v})
			a.send(M{T: 3, Src: ss[1%len(ss)], Rnd: rd, Val: v})
			stat("fifo-overflow")
		case 8: // several ROUND-CHANGEs per source (own FIFO vs nested in another source's message): map-order dependent classify
			for i := 0; i < 8 && (a.leader(R()) != self || R() < 2); i++ {
				a.timeout()
			}
			rd := R()
			v1, v2 := int64(1), int64(2)
			variant := func(s int64, k int) M {
				switch k {
				case 1:
					return M{T: 4, Src: s, Rnd: rd, PR: 1, PV: v1, J: a.prepares(1, v1, a.q)}
				case 2:
					if rd > 2 {
						return M{T: 4, Src: s, Rnd: rd, PR: 2, PV: v2, J: a.prepares(2, v2, a.q)}
					}
					return M{T: 4, Src: s, Rnd: rd, PR: 1, PV: v2, J: a.prepares(1, v2, a.q)}
				}
				return M{T: 4, Src: s, Rnd: rd}
			}
			ss := a.srcs(a.q+int64(r.Intn(2)), -1)
			nulls := 0
			for _, s := range ss {
				k := r.Intn(3)
				if k == 0 {
					nulls++
					if int64(nulls) >= a.q { // keep the null quorum away most of the time
						k = 1 + r.Intn(2)
					}
				}
				m := variant(s, k)
				if r.Intn(2) == 0 { // a second, different claim of the same source, seen only inside another message
					alt := variant(s, (k+1+r.Intn(2))%3)
					if r.Intn(3) == 0 { // a claim nobody backs (only possible nested: a top-level one would be dropped as unjust)
						alt = M{T: 4, Src: s, Rnd: rd, PR: 3 + int64(r.Intn(2)), PV: 3}
					}
					carrier := M{T: 2, Src: int64(r.Intn(int(n))), Rnd: rd + 5, Val: 9, J: append([]M{alt}, alt.J...)}
					carrier.J[0].J = nil
					if r.Intn(2) == 0 {
						a.send(carrier)
						a.send(m)
					} else {
						a.send(m)
						a.send(carrier)
					}
				} else {
					a.send(m)
				}
			}
			a.input(int64(5 + r.Intn(2)))
			stat("ambiguous-rc")
		default: // (7) soup: random small-domain messages around the current round, own messages echoed back
			steps := 25 + r.Intn(50)
			for k := 0; k < steps && a.p.alive(); k++ {
				x := r.Intn(100)
				switch {
				case x < 6:
					a.timeout()
				case x < 9:
					v := int64(5 + r.Intn(2))
					if r.Intn(12) == 0 {
						v = 0
					}
					a.input(v)
				case x < 22 && len(a.own) > 0:
					a.send(a.own[r.Intn(len(a.own))])
				default:
					rd := R() + int64(r.Intn(4)) - 1
					if rd < 0 {
						rd = 0
					}
					m := M{T: int64(1 + r.Intn(5)), Src: int64(r.Intn(int(n))), Rnd: rd, Val: int64(r.Intn(3))}
					if r.Intn(3) == 0 {
						m.PR, m.PV = int64(r.Intn(int(rd)+1)), int64(r.Intn(3))
					}
					if m.T == 1 && r.Intn(3) > 0 {
						m.Src = a.leader(rd)
					}
					switch r.Intn(5) {
					case 0:
						m.J = a.qrc(rd, a.q-int64(r.Intn(2)), int64(r.Intn(int(rd)+1)), int64(r.Intn(3)), a.q-int64(r.Intn(2)))
					case 1:
						m.J = a.prepares(m.PR, m.PV, a.q-int64(r.Intn(2)))
					case 2:
						m.J = a.commits(rd, m.Val, a.q-int64(r.Intn(2)))
					case 3:
						for i := r.Intn(5); i > 0; i-- {
							m.J = append(m.J, M{T: int64(1 + r.Intn(5)), Src: int64(r.Intn(int(n))), Rnd: int64(r.Intn(4)), Val: int64(r.Intn(3)), PR: int64(r.Intn(3)), PV: int64(r.Intn(3))})
						}
					}
					if len(m.J) > 1 && r.Intn(4) == 0 {
						a.sendPerms(m)
					} else {
						a.send(m)
					}
				}
			}
			stat("soup")
		}
	})
}

// ------------------------------------------------------------------------------------------------

func nonTrivial(h *History) bool {
	for k, v := range h.Stats {
		if strings.HasPrefix(k, "rule:") && v > 0 {
			return true
		}
	}
	return false
}

func TestGen(t *testing.T) {
	var replay History
	if ok, err := hx.ReadReplay(&replay); ok {
		if err != nil {
			t.Fatal(err)
		}
		kind := replay.Kind // keep the kind of the replayed history: the monitors that apply depend on it
		if kind == "" {
			kind = "replay"
		}
		h := History{ID: 0, Kind: kind, Nodes: replay.Nodes, Fifo: replay.Fifo, Off: replay.Off, Expect: replay.Expect, CmpMix: replay.CmpMix, Byz: replay.Byz}
		replayEvents(t, &h, replay.Events)
		if err := hx.WriteJSON("qbft_traces.json", []History{h}); err != nil {
			t.Fatal(err)
		}
		return
	}

	n := hx.IntEnv("VERIF_N", 400)
	var hs []History
	if hx.IntEnv("VERIF_ENUM", 0) == 1 {
		// exhaustive crash patterns for n = 4 (f = 1): crashed member x crash point x subset of recipients that still
		// get its in-flight messages; delivery order random per history
		for crash := int64(0); crash < 4; crash++ {
			for at := 0; at <= 12; at++ {
				for mask := 0; mask < 16; mask++ {
					h := History{ID: len(hs), Kind: "cluster-timely"}
					r := rand.New(rand.NewSource(hx.Seed()*1_000_003 + int64(len(hs)))) //nolint:gosec
					genClusterTimelyP(t, r, &h, &timelyEnum{Crash: crash, At: at, Mask: mask})
					h.Stats["timely:enumerated"]++
					hs = append(hs, h)
				}
			}
		}
		n = 0
	} else if n > 0 {
		// corpus first
		h := History{ID: 0}
		genCorpusStaleReproposal(t, &h)
		hs = append(hs, h)
	}
	for len(hs) < n {
		h := History{ID: len(hs)}
		// one generator per history, derived from (VERIF_SEED, id): Go's map-order nondeterminism inside
		// one execution then cannot shift the random choices of the other histories
		r := rand.New(rand.NewSource(hx.Seed()*1_000_003 + int64(len(hs)))) //nolint:gosec
		switch x := len(hs) % 10; {
		case x < 3:
			h.Kind = "cluster-random"
			genClusterRandom(t, r, &h)
		case x < 5:
			h.Kind = "cluster-timely"
			genClusterTimely(t, r, &h)
		case x < 6:
			h.Kind = "cluster-byz"
			genClusterByz(t, r, &h)
		default:
			tmpl := r.Intn(12) // 0..6, 8 = templates; 7, 9.. = soup
			if tmpl == 7 || tmpl > 8 {
				tmpl = 7
			}
			h.Kind = fmt.Sprintf("adv-%d", tmpl)
			genAdversarial(t, r, &h, tmpl)
		}
		hs = append(hs, h)
	}

	// determinism of the recording itself: replaying the recorded events of a few histories gives the same trace
	nd := 0
	for i := 0; i < len(hs) && nd < 6; i += 1 + len(hs)/6 {
		h2 := History{Nodes: hs[i].Nodes, Fifo: hs[i].Fifo, Off: hs[i].Off}
		replayEvents(t, &h2, hs[i].Events)
		if len(h2.Trace) != len(hs[i].Trace) {
			t.Fatalf("history %d: replay has %d labels, recording %d", i, len(h2.Trace), len(hs[i].Trace))
		}
		nd++
	}

	if err := hx.WriteJSON("qbft_traces.json", hs); err != nil {
		t.Fatal(err)
	}

	// Quorum()/Faulty() of core/qbft.Definition for n = 1..200
	var qf [][2]int
	for k := 1; k <= 200; k++ {
		d := cq.Definition[int64, int64, int64]{Nodes: k}
		qf = append(qf, [2]int{d.Quorum(), d.Faulty()})
	}
	if err := hx.WriteJSON("qbft_qf.json", qf); err != nil {
		t.Fatal(err)
	}
	keys := make([]string, 0)
	agg := map[string]int{}
	for _, h := range hs {
		for k, v := range h.Stats {
			agg[k] += v
		}
	}
	for k := range agg {
		keys = append(keys, k)
	}
	sort.Strings(keys)
	for _, k := range keys {
		t.Logf("%s=%d", k, agg[k])
	}
	_ = nonTrivial
}

// TestRefute replays, against the real qbft.Run, the documented negative result of C02: if Definition.Compare may
// answer differently for the same (process, value) at different times, a Byzantine leader breaks agreement through the
// compareFailureRound+1 shortcut of isJustifiedPrePrepare.  n = 4, Byzantine member 2 (leader of round 3), honest 0
// (leader of round 1), 1 (leader of round 2), 3.  Member 0 decides A in round 1, member 1 decides B in round 3.
func TestRefute(t *testing.T) {
	const A, B = 7, 8
	h := History{ID: 0, Kind: "refute-cmp-arbitrary", Nodes: 4, Fifo: 100, Off: 3, Byz: []int64{2}, CmpMix: true}
	inBubble(t, &h, func(c *cluster) {
		p0, p1, p3 := c.ps[0], c.ps[1], c.ps[3]
		for _, p := range []*proc{p0, p1, p3} {
			c.start(p)
		}
		c.giveInput(p0, A) // leader of round 1 proposes A
		ppA := p0.bcasts[0]
		c.giveInput(p1, B)
		c.giveInput(p3, B)
		c.deliver(p0, ppA, "CmpOk")
		prep0 := p0.bcasts[0]
		c.deliver(p1, ppA, "CmpOk")
		prep1 := p1.bcasts[0]
		c.deliver(p3, ppA, "CmpFail") // member 3 rejects A: compareFailureRound = 1
		prepZ := M{T: 2, Src: 2, Rnd: 1, Val: A}
		for _, p := range []*proc{p0, p1} {
			c.deliver(p, prep0, "CmpOk")
			c.deliver(p, prep1, "CmpOk")
		}
		c.deliver(p0, prepZ, "CmpOk") // quorum of PREPARE(1, A) at 0 -> COMMIT
		com0 := p0.bcasts[0]
		c.deliver(p1, prepZ, "CmpOk")
		com1 := p1.bcasts[0]
		comZ := M{T: 3, Src: 2, Rnd: 1, Val: A}
		c.deliver(p0, com0, "CmpOk")
		c.deliver(p0, com1, "CmpOk")
		c.deliver(p0, comZ, "CmpOk") // 0 decides A; the Byzantine commit is withheld from 1
		c.deliver(p1, com0, "CmpOk")
		c.deliver(p1, com1, "CmpOk")
		// round 2: 1 and 3 time out; 1 leads and re-proposes the prepared value A
		c.timeout(p1)
		rc1 := p1.bcasts[0]
		c.timeout(p3)
		rc3 := p3.bcasts[0]
		rcZ := M{T: 4, Src: 2, Rnd: 2}
		c.deliver(p1, rc1, "CmpOk")
		c.deliver(p1, rc3, "CmpOk")
		c.deliver(p1, rcZ, "CmpOk")
		if len(p1.bcasts) != 1 || p1.bcasts[0].T != 1 {
			t.Fatalf("leader of round 2 did not propose: %v", p1.outs)
		}
		pp2 := p1.bcasts[0]
		c.deliver(p1, pp2, "CmpFail") // same member, same value A, other verdict: compareFailureRound = 2
		c.deliver(p3, pp2, "CmpFail")
		// round 3: Byzantine leader 2 proposes B without any justification
		pp3 := M{T: 1, Src: 2, Rnd: 3, Val: B}
		c.deliver(p1, pp3, "CmpOk")
		prepB1 := p1.bcasts[0]
		c.deliver(p3, pp3, "CmpOk")
		prepB3 := p3.bcasts[0]
		prepBZ := M{T: 2, Src: 2, Rnd: 3, Val: B}
		for _, p := range []*proc{p1, p3} {
			c.deliver(p, prepB1, "CmpOk")
			c.deliver(p, prepB3, "CmpOk")
		}
		c.deliver(p1, prepBZ, "CmpOk")
		comB1 := p1.bcasts[0]
		c.deliver(p3, prepBZ, "CmpOk")
		comB3 := p3.bcasts[0]
		comBZ := M{T: 3, Src: 2, Rnd: 3, Val: B}
		c.deliver(p1, comB1, "CmpOk")
		c.deliver(p1, comB3, "CmpOk")
		c.deliver(p1, comBZ, "CmpOk") // 1 decides B
	})
	if err := hx.WriteJSON("qbft_refute.json", []History{h}); err != nil {
		t.Fatal(err)
	}
}
