#!/bin/sh
# Build the whole Coq development (full .vo) and warm the Go build cache for the harness packages.
set -e
cd /verif
python3 - <<'PY'
import sys
sys.path.insert(0, "lib")
import vp
ok, failing, log = vp.coq_build(None, timeout=3400, keep_going=True)
print(log[-2000:])
if not ok:
    # keep going: every check rebuilds (and reports on) exactly the files its property depends on
    print("coq build: some file failed (first: %s); the checks that depend on it will report it" % failing)
gm = vp.harness_prepare()
env = vp.go_env()
# overlay/ holds in-package files that are only ever compiled inside /repo packages through `go test -overlay`
rc, out = vp.sh("go test -modfile=%s -tags verif -count=1 -run XXX_NONE $(go list -modfile=%s -tags verif ./... | grep -v /overlay/) 2>&1 | tail -40" % (gm, gm), cwd=vp.HARNESS, env=env, timeout=3000)
print(out)
PY
