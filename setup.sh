#!/bin/sh
# Build the whole Coq development (full .vo) and warm the Go build cache for the harness packages.
set -e
cd /verif
python3 - <<'PY'
import sys
sys.path.insert(0, "lib")
import vp
ok, failing, log = vp.coq_build(None, timeout=3400)
print(log[-2000:])
if not ok:
    print("coq build failed at", failing); sys.exit(1)
gm = vp.harness_prepare()
env = vp.go_env()
rc, out = vp.sh("go test -modfile=%s -tags verif -count=1 -run XXX_NONE ./... 2>&1 | tail -30" % gm, cwd=vp.HARNESS, env=env, timeout=3000)
print(out)
PY
