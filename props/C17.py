"""C17 aggregate-signature store (both in-memory implementations): theorems in coq/Properties/C17.v;
correspondence = trace inclusion of the label sequences recorded from core/aggsigdb/memory.go and
memory_v2.go in the models coq/Stores/AggSigDBv1.v and AggSigDBv2.v, plus the specification
monitor (Stores/AggSigDB.v) evaluated on every recorded trace."""
import json
import os
import re

import vp


def cases_v(hs):
    rows1, rows2 = [], []
    for h in hs:
        row = "(%d%%nat, [%s])" % (h["id"], "; ".join(h["labels"]))
        (rows1 if h["impl"] == "v1" else rows2).append(row)
    return """From Coq Require Import List NArith Bool.
From Charon Require Import Stores.AggSigDB Stores.AggSigDBv1 Stores.AggSigDBv2.
Import ListNotations.
Local Open Scope N_scope.
Definition cases1 : list (nat * list label1) := [
%s
].
Definition cases2 : list (nat * list label2) := [
%s
].
Definition rejects1 := Eval vm_compute in
  flat_map (fun c => match first_reject1 init1 (snd c) 0 with Some i => [(fst c, i)] | None => [] end) cases1.
Definition hits1 := Eval vm_compute in
  flat_map (fun c => match first_violation1 (snd c) with Some i => [(fst c, i)] | None => [] end) cases1.
Definition rejects2 := Eval vm_compute in
  flat_map (fun c => match first_reject2 false init2 (snd c) 0 with Some i => [(fst c, i)] | None => [] end) cases2.
Definition hits2 := Eval vm_compute in
  flat_map (fun c => match first_violation2 (snd c) with Some i => [(fst c, i)] | None => [] end) cases2.
Print rejects1.
Print hits1.
Print rejects2.
Print hits2.
""" % (";\n".join(rows1), ";\n".join(rows2))


def pairs(term):
    return [(int(a), int(b)) for a, b in re.findall(r"\((\d+)%?n?a?t?, (\d+)%?n?a?t?\)", term or "")]


def classify(impl, lab):
    """Stable key of a monitor violation, by what the offending label says."""
    if impl == "v2" and (lab.startswith("LQuiet2") or (lab.startswith("LLookup") and lab.endswith("None"))):
        return "F3:lost-wakeup-v2", "a reader of MemDBV2 is still blocked although its key is stored (lost wake-up)"
    if impl == "v1" and lab.startswith("LQuiet"):
        return "lost-wakeup-v1", "a reader of MemDB is still blocked although its key is stored (lost wake-up)"
    if lab.startswith("LAnswer") or lab.startswith("LLookup"):
        return "wrong-value-" + impl, "a read returned a value its key did not hold while the read was in progress"
    if lab.startswith("LWrite") or lab.startswith("LStore"):
        return "store-result-" + impl, "Store returned the wrong result (conflicting data accepted, or equal/new data rejected)"
    return "trace-monitor-" + impl, "the observed trace violates the C17 monitor"


LABEL_KINDS = ["LWrite", "LQuery", "LAnswer", "LCancel", "LExpire", "LQuiet", "LAwait", "LLookup", "LWake", "LStore",
               "LCancel2", "LExpire2", "LQuiet2"]


def main():
    R = vp.Result("C17")
    R.assumptions = [
        "values are compared by their JSON encoding (dataEqual); a value id in the model stands for one JSON encoding",
        "keysByDuty is modelled as the index {k in data | k.duty = d} (both append sites use key.duty); expiry = filter",
        "not modelled: ctx cancellation / ErrStopped inside Store, Clone / JSON-marshal / SyncSubcommitteeIndex errors, Await called with an already cancelled context, shutdown (Run's ctx)",
        "v1: a cancelled query is dropped from the model at once; the code drops it at the next write (it is never executed again nor observable in between)",
        "deadliner.Add's return value is ignored by the code (a store for an already expired duty is kept); expiry is whatever the deadliner channel delivers",
        "harness histories are quiescent between operations (synctest.Wait) except inside 'par' operations (readers racing with one Store under the Go scheduler); the theorems cover all interleavings of the atomic steps, and C17_v1/v2_quiescent_outcome shows the observable outcome at the next quiescent point does not depend on the schedule",
        "a read cancelled by its own context is rendered LQuery;LCancel (v1) / LAwait;LCancel2 (v2) also when the cancellation won before the query reached the store (same model state); the models accept both outcomes of the cancel-vs-ready-answer race, and a store/loop that stops responding afterwards is reported as wedged-after-cancelled-read-<impl>",
        "v2 internal labels (LWake, LLookup .. None of still-blocked readers) and the iteration order of a failed multi-entry Store are inferred from the observations (returned readers, probe reads), not observed individually",
    ]
    R.proofs()
    n = 8000 if R.thorough else 500
    rc, out, od = vp.go_harness("aggsigdb", env_extra={"VERIF_N": n})
    if rc != 0:
        R.broke("correspondence:harness aggsigdb failed to run", out[-3000:])
        R.finish()
    hs = json.load(open(os.path.join(od, "c17_traces.json")))
    # Second pass under the Go race detector (other seed): the models treat "look the key up and keep the
    # current notification channel" / "store and replace the channel" / the actor's state as atomic
    # sections; an unsynchronised access to that state is reported here even when the scheduler does
    # not happen to produce the losing interleaving.
    if not os.environ.get("VERIF_REPLAY"):
        nr = 600 if R.thorough else 150
        rc, out, odr = vp.go_harness("aggsigdb", env_extra={"VERIF_N": nr, "VERIF_SEED": R.seed + 7919},
                                     outdir=os.path.join(vp.WORK, "aggsigdb_race"), extra_args="-race")
        R.coverage["race_detector_pass"] = {"scripts": nr, "rc": rc}
        if rc != 0 and "DATA RACE" in out and "core/aggsigdb" in out:
            i = out.index("WARNING: DATA RACE")
            R.broke("correspondence:data race in core/aggsigdb reported by the Go race detector (atomic sections assumed by the models are not atomic)",
                    out[i:i + 2500])
        elif rc != 0:
            R.broke("correspondence:harness aggsigdb failed to run under -race", out[-3000:])
        else:
            for h in json.load(open(os.path.join(odr, "c17_traces.json"))):
                h["id"] += 1000000
                h["kind"] += "+race"
                hs.append(h)
    R.coverage["evaluations"] = len(hs)
    seen = set()
    for h in hs:
        if h.get("nontrivial"):
            seen.add(vp.digest([h["impl"], h["labels"]]))
    R.coverage["distinct_nontrivial"] = len(seen)
    R.coverage["rule"] = ("histories of await/store/cancel/expire/par operations (par = up to 8 readers started concurrently with one Store) run against BOTH aggsigdb.NewMemDB and "
                          "aggsigdb.NewMemDBV2 (go db.Run) with a scripted core.Deadliner in a synctest bubble; real core.SignedData values (VersionedAttestation, SignedSyncMessage, SignedRandao, "
                          "SyncCommitteeSelection keyed by subcommittee); kinds: corpus (minimised F3 histories first), random, waiters (2..8 readers blocked on <=2 keys, then stores), "
                          "partial (multi-entry Store with a conflicting entry while readers wait for the others), expiry (expire then re-store other data), par, "
                          "cancelrace (10..40 reads, mostly of PRESENT keys, whose context cancels itself during its k-th Done()/Err() call, k=1..4, each followed by a liveness check of the database loop, then a probe = Store+Await of a fresh key that must both complete; every Store runs in its own goroutine so a hanging Store is observed, not a harness deadlock), "
                          "abandon (Stores of the same value / other data / a new key, and Awaits, whose caller context is cancelled before the call, during its k-th Done()/Err() call, or by a hook in the value's MarshalJSON while the store compares it with the existing data; whether the abandoned Store took effect is observed by a probe read and both outcomes are accepted; each is followed by the loop liveness check, then reads of present keys, a probe and stores that must wake the remaining waiters); "
                          "non-trivial = at least 2 readers were blocked at the moment of some store; distinct by hash of (implementation, observed label sequence)")
    kinds, impls, blocked_hist = {}, {}, {}
    lab_counts = {k: 0 for k in LABEL_KINDS}
    nlabels = mism = partial = par_ops = 0
    for h in hs:
        kinds[h["kind"]] = kinds.get(h["kind"], 0) + 1
        impls[h["impl"]] = impls.get(h["impl"], 0) + 1
        b = min(h["max_blocked"], 8)
        blocked_hist[str(b)] = blocked_hist.get(str(b), 0) + 1
        nlabels += len(h["labels"])
        for l in h["labels"]:
            w = l.split(" ")[0]
            lab_counts[w] = lab_counts.get(w, 0) + 1
        mism += sum(1 for l in h["labels"] if l.endswith("WMismatch"))
        partial += 1 if any(re.match(r"L(Query|Await) 1\d\d\d ", l) for l in h["labels"]) else 0
        par_ops += sum(1 for o in h["script"] if o["op"] == "par")
    R.coverage["input_distribution"] = {"kinds": kinds, "implementations": impls, "labels_total": nlabels, "label_kinds": lab_counts,
                                        "max_readers_blocked_at_a_store": blocked_hist, "rejected_stores": mism,
                                        "histories_with_partially_failing_multi_entry_store": partial, "par_operations": par_ops}
    missing = [k for k, c in lab_counts.items() if c == 0]
    if missing and not os.environ.get("VERIF_REPLAY"):
        R.notes.append("label kinds not exercised in this run: " + ", ".join(missing))
    R.add_samples([{"impl": h["impl"], "script": h["script"], "labels": h["labels"]} for h in hs if h.get("nontrivial") and h["kind"] != "corpus"][:2])
    byid = {h["id"]: h for h in hs}
    for f in os.listdir(os.path.join(vp.COQ, "gen")):   # shards of an earlier (larger) run
        if f.startswith("cases_C17_"):
            os.remove(os.path.join(vp.COQ, "gen", f))

    def replay_of(h, idx=None):
        rp = {"impl": h["impl"], "script": h["script"], "labels": h["labels"],
              "how": "./check C17 --replay <this file> re-runs the script against the implementation named in impl"}
        if idx is not None:
            rp["index"] = idx
        return rp

    for h in hs:
        if h.get("anomaly"):
            key = "anomaly-" + h["impl"]
            if h["anomaly"].startswith("wedged"):
                key = "wedged-"
                if "abandoned Store" in h["anomaly"]:
                    key = "wedged-after-abandoned-store-"
                elif any(o["op"] == "cread" for o in h["script"]):
                    key = "wedged-after-cancelled-read-"
                key += h["impl"]
            R.violation(key, "aggsigdb %s: %s" % (h["impl"], h["anomaly"]), replay_of(h))
    for shard_i, shard in enumerate(vp.chunks(hs, 1000)):
        rc, out = vp.coq_eval("C17_%d" % shard_i, cases_v(shard))
        if rc != 0:
            R.broke("correspondence:cases_C17 does not compile", out[-3000:])
            continue
        hit_ids = set()
        for marker in ("hits1", "hits2"):
            for cid, idx in pairs(vp.parse_marked(out, marker)):
                h = byid[cid]
                hit_ids.add(cid)
                if h.get("anomaly"):
                    continue   # already reported with the anomaly
                lab = h["labels"][idx] if idx < len(h["labels"]) else "?"
                key, what = classify(h["impl"], lab)
                R.violation(key, "%s: %s — monitor fails at label %d (%s)" % (h["impl"], what, idx, lab), replay_of(h, idx))
        for marker in ("rejects1", "rejects2"):
            for cid, idx in pairs(vp.parse_marked(out, marker)):
                if cid in hit_ids or byid[cid].get("anomaly"):
                    continue
                h = byid[cid]
                R.broke("correspondence:AggSigDB%s model rejects observed trace %d at label %d (%s)" % (
                    h["impl"], cid, idx, h["labels"][idx] if idx < len(h["labels"]) else "?"), json.dumps(replay_of(h, idx)))
    R.coverage["traces_validated_against_impl"] = len(hs)
    R.finish()
