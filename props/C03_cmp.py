"""Stand-alone run of the compare-failure part of C03 (props/c03_cmp.py) under the scratch id
C03_cmp:  ./check C03_cmp [--tier quick|thorough] [--replay file].  The id is not in the
manifest; the C03 check calls c03_cmp.run(R) itself."""
import vp
import c03_cmp


def main():
    R = vp.Result("C03_cmp")
    c03_cmp.run(R)
    R.finish()
