"""C03 validity/integrity: theorems in coq/Properties/C03.v (single-process: decide once, Decide backed by a commit
quorum, bounded DECIDED re-broadcast, non-zero PREPAREs, all label sequences of the model); correspondence = trace
inclusion of recorded label sequences of the real core/qbft.Run; monitors on observed executions: the single-process
monitor (Qbft/Monitor.v) on every process, and on honest cluster executions: decide at most once, never the zero value,
qcommit contains a commit quorum."""
import os

import vp
import qbft_engine as qe

CODES = {1: "decided twice", 2: "decided the zero value", 3: "qcommit without a quorum of COMMIT(round, value)"}


def main():
    R = vp.Result("C03")
    R.assumptions = [
        "decide_nonzero, decide_leader_proposed and validity_no_byz are proved at network level (Qbft/Net.v, <= f Byzantine) for executions in which Compare never fails (default configuration); single-process a quorum of forged COMMIT(r, 0) makes qbft.Run decide 0, so 'never zero' is monitored on honest cluster executions only",
        "signatures and value hashes are symbolic: a message part with an honest source exists only if that member broadcast it",
        "after its Decide the Go code can still release one cached PRE-PREPARE when its own input arrives late (ppjCache is kept when the decision does not change the round); the theorem C03_after_decision states exactly what can follow a decision",
        "the model Qbft/Model.v is tied to core/qbft/qbft.go by sampled trace inclusion (synctest, one event at a time)",
        "Go map-iteration nondeterminism is absorbed by admissibility checks that over-approximate the orders Go can produce",
    ]
    R.proofs(extra_targets=["Qbft/Corr.v"])
    n = 8000 if R.thorough else 500
    res = qe.run(R, n)
    qe.coverage(R, res)
    qe.report_common(R, res, "C03")
    for cid, pid, code in res["c03"]:
        h = res["byid"][cid]
        honest = h["kind"].startswith("cluster")
        if os.environ.get("VERIF_REPLAY") and cid in {x[0] for x in res.get("deliv", [])}:
            continue  # the recorded events are not an execution on this tree
        if code == 2 and not honest:
            continue  # zero value decided from forged commits of > f sources: outside the fault assumption
        R.violation("integrity:%d" % code, "process %d of history %d (%s, n=%d): %s" % (pid, cid, h["kind"], h["nodes"], CODES.get(code, code)),
                    qe.replay_obj(h))
    for cid, pid, k in res["m3"]:
        h = res["byid"][cid]
        gi = qe.own_label_index(h, pid, k)
        R.violation("integrity:monitor", "process %d of history %d (%s): label %d violates the single-process C03 monitor (%s)" % (
            pid, cid, h["kind"], k, (h["trace"][gi] if gi is not None else "?")[:300]), qe.replay_obj(h, gi))
    R.coverage["monitor"] = "C03: mon3 (decide once / backed / bounded DECIDED re-broadcast) on every process of every execution; zero-value only on honest cluster executions"
    # CmpFail extension built separately: props/c03_cmp.py
    try:
        import c03_cmp
    except ImportError:
        c03_cmp = None
    if c03_cmp is not None:
        c03_cmp.run(R)
    # wrapper lifecycle (Participate / Propose / handle over the life of duties): props/c03_wrapper.py
    try:
        import c03_wrapper
    except ImportError:
        c03_wrapper = None
    if c03_wrapper is not None:
        c03_wrapper.run(R)
    R.finish()
