"""verifyMsgLimits clause of C04: theorems in coq/Properties/C04_limits.v (every message an honest qbft.Run hands to
Transport.Broadcast has at most 2n justification parts and at most 2(parts+1) values, provided received messages respect the
limit); correspondence:
 (1) the decision table of the REAL verifyMsgLimits (overlay test in core/consensus/qbft) = wrapper_limits_okb;
 (2) the values the REAL transport.Broadcast attaches = msg_values, and its wire message passes the real verifyMsgLimits;
 (3) on executions of the real core/qbft.Run (harness/qbft TestGen and TestCmpFun): whenever every received message respects
     the limit and names members only, no Broadcast exceeds the per-type bounds (bcast_over).

run(R) is called by props/C04.py with the vp.Result of the C04 check (it does not call R.finish());
props/C04_limits.py runs it alone under the scratch id C04_limits."""
import json
import os
from concurrent.futures import ThreadPoolExecutor

import vp
import qbft_engine as qe
import c02_cmp as cc

OVERLAY = os.path.join(vp.VERIF, "harness", "overlay", "core_consensus_qbft", "zz_verif_limits_test.go")

HEADER = """From Coq Require Import List NArith Arith Bool.
From Charon Require Import Common.Quorum Qbft.Model Qbft.Monitor Qbft.Net Qbft.Corr Qbft.MsgLimits.
Import ListNotations.
Local Open Scope nat_scope.
"""


def table_v(o):
    rows = "; ".join("(%d, %d, %d, %s)" % (n, j, v, "true" if ok else "false") for n, j, v, ok in o["table"])
    bcs = []
    for k, b in enumerate(o["bcasts"]):
        parts = "; ".join("(%d%%N, %d%%N)" % (p[0], p[1]) for p in (b["parts"] or []))
        bcs.append("(%d, %d, (%d%%N, %d%%N), [%s], %d, %d, %s)" % (k, b["nodes"], b["main"][0], b["main"][1], parts, b["njust"], b["nvals"],
                                                                "true" if b["passes"] else "false"))
    return HEADER + """Definition table : list (nat * nat * nat * bool) := [%s].
Definition table_bad := Eval vm_compute in
  flat_map (fun r => match r with (n, j, v, ok) => if Bool.eqb (wrapper_limits_okb n j v) ok then [] else [(n, (j, v))] end) table.
Definition bcs : list (nat * nat * (N * N) * list (N * N) * nat * nat * bool) := [%s].
Definition bcast_bad := Eval vm_compute in
  flat_map (fun r => match r with (k, n, (mv, mpv), ps, nj, nv, ok) =>
     let b := mk PrePrepare 0 2 mv 1 mpv in
     let J := map (fun p => mk Prepare 0 1 (fst p) 0 (snd p)) ps in
     if (length J =? nj) && (length (msg_values b J) =? nv) && Bool.eqb (limits_okb n b J) ok && ok then [] else [k] end) bcs.
Print table_bad.
Print bcast_bad.
""" % (rows, ";\n".join(bcs))


def traces_v(hs):
    return HEADER + "Definition cases : list case := [\n" + ";\n".join(cc.case_term(h) for h in hs) + "\n].\n" + """
(* premise of C04_limits_run / C04_limits_net on the observed execution: members only, at most 2n parts *)
Definition recv_ok (n : nat) (t : list (nat * label)) : bool :=
  forallb (fun e => match snd e with
                    | LRecv m _ _ => (length (just m) <=? 2 * n) && (src (main m) <? n) && forallb (fun y => src y <? n) (just m)
                    | _ => true end) t.
Definition premise := Eval vm_compute in flat_map (fun c => if recv_ok (c_nodes c) (c_trace c) then [c_id c] else []) cases.
Definition over := Eval vm_compute in
  flat_map (fun c => if recv_ok (c_nodes c) (c_trace c) then map (fun k => (c_id c, k)) (bcast_over (c_nodes c) (c_trace c)) else []) cases.
Definition biggest := Eval vm_compute in
  fold_right Nat.max 0 (flat_map (fun c => flat_map (fun e => flat_map (fun o => match o with Bcast _ J => [length J] | _ => [] end)
                                                              (label_outs (snd e))) (c_trace c)) cases).
Print premise.
Print over.
Print biggest.
"""


def run(R):
    cov = R.coverage
    R.assumptions += [
        "limits: the bound on an honest broadcast assumes every message handed to qbft.Run carries at most 2*nodes justification parts and names cluster members only -- what the receiving wrapper's verifyMsgLimits / verifyMsg enforce before Run sees a message (a DECIDED re-broadcasts the justification it was received with: C04_limits_refuted_without_receive_check)",
        "limits: msg_values (distinct non-zero value / prepared-value hashes of main part and justification parts) is what transport.Broadcast attaches; tied to the real transport by sampled comparison, not by proof",
    ]
    cc.merge_proofs(R, "C04_limits", "limits")
    replay = os.environ.get("VERIF_REPLAY")
    rj = None
    if replay:
        try:
            rj = json.load(open(replay))
            rj = rj.get("replay", rj)
        except (OSError, ValueError):
            rj = None
        if not (isinstance(rj, dict) and ("limits_row" in rj or isinstance(rj.get("events"), list))):
            return
    # (1) + (2): the real verifyMsgLimits and transport.Broadcast
    if not (rj and "events" in rj):
        rc, out, od = vp.go_overlay_test("core/consensus/qbft", {"zz_verif_limits_test.go": OVERLAY}, run="TestVerifLimits",
                                         outdir=os.path.join(vp.WORK, "ov_qbft_limits_%s" % R.pid))
        if rc != 0:
            R.broke("correspondence:overlay test TestVerifLimits failed to run", out[-3000:])
        else:
            o = json.load(open(os.path.join(od, "qbft_limits.json")))
            rc, out = vp.coq_eval("qbft_limits_%s_tab" % R.pid, table_v(o))
            if rc != 0:
                R.broke("correspondence:gen/cases_qbft_limits_tab.v does not compile", out[-3000:])
            else:
                for n, j, v in qe.nums(vp.parse_marked(out, "table_bad"))[:5]:
                    R.violation("limits:verifyMsgLimits-table",
                                "verifyMsgLimits(nodes=%d) on a message with %d justification parts and %d values answers differently from the bound 2n / 2(parts+1): a legitimate message is dropped or an oversized one accepted" % (n, j, v),
                                {"limits_row": [n, j, v], "how": "./check C04_limits --replay <this file> re-tabulates the real verifyMsgLimits"})
                for (k,) in qe.nums(vp.parse_marked(out, "bcast_bad"))[:5]:
                    b = o["bcasts"][k]
                    R.violation("limits:transport-values",
                                "transport.Broadcast (nodes=%d, %d parts) attached %d values / its message %s verifyMsgLimits; the model expects msg_values and a pass"
                                % (b["nodes"], b["njust"], b["nvals"], "passes" if b["passes"] else "FAILS"), {"limits_row": [b["nodes"], b["njust"], b["nvals"]], "bcast": b})
                cov["evaluations"] += len(o["table"]) + len(o["bcasts"])
                cov["limits_table_rows"] = len(o["table"])
                cov["limits_transport_broadcasts"] = len(o["bcasts"])
                cov["limits_transport_at_2n_parts"] = sum(1 for b in o["bcasts"] if b["njust"] == 2 * b["nodes"])
    if rj and "limits_row" in rj:
        return
    # (3) executions of the real qbft.Run
    hs = []
    if rj:
        rc, out, od = vp.go_harness("qbft", env_extra={"VERIF_REPLAY": replay}, outdir=os.path.join(vp.WORK, "qbft_limits_replay"))
        if rc != 0:
            R.broke("correspondence:harness qbft failed to replay", out[-3000:])
            return
        hs = json.load(open(os.path.join(od, "qbft_traces.json")))
    else:
        n = 2500 if R.thorough else 300
        for run_name, fn, nn in (("TestGen", "qbft_traces.json", min(n, 1000)), ("TestCmpFun", "qbft_cmpfun.json", n)):
            rc, out, od = vp.go_harness("qbft", run=run_name, env_extra={"VERIF_N": nn}, outdir=os.path.join(vp.WORK, "qbft_limits_%s_%s" % (R.pid, run_name)))
            if rc != 0:
                R.broke("correspondence:harness qbft %s failed to run" % run_name, out[-3000:])
                continue
            for h in json.load(open(os.path.join(od, fn))):
                h["id"] = len(hs)
                hs.append(h)
    byid = {h["id"]: h for h in hs}
    jobs = [("qbft_limits_%s_%d" % (R.pid, i), traces_v(s)) for i, s in enumerate(vp.chunks(hs, 50))]
    with ThreadPoolExecutor(max_workers=max(2, vp.NPROC - 2)) as ex:
        outs = list(ex.map(lambda jb: vp.coq_eval(jb[0], jb[1]), jobs))
    premise, over, biggest = [], [], 0
    for (name, _), (rc, o) in zip(jobs, outs):
        if rc != 0:
            R.broke("correspondence:gen/cases_%s.v does not compile" % name, o[-3000:])
            continue
        premise += [x[0] for x in qe.nums(vp.parse_marked(o, "premise"))]
        over += qe.nums(vp.parse_marked(o, "over"))
        biggest = max([biggest] + [int(x) for x in (vp.parse_marked(o, "biggest") or "0").split() if x.isdigit()])
    for cid, gi in over[:5]:
        h = byid[cid]
        R.violation("limits:honest-broadcast-exceeds-limit",
                    "history %d (%s, n=%d): the process of global step %d broadcasts a message outside verifyMsgLimits / the per-type bound although every message it received respected the limit"
                    % (cid, h["kind"], h["nodes"], gi), dict(qe.replay_obj(h, gi), label=h["trace"][gi][:1500]))
    kinds = {}
    for h in hs:
        kinds[h["kind"]] = kinds.get(h["kind"], 0) + 1
    seen = {vp.digest(byid[c]["events"]) for c in premise if any("Bcast" in t and "[(mk" in t for t in byid[c]["trace"])}
    cov["evaluations"] += len(hs)
    cov["distinct_nontrivial"] += len(seen)
    cov["limits_rule"] = ("(1) every (nodes <= 10, parts <= 2n+3, values <= 2(parts+1)+3) through the real verifyMsgLimits; (2) random PRE-PREPARE broadcasts through the real transport.Broadcast "
                          "(1..7 nodes, up to 2n parts, 5 values + zero hash); (3) executions of the real core/qbft.Run from harness/qbft TestGen (cluster-*, adv-*) and TestCmpFun; the monitor applies to "
                          "histories whose received messages carry <= 2n parts and members' sources only; non-trivial = such a history with a broadcast carrying a justification; distinct by hash of the injected events")
    cov["limits_input_distribution"] = {"kinds": kinds, "histories": len(hs), "premise_holds": len(premise), "largest_justification_broadcast": biggest}
    if isinstance(cov.get("input_distribution"), dict):
        cov["input_distribution"]["limits"] = cov["limits_input_distribution"]
    elif not cov.get("input_distribution"):
        cov["input_distribution"] = {"limits": cov["limits_input_distribution"]}
    if not cov.get("rule"):
        cov["rule"] = cov["limits_rule"]
