"""C06 duty store: theorems in coq/Properties/C06.v; correspondence = trace inclusion of the label
sequences recorded from core/dutydb/memory.go in the model coq/Stores/DutyDB.v."""
import glob
import json
import os
import re

import vp


def cases_v(hs):
    rows = []
    for h in hs:
        rows.append("(%d%%nat, [%s])" % (h["id"], ";\n   ".join(h["labels"])))
    return """From Coq Require Import List NArith Bool.
From Charon Require Import Stores.DutyDB.
Import ListNotations.
Local Open Scope N_scope.
Definition cases : list (nat * list label) := [
%s
].
Definition rejects := Eval vm_compute in
  flat_map (fun c => match first_reject_diag xinit (snd c) 0 with Some (i, code) => [(fst c, i, code)] | None => [] end) cases.
Definition monitor_hits := Eval vm_compute in
  flat_map (fun c => match first_violation xginit (snd c) 0 with Some i => [(fst c, i)] | None => [] end) cases.
Definition disciplined_count := Eval vm_compute in
  length (filter (fun c => disciplined (snd c)) cases).
Print rejects.
Print monitor_hits.
Print disciplined_count.
""" % ";\n".join(rows)


def pairs(term):
    return [(int(a), int(b)) for a, b in re.findall(r"\(\s*(\d+)(?:%nat)?\s*,\s*(\d+)(?:%nat)?\s*\)", term or "")]


def triples(term):
    return [(int(a), int(b), int(c)) for a, b, c in
            re.findall(r"\(\s*(\d+)(?:%nat)?\s*,\s*(\d+)(?:%nat)?\s*,\s*(\d+)(?:%N)?\s*\)", term or "")]


DIAG = {
    1: ("model:clash-accepted", "a datum that conflicts with what is stored was not rejected (the model expects a clash error)"),
    2: ("model:reader-not-woken", "quiescence although the key of a waiting reader is stored (a satisfiable query stays blocked)"),
    3: ("model:answer-differs", "a reader got other content than the value stored first for its key"),
    4: ("model:verdict-write-not-atomic", "another operation on the store ran between a Store's expiry verdict (deadliner.Add) and the end of that Store"),
}


def nats(term):
    return [int(a) for a in re.findall(r"(\d+)%?n?a?t?", term or "")]


def label_kind(l):
    return l.split(" ", 1)[0]


def main():
    R = vp.Result("C06")
    R.assumptions = [
        "every public operation of MemDB holds db.mu for its whole body (read off core/dutydb/memory.go), so histories are sequences of atomic operations; reader wake-ups are separate labels",
        "values are abstracted to (key fields, clash-determining id, content id); equal ids <-> equal serialisations (interned per history by the harness)",
        "uniqueness of answers across an expiry needs the caller/deadliner discipline stated in the theorem (entries of a set are about the duty's slot; a duty emitted by the deadliner is never Scheduled again - property C16); without it C06_answers_unique_needs_discipline is the counterexample",
        "not modelled: Shutdown; values on which Clone/Slot/Root/HashTreeRoot fail (they return before any write)",
        "harness histories are quiescent between operations except the marked 'nowait' stores/expiries and the operations injected while a Store is inside deadliner.Add; the theorems cover all interleavings of the atomic operations",
        "label order: LAdd = instant of the deadliner's verdict, LStore = end of that Store's write; the model (code holds db.mu from Add to return) admits only lock-free events (LExpire, reader returns) in between, and 'disciplined' constrains the verdict (LAdd), not the write",
    ]
    R.proofs()
    n = 6000 if R.thorough else 300
    rc, out, od = vp.go_harness("dutydb", env_extra={"VERIF_N": n})
    if rc != 0:
        R.broke("correspondence:harness dutydb failed to run", out[-3000:])
        R.finish()
    hs = json.load(open(os.path.join(od, "dutydb_traces.json")))
    R.coverage["evaluations"] = len(hs)
    seen = set()
    kinds, lkinds, results = {}, {}, {}
    nlabels = 0
    for h in hs:
        if h.get("nontrivial"):
            seen.add(vp.digest(h["labels"]))
        k = re.sub(r"\d+", "", h["kind"])
        kinds[k] = kinds.get(k, 0) + 1
        nlabels += len(h["labels"])
        for l in h["labels"]:
            lk = label_kind(l)
            lkinds[lk] = lkinds.get(lk, 0) + 1
            if lk == "LStore":
                m = re.search(r"(None|\(Some \w+\))$", l)
                r_ = m.group(1) if m else "?"
                results[r_] = results.get(r_, 0) + 1
    R.coverage["distinct_nontrivial"] = len(seen)
    R.coverage["rule"] = ("histories of 1..40 Store / Await* / cancel / expire / PubKeyByAttestation operations against dutydb.NewMemDB with a scripted core.Deadliner "
                          "in a synctest bubble (29 scenario templates first (incl. per duty type: blocked query, failing multi-entry Store that writes the awaited key, then a successful Store that adds nothing new), then random histories over 2 slots x few committees/validators/variants so that keys overlap; the scripted deadliner's Add has a hook: while a Store is between its expiry verdict and the rest of the call the harness emits duties on C() and starts a complete other Store - on code that locks around Add that one can only run afterwards, the observed order is recorded from in-call stamps (Add, Clone); aggregates for one key with fewer / equal / strictly more aggregation bits and other signatures; "
                          "equal, conflicting and partially conflicting sets, multi-entry sets whose k-th entry clashes, wrong-type entries, cancellations, races, expiries); "
                          "non-trivial = at least one query that blocked and was resolved later, or at least one clash; distinct by hash of the observed label sequence")
    bad = [(h["id"], l) for h in hs for l in h["labels"] if "LBAD" in l]
    for cid, l in bad[:3]:
        R.broke("correspondence:harness could not classify an observation in history %d" % cid, l)
    hs = [h for h in hs if not any("LBAD" in l for l in h["labels"])]
    R.add_samples([{"script": h["script"], "labels": h["labels"]} for h in hs if h.get("nontrivial")][:2])
    byid = {h["id"]: h for h in hs}
    ndisc = 0
    for old in glob.glob(os.path.join(vp.COQ, "gen", "cases_C06_*")):   # stale shards of an earlier (larger) run
        os.remove(old)
    for shard_i, shard in enumerate(vp.chunks(hs, 1000)):
        rc, out = vp.coq_eval("C06_%d" % shard_i, cases_v(shard))
        if rc != 0:
            R.broke("correspondence:cases_C06 does not compile", out[-3000:])
            continue
        rej = triples(vp.parse_marked(out, "rejects"))
        hits = pairs(vp.parse_marked(out, "monitor_hits"))
        ndisc += sum(nats(vp.parse_marked(out, "disciplined_count")))
        for cid, idx in hits:
            h = byid[cid]
            lab = h["labels"][idx] if idx < len(h["labels"]) else "?"
            key = "trace-monitor"
            if lab.startswith("LAnswer") and "KAgg" in lab:
                key = "F2:aggregate-replaced"
            elif lab.startswith(("LAdd", "LAwaitReg", "LPubKey")) or (lab.startswith("LStore") and idx > 0 and not h["labels"][idx - 1].startswith(("LAdd", "LExpire", "LAnswer", "LCancel", "LQuiet"))):
                key = "verdict-write-not-atomic"
            R.violation(key, "observed trace violates the C06 monitor at label %d (%s)" % (idx, lab),
                        {"script": h["script"], "labels": h["labels"], "index": idx,
                         "how": "./check C06 --replay <this file> re-runs the script against /repo"})
        hit_ids = {c for c, _ in hits}
        for cid, idx, code in rej:
            if cid in hit_ids:
                continue
            h = byid[cid]
            lab = h["labels"][idx] if idx < len(h["labels"]) else "?"
            if code in DIAG:
                R.violation(DIAG[code][0], "%s at label %d (%s)" % (DIAG[code][1], idx, lab),
                            {"script": h["script"], "labels": h["labels"], "index": idx,
                             "how": "./check C06 --replay <this file> re-runs the script against /repo"})
                continue
            R.broke("correspondence:DutyDB model rejects observed trace %d at label %d (%s)" % (cid, idx, h["labels"][idx] if idx < len(h["labels"]) else "?"),
                    json.dumps({"script": h["script"], "labels": h["labels"]}))
    R.coverage["input_distribution"] = {
        "kinds": kinds, "labels_total": nlabels, "label_kinds": lkinds, "store_results": results,
        "disciplined_histories": ndisc,
        "blocked_then_resolved_queries": sum(h.get("blocked_then_resolved", 0) for h in hs),
        "clashes": sum(h.get("clashes", 0) for h in hs),
        "multi_entry_stores_with_error_after_partial_effect": sum(
            1 for h in hs for l in h["labels"] if l.startswith("LStore") and "(Some EClash" in l and re.search(r"Scheduled \[[^\]]*;", l)),
    }
    R.coverage["traces_validated_against_impl"] = len(hs)
    R.finish()
