"""C01 composition bridges (coq/Flow/PipelineBridge.v, coq/Properties/C01_bridge.v): the component
hypotheses of the C01 cluster theorems discharged from the frozen component models -- ParSigDB (C07),
SigAgg (C09), DutyDB (C06), QBFT network (C02).  Proof obligations only; called from props/C01.py."""
import time


def run(R):
    t0 = time.time()
    prev = list(R.coverage.get("theorems") or [])
    ok = R.proofs(pid="C01_bridge")
    R.coverage["theorems"] = prev + [x for x in (R.coverage.get("theorems") or []) if x not in prev]
    R.coverage["composition"] = {
        "built": bool(ok), "wall_s": round(time.time() - t0, 1),
        "discharged_from_components": [
            "C07 ParSigDB: node store rule (one entry per share per key, mismatch not released, threshold = new root group reaching t, same group) by forward simulation of complete sequential calls on Scheduled duties",
            "C09 SigAgg: publish condition (only all-genuine groups over one root)",
            "C02 QBFT: all decisions of a duty carry one root (default configuration and with compare failures), given the wiring coupling",
            "C06 DutyDB: all answers for one key carry one content => an honest client signs one root per key",
        ],
        "still_assumed": ["symbolic BLS", "wiring obligation C01_wiring (shape of the composed step, coupling predicates decide_coupled / vc_follows)",
                          "validator-client honesty (companion only)", "n + |Byz| < 2t"],
        "gaps": ["exempt and expired duties, trimming at the deadline, concurrent calls on one node and EBad entries are outside the ParSigDB simulation",
                 "error classes of store calls are not carried into Pipeline's observation field (C07's own theorems cover them)",
                 "the DutyDB and QBFT bridges are stated under explicit coupling predicates, not as a state-level product with those models"],
    }
    return ok
